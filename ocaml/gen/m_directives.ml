
(** val negb : bool -> bool **)

let negb = function
| true -> false
| false -> true

type nat =
| O
| S of nat

(** val fst : ('a1 * 'a2) -> 'a1 **)

let fst = function
| (x, _) -> x

(** val snd : ('a1 * 'a2) -> 'a2 **)

let snd = function
| (_, y) -> y

(** val length : 'a1 list -> nat **)

let rec length = function
| [] -> O
| _ :: l' -> S (length l')

(** val app : 'a1 list -> 'a1 list -> 'a1 list **)

let rec app l m =
  match l with
  | [] -> m
  | a :: l1 -> a :: (app l1 m)

type comparison =
| Eq
| Lt
| Gt

(** val sub : nat -> nat -> nat **)

let rec sub n0 m =
  match n0 with
  | O -> n0
  | S k -> (match m with
            | O -> n0
            | S l -> sub k l)

type positive =
| XI of positive
| XO of positive
| XH

type n =
| N0
| Npos of positive

type z =
| Z0
| Zpos of positive
| Zneg of positive

(** val eqb : bool -> bool -> bool **)

let eqb b1 b2 =
  if b1 then b2 else if b2 then false else true

module Nat =
 struct
  (** val leb : nat -> nat -> bool **)

  let rec leb n0 m =
    match n0 with
    | O -> true
    | S n' -> (match m with
               | O -> false
               | S m' -> leb n' m')

  (** val ltb : nat -> nat -> bool **)

  let ltb n0 m =
    leb (S n0) m
 end

module Pos =
 struct
  type mask =
  | IsNul
  | IsPos of positive
  | IsNeg
 end

module Coq_Pos =
 struct
  (** val succ : positive -> positive **)

  let rec succ = function
  | XI p -> XO (succ p)
  | XO p -> XI p
  | XH -> XO XH

  (** val add : positive -> positive -> positive **)

  let rec add x y =
    match x with
    | XI p ->
      (match y with
       | XI q -> XO (add_carry p q)
       | XO q -> XI (add p q)
       | XH -> XO (succ p))
    | XO p ->
      (match y with
       | XI q -> XI (add p q)
       | XO q -> XO (add p q)
       | XH -> XI p)
    | XH -> (match y with
             | XI q -> XO (succ q)
             | XO q -> XI q
             | XH -> XO XH)

  (** val add_carry : positive -> positive -> positive **)

  and add_carry x y =
    match x with
    | XI p ->
      (match y with
       | XI q -> XI (add_carry p q)
       | XO q -> XO (add_carry p q)
       | XH -> XI (succ p))
    | XO p ->
      (match y with
       | XI q -> XO (add_carry p q)
       | XO q -> XI (add p q)
       | XH -> XO (succ p))
    | XH ->
      (match y with
       | XI q -> XI (succ q)
       | XO q -> XO (succ q)
       | XH -> XI XH)

  (** val pred_double : positive -> positive **)

  let rec pred_double = function
  | XI p -> XI (XO p)
  | XO p -> XI (pred_double p)
  | XH -> XH

  type mask = Pos.mask =
  | IsNul
  | IsPos of positive
  | IsNeg

  (** val succ_double_mask : mask -> mask **)

  let succ_double_mask = function
  | IsNul -> IsPos XH
  | IsPos p -> IsPos (XI p)
  | IsNeg -> IsNeg

  (** val double_mask : mask -> mask **)

  let double_mask = function
  | IsPos p -> IsPos (XO p)
  | x0 -> x0

  (** val double_pred_mask : positive -> mask **)

  let double_pred_mask = function
  | XI p -> IsPos (XO (XO p))
  | XO p -> IsPos (XO (pred_double p))
  | XH -> IsNul

  (** val sub_mask : positive -> positive -> mask **)

  let rec sub_mask x y =
    match x with
    | XI p ->
      (match y with
       | XI q -> double_mask (sub_mask p q)
       | XO q -> succ_double_mask (sub_mask p q)
       | XH -> IsPos (XO p))
    | XO p ->
      (match y with
       | XI q -> succ_double_mask (sub_mask_carry p q)
       | XO q -> double_mask (sub_mask p q)
       | XH -> IsPos (pred_double p))
    | XH -> (match y with
             | XH -> IsNul
             | _ -> IsNeg)

  (** val sub_mask_carry : positive -> positive -> mask **)

  and sub_mask_carry x y =
    match x with
    | XI p ->
      (match y with
       | XI q -> succ_double_mask (sub_mask_carry p q)
       | XO q -> double_mask (sub_mask p q)
       | XH -> IsPos (pred_double p))
    | XO p ->
      (match y with
       | XI q -> double_mask (sub_mask_carry p q)
       | XO q -> succ_double_mask (sub_mask_carry p q)
       | XH -> double_pred_mask p)
    | XH -> IsNeg

  (** val mul : positive -> positive -> positive **)

  let rec mul x y =
    match x with
    | XI p -> add y (XO (mul p y))
    | XO p -> XO (mul p y)
    | XH -> y

  (** val compare_cont : comparison -> positive -> positive -> comparison **)

  let rec compare_cont r x y =
    match x with
    | XI p ->
      (match y with
       | XI q -> compare_cont r p q
       | XO q -> compare_cont Gt p q
       | XH -> Gt)
    | XO p ->
      (match y with
       | XI q -> compare_cont Lt p q
       | XO q -> compare_cont r p q
       | XH -> Gt)
    | XH -> (match y with
             | XH -> r
             | _ -> Lt)

  (** val compare : positive -> positive -> comparison **)

  let compare =
    compare_cont Eq

  (** val eqb : positive -> positive -> bool **)

  let rec eqb p q =
    match p with
    | XI p0 -> (match q with
                | XI q0 -> eqb p0 q0
                | _ -> false)
    | XO p0 -> (match q with
                | XO q0 -> eqb p0 q0
                | _ -> false)
    | XH -> (match q with
             | XH -> true
             | _ -> false)
 end

module N =
 struct
  (** val add : n -> n -> n **)

  let add n0 m =
    match n0 with
    | N0 -> m
    | Npos p -> (match m with
                 | N0 -> n0
                 | Npos q -> Npos (Coq_Pos.add p q))

  (** val sub : n -> n -> n **)

  let sub n0 m =
    match n0 with
    | N0 -> N0
    | Npos n' ->
      (match m with
       | N0 -> n0
       | Npos m' ->
         (match Coq_Pos.sub_mask n' m' with
          | Coq_Pos.IsPos p -> Npos p
          | _ -> N0))

  (** val compare : n -> n -> comparison **)

  let compare n0 m =
    match n0 with
    | N0 -> (match m with
             | N0 -> Eq
             | Npos _ -> Lt)
    | Npos n' -> (match m with
                  | N0 -> Gt
                  | Npos m' -> Coq_Pos.compare n' m')

  (** val eqb : n -> n -> bool **)

  let eqb n0 m =
    match n0 with
    | N0 -> (match m with
             | N0 -> true
             | Npos _ -> false)
    | Npos p -> (match m with
                 | N0 -> false
                 | Npos q -> Coq_Pos.eqb p q)

  (** val leb : n -> n -> bool **)

  let leb x y =
    match compare x y with
    | Gt -> false
    | _ -> true

  (** val ltb : n -> n -> bool **)

  let ltb x y =
    match compare x y with
    | Lt -> true
    | _ -> false
 end

module Z =
 struct
  (** val double : z -> z **)

  let double = function
  | Z0 -> Z0
  | Zpos p -> Zpos (XO p)
  | Zneg p -> Zneg (XO p)

  (** val succ_double : z -> z **)

  let succ_double = function
  | Z0 -> Zpos XH
  | Zpos p -> Zpos (XI p)
  | Zneg p -> Zneg (Coq_Pos.pred_double p)

  (** val pred_double : z -> z **)

  let pred_double = function
  | Z0 -> Zneg XH
  | Zpos p -> Zpos (Coq_Pos.pred_double p)
  | Zneg p -> Zneg (XI p)

  (** val pos_sub : positive -> positive -> z **)

  let rec pos_sub x y =
    match x with
    | XI p ->
      (match y with
       | XI q -> double (pos_sub p q)
       | XO q -> succ_double (pos_sub p q)
       | XH -> Zpos (XO p))
    | XO p ->
      (match y with
       | XI q -> pred_double (pos_sub p q)
       | XO q -> double (pos_sub p q)
       | XH -> Zpos (Coq_Pos.pred_double p))
    | XH ->
      (match y with
       | XI q -> Zneg (XO q)
       | XO q -> Zneg (Coq_Pos.pred_double q)
       | XH -> Z0)

  (** val add : z -> z -> z **)

  let add x y =
    match x with
    | Z0 -> y
    | Zpos x' ->
      (match y with
       | Z0 -> x
       | Zpos y' -> Zpos (Coq_Pos.add x' y')
       | Zneg y' -> pos_sub x' y')
    | Zneg x' ->
      (match y with
       | Z0 -> x
       | Zpos y' -> pos_sub y' x'
       | Zneg y' -> Zneg (Coq_Pos.add x' y'))

  (** val opp : z -> z **)

  let opp = function
  | Z0 -> Z0
  | Zpos x0 -> Zneg x0
  | Zneg x0 -> Zpos x0

  (** val mul : z -> z -> z **)

  let mul x y =
    match x with
    | Z0 -> Z0
    | Zpos x' ->
      (match y with
       | Z0 -> Z0
       | Zpos y' -> Zpos (Coq_Pos.mul x' y')
       | Zneg y' -> Zneg (Coq_Pos.mul x' y'))
    | Zneg x' ->
      (match y with
       | Z0 -> Z0
       | Zpos y' -> Zneg (Coq_Pos.mul x' y')
       | Zneg y' -> Zpos (Coq_Pos.mul x' y'))

  (** val eqb : z -> z -> bool **)

  let eqb x y =
    match x with
    | Z0 -> (match y with
             | Z0 -> true
             | _ -> false)
    | Zpos p -> (match y with
                 | Zpos q -> Coq_Pos.eqb p q
                 | _ -> false)
    | Zneg p -> (match y with
                 | Zneg q -> Coq_Pos.eqb p q
                 | _ -> false)

  (** val of_N : n -> z **)

  let of_N = function
  | N0 -> Z0
  | Npos p -> Zpos p
 end

(** val rev : 'a1 list -> 'a1 list **)

let rec rev = function
| [] -> []
| x :: l' -> app (rev l') (x :: [])

(** val concat : 'a1 list list -> 'a1 list **)

let rec concat = function
| [] -> []
| x :: l0 -> app x (concat l0)

(** val map : ('a1 -> 'a2) -> 'a1 list -> 'a2 list **)

let rec map f = function
| [] -> []
| a :: t -> (f a) :: (map f t)

(** val fold_left : ('a1 -> 'a2 -> 'a1) -> 'a2 list -> 'a1 -> 'a1 **)

let rec fold_left f l a0 =
  match l with
  | [] -> a0
  | b :: t -> fold_left f t (f a0 b)

(** val existsb : ('a1 -> bool) -> 'a1 list -> bool **)

let rec existsb f = function
| [] -> false
| a :: l0 -> (||) (f a) (existsb f l0)

(** val forallb : ('a1 -> bool) -> 'a1 list -> bool **)

let rec forallb f = function
| [] -> true
| a :: l0 -> (&&) (f a) (forallb f l0)

(** val filter : ('a1 -> bool) -> 'a1 list -> 'a1 list **)

let rec filter f = function
| [] -> []
| x :: l0 -> if f x then x :: (filter f l0) else filter f l0

(** val firstn : nat -> 'a1 list -> 'a1 list **)

let rec firstn n0 l =
  match n0 with
  | O -> []
  | S n1 -> (match l with
             | [] -> []
             | a :: l0 -> a :: (firstn n1 l0))

(** val ex_keep :
    (((((nat * n) * z) * z list) * z option) * positive) * bool **)

let ex_keep =
  ((((((O, N0), Z0), []), None), XH), true)

type str = n list

(** val str_eqb : str -> str -> bool **)

let rec str_eqb a b =
  match a with
  | [] -> (match b with
           | [] -> true
           | _ :: _ -> false)
  | x :: a' ->
    (match b with
     | [] -> false
     | y :: b' -> (&&) (N.eqb x y) (str_eqb a' b'))

(** val mem : str -> str list -> bool **)

let mem s l =
  existsb (str_eqb s) l

(** val py_isspace : n -> bool **)

let py_isspace c =
  (||)
    ((||)
      ((||)
        ((||)
          ((||)
            ((||)
              ((||)
                ((||)
                  ((||)
                    ((||)
                      ((&&) (N.leb (Npos (XI (XO (XO XH)))) c)
                        (N.leb c (Npos (XI (XO (XI XH))))))
                      ((&&) (N.leb (Npos (XO (XO (XI (XI XH))))) c)
                        (N.leb c (Npos (XO (XO (XO (XO (XO XH)))))))))
                    (N.eqb c (Npos (XI (XO (XI (XO (XO (XO (XO XH))))))))))
                  (N.eqb c (Npos (XO (XO (XO (XO (XO (XI (XO XH))))))))))
                (N.eqb c (Npos (XO (XO (XO (XO (XO (XO (XO (XI (XO (XI (XI
                  (XO XH)))))))))))))))
              ((&&)
                (N.leb (Npos (XO (XO (XO (XO (XO (XO (XO (XO (XO (XO (XO (XO
                  (XO XH)))))))))))))) c)
                (N.leb c (Npos (XO (XI (XO (XI (XO (XO (XO (XO (XO (XO (XO
                  (XO (XO XH)))))))))))))))))
            (N.eqb c (Npos (XO (XO (XO (XI (XO (XI (XO (XO (XO (XO (XO (XO
              (XO XH))))))))))))))))
          (N.eqb c (Npos (XI (XO (XO (XI (XO (XI (XO (XO (XO (XO (XO (XO (XO
            XH))))))))))))))))
        (N.eqb c (Npos (XI (XI (XI (XI (XO (XI (XO (XO (XO (XO (XO (XO (XO
          XH))))))))))))))))
      (N.eqb c (Npos (XI (XI (XI (XI (XI (XO (XI (XO (XO (XO (XO (XO (XO
        XH))))))))))))))))
    (N.eqb c (Npos (XO (XO (XO (XO (XO (XO (XO (XO (XO (XO (XO (XO (XI
      XH)))))))))))))))

(** val lstrip : str -> str **)

let rec lstrip s = match s with
| [] -> []
| c :: r -> if py_isspace c then lstrip r else s

(** val strip : str -> str **)

let strip s =
  rev (lstrip (rev (lstrip s)))

(** val split_on : n -> str -> str list **)

let rec split_on c = function
| [] -> [] :: []
| x :: r ->
  if N.eqb x c
  then [] :: (split_on c r)
  else (match split_on c r with
        | [] -> (x :: []) :: []
        | f :: fs -> (x :: f) :: fs)

(** val cut_at : n -> str -> (str * str) option **)

let rec cut_at c = function
| [] -> None
| x :: r ->
  if N.eqb x c
  then Some ([], r)
  else (match cut_at c r with
        | Some p -> let (a, b) = p in Some ((x :: a), b)
        | None -> None)

(** val lower_char : n -> n **)

let lower_char c =
  if (&&) (N.leb (Npos (XI (XO (XO (XO (XO (XO XH))))))) c)
       (N.leb c (Npos (XO (XI (XO (XI (XI (XO XH))))))))
  then N.add c (Npos (XO (XO (XO (XO (XO XH))))))
  else c

(** val lower : str -> str **)

let lower s =
  map lower_char s

(** val starts_with : str -> str -> bool **)

let rec starts_with p s =
  match p with
  | [] -> true
  | x :: p' ->
    (match s with
     | [] -> false
     | y :: s' -> (&&) (N.eqb x y) (starts_with p' s'))

(** val ends_with : str -> str -> bool **)

let ends_with suffix s =
  starts_with (rev suffix) (rev s)

(** val drop_last : nat -> str -> str **)

let drop_last n0 s =
  firstn (sub (length s) n0) s

(** val to_ascii : (n -> n option) -> n -> n **)

let to_ascii digit_val c =
  if N.ltb c (Npos (XI (XI (XI (XI (XI (XI XH)))))))
  then c
  else if py_isspace c
       then Npos (XO (XO (XO (XO (XO XH)))))
       else (match digit_val c with
             | Some d -> N.add (Npos (XO (XO (XO (XO (XI XH)))))) d
             | None -> Npos (XI (XI (XI (XI (XI XH))))))

(** val c_isspace : n -> bool **)

let c_isspace c =
  (||)
    ((&&) (N.leb (Npos (XI (XO (XO XH)))) c)
      (N.leb c (Npos (XI (XO (XI XH))))))
    (N.eqb c (Npos (XO (XO (XO (XO (XO XH)))))))

(** val c_lstrip : str -> str **)

let rec c_lstrip s = match s with
| [] -> []
| c :: r -> if c_isspace c then c_lstrip r else s

(** val c_strip : str -> str **)

let c_strip s =
  rev (c_lstrip (rev (c_lstrip s)))

(** val is_digit : n -> bool **)

let is_digit c =
  (&&) (N.leb (Npos (XO (XO (XO (XO (XI XH)))))) c)
    (N.leb c (Npos (XI (XO (XO (XI (XI XH)))))))

(** val all_digits : str -> bool **)

let all_digits g = match g with
| [] -> false
| _ :: _ -> forallb is_digit g

(** val horner : str -> z **)

let horner ds =
  fold_left (fun acc c ->
    Z.add (Z.mul acc (Zpos (XO (XI (XO XH)))))
      (Z.of_N (N.sub c (Npos (XO (XO (XO (XO (XI XH))))))))) ds Z0

(** val max_str_digits : nat **)

let max_str_digits =
  S (S (S (S (S (S (S (S (S (S (S (S (S (S (S (S (S (S (S (S (S (S (S (S (S
    (S (S (S (S (S (S (S (S (S (S (S (S (S (S (S (S (S (S (S (S (S (S (S (S
    (S (S (S (S (S (S (S (S (S (S (S (S (S (S (S (S (S (S (S (S (S (S (S (S
    (S (S (S (S (S (S (S (S (S (S (S (S (S (S (S (S (S (S (S (S (S (S (S (S
    (S (S (S (S (S (S (S (S (S (S (S (S (S (S (S (S (S (S (S (S (S (S (S (S
    (S (S (S (S (S (S (S (S (S (S (S (S (S (S (S (S (S (S (S (S (S (S (S (S
    (S (S (S (S (S (S (S (S (S (S (S (S (S (S (S (S (S (S (S (S (S (S (S (S
    (S (S (S (S (S (S (S (S (S (S (S (S (S (S (S (S (S (S (S (S (S (S (S (S
    (S (S (S (S (S (S (S (S (S (S (S (S (S (S (S (S (S (S (S (S (S (S (S (S
    (S (S (S (S (S (S (S (S (S (S (S (S (S (S (S (S (S (S (S (S (S (S (S (S
    (S (S (S (S (S (S (S (S (S (S (S (S (S (S (S (S (S (S (S (S (S (S (S (S
    (S (S (S (S (S (S (S (S (S (S (S (S (S (S (S (S (S (S (S (S (S (S (S (S
    (S (S (S (S (S (S (S (S (S (S (S (S (S (S (S (S (S (S (S (S (S (S (S (S
    (S (S (S (S (S (S (S (S (S (S (S (S (S (S (S (S (S (S (S (S (S (S (S (S
    (S (S (S (S (S (S (S (S (S (S (S (S (S (S (S (S (S (S (S (S (S (S (S (S
    (S (S (S (S (S (S (S (S (S (S (S (S (S (S (S (S (S (S (S (S (S (S (S (S
    (S (S (S (S (S (S (S (S (S (S (S (S (S (S (S (S (S (S (S (S (S (S (S (S
    (S (S (S (S (S (S (S (S (S (S (S (S (S (S (S (S (S (S (S (S (S (S (S (S
    (S (S (S (S (S (S (S (S (S (S (S (S (S (S (S (S (S (S (S (S (S (S (S (S
    (S (S (S (S (S (S (S (S (S (S (S (S (S (S (S (S (S (S (S (S (S (S (S (S
    (S (S (S (S (S (S (S (S (S (S (S (S (S (S (S (S (S (S (S (S (S (S (S (S
    (S (S (S (S (S (S (S (S (S (S (S (S (S (S (S (S (S (S (S (S (S (S (S (S
    (S (S (S (S (S (S (S (S (S (S (S (S (S (S (S (S (S (S (S (S (S (S (S (S
    (S (S (S (S (S (S (S (S (S (S (S (S (S (S (S (S (S (S (S (S (S (S (S (S
    (S (S (S (S (S (S (S (S (S (S (S (S (S (S (S (S (S (S (S (S (S (S (S (S
    (S (S (S (S (S (S (S (S (S (S (S (S (S (S (S (S (S (S (S (S (S (S (S (S
    (S (S (S (S (S (S (S (S (S (S (S (S (S (S (S (S (S (S (S (S (S (S (S (S
    (S (S (S (S (S (S (S (S (S (S (S (S (S (S (S (S (S (S (S (S (S (S (S (S
    (S (S (S (S (S (S (S (S (S (S (S (S (S (S (S (S (S (S (S (S (S (S (S (S
    (S (S (S (S (S (S (S (S (S (S (S (S (S (S (S (S (S (S (S (S (S (S (S (S
    (S (S (S (S (S (S (S (S (S (S (S (S (S (S (S (S (S (S (S (S (S (S (S (S
    (S (S (S (S (S (S (S (S (S (S (S (S (S (S (S (S (S (S (S (S (S (S (S (S
    (S (S (S (S (S (S (S (S (S (S (S (S (S (S (S (S (S (S (S (S (S (S (S (S
    (S (S (S (S (S (S (S (S (S (S (S (S (S (S (S (S (S (S (S (S (S (S (S (S
    (S (S (S (S (S (S (S (S (S (S (S (S (S (S (S (S (S (S (S (S (S (S (S (S
    (S (S (S (S (S (S (S (S (S (S (S (S (S (S (S (S (S (S (S (S (S (S (S (S
    (S (S (S (S (S (S (S (S (S (S (S (S (S (S (S (S (S (S (S (S (S (S (S (S
    (S (S (S (S (S (S (S (S (S (S (S (S (S (S (S (S (S (S (S (S (S (S (S (S
    (S (S (S (S (S (S (S (S (S (S (S (S (S (S (S (S (S (S (S (S (S (S (S (S
    (S (S (S (S (S (S (S (S (S (S (S (S (S (S (S (S (S (S (S (S (S (S (S (S
    (S (S (S (S (S (S (S (S (S (S (S (S (S (S (S (S (S (S (S (S (S (S (S (S
    (S (S (S (S (S (S (S (S (S (S (S (S (S (S (S (S (S (S (S (S (S (S (S (S
    (S (S (S (S (S (S (S (S (S (S (S (S (S (S (S (S (S (S (S (S (S (S (S (S
    (S (S (S (S (S (S (S (S (S (S (S (S (S (S (S (S (S (S (S (S (S (S (S (S
    (S (S (S (S (S (S (S (S (S (S (S (S (S (S (S (S (S (S (S (S (S (S (S (S
    (S (S (S (S (S (S (S (S (S (S (S (S (S (S (S (S (S (S (S (S (S (S (S (S
    (S (S (S (S (S (S (S (S (S (S (S (S (S (S (S (S (S (S (S (S (S (S (S (S
    (S (S (S (S (S (S (S (S (S (S (S (S (S (S (S (S (S (S (S (S (S (S (S (S
    (S (S (S (S (S (S (S (S (S (S (S (S (S (S (S (S (S (S (S (S (S (S (S (S
    (S (S (S (S (S (S (S (S (S (S (S (S (S (S (S (S (S (S (S (S (S (S (S (S
    (S (S (S (S (S (S (S (S (S (S (S (S (S (S (S (S (S (S (S (S (S (S (S (S
    (S (S (S (S (S (S (S (S (S (S (S (S (S (S (S (S (S (S (S (S (S (S (S (S
    (S (S (S (S (S (S (S (S (S (S (S (S (S (S (S (S (S (S (S (S (S (S (S (S
    (S (S (S (S (S (S (S (S (S (S (S (S (S (S (S (S (S (S (S (S (S (S (S (S
    (S (S (S (S (S (S (S (S (S (S (S (S (S (S (S (S (S (S (S (S (S (S (S (S
    (S (S (S (S (S (S (S (S (S (S (S (S (S (S (S (S (S (S (S (S (S (S (S (S
    (S (S (S (S (S (S (S (S (S (S (S (S (S (S (S (S (S (S (S (S (S (S (S (S
    (S (S (S (S (S (S (S (S (S (S (S (S (S (S (S (S (S (S (S (S (S (S (S (S
    (S (S (S (S (S (S (S (S (S (S (S (S (S (S (S (S (S (S (S (S (S (S (S (S
    (S (S (S (S (S (S (S (S (S (S (S (S (S (S (S (S (S (S (S (S (S (S (S (S
    (S (S (S (S (S (S (S (S (S (S (S (S (S (S (S (S (S (S (S (S (S (S (S (S
    (S (S (S (S (S (S (S (S (S (S (S (S (S (S (S (S (S (S (S (S (S (S (S (S
    (S (S (S (S (S (S (S (S (S (S (S (S (S (S (S (S (S (S (S (S (S (S (S (S
    (S (S (S (S (S (S (S (S (S (S (S (S (S (S (S (S (S (S (S (S (S (S (S (S
    (S (S (S (S (S (S (S (S (S (S (S (S (S (S (S (S (S (S (S (S (S (S (S (S
    (S (S (S (S (S (S (S (S (S (S (S (S (S (S (S (S (S (S (S (S (S (S (S (S
    (S (S (S (S (S (S (S (S (S (S (S (S (S (S (S (S (S (S (S (S (S (S (S (S
    (S (S (S (S (S (S (S (S (S (S (S (S (S (S (S (S (S (S (S (S (S (S (S (S
    (S (S (S (S (S (S (S (S (S (S (S (S (S (S (S (S (S (S (S (S (S (S (S (S
    (S (S (S (S (S (S (S (S (S (S (S (S (S (S (S (S (S (S (S (S (S (S (S (S
    (S (S (S (S (S (S (S (S (S (S (S (S (S (S (S (S (S (S (S (S (S (S (S (S
    (S (S (S (S (S (S (S (S (S (S (S (S (S (S (S (S (S (S (S (S (S (S (S (S
    (S (S (S (S (S (S (S (S (S (S (S (S (S (S (S (S (S (S (S (S (S (S (S (S
    (S (S (S (S (S (S (S (S (S (S (S (S (S (S (S (S (S (S (S (S (S (S (S (S
    (S (S (S (S (S (S (S (S (S (S (S (S (S (S (S (S (S (S (S (S (S (S (S (S
    (S (S (S (S (S (S (S (S (S (S (S (S (S (S (S (S (S (S (S (S (S (S (S (S
    (S (S (S (S (S (S (S (S (S (S (S (S (S (S (S (S (S (S (S (S (S (S (S (S
    (S (S (S (S (S (S (S (S (S (S (S (S (S (S (S (S (S (S (S (S (S (S (S (S
    (S (S (S (S (S (S (S (S (S (S (S (S (S (S (S (S (S (S (S (S (S (S (S (S
    (S (S (S (S (S (S (S (S (S (S (S (S (S (S (S (S (S (S (S (S (S (S (S (S
    (S (S (S (S (S (S (S (S (S (S (S (S (S (S (S (S (S (S (S (S (S (S (S (S
    (S (S (S (S (S (S (S (S (S (S (S (S (S (S (S (S (S (S (S (S (S (S (S (S
    (S (S (S (S (S (S (S (S (S (S (S (S (S (S (S (S (S (S (S (S (S (S (S (S
    (S (S (S (S (S (S (S (S (S (S (S (S (S (S (S (S (S (S (S (S (S (S (S (S
    (S (S (S (S (S (S (S (S (S (S (S (S (S (S (S (S (S (S (S (S (S (S (S (S
    (S (S (S (S (S (S (S (S (S (S (S (S (S (S (S (S (S (S (S (S (S (S (S (S
    (S (S (S (S (S (S (S (S (S (S (S (S (S (S (S (S (S (S (S (S (S (S (S (S
    (S (S (S (S (S (S (S (S (S (S (S (S (S (S (S (S (S (S (S (S (S (S (S (S
    (S (S (S (S (S (S (S (S (S (S (S (S (S (S (S (S (S (S (S (S (S (S (S (S
    (S (S (S (S (S (S (S (S (S (S (S (S (S (S (S (S (S (S (S (S (S (S (S (S
    (S (S (S (S (S (S (S (S (S (S (S (S (S (S (S (S (S (S (S (S (S (S (S (S
    (S (S (S (S (S (S (S (S (S (S (S (S (S (S (S (S (S (S (S (S (S (S (S (S
    (S (S (S (S (S (S (S (S (S (S (S (S (S (S (S (S (S (S (S (S (S (S (S (S
    (S (S (S (S (S (S (S (S (S (S (S (S (S (S (S (S (S (S (S (S (S (S (S (S
    (S (S (S (S (S (S (S (S (S (S (S (S (S (S (S (S (S (S (S (S (S (S (S (S
    (S (S (S (S (S (S (S (S (S (S (S (S (S (S (S (S (S (S (S (S (S (S (S (S
    (S (S (S (S (S (S (S (S (S (S (S (S (S (S (S (S (S (S (S (S (S (S (S (S
    (S (S (S (S (S (S (S (S (S (S (S (S (S (S (S (S (S (S (S (S (S (S (S (S
    (S (S (S (S (S (S (S (S (S (S (S (S (S (S (S (S (S (S (S (S (S (S (S (S
    (S (S (S (S (S (S (S (S (S (S (S (S (S (S (S (S (S (S (S (S (S (S (S (S
    (S (S (S (S (S (S (S (S (S (S (S (S (S (S (S (S (S (S (S (S (S (S (S (S
    (S (S (S (S (S (S (S (S (S (S (S (S (S (S (S (S (S (S (S (S (S (S (S (S
    (S (S (S (S (S (S (S (S (S (S (S (S (S (S (S (S (S (S (S (S (S (S (S (S
    (S (S (S (S (S (S (S (S (S (S (S (S (S (S (S (S (S (S (S (S (S (S (S (S
    (S (S (S (S (S (S (S (S (S (S (S (S (S (S (S (S (S (S (S (S (S (S (S (S
    (S (S (S (S (S (S (S (S (S (S (S (S (S (S (S (S (S (S (S (S (S (S (S (S
    (S (S (S (S (S (S (S (S (S (S (S (S (S (S (S (S (S (S (S (S (S (S (S (S
    (S (S (S (S (S (S (S (S (S (S (S (S (S (S (S (S (S (S (S (S (S (S (S (S
    (S (S (S (S (S (S (S (S (S (S (S (S (S (S (S (S (S (S (S (S (S (S (S (S
    (S (S (S (S (S (S (S (S (S (S (S (S (S (S (S (S (S (S (S (S (S (S (S (S
    (S (S (S (S (S (S (S (S (S (S (S (S (S (S (S (S (S (S (S (S (S (S (S (S
    (S (S (S (S (S (S (S (S (S (S (S (S (S (S (S (S (S (S (S (S (S (S (S (S
    (S (S (S (S (S (S (S (S (S (S (S (S (S (S (S (S (S (S (S (S (S (S (S (S
    (S (S (S (S (S (S (S (S (S (S (S (S (S (S (S (S (S (S (S (S (S (S (S (S
    (S (S (S (S (S (S (S (S (S (S (S (S (S (S (S (S (S (S (S (S (S (S (S (S
    (S (S (S (S (S (S (S (S (S (S (S (S (S (S (S (S (S (S (S (S (S (S (S (S
    (S (S (S (S (S (S (S (S (S (S (S (S (S (S (S (S (S (S (S (S (S (S (S (S
    (S (S (S (S (S (S (S (S (S (S (S (S (S (S (S (S (S (S (S (S (S (S (S (S
    (S (S (S (S (S (S (S (S (S (S (S (S (S (S (S (S (S (S (S (S (S (S (S (S
    (S (S (S (S (S (S (S (S (S (S (S (S (S (S (S (S (S (S (S (S (S (S (S (S
    (S (S (S (S (S (S (S (S (S (S (S (S (S (S (S (S (S (S (S (S (S (S (S (S
    (S (S (S (S (S (S (S (S (S (S (S (S (S (S (S (S (S (S (S (S (S (S (S (S
    (S (S (S (S (S (S (S (S (S (S (S (S (S (S (S (S (S (S (S (S (S (S (S (S
    (S (S (S (S (S (S (S (S (S (S (S (S (S (S (S (S (S (S (S (S (S (S (S (S
    (S (S (S (S (S (S (S (S (S (S (S (S (S (S (S (S (S (S (S (S (S (S (S (S
    (S (S (S (S (S (S (S (S (S (S (S (S (S (S (S (S (S (S (S (S (S (S (S (S
    (S (S (S (S (S (S (S (S (S (S (S (S (S (S (S (S (S (S (S (S (S (S (S (S
    (S (S (S (S (S (S (S (S (S (S (S (S (S (S (S (S (S (S (S (S (S (S (S (S
    (S (S (S (S (S (S (S (S (S (S (S (S (S (S (S (S (S (S (S (S (S (S (S (S
    (S (S (S (S (S (S (S (S (S (S (S (S (S (S (S (S (S (S (S (S (S (S (S (S
    (S (S (S (S (S (S (S (S (S (S (S (S (S (S (S (S (S (S (S (S (S (S (S (S
    (S (S (S (S (S (S (S (S (S (S (S (S (S (S (S (S (S (S (S (S (S (S (S (S
    (S (S (S (S (S (S (S (S (S (S (S (S (S (S (S (S (S (S (S (S (S (S (S (S
    (S (S (S (S (S (S (S (S (S (S (S (S (S (S (S (S (S (S (S (S (S (S (S (S
    (S (S (S (S (S (S (S (S (S (S (S (S (S (S (S (S (S (S (S (S (S (S (S (S
    (S (S (S (S (S (S (S (S (S (S (S (S (S (S (S (S (S (S (S (S (S (S (S (S
    (S (S (S (S (S (S (S (S (S (S (S (S (S (S (S (S (S (S (S (S (S (S (S (S
    (S (S (S (S (S (S (S (S (S (S (S (S (S (S (S (S (S (S (S (S (S (S (S (S
    (S (S (S (S (S (S (S (S (S (S (S (S (S (S (S (S (S (S (S (S (S (S (S (S
    (S (S (S (S (S (S (S (S (S (S (S (S (S (S (S (S (S (S (S (S (S (S (S (S
    (S (S (S (S (S (S (S (S (S (S (S (S (S (S (S (S (S (S (S (S (S (S (S (S
    (S (S (S (S (S (S (S (S (S (S (S (S (S (S (S (S (S (S (S (S (S (S (S (S
    (S (S (S (S (S (S (S (S (S (S (S (S (S (S (S (S (S (S (S (S (S (S (S (S
    (S (S (S (S (S (S (S (S (S (S (S (S (S (S (S (S (S (S (S (S (S (S (S (S
    (S (S (S (S (S (S (S (S (S (S (S (S (S (S (S (S (S (S (S (S (S (S (S (S
    (S (S (S (S (S (S (S (S (S (S (S (S (S (S (S (S (S (S (S (S (S (S (S (S
    (S (S (S (S (S (S (S (S (S (S (S (S (S (S (S (S (S (S (S (S (S (S (S (S
    (S (S (S (S (S (S (S (S (S (S (S (S (S (S (S (S (S (S (S (S (S (S (S (S
    (S (S (S (S (S (S (S (S (S (S (S (S (S (S (S (S (S (S (S (S (S (S (S (S
    (S (S (S (S (S (S (S (S (S (S (S (S (S (S (S (S (S (S (S (S (S (S (S (S
    (S (S (S (S (S (S (S (S (S (S (S (S (S (S (S (S (S (S (S (S (S (S (S (S
    (S (S (S (S (S (S (S (S (S (S (S (S (S (S (S (S (S (S (S (S (S (S (S (S
    (S (S (S (S (S (S (S (S (S (S (S (S (S (S (S (S (S (S (S (S (S (S (S (S
    (S (S (S (S (S (S (S (S (S (S (S (S (S (S (S (S (S (S (S (S (S (S (S (S
    (S (S (S (S (S (S (S (S (S (S (S (S (S (S (S (S (S (S (S (S (S (S (S (S
    (S (S (S (S (S (S (S (S (S (S (S (S (S (S (S (S (S (S (S (S (S (S (S (S
    (S (S (S (S (S (S (S (S (S (S (S (S (S (S (S (S (S (S (S (S (S (S (S (S
    (S (S (S (S (S (S (S (S (S (S (S (S (S (S (S (S (S (S (S (S (S (S (S (S
    (S (S (S (S (S (S (S (S (S (S (S (S (S (S (S (S (S (S (S (S (S (S (S (S
    (S (S (S (S (S (S (S (S (S (S (S (S (S (S (S (S (S (S (S (S (S (S (S (S
    (S (S (S (S (S (S (S (S (S (S (S (S (S (S (S (S (S (S (S (S (S (S (S (S
    (S (S (S (S (S (S (S (S (S (S (S (S (S (S (S (S (S (S (S (S (S (S (S (S
    (S (S (S (S (S (S (S (S (S (S (S (S (S (S (S (S (S (S (S (S (S (S (S (S
    (S (S (S (S (S (S (S (S (S (S (S (S (S (S (S (S (S (S (S (S (S (S (S (S
    (S (S (S (S (S (S (S (S (S (S (S (S (S (S (S (S (S (S (S (S (S (S (S (S
    (S (S (S (S (S (S (S (S (S (S (S (S (S (S (S (S (S (S (S (S (S (S (S (S
    (S (S (S (S (S (S (S (S (S (S (S (S (S (S (S (S (S (S (S (S (S (S (S (S
    (S (S (S (S (S (S (S (S (S (S (S (S (S (S (S (S (S (S (S (S (S (S (S (S
    (S (S (S (S (S (S (S (S (S (S (S (S (S (S (S (S (S (S (S (S (S (S (S (S
    (S (S (S (S (S (S (S (S (S (S (S (S (S (S (S (S (S (S (S (S (S (S (S (S
    (S (S (S (S (S (S (S (S (S (S (S (S (S (S (S (S (S (S (S (S (S (S (S (S
    (S (S (S (S (S (S (S (S (S (S (S (S (S (S (S (S (S (S (S (S (S (S (S (S
    (S (S (S (S (S (S (S (S (S (S (S (S (S (S (S (S (S (S (S (S (S (S (S (S
    (S (S (S (S (S (S (S (S (S (S (S (S (S (S (S (S (S (S (S (S (S (S (S (S
    (S (S (S (S (S (S (S (S (S (S (S (S (S (S (S (S (S (S (S (S (S (S (S (S
    (S (S (S (S (S (S (S (S (S (S (S (S (S (S (S (S (S (S (S (S (S (S (S (S
    (S (S (S (S (S (S (S (S (S (S (S (S (S (S (S (S (S (S (S (S (S (S (S (S
    (S (S (S (S (S (S (S (S (S (S (S (S (S (S (S (S (S (S (S (S (S (S (S (S
    (S (S (S (S (S (S (S (S (S (S (S (S (S (S (S (S (S (S (S (S (S (S (S (S
    (S (S (S
    O)))))))))))))))))))))))))))))))))))))))))))))))))))))))))))))))))))))))))))))))))))))))))))))))))))))))))))))))))))))))))))))))))))))))))))))))))))))))))))))))))))))))))))))))))))))))))))))))))))))))))))))))))))))))))))))))))))))))))))))))))))))))))))))))))))))))))))))))))))))))))))))))))))))))))))))))))))))))))))))))))))))))))))))))))))))))))))))))))))))))))))))))))))))))))))))))))))))))))))))))))))))))))))))))))))))))))))))))))))))))))))))))))))))))))))))))))))))))))))))))))))))))))))))))))))))))))))))))))))))))))))))))))))))))))))))))))))))))))))))))))))))))))))))))))))))))))))))))))))))))))))))))))))))))))))))))))))))))))))))))))))))))))))))))))))))))))))))))))))))))))))))))))))))))))))))))))))))))))))))))))))))))))))))))))))))))))))))))))))))))))))))))))))))))))))))))))))))))))))))))))))))))))))))))))))))))))))))))))))))))))))))))))))))))))))))))))))))))))))))))))))))))))))))))))))))))))))))))))))))))))))))))))))))))))))))))))))))))))))))))))))))))))))))))))))))))))))))))))))))))))))))))))))))))))))))))))))))))))))))))))))))))))))))))))))))))))))))))))))))))))))))))))))))))))))))))))))))))))))))))))))))))))))))))))))))))))))))))))))))))))))))))))))))))))))))))))))))))))))))))))))))))))))))))))))))))))))))))))))))))))))))))))))))))))))))))))))))))))))))))))))))))))))))))))))))))))))))))))))))))))))))))))))))))))))))))))))))))))))))))))))))))))))))))))))))))))))))))))))))))))))))))))))))))))))))))))))))))))))))))))))))))))))))))))))))))))))))))))))))))))))))))))))))))))))))))))))))))))))))))))))))))))))))))))))))))))))))))))))))))))))))))))))))))))))))))))))))))))))))))))))))))))))))))))))))))))))))))))))))))))))))))))))))))))))))))))))))))))))))))))))))))))))))))))))))))))))))))))))))))))))))))))))))))))))))))))))))))))))))))))))))))))))))))))))))))))))))))))))))))))))))))))))))))))))))))))))))))))))))))))))))))))))))))))))))))))))))))))))))))))))))))))))))))))))))))))))))))))))))))))))))))))))))))))))))))))))))))))))))))))))))))))))))))))))))))))))))))))))))))))))))))))))))))))))))))))))))))))))))))))))))))))))))))))))))))))))))))))))))))))))))))))))))))))))))))))))))))))))))))))))))))))))))))))))))))))))))))))))))))))))))))))))))))))))))))))))))))))))))))))))))))))))))))))))))))))))))))))))))))))))))))))))))))))))))))))))))))))))))))))))))))))))))))))))))))))))))))))))))))))))))))))))))))))))))))))))))))))))))))))))))))))))))))))))))))))))))))))))))))))))))))))))))))))))))))))))))))))))))))))))))))))))))))))))))))))))))))))))))))))))))))))))))))))))))))))))))))))))))))))))))))))))))))))))))))))))))))))))))))))))))))))))))))))))))))))))))))))))))))))))))))))))))))))))))))))))))))))))))))))))))))))))))))))))))))))))))))))))))))))))))))))))))))))))))))))))))))))))))))))))))))))))))))))))))))))))))))))))))))))))))))))))))))))))))))))))))))))))))))))))))))))))))))))))))))))))))))))))))))))))))))))))))))))))))))))))))))))))))))))))))))))))))))))))))))))))))))))))))))))))))))))))))))))))))))))))))))))))))))))))))))))))))))))))))))))))))))))))))))))))))))))))))))))))))))))))))))))))))))))))))))))))))))))))))))))))))))))))))))))))))))))))))))))))))))))))))))))))))))))))))))))))))))))))))))))))))))))))))))))))))))))))))))))))))))))))))))))))))))))))))))))))))))))))))))))))))))))))))))))))))))))))))))))))))))))))))))))))))))))))))))))))))))))))))))))))))))))))))))))))))))))))))))))))))))))))))))))))))))))))))))))))))))))))))))))))))))))))))))))))))))))))))))))))))))))))))))))))))))))))))))))))))))))))))))))))))))))))))))))))))))))))))))))))))))))))))))))))))))))))))))))))))))))))))))))))))))))))))))))))))))))))))))))))))))))))))))))))))))))))))))))))))))))))))))))))))))))))))))))))))))))))))))))))))))))))))))))))))))))))))))))))))))))))))))))))))))))))))))))))))))))))))))))))))))))))))))))))))))))))))))))))))))))))))))))))))))))))))))))))))))))))))))))))))))))))))))))))))))))))))))))))))))))))))))))))))))))))))))))))))))))))))))))))))))))))))))))))))))))))))))))))))))))))))))))))))))))))))))))))))))))))))))))))))))))))))))))))))))))))))))))))))))))))))))))))))))))))))))))))))))))))))))))))))))))))))))))))))))))))))))))))))))))))))))))))))))))))))))))))))))))))))))))))))))))))))))))))))))))))))))))))))))))))))))))))))))))))))))))))))))))))))))))))))))))))))))))))))))))))))))))))))))))))))))))))))))))))))))))))))))))))))))))))

(** val py_int : (n -> n option) -> str -> z option **)

let py_int digit_val s =
  let t = c_strip (map (to_ascii digit_val) s) in
  (match t with
   | [] ->
     let neg = false in
     let groups = split_on (Npos (XI (XI (XI (XI (XI (XO XH))))))) t in
     if forallb all_digits groups
     then let ds = concat groups in
          if Nat.ltb max_str_digits (length ds)
          then None
          else Some (if neg then Z.opp (horner ds) else horner ds)
     else None
   | n0 :: r ->
     (match n0 with
      | N0 ->
        let neg = false in
        let groups = split_on (Npos (XI (XI (XI (XI (XI (XO XH))))))) t in
        if forallb all_digits groups
        then let ds = concat groups in
             if Nat.ltb max_str_digits (length ds)
             then None
             else Some (if neg then Z.opp (horner ds) else horner ds)
        else None
      | Npos p ->
        (match p with
         | XI p0 ->
           (match p0 with
            | XI p1 ->
              (match p1 with
               | XO p2 ->
                 (match p2 with
                  | XI p3 ->
                    (match p3 with
                     | XO p4 ->
                       (match p4 with
                        | XH ->
                          let neg = false in
                          let groups =
                            split_on (Npos (XI (XI (XI (XI (XI (XO XH))))))) r
                          in
                          if forallb all_digits groups
                          then let ds = concat groups in
                               if Nat.ltb max_str_digits (length ds)
                               then None
                               else Some
                                      (if neg
                                       then Z.opp (horner ds)
                                       else horner ds)
                          else None
                        | _ ->
                          let neg = false in
                          let groups =
                            split_on (Npos (XI (XI (XI (XI (XI (XO XH))))))) t
                          in
                          if forallb all_digits groups
                          then let ds = concat groups in
                               if Nat.ltb max_str_digits (length ds)
                               then None
                               else Some
                                      (if neg
                                       then Z.opp (horner ds)
                                       else horner ds)
                          else None)
                     | _ ->
                       let neg = false in
                       let groups =
                         split_on (Npos (XI (XI (XI (XI (XI (XO XH))))))) t
                       in
                       if forallb all_digits groups
                       then let ds = concat groups in
                            if Nat.ltb max_str_digits (length ds)
                            then None
                            else Some
                                   (if neg
                                    then Z.opp (horner ds)
                                    else horner ds)
                       else None)
                  | _ ->
                    let neg = false in
                    let groups =
                      split_on (Npos (XI (XI (XI (XI (XI (XO XH))))))) t
                    in
                    if forallb all_digits groups
                    then let ds = concat groups in
                         if Nat.ltb max_str_digits (length ds)
                         then None
                         else Some
                                (if neg then Z.opp (horner ds) else horner ds)
                    else None)
               | _ ->
                 let neg = false in
                 let groups =
                   split_on (Npos (XI (XI (XI (XI (XI (XO XH))))))) t
                 in
                 if forallb all_digits groups
                 then let ds = concat groups in
                      if Nat.ltb max_str_digits (length ds)
                      then None
                      else Some (if neg then Z.opp (horner ds) else horner ds)
                 else None)
            | XO p1 ->
              (match p1 with
               | XI p2 ->
                 (match p2 with
                  | XI p3 ->
                    (match p3 with
                     | XO p4 ->
                       (match p4 with
                        | XH ->
                          let neg = true in
                          let groups =
                            split_on (Npos (XI (XI (XI (XI (XI (XO XH))))))) r
                          in
                          if forallb all_digits groups
                          then let ds = concat groups in
                               if Nat.ltb max_str_digits (length ds)
                               then None
                               else Some
                                      (if neg
                                       then Z.opp (horner ds)
                                       else horner ds)
                          else None
                        | _ ->
                          let neg = false in
                          let groups =
                            split_on (Npos (XI (XI (XI (XI (XI (XO XH))))))) t
                          in
                          if forallb all_digits groups
                          then let ds = concat groups in
                               if Nat.ltb max_str_digits (length ds)
                               then None
                               else Some
                                      (if neg
                                       then Z.opp (horner ds)
                                       else horner ds)
                          else None)
                     | _ ->
                       let neg = false in
                       let groups =
                         split_on (Npos (XI (XI (XI (XI (XI (XO XH))))))) t
                       in
                       if forallb all_digits groups
                       then let ds = concat groups in
                            if Nat.ltb max_str_digits (length ds)
                            then None
                            else Some
                                   (if neg
                                    then Z.opp (horner ds)
                                    else horner ds)
                       else None)
                  | _ ->
                    let neg = false in
                    let groups =
                      split_on (Npos (XI (XI (XI (XI (XI (XO XH))))))) t
                    in
                    if forallb all_digits groups
                    then let ds = concat groups in
                         if Nat.ltb max_str_digits (length ds)
                         then None
                         else Some
                                (if neg then Z.opp (horner ds) else horner ds)
                    else None)
               | _ ->
                 let neg = false in
                 let groups =
                   split_on (Npos (XI (XI (XI (XI (XI (XO XH))))))) t
                 in
                 if forallb all_digits groups
                 then let ds = concat groups in
                      if Nat.ltb max_str_digits (length ds)
                      then None
                      else Some (if neg then Z.opp (horner ds) else horner ds)
                 else None)
            | XH ->
              let neg = false in
              let groups = split_on (Npos (XI (XI (XI (XI (XI (XO XH))))))) t
              in
              if forallb all_digits groups
              then let ds = concat groups in
                   if Nat.ltb max_str_digits (length ds)
                   then None
                   else Some (if neg then Z.opp (horner ds) else horner ds)
              else None)
         | _ ->
           let neg = false in
           let groups = split_on (Npos (XI (XI (XI (XI (XI (XO XH))))))) t in
           if forallb all_digits groups
           then let ds = concat groups in
                if Nat.ltb max_str_digits (length ds)
                then None
                else Some (if neg then Z.opp (horner ds) else horner ds)
           else None)))

type value =
| VBool of bool
| VInt of z
| VStr of str
| VNone
| VList of str list

(** val strs_eqb : str list -> str list -> bool **)

let rec strs_eqb a b =
  match a with
  | [] -> (match b with
           | [] -> true
           | _ :: _ -> false)
  | x :: a' ->
    (match b with
     | [] -> false
     | y :: b' -> (&&) (str_eqb x y) (strs_eqb a' b'))

(** val value_eqb : value -> value -> bool **)

let value_eqb a b =
  match a with
  | VBool x -> (match b with
                | VBool y -> eqb x y
                | _ -> false)
  | VInt x -> (match b with
               | VInt y -> Z.eqb x y
               | _ -> false)
  | VStr x -> (match b with
               | VStr y -> str_eqb x y
               | _ -> false)
  | VNone -> (match b with
              | VNone -> true
              | _ -> false)
  | VList x -> (match b with
                | VList y -> strs_eqb x y
                | _ -> false)

type dtype =
| TBool
| TInt
| TStr
| TList
| TEnum of str list * (str * str) list
| TEncoding
| TCallCrash
| TDefer
| TNoValue

type perr =
| EBadBool
| EBadInt
| EBadEnum
| ETypeError
| EAssertion
| EAttribute
| EExpectedEq
| EUnknown
| ENotSettable
| ECodec

type 'a res =
| Ok of 'a
| Err of perr * str

type dict = (str * value) list

(** val get : str -> dict -> value option **)

let rec get k = function
| [] -> None
| p :: r -> let (k', v) = p in if str_eqb k k' then Some v else get k r

(** val set : str -> value -> dict -> dict **)

let rec set k v = function
| [] -> (k, v) :: []
| p :: r ->
  let (k', v') = p in
  if str_eqb k k' then (k', v) :: r else (k', v') :: (set k v r)

(** val pop : str -> dict -> dict **)

let rec pop k = function
| [] -> []
| p :: r ->
  let (k', v') = p in if str_eqb k k' then r else (k', v') :: (pop k r)

(** val update : dict -> dict -> dict **)

let update d u =
  fold_left (fun acc kv -> set (fst kv) (snd kv) acc) u d

(** val assoc : str -> (str * str) list -> str option **)

let rec assoc k = function
| [] -> None
| p :: r -> let (k', v) = p in if str_eqb k k' then Some v else assoc k r

(** val lookup_type : str -> (str * dtype) list -> dtype option **)

let rec lookup_type k = function
| [] -> None
| p :: r ->
  let (k', v) = p in if str_eqb k k' then Some v else lookup_type k r

(** val w_true : n list **)

let w_true =
  (Npos (XO (XO (XI (XO (XI (XO XH))))))) :: ((Npos (XO (XI (XO (XO (XI (XI
    XH))))))) :: ((Npos (XI (XO (XI (XO (XI (XI XH))))))) :: ((Npos (XI (XO
    (XI (XO (XO (XI XH))))))) :: [])))

(** val w_false : n list **)

let w_false =
  (Npos (XO (XI (XI (XO (XO (XO XH))))))) :: ((Npos (XI (XO (XO (XO (XO (XI
    XH))))))) :: ((Npos (XO (XO (XI (XI (XO (XI XH))))))) :: ((Npos (XI (XI
    (XO (XO (XI (XI XH))))))) :: ((Npos (XI (XO (XI (XO (XO (XI
    XH))))))) :: []))))

(** val w_ltrue : n list **)

let w_ltrue =
  (Npos (XO (XO (XI (XO (XI (XI XH))))))) :: ((Npos (XO (XI (XO (XO (XI (XI
    XH))))))) :: ((Npos (XI (XO (XI (XO (XI (XI XH))))))) :: ((Npos (XI (XO
    (XI (XO (XO (XI XH))))))) :: [])))

(** val w_yes : n list **)

let w_yes =
  (Npos (XI (XO (XO (XI (XI (XI XH))))))) :: ((Npos (XI (XO (XI (XO (XO (XI
    XH))))))) :: ((Npos (XI (XI (XO (XO (XI (XI XH))))))) :: []))

(** val w_lfalse : n list **)

let w_lfalse =
  (Npos (XO (XI (XI (XO (XO (XI XH))))))) :: ((Npos (XI (XO (XO (XO (XO (XI
    XH))))))) :: ((Npos (XO (XO (XI (XI (XO (XI XH))))))) :: ((Npos (XI (XI
    (XO (XO (XI (XI XH))))))) :: ((Npos (XI (XO (XI (XO (XO (XI
    XH))))))) :: []))))

(** val w_no : n list **)

let w_no =
  (Npos (XO (XI (XI (XI (XO (XI XH))))))) :: ((Npos (XI (XI (XI (XI (XO (XI
    XH))))))) :: [])

(** val parse_bool : bool -> str -> str -> value res **)

let parse_bool relaxed name vtxt =
  if str_eqb vtxt w_true
  then Ok (VBool true)
  else if str_eqb vtxt w_false
       then Ok (VBool false)
       else if relaxed
            then let v = lower vtxt in
                 if mem v (w_ltrue :: (w_yes :: []))
                 then Ok (VBool true)
                 else if mem v (w_lfalse :: (w_no :: []))
                      then Ok (VBool false)
                      else Err (EBadBool, name)
            else Err (EBadBool, name)

(** val parse_enum :
    str list -> (str * str) list -> str -> str -> value res **)

let parse_enum args amap name vtxt =
  let v = match assoc vtxt amap with
          | Some v' -> v'
          | None -> vtxt in
  if mem v args then Ok (VStr v) else Err (EBadEnum, name)

(** val common_encoding_names : (str * str) list **)

let common_encoding_names =
  (((Npos (XI (XO (XI (XO (XI (XI XH))))))) :: ((Npos (XO (XO (XI (XO (XI (XI
    XH))))))) :: ((Npos (XO (XI (XI (XO (XO (XI XH))))))) :: ((Npos (XO (XO
    (XO (XI (XI XH)))))) :: [])))), ((Npos (XI (XO (XI (XO (XI (XI
    XH))))))) :: ((Npos (XO (XO (XI (XO (XI (XI XH))))))) :: ((Npos (XO (XI
    (XI (XO (XO (XI XH))))))) :: ((Npos (XO (XO (XO (XI (XI
    XH)))))) :: []))))) :: ((((Npos (XI (XO (XI (XO (XI (XI
    XH))))))) :: ((Npos (XO (XO (XI (XO (XI (XI XH))))))) :: ((Npos (XO (XI
    (XI (XO (XO (XI XH))))))) :: ((Npos (XI (XO (XI (XI (XO
    XH)))))) :: ((Npos (XO (XO (XO (XI (XI XH)))))) :: []))))), ((Npos (XI
    (XO (XI (XO (XI (XI XH))))))) :: ((Npos (XO (XO (XI (XO (XI (XI
    XH))))))) :: ((Npos (XO (XI (XI (XO (XO (XI XH))))))) :: ((Npos (XO (XO
    (XO (XI (XI XH)))))) :: []))))) :: ((((Npos (XO (XO (XI (XO (XO (XI
    XH))))))) :: ((Npos (XI (XO (XI (XO (XO (XI XH))))))) :: ((Npos (XO (XI
    (XI (XO (XO (XI XH))))))) :: ((Npos (XI (XO (XO (XO (XO (XI
    XH))))))) :: ((Npos (XI (XO (XI (XO (XI (XI XH))))))) :: ((Npos (XO (XO
    (XI (XI (XO (XI XH))))))) :: ((Npos (XO (XO (XI (XO (XI (XI
    XH))))))) :: []))))))), ((Npos (XI (XO (XI (XO (XI (XI
    XH))))))) :: ((Npos (XO (XO (XI (XO (XI (XI XH))))))) :: ((Npos (XO (XI
    (XI (XO (XO (XI XH))))))) :: ((Npos (XO (XO (XO (XI (XI
    XH)))))) :: []))))) :: ((((Npos (XI (XO (XO (XO (XO (XI
    XH))))))) :: ((Npos (XI (XI (XO (XO (XI (XI XH))))))) :: ((Npos (XI (XI
    (XO (XO (XO (XI XH))))))) :: ((Npos (XI (XO (XO (XI (XO (XI
    XH))))))) :: ((Npos (XI (XO (XO (XI (XO (XI XH))))))) :: []))))), ((Npos
    (XI (XO (XO (XO (XO (XI XH))))))) :: ((Npos (XI (XI (XO (XO (XI (XI
    XH))))))) :: ((Npos (XI (XI (XO (XO (XO (XI XH))))))) :: ((Npos (XI (XO
    (XO (XI (XO (XI XH))))))) :: ((Npos (XI (XO (XO (XI (XO (XI
    XH))))))) :: [])))))) :: ((((Npos (XI (XO (XI (XO (XI (XI
    XH))))))) :: ((Npos (XI (XI (XO (XO (XI (XI XH))))))) :: ((Npos (XI (XO
    (XI (XI (XO XH)))))) :: ((Npos (XI (XO (XO (XO (XO (XI
    XH))))))) :: ((Npos (XI (XI (XO (XO (XI (XI XH))))))) :: ((Npos (XI (XI
    (XO (XO (XO (XI XH))))))) :: ((Npos (XI (XO (XO (XI (XO (XI
    XH))))))) :: ((Npos (XI (XO (XO (XI (XO (XI XH))))))) :: [])))))))),
    ((Npos (XI (XO (XO (XO (XO (XI XH))))))) :: ((Npos (XI (XI (XO (XO (XI
    (XI XH))))))) :: ((Npos (XI (XI (XO (XO (XO (XI XH))))))) :: ((Npos (XI
    (XO (XO (XI (XO (XI XH))))))) :: ((Npos (XI (XO (XO (XI (XO (XI
    XH))))))) :: [])))))) :: []))))

(** val normalise_encoding_name : (str -> n) -> str -> str **)

let normalise_encoding_name codec_class enc = match enc with
| [] -> []
| _ :: _ ->
  (match assoc (lower enc) common_encoding_names with
   | Some n0 -> n0
   | None ->
     if N.eqb (codec_class enc) (Npos XH)
     then (Npos (XI (XO (XO (XO (XO (XI XH))))))) :: ((Npos (XI (XI (XO (XO
            (XI (XI XH))))))) :: ((Npos (XI (XI (XO (XO (XO (XI
            XH))))))) :: ((Npos (XI (XO (XO (XI (XO (XI XH))))))) :: ((Npos
            (XI (XO (XO (XI (XO (XI XH))))))) :: []))))
     else if N.eqb (codec_class enc) (Npos (XO XH))
          then (Npos (XI (XO (XI (XO (XI (XI XH))))))) :: ((Npos (XO (XO (XI
                 (XO (XI (XI XH))))))) :: ((Npos (XO (XI (XI (XO (XO (XI
                 XH))))))) :: ((Npos (XO (XO (XO (XI (XI XH)))))) :: [])))
          else enc)

(** val encoding_lookup_raises : (str -> n) -> str -> bool **)

let encoding_lookup_raises codec_class enc = match enc with
| [] -> false
| _ :: _ ->
  (match assoc (lower enc) common_encoding_names with
   | Some _ -> false
   | None -> N.eqb (codec_class enc) (Npos (XI XH)))

(** val parse_directive_value :
    (str * dtype) list -> (n -> n option) -> (str -> n) -> bool -> str -> str
    -> value res **)

let parse_directive_value types digit_val codec_class relaxed name vtxt =
  match lookup_type name types with
  | Some d ->
    (match d with
     | TBool -> parse_bool relaxed name vtxt
     | TInt ->
       (match py_int digit_val vtxt with
        | Some z0 -> Ok (VInt z0)
        | None -> Err (EBadInt, name))
     | TStr -> Ok (VStr vtxt)
     | TEnum (args, amap) -> parse_enum args amap name vtxt
     | TEncoding ->
       if encoding_lookup_raises codec_class vtxt
       then Err (ECodec, name)
       else Ok (VStr (normalise_encoding_name codec_class vtxt))
     | TDefer -> Err (ENotSettable, name)
     | TNoValue -> Ok VNone
     | _ -> Err (ETypeError, name))
  | None -> Ok VNone

(** val settable : (str * dtype) list -> str -> bool **)

let settable types name =
  match lookup_type name types with
  | Some d -> (match d with
               | TNoValue -> false
               | _ -> true)
  | None -> false

(** val expand_all :
    (str * dtype) list -> (n -> n option) -> (str -> n) -> bool -> bool ->
    str -> str -> str list -> bool -> dict -> (bool * dict) res **)

let rec expand_all types digit_val codec_class strict relaxed prefix vtxt ds found st =
  match ds with
  | [] -> Ok (found, st)
  | d :: r ->
    if starts_with prefix d
    then if (&&) strict (negb (settable types d))
         then Err (ENotSettable, d)
         else (match parse_directive_value types digit_val codec_class
                       relaxed d vtxt with
               | Ok v ->
                 expand_all types digit_val codec_class strict relaxed prefix
                   vtxt r true (set d v st)
               | Err (e, w) -> Err (e, w))
    else expand_all types digit_val codec_class strict relaxed prefix vtxt r
           found st

(** val is_list_type : (str * dtype) list -> str -> bool **)

let is_list_type types name =
  match lookup_type name types with
  | Some d -> (match d with
               | TList -> true
               | _ -> false)
  | None -> false

(** val parse_item :
    (str * dtype) list -> str list -> (n -> n option) -> (str -> n) -> bool
    -> bool -> bool -> dict -> str -> dict res **)

let parse_item types defaults digit_val codec_class strict relaxed ignore_unknown st item0 =
  let item = strip item0 in
  (match item with
   | [] -> Ok st
   | _ :: _ ->
     (match cut_at (Npos (XI (XO (XI (XI (XI XH)))))) item with
      | Some p ->
        let (n0, v0) = p in
        let name = strip n0 in
        let vtxt = strip v0 in
        if mem name defaults
        then if is_list_type types name
             then (match get name st with
                   | Some v ->
                     (match v with
                      | VList l ->
                        Ok (set name (VList (app l (vtxt :: []))) st)
                      | _ -> Err (EAttribute, name))
                   | None -> Ok (set name (VList (vtxt :: [])) st))
             else if (&&) strict (negb (settable types name))
                  then Err (ENotSettable, name)
                  else (match parse_directive_value types digit_val
                                codec_class relaxed name vtxt with
                        | Ok v -> Ok (set name v st)
                        | Err (e, w) -> Err (e, w))
        else let r =
               if ends_with ((Npos (XO (XI (XI (XI (XO XH)))))) :: ((Npos (XI
                    (XO (XO (XO (XO (XI XH))))))) :: ((Npos (XO (XO (XI (XI
                    (XO (XI XH))))))) :: ((Npos (XO (XO (XI (XI (XO (XI
                    XH))))))) :: [])))) name
               then expand_all types digit_val codec_class strict relaxed
                      (drop_last (S (S (S O))) name) vtxt defaults false st
               else Ok (false, st)
             in
             (match r with
              | Ok a ->
                let (found, st') = a in
                if (&&) (negb found) (negb ignore_unknown)
                then Err (EUnknown, name)
                else Ok st'
              | Err (e, w) -> Err (e, w))
      | None -> Err (EExpectedEq, item)))

(** val parse_items :
    (str * dtype) list -> str list -> (n -> n option) -> (str -> n) -> bool
    -> bool -> bool -> dict -> str list -> dict res **)

let rec parse_items types defaults digit_val codec_class strict relaxed ignore_unknown st = function
| [] -> Ok st
| it :: r ->
  (match parse_item types defaults digit_val codec_class strict relaxed
           ignore_unknown st it with
   | Ok st' ->
     parse_items types defaults digit_val codec_class strict relaxed
       ignore_unknown st' r
   | Err (e, w) -> Err (e, w))

(** val parse_directive_list :
    (str * dtype) list -> str list -> (n -> n option) -> (str -> n) -> bool
    -> bool -> bool -> dict -> str -> dict res **)

let parse_directive_list types defaults digit_val codec_class strict relaxed ignore_unknown cur s =
  parse_items types defaults digit_val codec_class strict relaxed
    ignore_unknown cur (split_on (Npos (XO (XO (XI (XI (XO XH)))))) s)

type kind =
| KFunc
| KClass
| KCClass
| KWith
| KProbe

type tree =
| Node of kind * (str * value) list * tree list

(** val scope_name : kind -> str **)

let scope_name = function
| KFunc ->
  (Npos (XO (XI (XI (XO (XO (XI XH))))))) :: ((Npos (XI (XO (XI (XO (XI (XI
    XH))))))) :: ((Npos (XO (XI (XI (XI (XO (XI XH))))))) :: ((Npos (XI (XI
    (XO (XO (XO (XI XH))))))) :: ((Npos (XO (XO (XI (XO (XI (XI
    XH))))))) :: ((Npos (XI (XO (XO (XI (XO (XI XH))))))) :: ((Npos (XI (XI
    (XI (XI (XO (XI XH))))))) :: ((Npos (XO (XI (XI (XI (XO (XI
    XH))))))) :: [])))))))
| KClass ->
  (Npos (XI (XI (XO (XO (XO (XI XH))))))) :: ((Npos (XO (XO (XI (XI (XO (XI
    XH))))))) :: ((Npos (XI (XO (XO (XO (XO (XI XH))))))) :: ((Npos (XI (XI
    (XO (XO (XI (XI XH))))))) :: ((Npos (XI (XI (XO (XO (XI (XI
    XH))))))) :: []))))
| KCClass ->
  (Npos (XI (XI (XO (XO (XO (XI XH))))))) :: ((Npos (XI (XI (XO (XO (XO (XI
    XH))))))) :: ((Npos (XO (XO (XI (XI (XO (XI XH))))))) :: ((Npos (XI (XO
    (XO (XO (XO (XI XH))))))) :: ((Npos (XI (XI (XO (XO (XI (XI
    XH))))))) :: ((Npos (XI (XI (XO (XO (XI (XI XH))))))) :: [])))))
| KWith ->
  (Npos (XI (XI (XI (XO (XI (XI XH))))))) :: ((Npos (XI (XO (XO (XI (XO (XI
    XH))))))) :: ((Npos (XO (XO (XI (XO (XI (XI XH))))))) :: ((Npos (XO (XO
    (XO (XI (XO (XI XH))))))) :: ((Npos (XO (XO (XO (XO (XO
    XH)))))) :: ((Npos (XI (XI (XO (XO (XI (XI XH))))))) :: ((Npos (XO (XO
    (XI (XO (XI (XI XH))))))) :: ((Npos (XI (XO (XO (XO (XO (XI
    XH))))))) :: ((Npos (XO (XO (XI (XO (XI (XI XH))))))) :: ((Npos (XI (XO
    (XI (XO (XO (XI XH))))))) :: ((Npos (XI (XO (XI (XI (XO (XI
    XH))))))) :: ((Npos (XI (XO (XI (XO (XO (XI XH))))))) :: ((Npos (XO (XI
    (XI (XI (XO (XI XH))))))) :: ((Npos (XO (XO (XI (XO (XI (XI
    XH))))))) :: [])))))))))))))
| KProbe ->
  (Npos (XO (XO (XO (XO (XI (XI XH))))))) :: ((Npos (XO (XI (XO (XO (XI (XI
    XH))))))) :: ((Npos (XI (XI (XI (XI (XO (XI XH))))))) :: ((Npos (XO (XI
    (XO (XO (XO (XI XH))))))) :: ((Npos (XI (XO (XI (XO (XO (XI
    XH))))))) :: []))))

(** val lookup_scopes : str -> (str * str list) list -> str list option **)

let rec lookup_scopes k = function
| [] -> None
| p :: r ->
  let (k', v) = p in if str_eqb k k' then Some v else lookup_scopes k r

type atree =
| ANode of kind * dict * dict * atree list
| AProbe of dict

(** val scope_ok : (str * str list) list -> str -> str -> bool **)

let scope_ok scopes d scope =
  match lookup_scopes d scopes with
  | Some l -> (match l with
               | [] -> true
               | _ :: _ -> mem scope l)
  | None -> true

(** val copy_inherited : str list -> dict -> dict -> dict **)

let copy_inherited non_inherited outer new0 =
  update (fold_left (fun acc n0 -> pop n0 acc) non_inherited outer) new0

(** val dict_incl : dict -> dict -> bool **)

let dict_incl a b =
  forallb (fun kv ->
    match get (fst kv) a with
    | Some x ->
      (match get (fst kv) b with
       | Some y -> value_eqb x y
       | None -> false)
    | None -> false) a

(** val dict_eqb : dict -> dict -> bool **)

let dict_eqb a b =
  (&&) (dict_incl a b) (dict_incl b a)

(** val extract_loop :
    (str * str list) list -> str -> (str * value) list -> dict ->
    (str * value) list -> (str * str) list -> (str * value)
    list * (str * str) list **)

let rec extract_loop scopes scope rsets curopt acc rej =
  match rsets with
  | [] -> (acc, rej)
  | p :: r ->
    let (n0, v) = p in
    if scope_ok scopes n0 scope
    then (match get n0 curopt with
          | Some v0 ->
            if value_eqb v0 v
            then extract_loop scopes scope r curopt acc rej
            else extract_loop scopes scope r (set n0 v curopt)
                   (app acc ((n0, v) :: [])) rej
          | None ->
            extract_loop scopes scope r (set n0 v curopt)
              (app acc ((n0, v) :: [])) rej)
    else extract_loop scopes scope r curopt acc (app rej ((n0, scope) :: []))

(** val merge_one : dict -> (str * value) -> dict **)

let merge_one d kv =
  match get (fst kv) d with
  | Some v0 ->
    (match v0 with
     | VList l ->
       (match snd kv with
        | VList l' -> set (fst kv) (VList (app l l')) d
        | x -> set (fst kv) x d)
     | _ -> set (fst kv) (snd kv) d)
  | None -> set (fst kv) (snd kv) d

(** val extract_directives :
    (str * str list) list -> str list -> dict -> str -> (str * value) list ->
    (dict * dict) * (str * str) list **)

let extract_directives scopes immediate cur scope sets =
  let (acc, rej) = extract_loop scopes scope (rev sets) cur [] [] in
  let optdict = fold_left merge_one acc [] in
  let contents =
    fold_left merge_one
      (filter (fun kv -> negb (mem (fst kv) immediate)) acc) []
  in
  ((optdict, contents), rej)

(** val with_dict :
    (str * str list) list -> (str * value) list -> dict -> (str * str) list
    -> dict * (str * str) list **)

let rec with_dict scopes sets dd rej =
  match sets with
  | [] -> (dd, rej)
  | p :: r ->
    let (n0, v) = p in
    if scope_ok scopes n0 ((Npos (XI (XI (XI (XO (XI (XI XH))))))) :: ((Npos
         (XI (XO (XO (XI (XO (XI XH))))))) :: ((Npos (XO (XO (XI (XO (XI (XI
         XH))))))) :: ((Npos (XO (XO (XO (XI (XO (XI XH))))))) :: ((Npos (XO
         (XO (XO (XO (XO XH)))))) :: ((Npos (XI (XI (XO (XO (XI (XI
         XH))))))) :: ((Npos (XO (XO (XI (XO (XI (XI XH))))))) :: ((Npos (XI
         (XO (XO (XO (XO (XI XH))))))) :: ((Npos (XO (XO (XI (XO (XI (XI
         XH))))))) :: ((Npos (XI (XO (XI (XO (XO (XI XH))))))) :: ((Npos (XI
         (XO (XI (XI (XO (XI XH))))))) :: ((Npos (XI (XO (XI (XO (XO (XI
         XH))))))) :: ((Npos (XO (XI (XI (XI (XO (XI XH))))))) :: ((Npos (XO
         (XO (XI (XO (XI (XI XH))))))) :: []))))))))))))))
    then with_dict scopes r (set n0 v dd) rej
    else with_dict scopes r dd
           (app rej ((n0, ((Npos (XI (XI (XI (XO (XI (XI XH))))))) :: ((Npos
             (XI (XO (XO (XI (XO (XI XH))))))) :: ((Npos (XO (XO (XI (XO (XI
             (XI XH))))))) :: ((Npos (XO (XO (XO (XI (XO (XI
             XH))))))) :: ((Npos (XO (XO (XO (XO (XO XH)))))) :: ((Npos (XI
             (XI (XO (XO (XI (XI XH))))))) :: ((Npos (XO (XO (XI (XO (XI (XI
             XH))))))) :: ((Npos (XI (XO (XO (XO (XO (XI XH))))))) :: ((Npos
             (XO (XO (XI (XO (XI (XI XH))))))) :: ((Npos (XI (XO (XI (XO (XO
             (XI XH))))))) :: ((Npos (XI (XO (XI (XI (XO (XI
             XH))))))) :: ((Npos (XI (XO (XI (XO (XO (XI XH))))))) :: ((Npos
             (XO (XI (XI (XI (XO (XI XH))))))) :: ((Npos (XO (XO (XI (XO (XI
             (XI XH))))))) :: []))))))))))))))) :: []))

(** val enter :
    (str * str list) list -> str list -> str list -> dict -> kind ->
    (str * value) list -> (dict * dict) option * (str * str) list **)

let enter scopes immediate non_inherited cur k sets =
  let (p, rej) =
    match k with
    | KWith -> let (dd, rej) = with_dict scopes sets [] [] in ((dd, dd), rej)
    | _ -> extract_directives scopes immediate cur (scope_name k) sets
  in
  let (dirs, contents) = p in
  (match dirs with
   | [] -> (None, rej)
   | _ :: _ ->
     let new0 = copy_inherited non_inherited cur dirs in
     let newc =
       match k with
       | KWith -> new0
       | _ -> copy_inherited non_inherited cur contents
     in
     if dict_eqb new0 cur then (None, rej) else ((Some (new0, newc)), rej))

(** val visit :
    (str * str list) list -> str list -> str list -> dict -> tree ->
    (atree * dict) * (str * str) list **)

let rec visit scopes immediate non_inherited cur = function
| Node (k, sets, ch) ->
  let vl =
    let rec vl st = function
    | [] -> (([], st), [])
    | x :: r ->
      let (p, e1) = visit scopes immediate non_inherited st x in
      let (a, st1) = p in
      let (p0, e2) = vl st1 r in
      let (l', st2) = p0 in (((a :: l'), st2), (app e1 e2))
    in vl
  in
  (match k with
   | KProbe -> (((AProbe cur), cur), [])
   | _ ->
     let (o, rej) = enter scopes immediate non_inherited cur k sets in
     (match o with
      | Some p ->
        let (new0, newc) = p in
        let (p0, e) = vl newc ch in
        let (l', _) = p0 in (((ANode (k, new0, newc, l')), cur), (app rej e))
      | None ->
        let (p, e) = vl cur ch in
        let (l', st') = p in (((ANode (k, cur, cur, l')), st'), (app rej e))))

(** val visit_list :
    (str * str list) list -> str list -> str list -> dict -> tree list ->
    (atree list * dict) * (str * str) list **)

let rec visit_list scopes immediate non_inherited st = function
| [] -> (([], st), [])
| x :: r ->
  let (p, e1) = visit scopes immediate non_inherited st x in
  let (a, st1) = p in
  let (p0, e2) = visit_list scopes immediate non_inherited st1 r in
  let (l', st2) = p0 in (((a :: l'), st2), (app e1 e2))

(** val header_split :
    (str * str list) list -> dict -> dict * (str * str) list **)

let rec header_split scopes = function
| [] -> ([], [])
| p :: r ->
  let (n0, v) = p in
  let (ok, rej) = header_split scopes r in
  if scope_ok scopes n0 ((Npos (XI (XO (XI (XI (XO (XI XH))))))) :: ((Npos
       (XI (XI (XI (XI (XO (XI XH))))))) :: ((Npos (XO (XO (XI (XO (XO (XI
       XH))))))) :: ((Npos (XI (XO (XI (XO (XI (XI XH))))))) :: ((Npos (XO
       (XO (XI (XI (XO (XI XH))))))) :: ((Npos (XI (XO (XI (XO (XO (XI
       XH))))))) :: []))))))
  then (((n0, v) :: ok), rej)
  else (ok, ((n0, ((Npos (XI (XO (XI (XI (XO (XI XH))))))) :: ((Npos (XI (XI
         (XI (XI (XO (XI XH))))))) :: ((Npos (XO (XO (XI (XO (XO (XI
         XH))))))) :: ((Npos (XI (XO (XI (XO (XI (XI XH))))))) :: ((Npos (XO
         (XO (XI (XI (XO (XI XH))))))) :: ((Npos (XI (XO (XI (XO (XO (XI
         XH))))))) :: []))))))) :: rej))

(** val module_dict :
    (str * str list) list -> dict -> dict -> dict -> dict * (str * str) list **)

let module_dict scopes defaults options header =
  let (ok, rej) = header_split scopes header in
  ((update (update defaults options) ok), rej)

(** val visit_module :
    (str * str list) list -> str list -> str list -> dict -> dict -> dict ->
    tree list -> ((dict * atree list) * dict) * (str * str) list **)

let visit_module scopes immediate non_inherited defaults options header body =
  let (d, rej) = module_dict scopes defaults options header in
  let (p, e) = visit_list scopes immediate non_inherited d body in
  let (l, st) = p in (((d, l), st), (app rej e))

(** val digit_from_zeros : n list -> n -> n option **)

let rec digit_from_zeros zeros c =
  match zeros with
  | [] -> None
  | z0 :: r ->
    if (&&) (N.leb z0 c) (N.ltb c (N.add z0 (Npos (XO (XI (XO XH))))))
    then Some (N.sub c z0)
    else digit_from_zeros r c

(** val codec_from_table : (str * n) list -> str -> n **)

let rec codec_from_table tbl enc =
  match tbl with
  | [] -> N0
  | p :: r ->
    let (k, c) = p in if str_eqb enc k then c else codec_from_table r enc

(** val doc_immediate : str list **)

let doc_immediate =
  ((Npos (XI (XI (XO (XO (XO (XI XH))))))) :: ((Npos (XO (XI (XI (XO (XO (XI
    XH))))))) :: ((Npos (XI (XO (XI (XO (XI (XI XH))))))) :: ((Npos (XO (XI
    (XI (XI (XO (XI XH))))))) :: ((Npos (XI (XI (XO (XO (XO (XI
    XH))))))) :: []))))) :: (((Npos (XI (XI (XO (XO (XO (XI
    XH))))))) :: ((Npos (XI (XI (XO (XO (XO (XI XH))))))) :: ((Npos (XI (XO
    (XO (XO (XO (XI XH))))))) :: ((Npos (XO (XO (XI (XI (XO (XI
    XH))))))) :: ((Npos (XO (XO (XI (XI (XO (XI
    XH))))))) :: []))))) :: (((Npos (XI (XI (XO (XO (XO (XI
    XH))))))) :: ((Npos (XI (XI (XO (XO (XO (XI XH))))))) :: ((Npos (XO (XO
    (XI (XI (XO (XI XH))))))) :: ((Npos (XI (XO (XO (XO (XO (XI
    XH))))))) :: ((Npos (XI (XI (XO (XO (XI (XI XH))))))) :: ((Npos (XI (XI
    (XO (XO (XI (XI XH))))))) :: [])))))) :: (((Npos (XO (XO (XI (XO (XO (XI
    XH))))))) :: ((Npos (XI (XO (XO (XO (XO (XI XH))))))) :: ((Npos (XO (XO
    (XI (XO (XI (XI XH))))))) :: ((Npos (XI (XO (XO (XO (XO (XI
    XH))))))) :: ((Npos (XI (XI (XO (XO (XO (XI XH))))))) :: ((Npos (XO (XO
    (XI (XI (XO (XI XH))))))) :: ((Npos (XI (XO (XO (XO (XO (XI
    XH))))))) :: ((Npos (XI (XI (XO (XO (XI (XI XH))))))) :: ((Npos (XI (XI
    (XO (XO (XI (XI XH))))))) :: ((Npos (XI (XO (XI (XO (XO (XI
    XH))))))) :: ((Npos (XI (XI (XO (XO (XI (XI XH))))))) :: ((Npos (XO (XI
    (XI (XI (XO XH)))))) :: ((Npos (XO (XO (XI (XO (XO (XI
    XH))))))) :: ((Npos (XI (XO (XO (XO (XO (XI XH))))))) :: ((Npos (XO (XO
    (XI (XO (XI (XI XH))))))) :: ((Npos (XI (XO (XO (XO (XO (XI
    XH))))))) :: ((Npos (XI (XI (XO (XO (XO (XI XH))))))) :: ((Npos (XO (XO
    (XI (XI (XO (XI XH))))))) :: ((Npos (XI (XO (XO (XO (XO (XI
    XH))))))) :: ((Npos (XI (XI (XO (XO (XI (XI XH))))))) :: ((Npos (XI (XI
    (XO (XO (XI (XI XH))))))) :: []))))))))))))))))))))) :: (((Npos (XI (XO
    (XI (XO (XI (XI XH))))))) :: ((Npos (XO (XI (XI (XO (XO (XI
    XH))))))) :: ((Npos (XI (XO (XI (XO (XI (XI XH))))))) :: ((Npos (XO (XI
    (XI (XI (XO (XI XH))))))) :: ((Npos (XI (XI (XO (XO (XO (XI
    XH))))))) :: []))))) :: (((Npos (XI (XO (XO (XI (XO (XI
    XH))))))) :: ((Npos (XO (XI (XI (XI (XO (XI XH))))))) :: ((Npos (XO (XO
    (XI (XI (XO (XI XH))))))) :: ((Npos (XI (XO (XO (XI (XO (XI
    XH))))))) :: ((Npos (XO (XI (XI (XI (XO (XI XH))))))) :: ((Npos (XI (XO
    (XI (XO (XO (XI XH))))))) :: [])))))) :: (((Npos (XI (XO (XI (XO (XO (XI
    XH))))))) :: ((Npos (XO (XO (XO (XI (XI (XI XH))))))) :: ((Npos (XI (XI
    (XO (XO (XO (XI XH))))))) :: ((Npos (XI (XO (XI (XO (XO (XI
    XH))))))) :: ((Npos (XO (XO (XO (XO (XI (XI XH))))))) :: ((Npos (XO (XO
    (XI (XO (XI (XI XH))))))) :: ((Npos (XO (XI (XI (XO (XI (XI
    XH))))))) :: ((Npos (XI (XO (XO (XO (XO (XI XH))))))) :: ((Npos (XO (XO
    (XI (XI (XO (XI XH))))))) :: []))))))))) :: (((Npos (XO (XI (XO (XO (XI
    (XI XH))))))) :: ((Npos (XI (XO (XI (XO (XO (XI XH))))))) :: ((Npos (XO
    (XO (XI (XO (XI (XI XH))))))) :: ((Npos (XI (XO (XI (XO (XI (XI
    XH))))))) :: ((Npos (XO (XI (XO (XO (XI (XI XH))))))) :: ((Npos (XO (XI
    (XI (XI (XO (XI XH))))))) :: ((Npos (XI (XI (XO (XO (XI (XI
    XH))))))) :: []))))))) :: (((Npos (XI (XI (XI (XO (XI (XI
    XH))))))) :: ((Npos (XI (XO (XO (XI (XO (XI XH))))))) :: ((Npos (XO (XO
    (XI (XO (XI (XI XH))))))) :: ((Npos (XO (XO (XO (XI (XO (XI
    XH))))))) :: ((Npos (XI (XI (XI (XI (XI (XO XH))))))) :: ((Npos (XI (XI
    (XI (XO (XO (XI XH))))))) :: ((Npos (XI (XO (XO (XI (XO (XI
    XH))))))) :: ((Npos (XO (XO (XI (XI (XO (XI
    XH))))))) :: [])))))))) :: (((Npos (XO (XI (XI (XO (XO (XI
    XH))))))) :: ((Npos (XO (XI (XO (XO (XI (XI XH))))))) :: ((Npos (XI (XO
    (XI (XO (XO (XI XH))))))) :: ((Npos (XI (XO (XI (XO (XO (XI
    XH))))))) :: ((Npos (XO (XO (XI (XI (XO (XI XH))))))) :: ((Npos (XI (XO
    (XO (XI (XO (XI XH))))))) :: ((Npos (XI (XI (XO (XO (XI (XI
    XH))))))) :: ((Npos (XO (XO (XI (XO (XI (XI
    XH))))))) :: [])))))))) :: (((Npos (XO (XI (XI (XI (XO (XI
    XH))))))) :: ((Npos (XI (XI (XI (XI (XO (XI XH))))))) :: ((Npos (XI (XI
    (XI (XI (XI (XO XH))))))) :: ((Npos (XI (XI (XI (XO (XO (XI
    XH))))))) :: ((Npos (XI (XI (XO (XO (XO (XI
    XH))))))) :: []))))) :: (((Npos (XO (XI (XI (XI (XO (XI
    XH))))))) :: ((Npos (XI (XI (XI (XI (XO (XI XH))))))) :: ((Npos (XI (XI
    (XI (XI (XI (XO XH))))))) :: ((Npos (XI (XI (XI (XO (XO (XI
    XH))))))) :: ((Npos (XI (XI (XO (XO (XO (XI XH))))))) :: ((Npos (XI (XI
    (XI (XI (XI (XO XH))))))) :: ((Npos (XI (XI (XO (XO (XO (XI
    XH))))))) :: ((Npos (XO (XO (XI (XI (XO (XI XH))))))) :: ((Npos (XI (XO
    (XI (XO (XO (XI XH))))))) :: ((Npos (XI (XO (XO (XO (XO (XI
    XH))))))) :: ((Npos (XO (XI (XO (XO (XI (XI
    XH))))))) :: []))))))))))) :: (((Npos (XO (XO (XI (XO (XI (XI
    XH))))))) :: ((Npos (XI (XO (XO (XI (XI (XI XH))))))) :: ((Npos (XO (XO
    (XO (XO (XI (XI XH))))))) :: ((Npos (XI (XO (XI (XO (XO (XI
    XH))))))) :: ((Npos (XI (XI (XI (XI (XI (XO XH))))))) :: ((Npos (XO (XI
    (XI (XO (XI (XI XH))))))) :: ((Npos (XI (XO (XI (XO (XO (XI
    XH))))))) :: ((Npos (XO (XI (XO (XO (XI (XI XH))))))) :: ((Npos (XI (XI
    (XO (XO (XI (XI XH))))))) :: ((Npos (XI (XO (XO (XI (XO (XI
    XH))))))) :: ((Npos (XI (XI (XI (XI (XO (XI XH))))))) :: ((Npos (XO (XI
    (XI (XI (XO (XI XH))))))) :: ((Npos (XI (XI (XI (XI (XI (XO
    XH))))))) :: ((Npos (XO (XO (XI (XO (XI (XI XH))))))) :: ((Npos (XI (XO
    (XO (XO (XO (XI XH))))))) :: ((Npos (XI (XI (XI (XO (XO (XI
    XH))))))) :: [])))))))))))))))) :: (((Npos (XO (XI (XI (XO (XO (XI
    XH))))))) :: ((Npos (XI (XO (XO (XI (XO (XI XH))))))) :: ((Npos (XO (XI
    (XI (XI (XO (XI XH))))))) :: ((Npos (XI (XO (XO (XO (XO (XI
    XH))))))) :: ((Npos (XO (XO (XI (XI (XO (XI
    XH))))))) :: []))))) :: (((Npos (XI (XO (XO (XO (XO (XI
    XH))))))) :: ((Npos (XI (XO (XI (XO (XI (XI XH))))))) :: ((Npos (XO (XO
    (XI (XO (XI (XI XH))))))) :: ((Npos (XI (XI (XI (XI (XO (XI
    XH))))))) :: ((Npos (XI (XI (XI (XI (XI (XO XH))))))) :: ((Npos (XO (XO
    (XO (XO (XI (XI XH))))))) :: ((Npos (XI (XO (XO (XI (XO (XI
    XH))))))) :: ((Npos (XI (XI (XO (XO (XO (XI XH))))))) :: ((Npos (XI (XI
    (XO (XI (XO (XI XH))))))) :: ((Npos (XO (XO (XI (XI (XO (XI
    XH))))))) :: ((Npos (XI (XO (XI (XO (XO (XI
    XH))))))) :: []))))))))))) :: (((Npos (XI (XO (XO (XI (XO (XI
    XH))))))) :: ((Npos (XO (XI (XI (XI (XO (XI XH))))))) :: ((Npos (XO (XO
    (XI (XO (XI (XI XH))))))) :: ((Npos (XI (XO (XI (XO (XO (XI
    XH))))))) :: ((Npos (XO (XI (XO (XO (XI (XI XH))))))) :: ((Npos (XO (XI
    (XI (XI (XO (XI XH))))))) :: ((Npos (XI (XO (XO (XO (XO (XI
    XH))))))) :: ((Npos (XO (XO (XI (XI (XO (XI
    XH))))))) :: [])))))))) :: (((Npos (XI (XI (XO (XO (XO (XI
    XH))))))) :: ((Npos (XI (XI (XI (XI (XO (XI XH))))))) :: ((Npos (XO (XO
    (XI (XI (XO (XI XH))))))) :: ((Npos (XO (XO (XI (XI (XO (XI
    XH))))))) :: ((Npos (XI (XO (XI (XO (XO (XI XH))))))) :: ((Npos (XI (XI
    (XO (XO (XO (XI XH))))))) :: ((Npos (XO (XO (XI (XO (XI (XI
    XH))))))) :: ((Npos (XI (XO (XO (XI (XO (XI XH))))))) :: ((Npos (XI (XI
    (XI (XI (XO (XI XH))))))) :: ((Npos (XO (XI (XI (XI (XO (XI
    XH))))))) :: ((Npos (XI (XI (XI (XI (XI (XO XH))))))) :: ((Npos (XO (XO
    (XI (XO (XI (XI XH))))))) :: ((Npos (XI (XO (XO (XI (XI (XI
    XH))))))) :: ((Npos (XO (XO (XO (XO (XI (XI XH))))))) :: ((Npos (XI (XO
    (XI (XO (XO (XI XH))))))) :: []))))))))))))))) :: (((Npos (XO (XO (XI (XO
    (XI (XI XH))))))) :: ((Npos (XI (XI (XI (XI (XO (XI XH))))))) :: ((Npos
    (XO (XO (XI (XO (XI (XI XH))))))) :: ((Npos (XI (XO (XO (XO (XO (XI
    XH))))))) :: ((Npos (XO (XO (XI (XI (XO (XI XH))))))) :: ((Npos (XI (XI
    (XI (XI (XI (XO XH))))))) :: ((Npos (XI (XI (XI (XI (XO (XI
    XH))))))) :: ((Npos (XO (XI (XO (XO (XI (XI XH))))))) :: ((Npos (XO (XO
    (XI (XO (XO (XI XH))))))) :: ((Npos (XI (XO (XI (XO (XO (XI
    XH))))))) :: ((Npos (XO (XI (XO (XO (XI (XI XH))))))) :: ((Npos (XI (XO
    (XO (XI (XO (XI XH))))))) :: ((Npos (XO (XI (XI (XI (XO (XI
    XH))))))) :: ((Npos (XI (XI (XI (XO (XO (XI
    XH))))))) :: [])))))))))))))) :: (((Npos (XO (XO (XI (XO (XI (XI
    XH))))))) :: ((Npos (XI (XO (XI (XO (XO (XI XH))))))) :: ((Npos (XI (XI
    (XO (XO (XI (XI XH))))))) :: ((Npos (XO (XO (XI (XO (XI (XI
    XH))))))) :: ((Npos (XI (XI (XI (XI (XI (XO XH))))))) :: ((Npos (XO (XI
    (XI (XO (XO (XI XH))))))) :: ((Npos (XI (XO (XO (XO (XO (XI
    XH))))))) :: ((Npos (XI (XO (XO (XI (XO (XI XH))))))) :: ((Npos (XO (XO
    (XI (XI (XO (XI XH))))))) :: ((Npos (XI (XI (XI (XI (XI (XO
    XH))))))) :: ((Npos (XI (XO (XO (XI (XO (XI XH))))))) :: ((Npos (XO (XI
    (XI (XO (XO (XI XH))))))) :: ((Npos (XI (XI (XI (XI (XI (XO
    XH))))))) :: ((Npos (XO (XO (XO (XO (XI (XI XH))))))) :: ((Npos (XI (XO
    (XO (XO (XO (XI XH))))))) :: ((Npos (XO (XO (XI (XO (XI (XI
    XH))))))) :: ((Npos (XO (XO (XO (XI (XO (XI XH))))))) :: ((Npos (XI (XI
    (XI (XI (XI (XO XH))))))) :: ((Npos (XI (XO (XI (XO (XO (XI
    XH))))))) :: ((Npos (XO (XO (XO (XI (XI (XI XH))))))) :: ((Npos (XI (XO
    (XO (XI (XO (XI XH))))))) :: ((Npos (XI (XI (XO (XO (XI (XI
    XH))))))) :: ((Npos (XO (XO (XI (XO (XI (XI XH))))))) :: ((Npos (XI (XI
    (XO (XO (XI (XI XH))))))) :: [])))))))))))))))))))))))) :: (((Npos (XO
    (XO (XI (XO (XI (XI XH))))))) :: ((Npos (XI (XO (XI (XO (XO (XI
    XH))))))) :: ((Npos (XI (XI (XO (XO (XI (XI XH))))))) :: ((Npos (XO (XO
    (XI (XO (XI (XI XH))))))) :: ((Npos (XI (XI (XI (XI (XI (XO
    XH))))))) :: ((Npos (XI (XO (XO (XO (XO (XI XH))))))) :: ((Npos (XI (XI
    (XO (XO (XI (XI XH))))))) :: ((Npos (XI (XI (XO (XO (XI (XI
    XH))))))) :: ((Npos (XI (XO (XI (XO (XO (XI XH))))))) :: ((Npos (XO (XI
    (XO (XO (XI (XI XH))))))) :: ((Npos (XO (XO (XI (XO (XI (XI
    XH))))))) :: ((Npos (XI (XI (XI (XI (XI (XO XH))))))) :: ((Npos (XO (XO
    (XO (XO (XI (XI XH))))))) :: ((Npos (XI (XO (XO (XO (XO (XI
    XH))))))) :: ((Npos (XO (XO (XI (XO (XI (XI XH))))))) :: ((Npos (XO (XO
    (XO (XI (XO (XI XH))))))) :: ((Npos (XI (XI (XI (XI (XI (XO
    XH))))))) :: ((Npos (XI (XO (XI (XO (XO (XI XH))))))) :: ((Npos (XO (XO
    (XO (XI (XI (XI XH))))))) :: ((Npos (XI (XO (XO (XI (XO (XI
    XH))))))) :: ((Npos (XI (XI (XO (XO (XI (XI XH))))))) :: ((Npos (XO (XO
    (XI (XO (XI (XI XH))))))) :: ((Npos (XI (XI (XO (XO (XI (XI
    XH))))))) :: []))))))))))))))))))))))) :: (((Npos (XO (XO (XI (XO (XI (XI
    XH))))))) :: ((Npos (XI (XO (XI (XO (XO (XI XH))))))) :: ((Npos (XI (XI
    (XO (XO (XI (XI XH))))))) :: ((Npos (XO (XO (XI (XO (XI (XI
    XH))))))) :: ((Npos (XI (XI (XI (XI (XI (XO XH))))))) :: ((Npos (XO (XI
    (XO (XO (XO (XI XH))))))) :: ((Npos (XI (XI (XI (XI (XO (XI
    XH))))))) :: ((Npos (XO (XO (XI (XO (XO (XI XH))))))) :: ((Npos (XI (XO
    (XO (XI (XI (XI XH))))))) :: ((Npos (XI (XI (XI (XI (XI (XO
    XH))))))) :: ((Npos (XO (XI (XI (XI (XO (XI XH))))))) :: ((Npos (XI (XO
    (XI (XO (XO (XI XH))))))) :: ((Npos (XI (XO (XI (XO (XO (XI
    XH))))))) :: ((Npos (XO (XO (XI (XO (XO (XI XH))))))) :: ((Npos (XI (XI
    (XO (XO (XI (XI XH))))))) :: ((Npos (XI (XI (XI (XI (XI (XO
    XH))))))) :: ((Npos (XI (XO (XI (XO (XO (XI XH))))))) :: ((Npos (XO (XO
    (XO (XI (XI (XI XH))))))) :: ((Npos (XI (XI (XO (XO (XO (XI
    XH))))))) :: ((Npos (XI (XO (XI (XO (XO (XI XH))))))) :: ((Npos (XO (XO
    (XO (XO (XI (XI XH))))))) :: ((Npos (XO (XO (XI (XO (XI (XI
    XH))))))) :: ((Npos (XI (XO (XO (XI (XO (XI XH))))))) :: ((Npos (XI (XI
    (XI (XI (XO (XI XH))))))) :: ((Npos (XO (XI (XI (XI (XO (XI
    XH))))))) :: ((Npos (XI (XI (XI (XI (XI (XO XH))))))) :: ((Npos (XO (XO
    (XO (XI (XO (XI XH))))))) :: ((Npos (XI (XO (XO (XO (XO (XI
    XH))))))) :: ((Npos (XO (XI (XI (XI (XO (XI XH))))))) :: ((Npos (XO (XO
    (XI (XO (XO (XI XH))))))) :: ((Npos (XO (XO (XI (XI (XO (XI
    XH))))))) :: ((Npos (XI (XO (XO (XI (XO (XI XH))))))) :: ((Npos (XO (XI
    (XI (XI (XO (XI XH))))))) :: ((Npos (XI (XI (XI (XO (XO (XI
    XH))))))) :: [])))))))))))))))))))))))))))))))))) :: []))))))))))))))))))))

(** val doc_behaviour : str list **)

let doc_behaviour =
  ((Npos (XO (XI (XO (XO (XO (XI XH))))))) :: ((Npos (XI (XI (XI (XI (XO (XI
    XH))))))) :: ((Npos (XI (XO (XI (XO (XI (XI XH))))))) :: ((Npos (XO (XI
    (XI (XI (XO (XI XH))))))) :: ((Npos (XO (XO (XI (XO (XO (XI
    XH))))))) :: ((Npos (XI (XI (XO (XO (XI (XI XH))))))) :: ((Npos (XI (XI
    (XO (XO (XO (XI XH))))))) :: ((Npos (XO (XO (XO (XI (XO (XI
    XH))))))) :: ((Npos (XI (XO (XI (XO (XO (XI XH))))))) :: ((Npos (XI (XI
    (XO (XO (XO (XI XH))))))) :: ((Npos (XI (XI (XO (XI (XO (XI
    XH))))))) :: []))))))))))) :: (((Npos (XI (XI (XI (XO (XI (XI
    XH))))))) :: ((Npos (XO (XI (XO (XO (XI (XI XH))))))) :: ((Npos (XI (XO
    (XO (XO (XO (XI XH))))))) :: ((Npos (XO (XO (XO (XO (XI (XI
    XH))))))) :: ((Npos (XI (XO (XO (XO (XO (XI XH))))))) :: ((Npos (XO (XI
    (XO (XO (XI (XI XH))))))) :: ((Npos (XI (XI (XI (XI (XO (XI
    XH))))))) :: ((Npos (XI (XO (XI (XO (XI (XI XH))))))) :: ((Npos (XO (XI
    (XI (XI (XO (XI XH))))))) :: ((Npos (XO (XO (XI (XO (XO (XI
    XH))))))) :: [])))))))))) :: (((Npos (XI (XI (XO (XO (XO (XI
    XH))))))) :: ((Npos (XO (XO (XI (XO (XO (XI XH))))))) :: ((Npos (XI (XO
    (XO (XI (XO (XI XH))))))) :: ((Npos (XO (XI (XI (XO (XI (XI
    XH))))))) :: ((Npos (XI (XO (XO (XI (XO (XI XH))))))) :: ((Npos (XI (XI
    (XO (XO (XI (XI XH))))))) :: ((Npos (XI (XO (XO (XI (XO (XI
    XH))))))) :: ((Npos (XI (XI (XI (XI (XO (XI XH))))))) :: ((Npos (XO (XI
    (XI (XI (XO (XI XH))))))) :: []))))))))) :: (((Npos (XI (XI (XO (XO (XO
    (XI XH))))))) :: ((Npos (XO (XO (XI (XO (XO (XI XH))))))) :: ((Npos (XI
    (XO (XO (XI (XO (XI XH))))))) :: ((Npos (XO (XI (XI (XO (XI (XI
    XH))))))) :: ((Npos (XI (XO (XO (XI (XO (XI XH))))))) :: ((Npos (XI (XI
    (XO (XO (XI (XI XH))))))) :: ((Npos (XI (XO (XO (XI (XO (XI
    XH))))))) :: ((Npos (XI (XI (XI (XI (XO (XI XH))))))) :: ((Npos (XO (XI
    (XI (XI (XO (XI XH))))))) :: ((Npos (XI (XI (XI (XI (XI (XO
    XH))))))) :: ((Npos (XI (XI (XI (XO (XI (XI XH))))))) :: ((Npos (XI (XO
    (XO (XO (XO (XI XH))))))) :: ((Npos (XO (XI (XO (XO (XI (XI
    XH))))))) :: ((Npos (XO (XI (XI (XI (XO (XI XH))))))) :: ((Npos (XI (XO
    (XO (XI (XO (XI XH))))))) :: ((Npos (XO (XI (XI (XI (XO (XI
    XH))))))) :: ((Npos (XI (XI (XI (XO (XO (XI XH))))))) :: ((Npos (XI (XI
    (XO (XO (XI (XI XH))))))) :: [])))))))))))))))))) :: (((Npos (XO (XI (XI
    (XI (XO (XI XH))))))) :: ((Npos (XI (XI (XI (XI (XO (XI
    XH))))))) :: ((Npos (XO (XI (XI (XI (XO (XI XH))))))) :: ((Npos (XI (XO
    (XI (XO (XO (XI XH))))))) :: ((Npos (XI (XI (XO (XO (XO (XI
    XH))))))) :: ((Npos (XO (XO (XO (XI (XO (XI XH))))))) :: ((Npos (XI (XO
    (XI (XO (XO (XI XH))))))) :: ((Npos (XI (XI (XO (XO (XO (XI
    XH))))))) :: ((Npos (XI (XI (XO (XI (XO (XI
    XH))))))) :: []))))))))) :: (((Npos (XI (XO (XO (XI (XO (XI
    XH))))))) :: ((Npos (XO (XI (XI (XI (XO (XI XH))))))) :: ((Npos (XI (XO
    (XO (XI (XO (XI XH))))))) :: ((Npos (XO (XO (XI (XO (XI (XI
    XH))))))) :: ((Npos (XI (XO (XO (XI (XO (XI XH))))))) :: ((Npos (XI (XO
    (XO (XO (XO (XI XH))))))) :: ((Npos (XO (XO (XI (XI (XO (XI
    XH))))))) :: ((Npos (XI (XO (XO (XI (XO (XI XH))))))) :: ((Npos (XO (XI
    (XO (XI (XI (XI XH))))))) :: ((Npos (XI (XO (XI (XO (XO (XI
    XH))))))) :: ((Npos (XO (XO (XI (XO (XO (XI XH))))))) :: ((Npos (XI (XI
    (XO (XO (XO (XI XH))))))) :: ((Npos (XO (XO (XO (XI (XO (XI
    XH))))))) :: ((Npos (XI (XO (XI (XO (XO (XI XH))))))) :: ((Npos (XI (XI
    (XO (XO (XO (XI XH))))))) :: ((Npos (XI (XI (XO (XI (XO (XI
    XH))))))) :: [])))))))))))))))) :: (((Npos (XI (XI (XI (XI (XO (XI
    XH))))))) :: ((Npos (XO (XI (XI (XO (XI (XI XH))))))) :: ((Npos (XI (XO
    (XI (XO (XO (XI XH))))))) :: ((Npos (XO (XI (XO (XO (XI (XI
    XH))))))) :: ((Npos (XO (XI (XI (XO (XO (XI XH))))))) :: ((Npos (XO (XO
    (XI (XI (XO (XI XH))))))) :: ((Npos (XI (XI (XI (XI (XO (XI
    XH))))))) :: ((Npos (XI (XI (XI (XO (XI (XI XH))))))) :: ((Npos (XI (XI
    (XO (XO (XO (XI XH))))))) :: ((Npos (XO (XO (XO (XI (XO (XI
    XH))))))) :: ((Npos (XI (XO (XI (XO (XO (XI XH))))))) :: ((Npos (XI (XI
    (XO (XO (XO (XI XH))))))) :: ((Npos (XI (XI (XO (XI (XO (XI
    XH))))))) :: []))))))))))))) :: (((Npos (XI (XI (XI (XI (XO (XI
    XH))))))) :: ((Npos (XO (XI (XI (XO (XI (XI XH))))))) :: ((Npos (XI (XO
    (XI (XO (XO (XI XH))))))) :: ((Npos (XO (XI (XO (XO (XI (XI
    XH))))))) :: ((Npos (XO (XI (XI (XO (XO (XI XH))))))) :: ((Npos (XO (XO
    (XI (XI (XO (XI XH))))))) :: ((Npos (XI (XI (XI (XI (XO (XI
    XH))))))) :: ((Npos (XI (XI (XI (XO (XI (XI XH))))))) :: ((Npos (XI (XI
    (XO (XO (XO (XI XH))))))) :: ((Npos (XO (XO (XO (XI (XO (XI
    XH))))))) :: ((Npos (XI (XO (XI (XO (XO (XI XH))))))) :: ((Npos (XI (XI
    (XO (XO (XO (XI XH))))))) :: ((Npos (XI (XI (XO (XI (XO (XI
    XH))))))) :: ((Npos (XO (XI (XI (XI (XO XH)))))) :: ((Npos (XO (XI (XI
    (XO (XO (XI XH))))))) :: ((Npos (XI (XI (XI (XI (XO (XI
    XH))))))) :: ((Npos (XO (XO (XI (XI (XO (XI XH))))))) :: ((Npos (XO (XO
    (XI (XO (XO (XI XH))))))) :: [])))))))))))))))))) :: (((Npos (XI (XO (XI
    (XO (XO (XI XH))))))) :: ((Npos (XI (XO (XI (XI (XO (XI
    XH))))))) :: ((Npos (XO (XI (XO (XO (XO (XI XH))))))) :: ((Npos (XI (XO
    (XI (XO (XO (XI XH))))))) :: ((Npos (XO (XO (XI (XO (XO (XI
    XH))))))) :: ((Npos (XI (XI (XO (XO (XI (XI XH))))))) :: ((Npos (XI (XO
    (XO (XI (XO (XI XH))))))) :: ((Npos (XI (XI (XI (XO (XO (XI
    XH))))))) :: ((Npos (XO (XI (XI (XI (XO (XI XH))))))) :: ((Npos (XI (XO
    (XO (XO (XO (XI XH))))))) :: ((Npos (XO (XO (XI (XO (XI (XI
    XH))))))) :: ((Npos (XI (XO (XI (XO (XI (XI XH))))))) :: ((Npos (XO (XI
    (XO (XO (XI (XI XH))))))) :: ((Npos (XI (XO (XI (XO (XO (XI
    XH))))))) :: [])))))))))))))) :: (((Npos (XI (XO (XI (XO (XO (XI
    XH))))))) :: ((Npos (XI (XO (XI (XI (XO (XI XH))))))) :: ((Npos (XO (XI
    (XO (XO (XO (XI XH))))))) :: ((Npos (XI (XO (XI (XO (XO (XI
    XH))))))) :: ((Npos (XO (XO (XI (XO (XO (XI XH))))))) :: ((Npos (XI (XI
    (XO (XO (XI (XI XH))))))) :: ((Npos (XI (XO (XO (XI (XO (XI
    XH))))))) :: ((Npos (XI (XI (XI (XO (XO (XI XH))))))) :: ((Npos (XO (XI
    (XI (XI (XO (XI XH))))))) :: ((Npos (XI (XO (XO (XO (XO (XI
    XH))))))) :: ((Npos (XO (XO (XI (XO (XI (XI XH))))))) :: ((Npos (XI (XO
    (XI (XO (XI (XI XH))))))) :: ((Npos (XO (XI (XO (XO (XI (XI
    XH))))))) :: ((Npos (XI (XO (XI (XO (XO (XI XH))))))) :: ((Npos (XO (XI
    (XI (XI (XO XH)))))) :: ((Npos (XO (XI (XI (XO (XO (XI
    XH))))))) :: ((Npos (XI (XI (XI (XI (XO (XI XH))))))) :: ((Npos (XO (XI
    (XO (XO (XI (XI XH))))))) :: ((Npos (XI (XO (XI (XI (XO (XI
    XH))))))) :: ((Npos (XI (XO (XO (XO (XO (XI XH))))))) :: ((Npos (XO (XO
    (XI (XO (XI (XI XH))))))) :: []))))))))))))))))))))) :: (((Npos (XO (XI
    (XO (XO (XO (XI XH))))))) :: ((Npos (XI (XO (XO (XI (XO (XI
    XH))))))) :: ((Npos (XO (XI (XI (XI (XO (XI XH))))))) :: ((Npos (XO (XO
    (XI (XO (XO (XI XH))))))) :: ((Npos (XI (XO (XO (XI (XO (XI
    XH))))))) :: ((Npos (XO (XI (XI (XI (XO (XI XH))))))) :: ((Npos (XI (XI
    (XI (XO (XO (XI XH))))))) :: []))))))) :: (((Npos (XI (XO (XO (XO (XO (XI
    XH))))))) :: ((Npos (XO (XO (XI (XI (XO (XI XH))))))) :: ((Npos (XI (XI
    (XI (XO (XI (XI XH))))))) :: ((Npos (XI (XO (XO (XO (XO (XI
    XH))))))) :: ((Npos (XI (XO (XO (XI (XI (XI XH))))))) :: ((Npos (XI (XI
    (XO (XO (XI (XI XH))))))) :: ((Npos (XI (XI (XI (XI (XI (XO
    XH))))))) :: ((Npos (XI (XO (XO (XO (XO (XI XH))))))) :: ((Npos (XO (XO
    (XI (XI (XO (XI XH))))))) :: ((Npos (XO (XO (XI (XI (XO (XI
    XH))))))) :: ((Npos (XI (XI (XI (XI (XO (XI XH))))))) :: ((Npos (XI (XI
    (XI (XO (XI (XI XH))))))) :: ((Npos (XI (XI (XI (XI (XI (XO
    XH))))))) :: ((Npos (XI (XI (XO (XI (XO (XI XH))))))) :: ((Npos (XI (XO
    (XI (XO (XO (XI XH))))))) :: ((Npos (XI (XO (XO (XI (XI (XI
    XH))))))) :: ((Npos (XI (XI (XI (XO (XI (XI XH))))))) :: ((Npos (XI (XI
    (XI (XI (XO (XI XH))))))) :: ((Npos (XO (XI (XO (XO (XI (XI
    XH))))))) :: ((Npos (XO (XO (XI (XO (XO (XI XH))))))) :: ((Npos (XI (XI
    (XO (XO (XI (XI XH))))))) :: []))))))))))))))))))))) :: (((Npos (XI (XO
    (XO (XO (XO (XI XH))))))) :: ((Npos (XO (XO (XI (XI (XO (XI
    XH))))))) :: ((Npos (XO (XO (XI (XI (XO (XI XH))))))) :: ((Npos (XI (XI
    (XI (XI (XO (XI XH))))))) :: ((Npos (XI (XI (XI (XO (XI (XI
    XH))))))) :: ((Npos (XI (XI (XI (XI (XI (XO XH))))))) :: ((Npos (XO (XI
    (XI (XI (XO (XI XH))))))) :: ((Npos (XI (XI (XI (XI (XO (XI
    XH))))))) :: ((Npos (XO (XI (XI (XI (XO (XI XH))))))) :: ((Npos (XI (XO
    (XI (XO (XO (XI XH))))))) :: ((Npos (XI (XI (XI (XI (XI (XO
    XH))))))) :: ((Npos (XO (XI (XI (XO (XO (XI XH))))))) :: ((Npos (XI (XI
    (XI (XI (XO (XI XH))))))) :: ((Npos (XO (XI (XO (XO (XI (XI
    XH))))))) :: ((Npos (XI (XI (XI (XI (XI (XO XH))))))) :: ((Npos (XI (XO
    (XI (XO (XO (XI XH))))))) :: ((Npos (XO (XO (XO (XI (XI (XI
    XH))))))) :: ((Npos (XO (XO (XI (XO (XI (XI XH))))))) :: ((Npos (XI (XO
    (XI (XO (XO (XI XH))))))) :: ((Npos (XO (XI (XI (XI (XO (XI
    XH))))))) :: ((Npos (XI (XI (XO (XO (XI (XI XH))))))) :: ((Npos (XI (XO
    (XO (XI (XO (XI XH))))))) :: ((Npos (XI (XI (XI (XI (XO (XI
    XH))))))) :: ((Npos (XO (XI (XI (XI (XO (XI XH))))))) :: ((Npos (XI (XI
    (XI (XI (XI (XO XH))))))) :: ((Npos (XI (XO (XO (XO (XO (XI
    XH))))))) :: ((Npos (XO (XI (XO (XO (XI (XI XH))))))) :: ((Npos (XI (XI
    (XI (XO (XO (XI XH))))))) :: ((Npos (XI (XI (XO (XO (XI (XI
    XH))))))) :: []))))))))))))))))))))))))))))) :: (((Npos (XO (XO (XO (XO
    (XI (XI XH))))))) :: ((Npos (XO (XI (XO (XO (XI (XI XH))))))) :: ((Npos
    (XI (XI (XI (XI (XO (XI XH))))))) :: ((Npos (XO (XI (XI (XO (XO (XI
    XH))))))) :: ((Npos (XI (XO (XO (XI (XO (XI XH))))))) :: ((Npos (XO (XO
    (XI (XI (XO (XI XH))))))) :: ((Npos (XI (XO (XI (XO (XO (XI
    XH))))))) :: []))))))) :: (((Npos (XO (XO (XI (XI (XO (XI
    XH))))))) :: ((Npos (XI (XO (XO (XI (XO (XI XH))))))) :: ((Npos (XO (XI
    (XI (XI (XO (XI XH))))))) :: ((Npos (XI (XO (XI (XO (XO (XI
    XH))))))) :: ((Npos (XO (XO (XI (XO (XI (XI XH))))))) :: ((Npos (XO (XI
    (XO (XO (XI (XI XH))))))) :: ((Npos (XI (XO (XO (XO (XO (XI
    XH))))))) :: ((Npos (XI (XI (XO (XO (XO (XI XH))))))) :: ((Npos (XI (XO
    (XI (XO (XO (XI XH))))))) :: []))))))))) :: (((Npos (XI (XO (XO (XI (XO
    (XI XH))))))) :: ((Npos (XO (XI (XI (XI (XO (XI XH))))))) :: ((Npos (XO
    (XI (XI (XO (XO (XI XH))))))) :: ((Npos (XI (XO (XI (XO (XO (XI
    XH))))))) :: ((Npos (XO (XI (XO (XO (XI (XI XH))))))) :: ((Npos (XI (XI
    (XI (XI (XI (XO XH))))))) :: ((Npos (XO (XO (XI (XO (XI (XI
    XH))))))) :: ((Npos (XI (XO (XO (XI (XI (XI XH))))))) :: ((Npos (XO (XO
    (XO (XO (XI (XI XH))))))) :: ((Npos (XI (XO (XI (XO (XO (XI
    XH))))))) :: ((Npos (XI (XI (XO (XO (XI (XI
    XH))))))) :: []))))))))))) :: (((Npos (XI (XO (XO (XI (XO (XI
    XH))))))) :: ((Npos (XO (XI (XI (XI (XO (XI XH))))))) :: ((Npos (XO (XI
    (XI (XO (XO (XI XH))))))) :: ((Npos (XI (XO (XI (XO (XO (XI
    XH))))))) :: ((Npos (XO (XI (XO (XO (XI (XI XH))))))) :: ((Npos (XI (XI
    (XI (XI (XI (XO XH))))))) :: ((Npos (XO (XO (XI (XO (XI (XI
    XH))))))) :: ((Npos (XI (XO (XO (XI (XI (XI XH))))))) :: ((Npos (XO (XO
    (XO (XO (XI (XI XH))))))) :: ((Npos (XI (XO (XI (XO (XO (XI
    XH))))))) :: ((Npos (XI (XI (XO (XO (XI (XI XH))))))) :: ((Npos (XO (XI
    (XI (XI (XO XH)))))) :: ((Npos (XO (XI (XI (XO (XI (XI
    XH))))))) :: ((Npos (XI (XO (XI (XO (XO (XI XH))))))) :: ((Npos (XO (XI
    (XO (XO (XI (XI XH))))))) :: ((Npos (XO (XI (XO (XO (XO (XI
    XH))))))) :: ((Npos (XI (XI (XI (XI (XO (XI XH))))))) :: ((Npos (XI (XI
    (XO (XO (XI (XI XH))))))) :: ((Npos (XI (XO (XI (XO (XO (XI
    XH))))))) :: []))))))))))))))))))) :: (((Npos (XI (XO (XO (XO (XO (XI
    XH))))))) :: ((Npos (XO (XI (XI (XI (XO (XI XH))))))) :: ((Npos (XO (XI
    (XI (XI (XO (XI XH))))))) :: ((Npos (XI (XI (XI (XI (XO (XI
    XH))))))) :: ((Npos (XO (XO (XI (XO (XI (XI XH))))))) :: ((Npos (XI (XO
    (XO (XO (XO (XI XH))))))) :: ((Npos (XO (XO (XI (XO (XI (XI
    XH))))))) :: ((Npos (XI (XO (XO (XI (XO (XI XH))))))) :: ((Npos (XI (XI
    (XI (XI (XO (XI XH))))))) :: ((Npos (XO (XI (XI (XI (XO (XI
    XH))))))) :: ((Npos (XI (XI (XI (XI (XI (XO XH))))))) :: ((Npos (XO (XO
    (XI (XO (XI (XI XH))))))) :: ((Npos (XI (XO (XO (XI (XI (XI
    XH))))))) :: ((Npos (XO (XO (XO (XO (XI (XI XH))))))) :: ((Npos (XI (XO
    (XO (XI (XO (XI XH))))))) :: ((Npos (XO (XI (XI (XI (XO (XI
    XH))))))) :: ((Npos (XI (XI (XI (XO (XO (XI
    XH))))))) :: []))))))))))))))))) :: (((Npos (XI (XI (XO (XO (XO (XI
    XH))))))) :: ((Npos (XO (XO (XO (XO (XI (XI XH))))))) :: ((Npos (XI (XI
    (XI (XI (XO (XI XH))))))) :: ((Npos (XI (XI (XI (XO (XI (XI
    XH))))))) :: [])))) :: (((Npos (XI (XI (XO (XO (XO (XI
    XH))))))) :: ((Npos (XI (XI (XI (XI (XI (XO XH))))))) :: ((Npos (XI (XO
    (XO (XO (XO (XI XH))))))) :: ((Npos (XO (XO (XO (XO (XI (XI
    XH))))))) :: ((Npos (XI (XO (XO (XI (XO (XI XH))))))) :: ((Npos (XI (XI
    (XI (XI (XI (XO XH))))))) :: ((Npos (XO (XI (XO (XO (XO (XI
    XH))))))) :: ((Npos (XI (XO (XO (XI (XO (XI XH))))))) :: ((Npos (XO (XI
    (XI (XI (XO (XI XH))))))) :: ((Npos (XI (XI (XI (XI (XO (XI
    XH))))))) :: ((Npos (XO (XO (XO (XO (XI (XI XH))))))) :: ((Npos (XI (XI
    (XI (XI (XI (XO XH))))))) :: ((Npos (XI (XO (XI (XI (XO (XI
    XH))))))) :: ((Npos (XI (XO (XI (XO (XO (XI XH))))))) :: ((Npos (XO (XO
    (XI (XO (XI (XI XH))))))) :: ((Npos (XO (XO (XO (XI (XO (XI
    XH))))))) :: ((Npos (XI (XI (XI (XI (XO (XI XH))))))) :: ((Npos (XO (XO
    (XI (XO (XO (XI XH))))))) :: ((Npos (XI (XI (XO (XO (XI (XI
    XH))))))) :: []))))))))))))))))))) :: (((Npos (XI (XO (XI (XO (XI (XI
    XH))))))) :: ((Npos (XO (XI (XI (XI (XO (XI XH))))))) :: ((Npos (XO (XI
    (XO (XO (XI (XI XH))))))) :: ((Npos (XI (XO (XO (XO (XO (XI
    XH))))))) :: ((Npos (XI (XO (XO (XI (XO (XI XH))))))) :: ((Npos (XI (XI
    (XO (XO (XI (XI XH))))))) :: ((Npos (XI (XO (XO (XO (XO (XI
    XH))))))) :: ((Npos (XO (XI (XO (XO (XO (XI XH))))))) :: ((Npos (XO (XO
    (XI (XI (XO (XI XH))))))) :: ((Npos (XI (XO (XI (XO (XO (XI
    XH))))))) :: ((Npos (XI (XI (XI (XI (XI (XO XH))))))) :: ((Npos (XO (XO
    (XI (XO (XI (XI XH))))))) :: ((Npos (XO (XI (XO (XO (XI (XI
    XH))))))) :: ((Npos (XI (XO (XO (XO (XO (XI XH))))))) :: ((Npos (XI (XI
    (XO (XO (XO (XI XH))))))) :: ((Npos (XI (XO (XI (XO (XO (XI
    XH))))))) :: ((Npos (XO (XI (XO (XO (XO (XI XH))))))) :: ((Npos (XI (XO
    (XO (XO (XO (XI XH))))))) :: ((Npos (XI (XI (XO (XO (XO (XI
    XH))))))) :: ((Npos (XI (XI (XO (XI (XO (XI XH))))))) :: ((Npos (XI (XI
    (XO (XO (XI (XI XH))))))) :: []))))))))))))))))))))) :: (((Npos (XI (XO
    (XO (XO (XO (XI XH))))))) :: ((Npos (XI (XO (XI (XO (XI (XI
    XH))))))) :: ((Npos (XO (XO (XI (XO (XI (XI XH))))))) :: ((Npos (XI (XI
    (XI (XI (XO (XI XH))))))) :: ((Npos (XI (XI (XI (XI (XI (XO
    XH))))))) :: ((Npos (XI (XI (XO (XO (XO (XI XH))))))) :: ((Npos (XO (XO
    (XO (XO (XI (XI XH))))))) :: ((Npos (XO (XO (XI (XO (XO (XI
    XH))))))) :: ((Npos (XI (XO (XI (XO (XO (XI XH))))))) :: ((Npos (XO (XI
    (XI (XO (XO (XI XH))))))) :: [])))))))))) :: (((Npos (XI (XI (XO (XO (XO
    (XI XH))))))) :: ((Npos (XI (XO (XO (XO (XO (XI XH))))))) :: ((Npos (XO
    (XO (XI (XI (XO (XI XH))))))) :: ((Npos (XO (XO (XI (XI (XO (XI
    XH))))))) :: ((Npos (XI (XI (XO (XO (XI (XI XH))))))) :: ((Npos (XO (XO
    (XO (XO (XI (XI XH))))))) :: ((Npos (XI (XO (XI (XO (XO (XI
    XH))))))) :: ((Npos (XI (XI (XO (XO (XO (XI
    XH))))))) :: [])))))))) :: (((Npos (XO (XI (XI (XO (XO (XI
    XH))))))) :: ((Npos (XI (XO (XO (XO (XO (XI XH))))))) :: ((Npos (XI (XI
    (XO (XO (XI (XI XH))))))) :: ((Npos (XO (XO (XI (XO (XI (XI
    XH))))))) :: ((Npos (XI (XI (XI (XI (XI (XO XH))))))) :: ((Npos (XI (XI
    (XI (XO (XO (XI XH))))))) :: ((Npos (XI (XO (XI (XO (XO (XI
    XH))))))) :: ((Npos (XO (XO (XI (XO (XI (XI XH))))))) :: ((Npos (XI (XO
    (XO (XO (XO (XI XH))))))) :: ((Npos (XO (XO (XI (XO (XI (XI
    XH))))))) :: ((Npos (XO (XO (XI (XO (XI (XI XH))))))) :: ((Npos (XO (XI
    (XO (XO (XI (XI XH))))))) :: [])))))))))))) :: (((Npos (XO (XO (XO (XO
    (XI (XI XH))))))) :: ((Npos (XI (XO (XO (XI (XI (XI XH))))))) :: ((Npos
    (XO (XI (XO (XO (XI XH)))))) :: ((Npos (XI (XI (XI (XI (XI (XO
    XH))))))) :: ((Npos (XI (XO (XO (XI (XO (XI XH))))))) :: ((Npos (XI (XO
    (XI (XI (XO (XI XH))))))) :: ((Npos (XO (XO (XO (XO (XI (XI
    XH))))))) :: ((Npos (XI (XI (XI (XI (XO (XI XH))))))) :: ((Npos (XO (XI
    (XO (XO (XI (XI XH))))))) :: ((Npos (XO (XO (XI (XO (XI (XI
    XH))))))) :: [])))))))))) :: (((Npos (XO (XI (XO (XO (XI (XI
    XH))))))) :: ((Npos (XI (XO (XI (XO (XO (XI XH))))))) :: ((Npos (XI (XO
    (XI (XI (XO (XI XH))))))) :: ((Npos (XI (XI (XI (XI (XO (XI
    XH))))))) :: ((Npos (XO (XI (XI (XO (XI (XI XH))))))) :: ((Npos (XI (XO
    (XI (XO (XO (XI XH))))))) :: ((Npos (XI (XI (XI (XI (XI (XO
    XH))))))) :: ((Npos (XI (XO (XI (XO (XI (XI XH))))))) :: ((Npos (XO (XI
    (XI (XI (XO (XI XH))))))) :: ((Npos (XO (XI (XO (XO (XI (XI
    XH))))))) :: ((Npos (XI (XO (XI (XO (XO (XI XH))))))) :: ((Npos (XI (XO
    (XO (XO (XO (XI XH))))))) :: ((Npos (XI (XI (XO (XO (XO (XI
    XH))))))) :: ((Npos (XO (XO (XO (XI (XO (XI XH))))))) :: ((Npos (XI (XO
    (XO (XO (XO (XI XH))))))) :: ((Npos (XO (XI (XO (XO (XO (XI
    XH))))))) :: ((Npos (XO (XO (XI (XI (XO (XI XH))))))) :: ((Npos (XI (XO
    (XI (XO (XO (XI XH))))))) :: [])))))))))))))))))) :: (((Npos (XI (XI (XO
    (XO (XI (XI XH))))))) :: ((Npos (XO (XO (XO (XI (XO (XI
    XH))))))) :: ((Npos (XI (XI (XI (XI (XO (XI XH))))))) :: ((Npos (XI (XI
    (XI (XO (XI (XI XH))))))) :: ((Npos (XI (XI (XI (XI (XI (XO
    XH))))))) :: ((Npos (XO (XO (XO (XO (XI (XI XH))))))) :: ((Npos (XI (XO
    (XI (XO (XO (XI XH))))))) :: ((Npos (XO (XI (XO (XO (XI (XI
    XH))))))) :: ((Npos (XO (XI (XI (XO (XO (XI XH))))))) :: ((Npos (XI (XI
    (XI (XI (XO (XI XH))))))) :: ((Npos (XO (XI (XO (XO (XI (XI
    XH))))))) :: ((Npos (XI (XO (XI (XI (XO (XI XH))))))) :: ((Npos (XI (XO
    (XO (XO (XO (XI XH))))))) :: ((Npos (XO (XI (XI (XI (XO (XI
    XH))))))) :: ((Npos (XI (XI (XO (XO (XO (XI XH))))))) :: ((Npos (XI (XO
    (XI (XO (XO (XI XH))))))) :: ((Npos (XI (XI (XI (XI (XI (XO
    XH))))))) :: ((Npos (XO (XO (XO (XI (XO (XI XH))))))) :: ((Npos (XI (XO
    (XO (XI (XO (XI XH))))))) :: ((Npos (XO (XI (XI (XI (XO (XI
    XH))))))) :: ((Npos (XO (XO (XI (XO (XI (XI XH))))))) :: ((Npos (XI (XI
    (XO (XO (XI (XI XH))))))) :: [])))))))))))))))))))))) :: (((Npos (XI (XI
    (XI (XI (XO (XI XH))))))) :: ((Npos (XO (XO (XO (XO (XI (XI
    XH))))))) :: ((Npos (XO (XO (XI (XO (XI (XI XH))))))) :: ((Npos (XI (XO
    (XO (XI (XO (XI XH))))))) :: ((Npos (XI (XO (XI (XI (XO (XI
    XH))))))) :: ((Npos (XI (XO (XO (XI (XO (XI XH))))))) :: ((Npos (XO (XI
    (XO (XI (XI (XI XH))))))) :: ((Npos (XI (XO (XI (XO (XO (XI
    XH))))))) :: ((Npos (XO (XI (XI (XI (XO XH)))))) :: ((Npos (XI (XO (XO
    (XI (XO (XI XH))))))) :: ((Npos (XO (XI (XI (XI (XO (XI
    XH))))))) :: ((Npos (XO (XO (XI (XI (XO (XI XH))))))) :: ((Npos (XI (XO
    (XO (XI (XO (XI XH))))))) :: ((Npos (XO (XI (XI (XI (XO (XI
    XH))))))) :: ((Npos (XI (XO (XI (XO (XO (XI XH))))))) :: ((Npos (XI (XI
    (XI (XI (XI (XO XH))))))) :: ((Npos (XO (XO (XI (XO (XO (XI
    XH))))))) :: ((Npos (XI (XO (XI (XO (XO (XI XH))))))) :: ((Npos (XO (XI
    (XI (XO (XO (XI XH))))))) :: ((Npos (XO (XI (XI (XI (XO (XI
    XH))))))) :: ((Npos (XI (XI (XI (XI (XO (XI XH))))))) :: ((Npos (XO (XO
    (XI (XO (XO (XI XH))))))) :: ((Npos (XI (XO (XI (XO (XO (XI
    XH))))))) :: ((Npos (XI (XI (XI (XI (XI (XO XH))))))) :: ((Npos (XI (XI
    (XO (XO (XO (XI XH))))))) :: ((Npos (XI (XO (XO (XO (XO (XI
    XH))))))) :: ((Npos (XO (XO (XI (XI (XO (XI XH))))))) :: ((Npos (XO (XO
    (XI (XI (XO (XI XH))))))) :: ((Npos (XI (XI (XO (XO (XI (XI
    XH))))))) :: []))))))))))))))))))))))))))))) :: (((Npos (XI (XI (XI (XI
    (XO (XI XH))))))) :: ((Npos (XO (XO (XO (XO (XI (XI XH))))))) :: ((Npos
    (XO (XO (XI (XO (XI (XI XH))))))) :: ((Npos (XI (XO (XO (XI (XO (XI
    XH))))))) :: ((Npos (XI (XO (XI (XI (XO (XI XH))))))) :: ((Npos (XI (XO
    (XO (XI (XO (XI XH))))))) :: ((Npos (XO (XI (XO (XI (XI (XI
    XH))))))) :: ((Npos (XI (XO (XI (XO (XO (XI XH))))))) :: ((Npos (XO (XI
    (XI (XI (XO XH)))))) :: ((Npos (XI (XO (XI (XO (XI (XI
    XH))))))) :: ((Npos (XO (XI (XI (XI (XO (XI XH))))))) :: ((Npos (XO (XO
    (XO (XO (XI (XI XH))))))) :: ((Npos (XI (XO (XO (XO (XO (XI
    XH))))))) :: ((Npos (XI (XI (XO (XO (XO (XI XH))))))) :: ((Npos (XI (XI
    (XO (XI (XO (XI XH))))))) :: ((Npos (XI (XI (XI (XI (XI (XO
    XH))))))) :: ((Npos (XI (XO (XI (XI (XO (XI XH))))))) :: ((Npos (XI (XO
    (XI (XO (XO (XI XH))))))) :: ((Npos (XO (XO (XI (XO (XI (XI
    XH))))))) :: ((Npos (XO (XO (XO (XI (XO (XI XH))))))) :: ((Npos (XI (XI
    (XI (XI (XO (XI XH))))))) :: ((Npos (XO (XO (XI (XO (XO (XI
    XH))))))) :: ((Npos (XI (XI (XI (XI (XI (XO XH))))))) :: ((Npos (XI (XI
    (XO (XO (XO (XI XH))))))) :: ((Npos (XI (XO (XO (XO (XO (XI
    XH))))))) :: ((Npos (XO (XO (XI (XI (XO (XI XH))))))) :: ((Npos (XO (XO
    (XI (XI (XO (XI XH))))))) :: ((Npos (XI (XI (XO (XO (XI (XI
    XH))))))) :: [])))))))))))))))))))))))))))) :: (((Npos (XI (XI (XI (XI
    (XO (XI XH))))))) :: ((Npos (XO (XO (XO (XO (XI (XI XH))))))) :: ((Npos
    (XO (XO (XI (XO (XI (XI XH))))))) :: ((Npos (XI (XO (XO (XI (XO (XI
    XH))))))) :: ((Npos (XI (XO (XI (XI (XO (XI XH))))))) :: ((Npos (XI (XO
    (XO (XI (XO (XI XH))))))) :: ((Npos (XO (XI (XO (XI (XI (XI
    XH))))))) :: ((Npos (XI (XO (XI (XO (XO (XI XH))))))) :: ((Npos (XO (XI
    (XI (XI (XO XH)))))) :: ((Npos (XI (XO (XI (XO (XI (XI
    XH))))))) :: ((Npos (XO (XI (XI (XI (XO (XI XH))))))) :: ((Npos (XO (XO
    (XO (XO (XI (XI XH))))))) :: ((Npos (XI (XO (XO (XO (XO (XI
    XH))))))) :: ((Npos (XI (XI (XO (XO (XO (XI XH))))))) :: ((Npos (XI (XI
    (XO (XI (XO (XI XH))))))) :: ((Npos (XI (XI (XI (XI (XI (XO
    XH))))))) :: ((Npos (XI (XO (XI (XI (XO (XI XH))))))) :: ((Npos (XI (XO
    (XI (XO (XO (XI XH))))))) :: ((Npos (XO (XO (XI (XO (XI (XI
    XH))))))) :: ((Npos (XO (XO (XO (XI (XO (XI XH))))))) :: ((Npos (XI (XI
    (XI (XI (XO (XI XH))))))) :: ((Npos (XO (XO (XI (XO (XO (XI
    XH))))))) :: ((Npos (XI (XI (XI (XI (XI (XO XH))))))) :: ((Npos (XI (XI
    (XO (XO (XO (XI XH))))))) :: ((Npos (XI (XO (XO (XO (XO (XI
    XH))))))) :: ((Npos (XO (XO (XI (XI (XO (XI XH))))))) :: ((Npos (XO (XO
    (XI (XI (XO (XI XH))))))) :: ((Npos (XI (XI (XO (XO (XI (XI
    XH))))))) :: ((Npos (XI (XI (XI (XI (XI (XO XH))))))) :: ((Npos (XI (XO
    (XO (XI (XO (XI XH))))))) :: ((Npos (XO (XI (XI (XI (XO (XI
    XH))))))) :: ((Npos (XI (XI (XI (XI (XI (XO XH))))))) :: ((Npos (XO (XO
    (XO (XO (XI (XI XH))))))) :: ((Npos (XI (XO (XO (XI (XI (XI
    XH))))))) :: ((Npos (XI (XO (XO (XI (XO (XI XH))))))) :: ((Npos (XO (XI
    (XI (XI (XO (XI XH))))))) :: ((Npos (XI (XO (XO (XI (XO (XI
    XH))))))) :: ((Npos (XO (XO (XI (XO (XI (XI
    XH))))))) :: [])))))))))))))))))))))))))))))))))))))) :: (((Npos (XI (XI
    (XI (XI (XO (XI XH))))))) :: ((Npos (XO (XO (XO (XO (XI (XI
    XH))))))) :: ((Npos (XO (XO (XI (XO (XI (XI XH))))))) :: ((Npos (XI (XO
    (XO (XI (XO (XI XH))))))) :: ((Npos (XI (XO (XI (XI (XO (XI
    XH))))))) :: ((Npos (XI (XO (XO (XI (XO (XI XH))))))) :: ((Npos (XO (XI
    (XO (XI (XI (XI XH))))))) :: ((Npos (XI (XO (XI (XO (XO (XI
    XH))))))) :: ((Npos (XO (XI (XI (XI (XO XH)))))) :: ((Npos (XI (XO (XI
    (XO (XI (XI XH))))))) :: ((Npos (XI (XI (XO (XO (XI (XI
    XH))))))) :: ((Npos (XI (XO (XI (XO (XO (XI XH))))))) :: ((Npos (XI (XI
    (XI (XI (XI (XO XH))))))) :: ((Npos (XI (XI (XO (XO (XI (XI
    XH))))))) :: ((Npos (XI (XI (XI (XO (XI (XI XH))))))) :: ((Npos (XI (XO
    (XO (XI (XO (XI XH))))))) :: ((Npos (XO (XO (XI (XO (XI (XI
    XH))))))) :: ((Npos (XI (XI (XO (XO (XO (XI XH))))))) :: ((Npos (XO (XO
    (XO (XI (XO (XI XH))))))) :: []))))))))))))))))))) :: (((Npos (XI (XI (XI
    (XO (XI (XI XH))))))) :: ((Npos (XI (XO (XO (XO (XO (XI
    XH))))))) :: ((Npos (XO (XI (XO (XO (XI (XI XH))))))) :: ((Npos (XO (XI
    (XI (XI (XO (XI XH))))))) :: ((Npos (XO (XI (XI (XI (XO
    XH)))))) :: ((Npos (XI (XO (XI (XO (XI (XI XH))))))) :: ((Npos (XO (XI
    (XI (XI (XO (XI XH))))))) :: ((Npos (XO (XO (XI (XO (XO (XI
    XH))))))) :: ((Npos (XI (XO (XI (XO (XO (XI XH))))))) :: ((Npos (XI (XI
    (XO (XO (XO (XI XH))))))) :: ((Npos (XO (XO (XI (XI (XO (XI
    XH))))))) :: ((Npos (XI (XO (XO (XO (XO (XI XH))))))) :: ((Npos (XO (XI
    (XO (XO (XI (XI XH))))))) :: ((Npos (XI (XO (XI (XO (XO (XI
    XH))))))) :: ((Npos (XO (XO (XI (XO (XO (XI
    XH))))))) :: []))))))))))))))) :: (((Npos (XI (XI (XI (XO (XI (XI
    XH))))))) :: ((Npos (XI (XO (XO (XO (XO (XI XH))))))) :: ((Npos (XO (XI
    (XO (XO (XI (XI XH))))))) :: ((Npos (XO (XI (XI (XI (XO (XI
    XH))))))) :: ((Npos (XO (XI (XI (XI (XO XH)))))) :: ((Npos (XI (XO (XI
    (XO (XI (XI XH))))))) :: ((Npos (XO (XI (XI (XI (XO (XI
    XH))))))) :: ((Npos (XO (XI (XO (XO (XI (XI XH))))))) :: ((Npos (XI (XO
    (XI (XO (XO (XI XH))))))) :: ((Npos (XI (XO (XO (XO (XO (XI
    XH))))))) :: ((Npos (XI (XI (XO (XO (XO (XI XH))))))) :: ((Npos (XO (XO
    (XO (XI (XO (XI XH))))))) :: ((Npos (XI (XO (XO (XO (XO (XI
    XH))))))) :: ((Npos (XO (XI (XO (XO (XO (XI XH))))))) :: ((Npos (XO (XO
    (XI (XI (XO (XI XH))))))) :: ((Npos (XI (XO (XI (XO (XO (XI
    XH))))))) :: [])))))))))))))))) :: (((Npos (XI (XI (XI (XO (XI (XI
    XH))))))) :: ((Npos (XI (XO (XO (XO (XO (XI XH))))))) :: ((Npos (XO (XI
    (XO (XO (XI (XI XH))))))) :: ((Npos (XO (XI (XI (XI (XO (XI
    XH))))))) :: ((Npos (XO (XI (XI (XI (XO XH)))))) :: ((Npos (XI (XO (XI
    (XI (XO (XI XH))))))) :: ((Npos (XI (XO (XO (XO (XO (XI
    XH))))))) :: ((Npos (XI (XO (XO (XI (XI (XI XH))))))) :: ((Npos (XO (XI
    (XO (XO (XO (XI XH))))))) :: ((Npos (XI (XO (XI (XO (XO (XI
    XH))))))) :: ((Npos (XI (XI (XI (XI (XI (XO XH))))))) :: ((Npos (XI (XO
    (XI (XO (XI (XI XH))))))) :: ((Npos (XO (XI (XI (XI (XO (XI
    XH))))))) :: ((Npos (XI (XO (XO (XI (XO (XI XH))))))) :: ((Npos (XO (XI
    (XI (XI (XO (XI XH))))))) :: ((Npos (XI (XO (XO (XI (XO (XI
    XH))))))) :: ((Npos (XO (XO (XI (XO (XI (XI XH))))))) :: ((Npos (XI (XO
    (XO (XI (XO (XI XH))))))) :: ((Npos (XI (XO (XO (XO (XO (XI
    XH))))))) :: ((Npos (XO (XO (XI (XI (XO (XI XH))))))) :: ((Npos (XI (XO
    (XO (XI (XO (XI XH))))))) :: ((Npos (XO (XI (XO (XI (XI (XI
    XH))))))) :: ((Npos (XI (XO (XI (XO (XO (XI XH))))))) :: ((Npos (XO (XO
    (XI (XO (XO (XI XH))))))) :: [])))))))))))))))))))))))) :: (((Npos (XI
    (XI (XI (XO (XI (XI XH))))))) :: ((Npos (XI (XO (XO (XO (XO (XI
    XH))))))) :: ((Npos (XO (XI (XO (XO (XI (XI XH))))))) :: ((Npos (XO (XI
    (XI (XI (XO (XI XH))))))) :: ((Npos (XO (XI (XI (XI (XO
    XH)))))) :: ((Npos (XI (XO (XI (XO (XI (XI XH))))))) :: ((Npos (XO (XI
    (XI (XI (XO (XI XH))))))) :: ((Npos (XI (XO (XI (XO (XI (XI
    XH))))))) :: ((Npos (XI (XI (XO (XO (XI (XI XH))))))) :: ((Npos (XI (XO
    (XI (XO (XO (XI XH))))))) :: ((Npos (XO (XO (XI (XO (XO (XI
    XH))))))) :: []))))))))))) :: (((Npos (XI (XI (XI (XO (XI (XI
    XH))))))) :: ((Npos (XI (XO (XO (XO (XO (XI XH))))))) :: ((Npos (XO (XI
    (XO (XO (XI (XI XH))))))) :: ((Npos (XO (XI (XI (XI (XO (XI
    XH))))))) :: ((Npos (XO (XI (XI (XI (XO XH)))))) :: ((Npos (XI (XO (XI
    (XO (XI (XI XH))))))) :: ((Npos (XO (XI (XI (XI (XO (XI
    XH))))))) :: ((Npos (XI (XO (XI (XO (XI (XI XH))))))) :: ((Npos (XI (XI
    (XO (XO (XI (XI XH))))))) :: ((Npos (XI (XO (XI (XO (XO (XI
    XH))))))) :: ((Npos (XO (XO (XI (XO (XO (XI XH))))))) :: ((Npos (XI (XI
    (XI (XI (XI (XO XH))))))) :: ((Npos (XI (XO (XO (XO (XO (XI
    XH))))))) :: ((Npos (XO (XI (XO (XO (XI (XI XH))))))) :: ((Npos (XI (XI
    (XI (XO (XO (XI XH))))))) :: []))))))))))))))) :: (((Npos (XI (XI (XI (XO
    (XI (XI XH))))))) :: ((Npos (XI (XO (XO (XO (XO (XI XH))))))) :: ((Npos
    (XO (XI (XO (XO (XI (XI XH))))))) :: ((Npos (XO (XI (XI (XI (XO (XI
    XH))))))) :: ((Npos (XO (XI (XI (XI (XO XH)))))) :: ((Npos (XI (XO (XI
    (XO (XI (XI XH))))))) :: ((Npos (XO (XI (XI (XI (XO (XI
    XH))))))) :: ((Npos (XI (XO (XI (XO (XI (XI XH))))))) :: ((Npos (XI (XI
    (XO (XO (XI (XI XH))))))) :: ((Npos (XI (XO (XI (XO (XO (XI
    XH))))))) :: ((Npos (XO (XO (XI (XO (XO (XI XH))))))) :: ((Npos (XI (XI
    (XI (XI (XI (XO XH))))))) :: ((Npos (XO (XI (XO (XO (XI (XI
    XH))))))) :: ((Npos (XI (XO (XI (XO (XO (XI XH))))))) :: ((Npos (XI (XI
    (XO (XO (XI (XI XH))))))) :: ((Npos (XI (XO (XI (XO (XI (XI
    XH))))))) :: ((Npos (XO (XO (XI (XI (XO (XI XH))))))) :: ((Npos (XO (XO
    (XI (XO (XI (XI XH))))))) :: [])))))))))))))))))) :: (((Npos (XI (XI (XI
    (XO (XI (XI XH))))))) :: ((Npos (XI (XO (XO (XO (XO (XI
    XH))))))) :: ((Npos (XO (XI (XO (XO (XI (XI XH))))))) :: ((Npos (XO (XI
    (XI (XI (XO (XI XH))))))) :: ((Npos (XO (XI (XI (XI (XO
    XH)))))) :: ((Npos (XI (XO (XI (XI (XO (XI XH))))))) :: ((Npos (XI (XO
    (XI (XO (XI (XI XH))))))) :: ((Npos (XO (XO (XI (XI (XO (XI
    XH))))))) :: ((Npos (XO (XO (XI (XO (XI (XI XH))))))) :: ((Npos (XI (XO
    (XO (XI (XO (XI XH))))))) :: ((Npos (XO (XO (XO (XO (XI (XI
    XH))))))) :: ((Npos (XO (XO (XI (XI (XO (XI XH))))))) :: ((Npos (XI (XO
    (XI (XO (XO (XI XH))))))) :: ((Npos (XI (XI (XI (XI (XI (XO
    XH))))))) :: ((Npos (XO (XO (XI (XO (XO (XI XH))))))) :: ((Npos (XI (XO
    (XI (XO (XO (XI XH))))))) :: ((Npos (XI (XI (XO (XO (XO (XI
    XH))))))) :: ((Npos (XO (XO (XI (XI (XO (XI XH))))))) :: ((Npos (XI (XO
    (XO (XO (XO (XI XH))))))) :: ((Npos (XO (XI (XO (XO (XI (XI
    XH))))))) :: ((Npos (XI (XO (XO (XO (XO (XI XH))))))) :: ((Npos (XO (XO
    (XI (XO (XI (XI XH))))))) :: ((Npos (XI (XI (XI (XI (XO (XI
    XH))))))) :: ((Npos (XO (XI (XO (XO (XI (XI XH))))))) :: ((Npos (XI (XI
    (XO (XO (XI (XI XH))))))) :: []))))))))))))))))))))))))) :: (((Npos (XI
    (XI (XI (XO (XI (XI XH))))))) :: ((Npos (XI (XO (XO (XO (XO (XI
    XH))))))) :: ((Npos (XO (XI (XO (XO (XI (XI XH))))))) :: ((Npos (XO (XI
    (XI (XI (XO (XI XH))))))) :: ((Npos (XO (XI (XI (XI (XO
    XH)))))) :: ((Npos (XO (XO (XI (XO (XO (XI XH))))))) :: ((Npos (XI (XO
    (XI (XO (XO (XI XH))))))) :: ((Npos (XO (XO (XO (XO (XI (XI
    XH))))))) :: ((Npos (XO (XI (XO (XO (XI (XI XH))))))) :: ((Npos (XI (XO
    (XI (XO (XO (XI XH))))))) :: ((Npos (XI (XI (XO (XO (XO (XI
    XH))))))) :: ((Npos (XI (XO (XO (XO (XO (XI XH))))))) :: ((Npos (XO (XO
    (XI (XO (XI (XI XH))))))) :: ((Npos (XI (XO (XI (XO (XO (XI
    XH))))))) :: ((Npos (XO (XO (XI (XO (XO (XI XH))))))) :: ((Npos (XO (XI
    (XI (XI (XO XH)))))) :: ((Npos (XO (XO (XI (XO (XO (XO
    XH))))))) :: ((Npos (XI (XO (XI (XO (XO (XO XH))))))) :: ((Npos (XO (XI
    (XI (XO (XO (XO XH))))))) :: []))))))))))))))))))) :: (((Npos (XI (XI (XI
    (XO (XI (XI XH))))))) :: ((Npos (XI (XO (XO (XO (XO (XI
    XH))))))) :: ((Npos (XO (XI (XO (XO (XI (XI XH))))))) :: ((Npos (XO (XI
    (XI (XI (XO (XI XH))))))) :: ((Npos (XO (XI (XI (XI (XO
    XH)))))) :: ((Npos (XO (XO (XI (XO (XO (XI XH))))))) :: ((Npos (XI (XO
    (XI (XO (XO (XI XH))))))) :: ((Npos (XO (XO (XO (XO (XI (XI
    XH))))))) :: ((Npos (XO (XI (XO (XO (XI (XI XH))))))) :: ((Npos (XI (XO
    (XI (XO (XO (XI XH))))))) :: ((Npos (XI (XI (XO (XO (XO (XI
    XH))))))) :: ((Npos (XI (XO (XO (XO (XO (XI XH))))))) :: ((Npos (XO (XO
    (XI (XO (XI (XI XH))))))) :: ((Npos (XI (XO (XI (XO (XO (XI
    XH))))))) :: ((Npos (XO (XO (XI (XO (XO (XI XH))))))) :: ((Npos (XO (XI
    (XI (XI (XO XH)))))) :: ((Npos (XI (XO (XO (XI (XO (XO
    XH))))))) :: ((Npos (XO (XI (XI (XO (XO (XO
    XH))))))) :: [])))))))))))))))))) :: [])))))))))))))))))))))))))))))))))))))))

(** val doc_scopes : (str * str list) list **)

let doc_scopes =
  (((Npos (XI (XO (XO (XO (XO (XI XH))))))) :: ((Npos (XI (XO (XI (XO (XI (XI
    XH))))))) :: ((Npos (XO (XO (XI (XO (XI (XI XH))))))) :: ((Npos (XI (XI
    (XI (XI (XO (XI XH))))))) :: ((Npos (XI (XI (XI (XI (XI (XO
    XH))))))) :: ((Npos (XO (XO (XO (XO (XI (XI XH))))))) :: ((Npos (XI (XO
    (XO (XI (XO (XI XH))))))) :: ((Npos (XI (XI (XO (XO (XO (XI
    XH))))))) :: ((Npos (XI (XI (XO (XI (XO (XI XH))))))) :: ((Npos (XO (XO
    (XI (XI (XO (XI XH))))))) :: ((Npos (XI (XO (XI (XO (XO (XI
    XH))))))) :: []))))))))))), (((Npos (XI (XO (XI (XI (XO (XI
    XH))))))) :: ((Npos (XI (XI (XI (XI (XO (XI XH))))))) :: ((Npos (XO (XO
    (XI (XO (XO (XI XH))))))) :: ((Npos (XI (XO (XI (XO (XI (XI
    XH))))))) :: ((Npos (XO (XO (XI (XI (XO (XI XH))))))) :: ((Npos (XI (XO
    (XI (XO (XO (XI XH))))))) :: [])))))) :: (((Npos (XI (XI (XO (XO (XO (XI
    XH))))))) :: ((Npos (XI (XI (XO (XO (XO (XI XH))))))) :: ((Npos (XO (XO
    (XI (XI (XO (XI XH))))))) :: ((Npos (XI (XO (XO (XO (XO (XI
    XH))))))) :: ((Npos (XI (XI (XO (XO (XI (XI XH))))))) :: ((Npos (XI (XI
    (XO (XO (XI (XI XH))))))) :: [])))))) :: []))) :: ((((Npos (XO (XI (XI
    (XO (XO (XI XH))))))) :: ((Npos (XI (XO (XO (XI (XO (XI
    XH))))))) :: ((Npos (XO (XI (XI (XI (XO (XI XH))))))) :: ((Npos (XI (XO
    (XO (XO (XO (XI XH))))))) :: ((Npos (XO (XO (XI (XI (XO (XI
    XH))))))) :: []))))), (((Npos (XI (XI (XO (XO (XO (XI XH))))))) :: ((Npos
    (XI (XI (XO (XO (XO (XI XH))))))) :: ((Npos (XO (XO (XI (XI (XO (XI
    XH))))))) :: ((Npos (XI (XO (XO (XO (XO (XI XH))))))) :: ((Npos (XI (XI
    (XO (XO (XI (XI XH))))))) :: ((Npos (XI (XI (XO (XO (XI (XI
    XH))))))) :: [])))))) :: (((Npos (XO (XI (XI (XO (XO (XI
    XH))))))) :: ((Npos (XI (XO (XI (XO (XI (XI XH))))))) :: ((Npos (XO (XI
    (XI (XI (XO (XI XH))))))) :: ((Npos (XI (XI (XO (XO (XO (XI
    XH))))))) :: ((Npos (XO (XO (XI (XO (XI (XI XH))))))) :: ((Npos (XI (XO
    (XO (XI (XO (XI XH))))))) :: ((Npos (XI (XI (XI (XI (XO (XI
    XH))))))) :: ((Npos (XO (XI (XI (XI (XO (XI
    XH))))))) :: [])))))))) :: []))) :: ((((Npos (XI (XI (XO (XO (XO (XI
    XH))))))) :: ((Npos (XI (XI (XO (XO (XO (XI XH))))))) :: ((Npos (XI (XI
    (XI (XI (XO (XI XH))))))) :: ((Npos (XI (XO (XI (XI (XO (XI
    XH))))))) :: ((Npos (XO (XO (XO (XO (XI (XI XH))))))) :: ((Npos (XO (XO
    (XI (XI (XO (XI XH))))))) :: ((Npos (XI (XO (XI (XO (XO (XI
    XH))))))) :: ((Npos (XO (XO (XO (XI (XI (XI XH))))))) :: [])))))))),
    (((Npos (XI (XO (XI (XI (XO (XI XH))))))) :: ((Npos (XI (XI (XI (XI (XO
    (XI XH))))))) :: ((Npos (XO (XO (XI (XO (XO (XI XH))))))) :: ((Npos (XI
    (XO (XI (XO (XI (XI XH))))))) :: ((Npos (XO (XO (XI (XI (XO (XI
    XH))))))) :: ((Npos (XI (XO (XI (XO (XO (XI
    XH))))))) :: [])))))) :: [])) :: ((((Npos (XI (XI (XO (XO (XO (XI
    XH))))))) :: ((Npos (XI (XI (XI (XI (XO (XI XH))))))) :: ((Npos (XO (XO
    (XI (XI (XO (XI XH))))))) :: ((Npos (XO (XO (XI (XI (XO (XI
    XH))))))) :: ((Npos (XI (XO (XI (XO (XO (XI XH))))))) :: ((Npos (XI (XI
    (XO (XO (XO (XI XH))))))) :: ((Npos (XO (XO (XI (XO (XI (XI
    XH))))))) :: ((Npos (XI (XO (XO (XI (XO (XI XH))))))) :: ((Npos (XI (XI
    (XI (XI (XO (XI XH))))))) :: ((Npos (XO (XI (XI (XI (XO (XI
    XH))))))) :: ((Npos (XI (XI (XI (XI (XI (XO XH))))))) :: ((Npos (XO (XO
    (XI (XO (XI (XI XH))))))) :: ((Npos (XI (XO (XO (XI (XI (XI
    XH))))))) :: ((Npos (XO (XO (XO (XO (XI (XI XH))))))) :: ((Npos (XI (XO
    (XI (XO (XO (XI XH))))))) :: []))))))))))))))), (((Npos (XI (XI (XO (XO
    (XO (XI XH))))))) :: ((Npos (XI (XI (XO (XO (XO (XI XH))))))) :: ((Npos
    (XO (XO (XI (XI (XO (XI XH))))))) :: ((Npos (XI (XO (XO (XO (XO (XI
    XH))))))) :: ((Npos (XI (XI (XO (XO (XI (XI XH))))))) :: ((Npos (XI (XI
    (XO (XO (XI (XI XH))))))) :: [])))))) :: [])) :: ((((Npos (XO (XI (XI (XI
    (XO (XI XH))))))) :: ((Npos (XI (XI (XI (XI (XO (XI XH))))))) :: ((Npos
    (XI (XI (XI (XO (XO (XI XH))))))) :: ((Npos (XI (XO (XO (XI (XO (XI
    XH))))))) :: ((Npos (XO (XO (XI (XI (XO (XI XH))))))) :: []))))), (((Npos
    (XO (XI (XI (XO (XO (XI XH))))))) :: ((Npos (XI (XO (XI (XO (XI (XI
    XH))))))) :: ((Npos (XO (XI (XI (XI (XO (XI XH))))))) :: ((Npos (XI (XI
    (XO (XO (XO (XI XH))))))) :: ((Npos (XO (XO (XI (XO (XI (XI
    XH))))))) :: ((Npos (XI (XO (XO (XI (XO (XI XH))))))) :: ((Npos (XI (XI
    (XI (XI (XO (XI XH))))))) :: ((Npos (XO (XI (XI (XI (XO (XI
    XH))))))) :: [])))))))) :: (((Npos (XI (XI (XI (XO (XI (XI
    XH))))))) :: ((Npos (XI (XO (XO (XI (XO (XI XH))))))) :: ((Npos (XO (XO
    (XI (XO (XI (XI XH))))))) :: ((Npos (XO (XO (XO (XI (XO (XI
    XH))))))) :: ((Npos (XO (XO (XO (XO (XO XH)))))) :: ((Npos (XI (XI (XO
    (XO (XI (XI XH))))))) :: ((Npos (XO (XO (XI (XO (XI (XI
    XH))))))) :: ((Npos (XI (XO (XO (XO (XO (XI XH))))))) :: ((Npos (XO (XO
    (XI (XO (XI (XI XH))))))) :: ((Npos (XI (XO (XI (XO (XO (XI
    XH))))))) :: ((Npos (XI (XO (XI (XI (XO (XI XH))))))) :: ((Npos (XI (XO
    (XI (XO (XO (XI XH))))))) :: ((Npos (XO (XI (XI (XI (XO (XI
    XH))))))) :: ((Npos (XO (XO (XI (XO (XI (XI
    XH))))))) :: [])))))))))))))) :: []))) :: ((((Npos (XI (XI (XI (XO (XO
    (XI XH))))))) :: ((Npos (XI (XO (XO (XI (XO (XI XH))))))) :: ((Npos (XO
    (XO (XI (XI (XO (XI XH))))))) :: []))), (((Npos (XI (XI (XI (XO (XI (XI
    XH))))))) :: ((Npos (XI (XO (XO (XI (XO (XI XH))))))) :: ((Npos (XO (XO
    (XI (XO (XI (XI XH))))))) :: ((Npos (XO (XO (XO (XI (XO (XI
    XH))))))) :: ((Npos (XO (XO (XO (XO (XO XH)))))) :: ((Npos (XI (XI (XO
    (XO (XI (XI XH))))))) :: ((Npos (XO (XO (XI (XO (XI (XI
    XH))))))) :: ((Npos (XI (XO (XO (XO (XO (XI XH))))))) :: ((Npos (XO (XO
    (XI (XO (XI (XI XH))))))) :: ((Npos (XI (XO (XI (XO (XO (XI
    XH))))))) :: ((Npos (XI (XO (XI (XI (XO (XI XH))))))) :: ((Npos (XI (XO
    (XI (XO (XO (XI XH))))))) :: ((Npos (XO (XI (XI (XI (XO (XI
    XH))))))) :: ((Npos (XO (XO (XI (XO (XI (XI
    XH))))))) :: [])))))))))))))) :: [])) :: ((((Npos (XI (XI (XI (XO (XI (XI
    XH))))))) :: ((Npos (XI (XO (XO (XI (XO (XI XH))))))) :: ((Npos (XO (XO
    (XI (XO (XI (XI XH))))))) :: ((Npos (XO (XO (XO (XI (XO (XI
    XH))))))) :: ((Npos (XI (XI (XI (XI (XI (XO XH))))))) :: ((Npos (XI (XI
    (XI (XO (XO (XI XH))))))) :: ((Npos (XI (XO (XO (XI (XO (XI
    XH))))))) :: ((Npos (XO (XO (XI (XI (XO (XI XH))))))) :: [])))))))),
    (((Npos (XO (XI (XI (XO (XO (XI XH))))))) :: ((Npos (XI (XO (XI (XO (XI
    (XI XH))))))) :: ((Npos (XO (XI (XI (XI (XO (XI XH))))))) :: ((Npos (XI
    (XI (XO (XO (XO (XI XH))))))) :: ((Npos (XO (XO (XI (XO (XI (XI
    XH))))))) :: ((Npos (XI (XO (XO (XI (XO (XI XH))))))) :: ((Npos (XI (XI
    (XI (XI (XO (XI XH))))))) :: ((Npos (XO (XI (XI (XI (XO (XI
    XH))))))) :: [])))))))) :: [])) :: ((((Npos (XI (XI (XO (XO (XO (XI
    XH))))))) :: ((Npos (XO (XI (XO (XO (XI (XI XH))))))) :: ((Npos (XI (XO
    (XO (XI (XO (XI XH))))))) :: ((Npos (XO (XO (XI (XO (XI (XI
    XH))))))) :: ((Npos (XI (XO (XO (XI (XO (XI XH))))))) :: ((Npos (XI (XI
    (XO (XO (XO (XI XH))))))) :: ((Npos (XI (XO (XO (XO (XO (XI
    XH))))))) :: ((Npos (XO (XO (XI (XI (XO (XI XH))))))) :: ((Npos (XI (XI
    (XI (XI (XI (XO XH))))))) :: ((Npos (XI (XI (XO (XO (XI (XI
    XH))))))) :: ((Npos (XI (XO (XI (XO (XO (XI XH))))))) :: ((Npos (XI (XI
    (XO (XO (XO (XI XH))))))) :: ((Npos (XO (XO (XI (XO (XI (XI
    XH))))))) :: ((Npos (XI (XO (XO (XI (XO (XI XH))))))) :: ((Npos (XI (XI
    (XI (XI (XO (XI XH))))))) :: ((Npos (XO (XI (XI (XI (XO (XI
    XH))))))) :: [])))))))))))))))), (((Npos (XO (XI (XI (XO (XO (XI
    XH))))))) :: ((Npos (XI (XO (XI (XO (XI (XI XH))))))) :: ((Npos (XO (XI
    (XI (XI (XO (XI XH))))))) :: ((Npos (XI (XI (XO (XO (XO (XI
    XH))))))) :: ((Npos (XO (XO (XI (XO (XI (XI XH))))))) :: ((Npos (XI (XO
    (XO (XI (XO (XI XH))))))) :: ((Npos (XI (XI (XI (XI (XO (XI
    XH))))))) :: ((Npos (XO (XI (XI (XI (XO (XI
    XH))))))) :: [])))))))) :: (((Npos (XI (XI (XI (XO (XI (XI
    XH))))))) :: ((Npos (XI (XO (XO (XI (XO (XI XH))))))) :: ((Npos (XO (XO
    (XI (XO (XI (XI XH))))))) :: ((Npos (XO (XO (XO (XI (XO (XI
    XH))))))) :: ((Npos (XO (XO (XO (XO (XO XH)))))) :: ((Npos (XI (XI (XO
    (XO (XI (XI XH))))))) :: ((Npos (XO (XO (XI (XO (XI (XI
    XH))))))) :: ((Npos (XI (XO (XO (XO (XO (XI XH))))))) :: ((Npos (XO (XO
    (XI (XO (XI (XI XH))))))) :: ((Npos (XI (XO (XI (XO (XO (XI
    XH))))))) :: ((Npos (XI (XO (XI (XI (XO (XI XH))))))) :: ((Npos (XI (XO
    (XI (XO (XO (XI XH))))))) :: ((Npos (XO (XI (XI (XI (XO (XI
    XH))))))) :: ((Npos (XO (XO (XI (XO (XI (XI
    XH))))))) :: [])))))))))))))) :: []))) :: ((((Npos (XI (XO (XO (XI (XO
    (XI XH))))))) :: ((Npos (XO (XI (XI (XI (XO (XI XH))))))) :: ((Npos (XO
    (XO (XI (XI (XO (XI XH))))))) :: ((Npos (XI (XO (XO (XI (XO (XI
    XH))))))) :: ((Npos (XO (XI (XI (XI (XO (XI XH))))))) :: ((Npos (XI (XO
    (XI (XO (XO (XI XH))))))) :: [])))))), (((Npos (XO (XI (XI (XO (XO (XI
    XH))))))) :: ((Npos (XI (XO (XI (XO (XI (XI XH))))))) :: ((Npos (XO (XI
    (XI (XI (XO (XI XH))))))) :: ((Npos (XI (XI (XO (XO (XO (XI
    XH))))))) :: ((Npos (XO (XO (XI (XO (XI (XI XH))))))) :: ((Npos (XI (XO
    (XO (XI (XO (XI XH))))))) :: ((Npos (XI (XI (XI (XI (XO (XI
    XH))))))) :: ((Npos (XO (XI (XI (XI (XO (XI
    XH))))))) :: [])))))))) :: [])) :: ((((Npos (XI (XI (XO (XO (XO (XI
    XH))))))) :: ((Npos (XO (XI (XI (XO (XO (XI XH))))))) :: ((Npos (XI (XO
    (XI (XO (XI (XI XH))))))) :: ((Npos (XO (XI (XI (XI (XO (XI
    XH))))))) :: ((Npos (XI (XI (XO (XO (XO (XI XH))))))) :: []))))), (((Npos
    (XO (XI (XI (XO (XO (XI XH))))))) :: ((Npos (XI (XO (XI (XO (XI (XI
    XH))))))) :: ((Npos (XO (XI (XI (XI (XO (XI XH))))))) :: ((Npos (XI (XI
    (XO (XO (XO (XI XH))))))) :: ((Npos (XO (XO (XI (XO (XI (XI
    XH))))))) :: ((Npos (XI (XO (XO (XI (XO (XI XH))))))) :: ((Npos (XI (XI
    (XI (XI (XO (XI XH))))))) :: ((Npos (XO (XI (XI (XI (XO (XI
    XH))))))) :: [])))))))) :: (((Npos (XI (XI (XI (XO (XI (XI
    XH))))))) :: ((Npos (XI (XO (XO (XI (XO (XI XH))))))) :: ((Npos (XO (XO
    (XI (XO (XI (XI XH))))))) :: ((Npos (XO (XO (XO (XI (XO (XI
    XH))))))) :: ((Npos (XO (XO (XO (XO (XO XH)))))) :: ((Npos (XI (XI (XO
    (XO (XI (XI XH))))))) :: ((Npos (XO (XO (XI (XO (XI (XI
    XH))))))) :: ((Npos (XI (XO (XO (XO (XO (XI XH))))))) :: ((Npos (XO (XO
    (XI (XO (XI (XI XH))))))) :: ((Npos (XI (XO (XI (XO (XO (XI
    XH))))))) :: ((Npos (XI (XO (XI (XI (XO (XI XH))))))) :: ((Npos (XI (XO
    (XI (XO (XO (XI XH))))))) :: ((Npos (XO (XI (XI (XI (XO (XI
    XH))))))) :: ((Npos (XO (XO (XI (XO (XI (XI
    XH))))))) :: [])))))))))))))) :: []))) :: ((((Npos (XI (XI (XO (XO (XO
    (XI XH))))))) :: ((Npos (XI (XI (XO (XO (XO (XI XH))))))) :: ((Npos (XI
    (XO (XO (XO (XO (XI XH))))))) :: ((Npos (XO (XO (XI (XI (XO (XI
    XH))))))) :: ((Npos (XO (XO (XI (XI (XO (XI XH))))))) :: []))))), (((Npos
    (XO (XI (XI (XO (XO (XI XH))))))) :: ((Npos (XI (XO (XI (XO (XI (XI
    XH))))))) :: ((Npos (XO (XI (XI (XI (XO (XI XH))))))) :: ((Npos (XI (XI
    (XO (XO (XO (XI XH))))))) :: ((Npos (XO (XO (XI (XO (XI (XI
    XH))))))) :: ((Npos (XI (XO (XO (XI (XO (XI XH))))))) :: ((Npos (XI (XI
    (XI (XI (XO (XI XH))))))) :: ((Npos (XO (XI (XI (XI (XO (XI
    XH))))))) :: [])))))))) :: (((Npos (XI (XI (XI (XO (XI (XI
    XH))))))) :: ((Npos (XI (XO (XO (XI (XO (XI XH))))))) :: ((Npos (XO (XO
    (XI (XO (XI (XI XH))))))) :: ((Npos (XO (XO (XO (XI (XO (XI
    XH))))))) :: ((Npos (XO (XO (XO (XO (XO XH)))))) :: ((Npos (XI (XI (XO
    (XO (XI (XI XH))))))) :: ((Npos (XO (XO (XI (XO (XI (XI
    XH))))))) :: ((Npos (XI (XO (XO (XO (XO (XI XH))))))) :: ((Npos (XO (XO
    (XI (XO (XI (XI XH))))))) :: ((Npos (XI (XO (XI (XO (XO (XI
    XH))))))) :: ((Npos (XI (XO (XI (XI (XO (XI XH))))))) :: ((Npos (XI (XO
    (XI (XO (XO (XI XH))))))) :: ((Npos (XO (XI (XI (XI (XO (XI
    XH))))))) :: ((Npos (XO (XO (XI (XO (XI (XI
    XH))))))) :: [])))))))))))))) :: []))) :: ((((Npos (XO (XI (XO (XO (XI
    (XI XH))))))) :: ((Npos (XI (XO (XI (XO (XO (XI XH))))))) :: ((Npos (XO
    (XO (XI (XO (XI (XI XH))))))) :: ((Npos (XI (XO (XI (XO (XI (XI
    XH))))))) :: ((Npos (XO (XI (XO (XO (XI (XI XH))))))) :: ((Npos (XO (XI
    (XI (XI (XO (XI XH))))))) :: ((Npos (XI (XI (XO (XO (XI (XI
    XH))))))) :: []))))))), (((Npos (XO (XI (XI (XO (XO (XI
    XH))))))) :: ((Npos (XI (XO (XI (XO (XI (XI XH))))))) :: ((Npos (XO (XI
    (XI (XI (XO (XI XH))))))) :: ((Npos (XI (XI (XO (XO (XO (XI
    XH))))))) :: ((Npos (XO (XO (XI (XO (XI (XI XH))))))) :: ((Npos (XI (XO
    (XO (XI (XO (XI XH))))))) :: ((Npos (XI (XI (XI (XI (XO (XI
    XH))))))) :: ((Npos (XO (XI (XI (XI (XO (XI
    XH))))))) :: [])))))))) :: [])) :: ((((Npos (XI (XO (XI (XO (XO (XI
    XH))))))) :: ((Npos (XO (XO (XO (XI (XI (XI XH))))))) :: ((Npos (XI (XI
    (XO (XO (XO (XI XH))))))) :: ((Npos (XI (XO (XI (XO (XO (XI
    XH))))))) :: ((Npos (XO (XO (XO (XO (XI (XI XH))))))) :: ((Npos (XO (XO
    (XI (XO (XI (XI XH))))))) :: ((Npos (XO (XI (XI (XO (XI (XI
    XH))))))) :: ((Npos (XI (XO (XO (XO (XO (XI XH))))))) :: ((Npos (XO (XO
    (XI (XI (XO (XI XH))))))) :: []))))))))), (((Npos (XO (XI (XI (XO (XO (XI
    XH))))))) :: ((Npos (XI (XO (XI (XO (XI (XI XH))))))) :: ((Npos (XO (XI
    (XI (XI (XO (XI XH))))))) :: ((Npos (XI (XI (XO (XO (XO (XI
    XH))))))) :: ((Npos (XO (XO (XI (XO (XI (XI XH))))))) :: ((Npos (XI (XO
    (XO (XI (XO (XI XH))))))) :: ((Npos (XI (XI (XI (XI (XO (XI
    XH))))))) :: ((Npos (XO (XI (XI (XI (XO (XI
    XH))))))) :: [])))))))) :: [])) :: ((((Npos (XO (XO (XI (XI (XO (XI
    XH))))))) :: ((Npos (XI (XI (XI (XI (XO (XI XH))))))) :: ((Npos (XI (XI
    (XO (XO (XO (XI XH))))))) :: ((Npos (XI (XO (XO (XO (XO (XI
    XH))))))) :: ((Npos (XO (XO (XI (XI (XO (XI XH))))))) :: ((Npos (XI (XI
    (XO (XO (XI (XI XH))))))) :: [])))))), (((Npos (XO (XI (XI (XO (XO (XI
    XH))))))) :: ((Npos (XI (XO (XI (XO (XI (XI XH))))))) :: ((Npos (XO (XI
    (XI (XI (XO (XI XH))))))) :: ((Npos (XI (XI (XO (XO (XO (XI
    XH))))))) :: ((Npos (XO (XO (XI (XO (XI (XI XH))))))) :: ((Npos (XI (XO
    (XO (XI (XO (XI XH))))))) :: ((Npos (XI (XI (XI (XI (XO (XI
    XH))))))) :: ((Npos (XO (XI (XI (XI (XO (XI
    XH))))))) :: [])))))))) :: [])) :: ((((Npos (XI (XI (XO (XO (XI (XI
    XH))))))) :: ((Npos (XO (XO (XI (XO (XI (XI XH))))))) :: ((Npos (XI (XO
    (XO (XO (XO (XI XH))))))) :: ((Npos (XO (XO (XI (XO (XI (XI
    XH))))))) :: ((Npos (XI (XO (XO (XI (XO (XI XH))))))) :: ((Npos (XI (XI
    (XO (XO (XO (XI XH))))))) :: ((Npos (XI (XO (XI (XI (XO (XI
    XH))))))) :: ((Npos (XI (XO (XI (XO (XO (XI XH))))))) :: ((Npos (XO (XO
    (XI (XO (XI (XI XH))))))) :: ((Npos (XO (XO (XO (XI (XO (XI
    XH))))))) :: ((Npos (XI (XI (XI (XI (XO (XI XH))))))) :: ((Npos (XO (XO
    (XI (XO (XO (XI XH))))))) :: [])))))))))))), (((Npos (XO (XI (XI (XO (XO
    (XI XH))))))) :: ((Npos (XI (XO (XI (XO (XI (XI XH))))))) :: ((Npos (XO
    (XI (XI (XI (XO (XI XH))))))) :: ((Npos (XI (XI (XO (XO (XO (XI
    XH))))))) :: ((Npos (XO (XO (XI (XO (XI (XI XH))))))) :: ((Npos (XI (XO
    (XO (XI (XO (XI XH))))))) :: ((Npos (XI (XI (XI (XI (XO (XI
    XH))))))) :: ((Npos (XO (XI (XI (XI (XO (XI
    XH))))))) :: [])))))))) :: [])) :: ((((Npos (XO (XI (XI (XI (XO (XI
    XH))))))) :: ((Npos (XI (XI (XI (XI (XO (XI XH))))))) :: ((Npos (XI (XI
    (XI (XI (XI (XO XH))))))) :: ((Npos (XI (XI (XI (XO (XO (XI
    XH))))))) :: ((Npos (XI (XI (XO (XO (XO (XI XH))))))) :: ((Npos (XI (XI
    (XI (XI (XI (XO XH))))))) :: ((Npos (XI (XI (XO (XO (XO (XI
    XH))))))) :: ((Npos (XO (XO (XI (XI (XO (XI XH))))))) :: ((Npos (XI (XO
    (XI (XO (XO (XI XH))))))) :: ((Npos (XI (XO (XO (XO (XO (XI
    XH))))))) :: ((Npos (XO (XI (XO (XO (XI (XI XH))))))) :: []))))))))))),
    (((Npos (XI (XI (XO (XO (XO (XI XH))))))) :: ((Npos (XI (XI (XO (XO (XO
    (XI XH))))))) :: ((Npos (XO (XO (XI (XI (XO (XI XH))))))) :: ((Npos (XI
    (XO (XO (XO (XO (XI XH))))))) :: ((Npos (XI (XI (XO (XO (XI (XI
    XH))))))) :: ((Npos (XI (XI (XO (XO (XI (XI
    XH))))))) :: [])))))) :: [])) :: ((((Npos (XO (XI (XI (XI (XO (XI
    XH))))))) :: ((Npos (XI (XI (XI (XI (XO (XI XH))))))) :: ((Npos (XI (XI
    (XI (XI (XI (XO XH))))))) :: ((Npos (XI (XI (XI (XO (XO (XI
    XH))))))) :: ((Npos (XI (XI (XO (XO (XO (XI XH))))))) :: []))))), (((Npos
    (XI (XI (XO (XO (XO (XI XH))))))) :: ((Npos (XI (XI (XO (XO (XO (XI
    XH))))))) :: ((Npos (XO (XO (XI (XI (XO (XI XH))))))) :: ((Npos (XI (XO
    (XO (XO (XO (XI XH))))))) :: ((Npos (XI (XI (XO (XO (XI (XI
    XH))))))) :: ((Npos (XI (XI (XO (XO (XI (XI
    XH))))))) :: [])))))) :: [])) :: ((((Npos (XI (XO (XO (XI (XO (XI
    XH))))))) :: ((Npos (XO (XI (XI (XI (XO (XI XH))))))) :: ((Npos (XO (XO
    (XI (XO (XI (XI XH))))))) :: ((Npos (XI (XO (XI (XO (XO (XI
    XH))))))) :: ((Npos (XO (XI (XO (XO (XI (XI XH))))))) :: ((Npos (XO (XI
    (XI (XI (XO (XI XH))))))) :: ((Npos (XI (XO (XO (XO (XO (XI
    XH))))))) :: ((Npos (XO (XO (XI (XI (XO (XI XH))))))) :: [])))))))),
    (((Npos (XI (XI (XO (XO (XO (XI XH))))))) :: ((Npos (XI (XI (XO (XO (XO
    (XI XH))))))) :: ((Npos (XO (XO (XI (XI (XO (XI XH))))))) :: ((Npos (XI
    (XO (XO (XO (XO (XI XH))))))) :: ((Npos (XI (XI (XO (XO (XI (XI
    XH))))))) :: ((Npos (XI (XI (XO (XO (XI (XI
    XH))))))) :: [])))))) :: [])) :: ((((Npos (XI (XI (XO (XO (XO (XI
    XH))))))) :: ((Npos (XI (XI (XO (XO (XO (XI XH))))))) :: ((Npos (XO (XO
    (XI (XI (XO (XI XH))))))) :: ((Npos (XI (XO (XO (XO (XO (XI
    XH))))))) :: ((Npos (XI (XI (XO (XO (XI (XI XH))))))) :: ((Npos (XI (XI
    (XO (XO (XI (XI XH))))))) :: [])))))), (((Npos (XI (XI (XO (XO (XO (XI
    XH))))))) :: ((Npos (XO (XO (XI (XI (XO (XI XH))))))) :: ((Npos (XI (XO
    (XO (XO (XO (XI XH))))))) :: ((Npos (XI (XI (XO (XO (XI (XI
    XH))))))) :: ((Npos (XI (XI (XO (XO (XI (XI
    XH))))))) :: []))))) :: (((Npos (XI (XI (XO (XO (XO (XI
    XH))))))) :: ((Npos (XI (XI (XO (XO (XO (XI XH))))))) :: ((Npos (XO (XO
    (XI (XI (XO (XI XH))))))) :: ((Npos (XI (XO (XO (XO (XO (XI
    XH))))))) :: ((Npos (XI (XI (XO (XO (XI (XI XH))))))) :: ((Npos (XI (XI
    (XO (XO (XI (XI XH))))))) :: [])))))) :: (((Npos (XI (XI (XI (XO (XI (XI
    XH))))))) :: ((Npos (XI (XO (XO (XI (XO (XI XH))))))) :: ((Npos (XO (XO
    (XI (XO (XI (XI XH))))))) :: ((Npos (XO (XO (XO (XI (XO (XI
    XH))))))) :: ((Npos (XO (XO (XO (XO (XO XH)))))) :: ((Npos (XI (XI (XO
    (XO (XI (XI XH))))))) :: ((Npos (XO (XO (XI (XO (XI (XI
    XH))))))) :: ((Npos (XI (XO (XO (XO (XO (XI XH))))))) :: ((Npos (XO (XO
    (XI (XO (XI (XI XH))))))) :: ((Npos (XI (XO (XI (XO (XO (XI
    XH))))))) :: ((Npos (XI (XO (XI (XI (XO (XI XH))))))) :: ((Npos (XI (XO
    (XI (XO (XO (XI XH))))))) :: ((Npos (XO (XI (XI (XI (XO (XI
    XH))))))) :: ((Npos (XO (XO (XI (XO (XI (XI
    XH))))))) :: [])))))))))))))) :: [])))) :: ((((Npos (XI (XO (XO (XO (XO
    (XI XH))))))) :: ((Npos (XI (XO (XI (XO (XI (XI XH))))))) :: ((Npos (XO
    (XO (XI (XO (XI (XI XH))))))) :: ((Npos (XI (XI (XI (XI (XO (XI
    XH))))))) :: ((Npos (XO (XO (XI (XO (XI (XI XH))))))) :: ((Npos (XI (XO
    (XI (XO (XO (XI XH))))))) :: ((Npos (XI (XI (XO (XO (XI (XI
    XH))))))) :: ((Npos (XO (XO (XI (XO (XI (XI XH))))))) :: ((Npos (XO (XO
    (XI (XO (XO (XI XH))))))) :: ((Npos (XI (XO (XO (XI (XO (XI
    XH))))))) :: ((Npos (XI (XI (XO (XO (XO (XI XH))))))) :: ((Npos (XO (XO
    (XI (XO (XI (XI XH))))))) :: [])))))))))))), (((Npos (XI (XO (XI (XI (XO
    (XI XH))))))) :: ((Npos (XI (XI (XI (XI (XO (XI XH))))))) :: ((Npos (XO
    (XO (XI (XO (XO (XI XH))))))) :: ((Npos (XI (XO (XI (XO (XI (XI
    XH))))))) :: ((Npos (XO (XO (XI (XI (XO (XI XH))))))) :: ((Npos (XI (XO
    (XI (XO (XO (XI XH))))))) :: [])))))) :: [])) :: ((((Npos (XI (XO (XO (XO
    (XO (XI XH))))))) :: ((Npos (XI (XO (XI (XO (XI (XI XH))))))) :: ((Npos
    (XO (XO (XI (XO (XI (XI XH))))))) :: ((Npos (XI (XI (XI (XI (XO (XI
    XH))))))) :: ((Npos (XO (XO (XI (XO (XI (XI XH))))))) :: ((Npos (XI (XO
    (XI (XO (XO (XI XH))))))) :: ((Npos (XI (XI (XO (XO (XI (XI
    XH))))))) :: ((Npos (XO (XO (XI (XO (XI (XI XH))))))) :: ((Npos (XO (XO
    (XI (XO (XO (XI XH))))))) :: ((Npos (XI (XO (XO (XI (XO (XI
    XH))))))) :: ((Npos (XI (XI (XO (XO (XO (XI XH))))))) :: ((Npos (XO (XO
    (XI (XO (XI (XI XH))))))) :: ((Npos (XO (XI (XI (XI (XO
    XH)))))) :: ((Npos (XI (XO (XO (XO (XO (XI XH))))))) :: ((Npos (XO (XO
    (XI (XI (XO (XI XH))))))) :: ((Npos (XO (XO (XI (XI (XO (XI
    XH))))))) :: [])))))))))))))))), (((Npos (XI (XO (XI (XI (XO (XI
    XH))))))) :: ((Npos (XI (XI (XI (XI (XO (XI XH))))))) :: ((Npos (XO (XO
    (XI (XO (XO (XI XH))))))) :: ((Npos (XI (XO (XI (XO (XI (XI
    XH))))))) :: ((Npos (XO (XO (XI (XI (XO (XI XH))))))) :: ((Npos (XI (XO
    (XI (XO (XO (XI XH))))))) :: [])))))) :: [])) :: ((((Npos (XI (XO (XO (XO
    (XO (XI XH))))))) :: ((Npos (XI (XO (XI (XO (XI (XI XH))))))) :: ((Npos
    (XO (XO (XI (XO (XI (XI XH))))))) :: ((Npos (XI (XI (XI (XI (XO (XI
    XH))))))) :: ((Npos (XO (XO (XI (XO (XI (XI XH))))))) :: ((Npos (XI (XO
    (XI (XO (XO (XI XH))))))) :: ((Npos (XI (XI (XO (XO (XI (XI
    XH))))))) :: ((Npos (XO (XO (XI (XO (XI (XI XH))))))) :: ((Npos (XO (XO
    (XI (XO (XO (XI XH))))))) :: ((Npos (XI (XO (XO (XI (XO (XI
    XH))))))) :: ((Npos (XI (XI (XO (XO (XO (XI XH))))))) :: ((Npos (XO (XO
    (XI (XO (XI (XI XH))))))) :: ((Npos (XO (XI (XI (XI (XO
    XH)))))) :: ((Npos (XI (XI (XO (XO (XO (XI XH))))))) :: ((Npos (XO (XO
    (XI (XO (XO (XI XH))))))) :: ((Npos (XI (XO (XI (XO (XO (XI
    XH))))))) :: ((Npos (XO (XI (XI (XO (XO (XI
    XH))))))) :: []))))))))))))))))), (((Npos (XI (XO (XI (XI (XO (XI
    XH))))))) :: ((Npos (XI (XI (XI (XI (XO (XI XH))))))) :: ((Npos (XO (XO
    (XI (XO (XO (XI XH))))))) :: ((Npos (XI (XO (XI (XO (XI (XI
    XH))))))) :: ((Npos (XO (XO (XI (XI (XO (XI XH))))))) :: ((Npos (XI (XO
    (XI (XO (XO (XI XH))))))) :: [])))))) :: [])) :: ((((Npos (XI (XI (XO (XO
    (XI (XI XH))))))) :: ((Npos (XI (XO (XI (XO (XO (XI XH))))))) :: ((Npos
    (XO (XO (XI (XO (XI (XI XH))))))) :: ((Npos (XI (XI (XI (XI (XI (XO
    XH))))))) :: ((Npos (XI (XO (XO (XI (XO (XI XH))))))) :: ((Npos (XO (XI
    (XI (XI (XO (XI XH))))))) :: ((Npos (XI (XO (XO (XI (XO (XI
    XH))))))) :: ((Npos (XO (XO (XI (XO (XI (XI XH))))))) :: ((Npos (XI (XO
    (XO (XI (XO (XI XH))))))) :: ((Npos (XI (XO (XO (XO (XO (XI
    XH))))))) :: ((Npos (XO (XO (XI (XI (XO (XI XH))))))) :: ((Npos (XI (XI
    (XI (XI (XI (XO XH))))))) :: ((Npos (XO (XO (XO (XO (XI (XI
    XH))))))) :: ((Npos (XI (XO (XO (XO (XO (XI XH))))))) :: ((Npos (XO (XO
    (XI (XO (XI (XI XH))))))) :: ((Npos (XO (XO (XO (XI (XO (XI
    XH))))))) :: [])))))))))))))))), (((Npos (XI (XO (XI (XI (XO (XI
    XH))))))) :: ((Npos (XI (XI (XI (XI (XO (XI XH))))))) :: ((Npos (XO (XO
    (XI (XO (XO (XI XH))))))) :: ((Npos (XI (XO (XI (XO (XI (XI
    XH))))))) :: ((Npos (XO (XO (XI (XI (XO (XI XH))))))) :: ((Npos (XI (XO
    (XI (XO (XO (XI XH))))))) :: [])))))) :: [])) :: ((((Npos (XO (XO (XI (XO
    (XI (XI XH))))))) :: ((Npos (XI (XO (XI (XO (XO (XI XH))))))) :: ((Npos
    (XI (XI (XO (XO (XI (XI XH))))))) :: ((Npos (XO (XO (XI (XO (XI (XI
    XH))))))) :: ((Npos (XI (XI (XI (XI (XI (XO XH))))))) :: ((Npos (XI (XO
    (XO (XO (XO (XI XH))))))) :: ((Npos (XI (XI (XO (XO (XI (XI
    XH))))))) :: ((Npos (XI (XI (XO (XO (XI (XI XH))))))) :: ((Npos (XI (XO
    (XI (XO (XO (XI XH))))))) :: ((Npos (XO (XI (XO (XO (XI (XI
    XH))))))) :: ((Npos (XO (XO (XI (XO (XI (XI XH))))))) :: ((Npos (XI (XI
    (XI (XI (XI (XO XH))))))) :: ((Npos (XO (XO (XO (XO (XI (XI
    XH))))))) :: ((Npos (XI (XO (XO (XO (XO (XI XH))))))) :: ((Npos (XO (XO
    (XI (XO (XI (XI XH))))))) :: ((Npos (XO (XO (XO (XI (XO (XI
    XH))))))) :: ((Npos (XI (XI (XI (XI (XI (XO XH))))))) :: ((Npos (XI (XO
    (XI (XO (XO (XI XH))))))) :: ((Npos (XO (XO (XO (XI (XI (XI
    XH))))))) :: ((Npos (XI (XO (XO (XI (XO (XI XH))))))) :: ((Npos (XI (XI
    (XO (XO (XI (XI XH))))))) :: ((Npos (XO (XO (XI (XO (XI (XI
    XH))))))) :: ((Npos (XI (XI (XO (XO (XI (XI
    XH))))))) :: []))))))))))))))))))))))), (((Npos (XO (XI (XI (XO (XO (XI
    XH))))))) :: ((Npos (XI (XO (XI (XO (XI (XI XH))))))) :: ((Npos (XO (XI
    (XI (XI (XO (XI XH))))))) :: ((Npos (XI (XI (XO (XO (XO (XI
    XH))))))) :: ((Npos (XO (XO (XI (XO (XI (XI XH))))))) :: ((Npos (XI (XO
    (XO (XI (XO (XI XH))))))) :: ((Npos (XI (XI (XI (XI (XO (XI
    XH))))))) :: ((Npos (XO (XI (XI (XI (XO (XI
    XH))))))) :: [])))))))) :: (((Npos (XI (XI (XO (XO (XO (XI
    XH))))))) :: ((Npos (XO (XO (XI (XI (XO (XI XH))))))) :: ((Npos (XI (XO
    (XO (XO (XO (XI XH))))))) :: ((Npos (XI (XI (XO (XO (XI (XI
    XH))))))) :: ((Npos (XI (XI (XO (XO (XI (XI
    XH))))))) :: []))))) :: (((Npos (XI (XI (XO (XO (XO (XI
    XH))))))) :: ((Npos (XI (XI (XO (XO (XO (XI XH))))))) :: ((Npos (XO (XO
    (XI (XI (XO (XI XH))))))) :: ((Npos (XI (XO (XO (XO (XO (XI
    XH))))))) :: ((Npos (XI (XI (XO (XO (XI (XI XH))))))) :: ((Npos (XI (XI
    (XO (XO (XI (XI XH))))))) :: [])))))) :: [])))) :: ((((Npos (XO (XO (XI
    (XO (XI (XI XH))))))) :: ((Npos (XI (XO (XI (XO (XO (XI
    XH))))))) :: ((Npos (XI (XI (XO (XO (XI (XI XH))))))) :: ((Npos (XO (XO
    (XI (XO (XI (XI XH))))))) :: ((Npos (XI (XI (XI (XI (XI (XO
    XH))))))) :: ((Npos (XO (XI (XI (XO (XO (XI XH))))))) :: ((Npos (XI (XO
    (XO (XO (XO (XI XH))))))) :: ((Npos (XI (XO (XO (XI (XO (XI
    XH))))))) :: ((Npos (XO (XO (XI (XI (XO (XI XH))))))) :: ((Npos (XI (XI
    (XI (XI (XI (XO XH))))))) :: ((Npos (XI (XO (XO (XI (XO (XI
    XH))))))) :: ((Npos (XO (XI (XI (XO (XO (XI XH))))))) :: ((Npos (XI (XI
    (XI (XI (XI (XO XH))))))) :: ((Npos (XO (XO (XO (XO (XI (XI
    XH))))))) :: ((Npos (XI (XO (XO (XO (XO (XI XH))))))) :: ((Npos (XO (XO
    (XI (XO (XI (XI XH))))))) :: ((Npos (XO (XO (XO (XI (XO (XI
    XH))))))) :: ((Npos (XI (XI (XI (XI (XI (XO XH))))))) :: ((Npos (XI (XO
    (XI (XO (XO (XI XH))))))) :: ((Npos (XO (XO (XO (XI (XI (XI
    XH))))))) :: ((Npos (XI (XO (XO (XI (XO (XI XH))))))) :: ((Npos (XI (XI
    (XO (XO (XI (XI XH))))))) :: ((Npos (XO (XO (XI (XO (XI (XI
    XH))))))) :: ((Npos (XI (XI (XO (XO (XI (XI
    XH))))))) :: [])))))))))))))))))))))))), (((Npos (XO (XI (XI (XO (XO (XI
    XH))))))) :: ((Npos (XI (XO (XI (XO (XI (XI XH))))))) :: ((Npos (XO (XI
    (XI (XI (XO (XI XH))))))) :: ((Npos (XI (XI (XO (XO (XO (XI
    XH))))))) :: ((Npos (XO (XO (XI (XO (XI (XI XH))))))) :: ((Npos (XI (XO
    (XO (XI (XO (XI XH))))))) :: ((Npos (XI (XI (XI (XI (XO (XI
    XH))))))) :: ((Npos (XO (XI (XI (XI (XO (XI
    XH))))))) :: [])))))))) :: (((Npos (XI (XI (XO (XO (XO (XI
    XH))))))) :: ((Npos (XO (XO (XI (XI (XO (XI XH))))))) :: ((Npos (XI (XO
    (XO (XO (XO (XI XH))))))) :: ((Npos (XI (XI (XO (XO (XI (XI
    XH))))))) :: ((Npos (XI (XI (XO (XO (XI (XI
    XH))))))) :: []))))) :: (((Npos (XI (XI (XO (XO (XO (XI
    XH))))))) :: ((Npos (XI (XI (XO (XO (XO (XI XH))))))) :: ((Npos (XO (XO
    (XI (XI (XO (XI XH))))))) :: ((Npos (XI (XO (XO (XO (XO (XI
    XH))))))) :: ((Npos (XI (XI (XO (XO (XI (XI XH))))))) :: ((Npos (XI (XI
    (XO (XO (XI (XI XH))))))) :: [])))))) :: [])))) :: ((((Npos (XO (XO (XI
    (XO (XI (XI XH))))))) :: ((Npos (XI (XO (XI (XO (XO (XI
    XH))))))) :: ((Npos (XI (XI (XO (XO (XI (XI XH))))))) :: ((Npos (XO (XO
    (XI (XO (XI (XI XH))))))) :: ((Npos (XI (XI (XI (XI (XI (XO
    XH))))))) :: ((Npos (XI (XO (XO (XO (XO (XI XH))))))) :: ((Npos (XI (XI
    (XO (XO (XI (XI XH))))))) :: ((Npos (XI (XI (XO (XO (XI (XI
    XH))))))) :: ((Npos (XI (XO (XI (XO (XO (XI XH))))))) :: ((Npos (XO (XI
    (XO (XO (XI (XI XH))))))) :: ((Npos (XO (XO (XI (XO (XI (XI
    XH))))))) :: ((Npos (XI (XI (XI (XI (XI (XO XH))))))) :: ((Npos (XI (XI
    (XO (XO (XO (XI XH))))))) :: ((Npos (XI (XI (XI (XI (XI (XO
    XH))))))) :: ((Npos (XI (XI (XO (XO (XO (XI XH))))))) :: ((Npos (XI (XI
    (XI (XI (XO (XI XH))))))) :: ((Npos (XO (XO (XI (XO (XO (XI
    XH))))))) :: ((Npos (XI (XO (XI (XO (XO (XI XH))))))) :: ((Npos (XI (XI
    (XI (XI (XI (XO XH))))))) :: ((Npos (XO (XO (XO (XI (XO (XI
    XH))))))) :: ((Npos (XI (XO (XO (XO (XO (XI XH))))))) :: ((Npos (XI (XI
    (XO (XO (XI (XI XH))))))) :: [])))))))))))))))))))))), (((Npos (XI (XO
    (XI (XI (XO (XI XH))))))) :: ((Npos (XI (XI (XI (XI (XO (XI
    XH))))))) :: ((Npos (XO (XO (XI (XO (XO (XI XH))))))) :: ((Npos (XI (XO
    (XI (XO (XI (XI XH))))))) :: ((Npos (XO (XO (XI (XI (XO (XI
    XH))))))) :: ((Npos (XI (XO (XI (XO (XO (XI
    XH))))))) :: [])))))) :: [])) :: ((((Npos (XO (XO (XI (XO (XI (XI
    XH))))))) :: ((Npos (XI (XO (XI (XO (XO (XI XH))))))) :: ((Npos (XI (XI
    (XO (XO (XI (XI XH))))))) :: ((Npos (XO (XO (XI (XO (XI (XI
    XH))))))) :: ((Npos (XI (XI (XI (XI (XI (XO XH))))))) :: ((Npos (XO (XI
    (XI (XO (XO (XI XH))))))) :: ((Npos (XI (XO (XO (XO (XO (XI
    XH))))))) :: ((Npos (XI (XO (XO (XI (XO (XI XH))))))) :: ((Npos (XO (XO
    (XI (XI (XO (XI XH))))))) :: ((Npos (XI (XI (XI (XI (XI (XO
    XH))))))) :: ((Npos (XI (XO (XO (XI (XO (XI XH))))))) :: ((Npos (XO (XI
    (XI (XO (XO (XI XH))))))) :: ((Npos (XI (XI (XI (XI (XI (XO
    XH))))))) :: ((Npos (XI (XI (XO (XO (XO (XI XH))))))) :: ((Npos (XI (XI
    (XI (XI (XI (XO XH))))))) :: ((Npos (XI (XI (XO (XO (XO (XI
    XH))))))) :: ((Npos (XI (XI (XI (XI (XO (XI XH))))))) :: ((Npos (XO (XO
    (XI (XO (XO (XI XH))))))) :: ((Npos (XI (XO (XI (XO (XO (XI
    XH))))))) :: ((Npos (XI (XI (XI (XI (XI (XO XH))))))) :: ((Npos (XO (XO
    (XO (XI (XO (XI XH))))))) :: ((Npos (XI (XO (XO (XO (XO (XI
    XH))))))) :: ((Npos (XI (XI (XO (XO (XI (XI
    XH))))))) :: []))))))))))))))))))))))), (((Npos (XI (XO (XI (XI (XO (XI
    XH))))))) :: ((Npos (XI (XI (XI (XI (XO (XI XH))))))) :: ((Npos (XO (XO
    (XI (XO (XO (XI XH))))))) :: ((Npos (XI (XO (XI (XO (XI (XI
    XH))))))) :: ((Npos (XO (XO (XI (XI (XO (XI XH))))))) :: ((Npos (XI (XO
    (XI (XO (XO (XI XH))))))) :: [])))))) :: [])) :: ((((Npos (XO (XO (XI (XO
    (XI (XI XH))))))) :: ((Npos (XI (XO (XI (XO (XO (XI XH))))))) :: ((Npos
    (XI (XI (XO (XO (XI (XI XH))))))) :: ((Npos (XO (XO (XI (XO (XI (XI
    XH))))))) :: ((Npos (XI (XI (XI (XI (XI (XO XH))))))) :: ((Npos (XO (XI
    (XO (XO (XO (XI XH))))))) :: ((Npos (XI (XI (XI (XI (XO (XI
    XH))))))) :: ((Npos (XO (XO (XI (XO (XO (XI XH))))))) :: ((Npos (XI (XO
    (XO (XI (XI (XI XH))))))) :: ((Npos (XI (XI (XI (XI (XI (XO
    XH))))))) :: ((Npos (XO (XI (XI (XI (XO (XI XH))))))) :: ((Npos (XI (XO
    (XI (XO (XO (XI XH))))))) :: ((Npos (XI (XO (XI (XO (XO (XI
    XH))))))) :: ((Npos (XO (XO (XI (XO (XO (XI XH))))))) :: ((Npos (XI (XI
    (XO (XO (XI (XI XH))))))) :: ((Npos (XI (XI (XI (XI (XI (XO
    XH))))))) :: ((Npos (XI (XO (XI (XO (XO (XI XH))))))) :: ((Npos (XO (XO
    (XO (XI (XI (XI XH))))))) :: ((Npos (XI (XI (XO (XO (XO (XI
    XH))))))) :: ((Npos (XI (XO (XI (XO (XO (XI XH))))))) :: ((Npos (XO (XO
    (XO (XO (XI (XI XH))))))) :: ((Npos (XO (XO (XI (XO (XI (XI
    XH))))))) :: ((Npos (XI (XO (XO (XI (XO (XI XH))))))) :: ((Npos (XI (XI
    (XI (XI (XO (XI XH))))))) :: ((Npos (XO (XI (XI (XI (XO (XI
    XH))))))) :: ((Npos (XI (XI (XI (XI (XI (XO XH))))))) :: ((Npos (XO (XO
    (XO (XI (XO (XI XH))))))) :: ((Npos (XI (XO (XO (XO (XO (XI
    XH))))))) :: ((Npos (XO (XI (XI (XI (XO (XI XH))))))) :: ((Npos (XO (XO
    (XI (XO (XO (XI XH))))))) :: ((Npos (XO (XO (XI (XI (XO (XI
    XH))))))) :: ((Npos (XI (XO (XO (XI (XO (XI XH))))))) :: ((Npos (XO (XI
    (XI (XI (XO (XI XH))))))) :: ((Npos (XI (XI (XI (XO (XO (XI
    XH))))))) :: [])))))))))))))))))))))))))))))))))), (((Npos (XI (XI (XI
    (XO (XI (XI XH))))))) :: ((Npos (XI (XO (XO (XI (XO (XI
    XH))))))) :: ((Npos (XO (XO (XI (XO (XI (XI XH))))))) :: ((Npos (XO (XO
    (XO (XI (XO (XI XH))))))) :: ((Npos (XO (XO (XO (XO (XO
    XH)))))) :: ((Npos (XI (XI (XO (XO (XI (XI XH))))))) :: ((Npos (XO (XO
    (XI (XO (XI (XI XH))))))) :: ((Npos (XI (XO (XO (XO (XO (XI
    XH))))))) :: ((Npos (XO (XO (XI (XO (XI (XI XH))))))) :: ((Npos (XI (XO
    (XI (XO (XO (XI XH))))))) :: ((Npos (XI (XO (XI (XI (XO (XI
    XH))))))) :: ((Npos (XI (XO (XI (XO (XO (XI XH))))))) :: ((Npos (XO (XI
    (XI (XI (XO (XI XH))))))) :: ((Npos (XO (XO (XI (XO (XI (XI
    XH))))))) :: [])))))))))))))) :: [])) :: ((((Npos (XO (XI (XI (XO (XO (XI
    XH))))))) :: ((Npos (XO (XI (XO (XO (XI (XI XH))))))) :: ((Npos (XI (XO
    (XI (XO (XO (XI XH))))))) :: ((Npos (XI (XO (XI (XO (XO (XI
    XH))))))) :: ((Npos (XO (XO (XI (XI (XO (XI XH))))))) :: ((Npos (XI (XO
    (XO (XI (XO (XI XH))))))) :: ((Npos (XI (XI (XO (XO (XI (XI
    XH))))))) :: ((Npos (XO (XO (XI (XO (XI (XI XH))))))) :: [])))))))),
    (((Npos (XI (XI (XO (XO (XO (XI XH))))))) :: ((Npos (XI (XI (XO (XO (XO
    (XI XH))))))) :: ((Npos (XO (XO (XI (XI (XO (XI XH))))))) :: ((Npos (XI
    (XO (XO (XO (XO (XI XH))))))) :: ((Npos (XI (XI (XO (XO (XI (XI
    XH))))))) :: ((Npos (XI (XI (XO (XO (XI (XI
    XH))))))) :: [])))))) :: [])) :: ((((Npos (XO (XI (XI (XO (XO (XI
    XH))))))) :: ((Npos (XI (XI (XI (XI (XO (XI XH))))))) :: ((Npos (XO (XI
    (XO (XO (XI (XI XH))))))) :: ((Npos (XI (XO (XI (XI (XO (XI
    XH))))))) :: ((Npos (XI (XO (XO (XO (XO (XI XH))))))) :: ((Npos (XO (XO
    (XI (XI (XO (XI XH))))))) :: ((Npos (XI (XI (XI (XI (XI (XO
    XH))))))) :: ((Npos (XI (XI (XI (XO (XO (XI XH))))))) :: ((Npos (XO (XI
    (XO (XO (XI (XI XH))))))) :: ((Npos (XI (XO (XO (XO (XO (XI
    XH))))))) :: ((Npos (XI (XO (XI (XI (XO (XI XH))))))) :: ((Npos (XI (XO
    (XI (XI (XO (XI XH))))))) :: ((Npos (XI (XO (XO (XO (XO (XI
    XH))))))) :: ((Npos (XO (XI (XO (XO (XI (XI
    XH))))))) :: [])))))))))))))), (((Npos (XI (XO (XI (XI (XO (XI
    XH))))))) :: ((Npos (XI (XI (XI (XI (XO (XI XH))))))) :: ((Npos (XO (XO
    (XI (XO (XO (XI XH))))))) :: ((Npos (XI (XO (XI (XO (XI (XI
    XH))))))) :: ((Npos (XO (XO (XI (XI (XO (XI XH))))))) :: ((Npos (XI (XO
    (XI (XO (XO (XI XH))))))) :: [])))))) :: [])) :: ((((Npos (XI (XO (XI (XO
    (XO (XI XH))))))) :: ((Npos (XI (XO (XI (XI (XO (XI XH))))))) :: ((Npos
    (XI (XO (XO (XI (XO (XI XH))))))) :: ((Npos (XO (XO (XI (XO (XI (XI
    XH))))))) :: ((Npos (XI (XI (XI (XI (XI (XO XH))))))) :: ((Npos (XI (XI
    (XO (XO (XO (XI XH))))))) :: ((Npos (XI (XI (XI (XI (XO (XI
    XH))))))) :: ((Npos (XO (XO (XI (XO (XO (XI XH))))))) :: ((Npos (XI (XO
    (XI (XO (XO (XI XH))))))) :: ((Npos (XI (XI (XI (XI (XI (XO
    XH))))))) :: ((Npos (XI (XI (XO (XO (XO (XI XH))))))) :: ((Npos (XI (XI
    (XI (XI (XO (XI XH))))))) :: ((Npos (XI (XO (XI (XI (XO (XI
    XH))))))) :: ((Npos (XI (XO (XI (XI (XO (XI XH))))))) :: ((Npos (XI (XO
    (XI (XO (XO (XI XH))))))) :: ((Npos (XO (XI (XI (XI (XO (XI
    XH))))))) :: ((Npos (XO (XO (XI (XO (XI (XI XH))))))) :: ((Npos (XI (XI
    (XO (XO (XI (XI XH))))))) :: [])))))))))))))))))), (((Npos (XI (XO (XI
    (XI (XO (XI XH))))))) :: ((Npos (XI (XI (XI (XI (XO (XI
    XH))))))) :: ((Npos (XO (XO (XI (XO (XO (XI XH))))))) :: ((Npos (XI (XO
    (XI (XO (XI (XI XH))))))) :: ((Npos (XO (XO (XI (XI (XO (XI
    XH))))))) :: ((Npos (XI (XO (XI (XO (XO (XI
    XH))))))) :: [])))))) :: [])) :: ((((Npos (XI (XI (XO (XO (XO (XI
    XH))))))) :: ((Npos (XI (XI (XI (XI (XI (XO XH))))))) :: ((Npos (XI (XI
    (XO (XO (XI (XI XH))))))) :: ((Npos (XO (XO (XI (XO (XI (XI
    XH))))))) :: ((Npos (XO (XI (XO (XO (XI (XI XH))))))) :: ((Npos (XI (XO
    (XO (XI (XO (XI XH))))))) :: ((Npos (XO (XI (XI (XI (XO (XI
    XH))))))) :: ((Npos (XI (XI (XI (XO (XO (XI XH))))))) :: ((Npos (XI (XI
    (XI (XI (XI (XO XH))))))) :: ((Npos (XO (XO (XI (XO (XI (XI
    XH))))))) :: ((Npos (XI (XO (XO (XI (XI (XI XH))))))) :: ((Npos (XO (XO
    (XO (XO (XI (XI XH))))))) :: ((Npos (XI (XO (XI (XO (XO (XI
    XH))))))) :: []))))))))))))), (((Npos (XI (XO (XI (XI (XO (XI
    XH))))))) :: ((Npos (XI (XI (XI (XI (XO (XI XH))))))) :: ((Npos (XO (XO
    (XI (XO (XO (XI XH))))))) :: ((Npos (XI (XO (XI (XO (XI (XI
    XH))))))) :: ((Npos (XO (XO (XI (XI (XO (XI XH))))))) :: ((Npos (XI (XO
    (XI (XO (XO (XI XH))))))) :: [])))))) :: [])) :: ((((Npos (XI (XI (XO (XO
    (XO (XI XH))))))) :: ((Npos (XI (XI (XI (XI (XI (XO XH))))))) :: ((Npos
    (XI (XI (XO (XO (XI (XI XH))))))) :: ((Npos (XO (XO (XI (XO (XI (XI
    XH))))))) :: ((Npos (XO (XI (XO (XO (XI (XI XH))))))) :: ((Npos (XI (XO
    (XO (XI (XO (XI XH))))))) :: ((Npos (XO (XI (XI (XI (XO (XI
    XH))))))) :: ((Npos (XI (XI (XI (XO (XO (XI XH))))))) :: ((Npos (XI (XI
    (XI (XI (XI (XO XH))))))) :: ((Npos (XI (XO (XI (XO (XO (XI
    XH))))))) :: ((Npos (XO (XI (XI (XI (XO (XI XH))))))) :: ((Npos (XI (XI
    (XO (XO (XO (XI XH))))))) :: ((Npos (XI (XI (XI (XI (XO (XI
    XH))))))) :: ((Npos (XO (XO (XI (XO (XO (XI XH))))))) :: ((Npos (XI (XO
    (XO (XI (XO (XI XH))))))) :: ((Npos (XO (XI (XI (XI (XO (XI
    XH))))))) :: ((Npos (XI (XI (XI (XO (XO (XI
    XH))))))) :: []))))))))))))))))), (((Npos (XI (XO (XI (XI (XO (XI
    XH))))))) :: ((Npos (XI (XI (XI (XI (XO (XI XH))))))) :: ((Npos (XO (XO
    (XI (XO (XO (XI XH))))))) :: ((Npos (XI (XO (XI (XO (XI (XI
    XH))))))) :: ((Npos (XO (XO (XI (XI (XO (XI XH))))))) :: ((Npos (XI (XO
    (XI (XO (XO (XI XH))))))) :: [])))))) :: [])) :: ((((Npos (XO (XO (XI (XO
    (XI (XI XH))))))) :: ((Npos (XI (XO (XO (XI (XI (XI XH))))))) :: ((Npos
    (XO (XO (XO (XO (XI (XI XH))))))) :: ((Npos (XI (XO (XI (XO (XO (XI
    XH))))))) :: ((Npos (XI (XI (XI (XI (XI (XO XH))))))) :: ((Npos (XO (XI
    (XI (XO (XI (XI XH))))))) :: ((Npos (XI (XO (XI (XO (XO (XI
    XH))))))) :: ((Npos (XO (XI (XO (XO (XI (XI XH))))))) :: ((Npos (XI (XI
    (XO (XO (XI (XI XH))))))) :: ((Npos (XI (XO (XO (XI (XO (XI
    XH))))))) :: ((Npos (XI (XI (XI (XI (XO (XI XH))))))) :: ((Npos (XO (XI
    (XI (XI (XO (XI XH))))))) :: ((Npos (XI (XI (XI (XI (XI (XO
    XH))))))) :: ((Npos (XO (XO (XI (XO (XI (XI XH))))))) :: ((Npos (XI (XO
    (XO (XO (XO (XI XH))))))) :: ((Npos (XI (XI (XI (XO (XO (XI
    XH))))))) :: [])))))))))))))))), (((Npos (XI (XO (XI (XI (XO (XI
    XH))))))) :: ((Npos (XI (XI (XI (XI (XO (XI XH))))))) :: ((Npos (XO (XO
    (XI (XO (XO (XI XH))))))) :: ((Npos (XI (XO (XI (XO (XI (XI
    XH))))))) :: ((Npos (XO (XO (XI (XI (XO (XI XH))))))) :: ((Npos (XI (XO
    (XI (XO (XO (XI XH))))))) :: [])))))) :: (((Npos (XI (XI (XO (XO (XO (XI
    XH))))))) :: ((Npos (XI (XI (XO (XO (XO (XI XH))))))) :: ((Npos (XO (XO
    (XI (XI (XO (XI XH))))))) :: ((Npos (XI (XO (XO (XO (XO (XI
    XH))))))) :: ((Npos (XI (XI (XO (XO (XI (XI XH))))))) :: ((Npos (XI (XI
    (XO (XO (XI (XI XH))))))) :: [])))))) :: []))) :: ((((Npos (XO (XO (XI
    (XI (XO (XI XH))))))) :: ((Npos (XI (XO (XO (XO (XO (XI
    XH))))))) :: ((Npos (XO (XI (XI (XI (XO (XI XH))))))) :: ((Npos (XI (XI
    (XI (XO (XO (XI XH))))))) :: ((Npos (XI (XO (XI (XO (XI (XI
    XH))))))) :: ((Npos (XI (XO (XO (XO (XO (XI XH))))))) :: ((Npos (XI (XI
    (XI (XO (XO (XI XH))))))) :: ((Npos (XI (XO (XI (XO (XO (XI
    XH))))))) :: ((Npos (XI (XI (XI (XI (XI (XO XH))))))) :: ((Npos (XO (XO
    (XI (XI (XO (XI XH))))))) :: ((Npos (XI (XO (XI (XO (XO (XI
    XH))))))) :: ((Npos (XO (XI (XI (XO (XI (XI XH))))))) :: ((Npos (XI (XO
    (XI (XO (XO (XI XH))))))) :: ((Npos (XO (XO (XI (XI (XO (XI
    XH))))))) :: [])))))))))))))), (((Npos (XI (XO (XI (XI (XO (XI
    XH))))))) :: ((Npos (XI (XI (XI (XI (XO (XI XH))))))) :: ((Npos (XO (XO
    (XI (XO (XO (XI XH))))))) :: ((Npos (XI (XO (XI (XO (XI (XI
    XH))))))) :: ((Npos (XO (XO (XI (XI (XO (XI XH))))))) :: ((Npos (XI (XO
    (XI (XO (XO (XI XH))))))) :: [])))))) :: [])) :: ((((Npos (XI (XI (XI (XI
    (XO (XI XH))))))) :: ((Npos (XO (XO (XI (XI (XO (XI XH))))))) :: ((Npos
    (XO (XO (XI (XO (XO (XI XH))))))) :: ((Npos (XI (XI (XI (XI (XI (XO
    XH))))))) :: ((Npos (XI (XI (XO (XO (XI (XI XH))))))) :: ((Npos (XO (XO
    (XI (XO (XI (XI XH))))))) :: ((Npos (XI (XO (XO (XI (XI (XI
    XH))))))) :: ((Npos (XO (XO (XI (XI (XO (XI XH))))))) :: ((Npos (XI (XO
    (XI (XO (XO (XI XH))))))) :: ((Npos (XI (XI (XI (XI (XI (XO
    XH))))))) :: ((Npos (XI (XI (XI (XO (XO (XI XH))))))) :: ((Npos (XO (XO
    (XI (XI (XO (XI XH))))))) :: ((Npos (XI (XI (XI (XI (XO (XI
    XH))))))) :: ((Npos (XO (XI (XO (XO (XO (XI XH))))))) :: ((Npos (XI (XO
    (XO (XO (XO (XI XH))))))) :: ((Npos (XO (XO (XI (XI (XO (XI
    XH))))))) :: ((Npos (XI (XI (XO (XO (XI (XI
    XH))))))) :: []))))))))))))))))), (((Npos (XI (XO (XI (XI (XO (XI
    XH))))))) :: ((Npos (XI (XI (XI (XI (XO (XI XH))))))) :: ((Npos (XO (XO
    (XI (XO (XO (XI XH))))))) :: ((Npos (XI (XO (XI (XO (XI (XI
    XH))))))) :: ((Npos (XO (XO (XI (XI (XO (XI XH))))))) :: ((Npos (XI (XO
    (XI (XO (XO (XI XH))))))) :: [])))))) :: [])) :: ((((Npos (XO (XI (XI (XI
    (XO (XI XH))))))) :: ((Npos (XO (XO (XO (XO (XI (XI XH))))))) :: ((Npos
    (XI (XI (XI (XI (XI (XO XH))))))) :: ((Npos (XO (XO (XO (XO (XI (XI
    XH))))))) :: ((Npos (XI (XO (XO (XI (XI (XI XH))))))) :: ((Npos (XO (XO
    (XI (XO (XI (XI XH))))))) :: ((Npos (XO (XO (XO (XI (XO (XI
    XH))))))) :: ((Npos (XO (XI (XO (XO (XI (XI XH))))))) :: ((Npos (XI (XO
    (XO (XO (XO (XI XH))))))) :: ((Npos (XO (XI (XI (XI (XO (XI
    XH))))))) :: [])))))))))), (((Npos (XI (XO (XI (XI (XO (XI
    XH))))))) :: ((Npos (XI (XI (XI (XI (XO (XI XH))))))) :: ((Npos (XO (XO
    (XI (XO (XO (XI XH))))))) :: ((Npos (XI (XO (XI (XO (XI (XI
    XH))))))) :: ((Npos (XO (XO (XI (XI (XO (XI XH))))))) :: ((Npos (XI (XO
    (XI (XO (XO (XI XH))))))) :: [])))))) :: [])) :: ((((Npos (XO (XO (XO (XO
    (XI (XI XH))))))) :: ((Npos (XO (XI (XO (XO (XI (XI XH))))))) :: ((Npos
    (XI (XO (XI (XO (XO (XI XH))))))) :: ((Npos (XO (XO (XI (XI (XO (XI
    XH))))))) :: ((Npos (XI (XO (XO (XI (XO (XI XH))))))) :: ((Npos (XI (XO
    (XI (XI (XO (XI XH))))))) :: ((Npos (XI (XO (XO (XI (XO (XI
    XH))))))) :: ((Npos (XO (XI (XI (XI (XO (XI XH))))))) :: ((Npos (XI (XO
    (XO (XO (XO (XI XH))))))) :: ((Npos (XO (XI (XO (XO (XI (XI
    XH))))))) :: ((Npos (XI (XO (XO (XI (XI (XI XH))))))) :: ((Npos (XI (XI
    (XI (XI (XI (XO XH))))))) :: ((Npos (XO (XO (XI (XI (XO (XI
    XH))))))) :: ((Npos (XI (XO (XO (XO (XO (XI XH))))))) :: ((Npos (XO (XO
    (XI (XO (XI (XI XH))))))) :: ((Npos (XI (XO (XI (XO (XO (XI
    XH))))))) :: ((Npos (XI (XI (XI (XI (XI (XO XH))))))) :: ((Npos (XI (XO
    (XO (XI (XO (XI XH))))))) :: ((Npos (XO (XI (XI (XI (XO (XI
    XH))))))) :: ((Npos (XI (XI (XO (XO (XO (XI XH))))))) :: ((Npos (XO (XO
    (XI (XI (XO (XI XH))))))) :: ((Npos (XI (XO (XI (XO (XI (XI
    XH))))))) :: ((Npos (XO (XO (XI (XO (XO (XI XH))))))) :: ((Npos (XI (XO
    (XI (XO (XO (XI XH))))))) :: ((Npos (XI (XI (XO (XO (XI (XI
    XH))))))) :: ((Npos (XI (XI (XI (XI (XI (XO XH))))))) :: ((Npos (XI (XI
    (XO (XO (XO (XI XH))))))) :: ((Npos (XI (XO (XO (XI (XI (XI
    XH))))))) :: ((Npos (XO (XI (XO (XO (XI XH)))))) :: ((Npos (XO (XO (XO
    (XI (XI XH)))))) :: [])))))))))))))))))))))))))))))), (((Npos (XI (XO (XI
    (XI (XO (XI XH))))))) :: ((Npos (XI (XI (XI (XI (XO (XI
    XH))))))) :: ((Npos (XO (XO (XI (XO (XO (XI XH))))))) :: ((Npos (XI (XO
    (XI (XO (XI (XI XH))))))) :: ((Npos (XO (XO (XI (XI (XO (XI
    XH))))))) :: ((Npos (XI (XO (XI (XO (XO (XI
    XH))))))) :: [])))))) :: [])) :: ((((Npos (XO (XI (XI (XO (XO (XI
    XH))))))) :: ((Npos (XI (XO (XO (XO (XO (XI XH))))))) :: ((Npos (XI (XI
    (XO (XO (XI (XI XH))))))) :: ((Npos (XO (XO (XI (XO (XI (XI
    XH))))))) :: ((Npos (XI (XI (XI (XI (XI (XO XH))))))) :: ((Npos (XI (XI
    (XI (XO (XO (XI XH))))))) :: ((Npos (XI (XO (XO (XI (XO (XI
    XH))))))) :: ((Npos (XO (XO (XI (XI (XO (XI XH))))))) :: [])))))))),
    (((Npos (XI (XO (XI (XI (XO (XI XH))))))) :: ((Npos (XI (XI (XI (XI (XO
    (XI XH))))))) :: ((Npos (XO (XO (XI (XO (XO (XI XH))))))) :: ((Npos (XI
    (XO (XI (XO (XI (XI XH))))))) :: ((Npos (XO (XO (XI (XI (XO (XI
    XH))))))) :: ((Npos (XI (XO (XI (XO (XO (XI
    XH))))))) :: [])))))) :: [])) :: ((((Npos (XI (XO (XO (XI (XO (XI
    XH))))))) :: ((Npos (XO (XO (XI (XO (XI (XI XH))))))) :: ((Npos (XI (XO
    (XI (XO (XO (XI XH))))))) :: ((Npos (XO (XI (XO (XO (XI (XI
    XH))))))) :: ((Npos (XI (XO (XO (XO (XO (XI XH))))))) :: ((Npos (XO (XI
    (XO (XO (XO (XI XH))))))) :: ((Npos (XO (XO (XI (XI (XO (XI
    XH))))))) :: ((Npos (XI (XO (XI (XO (XO (XI XH))))))) :: ((Npos (XI (XI
    (XI (XI (XI (XO XH))))))) :: ((Npos (XI (XI (XO (XO (XO (XI
    XH))))))) :: ((Npos (XI (XI (XI (XI (XO (XI XH))))))) :: ((Npos (XO (XI
    (XO (XO (XI (XI XH))))))) :: ((Npos (XI (XI (XI (XI (XO (XI
    XH))))))) :: ((Npos (XI (XO (XI (XO (XI (XI XH))))))) :: ((Npos (XO (XO
    (XI (XO (XI (XI XH))))))) :: ((Npos (XI (XO (XO (XI (XO (XI
    XH))))))) :: ((Npos (XO (XI (XI (XI (XO (XI XH))))))) :: ((Npos (XI (XO
    (XI (XO (XO (XI XH))))))) :: [])))))))))))))))))), (((Npos (XI (XO (XI
    (XI (XO (XI XH))))))) :: ((Npos (XI (XI (XI (XI (XO (XI
    XH))))))) :: ((Npos (XO (XO (XI (XO (XO (XI XH))))))) :: ((Npos (XI (XO
    (XI (XO (XI (XI XH))))))) :: ((Npos (XO (XO (XI (XI (XO (XI
    XH))))))) :: ((Npos (XI (XO (XI (XO (XO (XI
    XH))))))) :: [])))))) :: (((Npos (XO (XI (XI (XO (XO (XI
    XH))))))) :: ((Npos (XI (XO (XI (XO (XI (XI XH))))))) :: ((Npos (XO (XI
    (XI (XI (XO (XI XH))))))) :: ((Npos (XI (XI (XO (XO (XO (XI
    XH))))))) :: ((Npos (XO (XO (XI (XO (XI (XI XH))))))) :: ((Npos (XI (XO
    (XO (XI (XO (XI XH))))))) :: ((Npos (XI (XI (XI (XI (XO (XI
    XH))))))) :: ((Npos (XO (XI (XI (XI (XO (XI
    XH))))))) :: [])))))))) :: []))) :: ((((Npos (XO (XO (XI (XO (XI (XI
    XH))))))) :: ((Npos (XO (XI (XO (XO (XI (XI XH))))))) :: ((Npos (XI (XO
    (XO (XO (XO (XI XH))))))) :: ((Npos (XI (XI (XO (XO (XI (XI
    XH))))))) :: ((Npos (XO (XO (XO (XI (XO (XI XH))))))) :: ((Npos (XI (XI
    (XO (XO (XO (XI XH))))))) :: ((Npos (XI (XO (XO (XO (XO (XI
    XH))))))) :: ((Npos (XO (XI (XI (XI (XO (XI XH))))))) :: [])))))))),
    (((Npos (XI (XI (XO (XO (XO (XI XH))))))) :: ((Npos (XI (XI (XO (XO (XO
    (XI XH))))))) :: ((Npos (XO (XO (XI (XI (XO (XI XH))))))) :: ((Npos (XI
    (XO (XO (XO (XO (XI XH))))))) :: ((Npos (XI (XI (XO (XO (XI (XI
    XH))))))) :: ((Npos (XI (XI (XO (XO (XI (XI
    XH))))))) :: [])))))) :: [])) :: ((((Npos (XO (XO (XI (XO (XI (XI
    XH))))))) :: ((Npos (XI (XI (XI (XI (XO (XI XH))))))) :: ((Npos (XO (XO
    (XI (XO (XI (XI XH))))))) :: ((Npos (XI (XO (XO (XO (XO (XI
    XH))))))) :: ((Npos (XO (XO (XI (XI (XO (XI XH))))))) :: ((Npos (XI (XI
    (XI (XI (XI (XO XH))))))) :: ((Npos (XI (XI (XI (XI (XO (XI
    XH))))))) :: ((Npos (XO (XI (XO (XO (XI (XI XH))))))) :: ((Npos (XO (XO
    (XI (XO (XO (XI XH))))))) :: ((Npos (XI (XO (XI (XO (XO (XI
    XH))))))) :: ((Npos (XO (XI (XO (XO (XI (XI XH))))))) :: ((Npos (XI (XO
    (XO (XI (XO (XI XH))))))) :: ((Npos (XO (XI (XI (XI (XO (XI
    XH))))))) :: ((Npos (XI (XI (XI (XO (XO (XI
    XH))))))) :: [])))))))))))))), (((Npos (XI (XI (XO (XO (XO (XI
    XH))))))) :: ((Npos (XO (XO (XI (XI (XO (XI XH))))))) :: ((Npos (XI (XO
    (XO (XO (XO (XI XH))))))) :: ((Npos (XI (XI (XO (XO (XI (XI
    XH))))))) :: ((Npos (XI (XI (XO (XO (XI (XI
    XH))))))) :: []))))) :: (((Npos (XI (XI (XO (XO (XO (XI
    XH))))))) :: ((Npos (XI (XI (XO (XO (XO (XI XH))))))) :: ((Npos (XO (XO
    (XI (XI (XO (XI XH))))))) :: ((Npos (XI (XO (XO (XO (XO (XI
    XH))))))) :: ((Npos (XI (XI (XO (XO (XI (XI XH))))))) :: ((Npos (XI (XI
    (XO (XO (XI (XI XH))))))) :: [])))))) :: []))) :: ((((Npos (XO (XO (XI
    (XO (XO (XI XH))))))) :: ((Npos (XI (XO (XO (XO (XO (XI
    XH))))))) :: ((Npos (XO (XO (XI (XO (XI (XI XH))))))) :: ((Npos (XI (XO
    (XO (XO (XO (XI XH))))))) :: ((Npos (XI (XI (XO (XO (XO (XI
    XH))))))) :: ((Npos (XO (XO (XI (XI (XO (XI XH))))))) :: ((Npos (XI (XO
    (XO (XO (XO (XI XH))))))) :: ((Npos (XI (XI (XO (XO (XI (XI
    XH))))))) :: ((Npos (XI (XI (XO (XO (XI (XI XH))))))) :: ((Npos (XI (XO
    (XI (XO (XO (XI XH))))))) :: ((Npos (XI (XI (XO (XO (XI (XI
    XH))))))) :: ((Npos (XO (XI (XI (XI (XO XH)))))) :: ((Npos (XO (XO (XI
    (XO (XO (XI XH))))))) :: ((Npos (XI (XO (XO (XO (XO (XI
    XH))))))) :: ((Npos (XO (XO (XI (XO (XI (XI XH))))))) :: ((Npos (XI (XO
    (XO (XO (XO (XI XH))))))) :: ((Npos (XI (XI (XO (XO (XO (XI
    XH))))))) :: ((Npos (XO (XO (XI (XI (XO (XI XH))))))) :: ((Npos (XI (XO
    (XO (XO (XO (XI XH))))))) :: ((Npos (XI (XI (XO (XO (XI (XI
    XH))))))) :: ((Npos (XI (XI (XO (XO (XI (XI
    XH))))))) :: []))))))))))))))))))))), (((Npos (XI (XI (XO (XO (XO (XI
    XH))))))) :: ((Npos (XO (XO (XI (XI (XO (XI XH))))))) :: ((Npos (XI (XO
    (XO (XO (XO (XI XH))))))) :: ((Npos (XI (XI (XO (XO (XI (XI
    XH))))))) :: ((Npos (XI (XI (XO (XO (XI (XI
    XH))))))) :: []))))) :: (((Npos (XI (XI (XO (XO (XO (XI
    XH))))))) :: ((Npos (XI (XI (XO (XO (XO (XI XH))))))) :: ((Npos (XO (XO
    (XI (XI (XO (XI XH))))))) :: ((Npos (XI (XO (XO (XO (XO (XI
    XH))))))) :: ((Npos (XI (XI (XO (XO (XI (XI XH))))))) :: ((Npos (XI (XI
    (XO (XO (XI (XI XH))))))) :: [])))))) :: []))) :: ((((Npos (XI (XI (XO
    (XO (XO (XI XH))))))) :: ((Npos (XO (XO (XO (XO (XI (XI
    XH))))))) :: ((Npos (XO (XO (XO (XO (XI (XI XH))))))) :: ((Npos (XI (XI
    (XI (XI (XI (XO XH))))))) :: ((Npos (XO (XO (XI (XI (XO (XI
    XH))))))) :: ((Npos (XI (XI (XI (XI (XO (XI XH))))))) :: ((Npos (XI (XI
    (XO (XO (XO (XI XH))))))) :: ((Npos (XI (XO (XO (XO (XO (XI
    XH))))))) :: ((Npos (XO (XO (XI (XI (XO (XI XH))))))) :: ((Npos (XI (XI
    (XO (XO (XI (XI XH))))))) :: [])))))))))), (((Npos (XI (XO (XI (XI (XO
    (XI XH))))))) :: ((Npos (XI (XI (XI (XI (XO (XI XH))))))) :: ((Npos (XO
    (XO (XI (XO (XO (XI XH))))))) :: ((Npos (XI (XO (XI (XO (XI (XI
    XH))))))) :: ((Npos (XO (XO (XI (XI (XO (XI XH))))))) :: ((Npos (XI (XO
    (XI (XO (XO (XI XH))))))) :: [])))))) :: (((Npos (XO (XI (XI (XO (XO (XI
    XH))))))) :: ((Npos (XI (XO (XI (XO (XI (XI XH))))))) :: ((Npos (XO (XI
    (XI (XI (XO (XI XH))))))) :: ((Npos (XI (XI (XO (XO (XO (XI
    XH))))))) :: ((Npos (XO (XO (XI (XO (XI (XI XH))))))) :: ((Npos (XI (XO
    (XO (XI (XO (XI XH))))))) :: ((Npos (XI (XI (XI (XI (XO (XI
    XH))))))) :: ((Npos (XO (XI (XI (XI (XO (XI
    XH))))))) :: [])))))))) :: (((Npos (XI (XI (XO (XO (XO (XI
    XH))))))) :: ((Npos (XI (XI (XO (XO (XO (XI XH))))))) :: ((Npos (XO (XO
    (XI (XI (XO (XI XH))))))) :: ((Npos (XI (XO (XO (XO (XO (XI
    XH))))))) :: ((Npos (XI (XI (XO (XO (XI (XI XH))))))) :: ((Npos (XI (XI
    (XO (XO (XI (XI XH))))))) :: [])))))) :: [])))) :: ((((Npos (XI (XO (XI
    (XO (XI (XI XH))))))) :: ((Npos (XO (XI (XI (XO (XO (XI
    XH))))))) :: ((Npos (XI (XO (XI (XO (XI (XI XH))))))) :: ((Npos (XO (XI
    (XI (XI (XO (XI XH))))))) :: ((Npos (XI (XI (XO (XO (XO (XI
    XH))))))) :: []))))), (((Npos (XO (XI (XI (XO (XO (XI XH))))))) :: ((Npos
    (XI (XO (XI (XO (XI (XI XH))))))) :: ((Npos (XO (XI (XI (XI (XO (XI
    XH))))))) :: ((Npos (XI (XI (XO (XO (XO (XI XH))))))) :: ((Npos (XO (XO
    (XI (XO (XI (XI XH))))))) :: ((Npos (XI (XO (XO (XI (XO (XI
    XH))))))) :: ((Npos (XI (XI (XI (XI (XO (XI XH))))))) :: ((Npos (XO (XI
    (XI (XI (XO (XI XH))))))) :: [])))))))) :: [])) :: ((((Npos (XO (XO (XI
    (XI (XO (XI XH))))))) :: ((Npos (XI (XO (XI (XO (XO (XI
    XH))))))) :: ((Npos (XI (XI (XI (XO (XO (XI XH))))))) :: ((Npos (XI (XO
    (XO (XO (XO (XI XH))))))) :: ((Npos (XI (XI (XO (XO (XO (XI
    XH))))))) :: ((Npos (XI (XO (XO (XI (XI (XI XH))))))) :: ((Npos (XI (XI
    (XI (XI (XI (XO XH))))))) :: ((Npos (XI (XO (XO (XI (XO (XI
    XH))))))) :: ((Npos (XI (XO (XI (XI (XO (XI XH))))))) :: ((Npos (XO (XO
    (XO (XO (XI (XI XH))))))) :: ((Npos (XO (XO (XI (XI (XO (XI
    XH))))))) :: ((Npos (XI (XO (XO (XI (XO (XI XH))))))) :: ((Npos (XI (XI
    (XO (XO (XO (XI XH))))))) :: ((Npos (XI (XO (XO (XI (XO (XI
    XH))))))) :: ((Npos (XO (XO (XI (XO (XI (XI XH))))))) :: ((Npos (XI (XI
    (XI (XI (XI (XO XH))))))) :: ((Npos (XO (XI (XI (XI (XO (XI
    XH))))))) :: ((Npos (XI (XI (XI (XI (XO (XI XH))))))) :: ((Npos (XI (XO
    (XI (XO (XO (XI XH))))))) :: ((Npos (XO (XO (XO (XI (XI (XI
    XH))))))) :: ((Npos (XI (XI (XO (XO (XO (XI XH))))))) :: ((Npos (XI (XO
    (XI (XO (XO (XI XH))))))) :: ((Npos (XO (XO (XO (XO (XI (XI
    XH))))))) :: ((Npos (XO (XO (XI (XO (XI (XI
    XH))))))) :: [])))))))))))))))))))))))), (((Npos (XI (XO (XI (XI (XO (XI
    XH))))))) :: ((Npos (XI (XI (XI (XI (XO (XI XH))))))) :: ((Npos (XO (XO
    (XI (XO (XO (XI XH))))))) :: ((Npos (XI (XO (XI (XO (XI (XI
    XH))))))) :: ((Npos (XO (XO (XI (XI (XO (XI XH))))))) :: ((Npos (XI (XO
    (XI (XO (XO (XI XH))))))) :: [])))))) :: [])) :: ((((Npos (XI (XI (XO (XO
    (XO (XI XH))))))) :: ((Npos (XI (XI (XI (XI (XI (XO XH))))))) :: ((Npos
    (XI (XI (XO (XO (XO (XI XH))))))) :: ((Npos (XI (XI (XI (XI (XO (XI
    XH))))))) :: ((Npos (XI (XO (XI (XI (XO (XI XH))))))) :: ((Npos (XO (XO
    (XO (XO (XI (XI XH))))))) :: ((Npos (XI (XO (XO (XI (XO (XI
    XH))))))) :: ((Npos (XO (XO (XI (XI (XO (XI XH))))))) :: ((Npos (XI (XO
    (XI (XO (XO (XI XH))))))) :: ((Npos (XI (XI (XI (XI (XI (XO
    XH))))))) :: ((Npos (XI (XI (XI (XO (XO (XI XH))))))) :: ((Npos (XI (XO
    (XI (XO (XI (XI XH))))))) :: ((Npos (XI (XO (XO (XO (XO (XI
    XH))))))) :: ((Npos (XO (XI (XO (XO (XI (XI XH))))))) :: ((Npos (XO (XO
    (XI (XO (XO (XI XH))))))) :: []))))))))))))))), (((Npos (XO (XI (XI (XO
    (XO (XI XH))))))) :: ((Npos (XI (XO (XI (XO (XI (XI XH))))))) :: ((Npos
    (XO (XI (XI (XI (XO (XI XH))))))) :: ((Npos (XI (XI (XO (XO (XO (XI
    XH))))))) :: ((Npos (XO (XO (XI (XO (XI (XI XH))))))) :: ((Npos (XI (XO
    (XO (XI (XO (XI XH))))))) :: ((Npos (XI (XI (XI (XI (XO (XI
    XH))))))) :: ((Npos (XO (XI (XI (XI (XO (XI
    XH))))))) :: [])))))))) :: [])) :: ((((Npos (XI (XI (XO (XO (XO (XI
    XH))))))) :: ((Npos (XI (XI (XI (XI (XO (XI XH))))))) :: ((Npos (XO (XI
    (XI (XI (XO (XI XH))))))) :: ((Npos (XO (XO (XI (XO (XI (XI
    XH))))))) :: ((Npos (XO (XI (XO (XO (XI (XI XH))))))) :: ((Npos (XI (XI
    (XI (XI (XO (XI XH))))))) :: ((Npos (XO (XO (XI (XI (XO (XI
    XH))))))) :: ((Npos (XI (XI (XI (XI (XI (XO XH))))))) :: ((Npos (XO (XI
    (XI (XO (XO (XI XH))))))) :: ((Npos (XO (XO (XI (XI (XO (XI
    XH))))))) :: ((Npos (XI (XI (XI (XI (XO (XI XH))))))) :: ((Npos (XI (XI
    (XI (XO (XI (XI XH))))))) :: ((Npos (XO (XI (XI (XI (XO
    XH)))))) :: ((Npos (XO (XO (XI (XO (XO (XI XH))))))) :: ((Npos (XI (XI
    (XI (XI (XO (XI XH))))))) :: ((Npos (XO (XO (XI (XO (XI (XI
    XH))))))) :: ((Npos (XI (XI (XI (XI (XI (XO XH))))))) :: ((Npos (XI (XI
    (XI (XI (XO (XI XH))))))) :: ((Npos (XI (XO (XI (XO (XI (XI
    XH))))))) :: ((Npos (XO (XO (XI (XO (XI (XI XH))))))) :: ((Npos (XO (XO
    (XO (XO (XI (XI XH))))))) :: ((Npos (XI (XO (XI (XO (XI (XI
    XH))))))) :: ((Npos (XO (XO (XI (XO (XI (XI
    XH))))))) :: []))))))))))))))))))))))), (((Npos (XI (XO (XI (XI (XO (XI
    XH))))))) :: ((Npos (XI (XI (XI (XI (XO (XI XH))))))) :: ((Npos (XO (XO
    (XI (XO (XO (XI XH))))))) :: ((Npos (XI (XO (XI (XO (XI (XI
    XH))))))) :: ((Npos (XO (XO (XI (XI (XO (XI XH))))))) :: ((Npos (XI (XO
    (XI (XO (XO (XI XH))))))) :: [])))))) :: [])) :: ((((Npos (XI (XI (XO (XO
    (XO (XI XH))))))) :: ((Npos (XI (XI (XI (XI (XO (XI XH))))))) :: ((Npos
    (XO (XI (XI (XI (XO (XI XH))))))) :: ((Npos (XO (XO (XI (XO (XI (XI
    XH))))))) :: ((Npos (XO (XI (XO (XO (XI (XI XH))))))) :: ((Npos (XI (XI
    (XI (XI (XO (XI XH))))))) :: ((Npos (XO (XO (XI (XI (XO (XI
    XH))))))) :: ((Npos (XI (XI (XI (XI (XI (XO XH))))))) :: ((Npos (XO (XI
    (XI (XO (XO (XI XH))))))) :: ((Npos (XO (XO (XI (XI (XO (XI
    XH))))))) :: ((Npos (XI (XI (XI (XI (XO (XI XH))))))) :: ((Npos (XI (XI
    (XI (XO (XI (XI XH))))))) :: ((Npos (XO (XI (XI (XI (XO
    XH)))))) :: ((Npos (XO (XO (XI (XO (XO (XI XH))))))) :: ((Npos (XI (XI
    (XI (XI (XO (XI XH))))))) :: ((Npos (XO (XO (XI (XO (XI (XI
    XH))))))) :: ((Npos (XI (XI (XI (XI (XI (XO XH))))))) :: ((Npos (XI (XO
    (XO (XO (XO (XI XH))))))) :: ((Npos (XO (XI (XI (XI (XO (XI
    XH))))))) :: ((Npos (XO (XI (XI (XI (XO (XI XH))))))) :: ((Npos (XI (XI
    (XI (XI (XO (XI XH))))))) :: ((Npos (XO (XO (XI (XO (XI (XI
    XH))))))) :: ((Npos (XI (XO (XO (XO (XO (XI XH))))))) :: ((Npos (XO (XO
    (XI (XO (XI (XI XH))))))) :: ((Npos (XI (XO (XI (XO (XO (XI
    XH))))))) :: ((Npos (XI (XI (XI (XI (XI (XO XH))))))) :: ((Npos (XO (XO
    (XI (XO (XO (XI XH))))))) :: ((Npos (XI (XO (XI (XO (XO (XI
    XH))))))) :: ((Npos (XO (XI (XI (XO (XO (XI XH))))))) :: ((Npos (XI (XI
    (XO (XO (XI (XI XH))))))) :: [])))))))))))))))))))))))))))))), (((Npos
    (XI (XO (XI (XI (XO (XI XH))))))) :: ((Npos (XI (XI (XI (XI (XO (XI
    XH))))))) :: ((Npos (XO (XO (XI (XO (XO (XI XH))))))) :: ((Npos (XI (XO
    (XI (XO (XI (XI XH))))))) :: ((Npos (XO (XO (XI (XI (XO (XI
    XH))))))) :: ((Npos (XI (XO (XI (XO (XO (XI
    XH))))))) :: [])))))) :: [])) :: ((((Npos (XO (XI (XI (XO (XO (XI
    XH))))))) :: ((Npos (XO (XI (XO (XO (XI (XI XH))))))) :: ((Npos (XI (XO
    (XI (XO (XO (XI XH))))))) :: ((Npos (XI (XO (XI (XO (XO (XI
    XH))))))) :: ((Npos (XO (XO (XI (XO (XI (XI XH))))))) :: ((Npos (XO (XO
    (XO (XI (XO (XI XH))))))) :: ((Npos (XO (XI (XO (XO (XI (XI
    XH))))))) :: ((Npos (XI (XO (XI (XO (XO (XI XH))))))) :: ((Npos (XI (XO
    (XO (XO (XO (XI XH))))))) :: ((Npos (XO (XO (XI (XO (XO (XI
    XH))))))) :: ((Npos (XI (XO (XO (XI (XO (XI XH))))))) :: ((Npos (XO (XI
    (XI (XI (XO (XI XH))))))) :: ((Npos (XI (XI (XI (XO (XO (XI
    XH))))))) :: ((Npos (XI (XI (XI (XI (XI (XO XH))))))) :: ((Npos (XI (XI
    (XO (XO (XO (XI XH))))))) :: ((Npos (XI (XI (XI (XI (XO (XI
    XH))))))) :: ((Npos (XI (XO (XI (XI (XO (XI XH))))))) :: ((Npos (XO (XO
    (XO (XO (XI (XI XH))))))) :: ((Npos (XI (XO (XO (XO (XO (XI
    XH))))))) :: ((Npos (XO (XO (XI (XO (XI (XI XH))))))) :: ((Npos (XI (XO
    (XO (XI (XO (XI XH))))))) :: ((Npos (XO (XI (XO (XO (XO (XI
    XH))))))) :: ((Npos (XO (XO (XI (XI (XO (XI XH))))))) :: ((Npos (XI (XO
    (XI (XO (XO (XI XH))))))) :: [])))))))))))))))))))))))), (((Npos (XI (XO
    (XI (XI (XO (XI XH))))))) :: ((Npos (XI (XI (XI (XI (XO (XI
    XH))))))) :: ((Npos (XO (XO (XI (XO (XO (XI XH))))))) :: ((Npos (XI (XO
    (XI (XO (XI (XI XH))))))) :: ((Npos (XO (XO (XI (XI (XO (XI
    XH))))))) :: ((Npos (XI (XO (XI (XO (XO (XI
    XH))))))) :: [])))))) :: [])) :: ((((Npos (XI (XI (XO (XO (XI (XI
    XH))))))) :: ((Npos (XI (XO (XI (XO (XI (XI XH))))))) :: ((Npos (XO (XI
    (XO (XO (XO (XI XH))))))) :: ((Npos (XI (XO (XO (XI (XO (XI
    XH))))))) :: ((Npos (XO (XI (XI (XI (XO (XI XH))))))) :: ((Npos (XO (XO
    (XI (XO (XI (XI XH))))))) :: ((Npos (XI (XO (XI (XO (XO (XI
    XH))))))) :: ((Npos (XO (XI (XO (XO (XI (XI XH))))))) :: ((Npos (XO (XO
    (XO (XO (XI (XI XH))))))) :: ((Npos (XO (XI (XO (XO (XI (XI
    XH))))))) :: ((Npos (XI (XO (XI (XO (XO (XI XH))))))) :: ((Npos (XO (XO
    (XI (XO (XI (XI XH))))))) :: ((Npos (XI (XO (XI (XO (XO (XI
    XH))))))) :: ((Npos (XO (XI (XO (XO (XI (XI XH))))))) :: ((Npos (XI (XI
    (XO (XO (XI (XI XH))))))) :: ((Npos (XI (XI (XI (XI (XI (XO
    XH))))))) :: ((Npos (XI (XI (XO (XO (XO (XI XH))))))) :: ((Npos (XI (XI
    (XI (XI (XO (XI XH))))))) :: ((Npos (XI (XO (XI (XI (XO (XI
    XH))))))) :: ((Npos (XO (XO (XO (XO (XI (XI XH))))))) :: ((Npos (XI (XO
    (XO (XO (XO (XI XH))))))) :: ((Npos (XO (XO (XI (XO (XI (XI
    XH))))))) :: ((Npos (XI (XO (XO (XI (XO (XI XH))))))) :: ((Npos (XO (XI
    (XO (XO (XO (XI XH))))))) :: ((Npos (XO (XO (XI (XI (XO (XI
    XH))))))) :: ((Npos (XI (XO (XI (XO (XO (XI
    XH))))))) :: [])))))))))))))))))))))))))), (((Npos (XI (XO (XI (XI (XO
    (XI XH))))))) :: ((Npos (XI (XI (XI (XI (XO (XI XH))))))) :: ((Npos (XO
    (XO (XI (XO (XO (XI XH))))))) :: ((Npos (XI (XO (XI (XO (XI (XI
    XH))))))) :: ((Npos (XO (XO (XI (XI (XO (XI XH))))))) :: ((Npos (XI (XO
    (XI (XO (XO (XI
    XH))))))) :: [])))))) :: [])) :: []))))))))))))))))))))))))))))))))))))))))))))))))))

(** val doc_scope_ok : str -> str -> bool **)

let doc_scope_ok =
  scope_ok doc_scopes

(** val g_defaults : dict **)

let g_defaults =
  (((Npos (XO (XI (XO (XO (XO (XI XH))))))) :: ((Npos (XI (XO (XO (XI (XO (XI
    XH))))))) :: ((Npos (XO (XI (XI (XI (XO (XI XH))))))) :: ((Npos (XO (XO
    (XI (XO (XO (XI XH))))))) :: ((Npos (XI (XO (XO (XI (XO (XI
    XH))))))) :: ((Npos (XO (XI (XI (XI (XO (XI XH))))))) :: ((Npos (XI (XI
    (XI (XO (XO (XI XH))))))) :: []))))))), (VBool true)) :: ((((Npos (XO (XI
    (XO (XO (XO (XI XH))))))) :: ((Npos (XI (XI (XI (XI (XO (XI
    XH))))))) :: ((Npos (XI (XO (XI (XO (XI (XI XH))))))) :: ((Npos (XO (XI
    (XI (XI (XO (XI XH))))))) :: ((Npos (XO (XO (XI (XO (XO (XI
    XH))))))) :: ((Npos (XI (XI (XO (XO (XI (XI XH))))))) :: ((Npos (XI (XI
    (XO (XO (XO (XI XH))))))) :: ((Npos (XO (XO (XO (XI (XO (XI
    XH))))))) :: ((Npos (XI (XO (XI (XO (XO (XI XH))))))) :: ((Npos (XI (XI
    (XO (XO (XO (XI XH))))))) :: ((Npos (XI (XI (XO (XI (XO (XI
    XH))))))) :: []))))))))))), (VBool true)) :: ((((Npos (XO (XI (XI (XI (XO
    (XI XH))))))) :: ((Npos (XI (XI (XI (XI (XO (XI XH))))))) :: ((Npos (XO
    (XI (XI (XI (XO (XI XH))))))) :: ((Npos (XI (XO (XI (XO (XO (XI
    XH))))))) :: ((Npos (XI (XI (XO (XO (XO (XI XH))))))) :: ((Npos (XO (XO
    (XO (XI (XO (XI XH))))))) :: ((Npos (XI (XO (XI (XO (XO (XI
    XH))))))) :: ((Npos (XI (XI (XO (XO (XO (XI XH))))))) :: ((Npos (XI (XI
    (XO (XI (XO (XI XH))))))) :: []))))))))), (VBool false)) :: ((((Npos (XI
    (XO (XO (XI (XO (XI XH))))))) :: ((Npos (XO (XI (XI (XI (XO (XI
    XH))))))) :: ((Npos (XI (XO (XO (XI (XO (XI XH))))))) :: ((Npos (XO (XO
    (XI (XO (XI (XI XH))))))) :: ((Npos (XI (XO (XO (XI (XO (XI
    XH))))))) :: ((Npos (XI (XO (XO (XO (XO (XI XH))))))) :: ((Npos (XO (XO
    (XI (XI (XO (XI XH))))))) :: ((Npos (XI (XO (XO (XI (XO (XI
    XH))))))) :: ((Npos (XO (XI (XO (XI (XI (XI XH))))))) :: ((Npos (XI (XO
    (XI (XO (XO (XI XH))))))) :: ((Npos (XO (XO (XI (XO (XO (XI
    XH))))))) :: ((Npos (XI (XI (XO (XO (XO (XI XH))))))) :: ((Npos (XO (XO
    (XO (XI (XO (XI XH))))))) :: ((Npos (XI (XO (XI (XO (XO (XI
    XH))))))) :: ((Npos (XI (XI (XO (XO (XO (XI XH))))))) :: ((Npos (XI (XI
    (XO (XI (XO (XI XH))))))) :: [])))))))))))))))), (VBool
    true)) :: ((((Npos (XO (XI (XI (XO (XO (XI XH))))))) :: ((Npos (XO (XI
    (XO (XO (XI (XI XH))))))) :: ((Npos (XI (XO (XI (XO (XO (XI
    XH))))))) :: ((Npos (XI (XO (XI (XO (XO (XI XH))))))) :: ((Npos (XO (XO
    (XI (XO (XI (XI XH))))))) :: ((Npos (XO (XO (XO (XI (XO (XI
    XH))))))) :: ((Npos (XO (XI (XO (XO (XI (XI XH))))))) :: ((Npos (XI (XO
    (XI (XO (XO (XI XH))))))) :: ((Npos (XI (XO (XO (XO (XO (XI
    XH))))))) :: ((Npos (XO (XO (XI (XO (XO (XI XH))))))) :: ((Npos (XI (XO
    (XO (XI (XO (XI XH))))))) :: ((Npos (XO (XI (XI (XI (XO (XI
    XH))))))) :: ((Npos (XI (XI (XI (XO (XO (XI XH))))))) :: ((Npos (XI (XI
    (XI (XI (XI (XO XH))))))) :: ((Npos (XI (XI (XO (XO (XO (XI
    XH))))))) :: ((Npos (XI (XI (XI (XI (XO (XI XH))))))) :: ((Npos (XI (XO
    (XI (XI (XO (XI XH))))))) :: ((Npos (XO (XO (XO (XO (XI (XI
    XH))))))) :: ((Npos (XI (XO (XO (XO (XO (XI XH))))))) :: ((Npos (XO (XO
    (XI (XO (XI (XI XH))))))) :: ((Npos (XI (XO (XO (XI (XO (XI
    XH))))))) :: ((Npos (XO (XI (XO (XO (XO (XI XH))))))) :: ((Npos (XO (XO
    (XI (XI (XO (XI XH))))))) :: ((Npos (XI (XO (XI (XO (XO (XI
    XH))))))) :: [])))))))))))))))))))))))), (VBool false)) :: ((((Npos (XI
    (XI (XO (XO (XI (XI XH))))))) :: ((Npos (XI (XO (XI (XO (XI (XI
    XH))))))) :: ((Npos (XO (XI (XO (XO (XO (XI XH))))))) :: ((Npos (XI (XO
    (XO (XI (XO (XI XH))))))) :: ((Npos (XO (XI (XI (XI (XO (XI
    XH))))))) :: ((Npos (XO (XO (XI (XO (XI (XI XH))))))) :: ((Npos (XI (XO
    (XI (XO (XO (XI XH))))))) :: ((Npos (XO (XI (XO (XO (XI (XI
    XH))))))) :: ((Npos (XO (XO (XO (XO (XI (XI XH))))))) :: ((Npos (XO (XI
    (XO (XO (XI (XI XH))))))) :: ((Npos (XI (XO (XI (XO (XO (XI
    XH))))))) :: ((Npos (XO (XO (XI (XO (XI (XI XH))))))) :: ((Npos (XI (XO
    (XI (XO (XO (XI XH))))))) :: ((Npos (XO (XI (XO (XO (XI (XI
    XH))))))) :: ((Npos (XI (XI (XO (XO (XI (XI XH))))))) :: ((Npos (XI (XI
    (XI (XI (XI (XO XH))))))) :: ((Npos (XI (XI (XO (XO (XO (XI
    XH))))))) :: ((Npos (XI (XI (XI (XI (XO (XI XH))))))) :: ((Npos (XI (XO
    (XI (XI (XO (XI XH))))))) :: ((Npos (XO (XO (XO (XO (XI (XI
    XH))))))) :: ((Npos (XI (XO (XO (XO (XO (XI XH))))))) :: ((Npos (XO (XO
    (XI (XO (XI (XI XH))))))) :: ((Npos (XI (XO (XO (XI (XO (XI
    XH))))))) :: ((Npos (XO (XI (XO (XO (XO (XI XH))))))) :: ((Npos (XO (XO
    (XI (XI (XO (XI XH))))))) :: ((Npos (XI (XO (XI (XO (XO (XI
    XH))))))) :: [])))))))))))))))))))))))))), (VStr ((Npos (XO (XI (XI (XI
    (XO (XI XH))))))) :: ((Npos (XI (XI (XI (XI (XO (XI
    XH))))))) :: [])))) :: ((((Npos (XI (XO (XI (XO (XO (XI
    XH))))))) :: ((Npos (XI (XO (XI (XI (XO (XI XH))))))) :: ((Npos (XO (XI
    (XO (XO (XO (XI XH))))))) :: ((Npos (XI (XO (XI (XO (XO (XI
    XH))))))) :: ((Npos (XO (XO (XI (XO (XO (XI XH))))))) :: ((Npos (XI (XI
    (XO (XO (XI (XI XH))))))) :: ((Npos (XI (XO (XO (XI (XO (XI
    XH))))))) :: ((Npos (XI (XI (XI (XO (XO (XI XH))))))) :: ((Npos (XO (XI
    (XI (XI (XO (XI XH))))))) :: ((Npos (XI (XO (XO (XO (XO (XI
    XH))))))) :: ((Npos (XO (XO (XI (XO (XI (XI XH))))))) :: ((Npos (XI (XO
    (XI (XO (XI (XI XH))))))) :: ((Npos (XO (XI (XO (XO (XI (XI
    XH))))))) :: ((Npos (XI (XO (XI (XO (XO (XI
    XH))))))) :: [])))))))))))))), (VBool false)) :: ((((Npos (XI (XO (XI (XO
    (XO (XI XH))))))) :: ((Npos (XI (XO (XI (XI (XO (XI XH))))))) :: ((Npos
    (XO (XI (XO (XO (XO (XI XH))))))) :: ((Npos (XI (XO (XI (XO (XO (XI
    XH))))))) :: ((Npos (XO (XO (XI (XO (XO (XI XH))))))) :: ((Npos (XI (XI
    (XO (XO (XI (XI XH))))))) :: ((Npos (XI (XO (XO (XI (XO (XI
    XH))))))) :: ((Npos (XI (XI (XI (XO (XO (XI XH))))))) :: ((Npos (XO (XI
    (XI (XI (XO (XI XH))))))) :: ((Npos (XI (XO (XO (XO (XO (XI
    XH))))))) :: ((Npos (XO (XO (XI (XO (XI (XI XH))))))) :: ((Npos (XI (XO
    (XI (XO (XI (XI XH))))))) :: ((Npos (XO (XI (XO (XO (XI (XI
    XH))))))) :: ((Npos (XI (XO (XI (XO (XO (XI XH))))))) :: ((Npos (XO (XI
    (XI (XI (XO XH)))))) :: ((Npos (XO (XI (XI (XO (XO (XI
    XH))))))) :: ((Npos (XI (XI (XI (XI (XO (XI XH))))))) :: ((Npos (XO (XI
    (XO (XO (XI (XI XH))))))) :: ((Npos (XI (XO (XI (XI (XO (XI
    XH))))))) :: ((Npos (XI (XO (XO (XO (XO (XI XH))))))) :: ((Npos (XO (XO
    (XI (XO (XI (XI XH))))))) :: []))))))))))))))))))))), (VStr ((Npos (XI
    (XI (XO (XO (XO (XI XH))))))) :: []))) :: ((((Npos (XI (XO (XO (XO (XO
    (XI XH))))))) :: ((Npos (XI (XO (XI (XO (XI (XI XH))))))) :: ((Npos (XO
    (XO (XI (XO (XI (XI XH))))))) :: ((Npos (XI (XI (XI (XI (XO (XI
    XH))))))) :: ((Npos (XI (XI (XI (XI (XI (XO XH))))))) :: ((Npos (XI (XI
    (XO (XO (XO (XI XH))))))) :: ((Npos (XO (XO (XO (XO (XI (XI
    XH))))))) :: ((Npos (XO (XO (XI (XO (XO (XI XH))))))) :: ((Npos (XI (XO
    (XI (XO (XO (XI XH))))))) :: ((Npos (XO (XI (XI (XO (XO (XI
    XH))))))) :: [])))))))))), (VBool false)) :: ((((Npos (XI (XO (XO (XO (XO
    (XI XH))))))) :: ((Npos (XI (XO (XI (XO (XI (XI XH))))))) :: ((Npos (XO
    (XO (XI (XO (XI (XI XH))))))) :: ((Npos (XI (XI (XI (XI (XO (XI
    XH))))))) :: ((Npos (XI (XI (XI (XI (XI (XO XH))))))) :: ((Npos (XO (XO
    (XO (XO (XI (XI XH))))))) :: ((Npos (XI (XO (XO (XI (XO (XI
    XH))))))) :: ((Npos (XI (XI (XO (XO (XO (XI XH))))))) :: ((Npos (XI (XI
    (XO (XI (XO (XI XH))))))) :: ((Npos (XO (XO (XI (XI (XO (XI
    XH))))))) :: ((Npos (XI (XO (XI (XO (XO (XI XH))))))) :: []))))))))))),
    VNone) :: ((((Npos (XI (XI (XO (XO (XO (XI XH))))))) :: ((Npos (XO (XO
    (XI (XO (XO (XI XH))))))) :: ((Npos (XI (XO (XO (XI (XO (XI
    XH))))))) :: ((Npos (XO (XI (XI (XO (XI (XI XH))))))) :: ((Npos (XI (XO
    (XO (XI (XO (XI XH))))))) :: ((Npos (XI (XI (XO (XO (XI (XI
    XH))))))) :: ((Npos (XI (XO (XO (XI (XO (XI XH))))))) :: ((Npos (XI (XI
    (XI (XI (XO (XI XH))))))) :: ((Npos (XO (XI (XI (XI (XO (XI
    XH))))))) :: []))))))))), (VBool false)) :: ((((Npos (XI (XI (XO (XO (XO
    (XI XH))))))) :: ((Npos (XO (XO (XI (XO (XO (XI XH))))))) :: ((Npos (XI
    (XO (XO (XI (XO (XI XH))))))) :: ((Npos (XO (XI (XI (XO (XI (XI
    XH))))))) :: ((Npos (XI (XO (XO (XI (XO (XI XH))))))) :: ((Npos (XI (XI
    (XO (XO (XI (XI XH))))))) :: ((Npos (XI (XO (XO (XI (XO (XI
    XH))))))) :: ((Npos (XI (XI (XI (XI (XO (XI XH))))))) :: ((Npos (XO (XI
    (XI (XI (XO (XI XH))))))) :: ((Npos (XI (XI (XI (XI (XI (XO
    XH))))))) :: ((Npos (XI (XI (XI (XO (XI (XI XH))))))) :: ((Npos (XI (XO
    (XO (XO (XO (XI XH))))))) :: ((Npos (XO (XI (XO (XO (XI (XI
    XH))))))) :: ((Npos (XO (XI (XI (XI (XO (XI XH))))))) :: ((Npos (XI (XO
    (XO (XI (XO (XI XH))))))) :: ((Npos (XO (XI (XI (XI (XO (XI
    XH))))))) :: ((Npos (XI (XI (XI (XO (XO (XI XH))))))) :: ((Npos (XI (XI
    (XO (XO (XI (XI XH))))))) :: [])))))))))))))))))), (VBool
    false)) :: ((((Npos (XI (XI (XO (XO (XO (XI XH))))))) :: ((Npos (XO (XO
    (XO (XO (XI (XI XH))))))) :: ((Npos (XI (XI (XI (XI (XO (XI
    XH))))))) :: ((Npos (XI (XI (XI (XO (XI (XI XH))))))) :: [])))),
    VNone) :: ((((Npos (XI (XI (XO (XO (XO (XI XH))))))) :: ((Npos (XI (XI
    (XI (XI (XI (XO XH))))))) :: ((Npos (XI (XO (XO (XO (XO (XI
    XH))))))) :: ((Npos (XO (XO (XO (XO (XI (XI XH))))))) :: ((Npos (XI (XO
    (XO (XI (XO (XI XH))))))) :: ((Npos (XI (XI (XI (XI (XI (XO
    XH))))))) :: ((Npos (XO (XI (XO (XO (XO (XI XH))))))) :: ((Npos (XI (XO
    (XO (XI (XO (XI XH))))))) :: ((Npos (XO (XI (XI (XI (XO (XI
    XH))))))) :: ((Npos (XI (XI (XI (XI (XO (XI XH))))))) :: ((Npos (XO (XO
    (XO (XO (XI (XI XH))))))) :: ((Npos (XI (XI (XI (XI (XI (XO
    XH))))))) :: ((Npos (XI (XO (XI (XI (XO (XI XH))))))) :: ((Npos (XI (XO
    (XI (XO (XO (XI XH))))))) :: ((Npos (XO (XO (XI (XO (XI (XI
    XH))))))) :: ((Npos (XO (XO (XO (XI (XO (XI XH))))))) :: ((Npos (XI (XI
    (XI (XI (XO (XI XH))))))) :: ((Npos (XO (XO (XI (XO (XO (XI
    XH))))))) :: ((Npos (XI (XI (XO (XO (XI (XI
    XH))))))) :: []))))))))))))))))))), (VBool false)) :: ((((Npos (XI (XI
    (XI (XI (XO (XI XH))))))) :: ((Npos (XO (XI (XI (XO (XI (XI
    XH))))))) :: ((Npos (XI (XO (XI (XO (XO (XI XH))))))) :: ((Npos (XO (XI
    (XO (XO (XI (XI XH))))))) :: ((Npos (XO (XI (XI (XO (XO (XI
    XH))))))) :: ((Npos (XO (XO (XI (XI (XO (XI XH))))))) :: ((Npos (XI (XI
    (XI (XI (XO (XI XH))))))) :: ((Npos (XI (XI (XI (XO (XI (XI
    XH))))))) :: ((Npos (XI (XI (XO (XO (XO (XI XH))))))) :: ((Npos (XO (XO
    (XO (XI (XO (XI XH))))))) :: ((Npos (XI (XO (XI (XO (XO (XI
    XH))))))) :: ((Npos (XI (XI (XO (XO (XO (XI XH))))))) :: ((Npos (XI (XI
    (XO (XI (XO (XI XH))))))) :: []))))))))))))), (VBool false)) :: ((((Npos
    (XI (XI (XI (XI (XO (XI XH))))))) :: ((Npos (XO (XI (XI (XO (XI (XI
    XH))))))) :: ((Npos (XI (XO (XI (XO (XO (XI XH))))))) :: ((Npos (XO (XI
    (XO (XO (XI (XI XH))))))) :: ((Npos (XO (XI (XI (XO (XO (XI
    XH))))))) :: ((Npos (XO (XO (XI (XI (XO (XI XH))))))) :: ((Npos (XI (XI
    (XI (XI (XO (XI XH))))))) :: ((Npos (XI (XI (XI (XO (XI (XI
    XH))))))) :: ((Npos (XI (XI (XO (XO (XO (XI XH))))))) :: ((Npos (XO (XO
    (XO (XI (XO (XI XH))))))) :: ((Npos (XI (XO (XI (XO (XO (XI
    XH))))))) :: ((Npos (XI (XI (XO (XO (XO (XI XH))))))) :: ((Npos (XI (XI
    (XO (XI (XO (XI XH))))))) :: ((Npos (XO (XI (XI (XI (XO
    XH)))))) :: ((Npos (XO (XI (XI (XO (XO (XI XH))))))) :: ((Npos (XI (XI
    (XI (XI (XO (XI XH))))))) :: ((Npos (XO (XO (XI (XI (XO (XI
    XH))))))) :: ((Npos (XO (XO (XI (XO (XO (XI
    XH))))))) :: [])))))))))))))))))), (VBool true)) :: ((((Npos (XI (XO (XO
    (XO (XO (XI XH))))))) :: ((Npos (XO (XO (XI (XI (XO (XI
    XH))))))) :: ((Npos (XI (XI (XI (XO (XI (XI XH))))))) :: ((Npos (XI (XO
    (XO (XO (XO (XI XH))))))) :: ((Npos (XI (XO (XO (XI (XI (XI
    XH))))))) :: ((Npos (XI (XI (XO (XO (XI (XI XH))))))) :: ((Npos (XI (XI
    (XI (XI (XI (XO XH))))))) :: ((Npos (XI (XO (XO (XO (XO (XI
    XH))))))) :: ((Npos (XO (XO (XI (XI (XO (XI XH))))))) :: ((Npos (XO (XO
    (XI (XI (XO (XI XH))))))) :: ((Npos (XI (XI (XI (XI (XO (XI
    XH))))))) :: ((Npos (XI (XI (XI (XO (XI (XI XH))))))) :: ((Npos (XI (XI
    (XI (XI (XI (XO XH))))))) :: ((Npos (XI (XI (XO (XI (XO (XI
    XH))))))) :: ((Npos (XI (XO (XI (XO (XO (XI XH))))))) :: ((Npos (XI (XO
    (XO (XI (XI (XI XH))))))) :: ((Npos (XI (XI (XI (XO (XI (XI
    XH))))))) :: ((Npos (XI (XI (XI (XI (XO (XI XH))))))) :: ((Npos (XO (XI
    (XO (XO (XI (XI XH))))))) :: ((Npos (XO (XO (XI (XO (XO (XI
    XH))))))) :: ((Npos (XI (XI (XO (XO (XI (XI
    XH))))))) :: []))))))))))))))))))))), (VBool true)) :: ((((Npos (XI (XO
    (XO (XO (XO (XI XH))))))) :: ((Npos (XO (XO (XI (XI (XO (XI
    XH))))))) :: ((Npos (XO (XO (XI (XI (XO (XI XH))))))) :: ((Npos (XI (XI
    (XI (XI (XO (XI XH))))))) :: ((Npos (XI (XI (XI (XO (XI (XI
    XH))))))) :: ((Npos (XI (XI (XI (XI (XI (XO XH))))))) :: ((Npos (XO (XI
    (XI (XI (XO (XI XH))))))) :: ((Npos (XI (XI (XI (XI (XO (XI
    XH))))))) :: ((Npos (XO (XI (XI (XI (XO (XI XH))))))) :: ((Npos (XI (XO
    (XI (XO (XO (XI XH))))))) :: ((Npos (XI (XI (XI (XI (XI (XO
    XH))))))) :: ((Npos (XO (XI (XI (XO (XO (XI XH))))))) :: ((Npos (XI (XI
    (XI (XI (XO (XI XH))))))) :: ((Npos (XO (XI (XO (XO (XI (XI
    XH))))))) :: ((Npos (XI (XI (XI (XI (XI (XO XH))))))) :: ((Npos (XI (XO
    (XI (XO (XO (XI XH))))))) :: ((Npos (XO (XO (XO (XI (XI (XI
    XH))))))) :: ((Npos (XO (XO (XI (XO (XI (XI XH))))))) :: ((Npos (XI (XO
    (XI (XO (XO (XI XH))))))) :: ((Npos (XO (XI (XI (XI (XO (XI
    XH))))))) :: ((Npos (XI (XI (XO (XO (XI (XI XH))))))) :: ((Npos (XI (XO
    (XO (XI (XO (XI XH))))))) :: ((Npos (XI (XI (XI (XI (XO (XI
    XH))))))) :: ((Npos (XO (XI (XI (XI (XO (XI XH))))))) :: ((Npos (XI (XI
    (XI (XI (XI (XO XH))))))) :: ((Npos (XI (XO (XO (XO (XO (XI
    XH))))))) :: ((Npos (XO (XI (XO (XO (XI (XI XH))))))) :: ((Npos (XI (XI
    (XI (XO (XO (XI XH))))))) :: ((Npos (XI (XI (XO (XO (XI (XI
    XH))))))) :: []))))))))))))))))))))))))))))), (VBool true)) :: ((((Npos
    (XI (XI (XI (XO (XI (XI XH))))))) :: ((Npos (XO (XI (XO (XO (XI (XI
    XH))))))) :: ((Npos (XI (XO (XO (XO (XO (XI XH))))))) :: ((Npos (XO (XO
    (XO (XO (XI (XI XH))))))) :: ((Npos (XI (XO (XO (XO (XO (XI
    XH))))))) :: ((Npos (XO (XI (XO (XO (XI (XI XH))))))) :: ((Npos (XI (XI
    (XI (XI (XO (XI XH))))))) :: ((Npos (XI (XO (XI (XO (XI (XI
    XH))))))) :: ((Npos (XO (XI (XI (XI (XO (XI XH))))))) :: ((Npos (XO (XO
    (XI (XO (XO (XI XH))))))) :: [])))))))))), (VBool true)) :: ((((Npos (XI
    (XI (XO (XO (XO (XI XH))))))) :: ((Npos (XI (XI (XO (XO (XO (XI
    XH))))))) :: ((Npos (XI (XI (XI (XI (XO (XI XH))))))) :: ((Npos (XI (XO
    (XI (XI (XO (XI XH))))))) :: ((Npos (XO (XO (XO (XO (XI (XI
    XH))))))) :: ((Npos (XO (XO (XI (XI (XO (XI XH))))))) :: ((Npos (XI (XO
    (XI (XO (XO (XI XH))))))) :: ((Npos (XO (XO (XO (XI (XI (XI
    XH))))))) :: [])))))))), (VBool false)) :: ((((Npos (XI (XI (XO (XO (XO
    (XI XH))))))) :: ((Npos (XI (XO (XO (XO (XO (XI XH))))))) :: ((Npos (XO
    (XO (XI (XI (XO (XI XH))))))) :: ((Npos (XO (XO (XI (XI (XO (XI
    XH))))))) :: ((Npos (XI (XI (XO (XO (XI (XI XH))))))) :: ((Npos (XO (XO
    (XO (XO (XI (XI XH))))))) :: ((Npos (XI (XO (XI (XO (XO (XI
    XH))))))) :: ((Npos (XI (XI (XO (XO (XO (XI XH))))))) :: [])))))))),
    (VStr [])) :: ((((Npos (XO (XI (XI (XI (XO (XI XH))))))) :: ((Npos (XI
    (XI (XI (XI (XO (XI XH))))))) :: ((Npos (XI (XI (XI (XO (XO (XI
    XH))))))) :: ((Npos (XI (XO (XO (XI (XO (XI XH))))))) :: ((Npos (XO (XO
    (XI (XI (XO (XI XH))))))) :: []))))), (VBool false)) :: ((((Npos (XI (XI
    (XI (XO (XO (XI XH))))))) :: ((Npos (XI (XO (XO (XI (XO (XI
    XH))))))) :: ((Npos (XO (XO (XI (XI (XO (XI XH))))))) :: []))), (VBool
    false)) :: ((((Npos (XI (XI (XI (XO (XI (XI XH))))))) :: ((Npos (XI (XO
    (XO (XI (XO (XI XH))))))) :: ((Npos (XO (XO (XI (XO (XI (XI
    XH))))))) :: ((Npos (XO (XO (XO (XI (XO (XI XH))))))) :: ((Npos (XI (XI
    (XI (XI (XI (XO XH))))))) :: ((Npos (XI (XI (XI (XO (XO (XI
    XH))))))) :: ((Npos (XI (XO (XO (XI (XO (XI XH))))))) :: ((Npos (XO (XO
    (XI (XI (XO (XI XH))))))) :: [])))))))), (VBool false)) :: ((((Npos (XO
    (XO (XO (XO (XI (XI XH))))))) :: ((Npos (XO (XI (XO (XO (XI (XI
    XH))))))) :: ((Npos (XI (XI (XI (XI (XO (XI XH))))))) :: ((Npos (XO (XI
    (XI (XO (XO (XI XH))))))) :: ((Npos (XI (XO (XO (XI (XO (XI
    XH))))))) :: ((Npos (XO (XO (XI (XI (XO (XI XH))))))) :: ((Npos (XI (XO
    (XI (XO (XO (XI XH))))))) :: []))))))), (VBool false)) :: ((((Npos (XO
    (XO (XI (XI (XO (XI XH))))))) :: ((Npos (XI (XO (XO (XI (XO (XI
    XH))))))) :: ((Npos (XO (XI (XI (XI (XO (XI XH))))))) :: ((Npos (XI (XO
    (XI (XO (XO (XI XH))))))) :: ((Npos (XO (XO (XI (XO (XI (XI
    XH))))))) :: ((Npos (XO (XI (XO (XO (XI (XI XH))))))) :: ((Npos (XI (XO
    (XO (XO (XO (XI XH))))))) :: ((Npos (XI (XI (XO (XO (XO (XI
    XH))))))) :: ((Npos (XI (XO (XI (XO (XO (XI XH))))))) :: []))))))))),
    (VBool false)) :: ((((Npos (XI (XO (XI (XO (XO (XI XH))))))) :: ((Npos
    (XI (XO (XI (XI (XO (XI XH))))))) :: ((Npos (XI (XO (XO (XI (XO (XI
    XH))))))) :: ((Npos (XO (XO (XI (XO (XI (XI XH))))))) :: ((Npos (XI (XI
    (XI (XI (XI (XO XH))))))) :: ((Npos (XI (XI (XO (XO (XO (XI
    XH))))))) :: ((Npos (XI (XI (XI (XI (XO (XI XH))))))) :: ((Npos (XO (XO
    (XI (XO (XO (XI XH))))))) :: ((Npos (XI (XO (XI (XO (XO (XI
    XH))))))) :: ((Npos (XI (XI (XI (XI (XI (XO XH))))))) :: ((Npos (XI (XI
    (XO (XO (XO (XI XH))))))) :: ((Npos (XI (XI (XI (XI (XO (XI
    XH))))))) :: ((Npos (XI (XO (XI (XI (XO (XI XH))))))) :: ((Npos (XI (XO
    (XI (XI (XO (XI XH))))))) :: ((Npos (XI (XO (XI (XO (XO (XI
    XH))))))) :: ((Npos (XO (XI (XI (XI (XO (XI XH))))))) :: ((Npos (XO (XO
    (XI (XO (XI (XI XH))))))) :: ((Npos (XI (XI (XO (XO (XI (XI
    XH))))))) :: [])))))))))))))))))), (VBool true)) :: ((((Npos (XI (XO (XO
    (XO (XO (XI XH))))))) :: ((Npos (XO (XI (XI (XI (XO (XI
    XH))))))) :: ((Npos (XO (XI (XI (XI (XO (XI XH))))))) :: ((Npos (XI (XI
    (XI (XI (XO (XI XH))))))) :: ((Npos (XO (XO (XI (XO (XI (XI
    XH))))))) :: ((Npos (XI (XO (XO (XO (XO (XI XH))))))) :: ((Npos (XO (XO
    (XI (XO (XI (XI XH))))))) :: ((Npos (XI (XO (XO (XI (XO (XI
    XH))))))) :: ((Npos (XI (XI (XI (XI (XO (XI XH))))))) :: ((Npos (XO (XI
    (XI (XI (XO (XI XH))))))) :: ((Npos (XI (XI (XI (XI (XI (XO
    XH))))))) :: ((Npos (XO (XO (XI (XO (XI (XI XH))))))) :: ((Npos (XI (XO
    (XO (XI (XI (XI XH))))))) :: ((Npos (XO (XO (XO (XO (XI (XI
    XH))))))) :: ((Npos (XI (XO (XO (XI (XO (XI XH))))))) :: ((Npos (XO (XI
    (XI (XI (XO (XI XH))))))) :: ((Npos (XI (XI (XI (XO (XO (XI
    XH))))))) :: []))))))))))))))))), (VBool true)) :: ((((Npos (XI (XO (XO
    (XI (XO (XI XH))))))) :: ((Npos (XO (XI (XI (XI (XO (XI
    XH))))))) :: ((Npos (XO (XI (XI (XO (XO (XI XH))))))) :: ((Npos (XI (XO
    (XI (XO (XO (XI XH))))))) :: ((Npos (XO (XI (XO (XO (XI (XI
    XH))))))) :: ((Npos (XI (XI (XI (XI (XI (XO XH))))))) :: ((Npos (XO (XO
    (XI (XO (XI (XI XH))))))) :: ((Npos (XI (XO (XO (XI (XI (XI
    XH))))))) :: ((Npos (XO (XO (XO (XO (XI (XI XH))))))) :: ((Npos (XI (XO
    (XI (XO (XO (XI XH))))))) :: ((Npos (XI (XI (XO (XO (XI (XI
    XH))))))) :: []))))))))))), VNone) :: ((((Npos (XI (XO (XO (XI (XO (XI
    XH))))))) :: ((Npos (XO (XI (XI (XI (XO (XI XH))))))) :: ((Npos (XO (XI
    (XI (XO (XO (XI XH))))))) :: ((Npos (XI (XO (XI (XO (XO (XI
    XH))))))) :: ((Npos (XO (XI (XO (XO (XI (XI XH))))))) :: ((Npos (XI (XI
    (XI (XI (XI (XO XH))))))) :: ((Npos (XO (XO (XI (XO (XI (XI
    XH))))))) :: ((Npos (XI (XO (XO (XI (XI (XI XH))))))) :: ((Npos (XO (XO
    (XO (XO (XI (XI XH))))))) :: ((Npos (XI (XO (XI (XO (XO (XI
    XH))))))) :: ((Npos (XI (XI (XO (XO (XI (XI XH))))))) :: ((Npos (XO (XI
    (XI (XI (XO XH)))))) :: ((Npos (XO (XI (XI (XO (XI (XI
    XH))))))) :: ((Npos (XI (XO (XI (XO (XO (XI XH))))))) :: ((Npos (XO (XI
    (XO (XO (XI (XI XH))))))) :: ((Npos (XO (XI (XO (XO (XO (XI
    XH))))))) :: ((Npos (XI (XI (XI (XI (XO (XI XH))))))) :: ((Npos (XI (XI
    (XO (XO (XI (XI XH))))))) :: ((Npos (XI (XO (XI (XO (XO (XI
    XH))))))) :: []))))))))))))))))))), (VBool false)) :: ((((Npos (XI (XO
    (XO (XO (XO (XI XH))))))) :: ((Npos (XI (XO (XI (XO (XI (XI
    XH))))))) :: ((Npos (XO (XO (XI (XO (XI (XI XH))))))) :: ((Npos (XI (XI
    (XI (XI (XO (XI XH))))))) :: ((Npos (XO (XO (XI (XO (XI (XI
    XH))))))) :: ((Npos (XI (XO (XI (XO (XO (XI XH))))))) :: ((Npos (XI (XI
    (XO (XO (XI (XI XH))))))) :: ((Npos (XO (XO (XI (XO (XI (XI
    XH))))))) :: ((Npos (XO (XO (XI (XO (XO (XI XH))))))) :: ((Npos (XI (XO
    (XO (XI (XO (XI XH))))))) :: ((Npos (XI (XI (XO (XO (XO (XI
    XH))))))) :: ((Npos (XO (XO (XI (XO (XI (XI XH))))))) :: [])))))))))))),
    (VBool true)) :: ((((Npos (XI (XO (XO (XO (XO (XI XH))))))) :: ((Npos (XI
    (XO (XI (XO (XI (XI XH))))))) :: ((Npos (XO (XO (XI (XO (XI (XI
    XH))))))) :: ((Npos (XI (XI (XI (XI (XO (XI XH))))))) :: ((Npos (XO (XO
    (XI (XO (XI (XI XH))))))) :: ((Npos (XI (XO (XI (XO (XO (XI
    XH))))))) :: ((Npos (XI (XI (XO (XO (XI (XI XH))))))) :: ((Npos (XO (XO
    (XI (XO (XI (XI XH))))))) :: ((Npos (XO (XO (XI (XO (XO (XI
    XH))))))) :: ((Npos (XI (XO (XO (XI (XO (XI XH))))))) :: ((Npos (XI (XI
    (XO (XO (XO (XI XH))))))) :: ((Npos (XO (XO (XI (XO (XI (XI
    XH))))))) :: ((Npos (XO (XI (XI (XI (XO XH)))))) :: ((Npos (XI (XI (XO
    (XO (XO (XI XH))))))) :: ((Npos (XO (XO (XI (XO (XO (XI
    XH))))))) :: ((Npos (XI (XO (XI (XO (XO (XI XH))))))) :: ((Npos (XO (XI
    (XI (XO (XO (XI XH))))))) :: []))))))))))))))))), (VBool
    false)) :: ((((Npos (XI (XO (XO (XO (XO (XI XH))))))) :: ((Npos (XI (XO
    (XI (XO (XI (XI XH))))))) :: ((Npos (XO (XO (XI (XO (XI (XI
    XH))))))) :: ((Npos (XI (XI (XI (XI (XO (XI XH))))))) :: ((Npos (XO (XO
    (XI (XO (XI (XI XH))))))) :: ((Npos (XI (XO (XI (XO (XO (XI
    XH))))))) :: ((Npos (XI (XI (XO (XO (XI (XI XH))))))) :: ((Npos (XO (XO
    (XI (XO (XI (XI XH))))))) :: ((Npos (XO (XO (XI (XO (XO (XI
    XH))))))) :: ((Npos (XI (XO (XO (XI (XO (XI XH))))))) :: ((Npos (XI (XI
    (XO (XO (XO (XI XH))))))) :: ((Npos (XO (XO (XI (XO (XI (XI
    XH))))))) :: ((Npos (XO (XI (XI (XI (XO XH)))))) :: ((Npos (XI (XO (XO
    (XO (XO (XI XH))))))) :: ((Npos (XO (XO (XI (XI (XO (XI
    XH))))))) :: ((Npos (XO (XO (XI (XI (XO (XI
    XH))))))) :: [])))))))))))))))), (VBool false)) :: ((((Npos (XO (XO (XI
    (XI (XO (XI XH))))))) :: ((Npos (XI (XO (XO (XO (XO (XI
    XH))))))) :: ((Npos (XO (XI (XI (XI (XO (XI XH))))))) :: ((Npos (XI (XI
    (XI (XO (XO (XI XH))))))) :: ((Npos (XI (XO (XI (XO (XI (XI
    XH))))))) :: ((Npos (XI (XO (XO (XO (XO (XI XH))))))) :: ((Npos (XI (XI
    (XI (XO (XO (XI XH))))))) :: ((Npos (XI (XO (XI (XO (XO (XI
    XH))))))) :: ((Npos (XI (XI (XI (XI (XI (XO XH))))))) :: ((Npos (XO (XO
    (XI (XI (XO (XI XH))))))) :: ((Npos (XI (XO (XI (XO (XO (XI
    XH))))))) :: ((Npos (XO (XI (XI (XO (XI (XI XH))))))) :: ((Npos (XI (XO
    (XI (XO (XO (XI XH))))))) :: ((Npos (XO (XO (XI (XI (XO (XI
    XH))))))) :: [])))))))))))))), VNone) :: ((((Npos (XO (XI (XI (XO (XO (XI
    XH))))))) :: ((Npos (XI (XO (XO (XO (XO (XI XH))))))) :: ((Npos (XI (XI
    (XO (XO (XI (XI XH))))))) :: ((Npos (XO (XO (XI (XO (XI (XI
    XH))))))) :: ((Npos (XI (XI (XI (XI (XI (XO XH))))))) :: ((Npos (XI (XI
    (XI (XO (XO (XI XH))))))) :: ((Npos (XI (XO (XI (XO (XO (XI
    XH))))))) :: ((Npos (XO (XO (XI (XO (XI (XI XH))))))) :: ((Npos (XI (XO
    (XO (XO (XO (XI XH))))))) :: ((Npos (XO (XO (XI (XO (XI (XI
    XH))))))) :: ((Npos (XO (XO (XI (XO (XI (XI XH))))))) :: ((Npos (XO (XI
    (XO (XO (XI (XI XH))))))) :: [])))))))))))), (VBool false)) :: ((((Npos
    (XO (XO (XO (XO (XI (XI XH))))))) :: ((Npos (XI (XO (XO (XI (XI (XI
    XH))))))) :: ((Npos (XO (XI (XO (XO (XI XH)))))) :: ((Npos (XI (XI (XI
    (XI (XI (XO XH))))))) :: ((Npos (XI (XO (XO (XI (XO (XI
    XH))))))) :: ((Npos (XI (XO (XI (XI (XO (XI XH))))))) :: ((Npos (XO (XO
    (XO (XO (XI (XI XH))))))) :: ((Npos (XI (XI (XI (XI (XO (XI
    XH))))))) :: ((Npos (XO (XI (XO (XO (XI (XI XH))))))) :: ((Npos (XO (XO
    (XI (XO (XI (XI XH))))))) :: [])))))))))), (VBool false)) :: ((((Npos (XO
    (XO (XO (XO (XI (XI XH))))))) :: ((Npos (XO (XI (XO (XO (XI (XI
    XH))))))) :: ((Npos (XI (XO (XI (XO (XO (XI XH))))))) :: ((Npos (XO (XO
    (XI (XI (XO (XI XH))))))) :: ((Npos (XI (XO (XO (XI (XO (XI
    XH))))))) :: ((Npos (XI (XO (XI (XI (XO (XI XH))))))) :: ((Npos (XI (XO
    (XO (XI (XO (XI XH))))))) :: ((Npos (XO (XI (XI (XI (XO (XI
    XH))))))) :: ((Npos (XI (XO (XO (XO (XO (XI XH))))))) :: ((Npos (XO (XI
    (XO (XO (XI (XI XH))))))) :: ((Npos (XI (XO (XO (XI (XI (XI
    XH))))))) :: ((Npos (XI (XI (XI (XI (XI (XO XH))))))) :: ((Npos (XO (XO
    (XI (XI (XO (XI XH))))))) :: ((Npos (XI (XO (XO (XO (XO (XI
    XH))))))) :: ((Npos (XO (XO (XI (XO (XI (XI XH))))))) :: ((Npos (XI (XO
    (XI (XO (XO (XI XH))))))) :: ((Npos (XI (XI (XI (XI (XI (XO
    XH))))))) :: ((Npos (XI (XO (XO (XI (XO (XI XH))))))) :: ((Npos (XO (XI
    (XI (XI (XO (XI XH))))))) :: ((Npos (XI (XI (XO (XO (XO (XI
    XH))))))) :: ((Npos (XO (XO (XI (XI (XO (XI XH))))))) :: ((Npos (XI (XO
    (XI (XO (XI (XI XH))))))) :: ((Npos (XO (XO (XI (XO (XO (XI
    XH))))))) :: ((Npos (XI (XO (XI (XO (XO (XI XH))))))) :: ((Npos (XI (XI
    (XO (XO (XI (XI XH))))))) :: ((Npos (XI (XI (XI (XI (XI (XO
    XH))))))) :: ((Npos (XI (XI (XO (XO (XO (XI XH))))))) :: ((Npos (XI (XO
    (XO (XI (XI (XI XH))))))) :: ((Npos (XO (XI (XO (XO (XI
    XH)))))) :: ((Npos (XO (XO (XO (XI (XI
    XH)))))) :: [])))))))))))))))))))))))))))))), (VBool false)) :: ((((Npos
    (XI (XO (XO (XI (XO (XI XH))))))) :: ((Npos (XO (XO (XI (XO (XI (XI
    XH))))))) :: ((Npos (XI (XO (XI (XO (XO (XI XH))))))) :: ((Npos (XO (XI
    (XO (XO (XI (XI XH))))))) :: ((Npos (XI (XO (XO (XO (XO (XI
    XH))))))) :: ((Npos (XO (XI (XO (XO (XO (XI XH))))))) :: ((Npos (XO (XO
    (XI (XI (XO (XI XH))))))) :: ((Npos (XI (XO (XI (XO (XO (XI
    XH))))))) :: ((Npos (XI (XI (XI (XI (XI (XO XH))))))) :: ((Npos (XI (XI
    (XO (XO (XO (XI XH))))))) :: ((Npos (XI (XI (XI (XI (XO (XI
    XH))))))) :: ((Npos (XO (XI (XO (XO (XI (XI XH))))))) :: ((Npos (XI (XI
    (XI (XI (XO (XI XH))))))) :: ((Npos (XI (XO (XI (XO (XI (XI
    XH))))))) :: ((Npos (XO (XO (XI (XO (XI (XI XH))))))) :: ((Npos (XI (XO
    (XO (XI (XO (XI XH))))))) :: ((Npos (XO (XI (XI (XI (XO (XI
    XH))))))) :: ((Npos (XI (XO (XI (XO (XO (XI
    XH))))))) :: [])))))))))))))))))), (VBool false)) :: ((((Npos (XI (XI (XO
    (XO (XO (XI XH))))))) :: ((Npos (XI (XI (XI (XI (XI (XO
    XH))))))) :: ((Npos (XI (XI (XO (XO (XI (XI XH))))))) :: ((Npos (XO (XO
    (XI (XO (XI (XI XH))))))) :: ((Npos (XO (XI (XO (XO (XI (XI
    XH))))))) :: ((Npos (XI (XO (XO (XI (XO (XI XH))))))) :: ((Npos (XO (XI
    (XI (XI (XO (XI XH))))))) :: ((Npos (XI (XI (XI (XO (XO (XI
    XH))))))) :: ((Npos (XI (XI (XI (XI (XI (XO XH))))))) :: ((Npos (XO (XO
    (XI (XO (XI (XI XH))))))) :: ((Npos (XI (XO (XO (XI (XI (XI
    XH))))))) :: ((Npos (XO (XO (XO (XO (XI (XI XH))))))) :: ((Npos (XI (XO
    (XI (XO (XO (XI XH))))))) :: []))))))))))))), (VStr ((Npos (XO (XI (XO
    (XO (XO (XI XH))))))) :: ((Npos (XI (XO (XO (XI (XI (XI
    XH))))))) :: ((Npos (XO (XO (XI (XO (XI (XI XH))))))) :: ((Npos (XI (XO
    (XI (XO (XO (XI XH))))))) :: ((Npos (XI (XI (XO (XO (XI (XI
    XH))))))) :: []))))))) :: ((((Npos (XI (XI (XO (XO (XO (XI
    XH))))))) :: ((Npos (XI (XI (XI (XI (XI (XO XH))))))) :: ((Npos (XI (XI
    (XO (XO (XI (XI XH))))))) :: ((Npos (XO (XO (XI (XO (XI (XI
    XH))))))) :: ((Npos (XO (XI (XO (XO (XI (XI XH))))))) :: ((Npos (XI (XO
    (XO (XI (XO (XI XH))))))) :: ((Npos (XO (XI (XI (XI (XO (XI
    XH))))))) :: ((Npos (XI (XI (XI (XO (XO (XI XH))))))) :: ((Npos (XI (XI
    (XI (XI (XI (XO XH))))))) :: ((Npos (XI (XO (XI (XO (XO (XI
    XH))))))) :: ((Npos (XO (XI (XI (XI (XO (XI XH))))))) :: ((Npos (XI (XI
    (XO (XO (XO (XI XH))))))) :: ((Npos (XI (XI (XI (XI (XO (XI
    XH))))))) :: ((Npos (XO (XO (XI (XO (XO (XI XH))))))) :: ((Npos (XI (XO
    (XO (XI (XO (XI XH))))))) :: ((Npos (XO (XI (XI (XI (XO (XI
    XH))))))) :: ((Npos (XI (XI (XI (XO (XO (XI
    XH))))))) :: []))))))))))))))))), (VStr [])) :: ((((Npos (XO (XO (XI (XO
    (XI (XI XH))))))) :: ((Npos (XI (XO (XO (XI (XI (XI XH))))))) :: ((Npos
    (XO (XO (XO (XO (XI (XI XH))))))) :: ((Npos (XI (XO (XI (XO (XO (XI
    XH))))))) :: ((Npos (XI (XI (XI (XI (XI (XO XH))))))) :: ((Npos (XO (XI
    (XI (XO (XI (XI XH))))))) :: ((Npos (XI (XO (XI (XO (XO (XI
    XH))))))) :: ((Npos (XO (XI (XO (XO (XI (XI XH))))))) :: ((Npos (XI (XI
    (XO (XO (XI (XI XH))))))) :: ((Npos (XI (XO (XO (XI (XO (XI
    XH))))))) :: ((Npos (XI (XI (XI (XI (XO (XI XH))))))) :: ((Npos (XO (XI
    (XI (XI (XO (XI XH))))))) :: ((Npos (XI (XI (XI (XI (XI (XO
    XH))))))) :: ((Npos (XO (XO (XI (XO (XI (XI XH))))))) :: ((Npos (XI (XO
    (XO (XO (XO (XI XH))))))) :: ((Npos (XI (XI (XI (XO (XO (XI
    XH))))))) :: [])))))))))))))))), (VBool true)) :: ((((Npos (XI (XO (XI
    (XO (XI (XI XH))))))) :: ((Npos (XO (XI (XI (XI (XO (XI
    XH))))))) :: ((Npos (XO (XI (XO (XO (XI (XI XH))))))) :: ((Npos (XI (XO
    (XO (XO (XO (XI XH))))))) :: ((Npos (XI (XO (XO (XI (XO (XI
    XH))))))) :: ((Npos (XI (XI (XO (XO (XI (XI XH))))))) :: ((Npos (XI (XO
    (XO (XO (XO (XI XH))))))) :: ((Npos (XO (XI (XO (XO (XO (XI
    XH))))))) :: ((Npos (XO (XO (XI (XI (XO (XI XH))))))) :: ((Npos (XI (XO
    (XI (XO (XO (XI XH))))))) :: ((Npos (XI (XI (XI (XI (XI (XO
    XH))))))) :: ((Npos (XO (XO (XI (XO (XI (XI XH))))))) :: ((Npos (XO (XI
    (XO (XO (XI (XI XH))))))) :: ((Npos (XI (XO (XO (XO (XO (XI
    XH))))))) :: ((Npos (XI (XI (XO (XO (XO (XI XH))))))) :: ((Npos (XI (XO
    (XI (XO (XO (XI XH))))))) :: ((Npos (XO (XI (XO (XO (XO (XI
    XH))))))) :: ((Npos (XI (XO (XO (XO (XO (XI XH))))))) :: ((Npos (XI (XI
    (XO (XO (XO (XI XH))))))) :: ((Npos (XI (XI (XO (XI (XO (XI
    XH))))))) :: ((Npos (XI (XI (XO (XO (XI (XI
    XH))))))) :: []))))))))))))))))))))), (VBool true)) :: ((((Npos (XI (XI
    (XI (XI (XO (XI XH))))))) :: ((Npos (XO (XO (XI (XI (XO (XI
    XH))))))) :: ((Npos (XO (XO (XI (XO (XO (XI XH))))))) :: ((Npos (XI (XI
    (XI (XI (XI (XO XH))))))) :: ((Npos (XI (XI (XO (XO (XI (XI
    XH))))))) :: ((Npos (XO (XO (XI (XO (XI (XI XH))))))) :: ((Npos (XI (XO
    (XO (XI (XI (XI XH))))))) :: ((Npos (XO (XO (XI (XI (XO (XI
    XH))))))) :: ((Npos (XI (XO (XI (XO (XO (XI XH))))))) :: ((Npos (XI (XI
    (XI (XI (XI (XO XH))))))) :: ((Npos (XI (XI (XI (XO (XO (XI
    XH))))))) :: ((Npos (XO (XO (XI (XI (XO (XI XH))))))) :: ((Npos (XI (XI
    (XI (XI (XO (XI XH))))))) :: ((Npos (XO (XI (XO (XO (XO (XI
    XH))))))) :: ((Npos (XI (XO (XO (XO (XO (XI XH))))))) :: ((Npos (XO (XO
    (XI (XI (XO (XI XH))))))) :: ((Npos (XI (XI (XO (XO (XI (XI
    XH))))))) :: []))))))))))))))))), (VBool false)) :: ((((Npos (XO (XI (XI
    (XI (XO (XI XH))))))) :: ((Npos (XO (XO (XO (XO (XI (XI
    XH))))))) :: ((Npos (XI (XI (XI (XI (XI (XO XH))))))) :: ((Npos (XO (XO
    (XO (XO (XI (XI XH))))))) :: ((Npos (XI (XO (XO (XI (XI (XI
    XH))))))) :: ((Npos (XO (XO (XI (XO (XI (XI XH))))))) :: ((Npos (XO (XO
    (XO (XI (XO (XI XH))))))) :: ((Npos (XO (XI (XO (XO (XI (XI
    XH))))))) :: ((Npos (XI (XO (XO (XO (XO (XI XH))))))) :: ((Npos (XO (XI
    (XI (XI (XO (XI XH))))))) :: [])))))))))), (VBool false)) :: ((((Npos (XO
    (XI (XI (XO (XO (XI XH))))))) :: ((Npos (XI (XO (XO (XO (XO (XI
    XH))))))) :: ((Npos (XI (XI (XO (XO (XI (XI XH))))))) :: ((Npos (XO (XO
    (XI (XO (XI (XI XH))))))) :: ((Npos (XI (XI (XI (XI (XI (XO
    XH))))))) :: ((Npos (XI (XI (XI (XO (XO (XI XH))))))) :: ((Npos (XI (XO
    (XO (XI (XO (XI XH))))))) :: ((Npos (XO (XO (XI (XI (XO (XI
    XH))))))) :: [])))))))), (VBool false)) :: ((((Npos (XI (XI (XO (XO (XO
    (XI XH))))))) :: ((Npos (XO (XO (XO (XO (XI (XI XH))))))) :: ((Npos (XO
    (XO (XO (XO (XI (XI XH))))))) :: ((Npos (XI (XI (XI (XI (XI (XO
    XH))))))) :: ((Npos (XO (XO (XI (XI (XO (XI XH))))))) :: ((Npos (XI (XI
    (XI (XI (XO (XI XH))))))) :: ((Npos (XI (XI (XO (XO (XO (XI
    XH))))))) :: ((Npos (XI (XO (XO (XO (XO (XI XH))))))) :: ((Npos (XO (XO
    (XI (XI (XO (XI XH))))))) :: ((Npos (XI (XI (XO (XO (XI (XI
    XH))))))) :: [])))))))))), (VBool false)) :: ((((Npos (XO (XO (XI (XI (XO
    (XI XH))))))) :: ((Npos (XI (XO (XI (XO (XO (XI XH))))))) :: ((Npos (XI
    (XI (XI (XO (XO (XI XH))))))) :: ((Npos (XI (XO (XO (XO (XO (XI
    XH))))))) :: ((Npos (XI (XI (XO (XO (XO (XI XH))))))) :: ((Npos (XI (XO
    (XO (XI (XI (XI XH))))))) :: ((Npos (XI (XI (XI (XI (XI (XO
    XH))))))) :: ((Npos (XI (XO (XO (XI (XO (XI XH))))))) :: ((Npos (XI (XO
    (XI (XI (XO (XI XH))))))) :: ((Npos (XO (XO (XO (XO (XI (XI
    XH))))))) :: ((Npos (XO (XO (XI (XI (XO (XI XH))))))) :: ((Npos (XI (XO
    (XO (XI (XO (XI XH))))))) :: ((Npos (XI (XI (XO (XO (XO (XI
    XH))))))) :: ((Npos (XI (XO (XO (XI (XO (XI XH))))))) :: ((Npos (XO (XO
    (XI (XO (XI (XI XH))))))) :: ((Npos (XI (XI (XI (XI (XI (XO
    XH))))))) :: ((Npos (XO (XI (XI (XI (XO (XI XH))))))) :: ((Npos (XI (XI
    (XI (XI (XO (XI XH))))))) :: ((Npos (XI (XO (XI (XO (XO (XI
    XH))))))) :: ((Npos (XO (XO (XO (XI (XI (XI XH))))))) :: ((Npos (XI (XI
    (XO (XO (XO (XI XH))))))) :: ((Npos (XI (XO (XI (XO (XO (XI
    XH))))))) :: ((Npos (XO (XO (XO (XO (XI (XI XH))))))) :: ((Npos (XO (XO
    (XI (XO (XI (XI XH))))))) :: [])))))))))))))))))))))))), (VBool
    false)) :: ((((Npos (XI (XI (XO (XO (XO (XI XH))))))) :: ((Npos (XI (XI
    (XI (XI (XI (XO XH))))))) :: ((Npos (XI (XI (XO (XO (XO (XI
    XH))))))) :: ((Npos (XI (XI (XI (XI (XO (XI XH))))))) :: ((Npos (XI (XO
    (XI (XI (XO (XI XH))))))) :: ((Npos (XO (XO (XO (XO (XI (XI
    XH))))))) :: ((Npos (XI (XO (XO (XI (XO (XI XH))))))) :: ((Npos (XO (XO
    (XI (XI (XO (XI XH))))))) :: ((Npos (XI (XO (XI (XO (XO (XI
    XH))))))) :: ((Npos (XI (XI (XI (XI (XI (XO XH))))))) :: ((Npos (XI (XI
    (XI (XO (XO (XI XH))))))) :: ((Npos (XI (XO (XI (XO (XI (XI
    XH))))))) :: ((Npos (XI (XO (XO (XO (XO (XI XH))))))) :: ((Npos (XO (XI
    (XO (XO (XI (XI XH))))))) :: ((Npos (XO (XO (XI (XO (XO (XI
    XH))))))) :: []))))))))))))))), (VStr [])) :: ((((Npos (XI (XI (XO (XO
    (XI (XI XH))))))) :: ((Npos (XI (XO (XI (XO (XO (XI XH))))))) :: ((Npos
    (XO (XO (XI (XO (XI (XI XH))))))) :: ((Npos (XI (XI (XI (XI (XI (XO
    XH))))))) :: ((Npos (XI (XO (XO (XI (XO (XI XH))))))) :: ((Npos (XO (XI
    (XI (XI (XO (XI XH))))))) :: ((Npos (XI (XO (XO (XI (XO (XI
    XH))))))) :: ((Npos (XO (XO (XI (XO (XI (XI XH))))))) :: ((Npos (XI (XO
    (XO (XI (XO (XI XH))))))) :: ((Npos (XI (XO (XO (XO (XO (XI
    XH))))))) :: ((Npos (XO (XO (XI (XI (XO (XI XH))))))) :: ((Npos (XI (XI
    (XI (XI (XI (XO XH))))))) :: ((Npos (XO (XO (XO (XO (XI (XI
    XH))))))) :: ((Npos (XI (XO (XO (XO (XO (XI XH))))))) :: ((Npos (XO (XO
    (XI (XO (XI (XI XH))))))) :: ((Npos (XO (XO (XO (XI (XO (XI
    XH))))))) :: [])))))))))))))))), VNone) :: ((((Npos (XI (XI (XI (XO (XI
    (XI XH))))))) :: ((Npos (XI (XO (XO (XO (XO (XI XH))))))) :: ((Npos (XO
    (XI (XO (XO (XI (XI XH))))))) :: ((Npos (XO (XI (XI (XI (XO (XI
    XH))))))) :: [])))), VNone) :: ((((Npos (XI (XI (XI (XO (XI (XI
    XH))))))) :: ((Npos (XI (XO (XO (XO (XO (XI XH))))))) :: ((Npos (XO (XI
    (XO (XO (XI (XI XH))))))) :: ((Npos (XO (XI (XI (XI (XO (XI
    XH))))))) :: ((Npos (XO (XI (XI (XI (XO XH)))))) :: ((Npos (XI (XO (XI
    (XO (XI (XI XH))))))) :: ((Npos (XO (XI (XI (XI (XO (XI
    XH))))))) :: ((Npos (XO (XO (XI (XO (XO (XI XH))))))) :: ((Npos (XI (XO
    (XI (XO (XO (XI XH))))))) :: ((Npos (XI (XI (XO (XO (XO (XI
    XH))))))) :: ((Npos (XO (XO (XI (XI (XO (XI XH))))))) :: ((Npos (XI (XO
    (XO (XO (XO (XI XH))))))) :: ((Npos (XO (XI (XO (XO (XI (XI
    XH))))))) :: ((Npos (XI (XO (XI (XO (XO (XI XH))))))) :: ((Npos (XO (XO
    (XI (XO (XO (XI XH))))))) :: []))))))))))))))), (VBool
    false)) :: ((((Npos (XI (XI (XI (XO (XI (XI XH))))))) :: ((Npos (XI (XO
    (XO (XO (XO (XI XH))))))) :: ((Npos (XO (XI (XO (XO (XI (XI
    XH))))))) :: ((Npos (XO (XI (XI (XI (XO (XI XH))))))) :: ((Npos (XO (XI
    (XI (XI (XO XH)))))) :: ((Npos (XI (XO (XI (XO (XI (XI
    XH))))))) :: ((Npos (XO (XI (XI (XI (XO (XI XH))))))) :: ((Npos (XO (XI
    (XO (XO (XI (XI XH))))))) :: ((Npos (XI (XO (XI (XO (XO (XI
    XH))))))) :: ((Npos (XI (XO (XO (XO (XO (XI XH))))))) :: ((Npos (XI (XI
    (XO (XO (XO (XI XH))))))) :: ((Npos (XO (XO (XO (XI (XO (XI
    XH))))))) :: ((Npos (XI (XO (XO (XO (XO (XI XH))))))) :: ((Npos (XO (XI
    (XO (XO (XO (XI XH))))))) :: ((Npos (XO (XO (XI (XI (XO (XI
    XH))))))) :: ((Npos (XI (XO (XI (XO (XO (XI
    XH))))))) :: [])))))))))))))))), (VBool true)) :: ((((Npos (XI (XI (XI
    (XO (XI (XI XH))))))) :: ((Npos (XI (XO (XO (XO (XO (XI
    XH))))))) :: ((Npos (XO (XI (XO (XO (XI (XI XH))))))) :: ((Npos (XO (XI
    (XI (XI (XO (XI XH))))))) :: ((Npos (XO (XI (XI (XI (XO
    XH)))))) :: ((Npos (XI (XO (XI (XI (XO (XI XH))))))) :: ((Npos (XI (XO
    (XO (XO (XO (XI XH))))))) :: ((Npos (XI (XO (XO (XI (XI (XI
    XH))))))) :: ((Npos (XO (XI (XO (XO (XO (XI XH))))))) :: ((Npos (XI (XO
    (XI (XO (XO (XI XH))))))) :: ((Npos (XI (XI (XI (XI (XI (XO
    XH))))))) :: ((Npos (XI (XO (XI (XO (XI (XI XH))))))) :: ((Npos (XO (XI
    (XI (XI (XO (XI XH))))))) :: ((Npos (XI (XO (XO (XI (XO (XI
    XH))))))) :: ((Npos (XO (XI (XI (XI (XO (XI XH))))))) :: ((Npos (XI (XO
    (XO (XI (XO (XI XH))))))) :: ((Npos (XO (XO (XI (XO (XI (XI
    XH))))))) :: ((Npos (XI (XO (XO (XI (XO (XI XH))))))) :: ((Npos (XI (XO
    (XO (XO (XO (XI XH))))))) :: ((Npos (XO (XO (XI (XI (XO (XI
    XH))))))) :: ((Npos (XI (XO (XO (XI (XO (XI XH))))))) :: ((Npos (XO (XI
    (XO (XI (XI (XI XH))))))) :: ((Npos (XI (XO (XI (XO (XO (XI
    XH))))))) :: ((Npos (XO (XO (XI (XO (XO (XI
    XH))))))) :: [])))))))))))))))))))))))), (VBool false)) :: ((((Npos (XI
    (XI (XI (XO (XI (XI XH))))))) :: ((Npos (XI (XO (XO (XO (XO (XI
    XH))))))) :: ((Npos (XO (XI (XO (XO (XI (XI XH))))))) :: ((Npos (XO (XI
    (XI (XI (XO (XI XH))))))) :: ((Npos (XO (XI (XI (XI (XO
    XH)))))) :: ((Npos (XI (XO (XI (XO (XI (XI XH))))))) :: ((Npos (XO (XI
    (XI (XI (XO (XI XH))))))) :: ((Npos (XI (XO (XI (XO (XI (XI
    XH))))))) :: ((Npos (XI (XI (XO (XO (XI (XI XH))))))) :: ((Npos (XI (XO
    (XI (XO (XO (XI XH))))))) :: ((Npos (XO (XO (XI (XO (XO (XI
    XH))))))) :: []))))))))))), (VBool false)) :: ((((Npos (XI (XI (XI (XO
    (XI (XI XH))))))) :: ((Npos (XI (XO (XO (XO (XO (XI XH))))))) :: ((Npos
    (XO (XI (XO (XO (XI (XI XH))))))) :: ((Npos (XO (XI (XI (XI (XO (XI
    XH))))))) :: ((Npos (XO (XI (XI (XI (XO XH)))))) :: ((Npos (XI (XO (XI
    (XO (XI (XI XH))))))) :: ((Npos (XO (XI (XI (XI (XO (XI
    XH))))))) :: ((Npos (XI (XO (XI (XO (XI (XI XH))))))) :: ((Npos (XI (XI
    (XO (XO (XI (XI XH))))))) :: ((Npos (XI (XO (XI (XO (XO (XI
    XH))))))) :: ((Npos (XO (XO (XI (XO (XO (XI XH))))))) :: ((Npos (XI (XI
    (XI (XI (XI (XO XH))))))) :: ((Npos (XI (XO (XO (XO (XO (XI
    XH))))))) :: ((Npos (XO (XI (XO (XO (XI (XI XH))))))) :: ((Npos (XI (XI
    (XI (XO (XO (XI XH))))))) :: []))))))))))))))), (VBool
    false)) :: ((((Npos (XI (XI (XI (XO (XI (XI XH))))))) :: ((Npos (XI (XO
    (XO (XO (XO (XI XH))))))) :: ((Npos (XO (XI (XO (XO (XI (XI
    XH))))))) :: ((Npos (XO (XI (XI (XI (XO (XI XH))))))) :: ((Npos (XO (XI
    (XI (XI (XO XH)))))) :: ((Npos (XI (XO (XI (XO (XI (XI
    XH))))))) :: ((Npos (XO (XI (XI (XI (XO (XI XH))))))) :: ((Npos (XI (XO
    (XI (XO (XI (XI XH))))))) :: ((Npos (XI (XI (XO (XO (XI (XI
    XH))))))) :: ((Npos (XI (XO (XI (XO (XO (XI XH))))))) :: ((Npos (XO (XO
    (XI (XO (XO (XI XH))))))) :: ((Npos (XI (XI (XI (XI (XI (XO
    XH))))))) :: ((Npos (XO (XI (XO (XO (XI (XI XH))))))) :: ((Npos (XI (XO
    (XI (XO (XO (XI XH))))))) :: ((Npos (XI (XI (XO (XO (XI (XI
    XH))))))) :: ((Npos (XI (XO (XI (XO (XI (XI XH))))))) :: ((Npos (XO (XO
    (XI (XI (XO (XI XH))))))) :: ((Npos (XO (XO (XI (XO (XI (XI
    XH))))))) :: [])))))))))))))))))), (VBool false)) :: ((((Npos (XI (XI (XI
    (XO (XI (XI XH))))))) :: ((Npos (XI (XO (XO (XO (XO (XI
    XH))))))) :: ((Npos (XO (XI (XO (XO (XI (XI XH))))))) :: ((Npos (XO (XI
    (XI (XI (XO (XI XH))))))) :: ((Npos (XO (XI (XI (XI (XO
    XH)))))) :: ((Npos (XI (XO (XI (XI (XO (XI XH))))))) :: ((Npos (XI (XO
    (XI (XO (XI (XI XH))))))) :: ((Npos (XO (XO (XI (XI (XO (XI
    XH))))))) :: ((Npos (XO (XO (XI (XO (XI (XI XH))))))) :: ((Npos (XI (XO
    (XO (XI (XO (XI XH))))))) :: ((Npos (XO (XO (XO (XO (XI (XI
    XH))))))) :: ((Npos (XO (XO (XI (XI (XO (XI XH))))))) :: ((Npos (XI (XO
    (XI (XO (XO (XI XH))))))) :: ((Npos (XI (XI (XI (XI (XI (XO
    XH))))))) :: ((Npos (XO (XO (XI (XO (XO (XI XH))))))) :: ((Npos (XI (XO
    (XI (XO (XO (XI XH))))))) :: ((Npos (XI (XI (XO (XO (XO (XI
    XH))))))) :: ((Npos (XO (XO (XI (XI (XO (XI XH))))))) :: ((Npos (XI (XO
    (XO (XO (XO (XI XH))))))) :: ((Npos (XO (XI (XO (XO (XI (XI
    XH))))))) :: ((Npos (XI (XO (XO (XO (XO (XI XH))))))) :: ((Npos (XO (XO
    (XI (XO (XI (XI XH))))))) :: ((Npos (XI (XI (XI (XI (XO (XI
    XH))))))) :: ((Npos (XO (XI (XO (XO (XI (XI XH))))))) :: ((Npos (XI (XI
    (XO (XO (XI (XI XH))))))) :: []))))))))))))))))))))))))), (VBool
    true)) :: ((((Npos (XI (XI (XI (XO (XI (XI XH))))))) :: ((Npos (XI (XO
    (XO (XO (XO (XI XH))))))) :: ((Npos (XO (XI (XO (XO (XI (XI
    XH))))))) :: ((Npos (XO (XI (XI (XI (XO (XI XH))))))) :: ((Npos (XO (XI
    (XI (XI (XO XH)))))) :: ((Npos (XO (XO (XI (XO (XO (XI
    XH))))))) :: ((Npos (XI (XO (XI (XO (XO (XI XH))))))) :: ((Npos (XO (XO
    (XO (XO (XI (XI XH))))))) :: ((Npos (XO (XI (XO (XO (XI (XI
    XH))))))) :: ((Npos (XI (XO (XI (XO (XO (XI XH))))))) :: ((Npos (XI (XI
    (XO (XO (XO (XI XH))))))) :: ((Npos (XI (XO (XO (XO (XO (XI
    XH))))))) :: ((Npos (XO (XO (XI (XO (XI (XI XH))))))) :: ((Npos (XI (XO
    (XI (XO (XO (XI XH))))))) :: ((Npos (XO (XO (XI (XO (XO (XI
    XH))))))) :: ((Npos (XO (XI (XI (XI (XO XH)))))) :: ((Npos (XO (XO (XI
    (XO (XO (XO XH))))))) :: ((Npos (XI (XO (XI (XO (XO (XO
    XH))))))) :: ((Npos (XO (XI (XI (XO (XO (XO
    XH))))))) :: []))))))))))))))))))), (VBool false)) :: ((((Npos (XI (XI
    (XI (XO (XI (XI XH))))))) :: ((Npos (XI (XO (XO (XO (XO (XI
    XH))))))) :: ((Npos (XO (XI (XO (XO (XI (XI XH))))))) :: ((Npos (XO (XI
    (XI (XI (XO (XI XH))))))) :: ((Npos (XO (XI (XI (XI (XO
    XH)))))) :: ((Npos (XO (XO (XI (XO (XO (XI XH))))))) :: ((Npos (XI (XO
    (XI (XO (XO (XI XH))))))) :: ((Npos (XO (XO (XO (XO (XI (XI
    XH))))))) :: ((Npos (XO (XI (XO (XO (XI (XI XH))))))) :: ((Npos (XI (XO
    (XI (XO (XO (XI XH))))))) :: ((Npos (XI (XI (XO (XO (XO (XI
    XH))))))) :: ((Npos (XI (XO (XO (XO (XO (XI XH))))))) :: ((Npos (XO (XO
    (XI (XO (XI (XI XH))))))) :: ((Npos (XI (XO (XI (XO (XO (XI
    XH))))))) :: ((Npos (XO (XO (XI (XO (XO (XI XH))))))) :: ((Npos (XO (XI
    (XI (XI (XO XH)))))) :: ((Npos (XI (XO (XO (XI (XO (XO
    XH))))))) :: ((Npos (XO (XI (XI (XO (XO (XO
    XH))))))) :: [])))))))))))))))))), (VBool true)) :: ((((Npos (XI (XI (XO
    (XO (XI (XI XH))))))) :: ((Npos (XO (XO (XO (XI (XO (XI
    XH))))))) :: ((Npos (XI (XI (XI (XI (XO (XI XH))))))) :: ((Npos (XI (XI
    (XI (XO (XI (XI XH))))))) :: ((Npos (XI (XI (XI (XI (XI (XO
    XH))))))) :: ((Npos (XO (XO (XO (XO (XI (XI XH))))))) :: ((Npos (XI (XO
    (XI (XO (XO (XI XH))))))) :: ((Npos (XO (XI (XO (XO (XI (XI
    XH))))))) :: ((Npos (XO (XI (XI (XO (XO (XI XH))))))) :: ((Npos (XI (XI
    (XI (XI (XO (XI XH))))))) :: ((Npos (XO (XI (XO (XO (XI (XI
    XH))))))) :: ((Npos (XI (XO (XI (XI (XO (XI XH))))))) :: ((Npos (XI (XO
    (XO (XO (XO (XI XH))))))) :: ((Npos (XO (XI (XI (XI (XO (XI
    XH))))))) :: ((Npos (XI (XI (XO (XO (XO (XI XH))))))) :: ((Npos (XI (XO
    (XI (XO (XO (XI XH))))))) :: ((Npos (XI (XI (XI (XI (XI (XO
    XH))))))) :: ((Npos (XO (XO (XO (XI (XO (XI XH))))))) :: ((Npos (XI (XO
    (XO (XI (XO (XI XH))))))) :: ((Npos (XO (XI (XI (XI (XO (XI
    XH))))))) :: ((Npos (XO (XO (XI (XO (XI (XI XH))))))) :: ((Npos (XI (XI
    (XO (XO (XI (XI XH))))))) :: [])))))))))))))))))))))), (VBool
    true)) :: ((((Npos (XI (XI (XI (XI (XO (XI XH))))))) :: ((Npos (XO (XO
    (XO (XO (XI (XI XH))))))) :: ((Npos (XO (XO (XI (XO (XI (XI
    XH))))))) :: ((Npos (XI (XO (XO (XI (XO (XI XH))))))) :: ((Npos (XI (XO
    (XI (XI (XO (XI XH))))))) :: ((Npos (XI (XO (XO (XI (XO (XI
    XH))))))) :: ((Npos (XO (XI (XO (XI (XI (XI XH))))))) :: ((Npos (XI (XO
    (XI (XO (XO (XI XH))))))) :: ((Npos (XO (XI (XI (XI (XO
    XH)))))) :: ((Npos (XI (XO (XO (XI (XO (XI XH))))))) :: ((Npos (XO (XI
    (XI (XI (XO (XI XH))))))) :: ((Npos (XO (XO (XI (XI (XO (XI
    XH))))))) :: ((Npos (XI (XO (XO (XI (XO (XI XH))))))) :: ((Npos (XO (XI
    (XI (XI (XO (XI XH))))))) :: ((Npos (XI (XO (XI (XO (XO (XI
    XH))))))) :: ((Npos (XI (XI (XI (XI (XI (XO XH))))))) :: ((Npos (XO (XO
    (XI (XO (XO (XI XH))))))) :: ((Npos (XI (XO (XI (XO (XO (XI
    XH))))))) :: ((Npos (XO (XI (XI (XO (XO (XI XH))))))) :: ((Npos (XO (XI
    (XI (XI (XO (XI XH))))))) :: ((Npos (XI (XI (XI (XI (XO (XI
    XH))))))) :: ((Npos (XO (XO (XI (XO (XO (XI XH))))))) :: ((Npos (XI (XO
    (XI (XO (XO (XI XH))))))) :: ((Npos (XI (XI (XI (XI (XI (XO
    XH))))))) :: ((Npos (XI (XI (XO (XO (XO (XI XH))))))) :: ((Npos (XI (XO
    (XO (XO (XO (XI XH))))))) :: ((Npos (XO (XO (XI (XI (XO (XI
    XH))))))) :: ((Npos (XO (XO (XI (XI (XO (XI XH))))))) :: ((Npos (XI (XI
    (XO (XO (XI (XI XH))))))) :: []))))))))))))))))))))))))))))), (VBool
    true)) :: ((((Npos (XI (XI (XI (XI (XO (XI XH))))))) :: ((Npos (XO (XO
    (XO (XO (XI (XI XH))))))) :: ((Npos (XO (XO (XI (XO (XI (XI
    XH))))))) :: ((Npos (XI (XO (XO (XI (XO (XI XH))))))) :: ((Npos (XI (XO
    (XI (XI (XO (XI XH))))))) :: ((Npos (XI (XO (XO (XI (XO (XI
    XH))))))) :: ((Npos (XO (XI (XO (XI (XI (XI XH))))))) :: ((Npos (XI (XO
    (XI (XO (XO (XI XH))))))) :: ((Npos (XO (XI (XI (XI (XO
    XH)))))) :: ((Npos (XI (XO (XI (XO (XI (XI XH))))))) :: ((Npos (XO (XI
    (XI (XI (XO (XI XH))))))) :: ((Npos (XO (XO (XO (XO (XI (XI
    XH))))))) :: ((Npos (XI (XO (XO (XO (XO (XI XH))))))) :: ((Npos (XI (XI
    (XO (XO (XO (XI XH))))))) :: ((Npos (XI (XI (XO (XI (XO (XI
    XH))))))) :: ((Npos (XI (XI (XI (XI (XI (XO XH))))))) :: ((Npos (XI (XO
    (XI (XI (XO (XI XH))))))) :: ((Npos (XI (XO (XI (XO (XO (XI
    XH))))))) :: ((Npos (XO (XO (XI (XO (XI (XI XH))))))) :: ((Npos (XO (XO
    (XO (XI (XO (XI XH))))))) :: ((Npos (XI (XI (XI (XI (XO (XI
    XH))))))) :: ((Npos (XO (XO (XI (XO (XO (XI XH))))))) :: ((Npos (XI (XI
    (XI (XI (XI (XO XH))))))) :: ((Npos (XI (XI (XO (XO (XO (XI
    XH))))))) :: ((Npos (XI (XO (XO (XO (XO (XI XH))))))) :: ((Npos (XO (XO
    (XI (XI (XO (XI XH))))))) :: ((Npos (XO (XO (XI (XI (XO (XI
    XH))))))) :: ((Npos (XI (XI (XO (XO (XI (XI
    XH))))))) :: [])))))))))))))))))))))))))))), (VBool true)) :: ((((Npos
    (XI (XI (XI (XI (XO (XI XH))))))) :: ((Npos (XO (XO (XO (XO (XI (XI
    XH))))))) :: ((Npos (XO (XO (XI (XO (XI (XI XH))))))) :: ((Npos (XI (XO
    (XO (XI (XO (XI XH))))))) :: ((Npos (XI (XO (XI (XI (XO (XI
    XH))))))) :: ((Npos (XI (XO (XO (XI (XO (XI XH))))))) :: ((Npos (XO (XI
    (XO (XI (XI (XI XH))))))) :: ((Npos (XI (XO (XI (XO (XO (XI
    XH))))))) :: ((Npos (XO (XI (XI (XI (XO XH)))))) :: ((Npos (XI (XO (XI
    (XO (XI (XI XH))))))) :: ((Npos (XO (XI (XI (XI (XO (XI
    XH))))))) :: ((Npos (XO (XO (XO (XO (XI (XI XH))))))) :: ((Npos (XI (XO
    (XO (XO (XO (XI XH))))))) :: ((Npos (XI (XI (XO (XO (XO (XI
    XH))))))) :: ((Npos (XI (XI (XO (XI (XO (XI XH))))))) :: ((Npos (XI (XI
    (XI (XI (XI (XO XH))))))) :: ((Npos (XI (XO (XI (XI (XO (XI
    XH))))))) :: ((Npos (XI (XO (XI (XO (XO (XI XH))))))) :: ((Npos (XO (XO
    (XI (XO (XI (XI XH))))))) :: ((Npos (XO (XO (XO (XI (XO (XI
    XH))))))) :: ((Npos (XI (XI (XI (XI (XO (XI XH))))))) :: ((Npos (XO (XO
    (XI (XO (XO (XI XH))))))) :: ((Npos (XI (XI (XI (XI (XI (XO
    XH))))))) :: ((Npos (XI (XI (XO (XO (XO (XI XH))))))) :: ((Npos (XI (XO
    (XO (XO (XO (XI XH))))))) :: ((Npos (XO (XO (XI (XI (XO (XI
    XH))))))) :: ((Npos (XO (XO (XI (XI (XO (XI XH))))))) :: ((Npos (XI (XI
    (XO (XO (XI (XI XH))))))) :: ((Npos (XI (XI (XI (XI (XI (XO
    XH))))))) :: ((Npos (XI (XO (XO (XI (XO (XI XH))))))) :: ((Npos (XO (XI
    (XI (XI (XO (XI XH))))))) :: ((Npos (XI (XI (XI (XI (XI (XO
    XH))))))) :: ((Npos (XO (XO (XO (XO (XI (XI XH))))))) :: ((Npos (XI (XO
    (XO (XI (XI (XI XH))))))) :: ((Npos (XI (XO (XO (XI (XO (XI
    XH))))))) :: ((Npos (XO (XI (XI (XI (XO (XI XH))))))) :: ((Npos (XI (XO
    (XO (XI (XO (XI XH))))))) :: ((Npos (XO (XO (XI (XO (XI (XI
    XH))))))) :: [])))))))))))))))))))))))))))))))))))))), (VBool
    false)) :: ((((Npos (XI (XI (XI (XI (XO (XI XH))))))) :: ((Npos (XO (XO
    (XO (XO (XI (XI XH))))))) :: ((Npos (XO (XO (XI (XO (XI (XI
    XH))))))) :: ((Npos (XI (XO (XO (XI (XO (XI XH))))))) :: ((Npos (XI (XO
    (XI (XI (XO (XI XH))))))) :: ((Npos (XI (XO (XO (XI (XO (XI
    XH))))))) :: ((Npos (XO (XI (XO (XI (XI (XI XH))))))) :: ((Npos (XI (XO
    (XI (XO (XO (XI XH))))))) :: ((Npos (XO (XI (XI (XI (XO
    XH)))))) :: ((Npos (XI (XO (XI (XO (XI (XI XH))))))) :: ((Npos (XI (XI
    (XO (XO (XI (XI XH))))))) :: ((Npos (XI (XO (XI (XO (XO (XI
    XH))))))) :: ((Npos (XI (XI (XI (XI (XI (XO XH))))))) :: ((Npos (XI (XI
    (XO (XO (XI (XI XH))))))) :: ((Npos (XI (XI (XI (XO (XI (XI
    XH))))))) :: ((Npos (XI (XO (XO (XI (XO (XI XH))))))) :: ((Npos (XO (XO
    (XI (XO (XI (XI XH))))))) :: ((Npos (XI (XI (XO (XO (XO (XI
    XH))))))) :: ((Npos (XO (XO (XO (XI (XO (XI
    XH))))))) :: []))))))))))))))))))), (VBool true)) :: ((((Npos (XO (XI (XO
    (XO (XI (XI XH))))))) :: ((Npos (XI (XO (XI (XO (XO (XI
    XH))))))) :: ((Npos (XI (XO (XI (XI (XO (XI XH))))))) :: ((Npos (XI (XI
    (XI (XI (XO (XI XH))))))) :: ((Npos (XO (XI (XI (XO (XI (XI
    XH))))))) :: ((Npos (XI (XO (XI (XO (XO (XI XH))))))) :: ((Npos (XI (XI
    (XI (XI (XI (XO XH))))))) :: ((Npos (XI (XO (XI (XO (XI (XI
    XH))))))) :: ((Npos (XO (XI (XI (XI (XO (XI XH))))))) :: ((Npos (XO (XI
    (XO (XO (XI (XI XH))))))) :: ((Npos (XI (XO (XI (XO (XO (XI
    XH))))))) :: ((Npos (XI (XO (XO (XO (XO (XI XH))))))) :: ((Npos (XI (XI
    (XO (XO (XO (XI XH))))))) :: ((Npos (XO (XO (XO (XI (XO (XI
    XH))))))) :: ((Npos (XI (XO (XO (XO (XO (XI XH))))))) :: ((Npos (XO (XI
    (XO (XO (XO (XI XH))))))) :: ((Npos (XO (XO (XI (XI (XO (XI
    XH))))))) :: ((Npos (XI (XO (XI (XO (XO (XI
    XH))))))) :: [])))))))))))))))))), (VBool true)) :: ((((Npos (XI (XI (XO
    (XO (XO (XI XH))))))) :: ((Npos (XI (XI (XI (XI (XO (XI
    XH))))))) :: ((Npos (XO (XI (XI (XI (XO (XI XH))))))) :: ((Npos (XO (XO
    (XI (XO (XI (XI XH))))))) :: ((Npos (XO (XI (XO (XO (XI (XI
    XH))))))) :: ((Npos (XI (XI (XI (XI (XO (XI XH))))))) :: ((Npos (XO (XO
    (XI (XI (XO (XI XH))))))) :: ((Npos (XI (XI (XI (XI (XI (XO
    XH))))))) :: ((Npos (XO (XI (XI (XO (XO (XI XH))))))) :: ((Npos (XO (XO
    (XI (XI (XO (XI XH))))))) :: ((Npos (XI (XI (XI (XI (XO (XI
    XH))))))) :: ((Npos (XI (XI (XI (XO (XI (XI XH))))))) :: ((Npos (XO (XI
    (XI (XI (XO XH)))))) :: ((Npos (XO (XO (XI (XO (XO (XI
    XH))))))) :: ((Npos (XI (XI (XI (XI (XO (XI XH))))))) :: ((Npos (XO (XO
    (XI (XO (XI (XI XH))))))) :: ((Npos (XI (XI (XI (XI (XI (XO
    XH))))))) :: ((Npos (XI (XI (XI (XI (XO (XI XH))))))) :: ((Npos (XI (XO
    (XI (XO (XI (XI XH))))))) :: ((Npos (XO (XO (XI (XO (XI (XI
    XH))))))) :: ((Npos (XO (XO (XO (XO (XI (XI XH))))))) :: ((Npos (XI (XO
    (XI (XO (XI (XI XH))))))) :: ((Npos (XO (XO (XI (XO (XI (XI
    XH))))))) :: []))))))))))))))))))))))), (VStr [])) :: ((((Npos (XI (XI
    (XO (XO (XO (XI XH))))))) :: ((Npos (XI (XI (XI (XI (XO (XI
    XH))))))) :: ((Npos (XO (XI (XI (XI (XO (XI XH))))))) :: ((Npos (XO (XO
    (XI (XO (XI (XI XH))))))) :: ((Npos (XO (XI (XO (XO (XI (XI
    XH))))))) :: ((Npos (XI (XI (XI (XI (XO (XI XH))))))) :: ((Npos (XO (XO
    (XI (XI (XO (XI XH))))))) :: ((Npos (XI (XI (XI (XI (XI (XO
    XH))))))) :: ((Npos (XO (XI (XI (XO (XO (XI XH))))))) :: ((Npos (XO (XO
    (XI (XI (XO (XI XH))))))) :: ((Npos (XI (XI (XI (XI (XO (XI
    XH))))))) :: ((Npos (XI (XI (XI (XO (XI (XI XH))))))) :: ((Npos (XO (XI
    (XI (XI (XO XH)))))) :: ((Npos (XO (XO (XI (XO (XO (XI
    XH))))))) :: ((Npos (XI (XI (XI (XI (XO (XI XH))))))) :: ((Npos (XO (XO
    (XI (XO (XI (XI XH))))))) :: ((Npos (XI (XI (XI (XI (XI (XO
    XH))))))) :: ((Npos (XI (XO (XO (XO (XO (XI XH))))))) :: ((Npos (XO (XI
    (XI (XI (XO (XI XH))))))) :: ((Npos (XO (XI (XI (XI (XO (XI
    XH))))))) :: ((Npos (XI (XI (XI (XI (XO (XI XH))))))) :: ((Npos (XO (XO
    (XI (XO (XI (XI XH))))))) :: ((Npos (XI (XO (XO (XO (XO (XI
    XH))))))) :: ((Npos (XO (XO (XI (XO (XI (XI XH))))))) :: ((Npos (XI (XO
    (XI (XO (XO (XI XH))))))) :: ((Npos (XI (XI (XI (XI (XI (XO
    XH))))))) :: ((Npos (XO (XO (XI (XO (XO (XI XH))))))) :: ((Npos (XI (XO
    (XI (XO (XO (XI XH))))))) :: ((Npos (XO (XI (XI (XO (XO (XI
    XH))))))) :: ((Npos (XI (XI (XO (XO (XI (XI
    XH))))))) :: [])))))))))))))))))))))))))))))), (VBool false)) :: ((((Npos
    (XO (XO (XI (XO (XI (XI XH))))))) :: ((Npos (XI (XO (XI (XO (XO (XI
    XH))))))) :: ((Npos (XI (XI (XO (XO (XI (XI XH))))))) :: ((Npos (XO (XO
    (XI (XO (XI (XI XH))))))) :: ((Npos (XI (XI (XI (XI (XI (XO
    XH))))))) :: ((Npos (XI (XO (XO (XO (XO (XI XH))))))) :: ((Npos (XI (XI
    (XO (XO (XI (XI XH))))))) :: ((Npos (XI (XI (XO (XO (XI (XI
    XH))))))) :: ((Npos (XI (XO (XI (XO (XO (XI XH))))))) :: ((Npos (XO (XI
    (XO (XO (XI (XI XH))))))) :: ((Npos (XO (XO (XI (XO (XI (XI
    XH))))))) :: ((Npos (XI (XI (XI (XI (XI (XO XH))))))) :: ((Npos (XO (XO
    (XO (XO (XI (XI XH))))))) :: ((Npos (XI (XO (XO (XO (XO (XI
    XH))))))) :: ((Npos (XO (XO (XI (XO (XI (XI XH))))))) :: ((Npos (XO (XO
    (XO (XI (XO (XI XH))))))) :: ((Npos (XI (XI (XI (XI (XI (XO
    XH))))))) :: ((Npos (XI (XO (XI (XO (XO (XI XH))))))) :: ((Npos (XO (XO
    (XO (XI (XI (XI XH))))))) :: ((Npos (XI (XO (XO (XI (XO (XI
    XH))))))) :: ((Npos (XI (XI (XO (XO (XI (XI XH))))))) :: ((Npos (XO (XO
    (XI (XO (XI (XI XH))))))) :: ((Npos (XI (XI (XO (XO (XI (XI
    XH))))))) :: []))))))))))))))))))))))), (VList [])) :: ((((Npos (XO (XO
    (XI (XO (XI (XI XH))))))) :: ((Npos (XI (XO (XI (XO (XO (XI
    XH))))))) :: ((Npos (XI (XI (XO (XO (XI (XI XH))))))) :: ((Npos (XO (XO
    (XI (XO (XI (XI XH))))))) :: ((Npos (XI (XI (XI (XI (XI (XO
    XH))))))) :: ((Npos (XO (XI (XI (XO (XO (XI XH))))))) :: ((Npos (XI (XO
    (XO (XO (XO (XI XH))))))) :: ((Npos (XI (XO (XO (XI (XO (XI
    XH))))))) :: ((Npos (XO (XO (XI (XI (XO (XI XH))))))) :: ((Npos (XI (XI
    (XI (XI (XI (XO XH))))))) :: ((Npos (XI (XO (XO (XI (XO (XI
    XH))))))) :: ((Npos (XO (XI (XI (XO (XO (XI XH))))))) :: ((Npos (XI (XI
    (XI (XI (XI (XO XH))))))) :: ((Npos (XO (XO (XO (XO (XI (XI
    XH))))))) :: ((Npos (XI (XO (XO (XO (XO (XI XH))))))) :: ((Npos (XO (XO
    (XI (XO (XI (XI XH))))))) :: ((Npos (XO (XO (XO (XI (XO (XI
    XH))))))) :: ((Npos (XI (XI (XI (XI (XI (XO XH))))))) :: ((Npos (XI (XO
    (XI (XO (XO (XI XH))))))) :: ((Npos (XO (XO (XO (XI (XI (XI
    XH))))))) :: ((Npos (XI (XO (XO (XI (XO (XI XH))))))) :: ((Npos (XI (XI
    (XO (XO (XI (XI XH))))))) :: ((Npos (XO (XO (XI (XO (XI (XI
    XH))))))) :: ((Npos (XI (XI (XO (XO (XI (XI
    XH))))))) :: [])))))))))))))))))))))))), (VList [])) :: ((((Npos (XO (XO
    (XI (XO (XI (XI XH))))))) :: ((Npos (XI (XO (XI (XO (XO (XI
    XH))))))) :: ((Npos (XI (XI (XO (XO (XI (XI XH))))))) :: ((Npos (XO (XO
    (XI (XO (XI (XI XH))))))) :: ((Npos (XI (XI (XI (XI (XI (XO
    XH))))))) :: ((Npos (XO (XI (XO (XO (XO (XI XH))))))) :: ((Npos (XI (XI
    (XI (XI (XO (XI XH))))))) :: ((Npos (XO (XO (XI (XO (XO (XI
    XH))))))) :: ((Npos (XI (XO (XO (XI (XI (XI XH))))))) :: ((Npos (XI (XI
    (XI (XI (XI (XO XH))))))) :: ((Npos (XO (XI (XI (XI (XO (XI
    XH))))))) :: ((Npos (XI (XO (XI (XO (XO (XI XH))))))) :: ((Npos (XI (XO
    (XI (XO (XO (XI XH))))))) :: ((Npos (XO (XO (XI (XO (XO (XI
    XH))))))) :: ((Npos (XI (XI (XO (XO (XI (XI XH))))))) :: ((Npos (XI (XI
    (XI (XI (XI (XO XH))))))) :: ((Npos (XI (XO (XI (XO (XO (XI
    XH))))))) :: ((Npos (XO (XO (XO (XI (XI (XI XH))))))) :: ((Npos (XI (XI
    (XO (XO (XO (XI XH))))))) :: ((Npos (XI (XO (XI (XO (XO (XI
    XH))))))) :: ((Npos (XO (XO (XO (XO (XI (XI XH))))))) :: ((Npos (XO (XO
    (XI (XO (XI (XI XH))))))) :: ((Npos (XI (XO (XO (XI (XO (XI
    XH))))))) :: ((Npos (XI (XI (XI (XI (XO (XI XH))))))) :: ((Npos (XO (XI
    (XI (XI (XO (XI XH))))))) :: ((Npos (XI (XI (XI (XI (XI (XO
    XH))))))) :: ((Npos (XO (XO (XO (XI (XO (XI XH))))))) :: ((Npos (XI (XO
    (XO (XO (XO (XI XH))))))) :: ((Npos (XO (XI (XI (XI (XO (XI
    XH))))))) :: ((Npos (XO (XO (XI (XO (XO (XI XH))))))) :: ((Npos (XO (XO
    (XI (XI (XO (XI XH))))))) :: ((Npos (XI (XO (XO (XI (XO (XI
    XH))))))) :: ((Npos (XO (XI (XI (XI (XO (XI XH))))))) :: ((Npos (XI (XI
    (XI (XO (XO (XI XH))))))) :: [])))))))))))))))))))))))))))))))))),
    VNone) :: ((((Npos (XO (XO (XI (XO (XI (XI XH))))))) :: ((Npos (XI (XO
    (XI (XO (XO (XI XH))))))) :: ((Npos (XI (XI (XO (XO (XI (XI
    XH))))))) :: ((Npos (XO (XO (XI (XO (XI (XI XH))))))) :: ((Npos (XI (XI
    (XI (XI (XI (XO XH))))))) :: ((Npos (XI (XO (XO (XO (XO (XI
    XH))))))) :: ((Npos (XI (XI (XO (XO (XI (XI XH))))))) :: ((Npos (XI (XI
    (XO (XO (XI (XI XH))))))) :: ((Npos (XI (XO (XI (XO (XO (XI
    XH))))))) :: ((Npos (XO (XI (XO (XO (XI (XI XH))))))) :: ((Npos (XO (XO
    (XI (XO (XI (XI XH))))))) :: ((Npos (XI (XI (XI (XI (XI (XO
    XH))))))) :: ((Npos (XI (XI (XO (XO (XO (XI XH))))))) :: ((Npos (XI (XI
    (XI (XI (XI (XO XH))))))) :: ((Npos (XI (XI (XO (XO (XO (XI
    XH))))))) :: ((Npos (XI (XI (XI (XI (XO (XI XH))))))) :: ((Npos (XO (XO
    (XI (XO (XO (XI XH))))))) :: ((Npos (XI (XO (XI (XO (XO (XI
    XH))))))) :: ((Npos (XI (XI (XI (XI (XI (XO XH))))))) :: ((Npos (XO (XO
    (XO (XI (XO (XI XH))))))) :: ((Npos (XI (XO (XO (XO (XO (XI
    XH))))))) :: ((Npos (XI (XI (XO (XO (XI (XI
    XH))))))) :: [])))))))))))))))))))))), (VList [])) :: ((((Npos (XO (XO
    (XI (XO (XI (XI XH))))))) :: ((Npos (XI (XO (XI (XO (XO (XI
    XH))))))) :: ((Npos (XI (XI (XO (XO (XI (XI XH))))))) :: ((Npos (XO (XO
    (XI (XO (XI (XI XH))))))) :: ((Npos (XI (XI (XI (XI (XI (XO
    XH))))))) :: ((Npos (XO (XI (XI (XO (XO (XI XH))))))) :: ((Npos (XI (XO
    (XO (XO (XO (XI XH))))))) :: ((Npos (XI (XO (XO (XI (XO (XI
    XH))))))) :: ((Npos (XO (XO (XI (XI (XO (XI XH))))))) :: ((Npos (XI (XI
    (XI (XI (XI (XO XH))))))) :: ((Npos (XI (XO (XO (XI (XO (XI
    XH))))))) :: ((Npos (XO (XI (XI (XO (XO (XI XH))))))) :: ((Npos (XI (XI
    (XI (XI (XI (XO XH))))))) :: ((Npos (XI (XI (XO (XO (XO (XI
    XH))))))) :: ((Npos (XI (XI (XI (XI (XI (XO XH))))))) :: ((Npos (XI (XI
    (XO (XO (XO (XI XH))))))) :: ((Npos (XI (XI (XI (XI (XO (XI
    XH))))))) :: ((Npos (XO (XO (XI (XO (XO (XI XH))))))) :: ((Npos (XI (XO
    (XI (XO (XO (XI XH))))))) :: ((Npos (XI (XI (XI (XI (XI (XO
    XH))))))) :: ((Npos (XO (XO (XO (XI (XO (XI XH))))))) :: ((Npos (XI (XO
    (XO (XO (XO (XI XH))))))) :: ((Npos (XI (XI (XO (XO (XI (XI
    XH))))))) :: []))))))))))))))))))))))), (VList [])) :: ((((Npos (XO (XI
    (XI (XO (XO (XI XH))))))) :: ((Npos (XI (XI (XI (XI (XO (XI
    XH))))))) :: ((Npos (XO (XI (XO (XO (XI (XI XH))))))) :: ((Npos (XI (XO
    (XI (XI (XO (XI XH))))))) :: ((Npos (XI (XO (XO (XO (XO (XI
    XH))))))) :: ((Npos (XO (XO (XI (XI (XO (XI XH))))))) :: ((Npos (XI (XI
    (XI (XI (XI (XO XH))))))) :: ((Npos (XI (XI (XI (XO (XO (XI
    XH))))))) :: ((Npos (XO (XI (XO (XO (XI (XI XH))))))) :: ((Npos (XI (XO
    (XO (XO (XO (XI XH))))))) :: ((Npos (XI (XO (XI (XI (XO (XI
    XH))))))) :: ((Npos (XI (XO (XI (XI (XO (XI XH))))))) :: ((Npos (XI (XO
    (XO (XO (XO (XI XH))))))) :: ((Npos (XO (XI (XO (XO (XI (XI
    XH))))))) :: [])))))))))))))), (VBool
    false)) :: []))))))))))))))))))))))))))))))))))))))))))))))))))))))))))))))))))))))))

(** val g_types : (str * dtype) list **)

let g_types =
  (((Npos (XO (XO (XI (XI (XO (XI XH))))))) :: ((Npos (XI (XO (XO (XO (XO (XI
    XH))))))) :: ((Npos (XO (XI (XI (XI (XO (XI XH))))))) :: ((Npos (XI (XI
    (XI (XO (XO (XI XH))))))) :: ((Npos (XI (XO (XI (XO (XI (XI
    XH))))))) :: ((Npos (XI (XO (XO (XO (XO (XI XH))))))) :: ((Npos (XI (XI
    (XI (XO (XO (XI XH))))))) :: ((Npos (XI (XO (XI (XO (XO (XI
    XH))))))) :: ((Npos (XI (XI (XI (XI (XI (XO XH))))))) :: ((Npos (XO (XO
    (XI (XI (XO (XI XH))))))) :: ((Npos (XI (XO (XI (XO (XO (XI
    XH))))))) :: ((Npos (XO (XI (XI (XO (XI (XI XH))))))) :: ((Npos (XI (XO
    (XI (XO (XO (XI XH))))))) :: ((Npos (XO (XO (XI (XI (XO (XI
    XH))))))) :: [])))))))))))))), TStr) :: ((((Npos (XI (XO (XO (XO (XO (XI
    XH))))))) :: ((Npos (XI (XO (XI (XO (XI (XI XH))))))) :: ((Npos (XO (XO
    (XI (XO (XI (XI XH))))))) :: ((Npos (XI (XI (XI (XI (XO (XI
    XH))))))) :: ((Npos (XI (XI (XI (XI (XI (XO XH))))))) :: ((Npos (XO (XO
    (XO (XO (XI (XI XH))))))) :: ((Npos (XI (XO (XO (XI (XO (XI
    XH))))))) :: ((Npos (XI (XI (XO (XO (XO (XI XH))))))) :: ((Npos (XI (XI
    (XO (XI (XO (XI XH))))))) :: ((Npos (XO (XO (XI (XI (XO (XI
    XH))))))) :: ((Npos (XI (XO (XI (XO (XO (XI XH))))))) :: []))))))))))),
    TBool) :: ((((Npos (XO (XO (XI (XI (XO (XI XH))))))) :: ((Npos (XI (XI
    (XI (XI (XO (XI XH))))))) :: ((Npos (XI (XI (XO (XO (XO (XI
    XH))))))) :: ((Npos (XI (XO (XO (XO (XO (XI XH))))))) :: ((Npos (XO (XO
    (XI (XI (XO (XI XH))))))) :: ((Npos (XI (XI (XO (XO (XI (XI
    XH))))))) :: [])))))), TCallCrash) :: ((((Npos (XO (XI (XI (XO (XO (XI
    XH))))))) :: ((Npos (XI (XO (XO (XI (XO (XI XH))))))) :: ((Npos (XO (XI
    (XI (XI (XO (XI XH))))))) :: ((Npos (XI (XO (XO (XO (XO (XI
    XH))))))) :: ((Npos (XO (XO (XI (XI (XO (XI XH))))))) :: []))))),
    TBool) :: ((((Npos (XI (XI (XO (XO (XO (XI XH))))))) :: ((Npos (XI (XI
    (XI (XI (XO (XI XH))))))) :: ((Npos (XO (XO (XI (XI (XO (XI
    XH))))))) :: ((Npos (XO (XO (XI (XI (XO (XI XH))))))) :: ((Npos (XI (XO
    (XI (XO (XO (XI XH))))))) :: ((Npos (XI (XI (XO (XO (XO (XI
    XH))))))) :: ((Npos (XO (XO (XI (XO (XI (XI XH))))))) :: ((Npos (XI (XO
    (XO (XI (XO (XI XH))))))) :: ((Npos (XI (XI (XI (XI (XO (XI
    XH))))))) :: ((Npos (XO (XI (XI (XI (XO (XI XH))))))) :: ((Npos (XI (XI
    (XI (XI (XI (XO XH))))))) :: ((Npos (XO (XO (XI (XO (XI (XI
    XH))))))) :: ((Npos (XI (XO (XO (XI (XI (XI XH))))))) :: ((Npos (XO (XO
    (XO (XO (XI (XI XH))))))) :: ((Npos (XI (XO (XI (XO (XO (XI
    XH))))))) :: []))))))))))))))), (TEnum ((((Npos (XI (XI (XO (XO (XI (XI
    XH))))))) :: ((Npos (XI (XO (XI (XO (XO (XI XH))))))) :: ((Npos (XI (XO
    (XO (XO (XI (XI XH))))))) :: ((Npos (XI (XO (XI (XO (XI (XI
    XH))))))) :: ((Npos (XI (XO (XI (XO (XO (XI XH))))))) :: ((Npos (XO (XI
    (XI (XI (XO (XI XH))))))) :: ((Npos (XI (XI (XO (XO (XO (XI
    XH))))))) :: ((Npos (XI (XO (XI (XO (XO (XI
    XH))))))) :: [])))))))) :: (((Npos (XI (XO (XI (XI (XO (XI
    XH))))))) :: ((Npos (XI (XO (XO (XO (XO (XI XH))))))) :: ((Npos (XO (XO
    (XO (XO (XI (XI XH))))))) :: ((Npos (XO (XO (XO (XO (XI (XI
    XH))))))) :: ((Npos (XI (XO (XO (XI (XO (XI XH))))))) :: ((Npos (XO (XI
    (XI (XI (XO (XI XH))))))) :: ((Npos (XI (XI (XI (XO (XO (XI
    XH))))))) :: []))))))) :: [])), []))) :: ((((Npos (XO (XI (XI (XI (XO (XI
    XH))))))) :: ((Npos (XI (XI (XI (XI (XO (XI XH))))))) :: ((Npos (XI (XI
    (XI (XO (XO (XI XH))))))) :: ((Npos (XI (XO (XO (XI (XO (XI
    XH))))))) :: ((Npos (XO (XO (XI (XI (XO (XI XH))))))) :: []))))),
    TDefer) :: ((((Npos (XI (XI (XI (XO (XO (XI XH))))))) :: ((Npos (XI (XO
    (XO (XI (XO (XI XH))))))) :: ((Npos (XO (XO (XI (XI (XO (XI
    XH))))))) :: []))), TDefer) :: ((((Npos (XI (XI (XO (XO (XO (XI
    XH))))))) :: ((Npos (XO (XI (XO (XO (XI (XI XH))))))) :: ((Npos (XI (XO
    (XO (XI (XO (XI XH))))))) :: ((Npos (XO (XO (XI (XO (XI (XI
    XH))))))) :: ((Npos (XI (XO (XO (XI (XO (XI XH))))))) :: ((Npos (XI (XI
    (XO (XO (XO (XI XH))))))) :: ((Npos (XI (XO (XO (XO (XO (XI
    XH))))))) :: ((Npos (XO (XO (XI (XI (XO (XI XH))))))) :: ((Npos (XI (XI
    (XI (XI (XI (XO XH))))))) :: ((Npos (XI (XI (XO (XO (XI (XI
    XH))))))) :: ((Npos (XI (XO (XI (XO (XO (XI XH))))))) :: ((Npos (XI (XI
    (XO (XO (XO (XI XH))))))) :: ((Npos (XO (XO (XI (XO (XI (XI
    XH))))))) :: ((Npos (XI (XO (XO (XI (XO (XI XH))))))) :: ((Npos (XI (XI
    (XI (XI (XO (XI XH))))))) :: ((Npos (XO (XI (XI (XI (XO (XI
    XH))))))) :: [])))))))))))))))), TDefer) :: ((((Npos (XI (XI (XI (XO (XI
    (XI XH))))))) :: ((Npos (XI (XO (XO (XI (XO (XI XH))))))) :: ((Npos (XO
    (XO (XI (XO (XI (XI XH))))))) :: ((Npos (XO (XO (XO (XI (XO (XI
    XH))))))) :: ((Npos (XI (XI (XI (XI (XI (XO XH))))))) :: ((Npos (XI (XI
    (XI (XO (XO (XI XH))))))) :: ((Npos (XI (XO (XO (XI (XO (XI
    XH))))))) :: ((Npos (XO (XO (XI (XI (XO (XI XH))))))) :: [])))))))),
    TNoValue) :: ((((Npos (XI (XO (XO (XI (XO (XI XH))))))) :: ((Npos (XO (XI
    (XI (XI (XO (XI XH))))))) :: ((Npos (XO (XO (XI (XO (XI (XI
    XH))))))) :: ((Npos (XI (XO (XI (XO (XO (XI XH))))))) :: ((Npos (XO (XI
    (XO (XO (XI (XI XH))))))) :: ((Npos (XO (XI (XI (XI (XO (XI
    XH))))))) :: ((Npos (XI (XO (XO (XO (XO (XI XH))))))) :: ((Npos (XO (XO
    (XI (XI (XO (XI XH))))))) :: [])))))))), TBool) :: ((((Npos (XI (XO (XO
    (XI (XO (XI XH))))))) :: ((Npos (XO (XI (XI (XI (XO (XI
    XH))))))) :: ((Npos (XO (XI (XI (XO (XO (XI XH))))))) :: ((Npos (XI (XO
    (XI (XO (XO (XI XH))))))) :: ((Npos (XO (XI (XO (XO (XI (XI
    XH))))))) :: ((Npos (XI (XI (XI (XI (XI (XO XH))))))) :: ((Npos (XO (XO
    (XI (XO (XI (XI XH))))))) :: ((Npos (XI (XO (XO (XI (XI (XI
    XH))))))) :: ((Npos (XO (XO (XO (XO (XI (XI XH))))))) :: ((Npos (XI (XO
    (XI (XO (XO (XI XH))))))) :: ((Npos (XI (XI (XO (XO (XI (XI
    XH))))))) :: []))))))))))), TBool) :: ((((Npos (XO (XI (XO (XO (XO (XI
    XH))))))) :: ((Npos (XI (XO (XO (XI (XO (XI XH))))))) :: ((Npos (XO (XI
    (XI (XI (XO (XI XH))))))) :: ((Npos (XO (XO (XI (XO (XO (XI
    XH))))))) :: ((Npos (XI (XO (XO (XI (XO (XI XH))))))) :: ((Npos (XO (XI
    (XI (XI (XO (XI XH))))))) :: ((Npos (XI (XI (XI (XO (XO (XI
    XH))))))) :: []))))))), TBool) :: ((((Npos (XI (XI (XO (XO (XO (XI
    XH))))))) :: ((Npos (XO (XI (XI (XO (XO (XI XH))))))) :: ((Npos (XI (XO
    (XI (XO (XI (XI XH))))))) :: ((Npos (XO (XI (XI (XI (XO (XI
    XH))))))) :: ((Npos (XI (XI (XO (XO (XO (XI XH))))))) :: []))))),
    TNoValue) :: ((((Npos (XI (XI (XO (XO (XO (XI XH))))))) :: ((Npos (XI (XI
    (XO (XO (XO (XI XH))))))) :: ((Npos (XI (XO (XO (XO (XO (XI
    XH))))))) :: ((Npos (XO (XO (XI (XI (XO (XI XH))))))) :: ((Npos (XO (XO
    (XI (XI (XO (XI XH))))))) :: []))))), TNoValue) :: ((((Npos (XI (XO (XI
    (XO (XI (XI XH))))))) :: ((Npos (XO (XI (XI (XO (XO (XI
    XH))))))) :: ((Npos (XI (XO (XI (XO (XI (XI XH))))))) :: ((Npos (XO (XI
    (XI (XI (XO (XI XH))))))) :: ((Npos (XI (XI (XO (XO (XO (XI
    XH))))))) :: []))))), TNoValue) :: ((((Npos (XI (XI (XO (XO (XO (XI
    XH))))))) :: ((Npos (XO (XO (XO (XO (XI (XI XH))))))) :: ((Npos (XI (XI
    (XI (XI (XO (XI XH))))))) :: ((Npos (XI (XI (XI (XO (XI (XI
    XH))))))) :: [])))), TBool) :: ((((Npos (XI (XO (XO (XI (XO (XI
    XH))))))) :: ((Npos (XO (XI (XI (XI (XO (XI XH))))))) :: ((Npos (XO (XO
    (XI (XI (XO (XI XH))))))) :: ((Npos (XI (XO (XO (XI (XO (XI
    XH))))))) :: ((Npos (XO (XI (XI (XI (XO (XI XH))))))) :: ((Npos (XI (XO
    (XI (XO (XO (XI XH))))))) :: [])))))), TNoValue) :: ((((Npos (XI (XI (XO
    (XO (XI (XI XH))))))) :: ((Npos (XO (XO (XI (XO (XI (XI
    XH))))))) :: ((Npos (XI (XO (XO (XO (XO (XI XH))))))) :: ((Npos (XO (XO
    (XI (XO (XI (XI XH))))))) :: ((Npos (XI (XO (XO (XI (XO (XI
    XH))))))) :: ((Npos (XI (XI (XO (XO (XO (XI XH))))))) :: ((Npos (XI (XO
    (XI (XI (XO (XI XH))))))) :: ((Npos (XI (XO (XI (XO (XO (XI
    XH))))))) :: ((Npos (XO (XO (XI (XO (XI (XI XH))))))) :: ((Npos (XO (XO
    (XO (XI (XO (XI XH))))))) :: ((Npos (XI (XI (XI (XI (XO (XI
    XH))))))) :: ((Npos (XO (XO (XI (XO (XO (XI XH))))))) :: [])))))))))))),
    TNoValue) :: ((((Npos (XI (XI (XO (XO (XO (XI XH))))))) :: ((Npos (XI (XI
    (XO (XO (XO (XI XH))))))) :: ((Npos (XO (XO (XI (XI (XO (XI
    XH))))))) :: ((Npos (XI (XO (XO (XO (XO (XI XH))))))) :: ((Npos (XI (XI
    (XO (XO (XI (XI XH))))))) :: ((Npos (XI (XI (XO (XO (XI (XI
    XH))))))) :: [])))))), TNoValue) :: ((((Npos (XO (XI (XI (XI (XO (XI
    XH))))))) :: ((Npos (XI (XI (XI (XI (XO (XI XH))))))) :: ((Npos (XI (XI
    (XI (XI (XI (XO XH))))))) :: ((Npos (XI (XI (XI (XO (XO (XI
    XH))))))) :: ((Npos (XI (XI (XO (XO (XO (XI XH))))))) :: ((Npos (XI (XI
    (XI (XI (XI (XO XH))))))) :: ((Npos (XI (XI (XO (XO (XO (XI
    XH))))))) :: ((Npos (XO (XO (XI (XI (XO (XI XH))))))) :: ((Npos (XI (XO
    (XI (XO (XO (XI XH))))))) :: ((Npos (XI (XO (XO (XO (XO (XI
    XH))))))) :: ((Npos (XO (XI (XO (XO (XI (XI XH))))))) :: []))))))))))),
    TBool) :: ((((Npos (XO (XI (XI (XI (XO (XI XH))))))) :: ((Npos (XI (XI
    (XI (XI (XO (XI XH))))))) :: ((Npos (XI (XI (XI (XI (XI (XO
    XH))))))) :: ((Npos (XI (XI (XI (XO (XO (XI XH))))))) :: ((Npos (XI (XI
    (XO (XO (XO (XI XH))))))) :: []))))), TBool) :: ((((Npos (XO (XI (XO (XO
    (XI (XI XH))))))) :: ((Npos (XI (XO (XI (XO (XO (XI XH))))))) :: ((Npos
    (XO (XO (XI (XO (XI (XI XH))))))) :: ((Npos (XI (XO (XI (XO (XI (XI
    XH))))))) :: ((Npos (XO (XI (XO (XO (XI (XI XH))))))) :: ((Npos (XO (XI
    (XI (XI (XO (XI XH))))))) :: ((Npos (XI (XI (XO (XO (XI (XI
    XH))))))) :: []))))))), TCallCrash) :: ((((Npos (XI (XO (XI (XO (XO (XI
    XH))))))) :: ((Npos (XO (XO (XO (XI (XI (XI XH))))))) :: ((Npos (XI (XI
    (XO (XO (XO (XI XH))))))) :: ((Npos (XI (XO (XI (XO (XO (XI
    XH))))))) :: ((Npos (XO (XO (XO (XO (XI (XI XH))))))) :: ((Npos (XO (XO
    (XI (XO (XI (XI XH))))))) :: ((Npos (XO (XI (XI (XO (XI (XI
    XH))))))) :: ((Npos (XI (XO (XO (XO (XO (XI XH))))))) :: ((Npos (XO (XO
    (XI (XI (XO (XI XH))))))) :: []))))))))), TCallCrash) :: ((((Npos (XI (XI
    (XO (XO (XI (XI XH))))))) :: ((Npos (XI (XO (XI (XO (XO (XI
    XH))))))) :: ((Npos (XO (XO (XI (XO (XI (XI XH))))))) :: ((Npos (XI (XI
    (XI (XI (XI (XO XH))))))) :: ((Npos (XI (XO (XO (XI (XO (XI
    XH))))))) :: ((Npos (XO (XI (XI (XI (XO (XI XH))))))) :: ((Npos (XI (XO
    (XO (XI (XO (XI XH))))))) :: ((Npos (XO (XO (XI (XO (XI (XI
    XH))))))) :: ((Npos (XI (XO (XO (XI (XO (XI XH))))))) :: ((Npos (XI (XO
    (XO (XO (XO (XI XH))))))) :: ((Npos (XO (XO (XI (XI (XO (XI
    XH))))))) :: ((Npos (XI (XI (XI (XI (XI (XO XH))))))) :: ((Npos (XO (XO
    (XO (XO (XI (XI XH))))))) :: ((Npos (XI (XO (XO (XO (XO (XI
    XH))))))) :: ((Npos (XO (XO (XI (XO (XI (XI XH))))))) :: ((Npos (XO (XO
    (XO (XI (XO (XI XH))))))) :: [])))))))))))))))), TStr) :: ((((Npos (XO
    (XI (XI (XO (XO (XI XH))))))) :: ((Npos (XO (XI (XO (XO (XI (XI
    XH))))))) :: ((Npos (XI (XO (XI (XO (XO (XI XH))))))) :: ((Npos (XI (XO
    (XI (XO (XO (XI XH))))))) :: ((Npos (XO (XO (XI (XI (XO (XI
    XH))))))) :: ((Npos (XI (XO (XO (XI (XO (XI XH))))))) :: ((Npos (XI (XI
    (XO (XO (XI (XI XH))))))) :: ((Npos (XO (XO (XI (XO (XI (XI
    XH))))))) :: [])))))))), TInt) :: ((((Npos (XI (XI (XO (XO (XO (XI
    XH))))))) :: ((Npos (XI (XI (XI (XI (XI (XO XH))))))) :: ((Npos (XI (XI
    (XO (XO (XI (XI XH))))))) :: ((Npos (XO (XO (XI (XO (XI (XI
    XH))))))) :: ((Npos (XO (XI (XO (XO (XI (XI XH))))))) :: ((Npos (XI (XO
    (XO (XI (XO (XI XH))))))) :: ((Npos (XO (XI (XI (XI (XO (XI
    XH))))))) :: ((Npos (XI (XI (XI (XO (XO (XI XH))))))) :: ((Npos (XI (XI
    (XI (XI (XI (XO XH))))))) :: ((Npos (XO (XO (XI (XO (XI (XI
    XH))))))) :: ((Npos (XI (XO (XO (XI (XI (XI XH))))))) :: ((Npos (XO (XO
    (XO (XO (XI (XI XH))))))) :: ((Npos (XI (XO (XI (XO (XO (XI
    XH))))))) :: []))))))))))))), (TEnum ((((Npos (XO (XI (XO (XO (XO (XI
    XH))))))) :: ((Npos (XI (XO (XO (XI (XI (XI XH))))))) :: ((Npos (XO (XO
    (XI (XO (XI (XI XH))))))) :: ((Npos (XI (XO (XI (XO (XO (XI
    XH))))))) :: ((Npos (XI (XI (XO (XO (XI (XI
    XH))))))) :: []))))) :: (((Npos (XO (XI (XO (XO (XO (XI
    XH))))))) :: ((Npos (XI (XO (XO (XI (XI (XI XH))))))) :: ((Npos (XO (XO
    (XI (XO (XI (XI XH))))))) :: ((Npos (XI (XO (XI (XO (XO (XI
    XH))))))) :: ((Npos (XI (XO (XO (XO (XO (XI XH))))))) :: ((Npos (XO (XI
    (XO (XO (XI (XI XH))))))) :: ((Npos (XO (XI (XO (XO (XI (XI
    XH))))))) :: ((Npos (XI (XO (XO (XO (XO (XI XH))))))) :: ((Npos (XI (XO
    (XO (XI (XI (XI XH))))))) :: []))))))))) :: (((Npos (XI (XI (XO (XO (XI
    (XI XH))))))) :: ((Npos (XO (XO (XI (XO (XI (XI XH))))))) :: ((Npos (XO
    (XI (XO (XO (XI (XI XH))))))) :: []))) :: (((Npos (XI (XO (XI (XO (XI (XI
    XH))))))) :: ((Npos (XO (XI (XI (XI (XO (XI XH))))))) :: ((Npos (XI (XO
    (XO (XI (XO (XI XH))))))) :: ((Npos (XI (XI (XO (XO (XO (XI
    XH))))))) :: ((Npos (XI (XI (XI (XI (XO (XI XH))))))) :: ((Npos (XO (XO
    (XI (XO (XO (XI XH))))))) :: ((Npos (XI (XO (XI (XO (XO (XI
    XH))))))) :: []))))))) :: [])))), ((((Npos (XI (XO (XI (XO (XI (XI
    XH))))))) :: ((Npos (XO (XI (XI (XI (XO (XI XH))))))) :: ((Npos (XI (XO
    (XO (XI (XO (XI XH))))))) :: ((Npos (XI (XI (XO (XO (XO (XI
    XH))))))) :: ((Npos (XI (XI (XI (XI (XO (XI XH))))))) :: ((Npos (XO (XO
    (XI (XO (XO (XI XH))))))) :: ((Npos (XI (XO (XI (XO (XO (XI
    XH))))))) :: []))))))), ((Npos (XI (XI (XO (XO (XI (XI
    XH))))))) :: ((Npos (XO (XO (XI (XO (XI (XI XH))))))) :: ((Npos (XO (XI
    (XO (XO (XI (XI XH))))))) :: [])))) :: [])))) :: ((((Npos (XI (XI (XO (XO
    (XO (XI XH))))))) :: ((Npos (XI (XI (XI (XI (XI (XO XH))))))) :: ((Npos
    (XI (XI (XO (XO (XI (XI XH))))))) :: ((Npos (XO (XO (XI (XO (XI (XI
    XH))))))) :: ((Npos (XO (XI (XO (XO (XI (XI XH))))))) :: ((Npos (XI (XO
    (XO (XI (XO (XI XH))))))) :: ((Npos (XO (XI (XI (XI (XO (XI
    XH))))))) :: ((Npos (XI (XI (XI (XO (XO (XI XH))))))) :: ((Npos (XI (XI
    (XI (XI (XI (XO XH))))))) :: ((Npos (XI (XO (XI (XO (XO (XI
    XH))))))) :: ((Npos (XO (XI (XI (XI (XO (XI XH))))))) :: ((Npos (XI (XI
    (XO (XO (XO (XI XH))))))) :: ((Npos (XI (XI (XI (XI (XO (XI
    XH))))))) :: ((Npos (XO (XO (XI (XO (XO (XI XH))))))) :: ((Npos (XI (XO
    (XO (XI (XO (XI XH))))))) :: ((Npos (XO (XI (XI (XI (XO (XI
    XH))))))) :: ((Npos (XI (XI (XI (XO (XO (XI
    XH))))))) :: []))))))))))))))))), TEncoding) :: ((((Npos (XO (XO (XI (XO
    (XI (XI XH))))))) :: ((Npos (XO (XI (XO (XO (XI (XI XH))))))) :: ((Npos
    (XI (XO (XO (XO (XO (XI XH))))))) :: ((Npos (XI (XI (XO (XO (XI (XI
    XH))))))) :: ((Npos (XO (XO (XO (XI (XO (XI XH))))))) :: ((Npos (XI (XI
    (XO (XO (XO (XI XH))))))) :: ((Npos (XI (XO (XO (XO (XO (XI
    XH))))))) :: ((Npos (XO (XI (XI (XI (XO (XI XH))))))) :: [])))))))),
    TBool) :: ((((Npos (XO (XO (XI (XO (XI (XI XH))))))) :: ((Npos (XI (XI
    (XI (XI (XO (XI XH))))))) :: ((Npos (XO (XO (XI (XO (XI (XI
    XH))))))) :: ((Npos (XI (XO (XO (XO (XO (XI XH))))))) :: ((Npos (XO (XO
    (XI (XI (XO (XI XH))))))) :: ((Npos (XI (XI (XI (XI (XI (XO
    XH))))))) :: ((Npos (XI (XI (XI (XI (XO (XI XH))))))) :: ((Npos (XO (XI
    (XO (XO (XI (XI XH))))))) :: ((Npos (XO (XO (XI (XO (XO (XI
    XH))))))) :: ((Npos (XI (XO (XI (XO (XO (XI XH))))))) :: ((Npos (XO (XI
    (XO (XO (XI (XI XH))))))) :: ((Npos (XI (XO (XO (XI (XO (XI
    XH))))))) :: ((Npos (XO (XI (XI (XI (XO (XI XH))))))) :: ((Npos (XI (XI
    (XI (XO (XO (XI XH))))))) :: [])))))))))))))), TNoValue) :: ((((Npos (XO
    (XO (XI (XO (XO (XI XH))))))) :: ((Npos (XI (XO (XO (XO (XO (XI
    XH))))))) :: ((Npos (XO (XO (XI (XO (XI (XI XH))))))) :: ((Npos (XI (XO
    (XO (XO (XO (XI XH))))))) :: ((Npos (XI (XI (XO (XO (XO (XI
    XH))))))) :: ((Npos (XO (XO (XI (XI (XO (XI XH))))))) :: ((Npos (XI (XO
    (XO (XO (XO (XI XH))))))) :: ((Npos (XI (XI (XO (XO (XI (XI
    XH))))))) :: ((Npos (XI (XI (XO (XO (XI (XI XH))))))) :: ((Npos (XI (XO
    (XI (XO (XO (XI XH))))))) :: ((Npos (XI (XI (XO (XO (XI (XI
    XH))))))) :: ((Npos (XO (XI (XI (XI (XO XH)))))) :: ((Npos (XO (XO (XI
    (XO (XO (XI XH))))))) :: ((Npos (XI (XO (XO (XO (XO (XI
    XH))))))) :: ((Npos (XO (XO (XI (XO (XI (XI XH))))))) :: ((Npos (XI (XO
    (XO (XO (XO (XI XH))))))) :: ((Npos (XI (XI (XO (XO (XO (XI
    XH))))))) :: ((Npos (XO (XO (XI (XI (XO (XI XH))))))) :: ((Npos (XI (XO
    (XO (XO (XO (XI XH))))))) :: ((Npos (XI (XI (XO (XO (XI (XI
    XH))))))) :: ((Npos (XI (XI (XO (XO (XI (XI
    XH))))))) :: []))))))))))))))))))))), TDefer) :: ((((Npos (XO (XO (XI (XO
    (XO (XI XH))))))) :: ((Npos (XI (XO (XO (XO (XO (XI XH))))))) :: ((Npos
    (XO (XO (XI (XO (XI (XI XH))))))) :: ((Npos (XI (XO (XO (XO (XO (XI
    XH))))))) :: ((Npos (XI (XI (XO (XO (XO (XI XH))))))) :: ((Npos (XO (XO
    (XI (XI (XO (XI XH))))))) :: ((Npos (XI (XO (XO (XO (XO (XI
    XH))))))) :: ((Npos (XI (XI (XO (XO (XI (XI XH))))))) :: ((Npos (XI (XI
    (XO (XO (XI (XI XH))))))) :: ((Npos (XI (XO (XI (XO (XO (XI
    XH))))))) :: ((Npos (XI (XI (XO (XO (XI (XI XH))))))) :: ((Npos (XO (XI
    (XI (XI (XO XH)))))) :: ((Npos (XO (XI (XI (XO (XO (XI
    XH))))))) :: ((Npos (XI (XO (XO (XI (XO (XI XH))))))) :: ((Npos (XI (XO
    (XI (XO (XO (XI XH))))))) :: ((Npos (XO (XO (XI (XI (XO (XI
    XH))))))) :: ((Npos (XO (XO (XI (XO (XO (XI
    XH))))))) :: []))))))))))))))))), TDefer) :: ((((Npos (XI (XO (XI (XO (XO
    (XI XH))))))) :: ((Npos (XI (XO (XI (XI (XO (XI XH))))))) :: ((Npos (XO
    (XI (XO (XO (XO (XI XH))))))) :: ((Npos (XI (XO (XI (XO (XO (XI
    XH))))))) :: ((Npos (XO (XO (XI (XO (XO (XI XH))))))) :: ((Npos (XI (XI
    (XO (XO (XI (XI XH))))))) :: ((Npos (XI (XO (XO (XI (XO (XI
    XH))))))) :: ((Npos (XI (XI (XI (XO (XO (XI XH))))))) :: ((Npos (XO (XI
    (XI (XI (XO (XI XH))))))) :: ((Npos (XI (XO (XO (XO (XO (XI
    XH))))))) :: ((Npos (XO (XO (XI (XO (XI (XI XH))))))) :: ((Npos (XI (XO
    (XI (XO (XI (XI XH))))))) :: ((Npos (XO (XI (XO (XO (XI (XI
    XH))))))) :: ((Npos (XI (XO (XI (XO (XO (XI XH))))))) :: ((Npos (XO (XI
    (XI (XI (XO XH)))))) :: ((Npos (XO (XI (XI (XO (XO (XI
    XH))))))) :: ((Npos (XI (XI (XI (XI (XO (XI XH))))))) :: ((Npos (XO (XI
    (XO (XO (XI (XI XH))))))) :: ((Npos (XI (XO (XI (XI (XO (XI
    XH))))))) :: ((Npos (XI (XO (XO (XO (XO (XI XH))))))) :: ((Npos (XO (XO
    (XI (XO (XI (XI XH))))))) :: []))))))))))))))))))))), (TEnum ((((Npos (XI
    (XI (XO (XO (XO (XI XH))))))) :: []) :: (((Npos (XI (XI (XO (XO (XO (XI
    XH))))))) :: ((Npos (XO (XO (XI (XI (XO (XI XH))))))) :: ((Npos (XI (XO
    (XO (XI (XO (XI XH))))))) :: ((Npos (XO (XI (XI (XI (XO (XI
    XH))))))) :: ((Npos (XI (XO (XO (XI (XO (XI XH))))))) :: ((Npos (XI (XI
    (XO (XO (XO (XI XH))))))) :: [])))))) :: (((Npos (XO (XO (XO (XO (XI (XI
    XH))))))) :: ((Npos (XI (XO (XO (XI (XI (XI XH))))))) :: ((Npos (XO (XO
    (XI (XO (XI (XI XH))))))) :: ((Npos (XO (XO (XO (XI (XO (XI
    XH))))))) :: ((Npos (XI (XI (XI (XI (XO (XI XH))))))) :: ((Npos (XO (XI
    (XI (XI (XO (XI XH))))))) :: [])))))) :: []))), []))) :: ((((Npos (XI (XI
    (XO (XO (XI (XI XH))))))) :: ((Npos (XI (XO (XI (XO (XI (XI
    XH))))))) :: ((Npos (XO (XI (XO (XO (XO (XI XH))))))) :: ((Npos (XI (XO
    (XO (XI (XO (XI XH))))))) :: ((Npos (XO (XI (XI (XI (XO (XI
    XH))))))) :: ((Npos (XO (XO (XI (XO (XI (XI XH))))))) :: ((Npos (XI (XO
    (XI (XO (XO (XI XH))))))) :: ((Npos (XO (XI (XO (XO (XI (XI
    XH))))))) :: ((Npos (XO (XO (XO (XO (XI (XI XH))))))) :: ((Npos (XO (XI
    (XO (XO (XI (XI XH))))))) :: ((Npos (XI (XO (XI (XO (XO (XI
    XH))))))) :: ((Npos (XO (XO (XI (XO (XI (XI XH))))))) :: ((Npos (XI (XO
    (XI (XO (XO (XI XH))))))) :: ((Npos (XO (XI (XO (XO (XI (XI
    XH))))))) :: ((Npos (XI (XI (XO (XO (XI (XI XH))))))) :: ((Npos (XI (XI
    (XI (XI (XI (XO XH))))))) :: ((Npos (XI (XI (XO (XO (XO (XI
    XH))))))) :: ((Npos (XI (XI (XI (XI (XO (XI XH))))))) :: ((Npos (XI (XO
    (XI (XI (XO (XI XH))))))) :: ((Npos (XO (XO (XO (XO (XI (XI
    XH))))))) :: ((Npos (XI (XO (XO (XO (XO (XI XH))))))) :: ((Npos (XO (XO
    (XI (XO (XI (XI XH))))))) :: ((Npos (XI (XO (XO (XI (XO (XI
    XH))))))) :: ((Npos (XO (XI (XO (XO (XO (XI XH))))))) :: ((Npos (XO (XO
    (XI (XI (XO (XI XH))))))) :: ((Npos (XI (XO (XI (XO (XO (XI
    XH))))))) :: [])))))))))))))))))))))))))), (TEnum ((((Npos (XO (XI (XI
    (XI (XO (XI XH))))))) :: ((Npos (XI (XI (XI (XI (XO (XI
    XH))))))) :: [])) :: (((Npos (XI (XI (XO (XO (XI (XI XH))))))) :: ((Npos
    (XO (XO (XO (XI (XO (XI XH))))))) :: ((Npos (XI (XO (XO (XO (XO (XI
    XH))))))) :: ((Npos (XO (XI (XO (XO (XI (XI XH))))))) :: ((Npos (XI (XO
    (XI (XO (XO (XI XH))))))) :: ((Npos (XO (XO (XI (XO (XO (XI
    XH))))))) :: ((Npos (XI (XI (XI (XI (XI (XO XH))))))) :: ((Npos (XI (XI
    (XI (XO (XO (XI XH))))))) :: ((Npos (XI (XO (XO (XI (XO (XI
    XH))))))) :: ((Npos (XO (XO (XI (XI (XO (XI
    XH))))))) :: [])))))))))) :: (((Npos (XI (XI (XI (XI (XO (XI
    XH))))))) :: ((Npos (XI (XI (XI (XO (XI (XI XH))))))) :: ((Npos (XO (XI
    (XI (XI (XO (XI XH))))))) :: ((Npos (XI (XI (XI (XI (XI (XO
    XH))))))) :: ((Npos (XI (XI (XI (XO (XO (XI XH))))))) :: ((Npos (XI (XO
    (XO (XI (XO (XI XH))))))) :: ((Npos (XO (XO (XI (XI (XO (XI
    XH))))))) :: []))))))) :: []))), []))) :: ((((Npos (XO (XO (XI (XO (XI
    (XI XH))))))) :: ((Npos (XI (XO (XI (XO (XO (XI XH))))))) :: ((Npos (XI
    (XI (XO (XO (XI (XI XH))))))) :: ((Npos (XO (XO (XI (XO (XI (XI
    XH))))))) :: ((Npos (XI (XI (XI (XI (XI (XO XH))))))) :: ((Npos (XO (XI
    (XO (XO (XO (XI XH))))))) :: ((Npos (XI (XI (XI (XI (XO (XI
    XH))))))) :: ((Npos (XO (XO (XI (XO (XO (XI XH))))))) :: ((Npos (XI (XO
    (XO (XI (XI (XI XH))))))) :: ((Npos (XI (XI (XI (XI (XI (XO
    XH))))))) :: ((Npos (XO (XI (XI (XI (XO (XI XH))))))) :: ((Npos (XI (XO
    (XI (XO (XO (XI XH))))))) :: ((Npos (XI (XO (XI (XO (XO (XI
    XH))))))) :: ((Npos (XO (XO (XI (XO (XO (XI XH))))))) :: ((Npos (XI (XI
    (XO (XO (XI (XI XH))))))) :: ((Npos (XI (XI (XI (XI (XI (XO
    XH))))))) :: ((Npos (XI (XO (XI (XO (XO (XI XH))))))) :: ((Npos (XO (XO
    (XO (XI (XI (XI XH))))))) :: ((Npos (XI (XI (XO (XO (XO (XI
    XH))))))) :: ((Npos (XI (XO (XI (XO (XO (XI XH))))))) :: ((Npos (XO (XO
    (XO (XO (XI (XI XH))))))) :: ((Npos (XO (XO (XI (XO (XI (XI
    XH))))))) :: ((Npos (XI (XO (XO (XI (XO (XI XH))))))) :: ((Npos (XI (XI
    (XI (XI (XO (XI XH))))))) :: ((Npos (XO (XI (XI (XI (XO (XI
    XH))))))) :: ((Npos (XI (XI (XI (XI (XI (XO XH))))))) :: ((Npos (XO (XO
    (XO (XI (XO (XI XH))))))) :: ((Npos (XI (XO (XO (XO (XO (XI
    XH))))))) :: ((Npos (XO (XI (XI (XI (XO (XI XH))))))) :: ((Npos (XO (XO
    (XI (XO (XO (XI XH))))))) :: ((Npos (XO (XO (XI (XI (XO (XI
    XH))))))) :: ((Npos (XI (XO (XO (XI (XO (XI XH))))))) :: ((Npos (XO (XI
    (XI (XI (XO (XI XH))))))) :: ((Npos (XI (XI (XI (XO (XO (XI
    XH))))))) :: [])))))))))))))))))))))))))))))))))), TBool) :: ((((Npos (XO
    (XI (XO (XO (XO (XI XH))))))) :: ((Npos (XI (XI (XI (XI (XO (XI
    XH))))))) :: ((Npos (XI (XO (XI (XO (XI (XI XH))))))) :: ((Npos (XO (XI
    (XI (XI (XO (XI XH))))))) :: ((Npos (XO (XO (XI (XO (XO (XI
    XH))))))) :: ((Npos (XI (XI (XO (XO (XI (XI XH))))))) :: ((Npos (XI (XI
    (XO (XO (XO (XI XH))))))) :: ((Npos (XO (XO (XO (XI (XO (XI
    XH))))))) :: ((Npos (XI (XO (XI (XO (XO (XI XH))))))) :: ((Npos (XI (XI
    (XO (XO (XO (XI XH))))))) :: ((Npos (XI (XI (XO (XI (XO (XI
    XH))))))) :: []))))))))))), TBool) :: ((((Npos (XO (XI (XI (XI (XO (XI
    XH))))))) :: ((Npos (XI (XI (XI (XI (XO (XI XH))))))) :: ((Npos (XO (XI
    (XI (XI (XO (XI XH))))))) :: ((Npos (XI (XO (XI (XO (XO (XI
    XH))))))) :: ((Npos (XI (XI (XO (XO (XO (XI XH))))))) :: ((Npos (XO (XO
    (XO (XI (XO (XI XH))))))) :: ((Npos (XI (XO (XI (XO (XO (XI
    XH))))))) :: ((Npos (XI (XI (XO (XO (XO (XI XH))))))) :: ((Npos (XI (XI
    (XO (XI (XO (XI XH))))))) :: []))))))))), TBool) :: ((((Npos (XI (XO (XO
    (XI (XO (XI XH))))))) :: ((Npos (XO (XI (XI (XI (XO (XI
    XH))))))) :: ((Npos (XI (XO (XO (XI (XO (XI XH))))))) :: ((Npos (XO (XO
    (XI (XO (XI (XI XH))))))) :: ((Npos (XI (XO (XO (XI (XO (XI
    XH))))))) :: ((Npos (XI (XO (XO (XO (XO (XI XH))))))) :: ((Npos (XO (XO
    (XI (XI (XO (XI XH))))))) :: ((Npos (XI (XO (XO (XI (XO (XI
    XH))))))) :: ((Npos (XO (XI (XO (XI (XI (XI XH))))))) :: ((Npos (XI (XO
    (XI (XO (XO (XI XH))))))) :: ((Npos (XO (XO (XI (XO (XO (XI
    XH))))))) :: ((Npos (XI (XI (XO (XO (XO (XI XH))))))) :: ((Npos (XO (XO
    (XO (XI (XO (XI XH))))))) :: ((Npos (XI (XO (XI (XO (XO (XI
    XH))))))) :: ((Npos (XI (XI (XO (XO (XO (XI XH))))))) :: ((Npos (XI (XI
    (XO (XI (XO (XI XH))))))) :: [])))))))))))))))), TBool) :: ((((Npos (XO
    (XI (XI (XO (XO (XI XH))))))) :: ((Npos (XO (XI (XO (XO (XI (XI
    XH))))))) :: ((Npos (XI (XO (XI (XO (XO (XI XH))))))) :: ((Npos (XI (XO
    (XI (XO (XO (XI XH))))))) :: ((Npos (XO (XO (XI (XO (XI (XI
    XH))))))) :: ((Npos (XO (XO (XO (XI (XO (XI XH))))))) :: ((Npos (XO (XI
    (XO (XO (XI (XI XH))))))) :: ((Npos (XI (XO (XI (XO (XO (XI
    XH))))))) :: ((Npos (XI (XO (XO (XO (XO (XI XH))))))) :: ((Npos (XO (XO
    (XI (XO (XO (XI XH))))))) :: ((Npos (XI (XO (XO (XI (XO (XI
    XH))))))) :: ((Npos (XO (XI (XI (XI (XO (XI XH))))))) :: ((Npos (XI (XI
    (XI (XO (XO (XI XH))))))) :: ((Npos (XI (XI (XI (XI (XI (XO
    XH))))))) :: ((Npos (XI (XI (XO (XO (XO (XI XH))))))) :: ((Npos (XI (XI
    (XI (XI (XO (XI XH))))))) :: ((Npos (XI (XO (XI (XI (XO (XI
    XH))))))) :: ((Npos (XO (XO (XO (XO (XI (XI XH))))))) :: ((Npos (XI (XO
    (XO (XO (XO (XI XH))))))) :: ((Npos (XO (XO (XI (XO (XI (XI
    XH))))))) :: ((Npos (XI (XO (XO (XI (XO (XI XH))))))) :: ((Npos (XO (XI
    (XO (XO (XO (XI XH))))))) :: ((Npos (XO (XO (XI (XI (XO (XI
    XH))))))) :: ((Npos (XI (XO (XI (XO (XO (XI
    XH))))))) :: [])))))))))))))))))))))))), TBool) :: ((((Npos (XI (XO (XI
    (XO (XO (XI XH))))))) :: ((Npos (XI (XO (XI (XI (XO (XI
    XH))))))) :: ((Npos (XO (XI (XO (XO (XO (XI XH))))))) :: ((Npos (XI (XO
    (XI (XO (XO (XI XH))))))) :: ((Npos (XO (XO (XI (XO (XO (XI
    XH))))))) :: ((Npos (XI (XI (XO (XO (XI (XI XH))))))) :: ((Npos (XI (XO
    (XO (XI (XO (XI XH))))))) :: ((Npos (XI (XI (XI (XO (XO (XI
    XH))))))) :: ((Npos (XO (XI (XI (XI (XO (XI XH))))))) :: ((Npos (XI (XO
    (XO (XO (XO (XI XH))))))) :: ((Npos (XO (XO (XI (XO (XI (XI
    XH))))))) :: ((Npos (XI (XO (XI (XO (XI (XI XH))))))) :: ((Npos (XO (XI
    (XO (XO (XI (XI XH))))))) :: ((Npos (XI (XO (XI (XO (XO (XI
    XH))))))) :: [])))))))))))))), TBool) :: ((((Npos (XI (XO (XO (XO (XO (XI
    XH))))))) :: ((Npos (XI (XO (XI (XO (XI (XI XH))))))) :: ((Npos (XO (XO
    (XI (XO (XI (XI XH))))))) :: ((Npos (XI (XI (XI (XI (XO (XI
    XH))))))) :: ((Npos (XI (XI (XI (XI (XI (XO XH))))))) :: ((Npos (XI (XI
    (XO (XO (XO (XI XH))))))) :: ((Npos (XO (XO (XO (XO (XI (XI
    XH))))))) :: ((Npos (XO (XO (XI (XO (XO (XI XH))))))) :: ((Npos (XI (XO
    (XI (XO (XO (XI XH))))))) :: ((Npos (XO (XI (XI (XO (XO (XI
    XH))))))) :: [])))))))))), TBool) :: ((((Npos (XI (XI (XO (XO (XO (XI
    XH))))))) :: ((Npos (XO (XO (XI (XO (XO (XI XH))))))) :: ((Npos (XI (XO
    (XO (XI (XO (XI XH))))))) :: ((Npos (XO (XI (XI (XO (XI (XI
    XH))))))) :: ((Npos (XI (XO (XO (XI (XO (XI XH))))))) :: ((Npos (XI (XI
    (XO (XO (XI (XI XH))))))) :: ((Npos (XI (XO (XO (XI (XO (XI
    XH))))))) :: ((Npos (XI (XI (XI (XI (XO (XI XH))))))) :: ((Npos (XO (XI
    (XI (XI (XO (XI XH))))))) :: []))))))))), TBool) :: ((((Npos (XI (XI (XO
    (XO (XO (XI XH))))))) :: ((Npos (XO (XO (XI (XO (XO (XI
    XH))))))) :: ((Npos (XI (XO (XO (XI (XO (XI XH))))))) :: ((Npos (XO (XI
    (XI (XO (XI (XI XH))))))) :: ((Npos (XI (XO (XO (XI (XO (XI
    XH))))))) :: ((Npos (XI (XI (XO (XO (XI (XI XH))))))) :: ((Npos (XI (XO
    (XO (XI (XO (XI XH))))))) :: ((Npos (XI (XI (XI (XI (XO (XI
    XH))))))) :: ((Npos (XO (XI (XI (XI (XO (XI XH))))))) :: ((Npos (XI (XI
    (XI (XI (XI (XO XH))))))) :: ((Npos (XI (XI (XI (XO (XI (XI
    XH))))))) :: ((Npos (XI (XO (XO (XO (XO (XI XH))))))) :: ((Npos (XO (XI
    (XO (XO (XI (XI XH))))))) :: ((Npos (XO (XI (XI (XI (XO (XI
    XH))))))) :: ((Npos (XI (XO (XO (XI (XO (XI XH))))))) :: ((Npos (XO (XI
    (XI (XI (XO (XI XH))))))) :: ((Npos (XI (XI (XI (XO (XO (XI
    XH))))))) :: ((Npos (XI (XI (XO (XO (XI (XI
    XH))))))) :: [])))))))))))))))))), TBool) :: ((((Npos (XI (XI (XO (XO (XO
    (XI XH))))))) :: ((Npos (XI (XI (XI (XI (XI (XO XH))))))) :: ((Npos (XI
    (XO (XO (XO (XO (XI XH))))))) :: ((Npos (XO (XO (XO (XO (XI (XI
    XH))))))) :: ((Npos (XI (XO (XO (XI (XO (XI XH))))))) :: ((Npos (XI (XI
    (XI (XI (XI (XO XH))))))) :: ((Npos (XO (XI (XO (XO (XO (XI
    XH))))))) :: ((Npos (XI (XO (XO (XI (XO (XI XH))))))) :: ((Npos (XO (XI
    (XI (XI (XO (XI XH))))))) :: ((Npos (XI (XI (XI (XI (XO (XI
    XH))))))) :: ((Npos (XO (XO (XO (XO (XI (XI XH))))))) :: ((Npos (XI (XI
    (XI (XI (XI (XO XH))))))) :: ((Npos (XI (XO (XI (XI (XO (XI
    XH))))))) :: ((Npos (XI (XO (XI (XO (XO (XI XH))))))) :: ((Npos (XO (XO
    (XI (XO (XI (XI XH))))))) :: ((Npos (XO (XO (XO (XI (XO (XI
    XH))))))) :: ((Npos (XI (XI (XI (XI (XO (XI XH))))))) :: ((Npos (XO (XO
    (XI (XO (XO (XI XH))))))) :: ((Npos (XI (XI (XO (XO (XI (XI
    XH))))))) :: []))))))))))))))))))), TBool) :: ((((Npos (XI (XI (XI (XI
    (XO (XI XH))))))) :: ((Npos (XO (XI (XI (XO (XI (XI XH))))))) :: ((Npos
    (XI (XO (XI (XO (XO (XI XH))))))) :: ((Npos (XO (XI (XO (XO (XI (XI
    XH))))))) :: ((Npos (XO (XI (XI (XO (XO (XI XH))))))) :: ((Npos (XO (XO
    (XI (XI (XO (XI XH))))))) :: ((Npos (XI (XI (XI (XI (XO (XI
    XH))))))) :: ((Npos (XI (XI (XI (XO (XI (XI XH))))))) :: ((Npos (XI (XI
    (XO (XO (XO (XI XH))))))) :: ((Npos (XO (XO (XO (XI (XO (XI
    XH))))))) :: ((Npos (XI (XO (XI (XO (XO (XI XH))))))) :: ((Npos (XI (XI
    (XO (XO (XO (XI XH))))))) :: ((Npos (XI (XI (XO (XI (XO (XI
    XH))))))) :: []))))))))))))), TBool) :: ((((Npos (XI (XI (XI (XI (XO (XI
    XH))))))) :: ((Npos (XO (XI (XI (XO (XI (XI XH))))))) :: ((Npos (XI (XO
    (XI (XO (XO (XI XH))))))) :: ((Npos (XO (XI (XO (XO (XI (XI
    XH))))))) :: ((Npos (XO (XI (XI (XO (XO (XI XH))))))) :: ((Npos (XO (XO
    (XI (XI (XO (XI XH))))))) :: ((Npos (XI (XI (XI (XI (XO (XI
    XH))))))) :: ((Npos (XI (XI (XI (XO (XI (XI XH))))))) :: ((Npos (XI (XI
    (XO (XO (XO (XI XH))))))) :: ((Npos (XO (XO (XO (XI (XO (XI
    XH))))))) :: ((Npos (XI (XO (XI (XO (XO (XI XH))))))) :: ((Npos (XI (XI
    (XO (XO (XO (XI XH))))))) :: ((Npos (XI (XI (XO (XI (XO (XI
    XH))))))) :: ((Npos (XO (XI (XI (XI (XO XH)))))) :: ((Npos (XO (XI (XI
    (XO (XO (XI XH))))))) :: ((Npos (XI (XI (XI (XI (XO (XI
    XH))))))) :: ((Npos (XO (XO (XI (XI (XO (XI XH))))))) :: ((Npos (XO (XO
    (XI (XO (XO (XI XH))))))) :: [])))))))))))))))))), TBool) :: ((((Npos (XI
    (XO (XO (XO (XO (XI XH))))))) :: ((Npos (XO (XO (XI (XI (XO (XI
    XH))))))) :: ((Npos (XI (XI (XI (XO (XI (XI XH))))))) :: ((Npos (XI (XO
    (XO (XO (XO (XI XH))))))) :: ((Npos (XI (XO (XO (XI (XI (XI
    XH))))))) :: ((Npos (XI (XI (XO (XO (XI (XI XH))))))) :: ((Npos (XI (XI
    (XI (XI (XI (XO XH))))))) :: ((Npos (XI (XO (XO (XO (XO (XI
    XH))))))) :: ((Npos (XO (XO (XI (XI (XO (XI XH))))))) :: ((Npos (XO (XO
    (XI (XI (XO (XI XH))))))) :: ((Npos (XI (XI (XI (XI (XO (XI
    XH))))))) :: ((Npos (XI (XI (XI (XO (XI (XI XH))))))) :: ((Npos (XI (XI
    (XI (XI (XI (XO XH))))))) :: ((Npos (XI (XI (XO (XI (XO (XI
    XH))))))) :: ((Npos (XI (XO (XI (XO (XO (XI XH))))))) :: ((Npos (XI (XO
    (XO (XI (XI (XI XH))))))) :: ((Npos (XI (XI (XI (XO (XI (XI
    XH))))))) :: ((Npos (XI (XI (XI (XI (XO (XI XH))))))) :: ((Npos (XO (XI
    (XO (XO (XI (XI XH))))))) :: ((Npos (XO (XO (XI (XO (XO (XI
    XH))))))) :: ((Npos (XI (XI (XO (XO (XI (XI
    XH))))))) :: []))))))))))))))))))))), TBool) :: ((((Npos (XI (XO (XO (XO
    (XO (XI XH))))))) :: ((Npos (XO (XO (XI (XI (XO (XI XH))))))) :: ((Npos
    (XO (XO (XI (XI (XO (XI XH))))))) :: ((Npos (XI (XI (XI (XI (XO (XI
    XH))))))) :: ((Npos (XI (XI (XI (XO (XI (XI XH))))))) :: ((Npos (XI (XI
    (XI (XI (XI (XO XH))))))) :: ((Npos (XO (XI (XI (XI (XO (XI
    XH))))))) :: ((Npos (XI (XI (XI (XI (XO (XI XH))))))) :: ((Npos (XO (XI
    (XI (XI (XO (XI XH))))))) :: ((Npos (XI (XO (XI (XO (XO (XI
    XH))))))) :: ((Npos (XI (XI (XI (XI (XI (XO XH))))))) :: ((Npos (XO (XI
    (XI (XO (XO (XI XH))))))) :: ((Npos (XI (XI (XI (XI (XO (XI
    XH))))))) :: ((Npos (XO (XI (XO (XO (XI (XI XH))))))) :: ((Npos (XI (XI
    (XI (XI (XI (XO XH))))))) :: ((Npos (XI (XO (XI (XO (XO (XI
    XH))))))) :: ((Npos (XO (XO (XO (XI (XI (XI XH))))))) :: ((Npos (XO (XO
    (XI (XO (XI (XI XH))))))) :: ((Npos (XI (XO (XI (XO (XO (XI
    XH))))))) :: ((Npos (XO (XI (XI (XI (XO (XI XH))))))) :: ((Npos (XI (XI
    (XO (XO (XI (XI XH))))))) :: ((Npos (XI (XO (XO (XI (XO (XI
    XH))))))) :: ((Npos (XI (XI (XI (XI (XO (XI XH))))))) :: ((Npos (XO (XI
    (XI (XI (XO (XI XH))))))) :: ((Npos (XI (XI (XI (XI (XI (XO
    XH))))))) :: ((Npos (XI (XO (XO (XO (XO (XI XH))))))) :: ((Npos (XO (XI
    (XO (XO (XI (XI XH))))))) :: ((Npos (XI (XI (XI (XO (XO (XI
    XH))))))) :: ((Npos (XI (XI (XO (XO (XI (XI
    XH))))))) :: []))))))))))))))))))))))))))))), TBool) :: ((((Npos (XI (XI
    (XI (XO (XI (XI XH))))))) :: ((Npos (XO (XI (XO (XO (XI (XI
    XH))))))) :: ((Npos (XI (XO (XO (XO (XO (XI XH))))))) :: ((Npos (XO (XO
    (XO (XO (XI (XI XH))))))) :: ((Npos (XI (XO (XO (XO (XO (XI
    XH))))))) :: ((Npos (XO (XI (XO (XO (XI (XI XH))))))) :: ((Npos (XI (XI
    (XI (XI (XO (XI XH))))))) :: ((Npos (XI (XO (XI (XO (XI (XI
    XH))))))) :: ((Npos (XO (XI (XI (XI (XO (XI XH))))))) :: ((Npos (XO (XO
    (XI (XO (XO (XI XH))))))) :: [])))))))))), TBool) :: ((((Npos (XI (XI (XO
    (XO (XO (XI XH))))))) :: ((Npos (XI (XI (XO (XO (XO (XI
    XH))))))) :: ((Npos (XI (XI (XI (XI (XO (XI XH))))))) :: ((Npos (XI (XO
    (XI (XI (XO (XI XH))))))) :: ((Npos (XO (XO (XO (XO (XI (XI
    XH))))))) :: ((Npos (XO (XO (XI (XI (XO (XI XH))))))) :: ((Npos (XI (XO
    (XI (XO (XO (XI XH))))))) :: ((Npos (XO (XO (XO (XI (XI (XI
    XH))))))) :: [])))))))), TBool) :: ((((Npos (XI (XI (XO (XO (XO (XI
    XH))))))) :: ((Npos (XI (XO (XO (XO (XO (XI XH))))))) :: ((Npos (XO (XO
    (XI (XI (XO (XI XH))))))) :: ((Npos (XO (XO (XI (XI (XO (XI
    XH))))))) :: ((Npos (XI (XI (XO (XO (XI (XI XH))))))) :: ((Npos (XO (XO
    (XO (XO (XI (XI XH))))))) :: ((Npos (XI (XO (XI (XO (XO (XI
    XH))))))) :: ((Npos (XI (XI (XO (XO (XO (XI XH))))))) :: [])))))))),
    TStr) :: ((((Npos (XO (XO (XO (XO (XI (XI XH))))))) :: ((Npos (XO (XI (XO
    (XO (XI (XI XH))))))) :: ((Npos (XI (XI (XI (XI (XO (XI
    XH))))))) :: ((Npos (XO (XI (XI (XO (XO (XI XH))))))) :: ((Npos (XI (XO
    (XO (XI (XO (XI XH))))))) :: ((Npos (XO (XO (XI (XI (XO (XI
    XH))))))) :: ((Npos (XI (XO (XI (XO (XO (XI XH))))))) :: []))))))),
    TBool) :: ((((Npos (XO (XO (XI (XI (XO (XI XH))))))) :: ((Npos (XI (XO
    (XO (XI (XO (XI XH))))))) :: ((Npos (XO (XI (XI (XI (XO (XI
    XH))))))) :: ((Npos (XI (XO (XI (XO (XO (XI XH))))))) :: ((Npos (XO (XO
    (XI (XO (XI (XI XH))))))) :: ((Npos (XO (XI (XO (XO (XI (XI
    XH))))))) :: ((Npos (XI (XO (XO (XO (XO (XI XH))))))) :: ((Npos (XI (XI
    (XO (XO (XO (XI XH))))))) :: ((Npos (XI (XO (XI (XO (XO (XI
    XH))))))) :: []))))))))), TBool) :: ((((Npos (XI (XO (XI (XO (XO (XI
    XH))))))) :: ((Npos (XI (XO (XI (XI (XO (XI XH))))))) :: ((Npos (XI (XO
    (XO (XI (XO (XI XH))))))) :: ((Npos (XO (XO (XI (XO (XI (XI
    XH))))))) :: ((Npos (XI (XI (XI (XI (XI (XO XH))))))) :: ((Npos (XI (XI
    (XO (XO (XO (XI XH))))))) :: ((Npos (XI (XI (XI (XI (XO (XI
    XH))))))) :: ((Npos (XO (XO (XI (XO (XO (XI XH))))))) :: ((Npos (XI (XO
    (XI (XO (XO (XI XH))))))) :: ((Npos (XI (XI (XI (XI (XI (XO
    XH))))))) :: ((Npos (XI (XI (XO (XO (XO (XI XH))))))) :: ((Npos (XI (XI
    (XI (XI (XO (XI XH))))))) :: ((Npos (XI (XO (XI (XI (XO (XI
    XH))))))) :: ((Npos (XI (XO (XI (XI (XO (XI XH))))))) :: ((Npos (XI (XO
    (XI (XO (XO (XI XH))))))) :: ((Npos (XO (XI (XI (XI (XO (XI
    XH))))))) :: ((Npos (XO (XO (XI (XO (XI (XI XH))))))) :: ((Npos (XI (XI
    (XO (XO (XI (XI XH))))))) :: [])))))))))))))))))), TBool) :: ((((Npos (XI
    (XO (XO (XO (XO (XI XH))))))) :: ((Npos (XO (XI (XI (XI (XO (XI
    XH))))))) :: ((Npos (XO (XI (XI (XI (XO (XI XH))))))) :: ((Npos (XI (XI
    (XI (XI (XO (XI XH))))))) :: ((Npos (XO (XO (XI (XO (XI (XI
    XH))))))) :: ((Npos (XI (XO (XO (XO (XO (XI XH))))))) :: ((Npos (XO (XO
    (XI (XO (XI (XI XH))))))) :: ((Npos (XI (XO (XO (XI (XO (XI
    XH))))))) :: ((Npos (XI (XI (XI (XI (XO (XI XH))))))) :: ((Npos (XO (XI
    (XI (XI (XO (XI XH))))))) :: ((Npos (XI (XI (XI (XI (XI (XO
    XH))))))) :: ((Npos (XO (XO (XI (XO (XI (XI XH))))))) :: ((Npos (XI (XO
    (XO (XI (XI (XI XH))))))) :: ((Npos (XO (XO (XO (XO (XI (XI
    XH))))))) :: ((Npos (XI (XO (XO (XI (XO (XI XH))))))) :: ((Npos (XO (XI
    (XI (XI (XO (XI XH))))))) :: ((Npos (XI (XI (XI (XO (XO (XI
    XH))))))) :: []))))))))))))))))), TBool) :: ((((Npos (XI (XO (XO (XI (XO
    (XI XH))))))) :: ((Npos (XO (XI (XI (XI (XO (XI XH))))))) :: ((Npos (XO
    (XI (XI (XO (XO (XI XH))))))) :: ((Npos (XI (XO (XI (XO (XO (XI
    XH))))))) :: ((Npos (XO (XI (XO (XO (XI (XI XH))))))) :: ((Npos (XI (XI
    (XI (XI (XI (XO XH))))))) :: ((Npos (XO (XO (XI (XO (XI (XI
    XH))))))) :: ((Npos (XI (XO (XO (XI (XI (XI XH))))))) :: ((Npos (XO (XO
    (XO (XO (XI (XI XH))))))) :: ((Npos (XI (XO (XI (XO (XO (XI
    XH))))))) :: ((Npos (XI (XI (XO (XO (XI (XI XH))))))) :: ((Npos (XO (XI
    (XI (XI (XO XH)))))) :: ((Npos (XO (XI (XI (XO (XI (XI
    XH))))))) :: ((Npos (XI (XO (XI (XO (XO (XI XH))))))) :: ((Npos (XO (XI
    (XO (XO (XI (XI XH))))))) :: ((Npos (XO (XI (XO (XO (XO (XI
    XH))))))) :: ((Npos (XI (XI (XI (XI (XO (XI XH))))))) :: ((Npos (XI (XI
    (XO (XO (XI (XI XH))))))) :: ((Npos (XI (XO (XI (XO (XO (XI
    XH))))))) :: []))))))))))))))))))), TBool) :: ((((Npos (XI (XO (XO (XO
    (XO (XI XH))))))) :: ((Npos (XI (XO (XI (XO (XI (XI XH))))))) :: ((Npos
    (XO (XO (XI (XO (XI (XI XH))))))) :: ((Npos (XI (XI (XI (XI (XO (XI
    XH))))))) :: ((Npos (XO (XO (XI (XO (XI (XI XH))))))) :: ((Npos (XI (XO
    (XI (XO (XO (XI XH))))))) :: ((Npos (XI (XI (XO (XO (XI (XI
    XH))))))) :: ((Npos (XO (XO (XI (XO (XI (XI XH))))))) :: ((Npos (XO (XO
    (XI (XO (XO (XI XH))))))) :: ((Npos (XI (XO (XO (XI (XO (XI
    XH))))))) :: ((Npos (XI (XI (XO (XO (XO (XI XH))))))) :: ((Npos (XO (XO
    (XI (XO (XI (XI XH))))))) :: [])))))))))))), TBool) :: ((((Npos (XI (XO
    (XO (XO (XO (XI XH))))))) :: ((Npos (XI (XO (XI (XO (XI (XI
    XH))))))) :: ((Npos (XO (XO (XI (XO (XI (XI XH))))))) :: ((Npos (XI (XI
    (XI (XI (XO (XI XH))))))) :: ((Npos (XO (XO (XI (XO (XI (XI
    XH))))))) :: ((Npos (XI (XO (XI (XO (XO (XI XH))))))) :: ((Npos (XI (XI
    (XO (XO (XI (XI XH))))))) :: ((Npos (XO (XO (XI (XO (XI (XI
    XH))))))) :: ((Npos (XO (XO (XI (XO (XO (XI XH))))))) :: ((Npos (XI (XO
    (XO (XI (XO (XI XH))))))) :: ((Npos (XI (XI (XO (XO (XO (XI
    XH))))))) :: ((Npos (XO (XO (XI (XO (XI (XI XH))))))) :: ((Npos (XO (XI
    (XI (XI (XO XH)))))) :: ((Npos (XI (XI (XO (XO (XO (XI
    XH))))))) :: ((Npos (XO (XO (XI (XO (XO (XI XH))))))) :: ((Npos (XI (XO
    (XI (XO (XO (XI XH))))))) :: ((Npos (XO (XI (XI (XO (XO (XI
    XH))))))) :: []))))))))))))))))), TBool) :: ((((Npos (XI (XO (XO (XO (XO
    (XI XH))))))) :: ((Npos (XI (XO (XI (XO (XI (XI XH))))))) :: ((Npos (XO
    (XO (XI (XO (XI (XI XH))))))) :: ((Npos (XI (XI (XI (XI (XO (XI
    XH))))))) :: ((Npos (XO (XO (XI (XO (XI (XI XH))))))) :: ((Npos (XI (XO
    (XI (XO (XO (XI XH))))))) :: ((Npos (XI (XI (XO (XO (XI (XI
    XH))))))) :: ((Npos (XO (XO (XI (XO (XI (XI XH))))))) :: ((Npos (XO (XO
    (XI (XO (XO (XI XH))))))) :: ((Npos (XI (XO (XO (XI (XO (XI
    XH))))))) :: ((Npos (XI (XI (XO (XO (XO (XI XH))))))) :: ((Npos (XO (XO
    (XI (XO (XI (XI XH))))))) :: ((Npos (XO (XI (XI (XI (XO
    XH)))))) :: ((Npos (XI (XO (XO (XO (XO (XI XH))))))) :: ((Npos (XO (XO
    (XI (XI (XO (XI XH))))))) :: ((Npos (XO (XO (XI (XI (XO (XI
    XH))))))) :: [])))))))))))))))), TBool) :: ((((Npos (XO (XI (XI (XO (XO
    (XI XH))))))) :: ((Npos (XI (XO (XO (XO (XO (XI XH))))))) :: ((Npos (XI
    (XI (XO (XO (XI (XI XH))))))) :: ((Npos (XO (XO (XI (XO (XI (XI
    XH))))))) :: ((Npos (XI (XI (XI (XI (XI (XO XH))))))) :: ((Npos (XI (XI
    (XI (XO (XO (XI XH))))))) :: ((Npos (XI (XO (XI (XO (XO (XI
    XH))))))) :: ((Npos (XO (XO (XI (XO (XI (XI XH))))))) :: ((Npos (XI (XO
    (XO (XO (XO (XI XH))))))) :: ((Npos (XO (XO (XI (XO (XI (XI
    XH))))))) :: ((Npos (XO (XO (XI (XO (XI (XI XH))))))) :: ((Npos (XO (XI
    (XO (XO (XI (XI XH))))))) :: [])))))))))))), TBool) :: ((((Npos (XO (XO
    (XO (XO (XI (XI XH))))))) :: ((Npos (XI (XO (XO (XI (XI (XI
    XH))))))) :: ((Npos (XO (XI (XO (XO (XI XH)))))) :: ((Npos (XI (XI (XI
    (XI (XI (XO XH))))))) :: ((Npos (XI (XO (XO (XI (XO (XI
    XH))))))) :: ((Npos (XI (XO (XI (XI (XO (XI XH))))))) :: ((Npos (XO (XO
    (XO (XO (XI (XI XH))))))) :: ((Npos (XI (XI (XI (XI (XO (XI
    XH))))))) :: ((Npos (XO (XI (XO (XO (XI (XI XH))))))) :: ((Npos (XO (XO
    (XI (XO (XI (XI XH))))))) :: [])))))))))), TBool) :: ((((Npos (XO (XO (XO
    (XO (XI (XI XH))))))) :: ((Npos (XO (XI (XO (XO (XI (XI
    XH))))))) :: ((Npos (XI (XO (XI (XO (XO (XI XH))))))) :: ((Npos (XO (XO
    (XI (XI (XO (XI XH))))))) :: ((Npos (XI (XO (XO (XI (XO (XI
    XH))))))) :: ((Npos (XI (XO (XI (XI (XO (XI XH))))))) :: ((Npos (XI (XO
    (XO (XI (XO (XI XH))))))) :: ((Npos (XO (XI (XI (XI (XO (XI
    XH))))))) :: ((Npos (XI (XO (XO (XO (XO (XI XH))))))) :: ((Npos (XO (XI
    (XO (XO (XI (XI XH))))))) :: ((Npos (XI (XO (XO (XI (XI (XI
    XH))))))) :: ((Npos (XI (XI (XI (XI (XI (XO XH))))))) :: ((Npos (XO (XO
    (XI (XI (XO (XI XH))))))) :: ((Npos (XI (XO (XO (XO (XO (XI
    XH))))))) :: ((Npos (XO (XO (XI (XO (XI (XI XH))))))) :: ((Npos (XI (XO
    (XI (XO (XO (XI XH))))))) :: ((Npos (XI (XI (XI (XI (XI (XO
    XH))))))) :: ((Npos (XI (XO (XO (XI (XO (XI XH))))))) :: ((Npos (XO (XI
    (XI (XI (XO (XI XH))))))) :: ((Npos (XI (XI (XO (XO (XO (XI
    XH))))))) :: ((Npos (XO (XO (XI (XI (XO (XI XH))))))) :: ((Npos (XI (XO
    (XI (XO (XI (XI XH))))))) :: ((Npos (XO (XO (XI (XO (XO (XI
    XH))))))) :: ((Npos (XI (XO (XI (XO (XO (XI XH))))))) :: ((Npos (XI (XI
    (XO (XO (XI (XI XH))))))) :: ((Npos (XI (XI (XI (XI (XI (XO
    XH))))))) :: ((Npos (XI (XI (XO (XO (XO (XI XH))))))) :: ((Npos (XI (XO
    (XO (XI (XI (XI XH))))))) :: ((Npos (XO (XI (XO (XO (XI
    XH)))))) :: ((Npos (XO (XO (XO (XI (XI
    XH)))))) :: [])))))))))))))))))))))))))))))), TBool) :: ((((Npos (XI (XO
    (XO (XI (XO (XI XH))))))) :: ((Npos (XO (XO (XI (XO (XI (XI
    XH))))))) :: ((Npos (XI (XO (XI (XO (XO (XI XH))))))) :: ((Npos (XO (XI
    (XO (XO (XI (XI XH))))))) :: ((Npos (XI (XO (XO (XO (XO (XI
    XH))))))) :: ((Npos (XO (XI (XO (XO (XO (XI XH))))))) :: ((Npos (XO (XO
    (XI (XI (XO (XI XH))))))) :: ((Npos (XI (XO (XI (XO (XO (XI
    XH))))))) :: ((Npos (XI (XI (XI (XI (XI (XO XH))))))) :: ((Npos (XI (XI
    (XO (XO (XO (XI XH))))))) :: ((Npos (XI (XI (XI (XI (XO (XI
    XH))))))) :: ((Npos (XO (XI (XO (XO (XI (XI XH))))))) :: ((Npos (XI (XI
    (XI (XI (XO (XI XH))))))) :: ((Npos (XI (XO (XI (XO (XI (XI
    XH))))))) :: ((Npos (XO (XO (XI (XO (XI (XI XH))))))) :: ((Npos (XI (XO
    (XO (XI (XO (XI XH))))))) :: ((Npos (XO (XI (XI (XI (XO (XI
    XH))))))) :: ((Npos (XI (XO (XI (XO (XO (XI
    XH))))))) :: [])))))))))))))))))), TBool) :: ((((Npos (XO (XO (XI (XO (XI
    (XI XH))))))) :: ((Npos (XI (XO (XO (XI (XI (XI XH))))))) :: ((Npos (XO
    (XO (XO (XO (XI (XI XH))))))) :: ((Npos (XI (XO (XI (XO (XO (XI
    XH))))))) :: ((Npos (XI (XI (XI (XI (XI (XO XH))))))) :: ((Npos (XO (XI
    (XI (XO (XI (XI XH))))))) :: ((Npos (XI (XO (XI (XO (XO (XI
    XH))))))) :: ((Npos (XO (XI (XO (XO (XI (XI XH))))))) :: ((Npos (XI (XI
    (XO (XO (XI (XI XH))))))) :: ((Npos (XI (XO (XO (XI (XO (XI
    XH))))))) :: ((Npos (XI (XI (XI (XI (XO (XI XH))))))) :: ((Npos (XO (XI
    (XI (XI (XO (XI XH))))))) :: ((Npos (XI (XI (XI (XI (XI (XO
    XH))))))) :: ((Npos (XO (XO (XI (XO (XI (XI XH))))))) :: ((Npos (XI (XO
    (XO (XO (XO (XI XH))))))) :: ((Npos (XI (XI (XI (XO (XO (XI
    XH))))))) :: [])))))))))))))))), TBool) :: ((((Npos (XI (XO (XI (XO (XI
    (XI XH))))))) :: ((Npos (XO (XI (XI (XI (XO (XI XH))))))) :: ((Npos (XO
    (XI (XO (XO (XI (XI XH))))))) :: ((Npos (XI (XO (XO (XO (XO (XI
    XH))))))) :: ((Npos (XI (XO (XO (XI (XO (XI XH))))))) :: ((Npos (XI (XI
    (XO (XO (XI (XI XH))))))) :: ((Npos (XI (XO (XO (XO (XO (XI
    XH))))))) :: ((Npos (XO (XI (XO (XO (XO (XI XH))))))) :: ((Npos (XO (XO
    (XI (XI (XO (XI XH))))))) :: ((Npos (XI (XO (XI (XO (XO (XI
    XH))))))) :: ((Npos (XI (XI (XI (XI (XI (XO XH))))))) :: ((Npos (XO (XO
    (XI (XO (XI (XI XH))))))) :: ((Npos (XO (XI (XO (XO (XI (XI
    XH))))))) :: ((Npos (XI (XO (XO (XO (XO (XI XH))))))) :: ((Npos (XI (XI
    (XO (XO (XO (XI XH))))))) :: ((Npos (XI (XO (XI (XO (XO (XI
    XH))))))) :: ((Npos (XO (XI (XO (XO (XO (XI XH))))))) :: ((Npos (XI (XO
    (XO (XO (XO (XI XH))))))) :: ((Npos (XI (XI (XO (XO (XO (XI
    XH))))))) :: ((Npos (XI (XI (XO (XI (XO (XI XH))))))) :: ((Npos (XI (XI
    (XO (XO (XI (XI XH))))))) :: []))))))))))))))))))))), TBool) :: ((((Npos
    (XI (XI (XI (XI (XO (XI XH))))))) :: ((Npos (XO (XO (XI (XI (XO (XI
    XH))))))) :: ((Npos (XO (XO (XI (XO (XO (XI XH))))))) :: ((Npos (XI (XI
    (XI (XI (XI (XO XH))))))) :: ((Npos (XI (XI (XO (XO (XI (XI
    XH))))))) :: ((Npos (XO (XO (XI (XO (XI (XI XH))))))) :: ((Npos (XI (XO
    (XO (XI (XI (XI XH))))))) :: ((Npos (XO (XO (XI (XI (XO (XI
    XH))))))) :: ((Npos (XI (XO (XI (XO (XO (XI XH))))))) :: ((Npos (XI (XI
    (XI (XI (XI (XO XH))))))) :: ((Npos (XI (XI (XI (XO (XO (XI
    XH))))))) :: ((Npos (XO (XO (XI (XI (XO (XI XH))))))) :: ((Npos (XI (XI
    (XI (XI (XO (XI XH))))))) :: ((Npos (XO (XI (XO (XO (XO (XI
    XH))))))) :: ((Npos (XI (XO (XO (XO (XO (XI XH))))))) :: ((Npos (XO (XO
    (XI (XI (XO (XI XH))))))) :: ((Npos (XI (XI (XO (XO (XI (XI
    XH))))))) :: []))))))))))))))))), TBool) :: ((((Npos (XO (XI (XI (XI (XO
    (XI XH))))))) :: ((Npos (XO (XO (XO (XO (XI (XI XH))))))) :: ((Npos (XI
    (XI (XI (XI (XI (XO XH))))))) :: ((Npos (XO (XO (XO (XO (XI (XI
    XH))))))) :: ((Npos (XI (XO (XO (XI (XI (XI XH))))))) :: ((Npos (XO (XO
    (XI (XO (XI (XI XH))))))) :: ((Npos (XO (XO (XO (XI (XO (XI
    XH))))))) :: ((Npos (XO (XI (XO (XO (XI (XI XH))))))) :: ((Npos (XI (XO
    (XO (XO (XO (XI XH))))))) :: ((Npos (XO (XI (XI (XI (XO (XI
    XH))))))) :: [])))))))))), TBool) :: ((((Npos (XO (XI (XI (XO (XO (XI
    XH))))))) :: ((Npos (XI (XO (XO (XO (XO (XI XH))))))) :: ((Npos (XI (XI
    (XO (XO (XI (XI XH))))))) :: ((Npos (XO (XO (XI (XO (XI (XI
    XH))))))) :: ((Npos (XI (XI (XI (XI (XI (XO XH))))))) :: ((Npos (XI (XI
    (XI (XO (XO (XI XH))))))) :: ((Npos (XI (XO (XO (XI (XO (XI
    XH))))))) :: ((Npos (XO (XO (XI (XI (XO (XI XH))))))) :: [])))))))),
    TBool) :: ((((Npos (XI (XI (XO (XO (XO (XI XH))))))) :: ((Npos (XO (XO
    (XO (XO (XI (XI XH))))))) :: ((Npos (XO (XO (XO (XO (XI (XI
    XH))))))) :: ((Npos (XI (XI (XI (XI (XI (XO XH))))))) :: ((Npos (XO (XO
    (XI (XI (XO (XI XH))))))) :: ((Npos (XI (XI (XI (XI (XO (XI
    XH))))))) :: ((Npos (XI (XI (XO (XO (XO (XI XH))))))) :: ((Npos (XI (XO
    (XO (XO (XO (XI XH))))))) :: ((Npos (XO (XO (XI (XI (XO (XI
    XH))))))) :: ((Npos (XI (XI (XO (XO (XI (XI XH))))))) :: [])))))))))),
    TBool) :: ((((Npos (XO (XO (XI (XI (XO (XI XH))))))) :: ((Npos (XI (XO
    (XI (XO (XO (XI XH))))))) :: ((Npos (XI (XI (XI (XO (XO (XI
    XH))))))) :: ((Npos (XI (XO (XO (XO (XO (XI XH))))))) :: ((Npos (XI (XI
    (XO (XO (XO (XI XH))))))) :: ((Npos (XI (XO (XO (XI (XI (XI
    XH))))))) :: ((Npos (XI (XI (XI (XI (XI (XO XH))))))) :: ((Npos (XI (XO
    (XO (XI (XO (XI XH))))))) :: ((Npos (XI (XO (XI (XI (XO (XI
    XH))))))) :: ((Npos (XO (XO (XO (XO (XI (XI XH))))))) :: ((Npos (XO (XO
    (XI (XI (XO (XI XH))))))) :: ((Npos (XI (XO (XO (XI (XO (XI
    XH))))))) :: ((Npos (XI (XI (XO (XO (XO (XI XH))))))) :: ((Npos (XI (XO
    (XO (XI (XO (XI XH))))))) :: ((Npos (XO (XO (XI (XO (XI (XI
    XH))))))) :: ((Npos (XI (XI (XI (XI (XI (XO XH))))))) :: ((Npos (XO (XI
    (XI (XI (XO (XI XH))))))) :: ((Npos (XI (XI (XI (XI (XO (XI
    XH))))))) :: ((Npos (XI (XO (XI (XO (XO (XI XH))))))) :: ((Npos (XO (XO
    (XO (XI (XI (XI XH))))))) :: ((Npos (XI (XI (XO (XO (XO (XI
    XH))))))) :: ((Npos (XI (XO (XI (XO (XO (XI XH))))))) :: ((Npos (XO (XO
    (XO (XO (XI (XI XH))))))) :: ((Npos (XO (XO (XI (XO (XI (XI
    XH))))))) :: [])))))))))))))))))))))))), TBool) :: ((((Npos (XI (XI (XO
    (XO (XO (XI XH))))))) :: ((Npos (XI (XI (XI (XI (XI (XO
    XH))))))) :: ((Npos (XI (XI (XO (XO (XO (XI XH))))))) :: ((Npos (XI (XI
    (XI (XI (XO (XI XH))))))) :: ((Npos (XI (XO (XI (XI (XO (XI
    XH))))))) :: ((Npos (XO (XO (XO (XO (XI (XI XH))))))) :: ((Npos (XI (XO
    (XO (XI (XO (XI XH))))))) :: ((Npos (XO (XO (XI (XI (XO (XI
    XH))))))) :: ((Npos (XI (XO (XI (XO (XO (XI XH))))))) :: ((Npos (XI (XI
    (XI (XI (XI (XO XH))))))) :: ((Npos (XI (XI (XI (XO (XO (XI
    XH))))))) :: ((Npos (XI (XO (XI (XO (XI (XI XH))))))) :: ((Npos (XI (XO
    (XO (XO (XO (XI XH))))))) :: ((Npos (XO (XI (XO (XO (XI (XI
    XH))))))) :: ((Npos (XO (XO (XI (XO (XO (XI
    XH))))))) :: []))))))))))))))), TStr) :: ((((Npos (XI (XI (XI (XO (XI (XI
    XH))))))) :: ((Npos (XI (XO (XO (XO (XO (XI XH))))))) :: ((Npos (XO (XI
    (XO (XO (XI (XI XH))))))) :: ((Npos (XO (XI (XI (XI (XO (XI
    XH))))))) :: [])))), TDefer) :: ((((Npos (XI (XI (XI (XO (XI (XI
    XH))))))) :: ((Npos (XI (XO (XO (XO (XO (XI XH))))))) :: ((Npos (XO (XI
    (XO (XO (XI (XI XH))))))) :: ((Npos (XO (XI (XI (XI (XO (XI
    XH))))))) :: ((Npos (XO (XI (XI (XI (XO XH)))))) :: ((Npos (XI (XO (XI
    (XO (XI (XI XH))))))) :: ((Npos (XO (XI (XI (XI (XO (XI
    XH))))))) :: ((Npos (XO (XO (XI (XO (XO (XI XH))))))) :: ((Npos (XI (XO
    (XI (XO (XO (XI XH))))))) :: ((Npos (XI (XI (XO (XO (XO (XI
    XH))))))) :: ((Npos (XO (XO (XI (XI (XO (XI XH))))))) :: ((Npos (XI (XO
    (XO (XO (XO (XI XH))))))) :: ((Npos (XO (XI (XO (XO (XI (XI
    XH))))))) :: ((Npos (XI (XO (XI (XO (XO (XI XH))))))) :: ((Npos (XO (XO
    (XI (XO (XO (XI XH))))))) :: []))))))))))))))), TBool) :: ((((Npos (XI
    (XI (XI (XO (XI (XI XH))))))) :: ((Npos (XI (XO (XO (XO (XO (XI
    XH))))))) :: ((Npos (XO (XI (XO (XO (XI (XI XH))))))) :: ((Npos (XO (XI
    (XI (XI (XO (XI XH))))))) :: ((Npos (XO (XI (XI (XI (XO
    XH)))))) :: ((Npos (XI (XO (XI (XO (XI (XI XH))))))) :: ((Npos (XO (XI
    (XI (XI (XO (XI XH))))))) :: ((Npos (XO (XI (XO (XO (XI (XI
    XH))))))) :: ((Npos (XI (XO (XI (XO (XO (XI XH))))))) :: ((Npos (XI (XO
    (XO (XO (XO (XI XH))))))) :: ((Npos (XI (XI (XO (XO (XO (XI
    XH))))))) :: ((Npos (XO (XO (XO (XI (XO (XI XH))))))) :: ((Npos (XI (XO
    (XO (XO (XO (XI XH))))))) :: ((Npos (XO (XI (XO (XO (XO (XI
    XH))))))) :: ((Npos (XO (XO (XI (XI (XO (XI XH))))))) :: ((Npos (XI (XO
    (XI (XO (XO (XI XH))))))) :: [])))))))))))))))), TBool) :: ((((Npos (XI
    (XI (XI (XO (XI (XI XH))))))) :: ((Npos (XI (XO (XO (XO (XO (XI
    XH))))))) :: ((Npos (XO (XI (XO (XO (XI (XI XH))))))) :: ((Npos (XO (XI
    (XI (XI (XO (XI XH))))))) :: ((Npos (XO (XI (XI (XI (XO
    XH)))))) :: ((Npos (XI (XO (XI (XI (XO (XI XH))))))) :: ((Npos (XI (XO
    (XO (XO (XO (XI XH))))))) :: ((Npos (XI (XO (XO (XI (XI (XI
    XH))))))) :: ((Npos (XO (XI (XO (XO (XO (XI XH))))))) :: ((Npos (XI (XO
    (XI (XO (XO (XI XH))))))) :: ((Npos (XI (XI (XI (XI (XI (XO
    XH))))))) :: ((Npos (XI (XO (XI (XO (XI (XI XH))))))) :: ((Npos (XO (XI
    (XI (XI (XO (XI XH))))))) :: ((Npos (XI (XO (XO (XI (XO (XI
    XH))))))) :: ((Npos (XO (XI (XI (XI (XO (XI XH))))))) :: ((Npos (XI (XO
    (XO (XI (XO (XI XH))))))) :: ((Npos (XO (XO (XI (XO (XI (XI
    XH))))))) :: ((Npos (XI (XO (XO (XI (XO (XI XH))))))) :: ((Npos (XI (XO
    (XO (XO (XO (XI XH))))))) :: ((Npos (XO (XO (XI (XI (XO (XI
    XH))))))) :: ((Npos (XI (XO (XO (XI (XO (XI XH))))))) :: ((Npos (XO (XI
    (XO (XI (XI (XI XH))))))) :: ((Npos (XI (XO (XI (XO (XO (XI
    XH))))))) :: ((Npos (XO (XO (XI (XO (XO (XI
    XH))))))) :: [])))))))))))))))))))))))), TBool) :: ((((Npos (XI (XI (XI
    (XO (XI (XI XH))))))) :: ((Npos (XI (XO (XO (XO (XO (XI
    XH))))))) :: ((Npos (XO (XI (XO (XO (XI (XI XH))))))) :: ((Npos (XO (XI
    (XI (XI (XO (XI XH))))))) :: ((Npos (XO (XI (XI (XI (XO
    XH)))))) :: ((Npos (XI (XO (XI (XO (XI (XI XH))))))) :: ((Npos (XO (XI
    (XI (XI (XO (XI XH))))))) :: ((Npos (XI (XO (XI (XO (XI (XI
    XH))))))) :: ((Npos (XI (XI (XO (XO (XI (XI XH))))))) :: ((Npos (XI (XO
    (XI (XO (XO (XI XH))))))) :: ((Npos (XO (XO (XI (XO (XO (XI
    XH))))))) :: []))))))))))), TBool) :: ((((Npos (XI (XI (XI (XO (XI (XI
    XH))))))) :: ((Npos (XI (XO (XO (XO (XO (XI XH))))))) :: ((Npos (XO (XI
    (XO (XO (XI (XI XH))))))) :: ((Npos (XO (XI (XI (XI (XO (XI
    XH))))))) :: ((Npos (XO (XI (XI (XI (XO XH)))))) :: ((Npos (XI (XO (XI
    (XO (XI (XI XH))))))) :: ((Npos (XO (XI (XI (XI (XO (XI
    XH))))))) :: ((Npos (XI (XO (XI (XO (XI (XI XH))))))) :: ((Npos (XI (XI
    (XO (XO (XI (XI XH))))))) :: ((Npos (XI (XO (XI (XO (XO (XI
    XH))))))) :: ((Npos (XO (XO (XI (XO (XO (XI XH))))))) :: ((Npos (XI (XI
    (XI (XI (XI (XO XH))))))) :: ((Npos (XI (XO (XO (XO (XO (XI
    XH))))))) :: ((Npos (XO (XI (XO (XO (XI (XI XH))))))) :: ((Npos (XI (XI
    (XI (XO (XO (XI XH))))))) :: []))))))))))))))), TBool) :: ((((Npos (XI
    (XI (XI (XO (XI (XI XH))))))) :: ((Npos (XI (XO (XO (XO (XO (XI
    XH))))))) :: ((Npos (XO (XI (XO (XO (XI (XI XH))))))) :: ((Npos (XO (XI
    (XI (XI (XO (XI XH))))))) :: ((Npos (XO (XI (XI (XI (XO
    XH)))))) :: ((Npos (XI (XO (XI (XO (XI (XI XH))))))) :: ((Npos (XO (XI
    (XI (XI (XO (XI XH))))))) :: ((Npos (XI (XO (XI (XO (XI (XI
    XH))))))) :: ((Npos (XI (XI (XO (XO (XI (XI XH))))))) :: ((Npos (XI (XO
    (XI (XO (XO (XI XH))))))) :: ((Npos (XO (XO (XI (XO (XO (XI
    XH))))))) :: ((Npos (XI (XI (XI (XI (XI (XO XH))))))) :: ((Npos (XO (XI
    (XO (XO (XI (XI XH))))))) :: ((Npos (XI (XO (XI (XO (XO (XI
    XH))))))) :: ((Npos (XI (XI (XO (XO (XI (XI XH))))))) :: ((Npos (XI (XO
    (XI (XO (XI (XI XH))))))) :: ((Npos (XO (XO (XI (XI (XO (XI
    XH))))))) :: ((Npos (XO (XO (XI (XO (XI (XI
    XH))))))) :: [])))))))))))))))))), TBool) :: ((((Npos (XI (XI (XI (XO (XI
    (XI XH))))))) :: ((Npos (XI (XO (XO (XO (XO (XI XH))))))) :: ((Npos (XO
    (XI (XO (XO (XI (XI XH))))))) :: ((Npos (XO (XI (XI (XI (XO (XI
    XH))))))) :: ((Npos (XO (XI (XI (XI (XO XH)))))) :: ((Npos (XI (XO (XI
    (XI (XO (XI XH))))))) :: ((Npos (XI (XO (XI (XO (XI (XI
    XH))))))) :: ((Npos (XO (XO (XI (XI (XO (XI XH))))))) :: ((Npos (XO (XO
    (XI (XO (XI (XI XH))))))) :: ((Npos (XI (XO (XO (XI (XO (XI
    XH))))))) :: ((Npos (XO (XO (XO (XO (XI (XI XH))))))) :: ((Npos (XO (XO
    (XI (XI (XO (XI XH))))))) :: ((Npos (XI (XO (XI (XO (XO (XI
    XH))))))) :: ((Npos (XI (XI (XI (XI (XI (XO XH))))))) :: ((Npos (XO (XO
    (XI (XO (XO (XI XH))))))) :: ((Npos (XI (XO (XI (XO (XO (XI
    XH))))))) :: ((Npos (XI (XI (XO (XO (XO (XI XH))))))) :: ((Npos (XO (XO
    (XI (XI (XO (XI XH))))))) :: ((Npos (XI (XO (XO (XO (XO (XI
    XH))))))) :: ((Npos (XO (XI (XO (XO (XI (XI XH))))))) :: ((Npos (XI (XO
    (XO (XO (XO (XI XH))))))) :: ((Npos (XO (XO (XI (XO (XI (XI
    XH))))))) :: ((Npos (XI (XI (XI (XI (XO (XI XH))))))) :: ((Npos (XO (XI
    (XO (XO (XI (XI XH))))))) :: ((Npos (XI (XI (XO (XO (XI (XI
    XH))))))) :: []))))))))))))))))))))))))), TBool) :: ((((Npos (XI (XI (XI
    (XO (XI (XI XH))))))) :: ((Npos (XI (XO (XO (XO (XO (XI
    XH))))))) :: ((Npos (XO (XI (XO (XO (XI (XI XH))))))) :: ((Npos (XO (XI
    (XI (XI (XO (XI XH))))))) :: ((Npos (XO (XI (XI (XI (XO
    XH)))))) :: ((Npos (XO (XO (XI (XO (XO (XI XH))))))) :: ((Npos (XI (XO
    (XI (XO (XO (XI XH))))))) :: ((Npos (XO (XO (XO (XO (XI (XI
    XH))))))) :: ((Npos (XO (XI (XO (XO (XI (XI XH))))))) :: ((Npos (XI (XO
    (XI (XO (XO (XI XH))))))) :: ((Npos (XI (XI (XO (XO (XO (XI
    XH))))))) :: ((Npos (XI (XO (XO (XO (XO (XI XH))))))) :: ((Npos (XO (XO
    (XI (XO (XI (XI XH))))))) :: ((Npos (XI (XO (XI (XO (XO (XI
    XH))))))) :: ((Npos (XO (XO (XI (XO (XO (XI XH))))))) :: ((Npos (XO (XI
    (XI (XI (XO XH)))))) :: ((Npos (XO (XO (XI (XO (XO (XO
    XH))))))) :: ((Npos (XI (XO (XI (XO (XO (XO XH))))))) :: ((Npos (XO (XI
    (XI (XO (XO (XO XH))))))) :: []))))))))))))))))))), TBool) :: ((((Npos
    (XI (XI (XI (XO (XI (XI XH))))))) :: ((Npos (XI (XO (XO (XO (XO (XI
    XH))))))) :: ((Npos (XO (XI (XO (XO (XI (XI XH))))))) :: ((Npos (XO (XI
    (XI (XI (XO (XI XH))))))) :: ((Npos (XO (XI (XI (XI (XO
    XH)))))) :: ((Npos (XO (XO (XI (XO (XO (XI XH))))))) :: ((Npos (XI (XO
    (XI (XO (XO (XI XH))))))) :: ((Npos (XO (XO (XO (XO (XI (XI
    XH))))))) :: ((Npos (XO (XI (XO (XO (XI (XI XH))))))) :: ((Npos (XI (XO
    (XI (XO (XO (XI XH))))))) :: ((Npos (XI (XI (XO (XO (XO (XI
    XH))))))) :: ((Npos (XI (XO (XO (XO (XO (XI XH))))))) :: ((Npos (XO (XO
    (XI (XO (XI (XI XH))))))) :: ((Npos (XI (XO (XI (XO (XO (XI
    XH))))))) :: ((Npos (XO (XO (XI (XO (XO (XI XH))))))) :: ((Npos (XO (XI
    (XI (XI (XO XH)))))) :: ((Npos (XI (XO (XO (XI (XO (XO
    XH))))))) :: ((Npos (XO (XI (XI (XO (XO (XO
    XH))))))) :: [])))))))))))))))))), TBool) :: ((((Npos (XI (XI (XO (XO (XI
    (XI XH))))))) :: ((Npos (XO (XO (XO (XI (XO (XI XH))))))) :: ((Npos (XI
    (XI (XI (XI (XO (XI XH))))))) :: ((Npos (XI (XI (XI (XO (XI (XI
    XH))))))) :: ((Npos (XI (XI (XI (XI (XI (XO XH))))))) :: ((Npos (XO (XO
    (XO (XO (XI (XI XH))))))) :: ((Npos (XI (XO (XI (XO (XO (XI
    XH))))))) :: ((Npos (XO (XI (XO (XO (XI (XI XH))))))) :: ((Npos (XO (XI
    (XI (XO (XO (XI XH))))))) :: ((Npos (XI (XI (XI (XI (XO (XI
    XH))))))) :: ((Npos (XO (XI (XO (XO (XI (XI XH))))))) :: ((Npos (XI (XO
    (XI (XI (XO (XI XH))))))) :: ((Npos (XI (XO (XO (XO (XO (XI
    XH))))))) :: ((Npos (XO (XI (XI (XI (XO (XI XH))))))) :: ((Npos (XI (XI
    (XO (XO (XO (XI XH))))))) :: ((Npos (XI (XO (XI (XO (XO (XI
    XH))))))) :: ((Npos (XI (XI (XI (XI (XI (XO XH))))))) :: ((Npos (XO (XO
    (XO (XI (XO (XI XH))))))) :: ((Npos (XI (XO (XO (XI (XO (XI
    XH))))))) :: ((Npos (XO (XI (XI (XI (XO (XI XH))))))) :: ((Npos (XO (XO
    (XI (XO (XI (XI XH))))))) :: ((Npos (XI (XI (XO (XO (XI (XI
    XH))))))) :: [])))))))))))))))))))))), TBool) :: ((((Npos (XI (XI (XI (XI
    (XO (XI XH))))))) :: ((Npos (XO (XO (XO (XO (XI (XI XH))))))) :: ((Npos
    (XO (XO (XI (XO (XI (XI XH))))))) :: ((Npos (XI (XO (XO (XI (XO (XI
    XH))))))) :: ((Npos (XI (XO (XI (XI (XO (XI XH))))))) :: ((Npos (XI (XO
    (XO (XI (XO (XI XH))))))) :: ((Npos (XO (XI (XO (XI (XI (XI
    XH))))))) :: ((Npos (XI (XO (XI (XO (XO (XI XH))))))) :: ((Npos (XO (XI
    (XI (XI (XO XH)))))) :: ((Npos (XI (XO (XO (XI (XO (XI
    XH))))))) :: ((Npos (XO (XI (XI (XI (XO (XI XH))))))) :: ((Npos (XO (XO
    (XI (XI (XO (XI XH))))))) :: ((Npos (XI (XO (XO (XI (XO (XI
    XH))))))) :: ((Npos (XO (XI (XI (XI (XO (XI XH))))))) :: ((Npos (XI (XO
    (XI (XO (XO (XI XH))))))) :: ((Npos (XI (XI (XI (XI (XI (XO
    XH))))))) :: ((Npos (XO (XO (XI (XO (XO (XI XH))))))) :: ((Npos (XI (XO
    (XI (XO (XO (XI XH))))))) :: ((Npos (XO (XI (XI (XO (XO (XI
    XH))))))) :: ((Npos (XO (XI (XI (XI (XO (XI XH))))))) :: ((Npos (XI (XI
    (XI (XI (XO (XI XH))))))) :: ((Npos (XO (XO (XI (XO (XO (XI
    XH))))))) :: ((Npos (XI (XO (XI (XO (XO (XI XH))))))) :: ((Npos (XI (XI
    (XI (XI (XI (XO XH))))))) :: ((Npos (XI (XI (XO (XO (XO (XI
    XH))))))) :: ((Npos (XI (XO (XO (XO (XO (XI XH))))))) :: ((Npos (XO (XO
    (XI (XI (XO (XI XH))))))) :: ((Npos (XO (XO (XI (XI (XO (XI
    XH))))))) :: ((Npos (XI (XI (XO (XO (XI (XI
    XH))))))) :: []))))))))))))))))))))))))))))), TBool) :: ((((Npos (XI (XI
    (XI (XI (XO (XI XH))))))) :: ((Npos (XO (XO (XO (XO (XI (XI
    XH))))))) :: ((Npos (XO (XO (XI (XO (XI (XI XH))))))) :: ((Npos (XI (XO
    (XO (XI (XO (XI XH))))))) :: ((Npos (XI (XO (XI (XI (XO (XI
    XH))))))) :: ((Npos (XI (XO (XO (XI (XO (XI XH))))))) :: ((Npos (XO (XI
    (XO (XI (XI (XI XH))))))) :: ((Npos (XI (XO (XI (XO (XO (XI
    XH))))))) :: ((Npos (XO (XI (XI (XI (XO XH)))))) :: ((Npos (XI (XO (XI
    (XO (XI (XI XH))))))) :: ((Npos (XO (XI (XI (XI (XO (XI
    XH))))))) :: ((Npos (XO (XO (XO (XO (XI (XI XH))))))) :: ((Npos (XI (XO
    (XO (XO (XO (XI XH))))))) :: ((Npos (XI (XI (XO (XO (XO (XI
    XH))))))) :: ((Npos (XI (XI (XO (XI (XO (XI XH))))))) :: ((Npos (XI (XI
    (XI (XI (XI (XO XH))))))) :: ((Npos (XI (XO (XI (XI (XO (XI
    XH))))))) :: ((Npos (XI (XO (XI (XO (XO (XI XH))))))) :: ((Npos (XO (XO
    (XI (XO (XI (XI XH))))))) :: ((Npos (XO (XO (XO (XI (XO (XI
    XH))))))) :: ((Npos (XI (XI (XI (XI (XO (XI XH))))))) :: ((Npos (XO (XO
    (XI (XO (XO (XI XH))))))) :: ((Npos (XI (XI (XI (XI (XI (XO
    XH))))))) :: ((Npos (XI (XI (XO (XO (XO (XI XH))))))) :: ((Npos (XI (XO
    (XO (XO (XO (XI XH))))))) :: ((Npos (XO (XO (XI (XI (XO (XI
    XH))))))) :: ((Npos (XO (XO (XI (XI (XO (XI XH))))))) :: ((Npos (XI (XI
    (XO (XO (XI (XI XH))))))) :: [])))))))))))))))))))))))))))),
    TBool) :: ((((Npos (XI (XI (XI (XI (XO (XI XH))))))) :: ((Npos (XO (XO
    (XO (XO (XI (XI XH))))))) :: ((Npos (XO (XO (XI (XO (XI (XI
    XH))))))) :: ((Npos (XI (XO (XO (XI (XO (XI XH))))))) :: ((Npos (XI (XO
    (XI (XI (XO (XI XH))))))) :: ((Npos (XI (XO (XO (XI (XO (XI
    XH))))))) :: ((Npos (XO (XI (XO (XI (XI (XI XH))))))) :: ((Npos (XI (XO
    (XI (XO (XO (XI XH))))))) :: ((Npos (XO (XI (XI (XI (XO
    XH)))))) :: ((Npos (XI (XO (XI (XO (XI (XI XH))))))) :: ((Npos (XO (XI
    (XI (XI (XO (XI XH))))))) :: ((Npos (XO (XO (XO (XO (XI (XI
    XH))))))) :: ((Npos (XI (XO (XO (XO (XO (XI XH))))))) :: ((Npos (XI (XI
    (XO (XO (XO (XI XH))))))) :: ((Npos (XI (XI (XO (XI (XO (XI
    XH))))))) :: ((Npos (XI (XI (XI (XI (XI (XO XH))))))) :: ((Npos (XI (XO
    (XI (XI (XO (XI XH))))))) :: ((Npos (XI (XO (XI (XO (XO (XI
    XH))))))) :: ((Npos (XO (XO (XI (XO (XI (XI XH))))))) :: ((Npos (XO (XO
    (XO (XI (XO (XI XH))))))) :: ((Npos (XI (XI (XI (XI (XO (XI
    XH))))))) :: ((Npos (XO (XO (XI (XO (XO (XI XH))))))) :: ((Npos (XI (XI
    (XI (XI (XI (XO XH))))))) :: ((Npos (XI (XI (XO (XO (XO (XI
    XH))))))) :: ((Npos (XI (XO (XO (XO (XO (XI XH))))))) :: ((Npos (XO (XO
    (XI (XI (XO (XI XH))))))) :: ((Npos (XO (XO (XI (XI (XO (XI
    XH))))))) :: ((Npos (XI (XI (XO (XO (XI (XI XH))))))) :: ((Npos (XI (XI
    (XI (XI (XI (XO XH))))))) :: ((Npos (XI (XO (XO (XI (XO (XI
    XH))))))) :: ((Npos (XO (XI (XI (XI (XO (XI XH))))))) :: ((Npos (XI (XI
    (XI (XI (XI (XO XH))))))) :: ((Npos (XO (XO (XO (XO (XI (XI
    XH))))))) :: ((Npos (XI (XO (XO (XI (XI (XI XH))))))) :: ((Npos (XI (XO
    (XO (XI (XO (XI XH))))))) :: ((Npos (XO (XI (XI (XI (XO (XI
    XH))))))) :: ((Npos (XI (XO (XO (XI (XO (XI XH))))))) :: ((Npos (XO (XO
    (XI (XO (XI (XI XH))))))) :: [])))))))))))))))))))))))))))))))))))))),
    TBool) :: ((((Npos (XI (XI (XI (XI (XO (XI XH))))))) :: ((Npos (XO (XO
    (XO (XO (XI (XI XH))))))) :: ((Npos (XO (XO (XI (XO (XI (XI
    XH))))))) :: ((Npos (XI (XO (XO (XI (XO (XI XH))))))) :: ((Npos (XI (XO
    (XI (XI (XO (XI XH))))))) :: ((Npos (XI (XO (XO (XI (XO (XI
    XH))))))) :: ((Npos (XO (XI (XO (XI (XI (XI XH))))))) :: ((Npos (XI (XO
    (XI (XO (XO (XI XH))))))) :: ((Npos (XO (XI (XI (XI (XO
    XH)))))) :: ((Npos (XI (XO (XI (XO (XI (XI XH))))))) :: ((Npos (XI (XI
    (XO (XO (XI (XI XH))))))) :: ((Npos (XI (XO (XI (XO (XO (XI
    XH))))))) :: ((Npos (XI (XI (XI (XI (XI (XO XH))))))) :: ((Npos (XI (XI
    (XO (XO (XI (XI XH))))))) :: ((Npos (XI (XI (XI (XO (XI (XI
    XH))))))) :: ((Npos (XI (XO (XO (XI (XO (XI XH))))))) :: ((Npos (XO (XO
    (XI (XO (XI (XI XH))))))) :: ((Npos (XI (XI (XO (XO (XO (XI
    XH))))))) :: ((Npos (XO (XO (XO (XI (XO (XI
    XH))))))) :: []))))))))))))))))))), TBool) :: ((((Npos (XO (XI (XO (XO
    (XI (XI XH))))))) :: ((Npos (XI (XO (XI (XO (XO (XI XH))))))) :: ((Npos
    (XI (XO (XI (XI (XO (XI XH))))))) :: ((Npos (XI (XI (XI (XI (XO (XI
    XH))))))) :: ((Npos (XO (XI (XI (XO (XI (XI XH))))))) :: ((Npos (XI (XO
    (XI (XO (XO (XI XH))))))) :: ((Npos (XI (XI (XI (XI (XI (XO
    XH))))))) :: ((Npos (XI (XO (XI (XO (XI (XI XH))))))) :: ((Npos (XO (XI
    (XI (XI (XO (XI XH))))))) :: ((Npos (XO (XI (XO (XO (XI (XI
    XH))))))) :: ((Npos (XI (XO (XI (XO (XO (XI XH))))))) :: ((Npos (XI (XO
    (XO (XO (XO (XI XH))))))) :: ((Npos (XI (XI (XO (XO (XO (XI
    XH))))))) :: ((Npos (XO (XO (XO (XI (XO (XI XH))))))) :: ((Npos (XI (XO
    (XO (XO (XO (XI XH))))))) :: ((Npos (XO (XI (XO (XO (XO (XI
    XH))))))) :: ((Npos (XO (XO (XI (XI (XO (XI XH))))))) :: ((Npos (XI (XO
    (XI (XO (XO (XI XH))))))) :: [])))))))))))))))))), TBool) :: ((((Npos (XI
    (XI (XO (XO (XO (XI XH))))))) :: ((Npos (XI (XI (XI (XI (XO (XI
    XH))))))) :: ((Npos (XO (XI (XI (XI (XO (XI XH))))))) :: ((Npos (XO (XO
    (XI (XO (XI (XI XH))))))) :: ((Npos (XO (XI (XO (XO (XI (XI
    XH))))))) :: ((Npos (XI (XI (XI (XI (XO (XI XH))))))) :: ((Npos (XO (XO
    (XI (XI (XO (XI XH))))))) :: ((Npos (XI (XI (XI (XI (XI (XO
    XH))))))) :: ((Npos (XO (XI (XI (XO (XO (XI XH))))))) :: ((Npos (XO (XO
    (XI (XI (XO (XI XH))))))) :: ((Npos (XI (XI (XI (XI (XO (XI
    XH))))))) :: ((Npos (XI (XI (XI (XO (XI (XI XH))))))) :: ((Npos (XO (XI
    (XI (XI (XO XH)))))) :: ((Npos (XO (XO (XI (XO (XO (XI
    XH))))))) :: ((Npos (XI (XI (XI (XI (XO (XI XH))))))) :: ((Npos (XO (XO
    (XI (XO (XI (XI XH))))))) :: ((Npos (XI (XI (XI (XI (XI (XO
    XH))))))) :: ((Npos (XI (XI (XI (XI (XO (XI XH))))))) :: ((Npos (XI (XO
    (XI (XO (XI (XI XH))))))) :: ((Npos (XO (XO (XI (XO (XI (XI
    XH))))))) :: ((Npos (XO (XO (XO (XO (XI (XI XH))))))) :: ((Npos (XI (XO
    (XI (XO (XI (XI XH))))))) :: ((Npos (XO (XO (XI (XO (XI (XI
    XH))))))) :: []))))))))))))))))))))))), TStr) :: ((((Npos (XI (XI (XO (XO
    (XO (XI XH))))))) :: ((Npos (XI (XI (XI (XI (XO (XI XH))))))) :: ((Npos
    (XO (XI (XI (XI (XO (XI XH))))))) :: ((Npos (XO (XO (XI (XO (XI (XI
    XH))))))) :: ((Npos (XO (XI (XO (XO (XI (XI XH))))))) :: ((Npos (XI (XI
    (XI (XI (XO (XI XH))))))) :: ((Npos (XO (XO (XI (XI (XO (XI
    XH))))))) :: ((Npos (XI (XI (XI (XI (XI (XO XH))))))) :: ((Npos (XO (XI
    (XI (XO (XO (XI XH))))))) :: ((Npos (XO (XO (XI (XI (XO (XI
    XH))))))) :: ((Npos (XI (XI (XI (XI (XO (XI XH))))))) :: ((Npos (XI (XI
    (XI (XO (XI (XI XH))))))) :: ((Npos (XO (XI (XI (XI (XO
    XH)))))) :: ((Npos (XO (XO (XI (XO (XO (XI XH))))))) :: ((Npos (XI (XI
    (XI (XI (XO (XI XH))))))) :: ((Npos (XO (XO (XI (XO (XI (XI
    XH))))))) :: ((Npos (XI (XI (XI (XI (XI (XO XH))))))) :: ((Npos (XI (XO
    (XO (XO (XO (XI XH))))))) :: ((Npos (XO (XI (XI (XI (XO (XI
    XH))))))) :: ((Npos (XO (XI (XI (XI (XO (XI XH))))))) :: ((Npos (XI (XI
    (XI (XI (XO (XI XH))))))) :: ((Npos (XO (XO (XI (XO (XI (XI
    XH))))))) :: ((Npos (XI (XO (XO (XO (XO (XI XH))))))) :: ((Npos (XO (XO
    (XI (XO (XI (XI XH))))))) :: ((Npos (XI (XO (XI (XO (XO (XI
    XH))))))) :: ((Npos (XI (XI (XI (XI (XI (XO XH))))))) :: ((Npos (XO (XO
    (XI (XO (XO (XI XH))))))) :: ((Npos (XI (XO (XI (XO (XO (XI
    XH))))))) :: ((Npos (XO (XI (XI (XO (XO (XI XH))))))) :: ((Npos (XI (XI
    (XO (XO (XI (XI XH))))))) :: [])))))))))))))))))))))))))))))),
    TBool) :: ((((Npos (XO (XO (XI (XO (XI (XI XH))))))) :: ((Npos (XI (XO
    (XI (XO (XO (XI XH))))))) :: ((Npos (XI (XI (XO (XO (XI (XI
    XH))))))) :: ((Npos (XO (XO (XI (XO (XI (XI XH))))))) :: ((Npos (XI (XI
    (XI (XI (XI (XO XH))))))) :: ((Npos (XI (XO (XO (XO (XO (XI
    XH))))))) :: ((Npos (XI (XI (XO (XO (XI (XI XH))))))) :: ((Npos (XI (XI
    (XO (XO (XI (XI XH))))))) :: ((Npos (XI (XO (XI (XO (XO (XI
    XH))))))) :: ((Npos (XO (XI (XO (XO (XI (XI XH))))))) :: ((Npos (XO (XO
    (XI (XO (XI (XI XH))))))) :: ((Npos (XI (XI (XI (XI (XI (XO
    XH))))))) :: ((Npos (XO (XO (XO (XO (XI (XI XH))))))) :: ((Npos (XI (XO
    (XO (XO (XO (XI XH))))))) :: ((Npos (XO (XO (XI (XO (XI (XI
    XH))))))) :: ((Npos (XO (XO (XO (XI (XO (XI XH))))))) :: ((Npos (XI (XI
    (XI (XI (XI (XO XH))))))) :: ((Npos (XI (XO (XI (XO (XO (XI
    XH))))))) :: ((Npos (XO (XO (XO (XI (XI (XI XH))))))) :: ((Npos (XI (XO
    (XO (XI (XO (XI XH))))))) :: ((Npos (XI (XI (XO (XO (XI (XI
    XH))))))) :: ((Npos (XO (XO (XI (XO (XI (XI XH))))))) :: ((Npos (XI (XI
    (XO (XO (XI (XI XH))))))) :: []))))))))))))))))))))))),
    TList) :: ((((Npos (XO (XO (XI (XO (XI (XI XH))))))) :: ((Npos (XI (XO
    (XI (XO (XO (XI XH))))))) :: ((Npos (XI (XI (XO (XO (XI (XI
    XH))))))) :: ((Npos (XO (XO (XI (XO (XI (XI XH))))))) :: ((Npos (XI (XI
    (XI (XI (XI (XO XH))))))) :: ((Npos (XO (XI (XI (XO (XO (XI
    XH))))))) :: ((Npos (XI (XO (XO (XO (XO (XI XH))))))) :: ((Npos (XI (XO
    (XO (XI (XO (XI XH))))))) :: ((Npos (XO (XO (XI (XI (XO (XI
    XH))))))) :: ((Npos (XI (XI (XI (XI (XI (XO XH))))))) :: ((Npos (XI (XO
    (XO (XI (XO (XI XH))))))) :: ((Npos (XO (XI (XI (XO (XO (XI
    XH))))))) :: ((Npos (XI (XI (XI (XI (XI (XO XH))))))) :: ((Npos (XO (XO
    (XO (XO (XI (XI XH))))))) :: ((Npos (XI (XO (XO (XO (XO (XI
    XH))))))) :: ((Npos (XO (XO (XI (XO (XI (XI XH))))))) :: ((Npos (XO (XO
    (XO (XI (XO (XI XH))))))) :: ((Npos (XI (XI (XI (XI (XI (XO
    XH))))))) :: ((Npos (XI (XO (XI (XO (XO (XI XH))))))) :: ((Npos (XO (XO
    (XO (XI (XI (XI XH))))))) :: ((Npos (XI (XO (XO (XI (XO (XI
    XH))))))) :: ((Npos (XI (XI (XO (XO (XI (XI XH))))))) :: ((Npos (XO (XO
    (XI (XO (XI (XI XH))))))) :: ((Npos (XI (XI (XO (XO (XI (XI
    XH))))))) :: [])))))))))))))))))))))))), TList) :: ((((Npos (XO (XO (XI
    (XO (XI (XI XH))))))) :: ((Npos (XI (XO (XI (XO (XO (XI
    XH))))))) :: ((Npos (XI (XI (XO (XO (XI (XI XH))))))) :: ((Npos (XO (XO
    (XI (XO (XI (XI XH))))))) :: ((Npos (XI (XI (XI (XI (XI (XO
    XH))))))) :: ((Npos (XI (XO (XO (XO (XO (XI XH))))))) :: ((Npos (XI (XI
    (XO (XO (XI (XI XH))))))) :: ((Npos (XI (XI (XO (XO (XI (XI
    XH))))))) :: ((Npos (XI (XO (XI (XO (XO (XI XH))))))) :: ((Npos (XO (XI
    (XO (XO (XI (XI XH))))))) :: ((Npos (XO (XO (XI (XO (XI (XI
    XH))))))) :: ((Npos (XI (XI (XI (XI (XI (XO XH))))))) :: ((Npos (XI (XI
    (XO (XO (XO (XI XH))))))) :: ((Npos (XI (XI (XI (XI (XI (XO
    XH))))))) :: ((Npos (XI (XI (XO (XO (XO (XI XH))))))) :: ((Npos (XI (XI
    (XI (XI (XO (XI XH))))))) :: ((Npos (XO (XO (XI (XO (XO (XI
    XH))))))) :: ((Npos (XI (XO (XI (XO (XO (XI XH))))))) :: ((Npos (XI (XI
    (XI (XI (XI (XO XH))))))) :: ((Npos (XO (XO (XO (XI (XO (XI
    XH))))))) :: ((Npos (XI (XO (XO (XO (XO (XI XH))))))) :: ((Npos (XI (XI
    (XO (XO (XI (XI XH))))))) :: [])))))))))))))))))))))), TList) :: ((((Npos
    (XO (XO (XI (XO (XI (XI XH))))))) :: ((Npos (XI (XO (XI (XO (XO (XI
    XH))))))) :: ((Npos (XI (XI (XO (XO (XI (XI XH))))))) :: ((Npos (XO (XO
    (XI (XO (XI (XI XH))))))) :: ((Npos (XI (XI (XI (XI (XI (XO
    XH))))))) :: ((Npos (XO (XI (XI (XO (XO (XI XH))))))) :: ((Npos (XI (XO
    (XO (XO (XO (XI XH))))))) :: ((Npos (XI (XO (XO (XI (XO (XI
    XH))))))) :: ((Npos (XO (XO (XI (XI (XO (XI XH))))))) :: ((Npos (XI (XI
    (XI (XI (XI (XO XH))))))) :: ((Npos (XI (XO (XO (XI (XO (XI
    XH))))))) :: ((Npos (XO (XI (XI (XO (XO (XI XH))))))) :: ((Npos (XI (XI
    (XI (XI (XI (XO XH))))))) :: ((Npos (XI (XI (XO (XO (XO (XI
    XH))))))) :: ((Npos (XI (XI (XI (XI (XI (XO XH))))))) :: ((Npos (XI (XI
    (XO (XO (XO (XI XH))))))) :: ((Npos (XI (XI (XI (XI (XO (XI
    XH))))))) :: ((Npos (XO (XO (XI (XO (XO (XI XH))))))) :: ((Npos (XI (XO
    (XI (XO (XO (XI XH))))))) :: ((Npos (XI (XI (XI (XI (XI (XO
    XH))))))) :: ((Npos (XO (XO (XO (XI (XO (XI XH))))))) :: ((Npos (XI (XO
    (XO (XO (XO (XI XH))))))) :: ((Npos (XI (XI (XO (XO (XI (XI
    XH))))))) :: []))))))))))))))))))))))), TList) :: ((((Npos (XO (XI (XI
    (XO (XO (XI XH))))))) :: ((Npos (XI (XI (XI (XI (XO (XI
    XH))))))) :: ((Npos (XO (XI (XO (XO (XI (XI XH))))))) :: ((Npos (XI (XO
    (XI (XI (XO (XI XH))))))) :: ((Npos (XI (XO (XO (XO (XO (XI
    XH))))))) :: ((Npos (XO (XO (XI (XI (XO (XI XH))))))) :: ((Npos (XI (XI
    (XI (XI (XI (XO XH))))))) :: ((Npos (XI (XI (XI (XO (XO (XI
    XH))))))) :: ((Npos (XO (XI (XO (XO (XI (XI XH))))))) :: ((Npos (XI (XO
    (XO (XO (XO (XI XH))))))) :: ((Npos (XI (XO (XI (XI (XO (XI
    XH))))))) :: ((Npos (XI (XO (XI (XI (XO (XI XH))))))) :: ((Npos (XI (XO
    (XO (XO (XO (XI XH))))))) :: ((Npos (XO (XI (XO (XO (XI (XI
    XH))))))) :: [])))))))))))))),
    TBool) :: []))))))))))))))))))))))))))))))))))))))))))))))))))))))))))))))))))))))))))))))))))))))))))))

(** val g_scopes : (str * str list) list **)

let g_scopes =
  (((Npos (XI (XO (XO (XO (XO (XI XH))))))) :: ((Npos (XI (XO (XI (XO (XI (XI
    XH))))))) :: ((Npos (XO (XO (XI (XO (XI (XI XH))))))) :: ((Npos (XI (XI
    (XI (XI (XO (XI XH))))))) :: ((Npos (XI (XI (XI (XI (XI (XO
    XH))))))) :: ((Npos (XO (XO (XO (XO (XI (XI XH))))))) :: ((Npos (XI (XO
    (XO (XI (XO (XI XH))))))) :: ((Npos (XI (XI (XO (XO (XO (XI
    XH))))))) :: ((Npos (XI (XI (XO (XI (XO (XI XH))))))) :: ((Npos (XO (XO
    (XI (XI (XO (XI XH))))))) :: ((Npos (XI (XO (XI (XO (XO (XI
    XH))))))) :: []))))))))))), (((Npos (XI (XO (XI (XI (XO (XI
    XH))))))) :: ((Npos (XI (XI (XI (XI (XO (XI XH))))))) :: ((Npos (XO (XO
    (XI (XO (XO (XI XH))))))) :: ((Npos (XI (XO (XI (XO (XI (XI
    XH))))))) :: ((Npos (XO (XO (XI (XI (XO (XI XH))))))) :: ((Npos (XI (XO
    (XI (XO (XO (XI XH))))))) :: [])))))) :: (((Npos (XI (XI (XO (XO (XO (XI
    XH))))))) :: ((Npos (XI (XI (XO (XO (XO (XI XH))))))) :: ((Npos (XO (XO
    (XI (XI (XO (XI XH))))))) :: ((Npos (XI (XO (XO (XO (XO (XI
    XH))))))) :: ((Npos (XI (XI (XO (XO (XI (XI XH))))))) :: ((Npos (XI (XI
    (XO (XO (XI (XI XH))))))) :: [])))))) :: []))) :: ((((Npos (XO (XI (XI
    (XO (XO (XI XH))))))) :: ((Npos (XI (XO (XO (XI (XO (XI
    XH))))))) :: ((Npos (XO (XI (XI (XI (XO (XI XH))))))) :: ((Npos (XI (XO
    (XO (XO (XO (XI XH))))))) :: ((Npos (XO (XO (XI (XI (XO (XI
    XH))))))) :: []))))), (((Npos (XO (XI (XI (XO (XO (XI XH))))))) :: ((Npos
    (XI (XO (XI (XO (XI (XI XH))))))) :: ((Npos (XO (XI (XI (XI (XO (XI
    XH))))))) :: ((Npos (XI (XI (XO (XO (XO (XI XH))))))) :: ((Npos (XO (XO
    (XI (XO (XI (XI XH))))))) :: ((Npos (XI (XO (XO (XI (XO (XI
    XH))))))) :: ((Npos (XI (XI (XI (XI (XO (XI XH))))))) :: ((Npos (XO (XI
    (XI (XI (XO (XI XH))))))) :: [])))))))) :: (((Npos (XI (XI (XO (XO (XO
    (XI XH))))))) :: ((Npos (XI (XI (XO (XO (XO (XI XH))))))) :: ((Npos (XO
    (XO (XI (XI (XO (XI XH))))))) :: ((Npos (XI (XO (XO (XO (XO (XI
    XH))))))) :: ((Npos (XI (XI (XO (XO (XI (XI XH))))))) :: ((Npos (XI (XI
    (XO (XO (XI (XI XH))))))) :: [])))))) :: []))) :: ((((Npos (XI (XI (XO
    (XO (XO (XI XH))))))) :: ((Npos (XI (XI (XO (XO (XO (XI
    XH))))))) :: ((Npos (XI (XI (XI (XI (XO (XI XH))))))) :: ((Npos (XI (XO
    (XI (XI (XO (XI XH))))))) :: ((Npos (XO (XO (XO (XO (XI (XI
    XH))))))) :: ((Npos (XO (XO (XI (XI (XO (XI XH))))))) :: ((Npos (XI (XO
    (XI (XO (XO (XI XH))))))) :: ((Npos (XO (XO (XO (XI (XI (XI
    XH))))))) :: [])))))))), (((Npos (XI (XO (XI (XI (XO (XI
    XH))))))) :: ((Npos (XI (XI (XI (XI (XO (XI XH))))))) :: ((Npos (XO (XO
    (XI (XO (XO (XI XH))))))) :: ((Npos (XI (XO (XI (XO (XI (XI
    XH))))))) :: ((Npos (XO (XO (XI (XI (XO (XI XH))))))) :: ((Npos (XI (XO
    (XI (XO (XO (XI XH))))))) :: [])))))) :: [])) :: ((((Npos (XI (XI (XO (XO
    (XO (XI XH))))))) :: ((Npos (XI (XI (XI (XI (XO (XI XH))))))) :: ((Npos
    (XO (XO (XI (XI (XO (XI XH))))))) :: ((Npos (XO (XO (XI (XI (XO (XI
    XH))))))) :: ((Npos (XI (XO (XI (XO (XO (XI XH))))))) :: ((Npos (XI (XI
    (XO (XO (XO (XI XH))))))) :: ((Npos (XO (XO (XI (XO (XI (XI
    XH))))))) :: ((Npos (XI (XO (XO (XI (XO (XI XH))))))) :: ((Npos (XI (XI
    (XI (XI (XO (XI XH))))))) :: ((Npos (XO (XI (XI (XI (XO (XI
    XH))))))) :: ((Npos (XI (XI (XI (XI (XI (XO XH))))))) :: ((Npos (XO (XO
    (XI (XO (XI (XI XH))))))) :: ((Npos (XI (XO (XO (XI (XI (XI
    XH))))))) :: ((Npos (XO (XO (XO (XO (XI (XI XH))))))) :: ((Npos (XI (XO
    (XI (XO (XO (XI XH))))))) :: []))))))))))))))), (((Npos (XI (XI (XO (XO
    (XO (XI XH))))))) :: ((Npos (XI (XI (XO (XO (XO (XI XH))))))) :: ((Npos
    (XO (XO (XI (XI (XO (XI XH))))))) :: ((Npos (XI (XO (XO (XO (XO (XI
    XH))))))) :: ((Npos (XI (XI (XO (XO (XI (XI XH))))))) :: ((Npos (XI (XI
    (XO (XO (XI (XI XH))))))) :: [])))))) :: [])) :: ((((Npos (XO (XI (XI (XI
    (XO (XI XH))))))) :: ((Npos (XI (XI (XI (XI (XO (XI XH))))))) :: ((Npos
    (XI (XI (XI (XO (XO (XI XH))))))) :: ((Npos (XI (XO (XO (XI (XO (XI
    XH))))))) :: ((Npos (XO (XO (XI (XI (XO (XI XH))))))) :: []))))), (((Npos
    (XO (XI (XI (XO (XO (XI XH))))))) :: ((Npos (XI (XO (XI (XO (XI (XI
    XH))))))) :: ((Npos (XO (XI (XI (XI (XO (XI XH))))))) :: ((Npos (XI (XI
    (XO (XO (XO (XI XH))))))) :: ((Npos (XO (XO (XI (XO (XI (XI
    XH))))))) :: ((Npos (XI (XO (XO (XI (XO (XI XH))))))) :: ((Npos (XI (XI
    (XI (XI (XO (XI XH))))))) :: ((Npos (XO (XI (XI (XI (XO (XI
    XH))))))) :: [])))))))) :: (((Npos (XI (XI (XI (XO (XI (XI
    XH))))))) :: ((Npos (XI (XO (XO (XI (XO (XI XH))))))) :: ((Npos (XO (XO
    (XI (XO (XI (XI XH))))))) :: ((Npos (XO (XO (XO (XI (XO (XI
    XH))))))) :: ((Npos (XO (XO (XO (XO (XO XH)))))) :: ((Npos (XI (XI (XO
    (XO (XI (XI XH))))))) :: ((Npos (XO (XO (XI (XO (XI (XI
    XH))))))) :: ((Npos (XI (XO (XO (XO (XO (XI XH))))))) :: ((Npos (XO (XO
    (XI (XO (XI (XI XH))))))) :: ((Npos (XI (XO (XI (XO (XO (XI
    XH))))))) :: ((Npos (XI (XO (XI (XI (XO (XI XH))))))) :: ((Npos (XI (XO
    (XI (XO (XO (XI XH))))))) :: ((Npos (XO (XI (XI (XI (XO (XI
    XH))))))) :: ((Npos (XO (XO (XI (XO (XI (XI
    XH))))))) :: [])))))))))))))) :: []))) :: ((((Npos (XI (XI (XI (XO (XO
    (XI XH))))))) :: ((Npos (XI (XO (XO (XI (XO (XI XH))))))) :: ((Npos (XO
    (XO (XI (XI (XO (XI XH))))))) :: []))), (((Npos (XI (XI (XI (XO (XI (XI
    XH))))))) :: ((Npos (XI (XO (XO (XI (XO (XI XH))))))) :: ((Npos (XO (XO
    (XI (XO (XI (XI XH))))))) :: ((Npos (XO (XO (XO (XI (XO (XI
    XH))))))) :: ((Npos (XO (XO (XO (XO (XO XH)))))) :: ((Npos (XI (XI (XO
    (XO (XI (XI XH))))))) :: ((Npos (XO (XO (XI (XO (XI (XI
    XH))))))) :: ((Npos (XI (XO (XO (XO (XO (XI XH))))))) :: ((Npos (XO (XO
    (XI (XO (XI (XI XH))))))) :: ((Npos (XI (XO (XI (XO (XO (XI
    XH))))))) :: ((Npos (XI (XO (XI (XI (XO (XI XH))))))) :: ((Npos (XI (XO
    (XI (XO (XO (XI XH))))))) :: ((Npos (XO (XI (XI (XI (XO (XI
    XH))))))) :: ((Npos (XO (XO (XI (XO (XI (XI
    XH))))))) :: [])))))))))))))) :: [])) :: ((((Npos (XI (XI (XI (XO (XI (XI
    XH))))))) :: ((Npos (XI (XO (XO (XI (XO (XI XH))))))) :: ((Npos (XO (XO
    (XI (XO (XI (XI XH))))))) :: ((Npos (XO (XO (XO (XI (XO (XI
    XH))))))) :: ((Npos (XI (XI (XI (XI (XI (XO XH))))))) :: ((Npos (XI (XI
    (XI (XO (XO (XI XH))))))) :: ((Npos (XI (XO (XO (XI (XO (XI
    XH))))))) :: ((Npos (XO (XO (XI (XI (XO (XI XH))))))) :: [])))))))),
    (((Npos (XO (XI (XI (XO (XO (XI XH))))))) :: ((Npos (XI (XO (XI (XO (XI
    (XI XH))))))) :: ((Npos (XO (XI (XI (XI (XO (XI XH))))))) :: ((Npos (XI
    (XI (XO (XO (XO (XI XH))))))) :: ((Npos (XO (XO (XI (XO (XI (XI
    XH))))))) :: ((Npos (XI (XO (XO (XI (XO (XI XH))))))) :: ((Npos (XI (XI
    (XI (XI (XO (XI XH))))))) :: ((Npos (XO (XI (XI (XI (XO (XI
    XH))))))) :: [])))))))) :: [])) :: ((((Npos (XI (XI (XO (XO (XO (XI
    XH))))))) :: ((Npos (XO (XI (XO (XO (XI (XI XH))))))) :: ((Npos (XI (XO
    (XO (XI (XO (XI XH))))))) :: ((Npos (XO (XO (XI (XO (XI (XI
    XH))))))) :: ((Npos (XI (XO (XO (XI (XO (XI XH))))))) :: ((Npos (XI (XI
    (XO (XO (XO (XI XH))))))) :: ((Npos (XI (XO (XO (XO (XO (XI
    XH))))))) :: ((Npos (XO (XO (XI (XI (XO (XI XH))))))) :: ((Npos (XI (XI
    (XI (XI (XI (XO XH))))))) :: ((Npos (XI (XI (XO (XO (XI (XI
    XH))))))) :: ((Npos (XI (XO (XI (XO (XO (XI XH))))))) :: ((Npos (XI (XI
    (XO (XO (XO (XI XH))))))) :: ((Npos (XO (XO (XI (XO (XI (XI
    XH))))))) :: ((Npos (XI (XO (XO (XI (XO (XI XH))))))) :: ((Npos (XI (XI
    (XI (XI (XO (XI XH))))))) :: ((Npos (XO (XI (XI (XI (XO (XI
    XH))))))) :: [])))))))))))))))), (((Npos (XO (XI (XI (XO (XO (XI
    XH))))))) :: ((Npos (XI (XO (XI (XO (XI (XI XH))))))) :: ((Npos (XO (XI
    (XI (XI (XO (XI XH))))))) :: ((Npos (XI (XI (XO (XO (XO (XI
    XH))))))) :: ((Npos (XO (XO (XI (XO (XI (XI XH))))))) :: ((Npos (XI (XO
    (XO (XI (XO (XI XH))))))) :: ((Npos (XI (XI (XI (XI (XO (XI
    XH))))))) :: ((Npos (XO (XI (XI (XI (XO (XI
    XH))))))) :: [])))))))) :: (((Npos (XI (XI (XI (XO (XI (XI
    XH))))))) :: ((Npos (XI (XO (XO (XI (XO (XI XH))))))) :: ((Npos (XO (XO
    (XI (XO (XI (XI XH))))))) :: ((Npos (XO (XO (XO (XI (XO (XI
    XH))))))) :: ((Npos (XO (XO (XO (XO (XO XH)))))) :: ((Npos (XI (XI (XO
    (XO (XI (XI XH))))))) :: ((Npos (XO (XO (XI (XO (XI (XI
    XH))))))) :: ((Npos (XI (XO (XO (XO (XO (XI XH))))))) :: ((Npos (XO (XO
    (XI (XO (XI (XI XH))))))) :: ((Npos (XI (XO (XI (XO (XO (XI
    XH))))))) :: ((Npos (XI (XO (XI (XI (XO (XI XH))))))) :: ((Npos (XI (XO
    (XI (XO (XO (XI XH))))))) :: ((Npos (XO (XI (XI (XI (XO (XI
    XH))))))) :: ((Npos (XO (XO (XI (XO (XI (XI
    XH))))))) :: [])))))))))))))) :: []))) :: ((((Npos (XI (XO (XO (XI (XO
    (XI XH))))))) :: ((Npos (XO (XI (XI (XI (XO (XI XH))))))) :: ((Npos (XO
    (XO (XI (XI (XO (XI XH))))))) :: ((Npos (XI (XO (XO (XI (XO (XI
    XH))))))) :: ((Npos (XO (XI (XI (XI (XO (XI XH))))))) :: ((Npos (XI (XO
    (XI (XO (XO (XI XH))))))) :: [])))))), (((Npos (XO (XI (XI (XO (XO (XI
    XH))))))) :: ((Npos (XI (XO (XI (XO (XI (XI XH))))))) :: ((Npos (XO (XI
    (XI (XI (XO (XI XH))))))) :: ((Npos (XI (XI (XO (XO (XO (XI
    XH))))))) :: ((Npos (XO (XO (XI (XO (XI (XI XH))))))) :: ((Npos (XI (XO
    (XO (XI (XO (XI XH))))))) :: ((Npos (XI (XI (XI (XI (XO (XI
    XH))))))) :: ((Npos (XO (XI (XI (XI (XO (XI
    XH))))))) :: [])))))))) :: [])) :: ((((Npos (XI (XI (XO (XO (XO (XI
    XH))))))) :: ((Npos (XO (XI (XI (XO (XO (XI XH))))))) :: ((Npos (XI (XO
    (XI (XO (XI (XI XH))))))) :: ((Npos (XO (XI (XI (XI (XO (XI
    XH))))))) :: ((Npos (XI (XI (XO (XO (XO (XI XH))))))) :: []))))), (((Npos
    (XO (XI (XI (XO (XO (XI XH))))))) :: ((Npos (XI (XO (XI (XO (XI (XI
    XH))))))) :: ((Npos (XO (XI (XI (XI (XO (XI XH))))))) :: ((Npos (XI (XI
    (XO (XO (XO (XI XH))))))) :: ((Npos (XO (XO (XI (XO (XI (XI
    XH))))))) :: ((Npos (XI (XO (XO (XI (XO (XI XH))))))) :: ((Npos (XI (XI
    (XI (XI (XO (XI XH))))))) :: ((Npos (XO (XI (XI (XI (XO (XI
    XH))))))) :: [])))))))) :: (((Npos (XI (XI (XI (XO (XI (XI
    XH))))))) :: ((Npos (XI (XO (XO (XI (XO (XI XH))))))) :: ((Npos (XO (XO
    (XI (XO (XI (XI XH))))))) :: ((Npos (XO (XO (XO (XI (XO (XI
    XH))))))) :: ((Npos (XO (XO (XO (XO (XO XH)))))) :: ((Npos (XI (XI (XO
    (XO (XI (XI XH))))))) :: ((Npos (XO (XO (XI (XO (XI (XI
    XH))))))) :: ((Npos (XI (XO (XO (XO (XO (XI XH))))))) :: ((Npos (XO (XO
    (XI (XO (XI (XI XH))))))) :: ((Npos (XI (XO (XI (XO (XO (XI
    XH))))))) :: ((Npos (XI (XO (XI (XI (XO (XI XH))))))) :: ((Npos (XI (XO
    (XI (XO (XO (XI XH))))))) :: ((Npos (XO (XI (XI (XI (XO (XI
    XH))))))) :: ((Npos (XO (XO (XI (XO (XI (XI
    XH))))))) :: [])))))))))))))) :: []))) :: ((((Npos (XI (XI (XO (XO (XO
    (XI XH))))))) :: ((Npos (XI (XI (XO (XO (XO (XI XH))))))) :: ((Npos (XI
    (XO (XO (XO (XO (XI XH))))))) :: ((Npos (XO (XO (XI (XI (XO (XI
    XH))))))) :: ((Npos (XO (XO (XI (XI (XO (XI XH))))))) :: []))))), (((Npos
    (XO (XI (XI (XO (XO (XI XH))))))) :: ((Npos (XI (XO (XI (XO (XI (XI
    XH))))))) :: ((Npos (XO (XI (XI (XI (XO (XI XH))))))) :: ((Npos (XI (XI
    (XO (XO (XO (XI XH))))))) :: ((Npos (XO (XO (XI (XO (XI (XI
    XH))))))) :: ((Npos (XI (XO (XO (XI (XO (XI XH))))))) :: ((Npos (XI (XI
    (XI (XI (XO (XI XH))))))) :: ((Npos (XO (XI (XI (XI (XO (XI
    XH))))))) :: [])))))))) :: (((Npos (XI (XI (XI (XO (XI (XI
    XH))))))) :: ((Npos (XI (XO (XO (XI (XO (XI XH))))))) :: ((Npos (XO (XO
    (XI (XO (XI (XI XH))))))) :: ((Npos (XO (XO (XO (XI (XO (XI
    XH))))))) :: ((Npos (XO (XO (XO (XO (XO XH)))))) :: ((Npos (XI (XI (XO
    (XO (XI (XI XH))))))) :: ((Npos (XO (XO (XI (XO (XI (XI
    XH))))))) :: ((Npos (XI (XO (XO (XO (XO (XI XH))))))) :: ((Npos (XO (XO
    (XI (XO (XI (XI XH))))))) :: ((Npos (XI (XO (XI (XO (XO (XI
    XH))))))) :: ((Npos (XI (XO (XI (XI (XO (XI XH))))))) :: ((Npos (XI (XO
    (XI (XO (XO (XI XH))))))) :: ((Npos (XO (XI (XI (XI (XO (XI
    XH))))))) :: ((Npos (XO (XO (XI (XO (XI (XI
    XH))))))) :: [])))))))))))))) :: []))) :: ((((Npos (XO (XI (XO (XO (XI
    (XI XH))))))) :: ((Npos (XI (XO (XI (XO (XO (XI XH))))))) :: ((Npos (XO
    (XO (XI (XO (XI (XI XH))))))) :: ((Npos (XI (XO (XI (XO (XI (XI
    XH))))))) :: ((Npos (XO (XI (XO (XO (XI (XI XH))))))) :: ((Npos (XO (XI
    (XI (XI (XO (XI XH))))))) :: ((Npos (XI (XI (XO (XO (XI (XI
    XH))))))) :: []))))))), (((Npos (XO (XI (XI (XO (XO (XI
    XH))))))) :: ((Npos (XI (XO (XI (XO (XI (XI XH))))))) :: ((Npos (XO (XI
    (XI (XI (XO (XI XH))))))) :: ((Npos (XI (XI (XO (XO (XO (XI
    XH))))))) :: ((Npos (XO (XO (XI (XO (XI (XI XH))))))) :: ((Npos (XI (XO
    (XO (XI (XO (XI XH))))))) :: ((Npos (XI (XI (XI (XI (XO (XI
    XH))))))) :: ((Npos (XO (XI (XI (XI (XO (XI
    XH))))))) :: [])))))))) :: [])) :: ((((Npos (XI (XO (XI (XO (XO (XI
    XH))))))) :: ((Npos (XO (XO (XO (XI (XI (XI XH))))))) :: ((Npos (XI (XI
    (XO (XO (XO (XI XH))))))) :: ((Npos (XI (XO (XI (XO (XO (XI
    XH))))))) :: ((Npos (XO (XO (XO (XO (XI (XI XH))))))) :: ((Npos (XO (XO
    (XI (XO (XI (XI XH))))))) :: ((Npos (XO (XI (XI (XO (XI (XI
    XH))))))) :: ((Npos (XI (XO (XO (XO (XO (XI XH))))))) :: ((Npos (XO (XO
    (XI (XI (XO (XI XH))))))) :: []))))))))), (((Npos (XO (XI (XI (XO (XO (XI
    XH))))))) :: ((Npos (XI (XO (XI (XO (XI (XI XH))))))) :: ((Npos (XO (XI
    (XI (XI (XO (XI XH))))))) :: ((Npos (XI (XI (XO (XO (XO (XI
    XH))))))) :: ((Npos (XO (XO (XI (XO (XI (XI XH))))))) :: ((Npos (XI (XO
    (XO (XI (XO (XI XH))))))) :: ((Npos (XI (XI (XI (XI (XO (XI
    XH))))))) :: ((Npos (XO (XI (XI (XI (XO (XI
    XH))))))) :: [])))))))) :: [])) :: ((((Npos (XO (XO (XI (XI (XO (XI
    XH))))))) :: ((Npos (XI (XI (XI (XI (XO (XI XH))))))) :: ((Npos (XI (XI
    (XO (XO (XO (XI XH))))))) :: ((Npos (XI (XO (XO (XO (XO (XI
    XH))))))) :: ((Npos (XO (XO (XI (XI (XO (XI XH))))))) :: ((Npos (XI (XI
    (XO (XO (XI (XI XH))))))) :: [])))))), (((Npos (XO (XI (XI (XO (XO (XI
    XH))))))) :: ((Npos (XI (XO (XI (XO (XI (XI XH))))))) :: ((Npos (XO (XI
    (XI (XI (XO (XI XH))))))) :: ((Npos (XI (XI (XO (XO (XO (XI
    XH))))))) :: ((Npos (XO (XO (XI (XO (XI (XI XH))))))) :: ((Npos (XI (XO
    (XO (XI (XO (XI XH))))))) :: ((Npos (XI (XI (XI (XI (XO (XI
    XH))))))) :: ((Npos (XO (XI (XI (XI (XO (XI
    XH))))))) :: [])))))))) :: [])) :: ((((Npos (XI (XI (XO (XO (XI (XI
    XH))))))) :: ((Npos (XO (XO (XI (XO (XI (XI XH))))))) :: ((Npos (XI (XO
    (XO (XO (XO (XI XH))))))) :: ((Npos (XO (XO (XI (XO (XI (XI
    XH))))))) :: ((Npos (XI (XO (XO (XI (XO (XI XH))))))) :: ((Npos (XI (XI
    (XO (XO (XO (XI XH))))))) :: ((Npos (XI (XO (XI (XI (XO (XI
    XH))))))) :: ((Npos (XI (XO (XI (XO (XO (XI XH))))))) :: ((Npos (XO (XO
    (XI (XO (XI (XI XH))))))) :: ((Npos (XO (XO (XO (XI (XO (XI
    XH))))))) :: ((Npos (XI (XI (XI (XI (XO (XI XH))))))) :: ((Npos (XO (XO
    (XI (XO (XO (XI XH))))))) :: [])))))))))))), (((Npos (XO (XI (XI (XO (XO
    (XI XH))))))) :: ((Npos (XI (XO (XI (XO (XI (XI XH))))))) :: ((Npos (XO
    (XI (XI (XI (XO (XI XH))))))) :: ((Npos (XI (XI (XO (XO (XO (XI
    XH))))))) :: ((Npos (XO (XO (XI (XO (XI (XI XH))))))) :: ((Npos (XI (XO
    (XO (XI (XO (XI XH))))))) :: ((Npos (XI (XI (XI (XI (XO (XI
    XH))))))) :: ((Npos (XO (XI (XI (XI (XO (XI
    XH))))))) :: [])))))))) :: [])) :: ((((Npos (XO (XI (XI (XI (XO (XI
    XH))))))) :: ((Npos (XI (XI (XI (XI (XO (XI XH))))))) :: ((Npos (XI (XI
    (XI (XI (XI (XO XH))))))) :: ((Npos (XI (XI (XI (XO (XO (XI
    XH))))))) :: ((Npos (XI (XI (XO (XO (XO (XI XH))))))) :: ((Npos (XI (XI
    (XI (XI (XI (XO XH))))))) :: ((Npos (XI (XI (XO (XO (XO (XI
    XH))))))) :: ((Npos (XO (XO (XI (XI (XO (XI XH))))))) :: ((Npos (XI (XO
    (XI (XO (XO (XI XH))))))) :: ((Npos (XI (XO (XO (XO (XO (XI
    XH))))))) :: ((Npos (XO (XI (XO (XO (XI (XI XH))))))) :: []))))))))))),
    (((Npos (XI (XI (XO (XO (XO (XI XH))))))) :: ((Npos (XI (XI (XO (XO (XO
    (XI XH))))))) :: ((Npos (XO (XO (XI (XI (XO (XI XH))))))) :: ((Npos (XI
    (XO (XO (XO (XO (XI XH))))))) :: ((Npos (XI (XI (XO (XO (XI (XI
    XH))))))) :: ((Npos (XI (XI (XO (XO (XI (XI
    XH))))))) :: [])))))) :: [])) :: ((((Npos (XO (XI (XI (XI (XO (XI
    XH))))))) :: ((Npos (XI (XI (XI (XI (XO (XI XH))))))) :: ((Npos (XI (XI
    (XI (XI (XI (XO XH))))))) :: ((Npos (XI (XI (XI (XO (XO (XI
    XH))))))) :: ((Npos (XI (XI (XO (XO (XO (XI XH))))))) :: []))))), (((Npos
    (XI (XI (XO (XO (XO (XI XH))))))) :: ((Npos (XI (XI (XO (XO (XO (XI
    XH))))))) :: ((Npos (XO (XO (XI (XI (XO (XI XH))))))) :: ((Npos (XI (XO
    (XO (XO (XO (XI XH))))))) :: ((Npos (XI (XI (XO (XO (XI (XI
    XH))))))) :: ((Npos (XI (XI (XO (XO (XI (XI
    XH))))))) :: [])))))) :: [])) :: ((((Npos (XI (XO (XO (XI (XO (XI
    XH))))))) :: ((Npos (XO (XI (XI (XI (XO (XI XH))))))) :: ((Npos (XO (XO
    (XI (XO (XI (XI XH))))))) :: ((Npos (XI (XO (XI (XO (XO (XI
    XH))))))) :: ((Npos (XO (XI (XO (XO (XI (XI XH))))))) :: ((Npos (XO (XI
    (XI (XI (XO (XI XH))))))) :: ((Npos (XI (XO (XO (XO (XO (XI
    XH))))))) :: ((Npos (XO (XO (XI (XI (XO (XI XH))))))) :: [])))))))),
    (((Npos (XI (XI (XO (XO (XO (XI XH))))))) :: ((Npos (XI (XI (XO (XO (XO
    (XI XH))))))) :: ((Npos (XO (XO (XI (XI (XO (XI XH))))))) :: ((Npos (XI
    (XO (XO (XO (XO (XI XH))))))) :: ((Npos (XI (XI (XO (XO (XI (XI
    XH))))))) :: ((Npos (XI (XI (XO (XO (XI (XI
    XH))))))) :: [])))))) :: [])) :: ((((Npos (XI (XI (XO (XO (XO (XI
    XH))))))) :: ((Npos (XI (XI (XO (XO (XO (XI XH))))))) :: ((Npos (XO (XO
    (XI (XI (XO (XI XH))))))) :: ((Npos (XI (XO (XO (XO (XO (XI
    XH))))))) :: ((Npos (XI (XI (XO (XO (XI (XI XH))))))) :: ((Npos (XI (XI
    (XO (XO (XI (XI XH))))))) :: [])))))), (((Npos (XI (XI (XO (XO (XO (XI
    XH))))))) :: ((Npos (XO (XO (XI (XI (XO (XI XH))))))) :: ((Npos (XI (XO
    (XO (XO (XO (XI XH))))))) :: ((Npos (XI (XI (XO (XO (XI (XI
    XH))))))) :: ((Npos (XI (XI (XO (XO (XI (XI
    XH))))))) :: []))))) :: (((Npos (XI (XI (XO (XO (XO (XI
    XH))))))) :: ((Npos (XI (XI (XO (XO (XO (XI XH))))))) :: ((Npos (XO (XO
    (XI (XI (XO (XI XH))))))) :: ((Npos (XI (XO (XO (XO (XO (XI
    XH))))))) :: ((Npos (XI (XI (XO (XO (XI (XI XH))))))) :: ((Npos (XI (XI
    (XO (XO (XI (XI XH))))))) :: [])))))) :: (((Npos (XI (XI (XI (XO (XI (XI
    XH))))))) :: ((Npos (XI (XO (XO (XI (XO (XI XH))))))) :: ((Npos (XO (XO
    (XI (XO (XI (XI XH))))))) :: ((Npos (XO (XO (XO (XI (XO (XI
    XH))))))) :: ((Npos (XO (XO (XO (XO (XO XH)))))) :: ((Npos (XI (XI (XO
    (XO (XI (XI XH))))))) :: ((Npos (XO (XO (XI (XO (XI (XI
    XH))))))) :: ((Npos (XI (XO (XO (XO (XO (XI XH))))))) :: ((Npos (XO (XO
    (XI (XO (XI (XI XH))))))) :: ((Npos (XI (XO (XI (XO (XO (XI
    XH))))))) :: ((Npos (XI (XO (XI (XI (XO (XI XH))))))) :: ((Npos (XI (XO
    (XI (XO (XO (XI XH))))))) :: ((Npos (XO (XI (XI (XI (XO (XI
    XH))))))) :: ((Npos (XO (XO (XI (XO (XI (XI
    XH))))))) :: [])))))))))))))) :: [])))) :: ((((Npos (XI (XO (XO (XO (XO
    (XI XH))))))) :: ((Npos (XI (XO (XI (XO (XI (XI XH))))))) :: ((Npos (XO
    (XO (XI (XO (XI (XI XH))))))) :: ((Npos (XI (XI (XI (XI (XO (XI
    XH))))))) :: ((Npos (XO (XO (XI (XO (XI (XI XH))))))) :: ((Npos (XI (XO
    (XI (XO (XO (XI XH))))))) :: ((Npos (XI (XI (XO (XO (XI (XI
    XH))))))) :: ((Npos (XO (XO (XI (XO (XI (XI XH))))))) :: ((Npos (XO (XO
    (XI (XO (XO (XI XH))))))) :: ((Npos (XI (XO (XO (XI (XO (XI
    XH))))))) :: ((Npos (XI (XI (XO (XO (XO (XI XH))))))) :: ((Npos (XO (XO
    (XI (XO (XI (XI XH))))))) :: [])))))))))))), (((Npos (XI (XO (XI (XI (XO
    (XI XH))))))) :: ((Npos (XI (XI (XI (XI (XO (XI XH))))))) :: ((Npos (XO
    (XO (XI (XO (XO (XI XH))))))) :: ((Npos (XI (XO (XI (XO (XI (XI
    XH))))))) :: ((Npos (XO (XO (XI (XI (XO (XI XH))))))) :: ((Npos (XI (XO
    (XI (XO (XO (XI XH))))))) :: [])))))) :: [])) :: ((((Npos (XI (XO (XO (XO
    (XO (XI XH))))))) :: ((Npos (XI (XO (XI (XO (XI (XI XH))))))) :: ((Npos
    (XO (XO (XI (XO (XI (XI XH))))))) :: ((Npos (XI (XI (XI (XI (XO (XI
    XH))))))) :: ((Npos (XO (XO (XI (XO (XI (XI XH))))))) :: ((Npos (XI (XO
    (XI (XO (XO (XI XH))))))) :: ((Npos (XI (XI (XO (XO (XI (XI
    XH))))))) :: ((Npos (XO (XO (XI (XO (XI (XI XH))))))) :: ((Npos (XO (XO
    (XI (XO (XO (XI XH))))))) :: ((Npos (XI (XO (XO (XI (XO (XI
    XH))))))) :: ((Npos (XI (XI (XO (XO (XO (XI XH))))))) :: ((Npos (XO (XO
    (XI (XO (XI (XI XH))))))) :: ((Npos (XO (XI (XI (XI (XO
    XH)))))) :: ((Npos (XI (XO (XO (XO (XO (XI XH))))))) :: ((Npos (XO (XO
    (XI (XI (XO (XI XH))))))) :: ((Npos (XO (XO (XI (XI (XO (XI
    XH))))))) :: [])))))))))))))))), (((Npos (XI (XO (XI (XI (XO (XI
    XH))))))) :: ((Npos (XI (XI (XI (XI (XO (XI XH))))))) :: ((Npos (XO (XO
    (XI (XO (XO (XI XH))))))) :: ((Npos (XI (XO (XI (XO (XI (XI
    XH))))))) :: ((Npos (XO (XO (XI (XI (XO (XI XH))))))) :: ((Npos (XI (XO
    (XI (XO (XO (XI XH))))))) :: [])))))) :: [])) :: ((((Npos (XI (XO (XO (XO
    (XO (XI XH))))))) :: ((Npos (XI (XO (XI (XO (XI (XI XH))))))) :: ((Npos
    (XO (XO (XI (XO (XI (XI XH))))))) :: ((Npos (XI (XI (XI (XI (XO (XI
    XH))))))) :: ((Npos (XO (XO (XI (XO (XI (XI XH))))))) :: ((Npos (XI (XO
    (XI (XO (XO (XI XH))))))) :: ((Npos (XI (XI (XO (XO (XI (XI
    XH))))))) :: ((Npos (XO (XO (XI (XO (XI (XI XH))))))) :: ((Npos (XO (XO
    (XI (XO (XO (XI XH))))))) :: ((Npos (XI (XO (XO (XI (XO (XI
    XH))))))) :: ((Npos (XI (XI (XO (XO (XO (XI XH))))))) :: ((Npos (XO (XO
    (XI (XO (XI (XI XH))))))) :: ((Npos (XO (XI (XI (XI (XO
    XH)))))) :: ((Npos (XI (XI (XO (XO (XO (XI XH))))))) :: ((Npos (XO (XO
    (XI (XO (XO (XI XH))))))) :: ((Npos (XI (XO (XI (XO (XO (XI
    XH))))))) :: ((Npos (XO (XI (XI (XO (XO (XI
    XH))))))) :: []))))))))))))))))), (((Npos (XI (XO (XI (XI (XO (XI
    XH))))))) :: ((Npos (XI (XI (XI (XI (XO (XI XH))))))) :: ((Npos (XO (XO
    (XI (XO (XO (XI XH))))))) :: ((Npos (XI (XO (XI (XO (XI (XI
    XH))))))) :: ((Npos (XO (XO (XI (XI (XO (XI XH))))))) :: ((Npos (XI (XO
    (XI (XO (XO (XI XH))))))) :: [])))))) :: [])) :: ((((Npos (XI (XI (XO (XO
    (XI (XI XH))))))) :: ((Npos (XI (XO (XI (XO (XO (XI XH))))))) :: ((Npos
    (XO (XO (XI (XO (XI (XI XH))))))) :: ((Npos (XI (XI (XI (XI (XI (XO
    XH))))))) :: ((Npos (XI (XO (XO (XI (XO (XI XH))))))) :: ((Npos (XO (XI
    (XI (XI (XO (XI XH))))))) :: ((Npos (XI (XO (XO (XI (XO (XI
    XH))))))) :: ((Npos (XO (XO (XI (XO (XI (XI XH))))))) :: ((Npos (XI (XO
    (XO (XI (XO (XI XH))))))) :: ((Npos (XI (XO (XO (XO (XO (XI
    XH))))))) :: ((Npos (XO (XO (XI (XI (XO (XI XH))))))) :: ((Npos (XI (XI
    (XI (XI (XI (XO XH))))))) :: ((Npos (XO (XO (XO (XO (XI (XI
    XH))))))) :: ((Npos (XI (XO (XO (XO (XO (XI XH))))))) :: ((Npos (XO (XO
    (XI (XO (XI (XI XH))))))) :: ((Npos (XO (XO (XO (XI (XO (XI
    XH))))))) :: [])))))))))))))))), (((Npos (XI (XO (XI (XI (XO (XI
    XH))))))) :: ((Npos (XI (XI (XI (XI (XO (XI XH))))))) :: ((Npos (XO (XO
    (XI (XO (XO (XI XH))))))) :: ((Npos (XI (XO (XI (XO (XI (XI
    XH))))))) :: ((Npos (XO (XO (XI (XI (XO (XI XH))))))) :: ((Npos (XI (XO
    (XI (XO (XO (XI XH))))))) :: [])))))) :: [])) :: ((((Npos (XO (XO (XI (XO
    (XI (XI XH))))))) :: ((Npos (XI (XO (XI (XO (XO (XI XH))))))) :: ((Npos
    (XI (XI (XO (XO (XI (XI XH))))))) :: ((Npos (XO (XO (XI (XO (XI (XI
    XH))))))) :: ((Npos (XI (XI (XI (XI (XI (XO XH))))))) :: ((Npos (XI (XO
    (XO (XO (XO (XI XH))))))) :: ((Npos (XI (XI (XO (XO (XI (XI
    XH))))))) :: ((Npos (XI (XI (XO (XO (XI (XI XH))))))) :: ((Npos (XI (XO
    (XI (XO (XO (XI XH))))))) :: ((Npos (XO (XI (XO (XO (XI (XI
    XH))))))) :: ((Npos (XO (XO (XI (XO (XI (XI XH))))))) :: ((Npos (XI (XI
    (XI (XI (XI (XO XH))))))) :: ((Npos (XO (XO (XO (XO (XI (XI
    XH))))))) :: ((Npos (XI (XO (XO (XO (XO (XI XH))))))) :: ((Npos (XO (XO
    (XI (XO (XI (XI XH))))))) :: ((Npos (XO (XO (XO (XI (XO (XI
    XH))))))) :: ((Npos (XI (XI (XI (XI (XI (XO XH))))))) :: ((Npos (XI (XO
    (XI (XO (XO (XI XH))))))) :: ((Npos (XO (XO (XO (XI (XI (XI
    XH))))))) :: ((Npos (XI (XO (XO (XI (XO (XI XH))))))) :: ((Npos (XI (XI
    (XO (XO (XI (XI XH))))))) :: ((Npos (XO (XO (XI (XO (XI (XI
    XH))))))) :: ((Npos (XI (XI (XO (XO (XI (XI
    XH))))))) :: []))))))))))))))))))))))), (((Npos (XO (XI (XI (XO (XO (XI
    XH))))))) :: ((Npos (XI (XO (XI (XO (XI (XI XH))))))) :: ((Npos (XO (XI
    (XI (XI (XO (XI XH))))))) :: ((Npos (XI (XI (XO (XO (XO (XI
    XH))))))) :: ((Npos (XO (XO (XI (XO (XI (XI XH))))))) :: ((Npos (XI (XO
    (XO (XI (XO (XI XH))))))) :: ((Npos (XI (XI (XI (XI (XO (XI
    XH))))))) :: ((Npos (XO (XI (XI (XI (XO (XI
    XH))))))) :: [])))))))) :: (((Npos (XI (XI (XO (XO (XO (XI
    XH))))))) :: ((Npos (XO (XO (XI (XI (XO (XI XH))))))) :: ((Npos (XI (XO
    (XO (XO (XO (XI XH))))))) :: ((Npos (XI (XI (XO (XO (XI (XI
    XH))))))) :: ((Npos (XI (XI (XO (XO (XI (XI
    XH))))))) :: []))))) :: (((Npos (XI (XI (XO (XO (XO (XI
    XH))))))) :: ((Npos (XI (XI (XO (XO (XO (XI XH))))))) :: ((Npos (XO (XO
    (XI (XI (XO (XI XH))))))) :: ((Npos (XI (XO (XO (XO (XO (XI
    XH))))))) :: ((Npos (XI (XI (XO (XO (XI (XI XH))))))) :: ((Npos (XI (XI
    (XO (XO (XI (XI XH))))))) :: [])))))) :: [])))) :: ((((Npos (XO (XO (XI
    (XO (XI (XI XH))))))) :: ((Npos (XI (XO (XI (XO (XO (XI
    XH))))))) :: ((Npos (XI (XI (XO (XO (XI (XI XH))))))) :: ((Npos (XO (XO
    (XI (XO (XI (XI XH))))))) :: ((Npos (XI (XI (XI (XI (XI (XO
    XH))))))) :: ((Npos (XO (XI (XI (XO (XO (XI XH))))))) :: ((Npos (XI (XO
    (XO (XO (XO (XI XH))))))) :: ((Npos (XI (XO (XO (XI (XO (XI
    XH))))))) :: ((Npos (XO (XO (XI (XI (XO (XI XH))))))) :: ((Npos (XI (XI
    (XI (XI (XI (XO XH))))))) :: ((Npos (XI (XO (XO (XI (XO (XI
    XH))))))) :: ((Npos (XO (XI (XI (XO (XO (XI XH))))))) :: ((Npos (XI (XI
    (XI (XI (XI (XO XH))))))) :: ((Npos (XO (XO (XO (XO (XI (XI
    XH))))))) :: ((Npos (XI (XO (XO (XO (XO (XI XH))))))) :: ((Npos (XO (XO
    (XI (XO (XI (XI XH))))))) :: ((Npos (XO (XO (XO (XI (XO (XI
    XH))))))) :: ((Npos (XI (XI (XI (XI (XI (XO XH))))))) :: ((Npos (XI (XO
    (XI (XO (XO (XI XH))))))) :: ((Npos (XO (XO (XO (XI (XI (XI
    XH))))))) :: ((Npos (XI (XO (XO (XI (XO (XI XH))))))) :: ((Npos (XI (XI
    (XO (XO (XI (XI XH))))))) :: ((Npos (XO (XO (XI (XO (XI (XI
    XH))))))) :: ((Npos (XI (XI (XO (XO (XI (XI
    XH))))))) :: [])))))))))))))))))))))))), (((Npos (XO (XI (XI (XO (XO (XI
    XH))))))) :: ((Npos (XI (XO (XI (XO (XI (XI XH))))))) :: ((Npos (XO (XI
    (XI (XI (XO (XI XH))))))) :: ((Npos (XI (XI (XO (XO (XO (XI
    XH))))))) :: ((Npos (XO (XO (XI (XO (XI (XI XH))))))) :: ((Npos (XI (XO
    (XO (XI (XO (XI XH))))))) :: ((Npos (XI (XI (XI (XI (XO (XI
    XH))))))) :: ((Npos (XO (XI (XI (XI (XO (XI
    XH))))))) :: [])))))))) :: (((Npos (XI (XI (XO (XO (XO (XI
    XH))))))) :: ((Npos (XO (XO (XI (XI (XO (XI XH))))))) :: ((Npos (XI (XO
    (XO (XO (XO (XI XH))))))) :: ((Npos (XI (XI (XO (XO (XI (XI
    XH))))))) :: ((Npos (XI (XI (XO (XO (XI (XI
    XH))))))) :: []))))) :: (((Npos (XI (XI (XO (XO (XO (XI
    XH))))))) :: ((Npos (XI (XI (XO (XO (XO (XI XH))))))) :: ((Npos (XO (XO
    (XI (XI (XO (XI XH))))))) :: ((Npos (XI (XO (XO (XO (XO (XI
    XH))))))) :: ((Npos (XI (XI (XO (XO (XI (XI XH))))))) :: ((Npos (XI (XI
    (XO (XO (XI (XI XH))))))) :: [])))))) :: [])))) :: ((((Npos (XO (XO (XI
    (XO (XI (XI XH))))))) :: ((Npos (XI (XO (XI (XO (XO (XI
    XH))))))) :: ((Npos (XI (XI (XO (XO (XI (XI XH))))))) :: ((Npos (XO (XO
    (XI (XO (XI (XI XH))))))) :: ((Npos (XI (XI (XI (XI (XI (XO
    XH))))))) :: ((Npos (XI (XO (XO (XO (XO (XI XH))))))) :: ((Npos (XI (XI
    (XO (XO (XI (XI XH))))))) :: ((Npos (XI (XI (XO (XO (XI (XI
    XH))))))) :: ((Npos (XI (XO (XI (XO (XO (XI XH))))))) :: ((Npos (XO (XI
    (XO (XO (XI (XI XH))))))) :: ((Npos (XO (XO (XI (XO (XI (XI
    XH))))))) :: ((Npos (XI (XI (XI (XI (XI (XO XH))))))) :: ((Npos (XI (XI
    (XO (XO (XO (XI XH))))))) :: ((Npos (XI (XI (XI (XI (XI (XO
    XH))))))) :: ((Npos (XI (XI (XO (XO (XO (XI XH))))))) :: ((Npos (XI (XI
    (XI (XI (XO (XI XH))))))) :: ((Npos (XO (XO (XI (XO (XO (XI
    XH))))))) :: ((Npos (XI (XO (XI (XO (XO (XI XH))))))) :: ((Npos (XI (XI
    (XI (XI (XI (XO XH))))))) :: ((Npos (XO (XO (XO (XI (XO (XI
    XH))))))) :: ((Npos (XI (XO (XO (XO (XO (XI XH))))))) :: ((Npos (XI (XI
    (XO (XO (XI (XI XH))))))) :: [])))))))))))))))))))))), (((Npos (XI (XO
    (XI (XI (XO (XI XH))))))) :: ((Npos (XI (XI (XI (XI (XO (XI
    XH))))))) :: ((Npos (XO (XO (XI (XO (XO (XI XH))))))) :: ((Npos (XI (XO
    (XI (XO (XI (XI XH))))))) :: ((Npos (XO (XO (XI (XI (XO (XI
    XH))))))) :: ((Npos (XI (XO (XI (XO (XO (XI
    XH))))))) :: [])))))) :: [])) :: ((((Npos (XO (XO (XI (XO (XI (XI
    XH))))))) :: ((Npos (XI (XO (XI (XO (XO (XI XH))))))) :: ((Npos (XI (XI
    (XO (XO (XI (XI XH))))))) :: ((Npos (XO (XO (XI (XO (XI (XI
    XH))))))) :: ((Npos (XI (XI (XI (XI (XI (XO XH))))))) :: ((Npos (XO (XI
    (XI (XO (XO (XI XH))))))) :: ((Npos (XI (XO (XO (XO (XO (XI
    XH))))))) :: ((Npos (XI (XO (XO (XI (XO (XI XH))))))) :: ((Npos (XO (XO
    (XI (XI (XO (XI XH))))))) :: ((Npos (XI (XI (XI (XI (XI (XO
    XH))))))) :: ((Npos (XI (XO (XO (XI (XO (XI XH))))))) :: ((Npos (XO (XI
    (XI (XO (XO (XI XH))))))) :: ((Npos (XI (XI (XI (XI (XI (XO
    XH))))))) :: ((Npos (XI (XI (XO (XO (XO (XI XH))))))) :: ((Npos (XI (XI
    (XI (XI (XI (XO XH))))))) :: ((Npos (XI (XI (XO (XO (XO (XI
    XH))))))) :: ((Npos (XI (XI (XI (XI (XO (XI XH))))))) :: ((Npos (XO (XO
    (XI (XO (XO (XI XH))))))) :: ((Npos (XI (XO (XI (XO (XO (XI
    XH))))))) :: ((Npos (XI (XI (XI (XI (XI (XO XH))))))) :: ((Npos (XO (XO
    (XO (XI (XO (XI XH))))))) :: ((Npos (XI (XO (XO (XO (XO (XI
    XH))))))) :: ((Npos (XI (XI (XO (XO (XI (XI
    XH))))))) :: []))))))))))))))))))))))), (((Npos (XI (XO (XI (XI (XO (XI
    XH))))))) :: ((Npos (XI (XI (XI (XI (XO (XI XH))))))) :: ((Npos (XO (XO
    (XI (XO (XO (XI XH))))))) :: ((Npos (XI (XO (XI (XO (XI (XI
    XH))))))) :: ((Npos (XO (XO (XI (XI (XO (XI XH))))))) :: ((Npos (XI (XO
    (XI (XO (XO (XI XH))))))) :: [])))))) :: [])) :: ((((Npos (XO (XO (XI (XO
    (XI (XI XH))))))) :: ((Npos (XI (XO (XI (XO (XO (XI XH))))))) :: ((Npos
    (XI (XI (XO (XO (XI (XI XH))))))) :: ((Npos (XO (XO (XI (XO (XI (XI
    XH))))))) :: ((Npos (XI (XI (XI (XI (XI (XO XH))))))) :: ((Npos (XO (XI
    (XO (XO (XO (XI XH))))))) :: ((Npos (XI (XI (XI (XI (XO (XI
    XH))))))) :: ((Npos (XO (XO (XI (XO (XO (XI XH))))))) :: ((Npos (XI (XO
    (XO (XI (XI (XI XH))))))) :: ((Npos (XI (XI (XI (XI (XI (XO
    XH))))))) :: ((Npos (XO (XI (XI (XI (XO (XI XH))))))) :: ((Npos (XI (XO
    (XI (XO (XO (XI XH))))))) :: ((Npos (XI (XO (XI (XO (XO (XI
    XH))))))) :: ((Npos (XO (XO (XI (XO (XO (XI XH))))))) :: ((Npos (XI (XI
    (XO (XO (XI (XI XH))))))) :: ((Npos (XI (XI (XI (XI (XI (XO
    XH))))))) :: ((Npos (XI (XO (XI (XO (XO (XI XH))))))) :: ((Npos (XO (XO
    (XO (XI (XI (XI XH))))))) :: ((Npos (XI (XI (XO (XO (XO (XI
    XH))))))) :: ((Npos (XI (XO (XI (XO (XO (XI XH))))))) :: ((Npos (XO (XO
    (XO (XO (XI (XI XH))))))) :: ((Npos (XO (XO (XI (XO (XI (XI
    XH))))))) :: ((Npos (XI (XO (XO (XI (XO (XI XH))))))) :: ((Npos (XI (XI
    (XI (XI (XO (XI XH))))))) :: ((Npos (XO (XI (XI (XI (XO (XI
    XH))))))) :: ((Npos (XI (XI (XI (XI (XI (XO XH))))))) :: ((Npos (XO (XO
    (XO (XI (XO (XI XH))))))) :: ((Npos (XI (XO (XO (XO (XO (XI
    XH))))))) :: ((Npos (XO (XI (XI (XI (XO (XI XH))))))) :: ((Npos (XO (XO
    (XI (XO (XO (XI XH))))))) :: ((Npos (XO (XO (XI (XI (XO (XI
    XH))))))) :: ((Npos (XI (XO (XO (XI (XO (XI XH))))))) :: ((Npos (XO (XI
    (XI (XI (XO (XI XH))))))) :: ((Npos (XI (XI (XI (XO (XO (XI
    XH))))))) :: [])))))))))))))))))))))))))))))))))), (((Npos (XI (XI (XI
    (XO (XI (XI XH))))))) :: ((Npos (XI (XO (XO (XI (XO (XI
    XH))))))) :: ((Npos (XO (XO (XI (XO (XI (XI XH))))))) :: ((Npos (XO (XO
    (XO (XI (XO (XI XH))))))) :: ((Npos (XO (XO (XO (XO (XO
    XH)))))) :: ((Npos (XI (XI (XO (XO (XI (XI XH))))))) :: ((Npos (XO (XO
    (XI (XO (XI (XI XH))))))) :: ((Npos (XI (XO (XO (XO (XO (XI
    XH))))))) :: ((Npos (XO (XO (XI (XO (XI (XI XH))))))) :: ((Npos (XI (XO
    (XI (XO (XO (XI XH))))))) :: ((Npos (XI (XO (XI (XI (XO (XI
    XH))))))) :: ((Npos (XI (XO (XI (XO (XO (XI XH))))))) :: ((Npos (XO (XI
    (XI (XI (XO (XI XH))))))) :: ((Npos (XO (XO (XI (XO (XI (XI
    XH))))))) :: [])))))))))))))) :: [])) :: ((((Npos (XO (XI (XI (XO (XO (XI
    XH))))))) :: ((Npos (XO (XI (XO (XO (XI (XI XH))))))) :: ((Npos (XI (XO
    (XI (XO (XO (XI XH))))))) :: ((Npos (XI (XO (XI (XO (XO (XI
    XH))))))) :: ((Npos (XO (XO (XI (XI (XO (XI XH))))))) :: ((Npos (XI (XO
    (XO (XI (XO (XI XH))))))) :: ((Npos (XI (XI (XO (XO (XI (XI
    XH))))))) :: ((Npos (XO (XO (XI (XO (XI (XI XH))))))) :: [])))))))),
    (((Npos (XI (XI (XO (XO (XO (XI XH))))))) :: ((Npos (XI (XI (XO (XO (XO
    (XI XH))))))) :: ((Npos (XO (XO (XI (XI (XO (XI XH))))))) :: ((Npos (XI
    (XO (XO (XO (XO (XI XH))))))) :: ((Npos (XI (XI (XO (XO (XI (XI
    XH))))))) :: ((Npos (XI (XI (XO (XO (XI (XI
    XH))))))) :: [])))))) :: [])) :: ((((Npos (XO (XI (XI (XO (XO (XI
    XH))))))) :: ((Npos (XI (XI (XI (XI (XO (XI XH))))))) :: ((Npos (XO (XI
    (XO (XO (XI (XI XH))))))) :: ((Npos (XI (XO (XI (XI (XO (XI
    XH))))))) :: ((Npos (XI (XO (XO (XO (XO (XI XH))))))) :: ((Npos (XO (XO
    (XI (XI (XO (XI XH))))))) :: ((Npos (XI (XI (XI (XI (XI (XO
    XH))))))) :: ((Npos (XI (XI (XI (XO (XO (XI XH))))))) :: ((Npos (XO (XI
    (XO (XO (XI (XI XH))))))) :: ((Npos (XI (XO (XO (XO (XO (XI
    XH))))))) :: ((Npos (XI (XO (XI (XI (XO (XI XH))))))) :: ((Npos (XI (XO
    (XI (XI (XO (XI XH))))))) :: ((Npos (XI (XO (XO (XO (XO (XI
    XH))))))) :: ((Npos (XO (XI (XO (XO (XI (XI
    XH))))))) :: [])))))))))))))), (((Npos (XI (XO (XI (XI (XO (XI
    XH))))))) :: ((Npos (XI (XI (XI (XI (XO (XI XH))))))) :: ((Npos (XO (XO
    (XI (XO (XO (XI XH))))))) :: ((Npos (XI (XO (XI (XO (XI (XI
    XH))))))) :: ((Npos (XO (XO (XI (XI (XO (XI XH))))))) :: ((Npos (XI (XO
    (XI (XO (XO (XI XH))))))) :: [])))))) :: [])) :: ((((Npos (XI (XO (XI (XO
    (XO (XI XH))))))) :: ((Npos (XI (XO (XI (XI (XO (XI XH))))))) :: ((Npos
    (XI (XO (XO (XI (XO (XI XH))))))) :: ((Npos (XO (XO (XI (XO (XI (XI
    XH))))))) :: ((Npos (XI (XI (XI (XI (XI (XO XH))))))) :: ((Npos (XI (XI
    (XO (XO (XO (XI XH))))))) :: ((Npos (XI (XI (XI (XI (XO (XI
    XH))))))) :: ((Npos (XO (XO (XI (XO (XO (XI XH))))))) :: ((Npos (XI (XO
    (XI (XO (XO (XI XH))))))) :: ((Npos (XI (XI (XI (XI (XI (XO
    XH))))))) :: ((Npos (XI (XI (XO (XO (XO (XI XH))))))) :: ((Npos (XI (XI
    (XI (XI (XO (XI XH))))))) :: ((Npos (XI (XO (XI (XI (XO (XI
    XH))))))) :: ((Npos (XI (XO (XI (XI (XO (XI XH))))))) :: ((Npos (XI (XO
    (XI (XO (XO (XI XH))))))) :: ((Npos (XO (XI (XI (XI (XO (XI
    XH))))))) :: ((Npos (XO (XO (XI (XO (XI (XI XH))))))) :: ((Npos (XI (XI
    (XO (XO (XI (XI XH))))))) :: [])))))))))))))))))), (((Npos (XI (XO (XI
    (XI (XO (XI XH))))))) :: ((Npos (XI (XI (XI (XI (XO (XI
    XH))))))) :: ((Npos (XO (XO (XI (XO (XO (XI XH))))))) :: ((Npos (XI (XO
    (XI (XO (XI (XI XH))))))) :: ((Npos (XO (XO (XI (XI (XO (XI
    XH))))))) :: ((Npos (XI (XO (XI (XO (XO (XI
    XH))))))) :: [])))))) :: [])) :: ((((Npos (XI (XI (XO (XO (XO (XI
    XH))))))) :: ((Npos (XI (XI (XI (XI (XI (XO XH))))))) :: ((Npos (XI (XI
    (XO (XO (XI (XI XH))))))) :: ((Npos (XO (XO (XI (XO (XI (XI
    XH))))))) :: ((Npos (XO (XI (XO (XO (XI (XI XH))))))) :: ((Npos (XI (XO
    (XO (XI (XO (XI XH))))))) :: ((Npos (XO (XI (XI (XI (XO (XI
    XH))))))) :: ((Npos (XI (XI (XI (XO (XO (XI XH))))))) :: ((Npos (XI (XI
    (XI (XI (XI (XO XH))))))) :: ((Npos (XO (XO (XI (XO (XI (XI
    XH))))))) :: ((Npos (XI (XO (XO (XI (XI (XI XH))))))) :: ((Npos (XO (XO
    (XO (XO (XI (XI XH))))))) :: ((Npos (XI (XO (XI (XO (XO (XI
    XH))))))) :: []))))))))))))), (((Npos (XI (XO (XI (XI (XO (XI
    XH))))))) :: ((Npos (XI (XI (XI (XI (XO (XI XH))))))) :: ((Npos (XO (XO
    (XI (XO (XO (XI XH))))))) :: ((Npos (XI (XO (XI (XO (XI (XI
    XH))))))) :: ((Npos (XO (XO (XI (XI (XO (XI XH))))))) :: ((Npos (XI (XO
    (XI (XO (XO (XI XH))))))) :: [])))))) :: [])) :: ((((Npos (XI (XI (XO (XO
    (XO (XI XH))))))) :: ((Npos (XI (XI (XI (XI (XI (XO XH))))))) :: ((Npos
    (XI (XI (XO (XO (XI (XI XH))))))) :: ((Npos (XO (XO (XI (XO (XI (XI
    XH))))))) :: ((Npos (XO (XI (XO (XO (XI (XI XH))))))) :: ((Npos (XI (XO
    (XO (XI (XO (XI XH))))))) :: ((Npos (XO (XI (XI (XI (XO (XI
    XH))))))) :: ((Npos (XI (XI (XI (XO (XO (XI XH))))))) :: ((Npos (XI (XI
    (XI (XI (XI (XO XH))))))) :: ((Npos (XI (XO (XI (XO (XO (XI
    XH))))))) :: ((Npos (XO (XI (XI (XI (XO (XI XH))))))) :: ((Npos (XI (XI
    (XO (XO (XO (XI XH))))))) :: ((Npos (XI (XI (XI (XI (XO (XI
    XH))))))) :: ((Npos (XO (XO (XI (XO (XO (XI XH))))))) :: ((Npos (XI (XO
    (XO (XI (XO (XI XH))))))) :: ((Npos (XO (XI (XI (XI (XO (XI
    XH))))))) :: ((Npos (XI (XI (XI (XO (XO (XI
    XH))))))) :: []))))))))))))))))), (((Npos (XI (XO (XI (XI (XO (XI
    XH))))))) :: ((Npos (XI (XI (XI (XI (XO (XI XH))))))) :: ((Npos (XO (XO
    (XI (XO (XO (XI XH))))))) :: ((Npos (XI (XO (XI (XO (XI (XI
    XH))))))) :: ((Npos (XO (XO (XI (XI (XO (XI XH))))))) :: ((Npos (XI (XO
    (XI (XO (XO (XI XH))))))) :: [])))))) :: [])) :: ((((Npos (XO (XO (XI (XO
    (XI (XI XH))))))) :: ((Npos (XI (XO (XO (XI (XI (XI XH))))))) :: ((Npos
    (XO (XO (XO (XO (XI (XI XH))))))) :: ((Npos (XI (XO (XI (XO (XO (XI
    XH))))))) :: ((Npos (XI (XI (XI (XI (XI (XO XH))))))) :: ((Npos (XO (XI
    (XI (XO (XI (XI XH))))))) :: ((Npos (XI (XO (XI (XO (XO (XI
    XH))))))) :: ((Npos (XO (XI (XO (XO (XI (XI XH))))))) :: ((Npos (XI (XI
    (XO (XO (XI (XI XH))))))) :: ((Npos (XI (XO (XO (XI (XO (XI
    XH))))))) :: ((Npos (XI (XI (XI (XI (XO (XI XH))))))) :: ((Npos (XO (XI
    (XI (XI (XO (XI XH))))))) :: ((Npos (XI (XI (XI (XI (XI (XO
    XH))))))) :: ((Npos (XO (XO (XI (XO (XI (XI XH))))))) :: ((Npos (XI (XO
    (XO (XO (XO (XI XH))))))) :: ((Npos (XI (XI (XI (XO (XO (XI
    XH))))))) :: [])))))))))))))))), (((Npos (XI (XO (XI (XI (XO (XI
    XH))))))) :: ((Npos (XI (XI (XI (XI (XO (XI XH))))))) :: ((Npos (XO (XO
    (XI (XO (XO (XI XH))))))) :: ((Npos (XI (XO (XI (XO (XI (XI
    XH))))))) :: ((Npos (XO (XO (XI (XI (XO (XI XH))))))) :: ((Npos (XI (XO
    (XI (XO (XO (XI XH))))))) :: [])))))) :: (((Npos (XI (XI (XO (XO (XO (XI
    XH))))))) :: ((Npos (XI (XI (XO (XO (XO (XI XH))))))) :: ((Npos (XO (XO
    (XI (XI (XO (XI XH))))))) :: ((Npos (XI (XO (XO (XO (XO (XI
    XH))))))) :: ((Npos (XI (XI (XO (XO (XI (XI XH))))))) :: ((Npos (XI (XI
    (XO (XO (XI (XI XH))))))) :: [])))))) :: []))) :: ((((Npos (XO (XO (XI
    (XI (XO (XI XH))))))) :: ((Npos (XI (XO (XO (XO (XO (XI
    XH))))))) :: ((Npos (XO (XI (XI (XI (XO (XI XH))))))) :: ((Npos (XI (XI
    (XI (XO (XO (XI XH))))))) :: ((Npos (XI (XO (XI (XO (XI (XI
    XH))))))) :: ((Npos (XI (XO (XO (XO (XO (XI XH))))))) :: ((Npos (XI (XI
    (XI (XO (XO (XI XH))))))) :: ((Npos (XI (XO (XI (XO (XO (XI
    XH))))))) :: ((Npos (XI (XI (XI (XI (XI (XO XH))))))) :: ((Npos (XO (XO
    (XI (XI (XO (XI XH))))))) :: ((Npos (XI (XO (XI (XO (XO (XI
    XH))))))) :: ((Npos (XO (XI (XI (XO (XI (XI XH))))))) :: ((Npos (XI (XO
    (XI (XO (XO (XI XH))))))) :: ((Npos (XO (XO (XI (XI (XO (XI
    XH))))))) :: [])))))))))))))), (((Npos (XI (XO (XI (XI (XO (XI
    XH))))))) :: ((Npos (XI (XI (XI (XI (XO (XI XH))))))) :: ((Npos (XO (XO
    (XI (XO (XO (XI XH))))))) :: ((Npos (XI (XO (XI (XO (XI (XI
    XH))))))) :: ((Npos (XO (XO (XI (XI (XO (XI XH))))))) :: ((Npos (XI (XO
    (XI (XO (XO (XI XH))))))) :: [])))))) :: [])) :: ((((Npos (XI (XI (XI (XI
    (XO (XI XH))))))) :: ((Npos (XO (XO (XI (XI (XO (XI XH))))))) :: ((Npos
    (XO (XO (XI (XO (XO (XI XH))))))) :: ((Npos (XI (XI (XI (XI (XI (XO
    XH))))))) :: ((Npos (XI (XI (XO (XO (XI (XI XH))))))) :: ((Npos (XO (XO
    (XI (XO (XI (XI XH))))))) :: ((Npos (XI (XO (XO (XI (XI (XI
    XH))))))) :: ((Npos (XO (XO (XI (XI (XO (XI XH))))))) :: ((Npos (XI (XO
    (XI (XO (XO (XI XH))))))) :: ((Npos (XI (XI (XI (XI (XI (XO
    XH))))))) :: ((Npos (XI (XI (XI (XO (XO (XI XH))))))) :: ((Npos (XO (XO
    (XI (XI (XO (XI XH))))))) :: ((Npos (XI (XI (XI (XI (XO (XI
    XH))))))) :: ((Npos (XO (XI (XO (XO (XO (XI XH))))))) :: ((Npos (XI (XO
    (XO (XO (XO (XI XH))))))) :: ((Npos (XO (XO (XI (XI (XO (XI
    XH))))))) :: ((Npos (XI (XI (XO (XO (XI (XI
    XH))))))) :: []))))))))))))))))), (((Npos (XI (XO (XI (XI (XO (XI
    XH))))))) :: ((Npos (XI (XI (XI (XI (XO (XI XH))))))) :: ((Npos (XO (XO
    (XI (XO (XO (XI XH))))))) :: ((Npos (XI (XO (XI (XO (XI (XI
    XH))))))) :: ((Npos (XO (XO (XI (XI (XO (XI XH))))))) :: ((Npos (XI (XO
    (XI (XO (XO (XI XH))))))) :: [])))))) :: [])) :: ((((Npos (XO (XI (XI (XI
    (XO (XI XH))))))) :: ((Npos (XO (XO (XO (XO (XI (XI XH))))))) :: ((Npos
    (XI (XI (XI (XI (XI (XO XH))))))) :: ((Npos (XO (XO (XO (XO (XI (XI
    XH))))))) :: ((Npos (XI (XO (XO (XI (XI (XI XH))))))) :: ((Npos (XO (XO
    (XI (XO (XI (XI XH))))))) :: ((Npos (XO (XO (XO (XI (XO (XI
    XH))))))) :: ((Npos (XO (XI (XO (XO (XI (XI XH))))))) :: ((Npos (XI (XO
    (XO (XO (XO (XI XH))))))) :: ((Npos (XO (XI (XI (XI (XO (XI
    XH))))))) :: [])))))))))), (((Npos (XI (XO (XI (XI (XO (XI
    XH))))))) :: ((Npos (XI (XI (XI (XI (XO (XI XH))))))) :: ((Npos (XO (XO
    (XI (XO (XO (XI XH))))))) :: ((Npos (XI (XO (XI (XO (XI (XI
    XH))))))) :: ((Npos (XO (XO (XI (XI (XO (XI XH))))))) :: ((Npos (XI (XO
    (XI (XO (XO (XI XH))))))) :: [])))))) :: [])) :: ((((Npos (XO (XO (XO (XO
    (XI (XI XH))))))) :: ((Npos (XO (XI (XO (XO (XI (XI XH))))))) :: ((Npos
    (XI (XO (XI (XO (XO (XI XH))))))) :: ((Npos (XO (XO (XI (XI (XO (XI
    XH))))))) :: ((Npos (XI (XO (XO (XI (XO (XI XH))))))) :: ((Npos (XI (XO
    (XI (XI (XO (XI XH))))))) :: ((Npos (XI (XO (XO (XI (XO (XI
    XH))))))) :: ((Npos (XO (XI (XI (XI (XO (XI XH))))))) :: ((Npos (XI (XO
    (XO (XO (XO (XI XH))))))) :: ((Npos (XO (XI (XO (XO (XI (XI
    XH))))))) :: ((Npos (XI (XO (XO (XI (XI (XI XH))))))) :: ((Npos (XI (XI
    (XI (XI (XI (XO XH))))))) :: ((Npos (XO (XO (XI (XI (XO (XI
    XH))))))) :: ((Npos (XI (XO (XO (XO (XO (XI XH))))))) :: ((Npos (XO (XO
    (XI (XO (XI (XI XH))))))) :: ((Npos (XI (XO (XI (XO (XO (XI
    XH))))))) :: ((Npos (XI (XI (XI (XI (XI (XO XH))))))) :: ((Npos (XI (XO
    (XO (XI (XO (XI XH))))))) :: ((Npos (XO (XI (XI (XI (XO (XI
    XH))))))) :: ((Npos (XI (XI (XO (XO (XO (XI XH))))))) :: ((Npos (XO (XO
    (XI (XI (XO (XI XH))))))) :: ((Npos (XI (XO (XI (XO (XI (XI
    XH))))))) :: ((Npos (XO (XO (XI (XO (XO (XI XH))))))) :: ((Npos (XI (XO
    (XI (XO (XO (XI XH))))))) :: ((Npos (XI (XI (XO (XO (XI (XI
    XH))))))) :: ((Npos (XI (XI (XI (XI (XI (XO XH))))))) :: ((Npos (XI (XI
    (XO (XO (XO (XI XH))))))) :: ((Npos (XI (XO (XO (XI (XI (XI
    XH))))))) :: ((Npos (XO (XI (XO (XO (XI XH)))))) :: ((Npos (XO (XO (XO
    (XI (XI XH)))))) :: [])))))))))))))))))))))))))))))), (((Npos (XI (XO (XI
    (XI (XO (XI XH))))))) :: ((Npos (XI (XI (XI (XI (XO (XI
    XH))))))) :: ((Npos (XO (XO (XI (XO (XO (XI XH))))))) :: ((Npos (XI (XO
    (XI (XO (XI (XI XH))))))) :: ((Npos (XO (XO (XI (XI (XO (XI
    XH))))))) :: ((Npos (XI (XO (XI (XO (XO (XI
    XH))))))) :: [])))))) :: [])) :: ((((Npos (XO (XI (XI (XO (XO (XI
    XH))))))) :: ((Npos (XI (XO (XO (XO (XO (XI XH))))))) :: ((Npos (XI (XI
    (XO (XO (XI (XI XH))))))) :: ((Npos (XO (XO (XI (XO (XI (XI
    XH))))))) :: ((Npos (XI (XI (XI (XI (XI (XO XH))))))) :: ((Npos (XI (XI
    (XI (XO (XO (XI XH))))))) :: ((Npos (XI (XO (XO (XI (XO (XI
    XH))))))) :: ((Npos (XO (XO (XI (XI (XO (XI XH))))))) :: [])))))))),
    (((Npos (XI (XO (XI (XI (XO (XI XH))))))) :: ((Npos (XI (XI (XI (XI (XO
    (XI XH))))))) :: ((Npos (XO (XO (XI (XO (XO (XI XH))))))) :: ((Npos (XI
    (XO (XI (XO (XI (XI XH))))))) :: ((Npos (XO (XO (XI (XI (XO (XI
    XH))))))) :: ((Npos (XI (XO (XI (XO (XO (XI
    XH))))))) :: [])))))) :: [])) :: ((((Npos (XI (XO (XO (XI (XO (XI
    XH))))))) :: ((Npos (XO (XO (XI (XO (XI (XI XH))))))) :: ((Npos (XI (XO
    (XI (XO (XO (XI XH))))))) :: ((Npos (XO (XI (XO (XO (XI (XI
    XH))))))) :: ((Npos (XI (XO (XO (XO (XO (XI XH))))))) :: ((Npos (XO (XI
    (XO (XO (XO (XI XH))))))) :: ((Npos (XO (XO (XI (XI (XO (XI
    XH))))))) :: ((Npos (XI (XO (XI (XO (XO (XI XH))))))) :: ((Npos (XI (XI
    (XI (XI (XI (XO XH))))))) :: ((Npos (XI (XI (XO (XO (XO (XI
    XH))))))) :: ((Npos (XI (XI (XI (XI (XO (XI XH))))))) :: ((Npos (XO (XI
    (XO (XO (XI (XI XH))))))) :: ((Npos (XI (XI (XI (XI (XO (XI
    XH))))))) :: ((Npos (XI (XO (XI (XO (XI (XI XH))))))) :: ((Npos (XO (XO
    (XI (XO (XI (XI XH))))))) :: ((Npos (XI (XO (XO (XI (XO (XI
    XH))))))) :: ((Npos (XO (XI (XI (XI (XO (XI XH))))))) :: ((Npos (XI (XO
    (XI (XO (XO (XI XH))))))) :: [])))))))))))))))))), (((Npos (XI (XO (XI
    (XI (XO (XI XH))))))) :: ((Npos (XI (XI (XI (XI (XO (XI
    XH))))))) :: ((Npos (XO (XO (XI (XO (XO (XI XH))))))) :: ((Npos (XI (XO
    (XI (XO (XI (XI XH))))))) :: ((Npos (XO (XO (XI (XI (XO (XI
    XH))))))) :: ((Npos (XI (XO (XI (XO (XO (XI
    XH))))))) :: [])))))) :: (((Npos (XO (XI (XI (XO (XO (XI
    XH))))))) :: ((Npos (XI (XO (XI (XO (XI (XI XH))))))) :: ((Npos (XO (XI
    (XI (XI (XO (XI XH))))))) :: ((Npos (XI (XI (XO (XO (XO (XI
    XH))))))) :: ((Npos (XO (XO (XI (XO (XI (XI XH))))))) :: ((Npos (XI (XO
    (XO (XI (XO (XI XH))))))) :: ((Npos (XI (XI (XI (XI (XO (XI
    XH))))))) :: ((Npos (XO (XI (XI (XI (XO (XI
    XH))))))) :: [])))))))) :: []))) :: ((((Npos (XO (XO (XI (XO (XI (XI
    XH))))))) :: ((Npos (XO (XI (XO (XO (XI (XI XH))))))) :: ((Npos (XI (XO
    (XO (XO (XO (XI XH))))))) :: ((Npos (XI (XI (XO (XO (XI (XI
    XH))))))) :: ((Npos (XO (XO (XO (XI (XO (XI XH))))))) :: ((Npos (XI (XI
    (XO (XO (XO (XI XH))))))) :: ((Npos (XI (XO (XO (XO (XO (XI
    XH))))))) :: ((Npos (XO (XI (XI (XI (XO (XI XH))))))) :: [])))))))),
    (((Npos (XI (XI (XO (XO (XO (XI XH))))))) :: ((Npos (XI (XI (XO (XO (XO
    (XI XH))))))) :: ((Npos (XO (XO (XI (XI (XO (XI XH))))))) :: ((Npos (XI
    (XO (XO (XO (XO (XI XH))))))) :: ((Npos (XI (XI (XO (XO (XI (XI
    XH))))))) :: ((Npos (XI (XI (XO (XO (XI (XI
    XH))))))) :: [])))))) :: [])) :: ((((Npos (XO (XO (XI (XO (XI (XI
    XH))))))) :: ((Npos (XI (XI (XI (XI (XO (XI XH))))))) :: ((Npos (XO (XO
    (XI (XO (XI (XI XH))))))) :: ((Npos (XI (XO (XO (XO (XO (XI
    XH))))))) :: ((Npos (XO (XO (XI (XI (XO (XI XH))))))) :: ((Npos (XI (XI
    (XI (XI (XI (XO XH))))))) :: ((Npos (XI (XI (XI (XI (XO (XI
    XH))))))) :: ((Npos (XO (XI (XO (XO (XI (XI XH))))))) :: ((Npos (XO (XO
    (XI (XO (XO (XI XH))))))) :: ((Npos (XI (XO (XI (XO (XO (XI
    XH))))))) :: ((Npos (XO (XI (XO (XO (XI (XI XH))))))) :: ((Npos (XI (XO
    (XO (XI (XO (XI XH))))))) :: ((Npos (XO (XI (XI (XI (XO (XI
    XH))))))) :: ((Npos (XI (XI (XI (XO (XO (XI
    XH))))))) :: [])))))))))))))), (((Npos (XI (XI (XO (XO (XO (XI
    XH))))))) :: ((Npos (XO (XO (XI (XI (XO (XI XH))))))) :: ((Npos (XI (XO
    (XO (XO (XO (XI XH))))))) :: ((Npos (XI (XI (XO (XO (XI (XI
    XH))))))) :: ((Npos (XI (XI (XO (XO (XI (XI
    XH))))))) :: []))))) :: (((Npos (XI (XI (XO (XO (XO (XI
    XH))))))) :: ((Npos (XI (XI (XO (XO (XO (XI XH))))))) :: ((Npos (XO (XO
    (XI (XI (XO (XI XH))))))) :: ((Npos (XI (XO (XO (XO (XO (XI
    XH))))))) :: ((Npos (XI (XI (XO (XO (XI (XI XH))))))) :: ((Npos (XI (XI
    (XO (XO (XI (XI XH))))))) :: [])))))) :: []))) :: ((((Npos (XO (XO (XI
    (XO (XO (XI XH))))))) :: ((Npos (XI (XO (XO (XO (XO (XI
    XH))))))) :: ((Npos (XO (XO (XI (XO (XI (XI XH))))))) :: ((Npos (XI (XO
    (XO (XO (XO (XI XH))))))) :: ((Npos (XI (XI (XO (XO (XO (XI
    XH))))))) :: ((Npos (XO (XO (XI (XI (XO (XI XH))))))) :: ((Npos (XI (XO
    (XO (XO (XO (XI XH))))))) :: ((Npos (XI (XI (XO (XO (XI (XI
    XH))))))) :: ((Npos (XI (XI (XO (XO (XI (XI XH))))))) :: ((Npos (XI (XO
    (XI (XO (XO (XI XH))))))) :: ((Npos (XI (XI (XO (XO (XI (XI
    XH))))))) :: ((Npos (XO (XI (XI (XI (XO XH)))))) :: ((Npos (XO (XO (XI
    (XO (XO (XI XH))))))) :: ((Npos (XI (XO (XO (XO (XO (XI
    XH))))))) :: ((Npos (XO (XO (XI (XO (XI (XI XH))))))) :: ((Npos (XI (XO
    (XO (XO (XO (XI XH))))))) :: ((Npos (XI (XI (XO (XO (XO (XI
    XH))))))) :: ((Npos (XO (XO (XI (XI (XO (XI XH))))))) :: ((Npos (XI (XO
    (XO (XO (XO (XI XH))))))) :: ((Npos (XI (XI (XO (XO (XI (XI
    XH))))))) :: ((Npos (XI (XI (XO (XO (XI (XI
    XH))))))) :: []))))))))))))))))))))), (((Npos (XI (XI (XO (XO (XO (XI
    XH))))))) :: ((Npos (XO (XO (XI (XI (XO (XI XH))))))) :: ((Npos (XI (XO
    (XO (XO (XO (XI XH))))))) :: ((Npos (XI (XI (XO (XO (XI (XI
    XH))))))) :: ((Npos (XI (XI (XO (XO (XI (XI
    XH))))))) :: []))))) :: (((Npos (XI (XI (XO (XO (XO (XI
    XH))))))) :: ((Npos (XI (XI (XO (XO (XO (XI XH))))))) :: ((Npos (XO (XO
    (XI (XI (XO (XI XH))))))) :: ((Npos (XI (XO (XO (XO (XO (XI
    XH))))))) :: ((Npos (XI (XI (XO (XO (XI (XI XH))))))) :: ((Npos (XI (XI
    (XO (XO (XI (XI XH))))))) :: [])))))) :: []))) :: ((((Npos (XI (XI (XO
    (XO (XO (XI XH))))))) :: ((Npos (XO (XO (XO (XO (XI (XI
    XH))))))) :: ((Npos (XO (XO (XO (XO (XI (XI XH))))))) :: ((Npos (XI (XI
    (XI (XI (XI (XO XH))))))) :: ((Npos (XO (XO (XI (XI (XO (XI
    XH))))))) :: ((Npos (XI (XI (XI (XI (XO (XI XH))))))) :: ((Npos (XI (XI
    (XO (XO (XO (XI XH))))))) :: ((Npos (XI (XO (XO (XO (XO (XI
    XH))))))) :: ((Npos (XO (XO (XI (XI (XO (XI XH))))))) :: ((Npos (XI (XI
    (XO (XO (XI (XI XH))))))) :: [])))))))))), (((Npos (XI (XO (XI (XI (XO
    (XI XH))))))) :: ((Npos (XI (XI (XI (XI (XO (XI XH))))))) :: ((Npos (XO
    (XO (XI (XO (XO (XI XH))))))) :: ((Npos (XI (XO (XI (XO (XI (XI
    XH))))))) :: ((Npos (XO (XO (XI (XI (XO (XI XH))))))) :: ((Npos (XI (XO
    (XI (XO (XO (XI XH))))))) :: [])))))) :: (((Npos (XO (XI (XI (XO (XO (XI
    XH))))))) :: ((Npos (XI (XO (XI (XO (XI (XI XH))))))) :: ((Npos (XO (XI
    (XI (XI (XO (XI XH))))))) :: ((Npos (XI (XI (XO (XO (XO (XI
    XH))))))) :: ((Npos (XO (XO (XI (XO (XI (XI XH))))))) :: ((Npos (XI (XO
    (XO (XI (XO (XI XH))))))) :: ((Npos (XI (XI (XI (XI (XO (XI
    XH))))))) :: ((Npos (XO (XI (XI (XI (XO (XI
    XH))))))) :: [])))))))) :: (((Npos (XI (XI (XO (XO (XO (XI
    XH))))))) :: ((Npos (XI (XI (XO (XO (XO (XI XH))))))) :: ((Npos (XO (XO
    (XI (XI (XO (XI XH))))))) :: ((Npos (XI (XO (XO (XO (XO (XI
    XH))))))) :: ((Npos (XI (XI (XO (XO (XI (XI XH))))))) :: ((Npos (XI (XI
    (XO (XO (XI (XI XH))))))) :: [])))))) :: [])))) :: ((((Npos (XI (XO (XI
    (XO (XI (XI XH))))))) :: ((Npos (XO (XI (XI (XO (XO (XI
    XH))))))) :: ((Npos (XI (XO (XI (XO (XI (XI XH))))))) :: ((Npos (XO (XI
    (XI (XI (XO (XI XH))))))) :: ((Npos (XI (XI (XO (XO (XO (XI
    XH))))))) :: []))))), (((Npos (XO (XI (XI (XO (XO (XI XH))))))) :: ((Npos
    (XI (XO (XI (XO (XI (XI XH))))))) :: ((Npos (XO (XI (XI (XI (XO (XI
    XH))))))) :: ((Npos (XI (XI (XO (XO (XO (XI XH))))))) :: ((Npos (XO (XO
    (XI (XO (XI (XI XH))))))) :: ((Npos (XI (XO (XO (XI (XO (XI
    XH))))))) :: ((Npos (XI (XI (XI (XI (XO (XI XH))))))) :: ((Npos (XO (XI
    (XI (XI (XO (XI XH))))))) :: [])))))))) :: [])) :: ((((Npos (XO (XO (XI
    (XI (XO (XI XH))))))) :: ((Npos (XI (XO (XI (XO (XO (XI
    XH))))))) :: ((Npos (XI (XI (XI (XO (XO (XI XH))))))) :: ((Npos (XI (XO
    (XO (XO (XO (XI XH))))))) :: ((Npos (XI (XI (XO (XO (XO (XI
    XH))))))) :: ((Npos (XI (XO (XO (XI (XI (XI XH))))))) :: ((Npos (XI (XI
    (XI (XI (XI (XO XH))))))) :: ((Npos (XI (XO (XO (XI (XO (XI
    XH))))))) :: ((Npos (XI (XO (XI (XI (XO (XI XH))))))) :: ((Npos (XO (XO
    (XO (XO (XI (XI XH))))))) :: ((Npos (XO (XO (XI (XI (XO (XI
    XH))))))) :: ((Npos (XI (XO (XO (XI (XO (XI XH))))))) :: ((Npos (XI (XI
    (XO (XO (XO (XI XH))))))) :: ((Npos (XI (XO (XO (XI (XO (XI
    XH))))))) :: ((Npos (XO (XO (XI (XO (XI (XI XH))))))) :: ((Npos (XI (XI
    (XI (XI (XI (XO XH))))))) :: ((Npos (XO (XI (XI (XI (XO (XI
    XH))))))) :: ((Npos (XI (XI (XI (XI (XO (XI XH))))))) :: ((Npos (XI (XO
    (XI (XO (XO (XI XH))))))) :: ((Npos (XO (XO (XO (XI (XI (XI
    XH))))))) :: ((Npos (XI (XI (XO (XO (XO (XI XH))))))) :: ((Npos (XI (XO
    (XI (XO (XO (XI XH))))))) :: ((Npos (XO (XO (XO (XO (XI (XI
    XH))))))) :: ((Npos (XO (XO (XI (XO (XI (XI
    XH))))))) :: [])))))))))))))))))))))))), (((Npos (XI (XO (XI (XI (XO (XI
    XH))))))) :: ((Npos (XI (XI (XI (XI (XO (XI XH))))))) :: ((Npos (XO (XO
    (XI (XO (XO (XI XH))))))) :: ((Npos (XI (XO (XI (XO (XI (XI
    XH))))))) :: ((Npos (XO (XO (XI (XI (XO (XI XH))))))) :: ((Npos (XI (XO
    (XI (XO (XO (XI XH))))))) :: [])))))) :: [])) :: ((((Npos (XI (XI (XO (XO
    (XO (XI XH))))))) :: ((Npos (XI (XI (XI (XI (XI (XO XH))))))) :: ((Npos
    (XI (XI (XO (XO (XO (XI XH))))))) :: ((Npos (XI (XI (XI (XI (XO (XI
    XH))))))) :: ((Npos (XI (XO (XI (XI (XO (XI XH))))))) :: ((Npos (XO (XO
    (XO (XO (XI (XI XH))))))) :: ((Npos (XI (XO (XO (XI (XO (XI
    XH))))))) :: ((Npos (XO (XO (XI (XI (XO (XI XH))))))) :: ((Npos (XI (XO
    (XI (XO (XO (XI XH))))))) :: ((Npos (XI (XI (XI (XI (XI (XO
    XH))))))) :: ((Npos (XI (XI (XI (XO (XO (XI XH))))))) :: ((Npos (XI (XO
    (XI (XO (XI (XI XH))))))) :: ((Npos (XI (XO (XO (XO (XO (XI
    XH))))))) :: ((Npos (XO (XI (XO (XO (XI (XI XH))))))) :: ((Npos (XO (XO
    (XI (XO (XO (XI XH))))))) :: []))))))))))))))), (((Npos (XO (XI (XI (XO
    (XO (XI XH))))))) :: ((Npos (XI (XO (XI (XO (XI (XI XH))))))) :: ((Npos
    (XO (XI (XI (XI (XO (XI XH))))))) :: ((Npos (XI (XI (XO (XO (XO (XI
    XH))))))) :: ((Npos (XO (XO (XI (XO (XI (XI XH))))))) :: ((Npos (XI (XO
    (XO (XI (XO (XI XH))))))) :: ((Npos (XI (XI (XI (XI (XO (XI
    XH))))))) :: ((Npos (XO (XI (XI (XI (XO (XI
    XH))))))) :: [])))))))) :: [])) :: ((((Npos (XI (XI (XO (XO (XO (XI
    XH))))))) :: ((Npos (XI (XI (XI (XI (XO (XI XH))))))) :: ((Npos (XO (XI
    (XI (XI (XO (XI XH))))))) :: ((Npos (XO (XO (XI (XO (XI (XI
    XH))))))) :: ((Npos (XO (XI (XO (XO (XI (XI XH))))))) :: ((Npos (XI (XI
    (XI (XI (XO (XI XH))))))) :: ((Npos (XO (XO (XI (XI (XO (XI
    XH))))))) :: ((Npos (XI (XI (XI (XI (XI (XO XH))))))) :: ((Npos (XO (XI
    (XI (XO (XO (XI XH))))))) :: ((Npos (XO (XO (XI (XI (XO (XI
    XH))))))) :: ((Npos (XI (XI (XI (XI (XO (XI XH))))))) :: ((Npos (XI (XI
    (XI (XO (XI (XI XH))))))) :: ((Npos (XO (XI (XI (XI (XO
    XH)))))) :: ((Npos (XO (XO (XI (XO (XO (XI XH))))))) :: ((Npos (XI (XI
    (XI (XI (XO (XI XH))))))) :: ((Npos (XO (XO (XI (XO (XI (XI
    XH))))))) :: ((Npos (XI (XI (XI (XI (XI (XO XH))))))) :: ((Npos (XI (XI
    (XI (XI (XO (XI XH))))))) :: ((Npos (XI (XO (XI (XO (XI (XI
    XH))))))) :: ((Npos (XO (XO (XI (XO (XI (XI XH))))))) :: ((Npos (XO (XO
    (XO (XO (XI (XI XH))))))) :: ((Npos (XI (XO (XI (XO (XI (XI
    XH))))))) :: ((Npos (XO (XO (XI (XO (XI (XI
    XH))))))) :: []))))))))))))))))))))))), (((Npos (XI (XO (XI (XI (XO (XI
    XH))))))) :: ((Npos (XI (XI (XI (XI (XO (XI XH))))))) :: ((Npos (XO (XO
    (XI (XO (XO (XI XH))))))) :: ((Npos (XI (XO (XI (XO (XI (XI
    XH))))))) :: ((Npos (XO (XO (XI (XI (XO (XI XH))))))) :: ((Npos (XI (XO
    (XI (XO (XO (XI XH))))))) :: [])))))) :: [])) :: ((((Npos (XI (XI (XO (XO
    (XO (XI XH))))))) :: ((Npos (XI (XI (XI (XI (XO (XI XH))))))) :: ((Npos
    (XO (XI (XI (XI (XO (XI XH))))))) :: ((Npos (XO (XO (XI (XO (XI (XI
    XH))))))) :: ((Npos (XO (XI (XO (XO (XI (XI XH))))))) :: ((Npos (XI (XI
    (XI (XI (XO (XI XH))))))) :: ((Npos (XO (XO (XI (XI (XO (XI
    XH))))))) :: ((Npos (XI (XI (XI (XI (XI (XO XH))))))) :: ((Npos (XO (XI
    (XI (XO (XO (XI XH))))))) :: ((Npos (XO (XO (XI (XI (XO (XI
    XH))))))) :: ((Npos (XI (XI (XI (XI (XO (XI XH))))))) :: ((Npos (XI (XI
    (XI (XO (XI (XI XH))))))) :: ((Npos (XO (XI (XI (XI (XO
    XH)))))) :: ((Npos (XO (XO (XI (XO (XO (XI XH))))))) :: ((Npos (XI (XI
    (XI (XI (XO (XI XH))))))) :: ((Npos (XO (XO (XI (XO (XI (XI
    XH))))))) :: ((Npos (XI (XI (XI (XI (XI (XO XH))))))) :: ((Npos (XI (XO
    (XO (XO (XO (XI XH))))))) :: ((Npos (XO (XI (XI (XI (XO (XI
    XH))))))) :: ((Npos (XO (XI (XI (XI (XO (XI XH))))))) :: ((Npos (XI (XI
    (XI (XI (XO (XI XH))))))) :: ((Npos (XO (XO (XI (XO (XI (XI
    XH))))))) :: ((Npos (XI (XO (XO (XO (XO (XI XH))))))) :: ((Npos (XO (XO
    (XI (XO (XI (XI XH))))))) :: ((Npos (XI (XO (XI (XO (XO (XI
    XH))))))) :: ((Npos (XI (XI (XI (XI (XI (XO XH))))))) :: ((Npos (XO (XO
    (XI (XO (XO (XI XH))))))) :: ((Npos (XI (XO (XI (XO (XO (XI
    XH))))))) :: ((Npos (XO (XI (XI (XO (XO (XI XH))))))) :: ((Npos (XI (XI
    (XO (XO (XI (XI XH))))))) :: [])))))))))))))))))))))))))))))), (((Npos
    (XI (XO (XI (XI (XO (XI XH))))))) :: ((Npos (XI (XI (XI (XI (XO (XI
    XH))))))) :: ((Npos (XO (XO (XI (XO (XO (XI XH))))))) :: ((Npos (XI (XO
    (XI (XO (XI (XI XH))))))) :: ((Npos (XO (XO (XI (XI (XO (XI
    XH))))))) :: ((Npos (XI (XO (XI (XO (XO (XI
    XH))))))) :: [])))))) :: [])) :: ((((Npos (XO (XI (XI (XO (XO (XI
    XH))))))) :: ((Npos (XO (XI (XO (XO (XI (XI XH))))))) :: ((Npos (XI (XO
    (XI (XO (XO (XI XH))))))) :: ((Npos (XI (XO (XI (XO (XO (XI
    XH))))))) :: ((Npos (XO (XO (XI (XO (XI (XI XH))))))) :: ((Npos (XO (XO
    (XO (XI (XO (XI XH))))))) :: ((Npos (XO (XI (XO (XO (XI (XI
    XH))))))) :: ((Npos (XI (XO (XI (XO (XO (XI XH))))))) :: ((Npos (XI (XO
    (XO (XO (XO (XI XH))))))) :: ((Npos (XO (XO (XI (XO (XO (XI
    XH))))))) :: ((Npos (XI (XO (XO (XI (XO (XI XH))))))) :: ((Npos (XO (XI
    (XI (XI (XO (XI XH))))))) :: ((Npos (XI (XI (XI (XO (XO (XI
    XH))))))) :: ((Npos (XI (XI (XI (XI (XI (XO XH))))))) :: ((Npos (XI (XI
    (XO (XO (XO (XI XH))))))) :: ((Npos (XI (XI (XI (XI (XO (XI
    XH))))))) :: ((Npos (XI (XO (XI (XI (XO (XI XH))))))) :: ((Npos (XO (XO
    (XO (XO (XI (XI XH))))))) :: ((Npos (XI (XO (XO (XO (XO (XI
    XH))))))) :: ((Npos (XO (XO (XI (XO (XI (XI XH))))))) :: ((Npos (XI (XO
    (XO (XI (XO (XI XH))))))) :: ((Npos (XO (XI (XO (XO (XO (XI
    XH))))))) :: ((Npos (XO (XO (XI (XI (XO (XI XH))))))) :: ((Npos (XI (XO
    (XI (XO (XO (XI XH))))))) :: [])))))))))))))))))))))))), (((Npos (XI (XO
    (XI (XI (XO (XI XH))))))) :: ((Npos (XI (XI (XI (XI (XO (XI
    XH))))))) :: ((Npos (XO (XO (XI (XO (XO (XI XH))))))) :: ((Npos (XI (XO
    (XI (XO (XI (XI XH))))))) :: ((Npos (XO (XO (XI (XI (XO (XI
    XH))))))) :: ((Npos (XI (XO (XI (XO (XO (XI
    XH))))))) :: [])))))) :: [])) :: ((((Npos (XI (XI (XO (XO (XI (XI
    XH))))))) :: ((Npos (XI (XO (XI (XO (XI (XI XH))))))) :: ((Npos (XO (XI
    (XO (XO (XO (XI XH))))))) :: ((Npos (XI (XO (XO (XI (XO (XI
    XH))))))) :: ((Npos (XO (XI (XI (XI (XO (XI XH))))))) :: ((Npos (XO (XO
    (XI (XO (XI (XI XH))))))) :: ((Npos (XI (XO (XI (XO (XO (XI
    XH))))))) :: ((Npos (XO (XI (XO (XO (XI (XI XH))))))) :: ((Npos (XO (XO
    (XO (XO (XI (XI XH))))))) :: ((Npos (XO (XI (XO (XO (XI (XI
    XH))))))) :: ((Npos (XI (XO (XI (XO (XO (XI XH))))))) :: ((Npos (XO (XO
    (XI (XO (XI (XI XH))))))) :: ((Npos (XI (XO (XI (XO (XO (XI
    XH))))))) :: ((Npos (XO (XI (XO (XO (XI (XI XH))))))) :: ((Npos (XI (XI
    (XO (XO (XI (XI XH))))))) :: ((Npos (XI (XI (XI (XI (XI (XO
    XH))))))) :: ((Npos (XI (XI (XO (XO (XO (XI XH))))))) :: ((Npos (XI (XI
    (XI (XI (XO (XI XH))))))) :: ((Npos (XI (XO (XI (XI (XO (XI
    XH))))))) :: ((Npos (XO (XO (XO (XO (XI (XI XH))))))) :: ((Npos (XI (XO
    (XO (XO (XO (XI XH))))))) :: ((Npos (XO (XO (XI (XO (XI (XI
    XH))))))) :: ((Npos (XI (XO (XO (XI (XO (XI XH))))))) :: ((Npos (XO (XI
    (XO (XO (XO (XI XH))))))) :: ((Npos (XO (XO (XI (XI (XO (XI
    XH))))))) :: ((Npos (XI (XO (XI (XO (XO (XI
    XH))))))) :: [])))))))))))))))))))))))))), (((Npos (XI (XO (XI (XI (XO
    (XI XH))))))) :: ((Npos (XI (XI (XI (XI (XO (XI XH))))))) :: ((Npos (XO
    (XO (XI (XO (XO (XI XH))))))) :: ((Npos (XI (XO (XI (XO (XI (XI
    XH))))))) :: ((Npos (XO (XO (XI (XI (XO (XI XH))))))) :: ((Npos (XI (XO
    (XI (XO (XO (XI
    XH))))))) :: [])))))) :: [])) :: []))))))))))))))))))))))))))))))))))))))))))))))))))

(** val g_immediate : str list **)

let g_immediate =
  ((Npos (XI (XO (XO (XO (XO (XI XH))))))) :: ((Npos (XI (XO (XI (XO (XI (XI
    XH))))))) :: ((Npos (XO (XO (XI (XO (XI (XI XH))))))) :: ((Npos (XI (XI
    (XI (XI (XO (XI XH))))))) :: ((Npos (XI (XI (XI (XI (XI (XO
    XH))))))) :: ((Npos (XO (XO (XO (XO (XI (XI XH))))))) :: ((Npos (XI (XO
    (XO (XI (XO (XI XH))))))) :: ((Npos (XI (XI (XO (XO (XO (XI
    XH))))))) :: ((Npos (XI (XI (XO (XI (XO (XI XH))))))) :: ((Npos (XO (XO
    (XI (XI (XO (XI XH))))))) :: ((Npos (XI (XO (XI (XO (XO (XI
    XH))))))) :: []))))))))))) :: (((Npos (XI (XI (XO (XO (XO (XI
    XH))))))) :: ((Npos (XI (XI (XO (XO (XO (XI XH))))))) :: ((Npos (XI (XO
    (XO (XO (XO (XI XH))))))) :: ((Npos (XO (XO (XI (XI (XO (XI
    XH))))))) :: ((Npos (XO (XO (XI (XI (XO (XI
    XH))))))) :: []))))) :: (((Npos (XI (XI (XO (XO (XO (XI
    XH))))))) :: ((Npos (XI (XI (XO (XO (XO (XI XH))))))) :: ((Npos (XO (XO
    (XI (XI (XO (XI XH))))))) :: ((Npos (XI (XO (XO (XO (XO (XI
    XH))))))) :: ((Npos (XI (XI (XO (XO (XI (XI XH))))))) :: ((Npos (XI (XI
    (XO (XO (XI (XI XH))))))) :: [])))))) :: (((Npos (XI (XI (XO (XO (XO (XI
    XH))))))) :: ((Npos (XO (XI (XI (XO (XO (XI XH))))))) :: ((Npos (XI (XO
    (XI (XO (XI (XI XH))))))) :: ((Npos (XO (XI (XI (XI (XO (XI
    XH))))))) :: ((Npos (XI (XI (XO (XO (XO (XI
    XH))))))) :: []))))) :: (((Npos (XI (XI (XO (XO (XO (XI
    XH))))))) :: ((Npos (XI (XI (XI (XI (XO (XI XH))))))) :: ((Npos (XO (XO
    (XI (XI (XO (XI XH))))))) :: ((Npos (XO (XO (XI (XI (XO (XI
    XH))))))) :: ((Npos (XI (XO (XI (XO (XO (XI XH))))))) :: ((Npos (XI (XI
    (XO (XO (XO (XI XH))))))) :: ((Npos (XO (XO (XI (XO (XI (XI
    XH))))))) :: ((Npos (XI (XO (XO (XI (XO (XI XH))))))) :: ((Npos (XI (XI
    (XI (XI (XO (XI XH))))))) :: ((Npos (XO (XI (XI (XI (XO (XI
    XH))))))) :: ((Npos (XI (XI (XI (XI (XI (XO XH))))))) :: ((Npos (XO (XO
    (XI (XO (XI (XI XH))))))) :: ((Npos (XI (XO (XO (XI (XI (XI
    XH))))))) :: ((Npos (XO (XO (XO (XO (XI (XI XH))))))) :: ((Npos (XI (XO
    (XI (XO (XO (XI XH))))))) :: []))))))))))))))) :: (((Npos (XO (XO (XI (XO
    (XO (XI XH))))))) :: ((Npos (XI (XO (XO (XO (XO (XI XH))))))) :: ((Npos
    (XO (XO (XI (XO (XI (XI XH))))))) :: ((Npos (XI (XO (XO (XO (XO (XI
    XH))))))) :: ((Npos (XI (XI (XO (XO (XO (XI XH))))))) :: ((Npos (XO (XO
    (XI (XI (XO (XI XH))))))) :: ((Npos (XI (XO (XO (XO (XO (XI
    XH))))))) :: ((Npos (XI (XI (XO (XO (XI (XI XH))))))) :: ((Npos (XI (XI
    (XO (XO (XI (XI XH))))))) :: ((Npos (XI (XO (XI (XO (XO (XI
    XH))))))) :: ((Npos (XI (XI (XO (XO (XI (XI XH))))))) :: ((Npos (XO (XI
    (XI (XI (XO XH)))))) :: ((Npos (XO (XO (XI (XO (XO (XI
    XH))))))) :: ((Npos (XI (XO (XO (XO (XO (XI XH))))))) :: ((Npos (XO (XO
    (XI (XO (XI (XI XH))))))) :: ((Npos (XI (XO (XO (XO (XO (XI
    XH))))))) :: ((Npos (XI (XI (XO (XO (XO (XI XH))))))) :: ((Npos (XO (XO
    (XI (XI (XO (XI XH))))))) :: ((Npos (XI (XO (XO (XO (XO (XI
    XH))))))) :: ((Npos (XI (XI (XO (XO (XI (XI XH))))))) :: ((Npos (XI (XI
    (XO (XO (XI (XI XH))))))) :: []))))))))))))))))))))) :: (((Npos (XI (XO
    (XI (XO (XO (XI XH))))))) :: ((Npos (XO (XO (XO (XI (XI (XI
    XH))))))) :: ((Npos (XI (XI (XO (XO (XO (XI XH))))))) :: ((Npos (XI (XO
    (XI (XO (XO (XI XH))))))) :: ((Npos (XO (XO (XO (XO (XI (XI
    XH))))))) :: ((Npos (XO (XO (XI (XO (XI (XI XH))))))) :: ((Npos (XO (XI
    (XI (XO (XI (XI XH))))))) :: ((Npos (XI (XO (XO (XO (XO (XI
    XH))))))) :: ((Npos (XO (XO (XI (XI (XO (XI
    XH))))))) :: []))))))))) :: (((Npos (XO (XI (XI (XO (XO (XI
    XH))))))) :: ((Npos (XI (XO (XO (XI (XO (XI XH))))))) :: ((Npos (XO (XI
    (XI (XI (XO (XI XH))))))) :: ((Npos (XI (XO (XO (XO (XO (XI
    XH))))))) :: ((Npos (XO (XO (XI (XI (XO (XI
    XH))))))) :: []))))) :: (((Npos (XO (XI (XI (XO (XO (XI
    XH))))))) :: ((Npos (XO (XI (XO (XO (XI (XI XH))))))) :: ((Npos (XI (XO
    (XI (XO (XO (XI XH))))))) :: ((Npos (XI (XO (XI (XO (XO (XI
    XH))))))) :: ((Npos (XO (XO (XI (XI (XO (XI XH))))))) :: ((Npos (XI (XO
    (XO (XI (XO (XI XH))))))) :: ((Npos (XI (XI (XO (XO (XI (XI
    XH))))))) :: ((Npos (XO (XO (XI (XO (XI (XI
    XH))))))) :: [])))))))) :: (((Npos (XI (XO (XO (XI (XO (XI
    XH))))))) :: ((Npos (XO (XI (XI (XI (XO (XI XH))))))) :: ((Npos (XO (XO
    (XI (XI (XO (XI XH))))))) :: ((Npos (XI (XO (XO (XI (XO (XI
    XH))))))) :: ((Npos (XO (XI (XI (XI (XO (XI XH))))))) :: ((Npos (XI (XO
    (XI (XO (XO (XI XH))))))) :: [])))))) :: (((Npos (XI (XO (XO (XI (XO (XI
    XH))))))) :: ((Npos (XO (XI (XI (XI (XO (XI XH))))))) :: ((Npos (XO (XO
    (XI (XO (XI (XI XH))))))) :: ((Npos (XI (XO (XI (XO (XO (XI
    XH))))))) :: ((Npos (XO (XI (XO (XO (XI (XI XH))))))) :: ((Npos (XO (XI
    (XI (XI (XO (XI XH))))))) :: ((Npos (XI (XO (XO (XO (XO (XI
    XH))))))) :: ((Npos (XO (XO (XI (XI (XO (XI
    XH))))))) :: [])))))))) :: (((Npos (XO (XI (XI (XI (XO (XI
    XH))))))) :: ((Npos (XI (XI (XI (XI (XO (XI XH))))))) :: ((Npos (XI (XI
    (XI (XI (XI (XO XH))))))) :: ((Npos (XI (XI (XI (XO (XO (XI
    XH))))))) :: ((Npos (XI (XI (XO (XO (XO (XI
    XH))))))) :: []))))) :: (((Npos (XO (XI (XI (XI (XO (XI
    XH))))))) :: ((Npos (XI (XI (XI (XI (XO (XI XH))))))) :: ((Npos (XI (XI
    (XI (XI (XI (XO XH))))))) :: ((Npos (XI (XI (XI (XO (XO (XI
    XH))))))) :: ((Npos (XI (XI (XO (XO (XO (XI XH))))))) :: ((Npos (XI (XI
    (XI (XI (XI (XO XH))))))) :: ((Npos (XI (XI (XO (XO (XO (XI
    XH))))))) :: ((Npos (XO (XO (XI (XI (XO (XI XH))))))) :: ((Npos (XI (XO
    (XI (XO (XO (XI XH))))))) :: ((Npos (XI (XO (XO (XO (XO (XI
    XH))))))) :: ((Npos (XO (XI (XO (XO (XI (XI
    XH))))))) :: []))))))))))) :: (((Npos (XO (XI (XO (XO (XI (XI
    XH))))))) :: ((Npos (XI (XO (XI (XO (XO (XI XH))))))) :: ((Npos (XO (XO
    (XI (XO (XI (XI XH))))))) :: ((Npos (XI (XO (XI (XO (XI (XI
    XH))))))) :: ((Npos (XO (XI (XO (XO (XI (XI XH))))))) :: ((Npos (XO (XI
    (XI (XI (XO (XI XH))))))) :: ((Npos (XI (XI (XO (XO (XI (XI
    XH))))))) :: []))))))) :: (((Npos (XO (XO (XI (XO (XI (XI
    XH))))))) :: ((Npos (XI (XO (XI (XO (XO (XI XH))))))) :: ((Npos (XI (XI
    (XO (XO (XI (XI XH))))))) :: ((Npos (XO (XO (XI (XO (XI (XI
    XH))))))) :: ((Npos (XI (XI (XI (XI (XI (XO XH))))))) :: ((Npos (XI (XO
    (XO (XO (XO (XI XH))))))) :: ((Npos (XI (XI (XO (XO (XI (XI
    XH))))))) :: ((Npos (XI (XI (XO (XO (XI (XI XH))))))) :: ((Npos (XI (XO
    (XI (XO (XO (XI XH))))))) :: ((Npos (XO (XI (XO (XO (XI (XI
    XH))))))) :: ((Npos (XO (XO (XI (XO (XI (XI XH))))))) :: ((Npos (XI (XI
    (XI (XI (XI (XO XH))))))) :: ((Npos (XO (XO (XO (XO (XI (XI
    XH))))))) :: ((Npos (XI (XO (XO (XO (XO (XI XH))))))) :: ((Npos (XO (XO
    (XI (XO (XI (XI XH))))))) :: ((Npos (XO (XO (XO (XI (XO (XI
    XH))))))) :: ((Npos (XI (XI (XI (XI (XI (XO XH))))))) :: ((Npos (XI (XO
    (XI (XO (XO (XI XH))))))) :: ((Npos (XO (XO (XO (XI (XI (XI
    XH))))))) :: ((Npos (XI (XO (XO (XI (XO (XI XH))))))) :: ((Npos (XI (XI
    (XO (XO (XI (XI XH))))))) :: ((Npos (XO (XO (XI (XO (XI (XI
    XH))))))) :: ((Npos (XI (XI (XO (XO (XI (XI
    XH))))))) :: []))))))))))))))))))))))) :: (((Npos (XO (XO (XI (XO (XI (XI
    XH))))))) :: ((Npos (XI (XO (XI (XO (XO (XI XH))))))) :: ((Npos (XI (XI
    (XO (XO (XI (XI XH))))))) :: ((Npos (XO (XO (XI (XO (XI (XI
    XH))))))) :: ((Npos (XI (XI (XI (XI (XI (XO XH))))))) :: ((Npos (XO (XI
    (XO (XO (XO (XI XH))))))) :: ((Npos (XI (XI (XI (XI (XO (XI
    XH))))))) :: ((Npos (XO (XO (XI (XO (XO (XI XH))))))) :: ((Npos (XI (XO
    (XO (XI (XI (XI XH))))))) :: ((Npos (XI (XI (XI (XI (XI (XO
    XH))))))) :: ((Npos (XO (XI (XI (XI (XO (XI XH))))))) :: ((Npos (XI (XO
    (XI (XO (XO (XI XH))))))) :: ((Npos (XI (XO (XI (XO (XO (XI
    XH))))))) :: ((Npos (XO (XO (XI (XO (XO (XI XH))))))) :: ((Npos (XI (XI
    (XO (XO (XI (XI XH))))))) :: ((Npos (XI (XI (XI (XI (XI (XO
    XH))))))) :: ((Npos (XI (XO (XI (XO (XO (XI XH))))))) :: ((Npos (XO (XO
    (XO (XI (XI (XI XH))))))) :: ((Npos (XI (XI (XO (XO (XO (XI
    XH))))))) :: ((Npos (XI (XO (XI (XO (XO (XI XH))))))) :: ((Npos (XO (XO
    (XO (XO (XI (XI XH))))))) :: ((Npos (XO (XO (XI (XO (XI (XI
    XH))))))) :: ((Npos (XI (XO (XO (XI (XO (XI XH))))))) :: ((Npos (XI (XI
    (XI (XI (XO (XI XH))))))) :: ((Npos (XO (XI (XI (XI (XO (XI
    XH))))))) :: ((Npos (XI (XI (XI (XI (XI (XO XH))))))) :: ((Npos (XO (XO
    (XO (XI (XO (XI XH))))))) :: ((Npos (XI (XO (XO (XO (XO (XI
    XH))))))) :: ((Npos (XO (XI (XI (XI (XO (XI XH))))))) :: ((Npos (XO (XO
    (XI (XO (XO (XI XH))))))) :: ((Npos (XO (XO (XI (XI (XO (XI
    XH))))))) :: ((Npos (XI (XO (XO (XI (XO (XI XH))))))) :: ((Npos (XO (XI
    (XI (XI (XO (XI XH))))))) :: ((Npos (XI (XI (XI (XO (XO (XI
    XH))))))) :: [])))))))))))))))))))))))))))))))))) :: (((Npos (XO (XO (XI
    (XO (XI (XI XH))))))) :: ((Npos (XI (XO (XI (XO (XO (XI
    XH))))))) :: ((Npos (XI (XI (XO (XO (XI (XI XH))))))) :: ((Npos (XO (XO
    (XI (XO (XI (XI XH))))))) :: ((Npos (XI (XI (XI (XI (XI (XO
    XH))))))) :: ((Npos (XO (XI (XI (XO (XO (XI XH))))))) :: ((Npos (XI (XO
    (XO (XO (XO (XI XH))))))) :: ((Npos (XI (XO (XO (XI (XO (XI
    XH))))))) :: ((Npos (XO (XO (XI (XI (XO (XI XH))))))) :: ((Npos (XI (XI
    (XI (XI (XI (XO XH))))))) :: ((Npos (XI (XO (XO (XI (XO (XI
    XH))))))) :: ((Npos (XO (XI (XI (XO (XO (XI XH))))))) :: ((Npos (XI (XI
    (XI (XI (XI (XO XH))))))) :: ((Npos (XO (XO (XO (XO (XI (XI
    XH))))))) :: ((Npos (XI (XO (XO (XO (XO (XI XH))))))) :: ((Npos (XO (XO
    (XI (XO (XI (XI XH))))))) :: ((Npos (XO (XO (XO (XI (XO (XI
    XH))))))) :: ((Npos (XI (XI (XI (XI (XI (XO XH))))))) :: ((Npos (XI (XO
    (XI (XO (XO (XI XH))))))) :: ((Npos (XO (XO (XO (XI (XI (XI
    XH))))))) :: ((Npos (XI (XO (XO (XI (XO (XI XH))))))) :: ((Npos (XI (XI
    (XO (XO (XI (XI XH))))))) :: ((Npos (XO (XO (XI (XO (XI (XI
    XH))))))) :: ((Npos (XI (XI (XO (XO (XI (XI
    XH))))))) :: [])))))))))))))))))))))))) :: (((Npos (XO (XO (XI (XO (XI
    (XI XH))))))) :: ((Npos (XI (XI (XI (XI (XO (XI XH))))))) :: ((Npos (XO
    (XO (XI (XO (XI (XI XH))))))) :: ((Npos (XI (XO (XO (XO (XO (XI
    XH))))))) :: ((Npos (XO (XO (XI (XI (XO (XI XH))))))) :: ((Npos (XI (XI
    (XI (XI (XI (XO XH))))))) :: ((Npos (XI (XI (XI (XI (XO (XI
    XH))))))) :: ((Npos (XO (XI (XO (XO (XI (XI XH))))))) :: ((Npos (XO (XO
    (XI (XO (XO (XI XH))))))) :: ((Npos (XI (XO (XI (XO (XO (XI
    XH))))))) :: ((Npos (XO (XI (XO (XO (XI (XI XH))))))) :: ((Npos (XI (XO
    (XO (XI (XO (XI XH))))))) :: ((Npos (XO (XI (XI (XI (XO (XI
    XH))))))) :: ((Npos (XI (XI (XI (XO (XO (XI
    XH))))))) :: [])))))))))))))) :: (((Npos (XO (XO (XI (XO (XI (XI
    XH))))))) :: ((Npos (XI (XO (XO (XI (XI (XI XH))))))) :: ((Npos (XO (XO
    (XO (XO (XI (XI XH))))))) :: ((Npos (XI (XO (XI (XO (XO (XI
    XH))))))) :: ((Npos (XI (XI (XI (XI (XI (XO XH))))))) :: ((Npos (XO (XI
    (XI (XO (XI (XI XH))))))) :: ((Npos (XI (XO (XI (XO (XO (XI
    XH))))))) :: ((Npos (XO (XI (XO (XO (XI (XI XH))))))) :: ((Npos (XI (XI
    (XO (XO (XI (XI XH))))))) :: ((Npos (XI (XO (XO (XI (XO (XI
    XH))))))) :: ((Npos (XI (XI (XI (XI (XO (XI XH))))))) :: ((Npos (XO (XI
    (XI (XI (XO (XI XH))))))) :: ((Npos (XI (XI (XI (XI (XI (XO
    XH))))))) :: ((Npos (XO (XO (XI (XO (XI (XI XH))))))) :: ((Npos (XI (XO
    (XO (XO (XO (XI XH))))))) :: ((Npos (XI (XI (XI (XO (XO (XI
    XH))))))) :: [])))))))))))))))) :: (((Npos (XI (XO (XI (XO (XI (XI
    XH))))))) :: ((Npos (XO (XI (XI (XO (XO (XI XH))))))) :: ((Npos (XI (XO
    (XI (XO (XI (XI XH))))))) :: ((Npos (XO (XI (XI (XI (XO (XI
    XH))))))) :: ((Npos (XI (XI (XO (XO (XO (XI
    XH))))))) :: []))))) :: (((Npos (XI (XI (XI (XO (XI (XI
    XH))))))) :: ((Npos (XI (XO (XO (XI (XO (XI XH))))))) :: ((Npos (XO (XO
    (XI (XO (XI (XI XH))))))) :: ((Npos (XO (XO (XO (XI (XO (XI
    XH))))))) :: ((Npos (XI (XI (XI (XI (XI (XO XH))))))) :: ((Npos (XI (XI
    (XI (XO (XO (XI XH))))))) :: ((Npos (XI (XO (XO (XI (XO (XI
    XH))))))) :: ((Npos (XO (XO (XI (XI (XO (XI
    XH))))))) :: [])))))))) :: []))))))))))))))))))))

(** val g_non_inherited : str list **)

let g_non_inherited =
  ((Npos (XI (XI (XO (XO (XO (XI XH))))))) :: ((Npos (XO (XI (XO (XO (XI (XI
    XH))))))) :: ((Npos (XI (XO (XO (XI (XO (XI XH))))))) :: ((Npos (XO (XO
    (XI (XO (XI (XI XH))))))) :: ((Npos (XI (XO (XO (XI (XO (XI
    XH))))))) :: ((Npos (XI (XI (XO (XO (XO (XI XH))))))) :: ((Npos (XI (XO
    (XO (XO (XO (XI XH))))))) :: ((Npos (XO (XO (XI (XI (XO (XI
    XH))))))) :: ((Npos (XI (XI (XI (XI (XI (XO XH))))))) :: ((Npos (XI (XI
    (XO (XO (XI (XI XH))))))) :: ((Npos (XI (XO (XI (XO (XO (XI
    XH))))))) :: ((Npos (XI (XI (XO (XO (XO (XI XH))))))) :: ((Npos (XO (XO
    (XI (XO (XI (XI XH))))))) :: ((Npos (XI (XO (XO (XI (XO (XI
    XH))))))) :: ((Npos (XI (XI (XI (XI (XO (XI XH))))))) :: ((Npos (XO (XI
    (XI (XI (XO (XI XH))))))) :: [])))))))))))))))) :: (((Npos (XO (XO (XI
    (XO (XI (XI XH))))))) :: ((Npos (XI (XO (XI (XO (XO (XI
    XH))))))) :: ((Npos (XI (XI (XO (XO (XI (XI XH))))))) :: ((Npos (XO (XO
    (XI (XO (XI (XI XH))))))) :: ((Npos (XI (XI (XI (XI (XI (XO
    XH))))))) :: ((Npos (XI (XO (XO (XO (XO (XI XH))))))) :: ((Npos (XI (XI
    (XO (XO (XI (XI XH))))))) :: ((Npos (XI (XI (XO (XO (XI (XI
    XH))))))) :: ((Npos (XI (XO (XI (XO (XO (XI XH))))))) :: ((Npos (XO (XI
    (XO (XO (XI (XI XH))))))) :: ((Npos (XO (XO (XI (XO (XI (XI
    XH))))))) :: ((Npos (XI (XI (XI (XI (XI (XO XH))))))) :: ((Npos (XI (XI
    (XO (XO (XO (XI XH))))))) :: ((Npos (XI (XI (XI (XI (XI (XO
    XH))))))) :: ((Npos (XI (XI (XO (XO (XO (XI XH))))))) :: ((Npos (XI (XI
    (XI (XI (XO (XI XH))))))) :: ((Npos (XO (XO (XI (XO (XO (XI
    XH))))))) :: ((Npos (XI (XO (XI (XO (XO (XI XH))))))) :: ((Npos (XI (XI
    (XI (XI (XI (XO XH))))))) :: ((Npos (XO (XO (XO (XI (XO (XI
    XH))))))) :: ((Npos (XI (XO (XO (XO (XO (XI XH))))))) :: ((Npos (XI (XI
    (XO (XO (XI (XI XH))))))) :: [])))))))))))))))))))))) :: (((Npos (XO (XO
    (XI (XO (XI (XI XH))))))) :: ((Npos (XI (XO (XI (XO (XO (XI
    XH))))))) :: ((Npos (XI (XI (XO (XO (XI (XI XH))))))) :: ((Npos (XO (XO
    (XI (XO (XI (XI XH))))))) :: ((Npos (XI (XI (XI (XI (XI (XO
    XH))))))) :: ((Npos (XI (XO (XO (XO (XO (XI XH))))))) :: ((Npos (XI (XI
    (XO (XO (XI (XI XH))))))) :: ((Npos (XI (XI (XO (XO (XI (XI
    XH))))))) :: ((Npos (XI (XO (XI (XO (XO (XI XH))))))) :: ((Npos (XO (XI
    (XO (XO (XI (XI XH))))))) :: ((Npos (XO (XO (XI (XO (XI (XI
    XH))))))) :: ((Npos (XI (XI (XI (XI (XI (XO XH))))))) :: ((Npos (XO (XO
    (XO (XO (XI (XI XH))))))) :: ((Npos (XI (XO (XO (XO (XO (XI
    XH))))))) :: ((Npos (XO (XO (XI (XO (XI (XI XH))))))) :: ((Npos (XO (XO
    (XO (XI (XO (XI XH))))))) :: ((Npos (XI (XI (XI (XI (XI (XO
    XH))))))) :: ((Npos (XI (XO (XI (XO (XO (XI XH))))))) :: ((Npos (XO (XO
    (XO (XI (XI (XI XH))))))) :: ((Npos (XI (XO (XO (XI (XO (XI
    XH))))))) :: ((Npos (XI (XI (XO (XO (XI (XI XH))))))) :: ((Npos (XO (XO
    (XI (XO (XI (XI XH))))))) :: ((Npos (XI (XI (XO (XO (XI (XI
    XH))))))) :: []))))))))))))))))))))))) :: (((Npos (XO (XO (XI (XO (XI (XI
    XH))))))) :: ((Npos (XI (XO (XI (XO (XO (XI XH))))))) :: ((Npos (XI (XI
    (XO (XO (XI (XI XH))))))) :: ((Npos (XO (XO (XI (XO (XI (XI
    XH))))))) :: ((Npos (XI (XI (XI (XI (XI (XO XH))))))) :: ((Npos (XO (XI
    (XO (XO (XO (XI XH))))))) :: ((Npos (XI (XI (XI (XI (XO (XI
    XH))))))) :: ((Npos (XO (XO (XI (XO (XO (XI XH))))))) :: ((Npos (XI (XO
    (XO (XI (XI (XI XH))))))) :: ((Npos (XI (XI (XI (XI (XI (XO
    XH))))))) :: ((Npos (XO (XI (XI (XI (XO (XI XH))))))) :: ((Npos (XI (XO
    (XI (XO (XO (XI XH))))))) :: ((Npos (XI (XO (XI (XO (XO (XI
    XH))))))) :: ((Npos (XO (XO (XI (XO (XO (XI XH))))))) :: ((Npos (XI (XI
    (XO (XO (XI (XI XH))))))) :: ((Npos (XI (XI (XI (XI (XI (XO
    XH))))))) :: ((Npos (XI (XO (XI (XO (XO (XI XH))))))) :: ((Npos (XO (XO
    (XO (XI (XI (XI XH))))))) :: ((Npos (XI (XI (XO (XO (XO (XI
    XH))))))) :: ((Npos (XI (XO (XI (XO (XO (XI XH))))))) :: ((Npos (XO (XO
    (XO (XO (XI (XI XH))))))) :: ((Npos (XO (XO (XI (XO (XI (XI
    XH))))))) :: ((Npos (XI (XO (XO (XI (XO (XI XH))))))) :: ((Npos (XI (XI
    (XI (XI (XO (XI XH))))))) :: ((Npos (XO (XI (XI (XI (XO (XI
    XH))))))) :: ((Npos (XI (XI (XI (XI (XI (XO XH))))))) :: ((Npos (XO (XO
    (XO (XI (XO (XI XH))))))) :: ((Npos (XI (XO (XO (XO (XO (XI
    XH))))))) :: ((Npos (XO (XI (XI (XI (XO (XI XH))))))) :: ((Npos (XO (XO
    (XI (XO (XO (XI XH))))))) :: ((Npos (XO (XO (XI (XI (XO (XI
    XH))))))) :: ((Npos (XI (XO (XO (XI (XO (XI XH))))))) :: ((Npos (XO (XI
    (XI (XI (XO (XI XH))))))) :: ((Npos (XI (XI (XI (XO (XO (XI
    XH))))))) :: [])))))))))))))))))))))))))))))))))) :: (((Npos (XO (XO (XI
    (XO (XI (XI XH))))))) :: ((Npos (XI (XO (XI (XO (XO (XI
    XH))))))) :: ((Npos (XI (XI (XO (XO (XI (XI XH))))))) :: ((Npos (XO (XO
    (XI (XO (XI (XI XH))))))) :: ((Npos (XI (XI (XI (XI (XI (XO
    XH))))))) :: ((Npos (XO (XI (XI (XO (XO (XI XH))))))) :: ((Npos (XI (XO
    (XO (XO (XO (XI XH))))))) :: ((Npos (XI (XO (XO (XI (XO (XI
    XH))))))) :: ((Npos (XO (XO (XI (XI (XO (XI XH))))))) :: ((Npos (XI (XI
    (XI (XI (XI (XO XH))))))) :: ((Npos (XI (XO (XO (XI (XO (XI
    XH))))))) :: ((Npos (XO (XI (XI (XO (XO (XI XH))))))) :: ((Npos (XI (XI
    (XI (XI (XI (XO XH))))))) :: ((Npos (XI (XI (XO (XO (XO (XI
    XH))))))) :: ((Npos (XI (XI (XI (XI (XI (XO XH))))))) :: ((Npos (XI (XI
    (XO (XO (XO (XI XH))))))) :: ((Npos (XI (XI (XI (XI (XO (XI
    XH))))))) :: ((Npos (XO (XO (XI (XO (XO (XI XH))))))) :: ((Npos (XI (XO
    (XI (XO (XO (XI XH))))))) :: ((Npos (XI (XI (XI (XI (XI (XO
    XH))))))) :: ((Npos (XO (XO (XO (XI (XO (XI XH))))))) :: ((Npos (XI (XO
    (XO (XO (XO (XI XH))))))) :: ((Npos (XI (XI (XO (XO (XI (XI
    XH))))))) :: []))))))))))))))))))))))) :: (((Npos (XO (XO (XI (XO (XI (XI
    XH))))))) :: ((Npos (XI (XO (XI (XO (XO (XI XH))))))) :: ((Npos (XI (XI
    (XO (XO (XI (XI XH))))))) :: ((Npos (XO (XO (XI (XO (XI (XI
    XH))))))) :: ((Npos (XI (XI (XI (XI (XI (XO XH))))))) :: ((Npos (XO (XI
    (XI (XO (XO (XI XH))))))) :: ((Npos (XI (XO (XO (XO (XO (XI
    XH))))))) :: ((Npos (XI (XO (XO (XI (XO (XI XH))))))) :: ((Npos (XO (XO
    (XI (XI (XO (XI XH))))))) :: ((Npos (XI (XI (XI (XI (XI (XO
    XH))))))) :: ((Npos (XI (XO (XO (XI (XO (XI XH))))))) :: ((Npos (XO (XI
    (XI (XO (XO (XI XH))))))) :: ((Npos (XI (XI (XI (XI (XI (XO
    XH))))))) :: ((Npos (XO (XO (XO (XO (XI (XI XH))))))) :: ((Npos (XI (XO
    (XO (XO (XO (XI XH))))))) :: ((Npos (XO (XO (XI (XO (XI (XI
    XH))))))) :: ((Npos (XO (XO (XO (XI (XO (XI XH))))))) :: ((Npos (XI (XI
    (XI (XI (XI (XO XH))))))) :: ((Npos (XI (XO (XI (XO (XO (XI
    XH))))))) :: ((Npos (XO (XO (XO (XI (XI (XI XH))))))) :: ((Npos (XI (XO
    (XO (XI (XO (XI XH))))))) :: ((Npos (XI (XI (XO (XO (XI (XI
    XH))))))) :: ((Npos (XO (XO (XI (XO (XI (XI XH))))))) :: ((Npos (XI (XI
    (XO (XO (XI (XI XH))))))) :: [])))))))))))))))))))))))) :: [])))))

(** val g_nd_zeros : n list **)

let g_nd_zeros =
  (Npos (XO (XO (XO (XO (XI XH)))))) :: ((Npos (XO (XO (XO (XO (XO (XI (XI
    (XO (XO (XI XH))))))))))) :: ((Npos (XO (XO (XO (XO (XI (XI (XI (XI (XO
    (XI XH))))))))))) :: ((Npos (XO (XO (XO (XO (XO (XO (XI (XI (XI (XI
    XH))))))))))) :: ((Npos (XO (XI (XI (XO (XO (XI (XI (XO (XI (XO (XO
    XH)))))))))))) :: ((Npos (XO (XI (XI (XO (XO (XI (XI (XI (XI (XO (XO
    XH)))))))))))) :: ((Npos (XO (XI (XI (XO (XO (XI (XI (XO (XO (XI (XO
    XH)))))))))))) :: ((Npos (XO (XI (XI (XO (XO (XI (XI (XI (XO (XI (XO
    XH)))))))))))) :: ((Npos (XO (XI (XI (XO (XO (XI (XI (XO (XI (XI (XO
    XH)))))))))))) :: ((Npos (XO (XI (XI (XO (XO (XI (XI (XI (XI (XI (XO
    XH)))))))))))) :: ((Npos (XO (XI (XI (XO (XO (XI (XI (XO (XO (XO (XI
    XH)))))))))))) :: ((Npos (XO (XI (XI (XO (XO (XI (XI (XI (XO (XO (XI
    XH)))))))))))) :: ((Npos (XO (XI (XI (XO (XO (XI (XI (XO (XI (XO (XI
    XH)))))))))))) :: ((Npos (XO (XI (XI (XO (XO (XI (XI (XI (XI (XO (XI
    XH)))))))))))) :: ((Npos (XO (XO (XO (XO (XI (XO (XI (XO (XO (XI (XI
    XH)))))))))))) :: ((Npos (XO (XO (XO (XO (XI (XO (XI (XI (XO (XI (XI
    XH)))))))))))) :: ((Npos (XO (XO (XO (XO (XO (XI (XO (XO (XI (XI (XI
    XH)))))))))))) :: ((Npos (XO (XO (XO (XO (XO (XO (XI (XO (XO (XO (XO (XO
    XH))))))))))))) :: ((Npos (XO (XO (XO (XO (XI (XO (XO (XI (XO (XO (XO (XO
    XH))))))))))))) :: ((Npos (XO (XO (XO (XO (XO (XI (XI (XI (XI (XI (XI (XO
    XH))))))))))))) :: ((Npos (XO (XO (XO (XO (XI (XO (XO (XO (XO (XO (XO (XI
    XH))))))))))))) :: ((Npos (XO (XI (XI (XO (XO (XO (XI (XO (XI (XO (XO (XI
    XH))))))))))))) :: ((Npos (XO (XO (XO (XO (XI (XO (XI (XI (XI (XO (XO (XI
    XH))))))))))))) :: ((Npos (XO (XO (XO (XO (XO (XO (XO (XI (XO (XI (XO (XI
    XH))))))))))))) :: ((Npos (XO (XO (XO (XO (XI (XO (XO (XI (XO (XI (XO (XI
    XH))))))))))))) :: ((Npos (XO (XO (XO (XO (XI (XO (XI (XO (XI (XI (XO (XI
    XH))))))))))))) :: ((Npos (XO (XO (XO (XO (XI (XI (XO (XI (XI (XI (XO (XI
    XH))))))))))))) :: ((Npos (XO (XO (XO (XO (XO (XO (XI (XO (XO (XO (XI (XI
    XH))))))))))))) :: ((Npos (XO (XO (XO (XO (XI (XO (XI (XO (XO (XO (XI (XI
    XH))))))))))))) :: ((Npos (XO (XO (XO (XO (XO (XI (XO (XO (XO (XI (XI (XO
    (XO (XI (XO XH)))))))))))))))) :: ((Npos (XO (XO (XO (XO (XI (XO (XI (XI
    (XO (XO (XO (XI (XO (XI (XO XH)))))))))))))))) :: ((Npos (XO (XO (XO (XO
    (XO (XO (XO (XO (XI (XO (XO (XI (XO (XI (XO XH)))))))))))))))) :: ((Npos
    (XO (XO (XO (XO (XI (XO (XI (XI (XI (XO (XO (XI (XO (XI (XO
    XH)))))))))))))))) :: ((Npos (XO (XO (XO (XO (XI (XI (XI (XI (XI (XO (XO
    (XI (XO (XI (XO XH)))))))))))))))) :: ((Npos (XO (XO (XO (XO (XI (XO (XI
    (XO (XO (XI (XO (XI (XO (XI (XO XH)))))))))))))))) :: ((Npos (XO (XO (XO
    (XO (XI (XI (XI (XI (XI (XI (XO (XI (XO (XI (XO
    XH)))))))))))))))) :: ((Npos (XO (XO (XO (XO (XI (XO (XO (XO (XI (XI (XI
    (XI (XI (XI (XI XH)))))))))))))))) :: ((Npos (XO (XO (XO (XO (XO (XI (XO
    (XI (XO (XO (XI (XO (XO (XO (XO (XO XH))))))))))))))))) :: ((Npos (XO (XO
    (XO (XO (XI (XI (XO (XO (XI (XO (XI (XI (XO (XO (XO (XO
    XH))))))))))))))))) :: ((Npos (XO (XI (XI (XO (XO (XI (XI (XO (XO (XO (XO
    (XO (XI (XO (XO (XO XH))))))))))))))))) :: ((Npos (XO (XO (XO (XO (XI (XI
    (XI (XI (XO (XO (XO (XO (XI (XO (XO (XO XH))))))))))))))))) :: ((Npos (XO
    (XI (XI (XO (XI (XI (XO (XO (XI (XO (XO (XO (XI (XO (XO (XO
    XH))))))))))))))))) :: ((Npos (XO (XO (XO (XO (XI (XO (XI (XI (XI (XO (XO
    (XO (XI (XO (XO (XO XH))))))))))))))))) :: ((Npos (XO (XO (XO (XO (XI (XI
    (XI (XI (XO (XI (XO (XO (XI (XO (XO (XO XH))))))))))))))))) :: ((Npos (XO
    (XO (XO (XO (XI (XO (XI (XO (XO (XO (XI (XO (XI (XO (XO (XO
    XH))))))))))))))))) :: ((Npos (XO (XO (XO (XO (XI (XO (XI (XI (XO (XO (XI
    (XO (XI (XO (XO (XO XH))))))))))))))))) :: ((Npos (XO (XO (XO (XO (XI (XO
    (XI (XO (XO (XI (XI (XO (XI (XO (XO (XO XH))))))))))))))))) :: ((Npos (XO
    (XO (XO (XO (XO (XO (XI (XI (XO (XI (XI (XO (XI (XO (XO (XO
    XH))))))))))))))))) :: ((Npos (XO (XO (XO (XO (XI (XI (XO (XO (XI (XI (XI
    (XO (XI (XO (XO (XO XH))))))))))))))))) :: ((Npos (XO (XO (XO (XO (XO (XI
    (XI (XI (XO (XO (XO (XI (XI (XO (XO (XO XH))))))))))))))))) :: ((Npos (XO
    (XO (XO (XO (XI (XO (XI (XO (XI (XO (XO (XI (XI (XO (XO (XO
    XH))))))))))))))))) :: ((Npos (XO (XO (XO (XO (XI (XO (XI (XO (XO (XO (XI
    (XI (XI (XO (XO (XO XH))))))))))))))))) :: ((Npos (XO (XO (XO (XO (XI (XO
    (XI (XO (XI (XO (XI (XI (XI (XO (XO (XO XH))))))))))))))))) :: ((Npos (XO
    (XO (XO (XO (XO (XI (XO (XI (XI (XO (XI (XI (XI (XO (XO (XO
    XH))))))))))))))))) :: ((Npos (XO (XO (XO (XO (XI (XO (XI (XO (XI (XI (XI
    (XI (XI (XO (XO (XO XH))))))))))))))))) :: ((Npos (XO (XO (XO (XO (XO (XI
    (XI (XO (XO (XI (XO (XI (XO (XI (XI (XO XH))))))))))))))))) :: ((Npos (XO
    (XO (XO (XO (XO (XO (XI (XI (XO (XI (XO (XI (XO (XI (XI (XO
    XH))))))))))))))))) :: ((Npos (XO (XO (XO (XO (XI (XO (XI (XO (XI (XI (XO
    (XI (XO (XI (XI (XO XH))))))))))))))))) :: ((Npos (XO (XI (XI (XI (XO (XO
    (XI (XI (XI (XI (XI (XO (XI (XO (XI (XI XH))))))))))))))))) :: ((Npos (XO
    (XO (XO (XI (XI (XO (XI (XI (XI (XI (XI (XO (XI (XO (XI (XI
    XH))))))))))))))))) :: ((Npos (XO (XI (XO (XO (XO (XI (XI (XI (XI (XI (XI
    (XO (XI (XO (XI (XI XH))))))))))))))))) :: ((Npos (XO (XO (XI (XI (XO (XI
    (XI (XI (XI (XI (XI (XO (XI (XO (XI (XI XH))))))))))))))))) :: ((Npos (XO
    (XI (XI (XO (XI (XI (XI (XI (XI (XI (XI (XO (XI (XO (XI (XI
    XH))))))))))))))))) :: ((Npos (XO (XO (XO (XO (XO (XO (XI (XO (XI (XO (XO
    (XO (XO (XI (XI (XI XH))))))))))))))))) :: ((Npos (XO (XO (XO (XO (XI (XI
    (XI (XI (XO (XI (XO (XO (XO (XI (XI (XI XH))))))))))))))))) :: ((Npos (XO
    (XO (XO (XO (XI (XI (XI (XI (XO (XO (XI (XO (XO (XI (XI (XI
    XH))))))))))))))))) :: ((Npos (XO (XO (XO (XO (XI (XO (XI (XO (XI (XO (XO
    (XI (XO (XI (XI (XI XH))))))))))))))))) :: ((Npos (XO (XO (XO (XO (XI (XI
    (XI (XI (XI (XI (XO (XI (XI (XI (XI (XI
    XH))))))))))))))))) :: [])))))))))))))))))))))))))))))))))))))))))))))))))))))))))))))))))))

(** val g_digit : n -> n option **)

let g_digit =
  digit_from_zeros g_nd_zeros

(** val g_names : str list **)

let g_names =
  map fst g_defaults

(** val g_py_int : str -> z option **)

let g_py_int =
  py_int g_digit

(** val g_parse_value : (str * n) list -> bool -> str -> str -> value res **)

let g_parse_value codec =
  parse_directive_value g_types g_digit (codec_from_table codec)

(** val g_parse_list :
    bool -> (str * n) list -> bool -> bool -> dict -> str -> dict res **)

let g_parse_list strict codec =
  parse_directive_list g_types g_names g_digit (codec_from_table codec) strict

(** val g_scope_ok : str -> str -> bool **)

let g_scope_ok =
  scope_ok g_scopes

(** val g_visit_module :
    dict -> dict -> tree list -> ((dict * atree list) * dict) * (str * str)
    list **)

let g_visit_module =
  visit_module g_scopes g_immediate g_non_inherited g_defaults
