
(** val implb : bool -> bool -> bool **)

let implb b1 b2 =
  if b1 then b2 else true

(** val negb : bool -> bool **)

let negb = function
| true -> false
| false -> true

type nat =
| O
| S of nat

(** val fst : ('a1 * 'a2) -> 'a1 **)

let fst = function
| (x, _) -> x

(** val snd : ('a1 * 'a2) -> 'a2 **)

let snd = function
| (_, y) -> y

(** val length : 'a1 list -> nat **)

let rec length = function
| [] -> O
| _ :: l' -> S (length l')

(** val app : 'a1 list -> 'a1 list -> 'a1 list **)

let rec app l m =
  match l with
  | [] -> m
  | a :: l1 -> a :: (app l1 m)

(** val sub : nat -> nat -> nat **)

let rec sub n0 m =
  match n0 with
  | O -> n0
  | S k -> (match m with
            | O -> n0
            | S l -> sub k l)

type positive =
| XI of positive
| XO of positive
| XH

type n =
| N0
| Npos of positive

type z =
| Z0
| Zpos of positive
| Zneg of positive

(** val eqb : bool -> bool -> bool **)

let eqb b1 b2 =
  if b1 then b2 else if b2 then false else true

module Nat =
 struct
  (** val eqb : nat -> nat -> bool **)

  let rec eqb n0 m =
    match n0 with
    | O -> (match m with
            | O -> true
            | S _ -> false)
    | S n' -> (match m with
               | O -> false
               | S m' -> eqb n' m')

  (** val leb : nat -> nat -> bool **)

  let rec leb n0 m =
    match n0 with
    | O -> true
    | S n' -> (match m with
               | O -> false
               | S m' -> leb n' m')

  (** val ltb : nat -> nat -> bool **)

  let ltb n0 m =
    leb (S n0) m
 end

module Pos =
 struct
  (** val succ : positive -> positive **)

  let rec succ = function
  | XI p -> XO (succ p)
  | XO p -> XI p
  | XH -> XO XH

  (** val add : positive -> positive -> positive **)

  let rec add x y =
    match x with
    | XI p ->
      (match y with
       | XI q -> XO (add_carry p q)
       | XO q -> XI (add p q)
       | XH -> XO (succ p))
    | XO p ->
      (match y with
       | XI q -> XI (add p q)
       | XO q -> XO (add p q)
       | XH -> XI p)
    | XH -> (match y with
             | XI q -> XO (succ q)
             | XO q -> XI q
             | XH -> XO XH)

  (** val add_carry : positive -> positive -> positive **)

  and add_carry x y =
    match x with
    | XI p ->
      (match y with
       | XI q -> XI (add_carry p q)
       | XO q -> XO (add_carry p q)
       | XH -> XI (succ p))
    | XO p ->
      (match y with
       | XI q -> XO (add_carry p q)
       | XO q -> XI (add p q)
       | XH -> XO (succ p))
    | XH ->
      (match y with
       | XI q -> XI (succ q)
       | XO q -> XO (succ q)
       | XH -> XI XH)

  (** val pred_double : positive -> positive **)

  let rec pred_double = function
  | XI p -> XI (XO p)
  | XO p -> XI (pred_double p)
  | XH -> XH

  (** val eqb : positive -> positive -> bool **)

  let rec eqb p q =
    match p with
    | XI p1 -> (match q with
                | XI q0 -> eqb p1 q0
                | _ -> false)
    | XO p1 -> (match q with
                | XO q0 -> eqb p1 q0
                | _ -> false)
    | XH -> (match q with
             | XH -> true
             | _ -> false)

  (** val of_succ_nat : nat -> positive **)

  let rec of_succ_nat = function
  | O -> XH
  | S x -> succ (of_succ_nat x)
 end

module Z =
 struct
  (** val double : z -> z **)

  let double = function
  | Z0 -> Z0
  | Zpos p -> Zpos (XO p)
  | Zneg p -> Zneg (XO p)

  (** val succ_double : z -> z **)

  let succ_double = function
  | Z0 -> Zpos XH
  | Zpos p -> Zpos (XI p)
  | Zneg p -> Zneg (Pos.pred_double p)

  (** val pred_double : z -> z **)

  let pred_double = function
  | Z0 -> Zneg XH
  | Zpos p -> Zpos (Pos.pred_double p)
  | Zneg p -> Zneg (XI p)

  (** val pos_sub : positive -> positive -> z **)

  let rec pos_sub x y =
    match x with
    | XI p ->
      (match y with
       | XI q -> double (pos_sub p q)
       | XO q -> succ_double (pos_sub p q)
       | XH -> Zpos (XO p))
    | XO p ->
      (match y with
       | XI q -> pred_double (pos_sub p q)
       | XO q -> double (pos_sub p q)
       | XH -> Zpos (Pos.pred_double p))
    | XH ->
      (match y with
       | XI q -> Zneg (XO q)
       | XO q -> Zneg (Pos.pred_double q)
       | XH -> Z0)

  (** val add : z -> z -> z **)

  let add x y =
    match x with
    | Z0 -> y
    | Zpos x' ->
      (match y with
       | Z0 -> x
       | Zpos y' -> Zpos (Pos.add x' y')
       | Zneg y' -> pos_sub x' y')
    | Zneg x' ->
      (match y with
       | Z0 -> x
       | Zpos y' -> pos_sub y' x'
       | Zneg y' -> Zneg (Pos.add x' y'))

  (** val eqb : z -> z -> bool **)

  let eqb x y =
    match x with
    | Z0 -> (match y with
             | Z0 -> true
             | _ -> false)
    | Zpos p -> (match y with
                 | Zpos q -> Pos.eqb p q
                 | _ -> false)
    | Zneg p -> (match y with
                 | Zneg q -> Pos.eqb p q
                 | _ -> false)

  (** val of_nat : nat -> z **)

  let of_nat = function
  | O -> Z0
  | S n1 -> Zpos (Pos.of_succ_nat n1)
 end

(** val tl : 'a1 list -> 'a1 list **)

let tl = function
| [] -> []
| _ :: m -> m

(** val nth : nat -> 'a1 list -> 'a1 -> 'a1 **)

let rec nth n0 l default =
  match n0 with
  | O -> (match l with
          | [] -> default
          | x :: _ -> x)
  | S m -> (match l with
            | [] -> default
            | _ :: t -> nth m t default)

(** val nth_error : 'a1 list -> nat -> 'a1 option **)

let rec nth_error l = function
| O -> (match l with
        | [] -> None
        | x :: _ -> Some x)
| S n1 -> (match l with
           | [] -> None
           | _ :: l0 -> nth_error l0 n1)

(** val rev : 'a1 list -> 'a1 list **)

let rec rev = function
| [] -> []
| x :: l' -> app (rev l') (x :: [])

(** val map : ('a1 -> 'a2) -> 'a1 list -> 'a2 list **)

let rec map f = function
| [] -> []
| a :: t -> (f a) :: (map f t)

(** val fold_left : ('a1 -> 'a2 -> 'a1) -> 'a2 list -> 'a1 -> 'a1 **)

let rec fold_left f l a0 =
  match l with
  | [] -> a0
  | b :: t -> fold_left f t (f a0 b)

(** val existsb : ('a1 -> bool) -> 'a1 list -> bool **)

let rec existsb f = function
| [] -> false
| a :: l0 -> (||) (f a) (existsb f l0)

(** val forallb : ('a1 -> bool) -> 'a1 list -> bool **)

let rec forallb f = function
| [] -> true
| a :: l0 -> (&&) (f a) (forallb f l0)

(** val filter : ('a1 -> bool) -> 'a1 list -> 'a1 list **)

let rec filter f = function
| [] -> []
| x :: l0 -> if f x then x :: (filter f l0) else filter f l0

(** val find : ('a1 -> bool) -> 'a1 list -> 'a1 option **)

let rec find f = function
| [] -> None
| x :: tl0 -> if f x then Some x else find f tl0

(** val seq : nat -> nat -> nat list **)

let rec seq start = function
| O -> []
| S len0 -> start :: (seq (S start) len0)

(** val ex_keep :
    (((((nat * n) * z) * z list) * z option) * positive) * bool **)

let ex_keep =
  ((((((O, N0), Z0), []), None), XH), true)

type kind =
| Ext
| Py

type dictkind =
| NoDict
| Eager
| Managed

type mdecl =
| MCpdef
| MDef of z
| MNone

type cls = { ckind : kind; cmro : nat list; cdecl : mdecl; cdecl_dict : 
             bool; cdictk : dictkind }

type hier = cls list

(** val dcls : cls **)

let dcls =
  { ckind = Py; cmro = []; cdecl = MNone; cdecl_dict = false; cdictk =
    NoDict }

(** val getc : hier -> nat -> cls **)

let getc h c =
  nth c h dcls

(** val validc : hier -> nat -> bool **)

let validc h c =
  Nat.ltb c (length h)

(** val is_py : cls -> bool **)

let is_py d =
  match d.ckind with
  | Ext -> false
  | Py -> true

type value =
| Fn of z
| Wrap of nat

(** val init_entry : nat -> cls -> value option **)

let init_entry c d =
  match d.cdecl with
  | MCpdef -> Some (Wrap c)
  | MDef n0 -> Some (Fn n0)
  | MNone -> None

type cstate = { cs_m : value option; cs_ver : z }

type ostate = { os_cls : nat; os_dict : (z option * z) option }

type world = { w_cls : cstate list; w_objs : ostate list;
               w_cache : (nat * (z * z)) list; w_next : z }

(** val init_cls : hier -> nat -> z -> cstate list **)

let rec init_cls h i v =
  match h with
  | [] -> []
  | d :: r ->
    { cs_m = (init_entry i d); cs_ver =
      v } :: (init_cls r (S i) (Z.add v (Zpos XH)))

(** val w0 : hier -> world **)

let w0 h =
  { w_cls = (init_cls h O (Zpos XH)); w_objs = []; w_cache = []; w_next =
    (Z.add (Z.of_nat (length h)) (Zpos XH)) }

(** val upd : 'a1 list -> nat -> 'a1 -> 'a1 list **)

let rec upd l i x =
  match l with
  | [] -> []
  | y :: r -> (match i with
               | O -> x :: r
               | S j -> y :: (upd r j x))

(** val mro_find : (nat -> value option) -> nat list -> value option **)

let rec mro_find cd = function
| [] -> None
| c :: r -> (match cd c with
             | Some v -> Some v
             | None -> mro_find cd r)

(** val type_lookup : hier -> (nat -> value option) -> nat -> value option **)

let type_lookup h cd c =
  mro_find cd (getc h c).cmro

(** val in_mro : hier -> nat -> nat -> bool **)

let in_mro h k c =
  existsb (Nat.eqb k) (getc h c).cmro

type target =
| TWrap of nat
| TFn of z
| TDescrErr
| TNoAttr

(** val bind : hier -> nat -> value -> target **)

let bind h c = function
| Fn n0 -> TFn n0
| Wrap k -> if in_mro h k c then TWrap k else TDescrErr

(** val lookup :
    hier -> (nat -> value option) -> nat -> z option -> target **)

let lookup h cd c = function
| Some n0 -> TFn n0
| None ->
  (match type_lookup h cd c with
   | Some v -> bind h c v
   | None -> TNoAttr)

type result =
| RBody of nat
| RFn of z
| RTypeError
| RAttrError
| RInvalid

type pstate = { p_cls : value option list; p_objs : (nat * z option) list }

(** val p0 : hier -> pstate **)

let p0 h =
  { p_cls = (map (fun c -> c.cs_m) (init_cls h O (Zpos XH))); p_objs = [] }

(** val cd_p : pstate -> nat -> value option **)

let cd_p s c =
  nth c s.p_cls None

(** val first_cpdef : hier -> nat list -> nat option **)

let rec first_cpdef h = function
| [] -> None
| c :: r ->
  (match (getc h c).cdecl with
   | MCpdef -> Some c
   | _ -> first_cpdef h r)

(** val vslot : hier -> nat -> nat option **)

let vslot h c =
  first_cpdef h (getc h c).cmro

(** val res_of_target : target -> result **)

let res_of_target = function
| TWrap k -> RBody k
| TFn n0 -> RFn n0
| TDescrErr -> RTypeError
| TNoAttr -> RAttrError

(** val dispatch_py : hier -> pstate -> nat -> z option -> result **)

let dispatch_py h s c inst =
  res_of_target (lookup h (cd_p s) c inst)

(** val call_via : hier -> (nat -> value option) -> nat -> nat -> result **)

let call_via h cd c oc =
  match type_lookup h cd c with
  | Some v ->
    (match v with
     | Fn n0 -> RFn n0
     | Wrap k -> if in_mro h k oc then RBody k else RTypeError)
  | None -> RAttrError

type op =
| SetClass of nat * value
| DelClass of nat
| New of nat
| SetInst of nat * z
| DelInst of nat
| CallPy of nat
| CallC of nat
| CallVia of nat * nat

(** val has_dict : hier -> nat -> bool **)

let has_dict h c =
  match (getc h c).cdictk with
  | NoDict -> false
  | _ -> true

(** val step_py : hier -> pstate -> op -> pstate * result option **)

let step_py h s = function
| SetClass (c, v) ->
  ((if (&&) (validc h c) (is_py (getc h c))
    then { p_cls = (upd s.p_cls c (Some v)); p_objs = s.p_objs }
    else s), None)
| DelClass c ->
  ((if (&&) (validc h c) (is_py (getc h c))
    then { p_cls = (upd s.p_cls c None); p_objs = s.p_objs }
    else s), None)
| New c ->
  ((if validc h c
    then { p_cls = s.p_cls; p_objs = (app s.p_objs ((c, None) :: [])) }
    else s), None)
| SetInst (oi, n0) ->
  ((match nth_error s.p_objs oi with
    | Some p ->
      let (c, _) = p in
      if has_dict h c
      then { p_cls = s.p_cls; p_objs = (upd s.p_objs oi (c, (Some n0))) }
      else s
    | None -> s), None)
| DelInst oi ->
  ((match nth_error s.p_objs oi with
    | Some p ->
      let (c, _) = p in
      { p_cls = s.p_cls; p_objs = (upd s.p_objs oi (c, None)) }
    | None -> s), None)
| CallPy oi ->
  (s, (Some
    (match nth_error s.p_objs oi with
     | Some p -> let (c, inst) = p in dispatch_py h s c inst
     | None -> RInvalid)))
| CallC oi ->
  (s, (Some
    (match nth_error s.p_objs oi with
     | Some p ->
       let (c, inst) = p in
       (match vslot h c with
        | Some _ -> dispatch_py h s c inst
        | None -> RInvalid)
     | None -> RInvalid)))
| CallVia (c, oi) ->
  (s, (Some
    (match nth_error s.p_objs oi with
     | Some p ->
       let (oc, _) = p in
       if validc h c then call_via h (cd_p s) c oc else RInvalid
     | None -> RInvalid)))

(** val run_py : hier -> pstate -> op list -> result list **)

let rec run_py h s = function
| [] -> []
| o :: r ->
  (match snd (step_py h s o) with
   | Some x -> x :: (run_py h (fst (step_py h s o)) r)
   | None -> run_py h (fst (step_py h s o)) r)

(** val cs_get : world -> nat -> cstate **)

let cs_get w c =
  nth c w.w_cls { cs_m = None; cs_ver = Z0 }

(** val cd_w : world -> nat -> value option **)

let cd_w w c =
  (cs_get w c).cs_m

(** val tp_ver : world -> nat -> z **)

let tp_ver w c =
  (cs_get w c).cs_ver

(** val inst_m : ostate -> z option **)

let inst_m o =
  match o.os_dict with
  | Some p -> let (e, _) = p in e
  | None -> None

(** val set_class : world -> nat -> value option -> world **)

let set_class w c e =
  { w_cls = (upd w.w_cls c { cs_m = e; cs_ver = w.w_next }); w_objs =
    w.w_objs; w_cache = w.w_cache; w_next = (Z.add w.w_next (Zpos XH)) }

(** val set_obj : world -> nat -> ostate -> world **)

let set_obj w oi o =
  { w_cls = w.w_cls; w_objs = (upd w.w_objs oi o); w_cache = w.w_cache;
    w_next = (Z.add w.w_next (Zpos XH)) }

(** val read_obj_ver : hier -> world -> nat -> world * z **)

let read_obj_ver _ w oi =
  match nth_error w.w_objs oi with
  | Some o ->
    (match o.os_dict with
     | Some p -> let (_, v) = p in (w, v)
     | None -> (w, Z0))
  | None -> (w, Z0)

(** val vINIT : z **)

let vINIT =
  Zneg XH

(** val cache_find : (nat * (z * z)) list -> nat -> z * z **)

let rec cache_find l k =
  match l with
  | [] -> (vINIT, vINIT)
  | p1 :: r -> let (k', p) = p1 in if Nat.eqb k' k then p else cache_find r k

(** val set_cache : world -> nat -> (z * z) -> world **)

let set_cache w k p =
  { w_cls = w.w_cls; w_objs = w.w_objs; w_cache = ((k, p) :: w.w_cache);
    w_next = w.w_next }

(** val prefilter : hier -> nat -> bool **)

let prefilter h c =
  (||) (has_dict h c) (is_py (getc h c))

(** val is_ext : cls -> bool **)

let is_ext d =
  negb (is_py d)

(** val static_bases : hier -> nat -> bool **)

let static_bases h c =
  forallb (fun b -> is_ext (getc h b)) (tl (getc h c).cmro)

(** val slow_path :
    bool -> bool -> hier -> world -> nat -> nat -> ostate -> world * result **)

let slow_path cached fx h w k oi o =
  let guard = tp_ver w o.os_cls in
  (match lookup h (cd_w w) o.os_cls (inst_m o) with
   | TWrap k' ->
     if Nat.eqb k' k
     then if cached
          then let tv = tp_ver w o.os_cls in
               let (w1, ov) = read_obj_ver h w oi in
               ((set_cache w1 k
                  (if (&&) (Z.eqb guard tv)
                        ((||) (negb fx) (static_bases h o.os_cls))
                   then (tv, ov)
                   else (vINIT, vINIT))), (RBody k))
          else (w, (RBody k))
     else (w, (RBody k'))
   | TFn n0 -> (w, (RFn n0))
   | TDescrErr -> (w, RTypeError)
   | TNoAttr -> (w, RAttrError))

(** val cbody :
    bool -> bool -> hier -> world -> nat -> bool -> nat -> ostate ->
    world * result **)

let cbody cached fx h w k skip oi o =
  if skip
  then (w, (RBody k))
  else if (||) (getc h k).cdecl_dict (prefilter h o.os_cls)
       then if cached
            then if Z.eqb (fst (cache_find w.w_cache k)) (tp_ver w o.os_cls)
                 then let (w1, v) = read_obj_ver h w oi in
                      if Z.eqb (snd (cache_find w.w_cache k)) v
                      then (w1, (RBody k))
                      else slow_path cached fx h w1 k oi o
                 else slow_path cached fx h w k oi o
            else slow_path cached fx h w k oi o
       else (w, (RBody k))

(** val dispatch_cy :
    bool -> bool -> hier -> world -> nat -> ostate -> world * result **)

let dispatch_cy cached fx h w oi o =
  match vslot h o.os_cls with
  | Some k -> cbody cached fx h w k false oi o
  | None -> (w, RInvalid)

(** val step_cy :
    bool -> bool -> hier -> world -> op -> world * result option **)

let step_cy cached fx h w = function
| SetClass (c, v) ->
  ((if (&&) (validc h c) (is_py (getc h c)) then set_class w c (Some v) else w),
    None)
| DelClass c ->
  ((if (&&) (validc h c) (is_py (getc h c))
    then (match cd_w w c with
          | Some _ -> set_class w c None
          | None -> w)
    else w), None)
| New c ->
  ((if validc h c
    then (match (getc h c).cdictk with
          | Eager ->
            { w_cls = w.w_cls; w_objs =
              (app w.w_objs ({ os_cls = c; os_dict = (Some (None,
                w.w_next)) } :: [])); w_cache = w.w_cache; w_next =
              (Z.add w.w_next (Zpos XH)) }
          | _ ->
            { w_cls = w.w_cls; w_objs =
              (app w.w_objs ({ os_cls = c; os_dict = None } :: []));
              w_cache = w.w_cache; w_next = w.w_next })
    else w), None)
| SetInst (oi, n0) ->
  ((match nth_error w.w_objs oi with
    | Some o0 ->
      if has_dict h o0.os_cls
      then set_obj w oi { os_cls = o0.os_cls; os_dict = (Some ((Some n0),
             w.w_next)) }
      else w
    | None -> w), None)
| DelInst oi ->
  ((match nth_error w.w_objs oi with
    | Some o0 ->
      (match o0.os_dict with
       | Some p ->
         let (o1, _) = p in
         (match o1 with
          | Some _ ->
            set_obj w oi { os_cls = o0.os_cls; os_dict = (Some (None,
              w.w_next)) }
          | None -> w)
       | None ->
         (match (getc h o0.os_cls).cdictk with
          | Managed ->
            set_obj w oi { os_cls = o0.os_cls; os_dict = (Some (None,
              w.w_next)) }
          | _ -> w))
    | None -> w), None)
| CallPy oi ->
  (match nth_error w.w_objs oi with
   | Some o0 ->
     (match lookup h (cd_w w) o0.os_cls (inst_m o0) with
      | TWrap k ->
        let (w1, r) = cbody cached fx h w k true oi o0 in (w1, (Some r))
      | x -> (w, (Some (res_of_target x))))
   | None -> (w, (Some RInvalid)))
| CallC oi ->
  (match nth_error w.w_objs oi with
   | Some o0 ->
     let (w1, r) = dispatch_cy cached fx h w oi o0 in (w1, (Some r))
   | None -> (w, (Some RInvalid)))
| CallVia (c, oi) ->
  (match nth_error w.w_objs oi with
   | Some o0 ->
     if validc h c
     then (match type_lookup h (cd_w w) c with
           | Some v ->
             (match v with
              | Fn n0 -> (w, (Some (RFn n0)))
              | Wrap k ->
                if in_mro h k o0.os_cls
                then let (w1, r) = cbody cached fx h w k true oi o0 in
                     (w1, (Some r))
                else (w, (Some RTypeError)))
           | None -> (w, (Some RAttrError)))
     else (w, (Some RInvalid))
   | None -> (w, (Some RInvalid)))

(** val run_cy : bool -> bool -> hier -> world -> op list -> result list **)

let rec run_cy cached fx h w = function
| [] -> []
| o :: r ->
  (match snd (step_cy cached fx h w o) with
   | Some x -> x :: (run_cy cached fx h (fst (step_cy cached fx h w o)) r)
   | None -> run_cy cached fx h (fst (step_cy cached fx h w o)) r)

(** val wf_cls : hier -> nat -> cls -> bool **)

let wf_cls h c d =
  (&&)
    ((&&)
      (match d.cmro with
       | [] -> false
       | c0 :: r -> (&&) (Nat.eqb c0 c) (negb (existsb (Nat.eqb c) r)))
      (forallb (validc h) d.cmro))
    (if is_py d
     then (match d.cdecl with
           | MCpdef -> false
           | _ -> true)
     else forallb (fun b -> is_ext (getc h b)) d.cmro)

(** val wf_from : hier -> nat -> cls list -> bool **)

let rec wf_from h i = function
| [] -> true
| d :: r -> (&&) (wf_cls h i d) (wf_from h (S i) r)

(** val wf_hier : hier -> bool **)

let wf_hier h =
  wf_from h O h

(** val no_ext_def : hier -> bool **)

let no_ext_def h =
  forallb (fun d ->
    if is_py d then true else (match d.cdecl with
                               | MDef _ -> false
                               | _ -> true)) h

(** val is_leaf : hier -> nat -> bool **)

let is_leaf h c =
  forallb (fun d ->
    match d.cmro with
    | [] -> true
    | _ :: r -> negb (existsb (Nat.eqb c) r)) h

(** val leaf_op : hier -> op -> bool **)

let leaf_op h = function
| SetClass (c, _) -> is_leaf h c
| DelClass c -> is_leaf h c
| _ -> true

type vdecl =
| VNone
| VDecl of bool * nat * bool

type skarg =
| SkNone
| SkFwd
| SkConst of bool

type oparg =
| OpNone
| OpFwd
| OpNull

type entry =
| EImpl of nat
| EAdapt of nat * skarg * oparg

type slot = { s_cls : nat; s_ov : bool; s_nopt : nat; s_fin : bool;
              s_ent : entry }

type vtable = slot list

(** val mk_adapt : bool -> nat -> bool -> nat -> slot -> slot **)

let mk_adapt askip k ov n0 s =
  { s_cls = s.s_cls; s_ov = s.s_ov; s_nopt = s.s_nopt; s_fin = s.s_fin;
    s_ent = (EAdapt (k,
    (if s.s_ov then SkFwd else if ov then SkConst askip else SkNone),
    (if Nat.ltb O s.s_nopt
     then OpFwd
     else if Nat.ltb O n0 then OpNull else OpNone))) }

(** val declare : bool -> nat -> vdecl -> vtable -> vtable **)

let declare askip i d vt =
  match d with
  | VNone -> vt
  | VDecl (ov, n0, f) ->
    (match vt with
     | [] ->
       { s_cls = i; s_ov = ov; s_nopt = n0; s_fin = f; s_ent = (EImpl
         i) } :: []
     | s :: r ->
       if (&&) (eqb s.s_ov ov) (Nat.eqb s.s_nopt n0)
       then { s_cls = s.s_cls; s_ov = ov; s_nopt = n0; s_fin = f; s_ent =
              (EImpl i) } :: (map (mk_adapt askip i ov n0) r)
       else { s_cls = i; s_ov = ov; s_nopt = n0; s_fin = f; s_ent = (EImpl
              i) } :: (map (mk_adapt askip i ov n0) (s :: r)))

type chain = (nat * vdecl) list

(** val build : bool -> chain -> vtable -> vtable **)

let rec build askip ch vt =
  match ch with
  | [] -> vt
  | p :: r -> let (i, d) = p in build askip r (declare askip i d vt)

type vres =
| VBody of nat
| VEntry of nat * bool

(** val run_entry : slot -> vres **)

let run_entry s =
  match s.s_ent with
  | EImpl k -> if s.s_ov then VEntry (k, false) else VBody k
  | EAdapt (k, sk, _) ->
    (match sk with
     | SkNone -> VBody k
     | SkFwd -> VEntry (k, false)
     | SkConst b -> VEntry (k, b))

(** val split_at : nat -> chain -> (chain * chain) option **)

let rec split_at t = function
| [] -> None
| p :: r ->
  let (i, d) = p in
  if Nat.eqb i t
  then Some (((i, d) :: []), r)
  else (match split_at t r with
        | Some p1 -> let (a, b) = p1 in Some (((i, d) :: a), b)
        | None -> None)

(** val vt_call : bool -> chain -> nat -> vres option **)

let vt_call askip ch t =
  match split_at t ch with
  | Some p ->
    let (pre, post) = p in
    let vt_t = build askip pre [] in
    (match vt_t with
     | [] -> None
     | hd :: _ ->
       if hd.s_fin
       then Some (run_entry hd)
       else let vt_d = build askip post vt_t in
            (match nth_error vt_d (sub (length vt_d) (length vt_t)) with
             | Some s -> Some (run_entry s)
             | None -> None))
  | None -> None

type dstate = ((nat * bool) * bool) option

(** val upd_st : dstate -> (nat * vdecl) -> dstate **)

let upd_st st x =
  match snd x with
  | VNone -> st
  | VDecl (ov, _, f) -> Some (((fst x), ov), f)

(** val last_decl : chain -> dstate -> dstate **)

let last_decl ch st =
  fold_left upd_st ch st

(** val vt_ref : chain -> nat -> vres option **)

let vt_ref ch t =
  match split_at t ch with
  | Some p ->
    let (pre, _) = p in
    (match last_decl pre None with
     | Some _ ->
       (match last_decl ch None with
        | Some p1 ->
          let (p2, _) = p1 in
          let (k, b0) = p2 in
          if b0 then Some (VEntry (k, false)) else Some (VBody k)
        | None -> None)
     | None -> None)
  | None -> None

(** val wf_chain : chain -> dstate -> bool **)

let rec wf_chain ch st =
  match ch with
  | [] -> true
  | p :: r ->
    let (i, v) = p in
    (match v with
     | VNone -> wf_chain r st
     | VDecl (ov, _, f) ->
       (&&)
         (match st with
          | Some p1 ->
            let (p2, f0) = p1 in
            let (_, ov0) = p2 in (&&) (negb f0) (implb ov0 ov)
          | None -> true) (wf_chain r (Some ((i, ov), f))))

(** val ext_base : hier -> nat -> nat option **)

let ext_base h c =
  find (fun i -> is_ext (getc h i)) (getc h c).cmro

(** val chain_of : hier -> vdecl list -> nat -> chain **)

let chain_of h vd e =
  map (fun i -> (i, (nth i vd VNone))) (rev (getc h e).cmro)

type vop =
| VBase of op
| VCallT of nat * nat

(** val interp_cy :
    bool -> bool -> hier -> world -> nat -> ostate -> vres -> world * result **)

let interp_cy cached fx h w oi o = function
| VBody k -> (w, (RBody k))
| VEntry (k, s) -> cbody cached fx h w k s oi o

(** val vstep_cy :
    bool -> bool -> bool -> hier -> vdecl list -> world -> vop ->
    world * result option **)

let vstep_cy askip cached fx h vd w = function
| VBase b -> step_cy cached fx h w b
| VCallT (t, oi) ->
  (match nth_error w.w_objs oi with
   | Some o0 ->
     (match ext_base h o0.os_cls with
      | Some e ->
        (match vt_call askip (chain_of h vd e) t with
         | Some r ->
           let (w1, x) = interp_cy cached fx h w oi o0 r in (w1, (Some x))
         | None -> (w, (Some RInvalid)))
      | None -> (w, (Some RInvalid)))
   | None -> (w, (Some RInvalid)))

(** val vstep_py :
    hier -> vdecl list -> pstate -> vop -> pstate * result option **)

let vstep_py h vd s = function
| VBase b -> step_py h s b
| VCallT (t, oi) ->
  (s, (Some
    (match nth_error s.p_objs oi with
     | Some p ->
       let (c, inst) = p in
       (match ext_base h c with
        | Some e ->
          (match vt_ref (chain_of h vd e) t with
           | Some v ->
             (match v with
              | VBody k -> RBody k
              | VEntry (_, _) -> dispatch_py h s c inst)
           | None -> RInvalid)
        | None -> RInvalid)
     | None -> RInvalid)))

(** val vrun_cy :
    bool -> bool -> bool -> hier -> vdecl list -> world -> vop list -> result
    list **)

let rec vrun_cy askip cached fx h vd w = function
| [] -> []
| o :: r ->
  (match snd (vstep_cy askip cached fx h vd w o) with
   | Some x ->
     x :: (vrun_cy askip cached fx h vd
            (fst (vstep_cy askip cached fx h vd w o)) r)
   | None ->
     vrun_cy askip cached fx h vd (fst (vstep_cy askip cached fx h vd w o)) r)

(** val vrun_py : hier -> vdecl list -> pstate -> vop list -> result list **)

let rec vrun_py h vd s = function
| [] -> []
| o :: r ->
  (match snd (vstep_py h vd s o) with
   | Some x -> x :: (vrun_py h vd (fst (vstep_py h vd s o)) r)
   | None -> vrun_py h vd (fst (vstep_py h vd s o)) r)

(** val agree_at : hier -> vdecl list -> nat -> bool **)

let agree_at h vd i =
  match nth i vd VNone with
  | VNone -> (match (getc h i).cdecl with
              | MCpdef -> false
              | _ -> true)
  | VDecl (ov, _, _) ->
    if ov
    then (match (getc h i).cdecl with
          | MCpdef -> true
          | _ -> false)
    else (&&) (is_ext (getc h i))
           (match (getc h i).cdecl with
            | MCpdef -> false
            | _ -> true)

(** val list_eqb : nat list -> nat list -> bool **)

let rec list_eqb a b =
  match a with
  | [] -> (match b with
           | [] -> true
           | _ :: _ -> false)
  | x :: a' ->
    (match b with
     | [] -> false
     | y :: b' -> (&&) (Nat.eqb x y) (list_eqb a' b'))

(** val shape_at : hier -> nat -> bool **)

let shape_at h c =
  match ext_base h c with
  | Some e ->
    list_eqb (filter (fun i -> is_ext (getc h i)) (getc h c).cmro)
      (getc h e).cmro
  | None -> true

(** val wf_vt : hier -> vdecl list -> bool **)

let wf_vt h vd =
  (&&)
    ((&&)
      ((&&) (Nat.leb (length vd) (length h))
        (forallb (agree_at h vd) (seq O (length h))))
      (forallb (shape_at h) (seq O (length h))))
    (forallb (fun e ->
      if is_ext (getc h e) then wf_chain (chain_of h vd e) None else true)
      (seq O (length h)))
