
val negb : bool -> bool

type nat =
| O
| S of nat

val fst : ('a1 * 'a2) -> 'a1

val snd : ('a1 * 'a2) -> 'a2

val length : 'a1 list -> nat

val app : 'a1 list -> 'a1 list -> 'a1 list

val add : nat -> nat -> nat

type positive =
| XI of positive
| XO of positive
| XH

type n =
| N0
| Npos of positive

type z =
| Z0
| Zpos of positive
| Zneg of positive

val eqb : bool -> bool -> bool

module Pos :
 sig
  val succ : positive -> positive

  val eqb : positive -> positive -> bool

  val iter_op : ('a1 -> 'a1 -> 'a1) -> positive -> 'a1 -> 'a1

  val to_nat : positive -> nat

  val of_succ_nat : nat -> positive
 end

module N :
 sig
  val eqb : n -> n -> bool

  val to_nat : n -> nat

  val of_nat : nat -> n
 end

val nth_error : 'a1 list -> nat -> 'a1 option

val map : ('a1 -> 'a2) -> 'a1 list -> 'a2 list

val flat_map : ('a1 -> 'a2 list) -> 'a1 list -> 'a2 list

val combine : 'a1 list -> 'a2 list -> ('a1 * 'a2) list

val ex_keep : (((((nat * n) * z) * z list) * z option) * positive) * bool

type value = n list

val enc_value : value -> n list

val serialise : value list -> n list

type how =
| Hit
| Miss
| Bypass

val key : ('a2 -> 'a1 -> value) -> (n list -> 'a3) -> 'a1 list -> 'a2 -> 'a3

type ('k, 'out) store = ('k * 'out) list

val find : ('a1 -> 'a1 -> bool) -> 'a1 -> ('a1, 'a2) store -> 'a2 option

val step :
  ('a2 -> 'a1 -> value) -> (n list -> 'a3) -> ('a3 -> 'a3 -> bool) -> ('a2 ->
  'a4) -> ('a4 -> bool) -> ('a2 -> bool) -> 'a1 list -> ('a3, 'a4) store ->
  'a2 -> ('a3, 'a4) store * (how * 'a4)

val exec :
  ('a2 -> 'a1 -> value) -> (n list -> 'a3) -> ('a3 -> 'a3 -> bool) -> ('a2 ->
  'a4) -> ('a4 -> bool) -> ('a2 -> bool) -> 'a1 list -> ('a3, 'a4) store ->
  'a2 list -> ('a3, 'a4) store * (how * 'a4) list

val run :
  ('a2 -> 'a1 -> value) -> (n list -> 'a3) -> ('a3 -> 'a3 -> bool) -> ('a2 ->
  'a4) -> ('a4 -> bool) -> ('a2 -> bool) -> 'a1 list -> 'a2 list ->
  (how * 'a4) list

val list_eqb : n list -> n list -> bool

type creq = (bool * bool) * n list

val cget : creq -> n -> value

val run_concrete : n list -> n list -> creq list -> (how * bool) list
