
(** val negb : bool -> bool **)

let negb = function
| true -> false
| false -> true

type nat =
| O
| S of nat

(** val fst : ('a1 * 'a2) -> 'a1 **)

let fst = function
| (x, _) -> x

(** val snd : ('a1 * 'a2) -> 'a2 **)

let snd = function
| (_, y) -> y

(** val length : 'a1 list -> nat **)

let rec length = function
| [] -> O
| _ :: l' -> S (length l')

(** val app : 'a1 list -> 'a1 list -> 'a1 list **)

let rec app l m =
  match l with
  | [] -> m
  | a :: l1 -> a :: (app l1 m)

type comparison =
| Eq
| Lt
| Gt

type positive =
| XI of positive
| XO of positive
| XH

type n =
| N0
| Npos of positive

type z =
| Z0
| Zpos of positive
| Zneg of positive

module Nat =
 struct
  (** val leb : nat -> nat -> bool **)

  let rec leb n0 m =
    match n0 with
    | O -> true
    | S n' -> (match m with
               | O -> false
               | S m' -> leb n' m')
 end

module Pos =
 struct
  (** val compare_cont : comparison -> positive -> positive -> comparison **)

  let rec compare_cont r x y =
    match x with
    | XI p ->
      (match y with
       | XI q -> compare_cont r p q
       | XO q -> compare_cont Gt p q
       | XH -> Gt)
    | XO p ->
      (match y with
       | XI q -> compare_cont Lt p q
       | XO q -> compare_cont r p q
       | XH -> Gt)
    | XH -> (match y with
             | XH -> r
             | _ -> Lt)

  (** val compare : positive -> positive -> comparison **)

  let compare =
    compare_cont Eq

  (** val eqb : positive -> positive -> bool **)

  let rec eqb p q =
    match p with
    | XI p0 -> (match q with
                | XI q0 -> eqb p0 q0
                | _ -> false)
    | XO p0 -> (match q with
                | XO q0 -> eqb p0 q0
                | _ -> false)
    | XH -> (match q with
             | XH -> true
             | _ -> false)
 end

module N =
 struct
  (** val compare : n -> n -> comparison **)

  let compare n0 m =
    match n0 with
    | N0 -> (match m with
             | N0 -> Eq
             | Npos _ -> Lt)
    | Npos n' -> (match m with
                  | N0 -> Gt
                  | Npos m' -> Pos.compare n' m')

  (** val eqb : n -> n -> bool **)

  let eqb n0 m =
    match n0 with
    | N0 -> (match m with
             | N0 -> true
             | Npos _ -> false)
    | Npos p -> (match m with
                 | N0 -> false
                 | Npos q -> Pos.eqb p q)

  (** val ltb : n -> n -> bool **)

  let ltb x y =
    match compare x y with
    | Lt -> true
    | _ -> false
 end

module Z =
 struct
  (** val eqb : z -> z -> bool **)

  let eqb x y =
    match x with
    | Z0 -> (match y with
             | Z0 -> true
             | _ -> false)
    | Zpos p -> (match y with
                 | Zpos q -> Pos.eqb p q
                 | _ -> false)
    | Zneg p -> (match y with
                 | Zneg q -> Pos.eqb p q
                 | _ -> false)
 end

(** val nth_error : 'a1 list -> nat -> 'a1 option **)

let rec nth_error l = function
| O -> (match l with
        | [] -> None
        | x :: _ -> Some x)
| S n1 -> (match l with
           | [] -> None
           | _ :: l0 -> nth_error l0 n1)

(** val map : ('a1 -> 'a2) -> 'a1 list -> 'a2 list **)

let rec map f = function
| [] -> []
| a :: t -> (f a) :: (map f t)

(** val flat_map : ('a1 -> 'a2 list) -> 'a1 list -> 'a2 list **)

let rec flat_map f = function
| [] -> []
| x :: t -> app (f x) (flat_map f t)

(** val fold_left : ('a1 -> 'a2 -> 'a1) -> 'a2 list -> 'a1 -> 'a1 **)

let rec fold_left f l a0 =
  match l with
  | [] -> a0
  | b :: t -> fold_left f t (f a0 b)

(** val existsb : ('a1 -> bool) -> 'a1 list -> bool **)

let rec existsb f = function
| [] -> false
| a :: l0 -> (||) (f a) (existsb f l0)

(** val filter : ('a1 -> bool) -> 'a1 list -> 'a1 list **)

let rec filter f = function
| [] -> []
| x :: l0 -> if f x then x :: (filter f l0) else filter f l0

(** val combine : 'a1 list -> 'a2 list -> ('a1 * 'a2) list **)

let rec combine l l' =
  match l with
  | [] -> []
  | x :: tl ->
    (match l' with
     | [] -> []
     | y :: tl' -> (x, y) :: (combine tl tl'))

(** val ex_keep :
    (((((nat * n) * z) * z list) * z option) * positive) * bool **)

let ex_keep =
  ((((((O, N0), Z0), []), None), XH), true)

type name = n list

(** val name_leb : name -> name -> bool **)

let rec name_leb a b =
  match a with
  | [] -> true
  | x :: a1 ->
    (match b with
     | [] -> false
     | y :: b1 ->
       if N.ltb x y then true else if N.ltb y x then false else name_leb a1 b1)

(** val name_eqb : name -> name -> bool **)

let rec name_eqb a b =
  match a with
  | [] -> (match b with
           | [] -> true
           | _ :: _ -> false)
  | x :: a1 ->
    (match b with
     | [] -> false
     | y :: b1 -> (&&) (N.eqb x y) (name_eqb a1 b1))

(** val dict_name : name **)

let dict_name =
  (Npos (XI (XI (XI (XI (XI (XO XH))))))) :: ((Npos (XI (XI (XI (XI (XI (XO
    XH))))))) :: ((Npos (XO (XO (XI (XO (XO (XI XH))))))) :: ((Npos (XI (XO
    (XO (XI (XO (XI XH))))))) :: ((Npos (XI (XI (XO (XO (XO (XI
    XH))))))) :: ((Npos (XO (XO (XI (XO (XI (XI XH))))))) :: ((Npos (XI (XI
    (XI (XI (XI (XO XH))))))) :: ((Npos (XI (XI (XI (XI (XI (XO
    XH))))))) :: [])))))))

(** val weakref_name : name **)

let weakref_name =
  (Npos (XI (XI (XI (XI (XI (XO XH))))))) :: ((Npos (XI (XI (XI (XI (XI (XO
    XH))))))) :: ((Npos (XI (XI (XI (XO (XI (XI XH))))))) :: ((Npos (XI (XO
    (XI (XO (XO (XI XH))))))) :: ((Npos (XI (XO (XO (XO (XO (XI
    XH))))))) :: ((Npos (XI (XI (XO (XI (XO (XI XH))))))) :: ((Npos (XO (XI
    (XO (XO (XI (XI XH))))))) :: ((Npos (XI (XO (XI (XO (XO (XI
    XH))))))) :: ((Npos (XO (XI (XI (XO (XO (XI XH))))))) :: ((Npos (XI (XI
    (XI (XI (XI (XO XH))))))) :: ((Npos (XI (XI (XI (XI (XI (XO
    XH))))))) :: []))))))))))

type kind =
| KObj
| KC of bool * bool * bool

type member = { m_name : name; m_kind : kind }

type cls = { c_id : n; c_members : member list; c_cinit : bool;
             c_reduce : bool; c_getstate : bool; c_setstate : bool;
             c_auto : bool option }

type hierarchy = cls list

type modenv = { g_cinit : bool; g_reduce : bool }

type flags = { fx_lookup : bool; fx_ptr : bool; fx_pad : bool }

(** val special : name -> bool **)

let special n0 =
  (||) (name_eqb n0 weakref_name) (name_eqb n0 dict_name)

(** val own_members : cls -> member list **)

let own_members c =
  filter (fun m -> negb (special m.m_name)) c.c_members

(** val gather : hierarchy -> member list **)

let gather h =
  flat_map own_members h

(** val insert_m : member -> member list -> member list **)

let rec insert_m x l = match l with
| [] -> x :: []
| y :: r -> if name_leb x.m_name y.m_name then x :: l else y :: (insert_m x r)

(** val sort_m : member list -> member list **)

let rec sort_m = function
| [] -> []
| x :: r -> insert_m x (sort_m r)

(** val all_members : hierarchy -> member list **)

let all_members h =
  sort_m (gather h)

(** val all_names : hierarchy -> name list **)

let all_names h =
  map (fun m -> m.m_name) (all_members h)

type reason =
| RCinit
| RNonPy
| RStruct

type decision =
| NoInject
| InjectRaise of reason * name list
| InjectPickle of member list

(** val is_obj : kind -> bool **)

let is_obj = function
| KObj -> true
| KC (_, _, _) -> false

(** val non_py : flags -> kind -> bool **)

let non_py f = function
| KObj -> false
| KC (conv, _, ptr) -> (||) (negb conv) ((&&) f.fx_ptr ptr)

(** val is_struct : kind -> bool **)

let is_struct = function
| KObj -> false
| KC (_, s, _) -> s

(** val head_auto : hierarchy -> bool option **)

let head_auto = function
| [] -> None
| c :: _ -> c.c_auto

(** val decide_on : flags -> modenv -> hierarchy -> decision **)

let decide_on f e h =
  let ms = all_members h in
  let cinit =
    (||) (existsb (fun c -> c.c_cinit) h) ((&&) (negb f.fx_lookup) e.g_cinit)
  in
  let np = filter (fun m -> non_py f m.m_kind) ms in
  let st = filter (fun m -> is_struct m.m_kind) ms in
  let forced = match head_auto h with
               | Some b -> b
               | None -> false in
  if cinit
  then InjectRaise (RCinit, [])
  else (match np with
        | [] ->
          (match st with
           | [] -> InjectPickle ms
           | _ :: _ ->
             if forced
             then InjectPickle ms
             else InjectRaise (RStruct, (map (fun m -> m.m_name) st)))
        | _ :: _ -> InjectRaise (RNonPy, (map (fun m -> m.m_name) np)))

(** val reduce_in_scope : flags -> modenv -> hierarchy -> bool **)

let reduce_in_scope f e h =
  (||) (existsb (fun c -> c.c_reduce) h) ((&&) (negb f.fx_lookup) e.g_reduce)

(** val decide : flags -> modenv -> hierarchy -> decision **)

let decide f e h = match h with
| [] -> NoInject
| c :: _ ->
  if reduce_in_scope f e h
  then NoInject
  else (match c.c_auto with
        | Some b -> if b then decide_on f e h else NoInject
        | None -> decide_on f e h)

(** val compile_error : flags -> modenv -> hierarchy -> bool **)

let compile_error f e h =
  match head_auto h with
  | Some b ->
    if b
    then (match decide f e h with
          | InjectRaise (_, _) -> true
          | _ -> false)
    else false
  | None -> false

type wstate = { w_members : member list; w_cinit : bool; w_reduce : bool }

type scope_sel = cls -> cls -> cls

(** val sel_cls : scope_sel **)

let sel_cls _ k =
  k

(** val sel_node : scope_sel **)

let sel_node node _ =
  node

(** val walk_step :
    scope_sel -> scope_sel -> cls -> wstate -> cls -> wstate **)

let walk_step sc sr node w k =
  { w_members = (app w.w_members (own_members k)); w_cinit =
    ((||) w.w_cinit (sc node k).c_cinit); w_reduce =
    ((||) w.w_reduce (sr node k).c_reduce) }

(** val walk : scope_sel -> scope_sel -> cls -> hierarchy -> wstate **)

let walk sc sr node h =
  fold_left (walk_step sc sr node) h { w_members = []; w_cinit = false;
    w_reduce = false }

(** val decide_core : flags -> bool -> bool -> member list -> decision **)

let decide_core f forced cinit ms =
  let np = filter (fun m -> non_py f m.m_kind) ms in
  let st = filter (fun m -> is_struct m.m_kind) ms in
  if cinit
  then InjectRaise (RCinit, [])
  else (match np with
        | [] ->
          (match st with
           | [] -> InjectPickle ms
           | _ :: _ ->
             if forced
             then InjectPickle ms
             else InjectRaise (RStruct, (map (fun m -> m.m_name) st)))
        | _ :: _ -> InjectRaise (RNonPy, (map (fun m -> m.m_name) np)))

(** val decide_walk :
    scope_sel -> scope_sel -> flags -> modenv -> hierarchy -> decision **)

let decide_walk sc sr f e h = match h with
| [] -> NoInject
| node :: _ ->
  if (||) node.c_reduce ((&&) (negb f.fx_lookup) e.g_reduce)
  then NoInject
  else (match node.c_auto with
        | Some b ->
          if b
          then let w = walk sc sr node h in
               let ms = sort_m w.w_members in
               if w.w_reduce
               then NoInject
               else decide_core f true
                      ((||) w.w_cinit ((&&) (negb f.fx_lookup) e.g_cinit)) ms
          else NoInject
        | None ->
          let w = walk sc sr node h in
          let ms = sort_m w.w_members in
          if w.w_reduce
          then NoInject
          else decide_core f false
                 ((||) w.w_cinit ((&&) (negb f.fx_lookup) e.g_cinit)) ms)

(** val decide_walk_n : nat -> flags -> modenv -> hierarchy -> decision **)

let decide_walk_n = function
| O -> decide_walk sel_cls sel_cls
| S n1 ->
  (match n1 with
   | O -> decide_walk sel_node sel_cls
   | S _ -> decide_walk sel_cls sel_node)

(** val installed : hierarchy -> bool **)

let installed h =
  negb (existsb (fun c -> c.c_getstate) h)

type rmethod =
| RDefault
| RUser
| RRaise of reason * name list
| RPickle of hierarchy

(** val effective_reduce : flags -> modenv -> hierarchy -> rmethod **)

let rec effective_reduce f e h = match h with
| [] -> RDefault
| c :: bs ->
  if c.c_reduce
  then RUser
  else (match decide f e h with
        | NoInject -> effective_reduce f e bs
        | InjectRaise (r, ns) ->
          if installed h then RRaise (r, ns) else effective_reduce f e bs
        | InjectPickle _ ->
          if installed h then RPickle h else effective_reduce f e bs)

type smethod =
| SNone
| SUser
| SRaise
| SSet of hierarchy

(** val effective_setstate : flags -> modenv -> hierarchy -> smethod **)

let rec effective_setstate f e h = match h with
| [] -> SNone
| c :: bs ->
  if c.c_setstate
  then SUser
  else (match decide f e h with
        | NoInject -> effective_setstate f e bs
        | InjectRaise (_, _) ->
          if (&&) (installed h) (negb (existsb (fun c0 -> c0.c_setstate) bs))
          then SRaise
          else effective_setstate f e bs
        | InjectPickle _ ->
          if (&&) (installed h) (negb (existsb (fun c0 -> c0.c_setstate) bs))
          then SSet h
          else effective_setstate f e bs)

(** val pad3 : flags -> z list -> z list option **)

let pad3 f cs = match cs with
| [] -> None
| a :: l ->
  (match l with
   | [] -> if f.fx_pad then Some (a :: (a :: (a :: []))) else None
   | b :: l0 ->
     (match l0 with
      | [] -> if f.fx_pad then Some (a :: (b :: (b :: []))) else None
      | _ :: l1 -> (match l1 with
                    | [] -> Some cs
                    | _ :: _ -> None)))

type 'atom pv =
| PNone
| PAtom of 'atom
| PDict of ('atom * 'atom) list

type ('atom, 'cv) sval =
| SObj of 'atom pv
| SC of 'cv
| SDangling

type pytype = { t_hier : hierarchy; t_pydict : bool }

(** val has_dict : pytype -> bool **)

let has_dict t =
  (||) t.t_pydict
    (existsb (fun c ->
      existsb (fun m -> name_eqb m.m_name dict_name) c.c_members) t.t_hier)

type ('atom, 'cv) obj = { o_type : pytype;
                          o_slots : (name * ('atom, 'cv) sval) list;
                          o_dict : ('atom * 'atom) list option }

(** val get :
    (name * ('a1, 'a2) sval) list -> name -> ('a1, 'a2) sval option **)

let rec get s n0 =
  match s with
  | [] -> None
  | p :: r -> let (k, v) = p in if name_eqb k n0 then Some v else get r n0

(** val set_slot :
    ('a1, 'a2) obj -> name -> ('a1, 'a2) sval -> ('a1, 'a2) obj **)

let set_slot o n0 v =
  { o_type = o.o_type; o_slots = ((n0, v) :: o.o_slots); o_dict = o.o_dict }

(** val default_of : 'a2 -> kind -> ('a1, 'a2) sval **)

let default_of czero = function
| KObj -> SObj PNone
| KC (_, _, _) -> SC czero

(** val new_obj : 'a2 -> pytype -> ('a1, 'a2) obj **)

let new_obj czero t =
  { o_type = t; o_slots =
    (map (fun m -> (m.m_name, (default_of czero m.m_kind)))
      (all_members t.t_hier)); o_dict =
    (if has_dict t then Some [] else None) }

type err =
| EType of reason * name list
| EPickle
| EIndex
| EConv of name
| ENoDict
| EDictUpdate
| EAttr of name
| EUB
| EOther

type 'a res =
| Ok of 'a
| Err of err

(** val accepted :
    (nat -> name list -> z) -> nat list -> flags -> name list -> z list option **)

let accepted hash avail f ns =
  pad3 f (map (fun a -> hash a ns) avail)

(** val item_of :
    (kind -> 'a2 -> 'a1) -> member -> ('a1, 'a2) sval -> 'a1 pv **)

let item_of to_py m = function
| SObj p -> p
| SC c -> PAtom (to_py m.m_kind c)
| SDangling -> PNone

(** val read_state :
    (kind -> 'a2 -> 'a1) -> member list -> ('a1, 'a2) obj -> 'a1 pv list res **)

let rec read_state to_py ms o =
  match ms with
  | [] -> Ok []
  | m :: r ->
    (match get o.o_slots m.m_name with
     | Some v ->
       (match v with
        | SDangling -> Err EUB
        | _ ->
          (match read_state to_py r o with
           | Ok l -> Ok ((item_of to_py m v) :: l)
           | Err e -> Err e))
     | None -> Err (EAttr m.m_name))

(** val not_none : 'a1 pv -> bool **)

let not_none = function
| PNone -> false
| _ -> true

(** val any_notnone : member list -> 'a1 pv list -> bool **)

let any_notnone ms st =
  existsb (fun mp -> (&&) (is_obj (fst mp).m_kind) (not_none (snd mp)))
    (combine ms st)

type 'atom rvalue = { rv_owner : hierarchy; rv_type : pytype; rv_chk : 
                      z; rv_arg_state : 'atom pv list option;
                      rv_state : 'atom pv list option }

(** val reduce_cython :
    (kind -> 'a2 -> 'a1) -> (nat -> name list -> z) -> hierarchy -> ('a1,
    'a2) obj -> 'a1 rvalue res **)

let reduce_cython to_py hash owner o =
  let ms = all_members owner in
  (match read_state to_py ms o with
   | Ok st ->
     let chk = hash O (map (fun m -> m.m_name) ms) in
     (match o.o_dict with
      | Some l ->
        (match l with
         | [] ->
           if any_notnone ms st
           then Ok { rv_owner = owner; rv_type = o.o_type; rv_chk = chk;
                  rv_arg_state = None; rv_state = (Some st) }
           else Ok { rv_owner = owner; rv_type = o.o_type; rv_chk = chk;
                  rv_arg_state = (Some st); rv_state = None }
         | kv :: d ->
           Ok { rv_owner = owner; rv_type = o.o_type; rv_chk = chk;
             rv_arg_state = None; rv_state = (Some
             (app st ((PDict (kv :: d)) :: []))) })
      | None ->
        if any_notnone ms st
        then Ok { rv_owner = owner; rv_type = o.o_type; rv_chk = chk;
               rv_arg_state = None; rv_state = (Some st) }
        else Ok { rv_owner = owner; rv_type = o.o_type; rv_chk = chk;
               rv_arg_state = (Some st); rv_state = None })
   | Err e -> Err e)

(** val reduce :
    (kind -> 'a2 -> 'a1) -> (nat -> name list -> z) -> flags -> modenv ->
    ('a1, 'a2) obj -> 'a1 rvalue res **)

let reduce to_py hash f e o =
  match effective_reduce f e o.o_type.t_hier with
  | RRaise (r, ns) -> Err (EType (r, ns))
  | RPickle owner -> reduce_cython to_py hash owner o
  | _ -> Err EOther

(** val conv_in :
    (kind -> 'a1 -> 'a2 option) -> member -> 'a1 pv -> ('a1, 'a2) sval option **)

let conv_in from_py m p =
  match m.m_kind with
  | KObj -> Some (SObj p)
  | KC (conv, is_struct0, is_ptr) ->
    if is_ptr
    then (match p with
          | PAtom a ->
            (match from_py m.m_kind a with
             | Some _ -> Some SDangling
             | None -> None)
          | _ -> None)
    else (match p with
          | PAtom a ->
            (match from_py (KC (conv, is_struct0, false)) a with
             | Some c -> Some (SC c)
             | None -> None)
          | _ -> None)

(** val assign :
    (kind -> 'a1 -> 'a2 option) -> member list -> nat -> 'a1 pv list -> ('a1,
    'a2) obj -> ('a1, 'a2) obj res **)

let rec assign from_py ms i st o =
  match ms with
  | [] -> Ok o
  | m :: r ->
    (match nth_error st i with
     | Some p ->
       (match conv_in from_py m p with
        | Some v -> assign from_py r (S i) st (set_slot o m.m_name v)
        | None -> Err (EConv m.m_name))
     | None -> Err EIndex)

(** val truthy : ('a1 -> bool) -> 'a1 pv -> bool **)

let truthy atom_truth = function
| PNone -> false
| PAtom a -> atom_truth a
| PDict d -> (match d with
              | [] -> false
              | _ :: _ -> true)

(** val dict_has : ('a1 * 'a1) list -> ('a1 -> 'a1 -> bool) -> 'a1 -> bool **)

let dict_has d eqb0 k =
  existsb (fun kv -> eqb0 (fst kv) k) d

(** val dict_update :
    ('a1 -> 'a1 -> bool) -> ('a1 * 'a1) list -> ('a1 * 'a1) list ->
    ('a1 * 'a1) list **)

let dict_update atom_eqb d d2 =
  app d2 (filter (fun kv -> negb (dict_has d2 atom_eqb (fst kv))) d)

(** val update_dict :
    ('a1 -> bool) -> ('a1 -> 'a1 -> bool) -> ('a1, 'a2) obj -> 'a1 pv list ->
    nat -> ('a1, 'a2) obj res **)

let update_dict atom_truth atom_eqb o st n0 =
  if Nat.leb (length st) n0
  then Ok o
  else (match nth_error st n0 with
        | Some p ->
          if truthy atom_truth p
          then (match o.o_dict with
                | Some d ->
                  (match p with
                   | PDict d2 ->
                     Ok { o_type = o.o_type; o_slots = o.o_slots; o_dict =
                       (Some (dict_update atom_eqb d d2)) }
                   | _ -> Err EDictUpdate)
                | None -> Err ENoDict)
          else Ok o
        | None -> Ok o)

(** val set_state :
    (kind -> 'a1 -> 'a2 option) -> ('a1 -> bool) -> ('a1 -> 'a1 -> bool) ->
    hierarchy -> ('a1, 'a2) obj -> 'a1 pv list -> ('a1, 'a2) obj res **)

let set_state from_py atom_truth atom_eqb owner o st =
  let ms = all_members owner in
  (match assign from_py ms O st o with
   | Ok o1 -> update_dict atom_truth atom_eqb o1 st (length ms)
   | Err e -> Err e)

(** val unpickle :
    (kind -> 'a1 -> 'a2 option) -> 'a2 -> ('a1 -> bool) -> (nat -> name list
    -> z) -> ('a1 -> 'a1 -> bool) -> nat list -> flags -> hierarchy -> pytype
    -> z -> 'a1 pv list option -> ('a1, 'a2) obj res **)

let unpickle from_py czero atom_truth hash atom_eqb avail f owner t chk st =
  match accepted hash avail f (all_names owner) with
  | Some acc ->
    if existsb (Z.eqb chk) acc
    then (match st with
          | Some s ->
            set_state from_py atom_truth atom_eqb owner (new_obj czero t) s
          | None -> Ok (new_obj czero t))
    else Err EPickle
  | None -> Err EOther

(** val load :
    (kind -> 'a1 -> 'a2 option) -> 'a2 -> ('a1 -> bool) -> (nat -> name list
    -> z) -> ('a1 -> 'a1 -> bool) -> nat list -> flags -> modenv -> 'a1
    rvalue -> ('a1, 'a2) obj res **)

let load from_py czero atom_truth hash atom_eqb avail f e rv =
  match unpickle from_py czero atom_truth hash atom_eqb avail f rv.rv_owner
          rv.rv_type rv.rv_chk rv.rv_arg_state with
  | Ok o ->
    (match rv.rv_state with
     | Some st ->
       (match effective_setstate f e o.o_type.t_hier with
        | SSet owner -> set_state from_py atom_truth atom_eqb owner o st
        | _ -> Err EOther)
     | None -> Ok o)
  | Err er -> Err er

(** val load_into :
    (kind -> 'a1 -> 'a2 option) -> 'a2 -> ('a1 -> bool) -> (nat -> name list
    -> z) -> ('a1 -> 'a1 -> bool) -> nat list -> flags -> modenv -> hierarchy
    -> pytype -> 'a1 rvalue -> ('a1, 'a2) obj res **)

let load_into from_py czero atom_truth hash atom_eqb avail f e owner t rv =
  load from_py czero atom_truth hash atom_eqb avail f e { rv_owner = owner;
    rv_type = t; rv_chk = rv.rv_chk; rv_arg_state = rv.rv_arg_state;
    rv_state = rv.rv_state }
