
val xorb : bool -> bool -> bool

val negb : bool -> bool

type nat =
| O
| S of nat

val option_map : ('a1 -> 'a2) -> 'a1 option -> 'a2 option

val length : 'a1 list -> nat

val app : 'a1 list -> 'a1 list -> 'a1 list

val add : nat -> nat -> nat

val sub : nat -> nat -> nat

type positive =
| XI of positive
| XO of positive
| XH

type n =
| N0
| Npos of positive

type z =
| Z0
| Zpos of positive
| Zneg of positive

val eqb : bool -> bool -> bool

module Nat :
 sig
  val add : nat -> nat -> nat

  val eqb : nat -> nat -> bool

  val leb : nat -> nat -> bool

  val ltb : nat -> nat -> bool

  val even : nat -> bool
 end

val hd : 'a1 -> 'a1 list -> 'a1

val tl : 'a1 list -> 'a1 list

val nth : nat -> 'a1 list -> 'a1 -> 'a1

val map : ('a1 -> 'a2) -> 'a1 list -> 'a2 list

val flat_map : ('a1 -> 'a2 list) -> 'a1 list -> 'a2 list

val fold_right : ('a2 -> 'a1 -> 'a1) -> 'a1 -> 'a2 list -> 'a1

val existsb : ('a1 -> bool) -> 'a1 list -> bool

val forallb : ('a1 -> bool) -> 'a1 list -> bool

val filter : ('a1 -> bool) -> 'a1 list -> 'a1 list

val combine : 'a1 list -> 'a2 list -> ('a1 * 'a2) list

val seq : nat -> nat -> nat list

val ex_keep : (((((nat * n) * z) * z list) * z option) * positive) * bool

val index_of : nat -> nat list -> nat option

val memb : nat -> nat list -> bool

val nodupb : nat list -> bool

val inorder_prefix : nat -> nat -> nat list -> nat

val insert : nat -> nat list -> nat list

val isort : nat list -> nat list

val before_first : nat -> nat list -> nat list

type cmres =
| CMErr
| CMGap
| CMOk of nat list * nat list

val ooo_scan : nat -> nat list -> nat -> nat -> bool -> nat list option

val ccmap : bool -> bool -> nat -> nat -> nat list -> (nat -> bool) -> cmres

val slot_pos : nat -> nat list -> nat -> nat option

val ref_slots : nat -> nat list -> nat -> nat -> nat list

type op =
| OLog of nat
| OSeq of nat
| OIn of bool
| OGetItem
| OSetItem
| ODelItem
| OGetSlice
| OGetAttr of nat
| OSetAttr of nat
| ODelAttr of nat

type val0 =
| VNone
| VBool of bool
| VLeaf of nat * nat
| VItem of nat * val0
| VOp of op * val0 list

type event =
| EvLeaf of nat
| EvOp of op * val0 list
| EvBool of val0
| EvIter of val0

type sem = { leafsem : (nat -> nat -> val0 * event list);
             opsem : (op -> val0 list -> val0 * event list);
             truthsem : (val0 -> bool * event list);
             unpacksem : (nat -> val0 -> val0 list * event list) }

type expr =
| ELeaf of nat * nat
| EName of nat
| ENone
| EOp of op * expr list
| ENot of expr
| EAnd of expr * expr
| EOr of expr * expr
| ECond of expr * expr * expr
| ECmp of expr * op list * expr list
| EMCall of nat * op * expr * expr list
| EMinMax of op * expr list
| ECCall of op * nat * nat * expr * nat * nat list * expr list

type starget =
| TName of nat
| TStore of op * expr list

type target =
| TS of starget
| TTup of starget list

type stmt =
| SAssign of target list * expr
| SAug of expr * op * expr
| SDel of op * expr list

type res = { rv : val0; rk : bool option; rev : event list; rlf : nat list }

type mode =
| MVal
| MBool

val truth_of : sem -> val0 -> bool option -> bool * event list

val flat_ev : res list -> event list

val flat_lf : res list -> nat list

val eval : sem -> (nat -> val0) -> mode -> expr -> res

val evals : sem -> (nat -> val0) -> expr list -> res list

type sres = { svars : (nat -> val0); sev : event list; slf : nat list }

val upd : (nat -> val0) -> nat -> val0 -> nat -> val0

val ref_store1 : sem -> sres -> starget -> val0 -> sres

val ref_store_items : sem -> sres -> starget list -> val0 list -> sres

val ref_store : sem -> sres -> target -> val0 -> sres

val ref_stores : sem -> sres -> target list -> val0 -> sres

val ref_stmt : sem -> (nat -> val0) -> stmt -> sres

type operand =
| OTemp of nat
| OVar of nat
| ONoneC

type instr =
| ILeaf of nat * nat * nat
| IOp of nat * op * operand list
| IIsTrue of nat * operand
| INot of nat * nat
| IMove of nat * operand
| IStore of nat * operand
| IUnpack of nat * nat * operand
| ILabel of nat
| IGoto of nat
| IJumpIf of nat * bool * nat

type state = { temps : (nat -> val0); mvars : (nat -> val0);
               trace : event list; leaflog : nat list }

type rmode =
| Normal
| Skip of nat

val getop : state -> operand -> val0

val set_temp : state -> nat -> val0 -> event list -> state

val set_temps : (nat -> val0) -> nat -> val0 list -> nat -> nat -> val0

val cbool : val0 -> bool

val step : sem -> instr -> state -> state * rmode

val run : sem -> instr list -> state -> rmode -> state * rmode

type flags = { fx_minmax : bool; fx_mcall : bool; fx_inplace : bool;
               fx_cascade : bool; fx_ccsimple : bool; fx_cckeep : bool;
               fx_ccrecv : bool; cc_sorted : bool }

type ctx =
| CVal
| CBool
| CThread of mode * nat * nat option * nat option * nat

val mode_of : ctx -> mode

type gres = (instr list * operand) * nat

val thread_tail :
  mode -> nat -> nat option -> nat option -> nat -> operand -> nat -> instr
  list * nat

val finish : ctx -> gres -> gres

val finish_bool : ctx -> instr list -> nat -> nat -> gres

val bsimple : expr -> bool

val tsimple : expr -> bool

val csimple : flags -> expr -> bool

val gen_sel :
  (nat -> gres) list -> nat list -> nat -> (instr list * operand list) * nat

val lookup : nat -> (nat * operand) list -> operand

val ccall_code :
  flags -> ctx -> op -> nat -> nat -> (nat -> gres) -> nat -> nat list ->
  (nat -> bool) -> (nat -> gres) list -> nat -> gres

val ccall_rejected :
  flags -> nat -> nat -> nat -> nat list -> (nat -> bool) -> bool

val gen : flags -> ctx -> expr -> nat -> gres

val gens : flags -> expr list -> nat -> (instr list * operand list) * nat

val gen_store1 : flags -> starget -> operand -> nat -> instr list * nat

val gen_store_items : flags -> starget list -> nat -> nat -> instr list * nat

val gen_store : flags -> target -> operand -> nat -> instr list * nat

val gen_stores : flags -> target list -> operand -> nat -> instr list * nat

val is_tup : target -> bool

val plain_targets : target list -> starget list

val tuple_targets : target list -> starget list list

val gen_store_same :
  flags -> starget list -> operand -> nat -> instr list * nat

val gen_columns :
  flags -> starget list list -> operand list -> nat -> instr list * nat

val to_temps : operand list -> nat -> (instr list * operand list) * nat

val display_items : expr -> (op * expr list) option

val flattens : target list -> expr -> (op * expr list) option

type rexpr =
| RVar of nat
| RTemp of nat
| RAttr of nat * rexpr
| RSub of rexpr * rexpr

val gen_rexpr : rexpr -> nat -> (instr list * operand) * nat

val let_temp : flags -> expr -> nat -> (instr list * rexpr) * nat

val sefr : flags -> bool -> expr -> nat -> (instr list * rexpr) * nat

val gen_stmt : flags -> stmt -> nat -> instr list * nat

val rejected : flags -> expr -> bool

val vtruth : val0 -> bool

val is_logging : val0 -> bool

val std_truth : val0 -> bool * event list

val std_op : op -> val0 list -> val0 * event list

val items_from : val0 -> nat -> nat -> val0 list

val std_unpack : nat -> val0 -> val0 list * event list

val std_sem : sem

val init_vars : nat -> val0

val init_state : state

val run_stmt : flags -> stmt -> state * rmode

val ref_run : stmt -> sres

val mk_flags8 :
  bool -> bool -> bool -> bool -> bool -> bool -> bool -> bool -> flags

val mk_flags : bool -> bool -> bool -> bool -> flags

val starget_rejected : flags -> starget -> bool

val stmt_rejected : flags -> stmt -> bool
