
val negb : bool -> bool

type nat =
| O
| S of nat

val fst : ('a1 * 'a2) -> 'a1

val snd : ('a1 * 'a2) -> 'a2

val length : 'a1 list -> nat

val app : 'a1 list -> 'a1 list -> 'a1 list

type comparison =
| Eq
| Lt
| Gt

val sub : nat -> nat -> nat

type positive =
| XI of positive
| XO of positive
| XH

type n =
| N0
| Npos of positive

type z =
| Z0
| Zpos of positive
| Zneg of positive

val eqb : bool -> bool -> bool

module Nat :
 sig
  val leb : nat -> nat -> bool

  val ltb : nat -> nat -> bool
 end

module Pos :
 sig
  type mask =
  | IsNul
  | IsPos of positive
  | IsNeg
 end

module Coq_Pos :
 sig
  val succ : positive -> positive

  val add : positive -> positive -> positive

  val add_carry : positive -> positive -> positive

  val pred_double : positive -> positive

  type mask = Pos.mask =
  | IsNul
  | IsPos of positive
  | IsNeg

  val succ_double_mask : mask -> mask

  val double_mask : mask -> mask

  val double_pred_mask : positive -> mask

  val sub_mask : positive -> positive -> mask

  val sub_mask_carry : positive -> positive -> mask

  val mul : positive -> positive -> positive

  val compare_cont : comparison -> positive -> positive -> comparison

  val compare : positive -> positive -> comparison

  val eqb : positive -> positive -> bool
 end

module N :
 sig
  val add : n -> n -> n

  val sub : n -> n -> n

  val compare : n -> n -> comparison

  val eqb : n -> n -> bool

  val leb : n -> n -> bool

  val ltb : n -> n -> bool
 end

module Z :
 sig
  val double : z -> z

  val succ_double : z -> z

  val pred_double : z -> z

  val pos_sub : positive -> positive -> z

  val add : z -> z -> z

  val opp : z -> z

  val mul : z -> z -> z

  val eqb : z -> z -> bool

  val of_N : n -> z
 end

val rev : 'a1 list -> 'a1 list

val concat : 'a1 list list -> 'a1 list

val map : ('a1 -> 'a2) -> 'a1 list -> 'a2 list

val fold_left : ('a1 -> 'a2 -> 'a1) -> 'a2 list -> 'a1 -> 'a1

val existsb : ('a1 -> bool) -> 'a1 list -> bool

val forallb : ('a1 -> bool) -> 'a1 list -> bool

val filter : ('a1 -> bool) -> 'a1 list -> 'a1 list

val firstn : nat -> 'a1 list -> 'a1 list

val ex_keep : (((((nat * n) * z) * z list) * z option) * positive) * bool

type str = n list

val str_eqb : str -> str -> bool

val mem : str -> str list -> bool

val py_isspace : n -> bool

val lstrip : str -> str

val strip : str -> str

val split_on : n -> str -> str list

val cut_at : n -> str -> (str * str) option

val lower_char : n -> n

val lower : str -> str

val starts_with : str -> str -> bool

val ends_with : str -> str -> bool

val drop_last : nat -> str -> str

val to_ascii : (n -> n option) -> n -> n

val c_isspace : n -> bool

val c_lstrip : str -> str

val c_strip : str -> str

val is_digit : n -> bool

val all_digits : str -> bool

val horner : str -> z

val max_str_digits : nat

val py_int : (n -> n option) -> str -> z option

type value =
| VBool of bool
| VInt of z
| VStr of str
| VNone
| VList of str list

val strs_eqb : str list -> str list -> bool

val value_eqb : value -> value -> bool

type dtype =
| TBool
| TInt
| TStr
| TList
| TEnum of str list * (str * str) list
| TEncoding
| TCallCrash
| TDefer
| TNoValue

type perr =
| EBadBool
| EBadInt
| EBadEnum
| ETypeError
| EAssertion
| EAttribute
| EExpectedEq
| EUnknown
| ENotSettable
| ECodec

type 'a res =
| Ok of 'a
| Err of perr * str

type dict = (str * value) list

val get : str -> dict -> value option

val set : str -> value -> dict -> dict

val pop : str -> dict -> dict

val update : dict -> dict -> dict

val assoc : str -> (str * str) list -> str option

val lookup_type : str -> (str * dtype) list -> dtype option

val w_true : n list

val w_false : n list

val w_ltrue : n list

val w_yes : n list

val w_lfalse : n list

val w_no : n list

val parse_bool : bool -> str -> str -> value res

val parse_enum : str list -> (str * str) list -> str -> str -> value res

val common_encoding_names : (str * str) list

val normalise_encoding_name : (str -> n) -> str -> str

val encoding_lookup_raises : (str -> n) -> str -> bool

val parse_directive_value :
  (str * dtype) list -> (n -> n option) -> (str -> n) -> bool -> str -> str
  -> value res

val settable : (str * dtype) list -> str -> bool

val expand_all :
  (str * dtype) list -> (n -> n option) -> (str -> n) -> bool -> bool -> str
  -> str -> str list -> bool -> dict -> (bool * dict) res

val is_list_type : (str * dtype) list -> str -> bool

val parse_item :
  (str * dtype) list -> str list -> (n -> n option) -> (str -> n) -> bool ->
  bool -> bool -> dict -> str -> dict res

val parse_items :
  (str * dtype) list -> str list -> (n -> n option) -> (str -> n) -> bool ->
  bool -> bool -> dict -> str list -> dict res

val parse_directive_list :
  (str * dtype) list -> str list -> (n -> n option) -> (str -> n) -> bool ->
  bool -> bool -> dict -> str -> dict res

type kind =
| KFunc
| KClass
| KCClass
| KWith
| KProbe

type tree =
| Node of kind * (str * value) list * tree list

val scope_name : kind -> str

val lookup_scopes : str -> (str * str list) list -> str list option

type atree =
| ANode of kind * dict * dict * atree list
| AProbe of dict

val scope_ok : (str * str list) list -> str -> str -> bool

val copy_inherited : str list -> dict -> dict -> dict

val dict_incl : dict -> dict -> bool

val dict_eqb : dict -> dict -> bool

val extract_loop :
  (str * str list) list -> str -> (str * value) list -> dict -> (str * value)
  list -> (str * str) list -> (str * value) list * (str * str) list

val merge_one : dict -> (str * value) -> dict

val extract_directives :
  (str * str list) list -> str list -> dict -> str -> (str * value) list ->
  (dict * dict) * (str * str) list

val with_dict :
  (str * str list) list -> (str * value) list -> dict -> (str * str) list ->
  dict * (str * str) list

val enter :
  (str * str list) list -> str list -> str list -> dict -> kind ->
  (str * value) list -> (dict * dict) option * (str * str) list

val visit :
  (str * str list) list -> str list -> str list -> dict -> tree ->
  (atree * dict) * (str * str) list

val visit_list :
  (str * str list) list -> str list -> str list -> dict -> tree list ->
  (atree list * dict) * (str * str) list

val header_split : (str * str list) list -> dict -> dict * (str * str) list

val module_dict :
  (str * str list) list -> dict -> dict -> dict -> dict * (str * str) list

val visit_module :
  (str * str list) list -> str list -> str list -> dict -> dict -> dict ->
  tree list -> ((dict * atree list) * dict) * (str * str) list

val digit_from_zeros : n list -> n -> n option

val codec_from_table : (str * n) list -> str -> n

val doc_immediate : str list

val doc_behaviour : str list

val doc_scopes : (str * str list) list

val doc_scope_ok : str -> str -> bool

val g_defaults : dict

val g_types : (str * dtype) list

val g_scopes : (str * str list) list

val g_immediate : str list

val g_non_inherited : str list

val g_nd_zeros : n list

val g_digit : n -> n option

val g_names : str list

val g_py_int : str -> z option

val g_parse_value : (str * n) list -> bool -> str -> str -> value res

val g_parse_list :
  bool -> (str * n) list -> bool -> bool -> dict -> str -> dict res

val g_scope_ok : str -> str -> bool

val g_visit_module :
  dict -> dict -> tree list -> ((dict * atree list) * dict) * (str * str) list
