
val negb : bool -> bool

type nat =
| O
| S of nat

val snd : ('a1 * 'a2) -> 'a2

val length : 'a1 list -> nat

val app : 'a1 list -> 'a1 list -> 'a1 list

type comparison =
| Eq
| Lt
| Gt

val compOpp : comparison -> comparison

val add : nat -> nat -> nat

val sub : nat -> nat -> nat

type positive =
| XI of positive
| XO of positive
| XH

type n =
| N0
| Npos of positive

type z =
| Z0
| Zpos of positive
| Zneg of positive

val eqb : bool -> bool -> bool

module Nat :
 sig
  val eqb : nat -> nat -> bool
 end

module Pos :
 sig
  val succ : positive -> positive

  val add : positive -> positive -> positive

  val add_carry : positive -> positive -> positive

  val pred_double : positive -> positive

  val mul : positive -> positive -> positive

  val iter : ('a1 -> 'a1) -> 'a1 -> positive -> 'a1

  val div2 : positive -> positive

  val div2_up : positive -> positive

  val compare_cont : comparison -> positive -> positive -> comparison

  val compare : positive -> positive -> comparison

  val eqb : positive -> positive -> bool

  val iter_op : ('a1 -> 'a1 -> 'a1) -> positive -> 'a1 -> 'a1

  val to_nat : positive -> nat

  val of_succ_nat : nat -> positive
 end

module Z :
 sig
  val double : z -> z

  val succ_double : z -> z

  val pred_double : z -> z

  val pos_sub : positive -> positive -> z

  val add : z -> z -> z

  val opp : z -> z

  val sub : z -> z -> z

  val mul : z -> z -> z

  val pow_pos : z -> positive -> z

  val pow : z -> z -> z

  val compare : z -> z -> comparison

  val leb : z -> z -> bool

  val ltb : z -> z -> bool

  val eqb : z -> z -> bool

  val abs : z -> z

  val to_nat : z -> nat

  val of_nat : nat -> z

  val pos_div_eucl : positive -> z -> z * z

  val div_eucl : z -> z -> z * z

  val modulo : z -> z -> z

  val div2 : z -> z

  val shiftl : z -> z -> z

  val shiftr : z -> z -> z
 end

val nth : nat -> 'a1 list -> 'a1 -> 'a1

val nth_error : 'a1 list -> nat -> 'a1 option

val filter : ('a1 -> bool) -> 'a1 list -> 'a1 list

val find : ('a1 -> bool) -> 'a1 list -> 'a1 option

val firstn : nat -> 'a1 list -> 'a1 list

val skipn : nat -> 'a1 list -> 'a1 list

val seq : nat -> nat -> nat list

val ex_keep : (((((nat * n) * z) * z list) * z option) * positive) * bool

val min_int : z -> bool -> z

val max_int : z -> bool -> z

val in_rangeb : z -> bool -> z -> bool

val wrap : z -> bool -> z -> z

type exc =
| IndexError
| KeyError
| TypeError
| ValueError
| OverflowError
| CmpError

type 'a res =
| Ok of 'a
| Raise of exc
| UB

val zlen : 'a1 list -> z

val ssize_max : z

val ssize_min : z

val fits_ssize : z -> bool

val sadd : z -> z -> z option

val sub_at : 'a1 list -> z -> z -> 'a1 list

val zlist_eqb : z list -> z list -> bool

val py_list_pop : 'a1 list -> z -> ('a1 * 'a1 list) res

val is_valid_index : z -> z -> bool

val pyx_list_popindex : 'a1 list -> z -> z -> ('a1 * 'a1 list) res

val pyx_list_popindex_macro : 'a1 list -> z -> z -> ('a1 * 'a1 list) res

val pyx_list_pop : 'a1 list -> z -> ('a1 * 'a1 list) res

val py_slice_adjust : z -> z -> z -> z * z

val is_prefix : z list -> z list -> bool

val is_suffix : z list -> z list -> bool

val py_tailmatch : z list -> z list -> z -> z -> z -> bool

val memcmp_eq : z list -> z list -> z -> bool res

val pyx_bytes_single : bool -> z list -> z list -> z -> z -> z -> bool res

val pyx_tuple_loop : ('a1 -> bool res) -> 'a1 list -> bool res

val is_ok_false : bool res -> bool

val py_tuple_match : ('a1 -> bool res) -> 'a1 list -> bool res

val pyx_decode_c_bytes_range : z -> z -> z -> (z * z) option

val pyx_substring_range : z -> z -> z -> (z * z) option

val pyx_decode_c_string_range : z -> z -> z -> (z * z) option

val py_slice_range : z -> z -> z -> (z * z) option

val pyx_abs_c : z -> bool -> z -> z res

val py_abs_c : z -> z -> z res

type pyobj =
| OStr of z list
| OBytes of z list
| OByteArray of z list
| OOther

val pyx_ord : bool -> pyobj -> z res

val seq_of : pyobj -> z list option

val py_ord : pyobj -> z res

val pyx_chr : z -> z res

val py_chr : z -> z res

type key =
| KInt of z
| KUnhashable

type dict = (z * z) list

val lookup : dict -> z -> z option

val remove : dict -> z -> dict

val pyDict_GetItemWithError : dict -> key -> z option res

val pyDict_Pop_313 : dict -> key -> (z option * dict) res

val pyDict_SetDefault : dict -> key -> z -> (z * dict) res

val py_dict_get : dict -> key -> z -> z res

val py_dict_pop : dict -> key -> z option -> (z * dict) res

val py_dict_setdefault : dict -> key -> z -> (z * dict) res

val pyx_dict_get : dict -> key -> z -> z res

val pyx_dict_pop_313 : dict -> key -> z option -> (z * dict) res

val pyx_dict_pop_ignore : dict -> key -> dict res

val pyx_dict_setdefault : dict -> key -> z -> (z * dict) res

type expr =
| EArg of nat
| ERef of nat
| ECond of expr * expr * expr * expr
| ELet of nat * expr * expr

val build_chain : nat list -> nat -> expr -> expr

val wrap_lets : nat list -> expr -> expr

val build_minmax : nat -> expr

type trace = (z * z) list

val upd : (nat -> z) -> nat -> z -> nat -> z

val eval :
  (z -> z -> bool option) -> (nat -> z) -> expr -> (nat -> z) -> z res * trace

val py_scan : (z -> z -> bool option) -> z -> z list -> z res * trace

val nth_arg : z list -> nat -> z

val pyx_minmax : (z -> z -> bool option) -> z list -> z res * trace

val py_minmax : (z -> z -> bool option) -> z list -> z res * trace

val pyx_anyall :
  (z -> bool option) -> (z -> bool option) -> bool -> z list -> bool res * z
  list

val item_outcome :
  (z -> bool option) -> (z -> bool option) -> z -> bool res option

val decides : (z -> bool option) -> (z -> bool option) -> bool -> z -> bool

val take_until : ('a1 -> bool) -> 'a1 list -> 'a1 list

val pred_evaluated : (z -> bool option) -> z -> bool

val py_anyall :
  (z -> bool option) -> (z -> bool option) -> bool -> z list -> bool res * z
  list
