
(** val negb : bool -> bool **)

let negb = function
| true -> false
| false -> true

type nat =
| O
| S of nat

(** val snd : ('a1 * 'a2) -> 'a2 **)

let snd = function
| (_, y) -> y

(** val length : 'a1 list -> nat **)

let rec length = function
| [] -> O
| _ :: l' -> S (length l')

(** val app : 'a1 list -> 'a1 list -> 'a1 list **)

let rec app l m =
  match l with
  | [] -> m
  | a :: l1 -> a :: (app l1 m)

type comparison =
| Eq
| Lt
| Gt

(** val compOpp : comparison -> comparison **)

let compOpp = function
| Eq -> Eq
| Lt -> Gt
| Gt -> Lt

module Coq__1 = struct
 (** val add : nat -> nat -> nat **)
 let rec add n0 m =
   match n0 with
   | O -> m
   | S p -> S (add p m)
end
include Coq__1

(** val sub : nat -> nat -> nat **)

let rec sub n0 m =
  match n0 with
  | O -> n0
  | S k -> (match m with
            | O -> n0
            | S l -> sub k l)

type positive =
| XI of positive
| XO of positive
| XH

type n =
| N0
| Npos of positive

type z =
| Z0
| Zpos of positive
| Zneg of positive

(** val eqb : bool -> bool -> bool **)

let eqb b1 b2 =
  if b1 then b2 else if b2 then false else true

module Nat =
 struct
  (** val eqb : nat -> nat -> bool **)

  let rec eqb n0 m =
    match n0 with
    | O -> (match m with
            | O -> true
            | S _ -> false)
    | S n' -> (match m with
               | O -> false
               | S m' -> eqb n' m')
 end

module Pos =
 struct
  (** val succ : positive -> positive **)

  let rec succ = function
  | XI p -> XO (succ p)
  | XO p -> XI p
  | XH -> XO XH

  (** val add : positive -> positive -> positive **)

  let rec add x y =
    match x with
    | XI p ->
      (match y with
       | XI q -> XO (add_carry p q)
       | XO q -> XI (add p q)
       | XH -> XO (succ p))
    | XO p ->
      (match y with
       | XI q -> XI (add p q)
       | XO q -> XO (add p q)
       | XH -> XI p)
    | XH -> (match y with
             | XI q -> XO (succ q)
             | XO q -> XI q
             | XH -> XO XH)

  (** val add_carry : positive -> positive -> positive **)

  and add_carry x y =
    match x with
    | XI p ->
      (match y with
       | XI q -> XI (add_carry p q)
       | XO q -> XO (add_carry p q)
       | XH -> XI (succ p))
    | XO p ->
      (match y with
       | XI q -> XO (add_carry p q)
       | XO q -> XI (add p q)
       | XH -> XO (succ p))
    | XH ->
      (match y with
       | XI q -> XI (succ q)
       | XO q -> XO (succ q)
       | XH -> XI XH)

  (** val pred_double : positive -> positive **)

  let rec pred_double = function
  | XI p -> XI (XO p)
  | XO p -> XI (pred_double p)
  | XH -> XH

  (** val mul : positive -> positive -> positive **)

  let rec mul x y =
    match x with
    | XI p -> add y (XO (mul p y))
    | XO p -> XO (mul p y)
    | XH -> y

  (** val iter : ('a1 -> 'a1) -> 'a1 -> positive -> 'a1 **)

  let rec iter f x = function
  | XI n' -> f (iter f (iter f x n') n')
  | XO n' -> iter f (iter f x n') n'
  | XH -> f x

  (** val div2 : positive -> positive **)

  let div2 = function
  | XI p0 -> p0
  | XO p0 -> p0
  | XH -> XH

  (** val div2_up : positive -> positive **)

  let div2_up = function
  | XI p0 -> succ p0
  | XO p0 -> p0
  | XH -> XH

  (** val compare_cont : comparison -> positive -> positive -> comparison **)

  let rec compare_cont r x y =
    match x with
    | XI p ->
      (match y with
       | XI q -> compare_cont r p q
       | XO q -> compare_cont Gt p q
       | XH -> Gt)
    | XO p ->
      (match y with
       | XI q -> compare_cont Lt p q
       | XO q -> compare_cont r p q
       | XH -> Gt)
    | XH -> (match y with
             | XH -> r
             | _ -> Lt)

  (** val compare : positive -> positive -> comparison **)

  let compare =
    compare_cont Eq

  (** val eqb : positive -> positive -> bool **)

  let rec eqb p q =
    match p with
    | XI p0 -> (match q with
                | XI q0 -> eqb p0 q0
                | _ -> false)
    | XO p0 -> (match q with
                | XO q0 -> eqb p0 q0
                | _ -> false)
    | XH -> (match q with
             | XH -> true
             | _ -> false)

  (** val iter_op : ('a1 -> 'a1 -> 'a1) -> positive -> 'a1 -> 'a1 **)

  let rec iter_op op p a =
    match p with
    | XI p0 -> op a (iter_op op p0 (op a a))
    | XO p0 -> iter_op op p0 (op a a)
    | XH -> a

  (** val to_nat : positive -> nat **)

  let to_nat x =
    iter_op Coq__1.add x (S O)

  (** val of_succ_nat : nat -> positive **)

  let rec of_succ_nat = function
  | O -> XH
  | S x -> succ (of_succ_nat x)
 end

module Z =
 struct
  (** val double : z -> z **)

  let double = function
  | Z0 -> Z0
  | Zpos p -> Zpos (XO p)
  | Zneg p -> Zneg (XO p)

  (** val succ_double : z -> z **)

  let succ_double = function
  | Z0 -> Zpos XH
  | Zpos p -> Zpos (XI p)
  | Zneg p -> Zneg (Pos.pred_double p)

  (** val pred_double : z -> z **)

  let pred_double = function
  | Z0 -> Zneg XH
  | Zpos p -> Zpos (Pos.pred_double p)
  | Zneg p -> Zneg (XI p)

  (** val pos_sub : positive -> positive -> z **)

  let rec pos_sub x y =
    match x with
    | XI p ->
      (match y with
       | XI q -> double (pos_sub p q)
       | XO q -> succ_double (pos_sub p q)
       | XH -> Zpos (XO p))
    | XO p ->
      (match y with
       | XI q -> pred_double (pos_sub p q)
       | XO q -> double (pos_sub p q)
       | XH -> Zpos (Pos.pred_double p))
    | XH ->
      (match y with
       | XI q -> Zneg (XO q)
       | XO q -> Zneg (Pos.pred_double q)
       | XH -> Z0)

  (** val add : z -> z -> z **)

  let add x y =
    match x with
    | Z0 -> y
    | Zpos x' ->
      (match y with
       | Z0 -> x
       | Zpos y' -> Zpos (Pos.add x' y')
       | Zneg y' -> pos_sub x' y')
    | Zneg x' ->
      (match y with
       | Z0 -> x
       | Zpos y' -> pos_sub y' x'
       | Zneg y' -> Zneg (Pos.add x' y'))

  (** val opp : z -> z **)

  let opp = function
  | Z0 -> Z0
  | Zpos x0 -> Zneg x0
  | Zneg x0 -> Zpos x0

  (** val sub : z -> z -> z **)

  let sub m n0 =
    add m (opp n0)

  (** val mul : z -> z -> z **)

  let mul x y =
    match x with
    | Z0 -> Z0
    | Zpos x' ->
      (match y with
       | Z0 -> Z0
       | Zpos y' -> Zpos (Pos.mul x' y')
       | Zneg y' -> Zneg (Pos.mul x' y'))
    | Zneg x' ->
      (match y with
       | Z0 -> Z0
       | Zpos y' -> Zneg (Pos.mul x' y')
       | Zneg y' -> Zpos (Pos.mul x' y'))

  (** val pow_pos : z -> positive -> z **)

  let pow_pos z0 =
    Pos.iter (mul z0) (Zpos XH)

  (** val pow : z -> z -> z **)

  let pow x = function
  | Z0 -> Zpos XH
  | Zpos p -> pow_pos x p
  | Zneg _ -> Z0

  (** val compare : z -> z -> comparison **)

  let compare x y =
    match x with
    | Z0 -> (match y with
             | Z0 -> Eq
             | Zpos _ -> Lt
             | Zneg _ -> Gt)
    | Zpos x' -> (match y with
                  | Zpos y' -> Pos.compare x' y'
                  | _ -> Gt)
    | Zneg x' ->
      (match y with
       | Zneg y' -> compOpp (Pos.compare x' y')
       | _ -> Lt)

  (** val leb : z -> z -> bool **)

  let leb x y =
    match compare x y with
    | Gt -> false
    | _ -> true

  (** val ltb : z -> z -> bool **)

  let ltb x y =
    match compare x y with
    | Lt -> true
    | _ -> false

  (** val eqb : z -> z -> bool **)

  let eqb x y =
    match x with
    | Z0 -> (match y with
             | Z0 -> true
             | _ -> false)
    | Zpos p -> (match y with
                 | Zpos q -> Pos.eqb p q
                 | _ -> false)
    | Zneg p -> (match y with
                 | Zneg q -> Pos.eqb p q
                 | _ -> false)

  (** val abs : z -> z **)

  let abs = function
  | Zneg p -> Zpos p
  | x -> x

  (** val to_nat : z -> nat **)

  let to_nat = function
  | Zpos p -> Pos.to_nat p
  | _ -> O

  (** val of_nat : nat -> z **)

  let of_nat = function
  | O -> Z0
  | S n1 -> Zpos (Pos.of_succ_nat n1)

  (** val pos_div_eucl : positive -> z -> z * z **)

  let rec pos_div_eucl a b =
    match a with
    | XI a' ->
      let (q, r) = pos_div_eucl a' b in
      let r' = add (mul (Zpos (XO XH)) r) (Zpos XH) in
      if ltb r' b
      then ((mul (Zpos (XO XH)) q), r')
      else ((add (mul (Zpos (XO XH)) q) (Zpos XH)), (sub r' b))
    | XO a' ->
      let (q, r) = pos_div_eucl a' b in
      let r' = mul (Zpos (XO XH)) r in
      if ltb r' b
      then ((mul (Zpos (XO XH)) q), r')
      else ((add (mul (Zpos (XO XH)) q) (Zpos XH)), (sub r' b))
    | XH -> if leb (Zpos (XO XH)) b then (Z0, (Zpos XH)) else ((Zpos XH), Z0)

  (** val div_eucl : z -> z -> z * z **)

  let div_eucl a b =
    match a with
    | Z0 -> (Z0, Z0)
    | Zpos a' ->
      (match b with
       | Z0 -> (Z0, a)
       | Zpos _ -> pos_div_eucl a' b
       | Zneg b' ->
         let (q, r) = pos_div_eucl a' (Zpos b') in
         (match r with
          | Z0 -> ((opp q), Z0)
          | _ -> ((opp (add q (Zpos XH))), (add b r))))
    | Zneg a' ->
      (match b with
       | Z0 -> (Z0, a)
       | Zpos _ ->
         let (q, r) = pos_div_eucl a' b in
         (match r with
          | Z0 -> ((opp q), Z0)
          | _ -> ((opp (add q (Zpos XH))), (sub b r)))
       | Zneg b' -> let (q, r) = pos_div_eucl a' (Zpos b') in (q, (opp r)))

  (** val modulo : z -> z -> z **)

  let modulo a b =
    let (_, r) = div_eucl a b in r

  (** val div2 : z -> z **)

  let div2 = function
  | Z0 -> Z0
  | Zpos p -> (match p with
               | XH -> Z0
               | _ -> Zpos (Pos.div2 p))
  | Zneg p -> Zneg (Pos.div2_up p)

  (** val shiftl : z -> z -> z **)

  let shiftl a = function
  | Z0 -> a
  | Zpos p -> Pos.iter (mul (Zpos (XO XH))) a p
  | Zneg p -> Pos.iter div2 a p

  (** val shiftr : z -> z -> z **)

  let shiftr a n0 =
    shiftl a (opp n0)
 end

(** val nth : nat -> 'a1 list -> 'a1 -> 'a1 **)

let rec nth n0 l default =
  match n0 with
  | O -> (match l with
          | [] -> default
          | x :: _ -> x)
  | S m -> (match l with
            | [] -> default
            | _ :: t -> nth m t default)

(** val nth_error : 'a1 list -> nat -> 'a1 option **)

let rec nth_error l = function
| O -> (match l with
        | [] -> None
        | x :: _ -> Some x)
| S n1 -> (match l with
           | [] -> None
           | _ :: l0 -> nth_error l0 n1)

(** val filter : ('a1 -> bool) -> 'a1 list -> 'a1 list **)

let rec filter f = function
| [] -> []
| x :: l0 -> if f x then x :: (filter f l0) else filter f l0

(** val find : ('a1 -> bool) -> 'a1 list -> 'a1 option **)

let rec find f = function
| [] -> None
| x :: tl -> if f x then Some x else find f tl

(** val firstn : nat -> 'a1 list -> 'a1 list **)

let rec firstn n0 l =
  match n0 with
  | O -> []
  | S n1 -> (match l with
             | [] -> []
             | a :: l0 -> a :: (firstn n1 l0))

(** val skipn : nat -> 'a1 list -> 'a1 list **)

let rec skipn n0 l =
  match n0 with
  | O -> l
  | S n1 -> (match l with
             | [] -> []
             | _ :: l0 -> skipn n1 l0)

(** val seq : nat -> nat -> nat list **)

let rec seq start = function
| O -> []
| S len0 -> start :: (seq (S start) len0)

(** val ex_keep :
    (((((nat * n) * z) * z list) * z option) * positive) * bool **)

let ex_keep =
  ((((((O, N0), Z0), []), None), XH), true)

(** val min_int : z -> bool -> z **)

let min_int w = function
| true -> Z.opp (Z.pow (Zpos (XO XH)) (Z.sub w (Zpos XH)))
| false -> Z0

(** val max_int : z -> bool -> z **)

let max_int w = function
| true -> Z.sub (Z.pow (Zpos (XO XH)) (Z.sub w (Zpos XH))) (Zpos XH)
| false -> Z.sub (Z.pow (Zpos (XO XH)) w) (Zpos XH)

(** val in_rangeb : z -> bool -> z -> bool **)

let in_rangeb w s v =
  (&&) (Z.leb (min_int w s) v) (Z.leb v (max_int w s))

(** val wrap : z -> bool -> z -> z **)

let wrap w s v =
  if s
  then Z.sub
         (Z.modulo (Z.add v (Z.pow (Zpos (XO XH)) (Z.sub w (Zpos XH))))
           (Z.pow (Zpos (XO XH)) w))
         (Z.pow (Zpos (XO XH)) (Z.sub w (Zpos XH)))
  else Z.modulo v (Z.pow (Zpos (XO XH)) w)

type exc =
| IndexError
| KeyError
| TypeError
| ValueError
| OverflowError
| CmpError

type 'a res =
| Ok of 'a
| Raise of exc
| UB

(** val zlen : 'a1 list -> z **)

let zlen l =
  Z.of_nat (length l)

(** val ssize_max : z **)

let ssize_max =
  Zpos (XI (XI (XI (XI (XI (XI (XI (XI (XI (XI (XI (XI (XI (XI (XI (XI (XI
    (XI (XI (XI (XI (XI (XI (XI (XI (XI (XI (XI (XI (XI (XI (XI (XI (XI (XI
    (XI (XI (XI (XI (XI (XI (XI (XI (XI (XI (XI (XI (XI (XI (XI (XI (XI (XI
    (XI (XI (XI (XI (XI (XI (XI (XI (XI
    XH))))))))))))))))))))))))))))))))))))))))))))))))))))))))))))))

(** val ssize_min : z **)

let ssize_min =
  Zneg (XO (XO (XO (XO (XO (XO (XO (XO (XO (XO (XO (XO (XO (XO (XO (XO (XO
    (XO (XO (XO (XO (XO (XO (XO (XO (XO (XO (XO (XO (XO (XO (XO (XO (XO (XO
    (XO (XO (XO (XO (XO (XO (XO (XO (XO (XO (XO (XO (XO (XO (XO (XO (XO (XO
    (XO (XO (XO (XO (XO (XO (XO (XO (XO (XO
    XH)))))))))))))))))))))))))))))))))))))))))))))))))))))))))))))))

(** val fits_ssize : z -> bool **)

let fits_ssize v =
  (&&) (Z.leb ssize_min v) (Z.leb v ssize_max)

(** val sadd : z -> z -> z option **)

let sadd a b =
  if fits_ssize (Z.add a b) then Some (Z.add a b) else None

(** val sub_at : 'a1 list -> z -> z -> 'a1 list **)

let sub_at l pos n0 =
  firstn (Z.to_nat n0) (skipn (Z.to_nat pos) l)

(** val zlist_eqb : z list -> z list -> bool **)

let rec zlist_eqb a b =
  match a with
  | [] -> (match b with
           | [] -> true
           | _ :: _ -> false)
  | x :: a' ->
    (match b with
     | [] -> false
     | y :: b' -> (&&) (Z.eqb x y) (zlist_eqb a' b'))

(** val py_list_pop : 'a1 list -> z -> ('a1 * 'a1 list) res **)

let py_list_pop l i =
  let n0 = zlen l in
  let j = if Z.ltb i Z0 then Z.add i n0 else i in
  if (||) (Z.ltb j Z0) (Z.leb n0 j)
  then Raise IndexError
  else (match nth_error l (Z.to_nat j) with
        | Some v ->
          Ok (v, (app (firstn (Z.to_nat j) l) (skipn (S (Z.to_nat j)) l)))
        | None -> UB)

(** val is_valid_index : z -> z -> bool **)

let is_valid_index i limit =
  Z.ltb (wrap (Zpos (XO (XO (XO (XO (XO (XO XH))))))) false i)
    (wrap (Zpos (XO (XO (XO (XO (XO (XO XH))))))) false limit)

(** val pyx_list_popindex : 'a1 list -> z -> z -> ('a1 * 'a1 list) res **)

let pyx_list_popindex l alloc ix =
  let size = zlen l in
  if Z.ltb (Z.shiftr alloc (Zpos XH)) size
  then (match if Z.ltb ix Z0 then sadd ix size else Some ix with
        | Some cix ->
          if is_valid_index cix size
          then (match nth_error l (Z.to_nat cix) with
                | Some v ->
                  if Z.ltb (Z.sub (Z.sub size (Zpos XH)) cix) Z0
                  then UB
                  else Ok (v,
                         (app (firstn (Z.to_nat cix) l)
                           (sub_at l (Z.add cix (Zpos XH))
                             (Z.sub (Z.sub size (Zpos XH)) cix))))
                | None -> UB)
          else py_list_pop l ix
        | None -> UB)
  else py_list_pop l ix

(** val pyx_list_popindex_macro :
    'a1 list -> z -> z -> ('a1 * 'a1 list) res **)

let pyx_list_popindex_macro l alloc v =
  if fits_ssize v then pyx_list_popindex l alloc v else py_list_pop l v

(** val pyx_list_pop : 'a1 list -> z -> ('a1 * 'a1 list) res **)

let pyx_list_pop l alloc =
  let size = zlen l in
  if Z.ltb (Z.shiftr alloc (Zpos XH)) size
  then (match nth_error l (Z.to_nat (Z.sub size (Zpos XH))) with
        | Some v ->
          if Z.ltb (Z.sub size (Zpos XH)) Z0
          then UB
          else Ok (v, (firstn (Z.to_nat (Z.sub size (Zpos XH))) l))
        | None -> UB)
  else py_list_pop l (Zneg XH)

(** val py_slice_adjust : z -> z -> z -> z * z **)

let py_slice_adjust len start stop =
  let s =
    if Z.ltb start Z0
    then if Z.ltb (Z.add start len) Z0 then Z0 else Z.add start len
    else if Z.ltb len start then len else start
  in
  let e =
    if Z.ltb stop Z0
    then if Z.ltb (Z.add stop len) Z0 then Z0 else Z.add stop len
    else if Z.ltb len stop then len else stop
  in
  (s, e)

(** val is_prefix : z list -> z list -> bool **)

let is_prefix sub0 x =
  (&&) (Z.leb (zlen sub0) (zlen x)) (zlist_eqb (sub_at x Z0 (zlen sub0)) sub0)

(** val is_suffix : z list -> z list -> bool **)

let is_suffix sub0 x =
  (&&) (Z.leb (zlen sub0) (zlen x))
    (zlist_eqb (sub_at x (Z.sub (zlen x) (zlen sub0)) (zlen sub0)) sub0)

(** val py_tailmatch : z list -> z list -> z -> z -> z -> bool **)

let py_tailmatch s sub0 start stop dir =
  let n0 = zlen s in
  let sa =
    if Z.ltb start Z0
    then if Z.ltb (Z.add start n0) Z0 then Z0 else Z.add start n0
    else start
  in
  let ea = snd (py_slice_adjust n0 start stop) in
  if Z.ltb ea sa
  then false
  else if Z.ltb Z0 dir
       then is_suffix sub0 (sub_at s sa (Z.sub ea sa))
       else is_prefix sub0 (sub_at s sa (Z.sub ea sa))

(** val memcmp_eq : z list -> z list -> z -> bool res **)

let memcmp_eq s sub0 start =
  if (||) (Z.ltb start Z0) (Z.ltb (zlen s) (Z.add start (zlen sub0)))
  then UB
  else Ok (zlist_eqb (sub_at s start (zlen sub0)) sub0)

(** val pyx_bytes_single :
    bool -> z list -> z list -> z -> z -> z -> bool res **)

let pyx_bytes_single fixed s sub0 start stop dir =
  let self_len = zlen s in
  let sub_len = zlen sub0 in
  let e =
    if Z.ltb self_len stop
    then self_len
    else if Z.ltb stop Z0 then Z.add stop self_len else stop
  in
  let e0 = if Z.ltb e Z0 then Z0 else e in
  let st = if Z.ltb start Z0 then Z.add start self_len else start in
  let st0 = if Z.ltb st Z0 then Z0 else st in
  let st1 =
    if Z.ltb Z0 dir
    then if Z.ltb st0 (Z.sub e0 sub_len) then Z.sub e0 sub_len else st0
    else st0
  in
  if fixed
  then if Z.leb sub_len (Z.sub e0 st1) then memcmp_eq s sub0 st1 else Ok false
  else (match sadd st1 sub_len with
        | Some t -> if Z.leb t e0 then memcmp_eq s sub0 st1 else Ok false
        | None -> UB)

(** val pyx_tuple_loop : ('a1 -> bool res) -> 'a1 list -> bool res **)

let rec pyx_tuple_loop single = function
| [] -> Ok false
| x :: r ->
  (match single x with
   | Ok a -> if a then Ok true else pyx_tuple_loop single r
   | x0 -> x0)

(** val is_ok_false : bool res -> bool **)

let is_ok_false = function
| Ok a -> if a then false else true
| _ -> false

(** val py_tuple_match : ('a1 -> bool res) -> 'a1 list -> bool res **)

let py_tuple_match single subs =
  match find (fun x -> negb (is_ok_false (single x))) subs with
  | Some x -> single x
  | None -> Ok false

(** val pyx_decode_c_bytes_range : z -> z -> z -> (z * z) option **)

let pyx_decode_c_bytes_range len start stop =
  let start1 =
    if (||) (Z.ltb start Z0) (Z.ltb stop Z0)
    then if Z.ltb start Z0
         then if Z.ltb (Z.add start len) Z0 then Z0 else Z.add start len
         else start
    else start
  in
  let stop1 =
    if (||) (Z.ltb start Z0) (Z.ltb stop Z0)
    then if Z.ltb stop Z0 then Z.add stop len else stop
    else stop
  in
  let stop2 = if Z.ltb len stop1 then len else stop1 in
  if Z.leb stop2 start1 then None else Some (start1, (Z.sub stop2 start1))

(** val pyx_substring_range : z -> z -> z -> (z * z) option **)

let pyx_substring_range len start stop =
  let start1 =
    if Z.ltb start Z0
    then if Z.ltb (Z.add start len) Z0 then Z0 else Z.add start len
    else start
  in
  let stop1 =
    if Z.ltb stop Z0
    then Z.add stop len
    else if Z.ltb len stop then len else stop
  in
  if Z.leb stop1 start1 then None else Some (start1, (Z.sub stop1 start1))

(** val pyx_decode_c_string_range : z -> z -> z -> (z * z) option **)

let pyx_decode_c_string_range len start stop =
  let start1 =
    if (||) (Z.ltb start Z0) (Z.ltb stop Z0)
    then if Z.ltb start Z0
         then if Z.ltb (Z.add start len) Z0 then Z0 else Z.add start len
         else start
    else start
  in
  let stop1 =
    if (||) (Z.ltb start Z0) (Z.ltb stop Z0)
    then if Z.ltb stop Z0 then Z.add stop len else stop
    else stop
  in
  if Z.leb stop1 start1 then None else Some (start1, (Z.sub stop1 start1))

(** val py_slice_range : z -> z -> z -> (z * z) option **)

let py_slice_range len start stop =
  let (s, e) = py_slice_adjust len start stop in
  if Z.leb e s then None else Some (s, (Z.sub e s))

(** val pyx_abs_c : z -> bool -> z -> z res **)

let pyx_abs_c w overflowcheck x =
  let w' =
    if Z.ltb w (Zpos (XO (XO (XO (XO (XO XH))))))
    then Zpos (XO (XO (XO (XO (XO XH)))))
    else w
  in
  if Z.eqb x (min_int w' true)
  then if overflowcheck then Raise OverflowError else UB
  else Ok (if Z.ltb x Z0 then Z.opp x else x)

(** val py_abs_c : z -> z -> z res **)

let py_abs_c w x =
  let w' =
    if Z.ltb w (Zpos (XO (XO (XO (XO (XO XH))))))
    then Zpos (XO (XO (XO (XO (XO XH)))))
    else w
  in
  if in_rangeb w' true (Z.abs x) then Ok (Z.abs x) else Raise OverflowError

type pyobj =
| OStr of z list
| OBytes of z list
| OByteArray of z list
| OOther

(** val pyx_ord : bool -> pyobj -> z res **)

let pyx_ord fixed = function
| OStr cps ->
  (match cps with
   | [] -> Raise (if fixed then TypeError else ValueError)
   | c :: l ->
     (match l with
      | [] -> Ok c
      | _ :: _ -> Raise (if fixed then TypeError else ValueError)))
| OBytes bs ->
  (match bs with
   | [] -> Raise TypeError
   | b :: l -> (match l with
                | [] -> Ok b
                | _ :: _ -> Raise TypeError))
| OByteArray bs ->
  (match bs with
   | [] -> Raise TypeError
   | b :: l -> (match l with
                | [] -> Ok b
                | _ :: _ -> Raise TypeError))
| OOther -> Raise TypeError

(** val seq_of : pyobj -> z list option **)

let seq_of = function
| OStr l -> Some l
| OBytes l -> Some l
| OByteArray l -> Some l
| OOther -> None

(** val py_ord : pyobj -> z res **)

let py_ord o =
  match seq_of o with
  | Some l ->
    if Z.eqb (zlen l) (Zpos XH) then Ok (nth O l Z0) else Raise TypeError
  | None -> Raise TypeError

(** val pyx_chr : z -> z res **)

let pyx_chr v =
  if in_rangeb (Zpos (XO (XO (XO (XO (XO XH)))))) true v
  then if (||) (Z.ltb v Z0)
            (Z.ltb (Zpos (XI (XI (XI (XI (XI (XI (XI (XI (XI (XI (XI (XI (XI
              (XI (XI (XI (XO (XO (XO (XO XH))))))))))))))))))))) v)
       then Raise ValueError
       else Ok v
  else Raise OverflowError

(** val py_chr : z -> z res **)

let py_chr v =
  if (||)
       (Z.ltb v (Zneg (XO (XO (XO (XO (XO (XO (XO (XO (XO (XO (XO (XO (XO (XO
         (XO (XO (XO (XO (XO (XO (XO (XO (XO (XO (XO (XO (XO (XO (XO (XO (XO
         XH)))))))))))))))))))))))))))))))))
       (Z.ltb (Zpos (XI (XI (XI (XI (XI (XI (XI (XI (XI (XI (XI (XI (XI (XI
         (XI (XI (XI (XI (XI (XI (XI (XI (XI (XI (XI (XI (XI (XI (XI (XI
         XH))))))))))))))))))))))))))))))) v)
  then Raise OverflowError
  else if (&&) (Z.leb Z0 v)
            (Z.ltb v (Zpos (XO (XO (XO (XO (XO (XO (XO (XO (XO (XO (XO (XO
              (XO (XO (XO (XO (XI (XO (XO (XO XH))))))))))))))))))))))
       then Ok v
       else Raise ValueError

type key =
| KInt of z
| KUnhashable

type dict = (z * z) list

(** val lookup : dict -> z -> z option **)

let rec lookup d k =
  match d with
  | [] -> None
  | p :: r -> let (k', v) = p in if Z.eqb k' k then Some v else lookup r k

(** val remove : dict -> z -> dict **)

let rec remove d k =
  match d with
  | [] -> []
  | p :: r ->
    let (k', v) = p in
    if Z.eqb k' k then remove r k else (k', v) :: (remove r k)

(** val pyDict_GetItemWithError : dict -> key -> z option res **)

let pyDict_GetItemWithError d = function
| KInt z0 -> Ok (lookup d z0)
| KUnhashable -> Raise TypeError

(** val pyDict_Pop_313 : dict -> key -> (z option * dict) res **)

let pyDict_Pop_313 d = function
| KInt z0 ->
  (match lookup d z0 with
   | Some v -> Ok ((Some v), (remove d z0))
   | None -> Ok (None, d))
| KUnhashable -> (match d with
                  | [] -> Ok (None, d)
                  | _ :: _ -> Raise TypeError)

(** val pyDict_SetDefault : dict -> key -> z -> (z * dict) res **)

let pyDict_SetDefault d k dflt =
  match k with
  | KInt z0 ->
    (match lookup d z0 with
     | Some v -> Ok (v, d)
     | None -> Ok (dflt, (app d ((z0, dflt) :: []))))
  | KUnhashable -> Raise TypeError

(** val py_dict_get : dict -> key -> z -> z res **)

let py_dict_get d k dflt =
  match k with
  | KInt z0 -> Ok (match lookup d z0 with
                   | Some v -> v
                   | None -> dflt)
  | KUnhashable -> Raise TypeError

(** val py_dict_pop : dict -> key -> z option -> (z * dict) res **)

let py_dict_pop d k dflt =
  match k with
  | KInt z0 ->
    (match lookup d z0 with
     | Some v -> Ok (v, (remove d z0))
     | None -> (match dflt with
                | Some x -> Ok (x, d)
                | None -> Raise KeyError))
  | KUnhashable ->
    (match d with
     | [] -> (match dflt with
              | Some x -> Ok (x, d)
              | None -> Raise KeyError)
     | _ :: _ -> Raise TypeError)

(** val py_dict_setdefault : dict -> key -> z -> (z * dict) res **)

let py_dict_setdefault d k dflt =
  match k with
  | KInt z0 ->
    (match lookup d z0 with
     | Some v -> Ok (v, d)
     | None -> Ok (dflt, (app d ((z0, dflt) :: []))))
  | KUnhashable -> Raise TypeError

(** val pyx_dict_get : dict -> key -> z -> z res **)

let pyx_dict_get d k dflt =
  match pyDict_GetItemWithError d k with
  | Ok a -> (match a with
             | Some v -> Ok v
             | None -> Ok dflt)
  | Raise e -> Raise e
  | UB -> UB

(** val pyx_dict_pop_313 : dict -> key -> z option -> (z * dict) res **)

let pyx_dict_pop_313 d k dflt =
  match pyDict_Pop_313 d k with
  | Ok a ->
    let (o, d') = a in
    (match o with
     | Some v -> Ok (v, d')
     | None -> (match dflt with
                | Some x -> Ok (x, d')
                | None -> Raise KeyError))
  | Raise e -> Raise e
  | UB -> UB

(** val pyx_dict_pop_ignore : dict -> key -> dict res **)

let pyx_dict_pop_ignore d k =
  match py_dict_pop d k (Some Z0) with
  | Ok a -> let (_, d') = a in Ok d'
  | Raise e -> Raise e
  | UB -> UB

(** val pyx_dict_setdefault : dict -> key -> z -> (z * dict) res **)

let pyx_dict_setdefault =
  pyDict_SetDefault

type expr =
| EArg of nat
| ERef of nat
| ECond of expr * expr * expr * expr
| ELet of nat * expr * expr

(** val build_chain : nat list -> nat -> expr -> expr **)

let rec build_chain is m last =
  match is with
  | [] -> last
  | i :: r ->
    build_chain r m (ELet ((add m i), last, (ECond ((ERef i), (ERef
      (add m i)), (ERef i), (ERef (add m i))))))

(** val wrap_lets : nat list -> expr -> expr **)

let rec wrap_lets is body =
  match is with
  | [] -> body
  | i :: r -> ELet (i, (EArg i), (wrap_lets r body))

(** val build_minmax : nat -> expr **)

let build_minmax m =
  wrap_lets (seq (S O) m) (build_chain (seq (S O) m) m (EArg O))

type trace = (z * z) list

(** val upd : (nat -> z) -> nat -> z -> nat -> z **)

let upd env r v x =
  if Nat.eqb x r then v else env x

(** val eval :
    (z -> z -> bool option) -> (nat -> z) -> expr -> (nat -> z) -> z
    res * trace **)

let rec eval cmp args e env =
  match e with
  | EArg i -> ((Ok (args i)), [])
  | ERef r -> ((Ok (env r)), [])
  | ECond (a, b, t, f) ->
    let (o, t1) = eval cmp args a env in
    (match o with
     | Ok va ->
       let (o0, t2) = eval cmp args b env in
       (match o0 with
        | Ok vb ->
          (match cmp va vb with
           | Some c ->
             let (o1, t3) = eval cmp args (if c then t else f) env in
             (o1, (app t1 (app t2 ((va, vb) :: t3))))
           | None -> ((Raise CmpError), (app t1 (app t2 ((va, vb) :: [])))))
        | _ -> (o0, (app t1 t2)))
     | _ -> (o, t1))
  | ELet (r, e1, b) ->
    let (o, t1) = eval cmp args e1 env in
    (match o with
     | Ok v ->
       let (o0, t2) = eval cmp args b (upd env r v) in (o0, (app t1 t2))
     | _ -> (o, t1))

(** val py_scan : (z -> z -> bool option) -> z -> z list -> z res * trace **)

let rec py_scan cmp cur = function
| [] -> ((Ok cur), [])
| x :: r ->
  (match cmp x cur with
   | Some c ->
     let (o, t) = py_scan cmp (if c then x else cur) r in (o, ((x, cur) :: t))
   | None -> ((Raise CmpError), ((x, cur) :: [])))

(** val nth_arg : z list -> nat -> z **)

let nth_arg xs i =
  nth i xs Z0

(** val pyx_minmax : (z -> z -> bool option) -> z list -> z res * trace **)

let pyx_minmax cmp xs =
  eval cmp (nth_arg xs) (build_minmax (sub (length xs) (S O))) (fun _ -> Z0)

(** val py_minmax : (z -> z -> bool option) -> z list -> z res * trace **)

let py_minmax cmp = function
| [] -> ((Raise ValueError), [])
| x :: r -> py_scan cmp x r

(** val pyx_anyall :
    (z -> bool option) -> (z -> bool option) -> bool -> z list -> bool
    res * z list **)

let rec pyx_anyall filt pred is_any = function
| [] -> ((Ok (negb is_any)), [])
| x :: r ->
  (match filt x with
   | Some b ->
     if b
     then (match pred x with
           | Some b0 ->
             if eqb b0 is_any
             then ((Ok is_any), (x :: []))
             else let (o, t) = pyx_anyall filt pred is_any r in (o, (x :: t))
           | None -> ((Raise CmpError), (x :: [])))
     else pyx_anyall filt pred is_any r
   | None -> ((Raise CmpError), []))

(** val item_outcome :
    (z -> bool option) -> (z -> bool option) -> z -> bool res option **)

let item_outcome filt pred x =
  match filt x with
  | Some b ->
    if b
    then (match pred x with
          | Some b0 -> Some (Ok b0)
          | None -> Some (Raise CmpError))
    else None
  | None -> Some (Raise CmpError)

(** val decides :
    (z -> bool option) -> (z -> bool option) -> bool -> z -> bool **)

let decides filt pred is_any x =
  match item_outcome filt pred x with
  | Some r -> (match r with
               | Ok b -> eqb b is_any
               | _ -> true)
  | None -> false

(** val take_until : ('a1 -> bool) -> 'a1 list -> 'a1 list **)

let rec take_until p = function
| [] -> []
| x :: r -> if p x then x :: [] else x :: (take_until p r)

(** val pred_evaluated : (z -> bool option) -> z -> bool **)

let pred_evaluated filt x =
  match filt x with
  | Some b -> b
  | None -> false

(** val py_anyall :
    (z -> bool option) -> (z -> bool option) -> bool -> z list -> bool
    res * z list **)

let py_anyall filt pred is_any xs =
  let seen = take_until (decides filt pred is_any) xs in
  ((match find (decides filt pred is_any) xs with
    | Some x ->
      (match item_outcome filt pred x with
       | Some o -> (match o with
                    | Ok _ -> Ok is_any
                    | _ -> o)
       | None -> UB)
    | None -> Ok (negb is_any)), (filter (pred_evaluated filt) seen))
