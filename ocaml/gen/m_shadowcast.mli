
type nat =
| O
| S of nat

val fst : ('a1 * 'a2) -> 'a1

val length : 'a1 list -> nat

type comparison =
| Eq
| Lt
| Gt

val compOpp : comparison -> comparison

type positive =
| XI of positive
| XO of positive
| XH

type n =
| N0
| Npos of positive

type z =
| Z0
| Zpos of positive
| Zneg of positive

module Pos :
 sig
  type mask =
  | IsNul
  | IsPos of positive
  | IsNeg
 end

module Coq_Pos :
 sig
  val succ : positive -> positive

  val add : positive -> positive -> positive

  val add_carry : positive -> positive -> positive

  val pred_double : positive -> positive

  type mask = Pos.mask =
  | IsNul
  | IsPos of positive
  | IsNeg

  val succ_double_mask : mask -> mask

  val double_mask : mask -> mask

  val double_pred_mask : positive -> mask

  val sub_mask : positive -> positive -> mask

  val sub_mask_carry : positive -> positive -> mask

  val mul : positive -> positive -> positive

  val iter : ('a1 -> 'a1) -> 'a1 -> positive -> 'a1

  val size : positive -> positive

  val compare_cont : comparison -> positive -> positive -> comparison

  val compare : positive -> positive -> comparison

  val eqb : positive -> positive -> bool

  val of_succ_nat : nat -> positive
 end

module N :
 sig
  val succ_double : n -> n

  val double : n -> n

  val sub : n -> n -> n

  val compare : n -> n -> comparison

  val leb : n -> n -> bool

  val pos_div_eucl : positive -> n -> n * n
 end

module Z :
 sig
  val double : z -> z

  val succ_double : z -> z

  val pred_double : z -> z

  val pos_sub : positive -> positive -> z

  val add : z -> z -> z

  val opp : z -> z

  val sub : z -> z -> z

  val mul : z -> z -> z

  val pow_pos : z -> positive -> z

  val pow : z -> z -> z

  val compare : z -> z -> comparison

  val leb : z -> z -> bool

  val ltb : z -> z -> bool

  val eqb : z -> z -> bool

  val abs : z -> z

  val of_nat : nat -> z

  val of_N : n -> z

  val pos_div_eucl : positive -> z -> z * z

  val div_eucl : z -> z -> z * z

  val div : z -> z -> z

  val modulo : z -> z -> z

  val quotrem : z -> z -> z * z

  val quot : z -> z -> z

  val odd : z -> bool

  val log2 : z -> z
 end

val ex_keep : (((((nat * n) * z) * z list) * z option) * positive) * bool

type val0 =
| VNone
| VInt of z
| VFloat of bool * z * z
| VInf of bool
| VNan
| VOther of z * z
| VNew of z * z

type cls =
| KInt
| KFloat
| KOther of z

type ty =
| TClass of cls
| TDef of ty
| TNon

type err =
| TypeError
| ValueError
| OverflowError
| IndexError

type res =
| RVal of val0
| RErr of err

val is_none : val0 -> bool

val isinstance : val0 -> cls -> bool

val py_trunc : bool -> z -> z -> z

val c_trunc : bool -> z -> z -> z

val nbits : z -> z

val round_to_double : z -> res

val construct : cls -> val0 list -> res

val cast : ty -> val0 list -> res

val declare : ty -> val0 option -> res

val base : ty -> cls option

val wrapn : nat -> ty -> ty
