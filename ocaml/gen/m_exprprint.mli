
val negb : bool -> bool

type nat =
| O
| S of nat

val fst : ('a1 * 'a2) -> 'a1

val snd : ('a1 * 'a2) -> 'a2

val app : 'a1 list -> 'a1 list -> 'a1 list

type comparison =
| Eq
| Lt
| Gt

type positive =
| XI of positive
| XO of positive
| XH

type n =
| N0
| Npos of positive

type z =
| Z0
| Zpos of positive
| Zneg of positive

val eqb : bool -> bool -> bool

module Nat :
 sig
  val eqb : nat -> nat -> bool

  val leb : nat -> nat -> bool

  val ltb : nat -> nat -> bool
 end

module Pos :
 sig
  type mask =
  | IsNul
  | IsPos of positive
  | IsNeg
 end

module Coq_Pos :
 sig
  val succ : positive -> positive

  val add : positive -> positive -> positive

  val add_carry : positive -> positive -> positive

  val pred_double : positive -> positive

  type mask = Pos.mask =
  | IsNul
  | IsPos of positive
  | IsNeg

  val succ_double_mask : mask -> mask

  val double_mask : mask -> mask

  val double_pred_mask : positive -> mask

  val sub_mask : positive -> positive -> mask

  val sub_mask_carry : positive -> positive -> mask

  val compare_cont : comparison -> positive -> positive -> comparison

  val compare : positive -> positive -> comparison

  val eqb : positive -> positive -> bool
 end

module N :
 sig
  val succ_double : n -> n

  val double : n -> n

  val add : n -> n -> n

  val sub : n -> n -> n

  val compare : n -> n -> comparison

  val eqb : n -> n -> bool

  val leb : n -> n -> bool

  val ltb : n -> n -> bool

  val pos_div_eucl : positive -> n -> n * n

  val div_eucl : n -> n -> n * n

  val div : n -> n -> n

  val modulo : n -> n -> n
 end

val flat_map : ('a1 -> 'a2 list) -> 'a1 list -> 'a2 list

val existsb : ('a1 -> bool) -> 'a1 list -> bool

val ex_keep : (((((nat * n) * z) * z list) * z option) * positive) * bool

val gen_binop_prec : (n list * nat) list

val gen_unop_prec : (n list * nat) list

val gen_test_prec : nat

val gen_atom_prec : nat

type text = n list

val text_eqb : text -> text -> bool

type unop =
| UNeg
| UPos
| UInv

type binop =
| BAdd
| BSub
| BMul
| BMatMul
| BDiv
| BFloorDiv
| BMod
| BLShift
| BRShift
| BAnd
| BOr
| BXor
| BPow

type cmpop =
| CLt
| CLe
| CGt
| CGe
| CEq
| CNe
| CIn
| CNotIn
| CIs
| CIsNot

type boolop =
| LAnd
| LOr

type numkind =
| KInt
| KFloat
| KImag

type expr =
| EName of text
| ENum of numkind * bool * text
| EStr of text
| EBytes of text
| ETrue
| EFalse
| ENone
| EEllipsis
| EUn of unop * expr
| ENot of expr
| EBin of binop * expr * expr
| ECmp of expr * cmpop * expr * cmps
| EBool of boolop * expr * expr
| ECond of expr * expr * expr
| ETuple of exprs
| EList of exprs
| ESet of exprs
| EDict of items
| EAttr of expr * text
| ESub of expr * expr
| ECall of expr * exprs
| ELambda of text list * expr
and exprs =
| ENil
| ECons of expr * exprs
and items =
| INil
| ICons of expr * expr * items
and cmps =
| CNil
| CCons of cmpop * expr * cmps

type layout =
| Tight
| Spaced
| After
| Before

type optok =
| OAdd
| OSub
| OMul
| OMatMul
| ODiv
| OFloorDiv
| OMod
| OLShift
| ORShift
| OBitAnd
| OBitOr
| OBitXor
| OPow
| OInv
| OLt
| OLe
| OGt
| OGe
| OEq
| ONe

type kw =
| KNot
| KAnd
| KOr
| KIn
| KIs
| KIf
| KElse
| KLambda

type tok =
| TName of text
| TNum of numkind * text
| TStr of text
| TBytes of text
| TTrue
| TFalse
| TNone
| TEllipsis
| TOp of optok * layout
| TKw of kw * layout
| TLpar
| TRpar
| TLbrk
| TRbrk
| TLbrace
| TRbrace
| TComma of layout
| TColon
| TDot

val name_un : unop -> text

val name_bin : binop -> text

val name_cmp : cmpop -> text

val name_bool : boolop -> text

val lookup : text -> (text * nat) list -> nat -> nat

val prec_bin : binop -> nat

val prec_cmp : cmpop -> nat

val prec_bool : boolop -> nat

val prec_un : unop -> nat

val prec_not : nat

val test_prec : nat

val atom_prec : nat

val tok_un : unop -> optok

val tok_bin : binop -> optok

val cmp_toks : cmpop -> tok list

val kw_bool : boolop -> kw

val wrap : bool -> tok list -> tok list

val name_toks : text list -> tok list

val lambda_head : text list -> tok list

val is_single : exprs -> bool

val tuple_comma : exprs -> tok list

val pr_old : nat -> expr -> tok list

val seq_old : nat -> exprs -> tok list

val seqt_old : nat -> exprs -> tok list -> tok list

val items_old : nat -> items -> tok list

val pr_new : nat -> expr -> tok list

val seq_new : exprs -> tok list

val items_new : items -> tok list

val cmps_new : nat -> cmps -> tok list

val print : bool -> expr -> tok list

val hexdig : n -> n

val hex2 : n -> text

val has : n -> text -> bool

val quote_of : text -> n

val str_escape : n -> n -> text

val bytes_escape : n -> n -> text

val repr_str : text -> text

val repr_bytes : text -> text

val op_text : optok -> text

val kw_text : kw -> text

val lay : layout -> text -> text

val tok_text : tok -> text

val render : tok list -> text

type 'a res =
| Ok of 'a * tok list
| Err
| OutOfFuel

val bind : 'a1 res -> ('a1 -> tok list -> 'a2 res) -> 'a2 res

val binop_of_tok : optok -> (binop * nat) option

val unop_of_tok : optok -> unop option

val cmpop_of : tok list -> (cmpop * tok list) option

val mk_un : unop -> expr -> expr

val pnames : tok list -> text list * tok list

val closer : tok list -> bool

val parse : nat -> nat -> tok list -> expr res

val loop : nat -> nat -> expr -> tok list -> expr res

val pcmps : nat -> tok list -> cmps res

val pseq : nat -> tok list -> exprs res

val pitems : nat -> tok list -> items res

val atom : nat -> tok list -> expr res

val postfix : nat -> expr -> tok list -> expr res

type reparsed =
| RExpr of expr
| RError
| RTrailing
| ROutOfFuel

val reparse : nat -> tok list -> reparsed

val unop_eqb : unop -> unop -> bool

val binop_eqb : binop -> binop -> bool

val cmpop_eqb : cmpop -> cmpop -> bool

val boolop_eqb : boolop -> boolop -> bool

val numkind_eqb : numkind -> numkind -> bool

val names_eqb : text list -> text list -> bool

val expr_eqb : expr -> expr -> bool

val exprs_eqb : exprs -> exprs -> bool

val items_eqb : items -> items -> bool

val cmps_eqb : cmps -> cmps -> bool

val not_plain_num : expr -> bool

val wf : expr -> bool

val wf_seq : exprs -> bool

val wf_items : items -> bool

val wf_cmps : cmps -> bool

type skind =
| KFunc
| KLam
| KClass

type scope =
| Scope of skind * text * bool * scopes
and scopes =
| SNil
| SCons of scope * scopes

type qname = text list

val locals_t : text

val lambda_t : text

val sname : skind -> text -> text

val rule_qualname : (skind * qname) option -> skind -> text -> bool -> qname

val rule_walk : (skind * qname) option -> scope -> qname list

val rule_walks : (skind * qname) option -> scopes -> qname list

val cy_node_qualname : bool -> qname -> bool -> skind -> text -> bool -> qname

val cy_child_state : bool -> qname -> bool -> skind -> text -> bool -> qname

val cy_walk : bool -> qname -> bool -> scope -> qname list

val cy_walks : bool -> qname -> bool -> scopes -> qname list

val cy_module : bool -> scopes -> qname list

val rule_module : scopes -> qname list
