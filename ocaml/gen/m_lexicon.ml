
(** val negb : bool -> bool **)

let negb = function
| true -> false
| false -> true

type nat =
| O
| S of nat

(** val fst : ('a1 * 'a2) -> 'a1 **)

let fst = function
| (x, _) -> x

(** val snd : ('a1 * 'a2) -> 'a2 **)

let snd = function
| (_, y) -> y

(** val length : 'a1 list -> nat **)

let rec length = function
| [] -> O
| _ :: l' -> S (length l')

(** val app : 'a1 list -> 'a1 list -> 'a1 list **)

let rec app l m =
  match l with
  | [] -> m
  | a :: l1 -> a :: (app l1 m)

type comparison =
| Eq
| Lt
| Gt

(** val compOpp : comparison -> comparison **)

let compOpp = function
| Eq -> Eq
| Lt -> Gt
| Gt -> Lt

(** val sub : nat -> nat -> nat **)

let rec sub n0 m =
  match n0 with
  | O -> n0
  | S k -> (match m with
            | O -> n0
            | S l -> sub k l)

type positive =
| XI of positive
| XO of positive
| XH

type n =
| N0
| Npos of positive

type z =
| Z0
| Zpos of positive
| Zneg of positive

module Nat =
 struct
  (** val add : nat -> nat -> nat **)

  let rec add n0 m =
    match n0 with
    | O -> m
    | S p -> S (add p m)

  (** val sub : nat -> nat -> nat **)

  let rec sub n0 m =
    match n0 with
    | O -> n0
    | S k -> (match m with
              | O -> n0
              | S l -> sub k l)

  (** val leb : nat -> nat -> bool **)

  let rec leb n0 m =
    match n0 with
    | O -> true
    | S n' -> (match m with
               | O -> false
               | S m' -> leb n' m')

  (** val ltb : nat -> nat -> bool **)

  let ltb n0 m =
    leb (S n0) m

  (** val divmod : nat -> nat -> nat -> nat -> nat * nat **)

  let rec divmod x y q u =
    match x with
    | O -> (q, u)
    | S x' ->
      (match u with
       | O -> divmod x' y (S q) y
       | S u' -> divmod x' y q u')

  (** val div : nat -> nat -> nat **)

  let div x y = match y with
  | O -> y
  | S y' -> fst (divmod x y' O y')

  (** val modulo : nat -> nat -> nat **)

  let modulo x = function
  | O -> x
  | S y' -> sub y' (snd (divmod x y' O y'))
 end

module Pos =
 struct
  (** val succ : positive -> positive **)

  let rec succ = function
  | XI p -> XO (succ p)
  | XO p -> XI p
  | XH -> XO XH

  (** val add : positive -> positive -> positive **)

  let rec add x y =
    match x with
    | XI p ->
      (match y with
       | XI q -> XO (add_carry p q)
       | XO q -> XI (add p q)
       | XH -> XO (succ p))
    | XO p ->
      (match y with
       | XI q -> XI (add p q)
       | XO q -> XO (add p q)
       | XH -> XI p)
    | XH -> (match y with
             | XI q -> XO (succ q)
             | XO q -> XI q
             | XH -> XO XH)

  (** val add_carry : positive -> positive -> positive **)

  and add_carry x y =
    match x with
    | XI p ->
      (match y with
       | XI q -> XI (add_carry p q)
       | XO q -> XO (add_carry p q)
       | XH -> XI (succ p))
    | XO p ->
      (match y with
       | XI q -> XO (add_carry p q)
       | XO q -> XI (add p q)
       | XH -> XO (succ p))
    | XH ->
      (match y with
       | XI q -> XI (succ q)
       | XO q -> XO (succ q)
       | XH -> XI XH)

  (** val pred_double : positive -> positive **)

  let rec pred_double = function
  | XI p -> XI (XO p)
  | XO p -> XI (pred_double p)
  | XH -> XH

  (** val mul : positive -> positive -> positive **)

  let rec mul x y =
    match x with
    | XI p -> add y (XO (mul p y))
    | XO p -> XO (mul p y)
    | XH -> y

  (** val compare_cont : comparison -> positive -> positive -> comparison **)

  let rec compare_cont r x y =
    match x with
    | XI p ->
      (match y with
       | XI q -> compare_cont r p q
       | XO q -> compare_cont Gt p q
       | XH -> Gt)
    | XO p ->
      (match y with
       | XI q -> compare_cont Lt p q
       | XO q -> compare_cont r p q
       | XH -> Gt)
    | XH -> (match y with
             | XH -> r
             | _ -> Lt)

  (** val compare : positive -> positive -> comparison **)

  let compare =
    compare_cont Eq

  (** val eqb : positive -> positive -> bool **)

  let rec eqb p q =
    match p with
    | XI p0 -> (match q with
                | XI q0 -> eqb p0 q0
                | _ -> false)
    | XO p0 -> (match q with
                | XO q0 -> eqb p0 q0
                | _ -> false)
    | XH -> (match q with
             | XH -> true
             | _ -> false)

  (** val of_succ_nat : nat -> positive **)

  let rec of_succ_nat = function
  | O -> XH
  | S x -> succ (of_succ_nat x)
 end

module Z =
 struct
  (** val double : z -> z **)

  let double = function
  | Z0 -> Z0
  | Zpos p -> Zpos (XO p)
  | Zneg p -> Zneg (XO p)

  (** val succ_double : z -> z **)

  let succ_double = function
  | Z0 -> Zpos XH
  | Zpos p -> Zpos (XI p)
  | Zneg p -> Zneg (Pos.pred_double p)

  (** val pred_double : z -> z **)

  let pred_double = function
  | Z0 -> Zneg XH
  | Zpos p -> Zpos (Pos.pred_double p)
  | Zneg p -> Zneg (XI p)

  (** val pos_sub : positive -> positive -> z **)

  let rec pos_sub x y =
    match x with
    | XI p ->
      (match y with
       | XI q -> double (pos_sub p q)
       | XO q -> succ_double (pos_sub p q)
       | XH -> Zpos (XO p))
    | XO p ->
      (match y with
       | XI q -> pred_double (pos_sub p q)
       | XO q -> double (pos_sub p q)
       | XH -> Zpos (Pos.pred_double p))
    | XH ->
      (match y with
       | XI q -> Zneg (XO q)
       | XO q -> Zneg (Pos.pred_double q)
       | XH -> Z0)

  (** val add : z -> z -> z **)

  let add x y =
    match x with
    | Z0 -> y
    | Zpos x' ->
      (match y with
       | Z0 -> x
       | Zpos y' -> Zpos (Pos.add x' y')
       | Zneg y' -> pos_sub x' y')
    | Zneg x' ->
      (match y with
       | Z0 -> x
       | Zpos y' -> pos_sub y' x'
       | Zneg y' -> Zneg (Pos.add x' y'))

  (** val opp : z -> z **)

  let opp = function
  | Z0 -> Z0
  | Zpos x0 -> Zneg x0
  | Zneg x0 -> Zpos x0

  (** val sub : z -> z -> z **)

  let sub m n0 =
    add m (opp n0)

  (** val mul : z -> z -> z **)

  let mul x y =
    match x with
    | Z0 -> Z0
    | Zpos x' ->
      (match y with
       | Z0 -> Z0
       | Zpos y' -> Zpos (Pos.mul x' y')
       | Zneg y' -> Zneg (Pos.mul x' y'))
    | Zneg x' ->
      (match y with
       | Z0 -> Z0
       | Zpos y' -> Zneg (Pos.mul x' y')
       | Zneg y' -> Zpos (Pos.mul x' y'))

  (** val compare : z -> z -> comparison **)

  let compare x y =
    match x with
    | Z0 -> (match y with
             | Z0 -> Eq
             | Zpos _ -> Lt
             | Zneg _ -> Gt)
    | Zpos x' -> (match y with
                  | Zpos y' -> Pos.compare x' y'
                  | _ -> Gt)
    | Zneg x' ->
      (match y with
       | Zneg y' -> compOpp (Pos.compare x' y')
       | _ -> Lt)

  (** val leb : z -> z -> bool **)

  let leb x y =
    match compare x y with
    | Gt -> false
    | _ -> true

  (** val ltb : z -> z -> bool **)

  let ltb x y =
    match compare x y with
    | Lt -> true
    | _ -> false

  (** val eqb : z -> z -> bool **)

  let eqb x y =
    match x with
    | Z0 -> (match y with
             | Z0 -> true
             | _ -> false)
    | Zpos p -> (match y with
                 | Zpos q -> Pos.eqb p q
                 | _ -> false)
    | Zneg p -> (match y with
                 | Zneg q -> Pos.eqb p q
                 | _ -> false)

  (** val of_nat : nat -> z **)

  let of_nat = function
  | O -> Z0
  | S n1 -> Zpos (Pos.of_succ_nat n1)
 end

(** val rev : 'a1 list -> 'a1 list **)

let rec rev = function
| [] -> []
| x :: l' -> app (rev l') (x :: [])

(** val map : ('a1 -> 'a2) -> 'a1 list -> 'a2 list **)

let rec map f = function
| [] -> []
| a :: t -> (f a) :: (map f t)

(** val fold_right : ('a2 -> 'a1 -> 'a1) -> 'a1 -> 'a2 list -> 'a1 **)

let rec fold_right f a0 = function
| [] -> a0
| b :: t -> f b (fold_right f a0 t)

(** val forallb : ('a1 -> bool) -> 'a1 list -> bool **)

let rec forallb f = function
| [] -> true
| a :: l0 -> (&&) (f a) (forallb f l0)

(** val filter : ('a1 -> bool) -> 'a1 list -> 'a1 list **)

let rec filter f = function
| [] -> []
| x :: l0 -> if f x then x :: (filter f l0) else filter f l0

(** val repeat : 'a1 -> nat -> 'a1 list **)

let rec repeat x = function
| O -> []
| S k -> x :: (repeat x k)

(** val ex_keep :
    (((((nat * n) * z) * z list) * z option) * positive) * bool **)

let ex_keep =
  ((((((O, N0), Z0), []), None), XH), true)

type special =
| SBol
| SEol
| SEof

type event =
| EvChar of z
| EvBol
| EvEol
| EvEof
| EvNone

type ere =
| EEmpty
| EEps
| ERange of z * z
| ESym of special
| ESeq of ere * ere
| EAlt of ere * ere
| ERep1 of ere

(** val eOpt : ere -> ere **)

let eOpt a =
  EAlt (a, EEps)

(** val e_nullable : ere -> bool **)

let rec e_nullable = function
| EEps -> true
| ESeq (a, b) -> (&&) (e_nullable a) (e_nullable b)
| EAlt (a, b) -> (||) (e_nullable a) (e_nullable b)
| ERep1 a -> e_nullable a
| _ -> false

(** val special_eqb : special -> special -> bool **)

let special_eqb a b =
  match a with
  | SBol -> (match b with
             | SBol -> true
             | _ -> false)
  | SEol -> (match b with
             | SEol -> true
             | _ -> false)
  | SEof -> (match b with
             | SEof -> true
             | _ -> false)

(** val ev_matches : z -> z -> event -> bool **)

let ev_matches c0 c1 = function
| EvChar c -> (&&) (Z.leb c0 c) (Z.ltb c c1)
| _ -> false

(** val ev_is : special -> event -> bool **)

let ev_is s = function
| EvBol -> (match s with
            | SBol -> true
            | _ -> false)
| EvEol -> (match s with
            | SEol -> true
            | _ -> false)
| EvEof -> (match s with
            | SEof -> true
            | _ -> false)
| _ -> false

(** val ere_eqb : ere -> ere -> bool **)

let rec ere_eqb a b =
  match a with
  | EEmpty -> (match b with
               | EEmpty -> true
               | _ -> false)
  | EEps -> (match b with
             | EEps -> true
             | _ -> false)
  | ERange (x, y) ->
    (match b with
     | ERange (u, v) -> (&&) (Z.eqb x u) (Z.eqb y v)
     | _ -> false)
  | ESym s -> (match b with
               | ESym t -> special_eqb s t
               | _ -> false)
  | ESeq (a1, a2) ->
    (match b with
     | ESeq (b1, b2) -> (&&) (ere_eqb a1 b1) (ere_eqb a2 b2)
     | _ -> false)
  | EAlt (a1, a2) ->
    (match b with
     | EAlt (b1, b2) -> (&&) (ere_eqb a1 b1) (ere_eqb a2 b2)
     | _ -> false)
  | ERep1 a1 -> (match b with
                 | ERep1 b1 -> ere_eqb a1 b1
                 | _ -> false)

(** val is_empty : ere -> bool **)

let is_empty = function
| EEmpty -> true
| _ -> false

(** val is_eps : ere -> bool **)

let is_eps = function
| EEps -> true
| _ -> false

(** val alt_mem : ere -> ere -> bool **)

let rec alt_mem x r = match r with
| EAlt (a, b) -> (||) (alt_mem x a) (alt_mem x b)
| _ -> ere_eqb x r

(** val mk_alt : ere -> ere -> ere **)

let rec mk_alt a b =
  match a with
  | EEmpty -> b
  | EAlt (a1, a2) -> mk_alt a1 (mk_alt a2 b)
  | _ -> if is_empty b then a else if alt_mem a b then b else EAlt (a, b)

(** val mk_seq : ere -> ere -> ere **)

let mk_seq a b =
  if (||) (is_empty a) (is_empty b)
  then EEmpty
  else if is_eps a then b else if is_eps b then a else ESeq (a, b)

(** val n_deriv : event -> ere -> ere **)

let rec n_deriv e = function
| ERange (c0, c1) -> if ev_matches c0 c1 e then EEps else EEmpty
| ESym s -> if ev_is s e then EEps else EEmpty
| ESeq (a, b) ->
  if e_nullable a
  then mk_alt (mk_seq (n_deriv e a) b) (n_deriv e b)
  else mk_seq (n_deriv e a) b
| EAlt (a, b) -> mk_alt (n_deriv e a) (n_deriv e b)
| ERep1 a -> mk_seq (n_deriv e a) (eOpt (ERep1 a))
| _ -> EEmpty

(** val n_matches : ere -> event list -> bool **)

let rec n_matches r = function
| [] -> e_nullable r
| e :: t -> n_matches (n_deriv e r) t

(** val strip_underscores : z list -> z list **)

let strip_underscores t =
  filter (fun c -> negb (Z.eqb c (Zpos (XI (XI (XI (XI (XI (XO XH))))))))) t

(** val is_suffix_char : z -> bool **)

let is_suffix_char c =
  (||)
    ((||)
      ((||) (Z.eqb c (Zpos (XI (XO (XI (XO (XI (XO XH))))))))
        (Z.eqb c (Zpos (XI (XO (XI (XO (XI (XI XH)))))))))
      (Z.eqb c (Zpos (XO (XO (XI (XI (XO (XO XH)))))))))
    (Z.eqb c (Zpos (XO (XO (XI (XI (XO (XI XH))))))))

(** val drop_suffix_rev : z list -> z list **)

let rec drop_suffix_rev r = match r with
| [] -> []
| c :: t -> if is_suffix_char c then drop_suffix_rev t else r

(** val int_token_value : z list -> z list **)

let int_token_value t =
  rev (drop_suffix_rev (rev (strip_underscores t)))

type s2n =
| S2N of z
| S2N_BadDigit
| S2N_TooLong

(** val digit_val : z -> z option **)

let digit_val c =
  if (&&) (Z.leb (Zpos (XO (XO (XO (XO (XI XH)))))) c)
       (Z.leb c (Zpos (XI (XO (XO (XI (XI XH)))))))
  then Some (Z.sub c (Zpos (XO (XO (XO (XO (XI XH)))))))
  else if (&&) (Z.leb (Zpos (XI (XO (XO (XO (XO (XI XH))))))) c)
            (Z.leb c (Zpos (XO (XI (XO (XI (XI (XI XH))))))))
       then Some (Z.sub c (Zpos (XI (XI (XI (XO (XI (XO XH))))))))
       else if (&&) (Z.leb (Zpos (XI (XO (XO (XO (XO (XO XH))))))) c)
                 (Z.leb c (Zpos (XO (XI (XO (XI (XI (XO XH))))))))
            then Some (Z.sub c (Zpos (XI (XI (XI (XO (XI XH)))))))
            else None

(** val digits_val : z -> z -> z list -> z option **)

let rec digits_val base acc = function
| [] -> Some acc
| c :: t ->
  (match digit_val c with
   | Some d ->
     if Z.ltb d base
     then digits_val base (Z.add (Z.mul acc base) d) t
     else None
   | None -> None)

(** val pow2_base : z -> bool **)

let pow2_base b =
  (||)
    ((||)
      ((||) ((||) (Z.eqb b (Zpos (XO XH))) (Z.eqb b (Zpos (XO (XO XH)))))
        (Z.eqb b (Zpos (XO (XO (XO XH))))))
      (Z.eqb b (Zpos (XO (XO (XO (XO XH)))))))
    (Z.eqb b (Zpos (XO (XO (XO (XO (XO XH)))))))

(** val py_int_base : z -> z -> z list -> s2n **)

let py_int_base lim base l = match l with
| [] -> S2N_BadDigit
| _ :: _ ->
  (match digits_val base Z0 l with
   | Some v ->
     if (&&) (negb (pow2_base base)) (Z.ltb lim (Z.of_nat (length l)))
     then S2N_TooLong
     else S2N v
   | None -> S2N_BadDigit)

(** val is_xX : z -> bool **)

let is_xX c =
  (||) (Z.eqb c (Zpos (XO (XO (XO (XI (XI (XI XH))))))))
    (Z.eqb c (Zpos (XO (XO (XO (XI (XI (XO XH))))))))

(** val is_oO : z -> bool **)

let is_oO c =
  (||) (Z.eqb c (Zpos (XI (XI (XI (XI (XO (XI XH))))))))
    (Z.eqb c (Zpos (XI (XI (XI (XI (XO (XO XH))))))))

(** val is_bB : z -> bool **)

let is_bB c =
  (||) (Z.eqb c (Zpos (XO (XI (XO (XO (XO (XI XH))))))))
    (Z.eqb c (Zpos (XO (XI (XO (XO (XO (XO XH))))))))

(** val is_lL : z -> bool **)

let is_lL c =
  (||) (Z.eqb c (Zpos (XO (XO (XI (XI (XO (XI XH))))))))
    (Z.eqb c (Zpos (XO (XO (XI (XI (XO (XO XH))))))))

(** val py_int_base0 : z -> z list -> s2n **)

let py_int_base0 lim l = match l with
| [] -> py_int_base lim (Zpos (XO (XI (XO XH)))) l
| z0 :: l0 ->
  (match z0 with
   | Zpos p ->
     (match p with
      | XO p0 ->
        (match p0 with
         | XO p1 ->
           (match p1 with
            | XO p2 ->
              (match p2 with
               | XO p3 ->
                 (match p3 with
                  | XI p4 ->
                    (match p4 with
                     | XH ->
                       (match l0 with
                        | [] -> py_int_base lim (Zpos (XO (XI (XO XH)))) l
                        | c :: t ->
                          if is_xX c
                          then py_int_base lim (Zpos (XO (XO (XO (XO XH))))) t
                          else if is_oO c
                               then py_int_base lim (Zpos (XO (XO (XO XH)))) t
                               else if is_bB c
                                    then py_int_base lim (Zpos (XO XH)) t
                                    else if forallb (fun d ->
                                              Z.eqb d (Zpos (XO (XO (XO (XO
                                                (XI XH))))))) (c :: t)
                                         then S2N Z0
                                         else S2N_BadDigit)
                     | _ -> py_int_base lim (Zpos (XO (XI (XO XH)))) l)
                  | _ -> py_int_base lim (Zpos (XO (XI (XO XH)))) l)
               | _ -> py_int_base lim (Zpos (XO (XI (XO XH)))) l)
            | _ -> py_int_base lim (Zpos (XO (XI (XO XH)))) l)
         | _ -> py_int_base lim (Zpos (XO (XI (XO XH)))) l)
      | _ -> py_int_base lim (Zpos (XO (XI (XO XH)))) l)
   | _ -> py_int_base lim (Zpos (XO (XI (XO XH)))) l)

(** val strip_py2_long_suffix : z list -> z list **)

let strip_py2_long_suffix l =
  match rev l with
  | [] -> l
  | c :: t -> if is_lL c then rev t else l

(** val str_to_number : z -> z list -> s2n **)

let str_to_number lim v = match v with
| [] -> py_int_base0 lim v
| z0 :: l ->
  (match z0 with
   | Zpos p ->
     (match p with
      | XO p0 ->
        (match p0 with
         | XO p1 ->
           (match p1 with
            | XO p2 ->
              (match p2 with
               | XO p3 ->
                 (match p3 with
                  | XI p4 ->
                    (match p4 with
                     | XH ->
                       (match l with
                        | [] -> py_int_base0 lim v
                        | c :: t ->
                          if is_xX c
                          then py_int_base lim (Zpos (XO (XO (XO (XO XH)))))
                                 (match strip_py2_long_suffix v with
                                  | [] -> []
                                  | z1 :: l0 ->
                                    (match l0 with
                                     | [] -> z1 :: []
                                     | _ :: r -> r))
                          else if is_oO c
                               then py_int_base lim (Zpos (XO (XO (XO XH)))) t
                               else if is_bB c
                                    then py_int_base lim (Zpos (XO XH)) t
                                    else py_int_base lim (Zpos (XO (XO (XO
                                           XH)))) v)
                     | _ -> py_int_base0 lim v)
                  | _ -> py_int_base0 lim v)
               | _ -> py_int_base0 lim v)
            | _ -> py_int_base0 lim v)
         | _ -> py_int_base0 lim v)
      | _ -> py_int_base0 lim v)
   | _ -> py_int_base0 lim v)

(** val decode_int_token : z -> z list -> s2n **)

let decode_int_token lim t =
  str_to_number lim (int_token_value t)

type outcome =
| Accepted of z
| PositionedError
| InternalCrash

(** val int_token_outcome : bool -> z -> z list -> outcome **)

let int_token_outcome checked lim t =
  match decode_int_token lim t with
  | S2N v -> Accepted v
  | _ -> if checked then PositionedError else InternalCrash

(** val dot_ev : event **)

let dot_ev =
  EvChar (Zpos (XO (XI (XI (XI (XO XH))))))

(** val dots : nat -> event list **)

let dots n0 =
  repeat dot_ev n0

(** val dot_tokens : nat -> nat list **)

let dot_tokens n0 =
  app (repeat (S (S (S O))) (Nat.div n0 (S (S (S O)))))
    (repeat (S O) (Nat.modulo n0 (S (S (S O)))))

(** val import_level : nat list -> nat **)

let import_level toks =
  fold_right Nat.add O toks

(** val longest_from : ere -> event list -> nat -> nat -> nat **)

let rec longest_from r w pos best =
  match w with
  | [] -> best
  | e :: w' ->
    let r' = n_deriv e r in
    if is_empty r'
    then best
    else longest_from r' w' (S pos) (if e_nullable r' then S pos else best)

(** val longest : ere -> event list -> nat **)

let longest r w =
  longest_from r w O O

(** val x_lex_int : ere **)

let x_lex_int =
  ESeq ((EAlt (EEmpty, (ESeq ((EAlt ((ESym SBol), EEps)), (EAlt ((EAlt
    (EEmpty, (EAlt ((EAlt (EEmpty, (EAlt ((ESeq ((ESeq ((EAlt (EEmpty, (EAlt
    ((ERange ((Zpos (XI (XO (XO (XO (XI XH)))))), (Zpos (XO (XI (XO (XI (XI
    XH)))))))), EEmpty)))), (ESeq ((EAlt ((EAlt (EEps, EEmpty)), (EAlt ((ESeq
    ((ERange ((Zpos (XI (XI (XI (XI (XI (XO XH))))))), (Zpos (XO (XO (XO (XO
    (XO (XI XH))))))))), EEps)), EEmpty)))), EEps)))), (ESeq ((ESeq ((ERep1
    (EAlt (EEmpty, (EAlt ((ERange ((Zpos (XO (XO (XO (XO (XI XH)))))), (Zpos
    (XO (XI (XO (XI (XI XH)))))))), EEmpty))))), (ESeq ((EAlt ((EAlt (EEps,
    EEmpty)), (EAlt ((ERep1 (ESeq ((ESeq ((ERange ((Zpos (XI (XI (XI (XI (XI
    (XO XH))))))), (Zpos (XO (XO (XO (XO (XO (XI XH))))))))), EEps)), (ESeq
    ((ERep1 (EAlt (EEmpty, (EAlt ((ERange ((Zpos (XO (XO (XO (XO (XI
    XH)))))), (Zpos (XO (XI (XO (XI (XI XH)))))))), EEmpty))))), EEps))))),
    EEmpty)))), EEps)))), EEps)))), (EAlt ((ESeq ((ESeq ((ERange ((Zpos (XO
    (XO (XO (XO (XI XH)))))), (Zpos (XI (XO (XO (XO (XI XH)))))))), EEps)),
    (ESeq ((EAlt (EEmpty, (EAlt ((EAlt (EEmpty, (EAlt ((ESeq ((ESeq ((EAlt
    (EEmpty, (EAlt ((ERange ((Zpos (XO (XO (XO (XI (XI (XO XH))))))), (Zpos
    (XI (XO (XO (XI (XI (XO XH))))))))), (EAlt ((ERange ((Zpos (XO (XO (XO
    (XI (XI (XI XH))))))), (Zpos (XI (XO (XO (XI (XI (XI XH))))))))),
    EEmpty)))))), (ESeq ((EAlt ((EAlt (EEps, EEmpty)), (EAlt ((ESeq ((ERange
    ((Zpos (XI (XI (XI (XI (XI (XO XH))))))), (Zpos (XO (XO (XO (XO (XO (XI
    XH))))))))), EEps)), EEmpty)))), EEps)))), (ESeq ((ESeq ((ERep1 (EAlt
    (EEmpty, (EAlt ((ERange ((Zpos (XO (XO (XO (XO (XI XH)))))), (Zpos (XO
    (XI (XO (XI (XI XH)))))))), (EAlt ((ERange ((Zpos (XI (XO (XO (XO (XO (XO
    XH))))))), (Zpos (XI (XI (XI (XO (XO (XO XH))))))))), (EAlt ((ERange
    ((Zpos (XI (XO (XO (XO (XO (XI XH))))))), (Zpos (XI (XI (XI (XO (XO (XI
    XH))))))))), EEmpty))))))))), (ESeq ((EAlt ((EAlt (EEps, EEmpty)), (EAlt
    ((ERep1 (ESeq ((ESeq ((ERange ((Zpos (XI (XI (XI (XI (XI (XO XH))))))),
    (Zpos (XO (XO (XO (XO (XO (XI XH))))))))), EEps)), (ESeq ((ERep1 (EAlt
    (EEmpty, (EAlt ((ERange ((Zpos (XO (XO (XO (XO (XI XH)))))), (Zpos (XO
    (XI (XO (XI (XI XH)))))))), (EAlt ((ERange ((Zpos (XI (XO (XO (XO (XO (XO
    XH))))))), (Zpos (XI (XI (XI (XO (XO (XO XH))))))))), (EAlt ((ERange
    ((Zpos (XI (XO (XO (XO (XO (XI XH))))))), (Zpos (XI (XI (XI (XO (XO (XI
    XH))))))))), EEmpty))))))))), EEps))))), EEmpty)))), EEps)))), EEps)))),
    (EAlt ((ESeq ((ESeq ((EAlt (EEmpty, (EAlt ((ERange ((Zpos (XI (XI (XI (XI
    (XO (XO XH))))))), (Zpos (XO (XO (XO (XO (XI (XO XH))))))))), (EAlt
    ((ERange ((Zpos (XI (XI (XI (XI (XO (XI XH))))))), (Zpos (XO (XO (XO (XO
    (XI (XI XH))))))))), EEmpty)))))), (ESeq ((EAlt ((EAlt (EEps, EEmpty)),
    (EAlt ((ESeq ((ERange ((Zpos (XI (XI (XI (XI (XI (XO XH))))))), (Zpos (XO
    (XO (XO (XO (XO (XI XH))))))))), EEps)), EEmpty)))), EEps)))), (ESeq
    ((ESeq ((ERep1 (EAlt (EEmpty, (EAlt ((ERange ((Zpos (XO (XO (XO (XO (XI
    XH)))))), (Zpos (XO (XO (XO (XI (XI XH)))))))), EEmpty))))), (ESeq ((EAlt
    ((EAlt (EEps, EEmpty)), (EAlt ((ERep1 (ESeq ((ESeq ((ERange ((Zpos (XI
    (XI (XI (XI (XI (XO XH))))))), (Zpos (XO (XO (XO (XO (XO (XI XH))))))))),
    EEps)), (ESeq ((ERep1 (EAlt (EEmpty, (EAlt ((ERange ((Zpos (XO (XO (XO
    (XO (XI XH)))))), (Zpos (XO (XO (XO (XI (XI XH)))))))), EEmpty))))),
    EEps))))), EEmpty)))), EEps)))), EEps)))), EEmpty)))))), (EAlt ((ESeq
    ((ESeq ((EAlt (EEmpty, (EAlt ((ERange ((Zpos (XO (XI (XO (XO (XO (XO
    XH))))))), (Zpos (XI (XI (XO (XO (XO (XO XH))))))))), (EAlt ((ERange
    ((Zpos (XO (XI (XO (XO (XO (XI XH))))))), (Zpos (XI (XI (XO (XO (XO (XI
    XH))))))))), EEmpty)))))), (ESeq ((EAlt ((EAlt (EEps, EEmpty)), (EAlt
    ((ESeq ((ERange ((Zpos (XI (XI (XI (XI (XI (XO XH))))))), (Zpos (XO (XO
    (XO (XO (XO (XI XH))))))))), EEps)), EEmpty)))), EEps)))), (ESeq ((ESeq
    ((ERep1 (EAlt (EEmpty, (EAlt ((ERange ((Zpos (XO (XO (XO (XO (XI
    XH)))))), (Zpos (XO (XI (XO (XO (XI XH)))))))), EEmpty))))), (ESeq ((EAlt
    ((EAlt (EEps, EEmpty)), (EAlt ((ERep1 (ESeq ((ESeq ((ERange ((Zpos (XI
    (XI (XI (XI (XI (XO XH))))))), (Zpos (XO (XO (XO (XO (XO (XI XH))))))))),
    EEps)), (ESeq ((ERep1 (EAlt (EEmpty, (EAlt ((ERange ((Zpos (XO (XO (XO
    (XO (XI XH)))))), (Zpos (XO (XI (XO (XO (XI XH)))))))), EEmpty))))),
    EEps))))), EEmpty)))), EEps)))), EEps)))), EEmpty)))))), EEps)))),
    EEmpty)))))), (EAlt ((ESeq ((ERep1 (ESeq ((ERange ((Zpos (XO (XO (XO (XO
    (XI XH)))))), (Zpos (XI (XO (XO (XO (XI XH)))))))), EEps))), (ESeq ((EAlt
    ((EAlt (EEps, EEmpty)), (EAlt ((ERep1 (ESeq ((ESeq ((ERange ((Zpos (XI
    (XI (XI (XI (XI (XO XH))))))), (Zpos (XO (XO (XO (XO (XO (XI XH))))))))),
    EEps)), (ESeq ((ERep1 (ESeq ((ERange ((Zpos (XO (XO (XO (XO (XI XH)))))),
    (Zpos (XI (XO (XO (XO (XI XH)))))))), EEps))), EEps))))), EEmpty)))),
    EEps)))), EEmpty)))))), (EAlt ((ERep1 (EAlt (EEmpty, (EAlt ((ERange
    ((Zpos (XO (XO (XO (XO (XI XH)))))), (Zpos (XO (XI (XO (XI (XI
    XH)))))))), EEmpty))))), EEmpty)))))))), (ESeq ((EAlt ((EAlt ((ESeq
    ((ESeq ((EAlt ((EAlt (EEps, EEmpty)), (EAlt ((EAlt (EEmpty, (EAlt
    ((ERange ((Zpos (XI (XO (XI (XO (XI (XO XH))))))), (Zpos (XO (XI (XI (XO
    (XI (XO XH))))))))), (EAlt ((ERange ((Zpos (XI (XO (XI (XO (XI (XI
    XH))))))), (Zpos (XO (XI (XI (XO (XI (XI XH))))))))), EEmpty)))))),
    EEmpty)))), (ESeq ((EAlt ((EAlt (EEps, EEmpty)), (EAlt ((EAlt (EEmpty,
    (EAlt ((ERange ((Zpos (XO (XO (XI (XI (XO (XO XH))))))), (Zpos (XI (XO
    (XI (XI (XO (XO XH))))))))), (EAlt ((ERange ((Zpos (XO (XO (XI (XI (XO
    (XI XH))))))), (Zpos (XI (XO (XI (XI (XO (XI XH))))))))), EEmpty)))))),
    EEmpty)))), EEps)))), (ESeq ((EAlt ((EAlt (EEps, EEmpty)), (EAlt ((EAlt
    (EEmpty, (EAlt ((ERange ((Zpos (XO (XO (XI (XI (XO (XO XH))))))), (Zpos
    (XI (XO (XI (XI (XO (XO XH))))))))), (EAlt ((ERange ((Zpos (XO (XO (XI
    (XI (XO (XI XH))))))), (Zpos (XI (XO (XI (XI (XO (XI XH))))))))),
    EEmpty)))))), EEmpty)))), EEps)))), (EAlt ((ESeq ((ESeq ((EAlt ((EAlt
    (EEps, EEmpty)), (EAlt ((EAlt (EEmpty, (EAlt ((ERange ((Zpos (XO (XO (XI
    (XI (XO (XO XH))))))), (Zpos (XI (XO (XI (XI (XO (XO XH))))))))), (EAlt
    ((ERange ((Zpos (XO (XO (XI (XI (XO (XI XH))))))), (Zpos (XI (XO (XI (XI
    (XO (XI XH))))))))), EEmpty)))))), EEmpty)))), (ESeq ((EAlt ((EAlt (EEps,
    EEmpty)), (EAlt ((EAlt (EEmpty, (EAlt ((ERange ((Zpos (XO (XO (XI (XI (XO
    (XO XH))))))), (Zpos (XI (XO (XI (XI (XO (XO XH))))))))), (EAlt ((ERange
    ((Zpos (XO (XO (XI (XI (XO (XI XH))))))), (Zpos (XI (XO (XI (XI (XO (XI
    XH))))))))), EEmpty)))))), EEmpty)))), EEps)))), (ESeq ((EAlt ((EAlt
    (EEps, EEmpty)), (EAlt ((EAlt (EEmpty, (EAlt ((ERange ((Zpos (XI (XO (XI
    (XO (XI (XO XH))))))), (Zpos (XO (XI (XI (XO (XI (XO XH))))))))), (EAlt
    ((ERange ((Zpos (XI (XO (XI (XO (XI (XI XH))))))), (Zpos (XO (XI (XI (XO
    (XI (XI XH))))))))), EEmpty)))))), EEmpty)))), EEps)))), EEmpty)))),
    EEmpty)), EEps)))

(** val x_lex_float : ere **)

let x_lex_float =
  EAlt (EEmpty, (ESeq ((EAlt ((ESym SBol), EEps)), (EAlt ((ESeq ((EAlt
    (EEmpty, (EAlt ((ESeq ((ESeq ((ESeq ((ERep1 (EAlt (EEmpty, (EAlt ((ERange
    ((Zpos (XO (XO (XO (XO (XI XH)))))), (Zpos (XO (XI (XO (XI (XI
    XH)))))))), EEmpty))))), (ESeq ((EAlt ((EAlt (EEps, EEmpty)), (EAlt
    ((ERep1 (ESeq ((ESeq ((ERange ((Zpos (XI (XI (XI (XI (XI (XO XH))))))),
    (Zpos (XO (XO (XO (XO (XO (XI XH))))))))), EEps)), (ESeq ((ERep1 (EAlt
    (EEmpty, (EAlt ((ERange ((Zpos (XO (XO (XO (XO (XI XH)))))), (Zpos (XO
    (XI (XO (XI (XI XH)))))))), EEmpty))))), EEps))))), EEmpty)))), EEps)))),
    (ESeq ((ESeq ((ERange ((Zpos (XO (XI (XI (XI (XO XH)))))), (Zpos (XI (XI
    (XI (XI (XO XH)))))))), EEps)), EEps)))), (ESeq ((EAlt ((EAlt (EEps,
    EEmpty)), (EAlt ((ESeq ((ERep1 (EAlt (EEmpty, (EAlt ((ERange ((Zpos (XO
    (XO (XO (XO (XI XH)))))), (Zpos (XO (XI (XO (XI (XI XH)))))))),
    EEmpty))))), (ESeq ((EAlt ((EAlt (EEps, EEmpty)), (EAlt ((ERep1 (ESeq
    ((ESeq ((ERange ((Zpos (XI (XI (XI (XI (XI (XO XH))))))), (Zpos (XO (XO
    (XO (XO (XO (XI XH))))))))), EEps)), (ESeq ((ERep1 (EAlt (EEmpty, (EAlt
    ((ERange ((Zpos (XO (XO (XO (XO (XI XH)))))), (Zpos (XO (XI (XO (XI (XI
    XH)))))))), EEmpty))))), EEps))))), EEmpty)))), EEps)))), EEmpty)))),
    EEps)))), (EAlt ((ESeq ((ESeq ((ERange ((Zpos (XO (XI (XI (XI (XO
    XH)))))), (Zpos (XI (XI (XI (XI (XO XH)))))))), EEps)), (ESeq ((ESeq
    ((ERep1 (EAlt (EEmpty, (EAlt ((ERange ((Zpos (XO (XO (XO (XO (XI
    XH)))))), (Zpos (XO (XI (XO (XI (XI XH)))))))), EEmpty))))), (ESeq ((EAlt
    ((EAlt (EEps, EEmpty)), (EAlt ((ERep1 (ESeq ((ESeq ((ERange ((Zpos (XI
    (XI (XI (XI (XI (XO XH))))))), (Zpos (XO (XO (XO (XO (XO (XI XH))))))))),
    EEps)), (ESeq ((ERep1 (EAlt (EEmpty, (EAlt ((ERange ((Zpos (XO (XO (XO
    (XO (XI XH)))))), (Zpos (XO (XI (XO (XI (XI XH)))))))), EEmpty))))),
    EEps))))), EEmpty)))), EEps)))), EEps)))), EEmpty)))))), (ESeq ((EAlt
    ((EAlt (EEps, EEmpty)), (EAlt ((ESeq ((ESeq ((EAlt (EEmpty, (EAlt
    ((ERange ((Zpos (XI (XO (XI (XO (XO (XO XH))))))), (Zpos (XO (XI (XI (XO
    (XO (XO XH))))))))), (EAlt ((ERange ((Zpos (XI (XO (XI (XO (XO (XI
    XH))))))), (Zpos (XO (XI (XI (XO (XO (XI XH))))))))), EEmpty)))))), (ESeq
    ((EAlt ((EAlt (EEps, EEmpty)), (EAlt ((EAlt (EEmpty, (EAlt ((ERange
    ((Zpos (XI (XI (XO (XI (XO XH)))))), (Zpos (XO (XO (XI (XI (XO
    XH)))))))), (EAlt ((ERange ((Zpos (XI (XO (XI (XI (XO XH)))))), (Zpos (XO
    (XI (XI (XI (XO XH)))))))), EEmpty)))))), EEmpty)))), EEps)))), (ESeq
    ((ESeq ((ERep1 (EAlt (EEmpty, (EAlt ((ERange ((Zpos (XO (XO (XO (XO (XI
    XH)))))), (Zpos (XO (XI (XO (XI (XI XH)))))))), EEmpty))))), (ESeq ((EAlt
    ((EAlt (EEps, EEmpty)), (EAlt ((ERep1 (ESeq ((ESeq ((ERange ((Zpos (XI
    (XI (XI (XI (XI (XO XH))))))), (Zpos (XO (XO (XO (XO (XO (XI XH))))))))),
    EEps)), (ESeq ((ERep1 (EAlt (EEmpty, (EAlt ((ERange ((Zpos (XO (XO (XO
    (XO (XI XH)))))), (Zpos (XO (XI (XO (XI (XI XH)))))))), EEmpty))))),
    EEps))))), EEmpty)))), EEps)))), EEps)))), EEmpty)))), EEps)))), (EAlt
    ((ESeq ((ESeq ((ERep1 (EAlt (EEmpty, (EAlt ((ERange ((Zpos (XO (XO (XO
    (XO (XI XH)))))), (Zpos (XO (XI (XO (XI (XI XH)))))))), EEmpty))))),
    (ESeq ((EAlt ((EAlt (EEps, EEmpty)), (EAlt ((ERep1 (ESeq ((ESeq ((ERange
    ((Zpos (XI (XI (XI (XI (XI (XO XH))))))), (Zpos (XO (XO (XO (XO (XO (XI
    XH))))))))), EEps)), (ESeq ((ERep1 (EAlt (EEmpty, (EAlt ((ERange ((Zpos
    (XO (XO (XO (XO (XI XH)))))), (Zpos (XO (XI (XO (XI (XI XH)))))))),
    EEmpty))))), EEps))))), EEmpty)))), EEps)))), (ESeq ((ESeq ((ESeq ((EAlt
    (EEmpty, (EAlt ((ERange ((Zpos (XI (XO (XI (XO (XO (XO XH))))))), (Zpos
    (XO (XI (XI (XO (XO (XO XH))))))))), (EAlt ((ERange ((Zpos (XI (XO (XI
    (XO (XO (XI XH))))))), (Zpos (XO (XI (XI (XO (XO (XI XH))))))))),
    EEmpty)))))), (ESeq ((EAlt ((EAlt (EEps, EEmpty)), (EAlt ((EAlt (EEmpty,
    (EAlt ((ERange ((Zpos (XI (XI (XO (XI (XO XH)))))), (Zpos (XO (XO (XI (XI
    (XO XH)))))))), (EAlt ((ERange ((Zpos (XI (XO (XI (XI (XO XH)))))), (Zpos
    (XO (XI (XI (XI (XO XH)))))))), EEmpty)))))), EEmpty)))), EEps)))), (ESeq
    ((ESeq ((ERep1 (EAlt (EEmpty, (EAlt ((ERange ((Zpos (XO (XO (XO (XO (XI
    XH)))))), (Zpos (XO (XI (XO (XI (XI XH)))))))), EEmpty))))), (ESeq ((EAlt
    ((EAlt (EEps, EEmpty)), (EAlt ((ERep1 (ESeq ((ESeq ((ERange ((Zpos (XI
    (XI (XI (XI (XI (XO XH))))))), (Zpos (XO (XO (XO (XO (XO (XI XH))))))))),
    EEps)), (ESeq ((ERep1 (EAlt (EEmpty, (EAlt ((ERange ((Zpos (XO (XO (XO
    (XO (XI XH)))))), (Zpos (XO (XI (XO (XI (XI XH)))))))), EEmpty))))),
    EEps))))), EEmpty)))), EEps)))), EEps)))), EEps)))), EEmpty)))))))

(** val x_lex_imag_old : ere **)

let x_lex_imag_old =
  ESeq ((EAlt (EEmpty, (ESeq ((EAlt ((ESym SBol), EEps)), (EAlt ((EAlt
    (EEmpty, (EAlt ((EAlt (EEmpty, (EAlt ((EAlt (EEmpty, (EAlt ((ESeq ((ESeq
    ((EAlt (EEmpty, (EAlt ((ERange ((Zpos (XI (XO (XO (XO (XI XH)))))), (Zpos
    (XO (XI (XO (XI (XI XH)))))))), EEmpty)))), (ESeq ((EAlt ((EAlt (EEps,
    EEmpty)), (EAlt ((ESeq ((ERange ((Zpos (XI (XI (XI (XI (XI (XO XH))))))),
    (Zpos (XO (XO (XO (XO (XO (XI XH))))))))), EEps)), EEmpty)))), EEps)))),
    (ESeq ((ESeq ((ERep1 (EAlt (EEmpty, (EAlt ((ERange ((Zpos (XO (XO (XO (XO
    (XI XH)))))), (Zpos (XO (XI (XO (XI (XI XH)))))))), EEmpty))))), (ESeq
    ((EAlt ((EAlt (EEps, EEmpty)), (EAlt ((ERep1 (ESeq ((ESeq ((ERange ((Zpos
    (XI (XI (XI (XI (XI (XO XH))))))), (Zpos (XO (XO (XO (XO (XO (XI
    XH))))))))), EEps)), (ESeq ((ERep1 (EAlt (EEmpty, (EAlt ((ERange ((Zpos
    (XO (XO (XO (XO (XI XH)))))), (Zpos (XO (XI (XO (XI (XI XH)))))))),
    EEmpty))))), EEps))))), EEmpty)))), EEps)))), EEps)))), (EAlt ((ESeq
    ((ESeq ((ERange ((Zpos (XO (XO (XO (XO (XI XH)))))), (Zpos (XI (XO (XO
    (XO (XI XH)))))))), EEps)), (ESeq ((EAlt (EEmpty, (EAlt ((EAlt (EEmpty,
    (EAlt ((ESeq ((ESeq ((EAlt (EEmpty, (EAlt ((ERange ((Zpos (XO (XO (XO (XI
    (XI (XO XH))))))), (Zpos (XI (XO (XO (XI (XI (XO XH))))))))), (EAlt
    ((ERange ((Zpos (XO (XO (XO (XI (XI (XI XH))))))), (Zpos (XI (XO (XO (XI
    (XI (XI XH))))))))), EEmpty)))))), (ESeq ((EAlt ((EAlt (EEps, EEmpty)),
    (EAlt ((ESeq ((ERange ((Zpos (XI (XI (XI (XI (XI (XO XH))))))), (Zpos (XO
    (XO (XO (XO (XO (XI XH))))))))), EEps)), EEmpty)))), EEps)))), (ESeq
    ((ESeq ((ERep1 (EAlt (EEmpty, (EAlt ((ERange ((Zpos (XO (XO (XO (XO (XI
    XH)))))), (Zpos (XO (XI (XO (XI (XI XH)))))))), (EAlt ((ERange ((Zpos (XI
    (XO (XO (XO (XO (XO XH))))))), (Zpos (XI (XI (XI (XO (XO (XO XH))))))))),
    (EAlt ((ERange ((Zpos (XI (XO (XO (XO (XO (XI XH))))))), (Zpos (XI (XI
    (XI (XO (XO (XI XH))))))))), EEmpty))))))))), (ESeq ((EAlt ((EAlt (EEps,
    EEmpty)), (EAlt ((ERep1 (ESeq ((ESeq ((ERange ((Zpos (XI (XI (XI (XI (XI
    (XO XH))))))), (Zpos (XO (XO (XO (XO (XO (XI XH))))))))), EEps)), (ESeq
    ((ERep1 (EAlt (EEmpty, (EAlt ((ERange ((Zpos (XO (XO (XO (XO (XI
    XH)))))), (Zpos (XO (XI (XO (XI (XI XH)))))))), (EAlt ((ERange ((Zpos (XI
    (XO (XO (XO (XO (XO XH))))))), (Zpos (XI (XI (XI (XO (XO (XO XH))))))))),
    (EAlt ((ERange ((Zpos (XI (XO (XO (XO (XO (XI XH))))))), (Zpos (XI (XI
    (XI (XO (XO (XI XH))))))))), EEmpty))))))))), EEps))))), EEmpty)))),
    EEps)))), EEps)))), (EAlt ((ESeq ((ESeq ((EAlt (EEmpty, (EAlt ((ERange
    ((Zpos (XI (XI (XI (XI (XO (XO XH))))))), (Zpos (XO (XO (XO (XO (XI (XO
    XH))))))))), (EAlt ((ERange ((Zpos (XI (XI (XI (XI (XO (XI XH))))))),
    (Zpos (XO (XO (XO (XO (XI (XI XH))))))))), EEmpty)))))), (ESeq ((EAlt
    ((EAlt (EEps, EEmpty)), (EAlt ((ESeq ((ERange ((Zpos (XI (XI (XI (XI (XI
    (XO XH))))))), (Zpos (XO (XO (XO (XO (XO (XI XH))))))))), EEps)),
    EEmpty)))), EEps)))), (ESeq ((ESeq ((ERep1 (EAlt (EEmpty, (EAlt ((ERange
    ((Zpos (XO (XO (XO (XO (XI XH)))))), (Zpos (XO (XO (XO (XI (XI
    XH)))))))), EEmpty))))), (ESeq ((EAlt ((EAlt (EEps, EEmpty)), (EAlt
    ((ERep1 (ESeq ((ESeq ((ERange ((Zpos (XI (XI (XI (XI (XI (XO XH))))))),
    (Zpos (XO (XO (XO (XO (XO (XI XH))))))))), EEps)), (ESeq ((ERep1 (EAlt
    (EEmpty, (EAlt ((ERange ((Zpos (XO (XO (XO (XO (XI XH)))))), (Zpos (XO
    (XO (XO (XI (XI XH)))))))), EEmpty))))), EEps))))), EEmpty)))), EEps)))),
    EEps)))), EEmpty)))))), (EAlt ((ESeq ((ESeq ((EAlt (EEmpty, (EAlt
    ((ERange ((Zpos (XO (XI (XO (XO (XO (XO XH))))))), (Zpos (XI (XI (XO (XO
    (XO (XO XH))))))))), (EAlt ((ERange ((Zpos (XO (XI (XO (XO (XO (XI
    XH))))))), (Zpos (XI (XI (XO (XO (XO (XI XH))))))))), EEmpty)))))), (ESeq
    ((EAlt ((EAlt (EEps, EEmpty)), (EAlt ((ESeq ((ERange ((Zpos (XI (XI (XI
    (XI (XI (XO XH))))))), (Zpos (XO (XO (XO (XO (XO (XI XH))))))))), EEps)),
    EEmpty)))), EEps)))), (ESeq ((ESeq ((ERep1 (EAlt (EEmpty, (EAlt ((ERange
    ((Zpos (XO (XO (XO (XO (XI XH)))))), (Zpos (XO (XI (XO (XO (XI
    XH)))))))), EEmpty))))), (ESeq ((EAlt ((EAlt (EEps, EEmpty)), (EAlt
    ((ERep1 (ESeq ((ESeq ((ERange ((Zpos (XI (XI (XI (XI (XI (XO XH))))))),
    (Zpos (XO (XO (XO (XO (XO (XI XH))))))))), EEps)), (ESeq ((ERep1 (EAlt
    (EEmpty, (EAlt ((ERange ((Zpos (XO (XO (XO (XO (XI XH)))))), (Zpos (XO
    (XI (XO (XO (XI XH)))))))), EEmpty))))), EEps))))), EEmpty)))), EEps)))),
    EEps)))), EEmpty)))))), EEps)))), EEmpty)))))), (EAlt ((ESeq ((ERep1
    (ESeq ((ERange ((Zpos (XO (XO (XO (XO (XI XH)))))), (Zpos (XI (XO (XO (XO
    (XI XH)))))))), EEps))), (ESeq ((EAlt ((EAlt (EEps, EEmpty)), (EAlt
    ((ERep1 (ESeq ((ESeq ((ERange ((Zpos (XI (XI (XI (XI (XI (XO XH))))))),
    (Zpos (XO (XO (XO (XO (XO (XI XH))))))))), EEps)), (ESeq ((ERep1 (ESeq
    ((ERange ((Zpos (XO (XO (XO (XO (XI XH)))))), (Zpos (XI (XO (XO (XO (XI
    XH)))))))), EEps))), EEps))))), EEmpty)))), EEps)))), EEmpty)))))), (EAlt
    ((ERep1 (EAlt (EEmpty, (EAlt ((ERange ((Zpos (XO (XO (XO (XO (XI
    XH)))))), (Zpos (XO (XI (XO (XI (XI XH)))))))), EEmpty))))),
    EEmpty)))))), (EAlt ((EAlt (EEmpty, (EAlt ((ESeq ((EAlt (EEmpty, (EAlt
    ((ESeq ((ESeq ((ESeq ((ERep1 (EAlt (EEmpty, (EAlt ((ERange ((Zpos (XO (XO
    (XO (XO (XI XH)))))), (Zpos (XO (XI (XO (XI (XI XH)))))))), EEmpty))))),
    (ESeq ((EAlt ((EAlt (EEps, EEmpty)), (EAlt ((ERep1 (ESeq ((ESeq ((ERange
    ((Zpos (XI (XI (XI (XI (XI (XO XH))))))), (Zpos (XO (XO (XO (XO (XO (XI
    XH))))))))), EEps)), (ESeq ((ERep1 (EAlt (EEmpty, (EAlt ((ERange ((Zpos
    (XO (XO (XO (XO (XI XH)))))), (Zpos (XO (XI (XO (XI (XI XH)))))))),
    EEmpty))))), EEps))))), EEmpty)))), EEps)))), (ESeq ((ESeq ((ERange
    ((Zpos (XO (XI (XI (XI (XO XH)))))), (Zpos (XI (XI (XI (XI (XO
    XH)))))))), EEps)), EEps)))), (ESeq ((EAlt ((EAlt (EEps, EEmpty)), (EAlt
    ((ESeq ((ERep1 (EAlt (EEmpty, (EAlt ((ERange ((Zpos (XO (XO (XO (XO (XI
    XH)))))), (Zpos (XO (XI (XO (XI (XI XH)))))))), EEmpty))))), (ESeq ((EAlt
    ((EAlt (EEps, EEmpty)), (EAlt ((ERep1 (ESeq ((ESeq ((ERange ((Zpos (XI
    (XI (XI (XI (XI (XO XH))))))), (Zpos (XO (XO (XO (XO (XO (XI XH))))))))),
    EEps)), (ESeq ((ERep1 (EAlt (EEmpty, (EAlt ((ERange ((Zpos (XO (XO (XO
    (XO (XI XH)))))), (Zpos (XO (XI (XO (XI (XI XH)))))))), EEmpty))))),
    EEps))))), EEmpty)))), EEps)))), EEmpty)))), EEps)))), (EAlt ((ESeq
    ((ESeq ((ERange ((Zpos (XO (XI (XI (XI (XO XH)))))), (Zpos (XI (XI (XI
    (XI (XO XH)))))))), EEps)), (ESeq ((ESeq ((ERep1 (EAlt (EEmpty, (EAlt
    ((ERange ((Zpos (XO (XO (XO (XO (XI XH)))))), (Zpos (XO (XI (XO (XI (XI
    XH)))))))), EEmpty))))), (ESeq ((EAlt ((EAlt (EEps, EEmpty)), (EAlt
    ((ERep1 (ESeq ((ESeq ((ERange ((Zpos (XI (XI (XI (XI (XI (XO XH))))))),
    (Zpos (XO (XO (XO (XO (XO (XI XH))))))))), EEps)), (ESeq ((ERep1 (EAlt
    (EEmpty, (EAlt ((ERange ((Zpos (XO (XO (XO (XO (XI XH)))))), (Zpos (XO
    (XI (XO (XI (XI XH)))))))), EEmpty))))), EEps))))), EEmpty)))), EEps)))),
    EEps)))), EEmpty)))))), (ESeq ((EAlt ((EAlt (EEps, EEmpty)), (EAlt ((ESeq
    ((ESeq ((EAlt (EEmpty, (EAlt ((ERange ((Zpos (XI (XO (XI (XO (XO (XO
    XH))))))), (Zpos (XO (XI (XI (XO (XO (XO XH))))))))), (EAlt ((ERange
    ((Zpos (XI (XO (XI (XO (XO (XI XH))))))), (Zpos (XO (XI (XI (XO (XO (XI
    XH))))))))), EEmpty)))))), (ESeq ((EAlt ((EAlt (EEps, EEmpty)), (EAlt
    ((EAlt (EEmpty, (EAlt ((ERange ((Zpos (XI (XI (XO (XI (XO XH)))))), (Zpos
    (XO (XO (XI (XI (XO XH)))))))), (EAlt ((ERange ((Zpos (XI (XO (XI (XI (XO
    XH)))))), (Zpos (XO (XI (XI (XI (XO XH)))))))), EEmpty)))))), EEmpty)))),
    EEps)))), (ESeq ((ESeq ((ERep1 (EAlt (EEmpty, (EAlt ((ERange ((Zpos (XO
    (XO (XO (XO (XI XH)))))), (Zpos (XO (XI (XO (XI (XI XH)))))))),
    EEmpty))))), (ESeq ((EAlt ((EAlt (EEps, EEmpty)), (EAlt ((ERep1 (ESeq
    ((ESeq ((ERange ((Zpos (XI (XI (XI (XI (XI (XO XH))))))), (Zpos (XO (XO
    (XO (XO (XO (XI XH))))))))), EEps)), (ESeq ((ERep1 (EAlt (EEmpty, (EAlt
    ((ERange ((Zpos (XO (XO (XO (XO (XI XH)))))), (Zpos (XO (XI (XO (XI (XI
    XH)))))))), EEmpty))))), EEps))))), EEmpty)))), EEps)))), EEps)))),
    EEmpty)))), EEps)))), (EAlt ((ESeq ((ESeq ((ERep1 (EAlt (EEmpty, (EAlt
    ((ERange ((Zpos (XO (XO (XO (XO (XI XH)))))), (Zpos (XO (XI (XO (XI (XI
    XH)))))))), EEmpty))))), (ESeq ((EAlt ((EAlt (EEps, EEmpty)), (EAlt
    ((ERep1 (ESeq ((ESeq ((ERange ((Zpos (XI (XI (XI (XI (XI (XO XH))))))),
    (Zpos (XO (XO (XO (XO (XO (XI XH))))))))), EEps)), (ESeq ((ERep1 (EAlt
    (EEmpty, (EAlt ((ERange ((Zpos (XO (XO (XO (XO (XI XH)))))), (Zpos (XO
    (XI (XO (XI (XI XH)))))))), EEmpty))))), EEps))))), EEmpty)))), EEps)))),
    (ESeq ((ESeq ((ESeq ((EAlt (EEmpty, (EAlt ((ERange ((Zpos (XI (XO (XI (XO
    (XO (XO XH))))))), (Zpos (XO (XI (XI (XO (XO (XO XH))))))))), (EAlt
    ((ERange ((Zpos (XI (XO (XI (XO (XO (XI XH))))))), (Zpos (XO (XI (XI (XO
    (XO (XI XH))))))))), EEmpty)))))), (ESeq ((EAlt ((EAlt (EEps, EEmpty)),
    (EAlt ((EAlt (EEmpty, (EAlt ((ERange ((Zpos (XI (XI (XO (XI (XO XH)))))),
    (Zpos (XO (XO (XI (XI (XO XH)))))))), (EAlt ((ERange ((Zpos (XI (XO (XI
    (XI (XO XH)))))), (Zpos (XO (XI (XI (XI (XO XH)))))))), EEmpty)))))),
    EEmpty)))), EEps)))), (ESeq ((ESeq ((ERep1 (EAlt (EEmpty, (EAlt ((ERange
    ((Zpos (XO (XO (XO (XO (XI XH)))))), (Zpos (XO (XI (XO (XI (XI
    XH)))))))), EEmpty))))), (ESeq ((EAlt ((EAlt (EEps, EEmpty)), (EAlt
    ((ERep1 (ESeq ((ESeq ((ERange ((Zpos (XI (XI (XI (XI (XI (XO XH))))))),
    (Zpos (XO (XO (XO (XO (XO (XI XH))))))))), EEps)), (ESeq ((ERep1 (EAlt
    (EEmpty, (EAlt ((ERange ((Zpos (XO (XO (XO (XO (XI XH)))))), (Zpos (XO
    (XI (XO (XI (XI XH)))))))), EEmpty))))), EEps))))), EEmpty)))), EEps)))),
    EEps)))), EEps)))), EEmpty)))))), EEmpty)))))))), (ESeq ((EAlt (EEmpty,
    (EAlt ((ERange ((Zpos (XO (XI (XO (XI (XO (XO XH))))))), (Zpos (XI (XI
    (XO (XI (XO (XO XH))))))))), (EAlt ((ERange ((Zpos (XO (XI (XO (XI (XO
    (XI XH))))))), (Zpos (XI (XI (XO (XI (XO (XI XH))))))))), EEmpty)))))),
    EEps)))

(** val x_lex_imag_new : ere **)

let x_lex_imag_new =
  ESeq ((EAlt (EEmpty, (ESeq ((EAlt ((ESym SBol), EEps)), (EAlt ((EAlt
    (EEmpty, (EAlt ((EAlt (EEmpty, (EAlt ((EAlt (EEmpty, (EAlt ((EAlt
    (EEmpty, (EAlt ((ESeq ((ESeq ((EAlt (EEmpty, (EAlt ((ERange ((Zpos (XI
    (XO (XO (XO (XI XH)))))), (Zpos (XO (XI (XO (XI (XI XH)))))))),
    EEmpty)))), (ESeq ((EAlt ((EAlt (EEps, EEmpty)), (EAlt ((ESeq ((ERange
    ((Zpos (XI (XI (XI (XI (XI (XO XH))))))), (Zpos (XO (XO (XO (XO (XO (XI
    XH))))))))), EEps)), EEmpty)))), EEps)))), (ESeq ((ESeq ((ERep1 (EAlt
    (EEmpty, (EAlt ((ERange ((Zpos (XO (XO (XO (XO (XI XH)))))), (Zpos (XO
    (XI (XO (XI (XI XH)))))))), EEmpty))))), (ESeq ((EAlt ((EAlt (EEps,
    EEmpty)), (EAlt ((ERep1 (ESeq ((ESeq ((ERange ((Zpos (XI (XI (XI (XI (XI
    (XO XH))))))), (Zpos (XO (XO (XO (XO (XO (XI XH))))))))), EEps)), (ESeq
    ((ERep1 (EAlt (EEmpty, (EAlt ((ERange ((Zpos (XO (XO (XO (XO (XI
    XH)))))), (Zpos (XO (XI (XO (XI (XI XH)))))))), EEmpty))))), EEps))))),
    EEmpty)))), EEps)))), EEps)))), (EAlt ((ESeq ((ESeq ((ERange ((Zpos (XO
    (XO (XO (XO (XI XH)))))), (Zpos (XI (XO (XO (XO (XI XH)))))))), EEps)),
    (ESeq ((EAlt (EEmpty, (EAlt ((EAlt (EEmpty, (EAlt ((ESeq ((ESeq ((EAlt
    (EEmpty, (EAlt ((ERange ((Zpos (XO (XO (XO (XI (XI (XO XH))))))), (Zpos
    (XI (XO (XO (XI (XI (XO XH))))))))), (EAlt ((ERange ((Zpos (XO (XO (XO
    (XI (XI (XI XH))))))), (Zpos (XI (XO (XO (XI (XI (XI XH))))))))),
    EEmpty)))))), (ESeq ((EAlt ((EAlt (EEps, EEmpty)), (EAlt ((ESeq ((ERange
    ((Zpos (XI (XI (XI (XI (XI (XO XH))))))), (Zpos (XO (XO (XO (XO (XO (XI
    XH))))))))), EEps)), EEmpty)))), EEps)))), (ESeq ((ESeq ((ERep1 (EAlt
    (EEmpty, (EAlt ((ERange ((Zpos (XO (XO (XO (XO (XI XH)))))), (Zpos (XO
    (XI (XO (XI (XI XH)))))))), (EAlt ((ERange ((Zpos (XI (XO (XO (XO (XO (XO
    XH))))))), (Zpos (XI (XI (XI (XO (XO (XO XH))))))))), (EAlt ((ERange
    ((Zpos (XI (XO (XO (XO (XO (XI XH))))))), (Zpos (XI (XI (XI (XO (XO (XI
    XH))))))))), EEmpty))))))))), (ESeq ((EAlt ((EAlt (EEps, EEmpty)), (EAlt
    ((ERep1 (ESeq ((ESeq ((ERange ((Zpos (XI (XI (XI (XI (XI (XO XH))))))),
    (Zpos (XO (XO (XO (XO (XO (XI XH))))))))), EEps)), (ESeq ((ERep1 (EAlt
    (EEmpty, (EAlt ((ERange ((Zpos (XO (XO (XO (XO (XI XH)))))), (Zpos (XO
    (XI (XO (XI (XI XH)))))))), (EAlt ((ERange ((Zpos (XI (XO (XO (XO (XO (XO
    XH))))))), (Zpos (XI (XI (XI (XO (XO (XO XH))))))))), (EAlt ((ERange
    ((Zpos (XI (XO (XO (XO (XO (XI XH))))))), (Zpos (XI (XI (XI (XO (XO (XI
    XH))))))))), EEmpty))))))))), EEps))))), EEmpty)))), EEps)))), EEps)))),
    (EAlt ((ESeq ((ESeq ((EAlt (EEmpty, (EAlt ((ERange ((Zpos (XI (XI (XI (XI
    (XO (XO XH))))))), (Zpos (XO (XO (XO (XO (XI (XO XH))))))))), (EAlt
    ((ERange ((Zpos (XI (XI (XI (XI (XO (XI XH))))))), (Zpos (XO (XO (XO (XO
    (XI (XI XH))))))))), EEmpty)))))), (ESeq ((EAlt ((EAlt (EEps, EEmpty)),
    (EAlt ((ESeq ((ERange ((Zpos (XI (XI (XI (XI (XI (XO XH))))))), (Zpos (XO
    (XO (XO (XO (XO (XI XH))))))))), EEps)), EEmpty)))), EEps)))), (ESeq
    ((ESeq ((ERep1 (EAlt (EEmpty, (EAlt ((ERange ((Zpos (XO (XO (XO (XO (XI
    XH)))))), (Zpos (XO (XO (XO (XI (XI XH)))))))), EEmpty))))), (ESeq ((EAlt
    ((EAlt (EEps, EEmpty)), (EAlt ((ERep1 (ESeq ((ESeq ((ERange ((Zpos (XI
    (XI (XI (XI (XI (XO XH))))))), (Zpos (XO (XO (XO (XO (XO (XI XH))))))))),
    EEps)), (ESeq ((ERep1 (EAlt (EEmpty, (EAlt ((ERange ((Zpos (XO (XO (XO
    (XO (XI XH)))))), (Zpos (XO (XO (XO (XI (XI XH)))))))), EEmpty))))),
    EEps))))), EEmpty)))), EEps)))), EEps)))), EEmpty)))))), (EAlt ((ESeq
    ((ESeq ((EAlt (EEmpty, (EAlt ((ERange ((Zpos (XO (XI (XO (XO (XO (XO
    XH))))))), (Zpos (XI (XI (XO (XO (XO (XO XH))))))))), (EAlt ((ERange
    ((Zpos (XO (XI (XO (XO (XO (XI XH))))))), (Zpos (XI (XI (XO (XO (XO (XI
    XH))))))))), EEmpty)))))), (ESeq ((EAlt ((EAlt (EEps, EEmpty)), (EAlt
    ((ESeq ((ERange ((Zpos (XI (XI (XI (XI (XI (XO XH))))))), (Zpos (XO (XO
    (XO (XO (XO (XI XH))))))))), EEps)), EEmpty)))), EEps)))), (ESeq ((ESeq
    ((ERep1 (EAlt (EEmpty, (EAlt ((ERange ((Zpos (XO (XO (XO (XO (XI
    XH)))))), (Zpos (XO (XI (XO (XO (XI XH)))))))), EEmpty))))), (ESeq ((EAlt
    ((EAlt (EEps, EEmpty)), (EAlt ((ERep1 (ESeq ((ESeq ((ERange ((Zpos (XI
    (XI (XI (XI (XI (XO XH))))))), (Zpos (XO (XO (XO (XO (XO (XI XH))))))))),
    EEps)), (ESeq ((ERep1 (EAlt (EEmpty, (EAlt ((ERange ((Zpos (XO (XO (XO
    (XO (XI XH)))))), (Zpos (XO (XI (XO (XO (XI XH)))))))), EEmpty))))),
    EEps))))), EEmpty)))), EEps)))), EEps)))), EEmpty)))))), EEps)))),
    EEmpty)))))), (EAlt ((ESeq ((ERep1 (ESeq ((ERange ((Zpos (XO (XO (XO (XO
    (XI XH)))))), (Zpos (XI (XO (XO (XO (XI XH)))))))), EEps))), (ESeq ((EAlt
    ((EAlt (EEps, EEmpty)), (EAlt ((ERep1 (ESeq ((ESeq ((ERange ((Zpos (XI
    (XI (XI (XI (XI (XO XH))))))), (Zpos (XO (XO (XO (XO (XO (XI XH))))))))),
    EEps)), (ESeq ((ERep1 (ESeq ((ERange ((Zpos (XO (XO (XO (XO (XI XH)))))),
    (Zpos (XI (XO (XO (XO (XI XH)))))))), EEps))), EEps))))), EEmpty)))),
    EEps)))), EEmpty)))))), (EAlt ((ERep1 (EAlt (EEmpty, (EAlt ((ERange
    ((Zpos (XO (XO (XO (XO (XI XH)))))), (Zpos (XO (XI (XO (XI (XI
    XH)))))))), EEmpty))))), EEmpty)))))), (EAlt ((EAlt (EEmpty, (EAlt ((ESeq
    ((EAlt (EEmpty, (EAlt ((ESeq ((ESeq ((ESeq ((ERep1 (EAlt (EEmpty, (EAlt
    ((ERange ((Zpos (XO (XO (XO (XO (XI XH)))))), (Zpos (XO (XI (XO (XI (XI
    XH)))))))), EEmpty))))), (ESeq ((EAlt ((EAlt (EEps, EEmpty)), (EAlt
    ((ERep1 (ESeq ((ESeq ((ERange ((Zpos (XI (XI (XI (XI (XI (XO XH))))))),
    (Zpos (XO (XO (XO (XO (XO (XI XH))))))))), EEps)), (ESeq ((ERep1 (EAlt
    (EEmpty, (EAlt ((ERange ((Zpos (XO (XO (XO (XO (XI XH)))))), (Zpos (XO
    (XI (XO (XI (XI XH)))))))), EEmpty))))), EEps))))), EEmpty)))), EEps)))),
    (ESeq ((ESeq ((ERange ((Zpos (XO (XI (XI (XI (XO XH)))))), (Zpos (XI (XI
    (XI (XI (XO XH)))))))), EEps)), EEps)))), (ESeq ((EAlt ((EAlt (EEps,
    EEmpty)), (EAlt ((ESeq ((ERep1 (EAlt (EEmpty, (EAlt ((ERange ((Zpos (XO
    (XO (XO (XO (XI XH)))))), (Zpos (XO (XI (XO (XI (XI XH)))))))),
    EEmpty))))), (ESeq ((EAlt ((EAlt (EEps, EEmpty)), (EAlt ((ERep1 (ESeq
    ((ESeq ((ERange ((Zpos (XI (XI (XI (XI (XI (XO XH))))))), (Zpos (XO (XO
    (XO (XO (XO (XI XH))))))))), EEps)), (ESeq ((ERep1 (EAlt (EEmpty, (EAlt
    ((ERange ((Zpos (XO (XO (XO (XO (XI XH)))))), (Zpos (XO (XI (XO (XI (XI
    XH)))))))), EEmpty))))), EEps))))), EEmpty)))), EEps)))), EEmpty)))),
    EEps)))), (EAlt ((ESeq ((ESeq ((ERange ((Zpos (XO (XI (XI (XI (XO
    XH)))))), (Zpos (XI (XI (XI (XI (XO XH)))))))), EEps)), (ESeq ((ESeq
    ((ERep1 (EAlt (EEmpty, (EAlt ((ERange ((Zpos (XO (XO (XO (XO (XI
    XH)))))), (Zpos (XO (XI (XO (XI (XI XH)))))))), EEmpty))))), (ESeq ((EAlt
    ((EAlt (EEps, EEmpty)), (EAlt ((ERep1 (ESeq ((ESeq ((ERange ((Zpos (XI
    (XI (XI (XI (XI (XO XH))))))), (Zpos (XO (XO (XO (XO (XO (XI XH))))))))),
    EEps)), (ESeq ((ERep1 (EAlt (EEmpty, (EAlt ((ERange ((Zpos (XO (XO (XO
    (XO (XI XH)))))), (Zpos (XO (XI (XO (XI (XI XH)))))))), EEmpty))))),
    EEps))))), EEmpty)))), EEps)))), EEps)))), EEmpty)))))), (ESeq ((EAlt
    ((EAlt (EEps, EEmpty)), (EAlt ((ESeq ((ESeq ((EAlt (EEmpty, (EAlt
    ((ERange ((Zpos (XI (XO (XI (XO (XO (XO XH))))))), (Zpos (XO (XI (XI (XO
    (XO (XO XH))))))))), (EAlt ((ERange ((Zpos (XI (XO (XI (XO (XO (XI
    XH))))))), (Zpos (XO (XI (XI (XO (XO (XI XH))))))))), EEmpty)))))), (ESeq
    ((EAlt ((EAlt (EEps, EEmpty)), (EAlt ((EAlt (EEmpty, (EAlt ((ERange
    ((Zpos (XI (XI (XO (XI (XO XH)))))), (Zpos (XO (XO (XI (XI (XO
    XH)))))))), (EAlt ((ERange ((Zpos (XI (XO (XI (XI (XO XH)))))), (Zpos (XO
    (XI (XI (XI (XO XH)))))))), EEmpty)))))), EEmpty)))), EEps)))), (ESeq
    ((ESeq ((ERep1 (EAlt (EEmpty, (EAlt ((ERange ((Zpos (XO (XO (XO (XO (XI
    XH)))))), (Zpos (XO (XI (XO (XI (XI XH)))))))), EEmpty))))), (ESeq ((EAlt
    ((EAlt (EEps, EEmpty)), (EAlt ((ERep1 (ESeq ((ESeq ((ERange ((Zpos (XI
    (XI (XI (XI (XI (XO XH))))))), (Zpos (XO (XO (XO (XO (XO (XI XH))))))))),
    EEps)), (ESeq ((ERep1 (EAlt (EEmpty, (EAlt ((ERange ((Zpos (XO (XO (XO
    (XO (XI XH)))))), (Zpos (XO (XI (XO (XI (XI XH)))))))), EEmpty))))),
    EEps))))), EEmpty)))), EEps)))), EEps)))), EEmpty)))), EEps)))), (EAlt
    ((ESeq ((ESeq ((ERep1 (EAlt (EEmpty, (EAlt ((ERange ((Zpos (XO (XO (XO
    (XO (XI XH)))))), (Zpos (XO (XI (XO (XI (XI XH)))))))), EEmpty))))),
    (ESeq ((EAlt ((EAlt (EEps, EEmpty)), (EAlt ((ERep1 (ESeq ((ESeq ((ERange
    ((Zpos (XI (XI (XI (XI (XI (XO XH))))))), (Zpos (XO (XO (XO (XO (XO (XI
    XH))))))))), EEps)), (ESeq ((ERep1 (EAlt (EEmpty, (EAlt ((ERange ((Zpos
    (XO (XO (XO (XO (XI XH)))))), (Zpos (XO (XI (XO (XI (XI XH)))))))),
    EEmpty))))), EEps))))), EEmpty)))), EEps)))), (ESeq ((ESeq ((ESeq ((EAlt
    (EEmpty, (EAlt ((ERange ((Zpos (XI (XO (XI (XO (XO (XO XH))))))), (Zpos
    (XO (XI (XI (XO (XO (XO XH))))))))), (EAlt ((ERange ((Zpos (XI (XO (XI
    (XO (XO (XI XH))))))), (Zpos (XO (XI (XI (XO (XO (XI XH))))))))),
    EEmpty)))))), (ESeq ((EAlt ((EAlt (EEps, EEmpty)), (EAlt ((EAlt (EEmpty,
    (EAlt ((ERange ((Zpos (XI (XI (XO (XI (XO XH)))))), (Zpos (XO (XO (XI (XI
    (XO XH)))))))), (EAlt ((ERange ((Zpos (XI (XO (XI (XI (XO XH)))))), (Zpos
    (XO (XI (XI (XI (XO XH)))))))), EEmpty)))))), EEmpty)))), EEps)))), (ESeq
    ((ESeq ((ERep1 (EAlt (EEmpty, (EAlt ((ERange ((Zpos (XO (XO (XO (XO (XI
    XH)))))), (Zpos (XO (XI (XO (XI (XI XH)))))))), EEmpty))))), (ESeq ((EAlt
    ((EAlt (EEps, EEmpty)), (EAlt ((ERep1 (ESeq ((ESeq ((ERange ((Zpos (XI
    (XI (XI (XI (XI (XO XH))))))), (Zpos (XO (XO (XO (XO (XO (XI XH))))))))),
    EEps)), (ESeq ((ERep1 (EAlt (EEmpty, (EAlt ((ERange ((Zpos (XO (XO (XO
    (XO (XI XH)))))), (Zpos (XO (XI (XO (XI (XI XH)))))))), EEmpty))))),
    EEps))))), EEmpty)))), EEps)))), EEps)))), EEps)))), EEmpty)))))),
    EEmpty)))))), (EAlt ((ESeq ((ERep1 (EAlt (EEmpty, (EAlt ((ERange ((Zpos
    (XO (XO (XO (XO (XI XH)))))), (Zpos (XO (XI (XO (XI (XI XH)))))))),
    EEmpty))))), (ESeq ((EAlt ((EAlt (EEps, EEmpty)), (EAlt ((ERep1 (ESeq
    ((ESeq ((ERange ((Zpos (XI (XI (XI (XI (XI (XO XH))))))), (Zpos (XO (XO
    (XO (XO (XO (XI XH))))))))), EEps)), (ESeq ((ERep1 (EAlt (EEmpty, (EAlt
    ((ERange ((Zpos (XO (XO (XO (XO (XI XH)))))), (Zpos (XO (XI (XO (XI (XI
    XH)))))))), EEmpty))))), EEps))))), EEmpty)))), EEps)))), EEmpty)))))))),
    (ESeq ((EAlt (EEmpty, (EAlt ((ERange ((Zpos (XO (XI (XO (XI (XO (XO
    XH))))))), (Zpos (XI (XI (XO (XI (XO (XO XH))))))))), (EAlt ((ERange
    ((Zpos (XO (XI (XO (XI (XO (XI XH))))))), (Zpos (XI (XI (XO (XI (XO (XI
    XH))))))))), EEmpty)))))), EEps)))

(** val x_py_integer : ere **)

let x_py_integer =
  EAlt ((EAlt ((ESeq ((ERange ((Zpos (XI (XO (XO (XO (XI XH)))))), (Zpos (XO
    (XI (XO (XI (XI XH)))))))), (EAlt ((ERep1 (ESeq ((EAlt ((EAlt ((ERange
    ((Zpos (XI (XI (XI (XI (XI (XO XH))))))), (Zpos (XO (XO (XO (XO (XO (XI
    XH))))))))), EEmpty)), EEps)), (ERange ((Zpos (XO (XO (XO (XO (XI
    XH)))))), (Zpos (XO (XI (XO (XI (XI XH))))))))))), EEps)))), (ESeq
    ((ERep1 (EAlt ((ERange ((Zpos (XO (XO (XO (XO (XI XH)))))), (Zpos (XI (XO
    (XO (XO (XI XH)))))))), EEmpty))), (EAlt ((ERep1 (ESeq ((EAlt ((EAlt
    ((ERange ((Zpos (XI (XI (XI (XI (XI (XO XH))))))), (Zpos (XO (XO (XO (XO
    (XO (XI XH))))))))), EEmpty)), EEps)), (EAlt ((ERange ((Zpos (XO (XO (XO
    (XO (XI XH)))))), (Zpos (XI (XO (XO (XO (XI XH)))))))), EEmpty))))),
    EEps)))))), (EAlt ((ESeq ((EAlt ((ERange ((Zpos (XO (XO (XO (XO (XI
    XH)))))), (Zpos (XI (XO (XO (XO (XI XH)))))))), EEmpty)), (ESeq ((EAlt
    ((ERange ((Zpos (XO (XI (XO (XO (XO (XI XH))))))), (Zpos (XI (XI (XO (XO
    (XO (XI XH))))))))), (EAlt ((ERange ((Zpos (XO (XI (XO (XO (XO (XO
    XH))))))), (Zpos (XI (XI (XO (XO (XO (XO XH))))))))), EEmpty)))), (ERep1
    (ESeq ((EAlt ((EAlt ((ERange ((Zpos (XI (XI (XI (XI (XI (XO XH))))))),
    (Zpos (XO (XO (XO (XO (XO (XI XH))))))))), EEmpty)), EEps)), (EAlt
    ((ERange ((Zpos (XO (XO (XO (XO (XI XH)))))), (Zpos (XI (XO (XO (XO (XI
    XH)))))))), (EAlt ((ERange ((Zpos (XI (XO (XO (XO (XI XH)))))), (Zpos (XO
    (XI (XO (XO (XI XH)))))))), EEmpty))))))))))), (EAlt ((ESeq ((EAlt
    ((ERange ((Zpos (XO (XO (XO (XO (XI XH)))))), (Zpos (XI (XO (XO (XO (XI
    XH)))))))), EEmpty)), (ESeq ((EAlt ((ERange ((Zpos (XI (XI (XI (XI (XO
    (XI XH))))))), (Zpos (XO (XO (XO (XO (XI (XI XH))))))))), (EAlt ((ERange
    ((Zpos (XI (XI (XI (XI (XO (XO XH))))))), (Zpos (XO (XO (XO (XO (XI (XO
    XH))))))))), EEmpty)))), (ERep1 (ESeq ((EAlt ((EAlt ((ERange ((Zpos (XI
    (XI (XI (XI (XI (XO XH))))))), (Zpos (XO (XO (XO (XO (XO (XI XH))))))))),
    EEmpty)), EEps)), (ERange ((Zpos (XO (XO (XO (XO (XI XH)))))), (Zpos (XO
    (XO (XO (XI (XI XH))))))))))))))), (ESeq ((EAlt ((ERange ((Zpos (XO (XO
    (XO (XO (XI XH)))))), (Zpos (XI (XO (XO (XO (XI XH)))))))), EEmpty)),
    (ESeq ((EAlt ((ERange ((Zpos (XO (XO (XO (XI (XI (XI XH))))))), (Zpos (XI
    (XO (XO (XI (XI (XI XH))))))))), (EAlt ((ERange ((Zpos (XO (XO (XO (XI
    (XI (XO XH))))))), (Zpos (XI (XO (XO (XI (XI (XO XH))))))))), EEmpty)))),
    (ERep1 (ESeq ((EAlt ((EAlt ((ERange ((Zpos (XI (XI (XI (XI (XI (XO
    XH))))))), (Zpos (XO (XO (XO (XO (XO (XI XH))))))))), EEmpty)), EEps)),
    (EAlt ((ERange ((Zpos (XO (XO (XO (XO (XI XH)))))), (Zpos (XO (XI (XO (XI
    (XI XH)))))))), (EAlt ((ERange ((Zpos (XI (XO (XO (XO (XO (XI XH))))))),
    (Zpos (XI (XI (XI (XO (XO (XI XH))))))))), (ERange ((Zpos (XI (XO (XO (XO
    (XO (XO XH))))))), (Zpos (XI (XI (XI (XO (XO (XO
    XH)))))))))))))))))))))))))

(** val x_py_float : ere **)

let x_py_float =
  EAlt ((EAlt ((ESeq ((EAlt ((ESeq ((ERange ((Zpos (XO (XO (XO (XO (XI
    XH)))))), (Zpos (XO (XI (XO (XI (XI XH)))))))), (EAlt ((ERep1 (ESeq
    ((EAlt ((EAlt ((ERange ((Zpos (XI (XI (XI (XI (XI (XO XH))))))), (Zpos
    (XO (XO (XO (XO (XO (XI XH))))))))), EEmpty)), EEps)), (ERange ((Zpos (XO
    (XO (XO (XO (XI XH)))))), (Zpos (XO (XI (XO (XI (XI XH))))))))))),
    EEps)))), EEps)), (ESeq ((EAlt ((ERange ((Zpos (XO (XI (XI (XI (XO
    XH)))))), (Zpos (XI (XI (XI (XI (XO XH)))))))), EEmpty)), (ESeq ((ERange
    ((Zpos (XO (XO (XO (XO (XI XH)))))), (Zpos (XO (XI (XO (XI (XI
    XH)))))))), (EAlt ((ERep1 (ESeq ((EAlt ((EAlt ((ERange ((Zpos (XI (XI (XI
    (XI (XI (XO XH))))))), (Zpos (XO (XO (XO (XO (XO (XI XH))))))))),
    EEmpty)), EEps)), (ERange ((Zpos (XO (XO (XO (XO (XI XH)))))), (Zpos (XO
    (XI (XO (XI (XI XH))))))))))), EEps)))))))), (ESeq ((ESeq ((ERange ((Zpos
    (XO (XO (XO (XO (XI XH)))))), (Zpos (XO (XI (XO (XI (XI XH)))))))), (EAlt
    ((ERep1 (ESeq ((EAlt ((EAlt ((ERange ((Zpos (XI (XI (XI (XI (XI (XO
    XH))))))), (Zpos (XO (XO (XO (XO (XO (XI XH))))))))), EEmpty)), EEps)),
    (ERange ((Zpos (XO (XO (XO (XO (XI XH)))))), (Zpos (XO (XI (XO (XI (XI
    XH))))))))))), EEps)))), (EAlt ((ERange ((Zpos (XO (XI (XI (XI (XO
    XH)))))), (Zpos (XI (XI (XI (XI (XO XH)))))))), EEmpty)))))), (ESeq
    ((EAlt ((ESeq ((ERange ((Zpos (XO (XO (XO (XO (XI XH)))))), (Zpos (XO (XI
    (XO (XI (XI XH)))))))), (EAlt ((ERep1 (ESeq ((EAlt ((EAlt ((ERange ((Zpos
    (XI (XI (XI (XI (XI (XO XH))))))), (Zpos (XO (XO (XO (XO (XO (XI
    XH))))))))), EEmpty)), EEps)), (ERange ((Zpos (XO (XO (XO (XO (XI
    XH)))))), (Zpos (XO (XI (XO (XI (XI XH))))))))))), EEps)))), (EAlt ((ESeq
    ((EAlt ((ESeq ((ERange ((Zpos (XO (XO (XO (XO (XI XH)))))), (Zpos (XO (XI
    (XO (XI (XI XH)))))))), (EAlt ((ERep1 (ESeq ((EAlt ((EAlt ((ERange ((Zpos
    (XI (XI (XI (XI (XI (XO XH))))))), (Zpos (XO (XO (XO (XO (XO (XI
    XH))))))))), EEmpty)), EEps)), (ERange ((Zpos (XO (XO (XO (XO (XI
    XH)))))), (Zpos (XO (XI (XO (XI (XI XH))))))))))), EEps)))), EEps)),
    (ESeq ((EAlt ((ERange ((Zpos (XO (XI (XI (XI (XO XH)))))), (Zpos (XI (XI
    (XI (XI (XO XH)))))))), EEmpty)), (ESeq ((ERange ((Zpos (XO (XO (XO (XO
    (XI XH)))))), (Zpos (XO (XI (XO (XI (XI XH)))))))), (EAlt ((ERep1 (ESeq
    ((EAlt ((EAlt ((ERange ((Zpos (XI (XI (XI (XI (XI (XO XH))))))), (Zpos
    (XO (XO (XO (XO (XO (XI XH))))))))), EEmpty)), EEps)), (ERange ((Zpos (XO
    (XO (XO (XO (XI XH)))))), (Zpos (XO (XI (XO (XI (XI XH))))))))))),
    EEps)))))))), (ESeq ((ESeq ((ERange ((Zpos (XO (XO (XO (XO (XI XH)))))),
    (Zpos (XO (XI (XO (XI (XI XH)))))))), (EAlt ((ERep1 (ESeq ((EAlt ((EAlt
    ((ERange ((Zpos (XI (XI (XI (XI (XI (XO XH))))))), (Zpos (XO (XO (XO (XO
    (XO (XI XH))))))))), EEmpty)), EEps)), (ERange ((Zpos (XO (XO (XO (XO (XI
    XH)))))), (Zpos (XO (XI (XO (XI (XI XH))))))))))), EEps)))), (EAlt
    ((ERange ((Zpos (XO (XI (XI (XI (XO XH)))))), (Zpos (XI (XI (XI (XI (XO
    XH)))))))), EEmpty)))))))), (ESeq ((EAlt ((ERange ((Zpos (XI (XO (XI (XO
    (XO (XI XH))))))), (Zpos (XO (XI (XI (XO (XO (XI XH))))))))), (EAlt
    ((ERange ((Zpos (XI (XO (XI (XO (XO (XO XH))))))), (Zpos (XO (XI (XI (XO
    (XO (XO XH))))))))), EEmpty)))), (ESeq ((EAlt ((EAlt ((ERange ((Zpos (XI
    (XI (XO (XI (XO XH)))))), (Zpos (XO (XO (XI (XI (XO XH)))))))), (EAlt
    ((ERange ((Zpos (XI (XO (XI (XI (XO XH)))))), (Zpos (XO (XI (XI (XI (XO
    XH)))))))), EEmpty)))), EEps)), (ESeq ((ERange ((Zpos (XO (XO (XO (XO (XI
    XH)))))), (Zpos (XO (XI (XO (XI (XI XH)))))))), (EAlt ((ERep1 (ESeq
    ((EAlt ((EAlt ((ERange ((Zpos (XI (XI (XI (XI (XI (XO XH))))))), (Zpos
    (XO (XO (XO (XO (XO (XI XH))))))))), EEmpty)), EEps)), (ERange ((Zpos (XO
    (XO (XO (XO (XI XH)))))), (Zpos (XO (XI (XO (XI (XI XH))))))))))),
    EEps)))))))))))

(** val x_py_imag : ere **)

let x_py_imag =
  ESeq ((EAlt ((EAlt ((EAlt ((ESeq ((EAlt ((ESeq ((ERange ((Zpos (XO (XO (XO
    (XO (XI XH)))))), (Zpos (XO (XI (XO (XI (XI XH)))))))), (EAlt ((ERep1
    (ESeq ((EAlt ((EAlt ((ERange ((Zpos (XI (XI (XI (XI (XI (XO XH))))))),
    (Zpos (XO (XO (XO (XO (XO (XI XH))))))))), EEmpty)), EEps)), (ERange
    ((Zpos (XO (XO (XO (XO (XI XH)))))), (Zpos (XO (XI (XO (XI (XI
    XH))))))))))), EEps)))), EEps)), (ESeq ((EAlt ((ERange ((Zpos (XO (XI (XI
    (XI (XO XH)))))), (Zpos (XI (XI (XI (XI (XO XH)))))))), EEmpty)), (ESeq
    ((ERange ((Zpos (XO (XO (XO (XO (XI XH)))))), (Zpos (XO (XI (XO (XI (XI
    XH)))))))), (EAlt ((ERep1 (ESeq ((EAlt ((EAlt ((ERange ((Zpos (XI (XI (XI
    (XI (XI (XO XH))))))), (Zpos (XO (XO (XO (XO (XO (XI XH))))))))),
    EEmpty)), EEps)), (ERange ((Zpos (XO (XO (XO (XO (XI XH)))))), (Zpos (XO
    (XI (XO (XI (XI XH))))))))))), EEps)))))))), (ESeq ((ESeq ((ERange ((Zpos
    (XO (XO (XO (XO (XI XH)))))), (Zpos (XO (XI (XO (XI (XI XH)))))))), (EAlt
    ((ERep1 (ESeq ((EAlt ((EAlt ((ERange ((Zpos (XI (XI (XI (XI (XI (XO
    XH))))))), (Zpos (XO (XO (XO (XO (XO (XI XH))))))))), EEmpty)), EEps)),
    (ERange ((Zpos (XO (XO (XO (XO (XI XH)))))), (Zpos (XO (XI (XO (XI (XI
    XH))))))))))), EEps)))), (EAlt ((ERange ((Zpos (XO (XI (XI (XI (XO
    XH)))))), (Zpos (XI (XI (XI (XI (XO XH)))))))), EEmpty)))))), (ESeq
    ((EAlt ((ESeq ((ERange ((Zpos (XO (XO (XO (XO (XI XH)))))), (Zpos (XO (XI
    (XO (XI (XI XH)))))))), (EAlt ((ERep1 (ESeq ((EAlt ((EAlt ((ERange ((Zpos
    (XI (XI (XI (XI (XI (XO XH))))))), (Zpos (XO (XO (XO (XO (XO (XI
    XH))))))))), EEmpty)), EEps)), (ERange ((Zpos (XO (XO (XO (XO (XI
    XH)))))), (Zpos (XO (XI (XO (XI (XI XH))))))))))), EEps)))), (EAlt ((ESeq
    ((EAlt ((ESeq ((ERange ((Zpos (XO (XO (XO (XO (XI XH)))))), (Zpos (XO (XI
    (XO (XI (XI XH)))))))), (EAlt ((ERep1 (ESeq ((EAlt ((EAlt ((ERange ((Zpos
    (XI (XI (XI (XI (XI (XO XH))))))), (Zpos (XO (XO (XO (XO (XO (XI
    XH))))))))), EEmpty)), EEps)), (ERange ((Zpos (XO (XO (XO (XO (XI
    XH)))))), (Zpos (XO (XI (XO (XI (XI XH))))))))))), EEps)))), EEps)),
    (ESeq ((EAlt ((ERange ((Zpos (XO (XI (XI (XI (XO XH)))))), (Zpos (XI (XI
    (XI (XI (XO XH)))))))), EEmpty)), (ESeq ((ERange ((Zpos (XO (XO (XO (XO
    (XI XH)))))), (Zpos (XO (XI (XO (XI (XI XH)))))))), (EAlt ((ERep1 (ESeq
    ((EAlt ((EAlt ((ERange ((Zpos (XI (XI (XI (XI (XI (XO XH))))))), (Zpos
    (XO (XO (XO (XO (XO (XI XH))))))))), EEmpty)), EEps)), (ERange ((Zpos (XO
    (XO (XO (XO (XI XH)))))), (Zpos (XO (XI (XO (XI (XI XH))))))))))),
    EEps)))))))), (ESeq ((ESeq ((ERange ((Zpos (XO (XO (XO (XO (XI XH)))))),
    (Zpos (XO (XI (XO (XI (XI XH)))))))), (EAlt ((ERep1 (ESeq ((EAlt ((EAlt
    ((ERange ((Zpos (XI (XI (XI (XI (XI (XO XH))))))), (Zpos (XO (XO (XO (XO
    (XO (XI XH))))))))), EEmpty)), EEps)), (ERange ((Zpos (XO (XO (XO (XO (XI
    XH)))))), (Zpos (XO (XI (XO (XI (XI XH))))))))))), EEps)))), (EAlt
    ((ERange ((Zpos (XO (XI (XI (XI (XO XH)))))), (Zpos (XI (XI (XI (XI (XO
    XH)))))))), EEmpty)))))))), (ESeq ((EAlt ((ERange ((Zpos (XI (XO (XI (XO
    (XO (XI XH))))))), (Zpos (XO (XI (XI (XO (XO (XI XH))))))))), (EAlt
    ((ERange ((Zpos (XI (XO (XI (XO (XO (XO XH))))))), (Zpos (XO (XI (XI (XO
    (XO (XO XH))))))))), EEmpty)))), (ESeq ((EAlt ((EAlt ((ERange ((Zpos (XI
    (XI (XO (XI (XO XH)))))), (Zpos (XO (XO (XI (XI (XO XH)))))))), (EAlt
    ((ERange ((Zpos (XI (XO (XI (XI (XO XH)))))), (Zpos (XO (XI (XI (XI (XO
    XH)))))))), EEmpty)))), EEps)), (ESeq ((ERange ((Zpos (XO (XO (XO (XO (XI
    XH)))))), (Zpos (XO (XI (XO (XI (XI XH)))))))), (EAlt ((ERep1 (ESeq
    ((EAlt ((EAlt ((ERange ((Zpos (XI (XI (XI (XI (XI (XO XH))))))), (Zpos
    (XO (XO (XO (XO (XO (XI XH))))))))), EEmpty)), EEps)), (ERange ((Zpos (XO
    (XO (XO (XO (XI XH)))))), (Zpos (XO (XI (XO (XI (XI XH))))))))))),
    EEps)))))))))))), (ESeq ((ERange ((Zpos (XO (XO (XO (XO (XI XH)))))),
    (Zpos (XO (XI (XO (XI (XI XH)))))))), (EAlt ((ERep1 (ESeq ((EAlt ((EAlt
    ((ERange ((Zpos (XI (XI (XI (XI (XI (XO XH))))))), (Zpos (XO (XO (XO (XO
    (XO (XI XH))))))))), EEmpty)), EEps)), (ERange ((Zpos (XO (XO (XO (XO (XI
    XH)))))), (Zpos (XO (XI (XO (XI (XI XH))))))))))), EEps)))))), (EAlt
    ((ERange ((Zpos (XO (XI (XO (XI (XO (XI XH))))))), (Zpos (XI (XI (XO (XI
    (XO (XI XH))))))))), (EAlt ((ERange ((Zpos (XO (XI (XO (XI (XO (XO
    XH))))))), (Zpos (XI (XI (XO (XI (XO (XO XH))))))))), EEmpty)))))

(** val x_lex_strbegin : ere **)

let x_lex_strbegin =
  EAlt ((ESeq ((EAlt ((EAlt ((EAlt ((EAlt ((EAlt ((EAlt (EEps, EEmpty)),
    (ESeq ((EAlt ((ESym SBol), EEps)), (EAlt ((ERep1 (EAlt (EEmpty, (EAlt
    ((ERange ((Zpos (XO (XI (XO (XO (XO (XO XH))))))), (Zpos (XI (XI (XO (XO
    (XO (XO XH))))))))), (EAlt ((ERange ((Zpos (XO (XI (XO (XO (XI (XO
    XH))))))), (Zpos (XI (XI (XO (XO (XI (XO XH))))))))), (EAlt ((ERange
    ((Zpos (XI (XO (XI (XO (XI (XO XH))))))), (Zpos (XO (XI (XI (XO (XI (XO
    XH))))))))), (EAlt ((ERange ((Zpos (XO (XI (XO (XO (XO (XI XH))))))),
    (Zpos (XI (XI (XO (XO (XO (XI XH))))))))), (EAlt ((ERange ((Zpos (XO (XI
    (XO (XO (XI (XI XH))))))), (Zpos (XI (XI (XO (XO (XI (XI XH))))))))),
    (EAlt ((ERange ((Zpos (XI (XO (XI (XO (XI (XI XH))))))), (Zpos (XO (XI
    (XI (XO (XI (XI XH))))))))), EEmpty))))))))))))))), EEmpty)))))),
    EEmpty)), (ESeq ((EAlt ((ESym SBol), EEps)), (EAlt ((EAlt (EEmpty, (EAlt
    ((ERange ((Zpos (XI (XI (XO (XO (XO (XO XH))))))), (Zpos (XO (XO (XI (XO
    (XO (XO XH))))))))), (EAlt ((ERange ((Zpos (XI (XI (XO (XO (XO (XI
    XH))))))), (Zpos (XO (XO (XI (XO (XO (XI XH))))))))), EEmpty)))))),
    EEmpty)))))), (EAlt (EEps, EEmpty)))), (ESeq ((EAlt ((ESym SBol), EEps)),
    EEmpty)))), (ESeq ((EAlt (EEmpty, (ESeq ((EAlt ((ESym SBol), EEps)),
    (EAlt ((EAlt (EEmpty, (EAlt ((EAlt (EEmpty, (EAlt ((ESeq ((ERange ((Zpos
    (XI (XI (XI (XO (XO XH)))))), (Zpos (XO (XO (XO (XI (XO XH)))))))),
    EEps)), (EAlt ((ESeq ((ERange ((Zpos (XO (XI (XO (XO (XO XH)))))), (Zpos
    (XI (XI (XO (XO (XO XH)))))))), EEps)), EEmpty)))))), (EAlt ((ESeq
    ((ERange ((Zpos (XI (XI (XI (XO (XO XH)))))), (Zpos (XO (XO (XO (XI (XO
    XH)))))))), (ESeq ((ERange ((Zpos (XI (XI (XI (XO (XO XH)))))), (Zpos (XO
    (XO (XO (XI (XO XH)))))))), (ESeq ((ERange ((Zpos (XI (XI (XI (XO (XO
    XH)))))), (Zpos (XO (XO (XO (XI (XO XH)))))))), EEps)))))), EEmpty)))))),
    (EAlt ((ESeq ((ERange ((Zpos (XO (XI (XO (XO (XO XH)))))), (Zpos (XI (XI
    (XO (XO (XO XH)))))))), (ESeq ((ERange ((Zpos (XO (XI (XO (XO (XO
    XH)))))), (Zpos (XI (XI (XO (XO (XO XH)))))))), (ESeq ((ERange ((Zpos (XO
    (XI (XO (XO (XO XH)))))), (Zpos (XI (XI (XO (XO (XO XH)))))))),
    EEps)))))), EEmpty)))))))), EEps)))), (ESeq ((EAlt (EEmpty, (ESeq ((EAlt
    ((ESym SBol), EEps)), (EAlt ((ESeq ((EAlt (EEmpty, (EAlt ((ERange ((Zpos
    (XO (XI (XI (XO (XO (XO XH))))))), (Zpos (XI (XI (XI (XO (XO (XO
    XH))))))))), (EAlt ((ERange ((Zpos (XO (XO (XI (XO (XI (XO XH))))))),
    (Zpos (XI (XO (XI (XO (XI (XO XH))))))))), (EAlt ((ERange ((Zpos (XO (XI
    (XI (XO (XO (XI XH))))))), (Zpos (XI (XI (XI (XO (XO (XI XH))))))))),
    (EAlt ((ERange ((Zpos (XO (XO (XI (XO (XI (XI XH))))))), (Zpos (XI (XO
    (XI (XO (XI (XI XH))))))))), EEmpty)))))))))), (ESeq ((EAlt ((EAlt (EEps,
    EEmpty)), (EAlt ((EAlt (EEmpty, (EAlt ((ERange ((Zpos (XO (XI (XO (XO (XI
    (XO XH))))))), (Zpos (XI (XI (XO (XO (XI (XO XH))))))))), (EAlt ((ERange
    ((Zpos (XO (XI (XO (XO (XI (XI XH))))))), (Zpos (XI (XI (XO (XO (XI (XI
    XH))))))))), EEmpty)))))), EEmpty)))), EEps)))), (EAlt ((ESeq ((EAlt
    (EEmpty, (EAlt ((ERange ((Zpos (XO (XI (XO (XO (XI (XO XH))))))), (Zpos
    (XI (XI (XO (XO (XI (XO XH))))))))), (EAlt ((ERange ((Zpos (XO (XI (XO
    (XO (XI (XI XH))))))), (Zpos (XI (XI (XO (XO (XI (XI XH))))))))),
    EEmpty)))))), (ESeq ((EAlt (EEmpty, (EAlt ((ERange ((Zpos (XO (XI (XI (XO
    (XO (XO XH))))))), (Zpos (XI (XI (XI (XO (XO (XO XH))))))))), (EAlt
    ((ERange ((Zpos (XO (XO (XI (XO (XI (XO XH))))))), (Zpos (XI (XO (XI (XO
    (XI (XO XH))))))))), (EAlt ((ERange ((Zpos (XO (XI (XI (XO (XO (XI
    XH))))))), (Zpos (XI (XI (XI (XO (XO (XI XH))))))))), (EAlt ((ERange
    ((Zpos (XO (XO (XI (XO (XI (XI XH))))))), (Zpos (XI (XO (XI (XO (XI (XI
    XH))))))))), EEmpty)))))))))), EEps)))), EEmpty)))))))), (ESeq ((EAlt
    (EEmpty, (EAlt ((EAlt (EEmpty, (EAlt ((EAlt (EEmpty, (EAlt ((ESeq
    ((ERange ((Zpos (XI (XI (XI (XO (XO XH)))))), (Zpos (XO (XO (XO (XI (XO
    XH)))))))), EEps)), (EAlt ((ESeq ((ERange ((Zpos (XO (XI (XO (XO (XO
    XH)))))), (Zpos (XI (XI (XO (XO (XO XH)))))))), EEps)), EEmpty)))))),
    (EAlt ((ESeq ((ERange ((Zpos (XI (XI (XI (XO (XO XH)))))), (Zpos (XO (XO
    (XO (XI (XO XH)))))))), (ESeq ((ERange ((Zpos (XI (XI (XI (XO (XO
    XH)))))), (Zpos (XO (XO (XO (XI (XO XH)))))))), (ESeq ((ERange ((Zpos (XI
    (XI (XI (XO (XO XH)))))), (Zpos (XO (XO (XO (XI (XO XH)))))))),
    EEps)))))), EEmpty)))))), (EAlt ((ESeq ((ERange ((Zpos (XO (XI (XO (XO
    (XO XH)))))), (Zpos (XI (XI (XO (XO (XO XH)))))))), (ESeq ((ERange ((Zpos
    (XO (XI (XO (XO (XO XH)))))), (Zpos (XI (XI (XO (XO (XO XH)))))))), (ESeq
    ((ERange ((Zpos (XO (XI (XO (XO (XO XH)))))), (Zpos (XI (XI (XO (XO (XO
    XH)))))))), EEps)))))), EEmpty)))))), EEps)))))

(** val x_py_strbegin : ere **)

let x_py_strbegin =
  ESeq ((EAlt ((EAlt ((ERange ((Zpos (XO (XI (XO (XO (XI (XI XH))))))), (Zpos
    (XI (XI (XO (XO (XI (XI XH))))))))), (EAlt ((ERange ((Zpos (XI (XO (XI
    (XO (XI (XI XH))))))), (Zpos (XO (XI (XI (XO (XI (XI XH))))))))), (EAlt
    ((ERange ((Zpos (XO (XI (XO (XO (XI (XO XH))))))), (Zpos (XI (XI (XO (XO
    (XI (XO XH))))))))), (EAlt ((ERange ((Zpos (XI (XO (XI (XO (XI (XO
    XH))))))), (Zpos (XO (XI (XI (XO (XI (XO XH))))))))), (EAlt ((ERange
    ((Zpos (XO (XI (XI (XO (XO (XI XH))))))), (Zpos (XI (XI (XI (XO (XO (XI
    XH))))))))), (EAlt ((ERange ((Zpos (XO (XI (XI (XO (XO (XO XH))))))),
    (Zpos (XI (XI (XI (XO (XO (XO XH))))))))), (EAlt ((ESeq ((ERange ((Zpos
    (XO (XI (XI (XO (XO (XI XH))))))), (Zpos (XI (XI (XI (XO (XO (XI
    XH))))))))), (ERange ((Zpos (XO (XI (XO (XO (XI (XI XH))))))), (Zpos (XI
    (XI (XO (XO (XI (XI XH))))))))))), (EAlt ((ESeq ((ERange ((Zpos (XO (XI
    (XI (XO (XO (XO XH))))))), (Zpos (XI (XI (XI (XO (XO (XO XH))))))))),
    (ERange ((Zpos (XO (XI (XO (XO (XI (XI XH))))))), (Zpos (XI (XI (XO (XO
    (XI (XI XH))))))))))), (EAlt ((ESeq ((ERange ((Zpos (XO (XI (XI (XO (XO
    (XI XH))))))), (Zpos (XI (XI (XI (XO (XO (XI XH))))))))), (ERange ((Zpos
    (XO (XI (XO (XO (XI (XO XH))))))), (Zpos (XI (XI (XO (XO (XI (XO
    XH))))))))))), (EAlt ((ESeq ((ERange ((Zpos (XO (XI (XI (XO (XO (XO
    XH))))))), (Zpos (XI (XI (XI (XO (XO (XO XH))))))))), (ERange ((Zpos (XO
    (XI (XO (XO (XI (XO XH))))))), (Zpos (XI (XI (XO (XO (XI (XO
    XH))))))))))), (EAlt ((ESeq ((ERange ((Zpos (XO (XI (XO (XO (XI (XI
    XH))))))), (Zpos (XI (XI (XO (XO (XI (XI XH))))))))), (ERange ((Zpos (XO
    (XI (XI (XO (XO (XI XH))))))), (Zpos (XI (XI (XI (XO (XO (XI
    XH))))))))))), (EAlt ((ESeq ((ERange ((Zpos (XO (XI (XO (XO (XI (XI
    XH))))))), (Zpos (XI (XI (XO (XO (XI (XI XH))))))))), (ERange ((Zpos (XO
    (XI (XI (XO (XO (XO XH))))))), (Zpos (XI (XI (XI (XO (XO (XO
    XH))))))))))), (EAlt ((ESeq ((ERange ((Zpos (XO (XI (XO (XO (XI (XO
    XH))))))), (Zpos (XI (XI (XO (XO (XI (XO XH))))))))), (ERange ((Zpos (XO
    (XI (XI (XO (XO (XI XH))))))), (Zpos (XI (XI (XI (XO (XO (XI
    XH))))))))))), (EAlt ((ESeq ((ERange ((Zpos (XO (XI (XO (XO (XI (XO
    XH))))))), (Zpos (XI (XI (XO (XO (XI (XO XH))))))))), (ERange ((Zpos (XO
    (XI (XI (XO (XO (XO XH))))))), (Zpos (XI (XI (XI (XO (XO (XO
    XH))))))))))), (EAlt ((ERange ((Zpos (XO (XI (XO (XO (XO (XI XH))))))),
    (Zpos (XI (XI (XO (XO (XO (XI XH))))))))), (EAlt ((ERange ((Zpos (XO (XI
    (XO (XO (XO (XO XH))))))), (Zpos (XI (XI (XO (XO (XO (XO XH))))))))),
    (EAlt ((ESeq ((ERange ((Zpos (XO (XI (XO (XO (XO (XI XH))))))), (Zpos (XI
    (XI (XO (XO (XO (XI XH))))))))), (ERange ((Zpos (XO (XI (XO (XO (XI (XI
    XH))))))), (Zpos (XI (XI (XO (XO (XI (XI XH))))))))))), (EAlt ((ESeq
    ((ERange ((Zpos (XO (XI (XO (XO (XO (XO XH))))))), (Zpos (XI (XI (XO (XO
    (XO (XO XH))))))))), (ERange ((Zpos (XO (XI (XO (XO (XI (XI XH))))))),
    (Zpos (XI (XI (XO (XO (XI (XI XH))))))))))), (EAlt ((ESeq ((ERange ((Zpos
    (XO (XI (XO (XO (XO (XI XH))))))), (Zpos (XI (XI (XO (XO (XO (XI
    XH))))))))), (ERange ((Zpos (XO (XI (XO (XO (XI (XO XH))))))), (Zpos (XI
    (XI (XO (XO (XI (XO XH))))))))))), (EAlt ((ESeq ((ERange ((Zpos (XO (XI
    (XO (XO (XO (XO XH))))))), (Zpos (XI (XI (XO (XO (XO (XO XH))))))))),
    (ERange ((Zpos (XO (XI (XO (XO (XI (XO XH))))))), (Zpos (XI (XI (XO (XO
    (XI (XO XH))))))))))), (EAlt ((ESeq ((ERange ((Zpos (XO (XI (XO (XO (XI
    (XI XH))))))), (Zpos (XI (XI (XO (XO (XI (XI XH))))))))), (ERange ((Zpos
    (XO (XI (XO (XO (XO (XI XH))))))), (Zpos (XI (XI (XO (XO (XO (XI
    XH))))))))))), (EAlt ((ESeq ((ERange ((Zpos (XO (XI (XO (XO (XI (XI
    XH))))))), (Zpos (XI (XI (XO (XO (XI (XI XH))))))))), (ERange ((Zpos (XO
    (XI (XO (XO (XO (XO XH))))))), (Zpos (XI (XI (XO (XO (XO (XO
    XH))))))))))), (EAlt ((ESeq ((ERange ((Zpos (XO (XI (XO (XO (XI (XO
    XH))))))), (Zpos (XI (XI (XO (XO (XI (XO XH))))))))), (ERange ((Zpos (XO
    (XI (XO (XO (XO (XI XH))))))), (Zpos (XI (XI (XO (XO (XO (XI
    XH))))))))))), (ESeq ((ERange ((Zpos (XO (XI (XO (XO (XI (XO XH))))))),
    (Zpos (XI (XI (XO (XO (XI (XO XH))))))))), (ERange ((Zpos (XO (XI (XO (XO
    (XO (XO XH))))))), (Zpos (XI (XI (XO (XO (XO (XO
    XH))))))))))))))))))))))))))))))))))))))))))))))))))))))))), EEps)),
    (EAlt ((ERange ((Zpos (XI (XI (XI (XO (XO XH)))))), (Zpos (XO (XO (XO (XI
    (XO XH)))))))), (EAlt ((ERange ((Zpos (XO (XI (XO (XO (XO XH)))))), (Zpos
    (XI (XI (XO (XO (XO XH)))))))), (EAlt ((ESeq ((ERange ((Zpos (XI (XI (XI
    (XO (XO XH)))))), (Zpos (XO (XO (XO (XI (XO XH)))))))), (ESeq ((ERange
    ((Zpos (XI (XI (XI (XO (XO XH)))))), (Zpos (XO (XO (XO (XI (XO
    XH)))))))), (ERange ((Zpos (XI (XI (XI (XO (XO XH)))))), (Zpos (XO (XO
    (XO (XI (XO XH)))))))))))), (ESeq ((ERange ((Zpos (XO (XI (XO (XO (XO
    XH)))))), (Zpos (XI (XI (XO (XO (XO XH)))))))), (ESeq ((ERange ((Zpos (XO
    (XI (XO (XO (XO XH)))))), (Zpos (XI (XI (XO (XO (XO XH)))))))), (ERange
    ((Zpos (XO (XI (XO (XO (XO XH)))))), (Zpos (XI (XI (XO (XO (XO
    XH)))))))))))))))))))

(** val x_token_kind : bool -> z list -> z **)

let x_token_kind fixed t =
  let w = map (fun x -> EvChar x) t in
  if n_matches x_lex_int w
  then Zpos XH
  else if n_matches x_lex_float w
       then Zpos (XO XH)
       else if n_matches (if fixed then x_lex_imag_new else x_lex_imag_old) w
            then Zpos (XI XH)
            else Z0

(** val x_py_kind : z list -> z **)

let x_py_kind t =
  let w = map (fun x -> EvChar x) t in
  if n_matches x_py_integer w
  then Zpos XH
  else if n_matches x_py_float w
       then Zpos (XO XH)
       else if n_matches x_py_imag w then Zpos (XI XH) else Z0

(** val x_strbegin : z list -> bool * bool **)

let x_strbegin t =
  let w = map (fun x -> EvChar x) t in
  ((n_matches x_lex_strbegin w), (n_matches x_py_strbegin w))

(** val x_lex_text : ere **)

let x_lex_text =
  EAlt (EEmpty, (ESeq ((EAlt ((ESym SBol), EEps)), (EAlt ((EAlt (EEmpty,
    (EAlt ((ESeq ((ERange ((Zpos (XO (XI (XI (XI (XO XH)))))), (Zpos (XI (XI
    (XI (XI (XO XH)))))))), (ESeq ((ERange ((Zpos (XO (XI (XI (XI (XO
    XH)))))), (Zpos (XI (XI (XI (XI (XO XH)))))))), (ESeq ((ERange ((Zpos (XO
    (XI (XI (XI (XO XH)))))), (Zpos (XI (XI (XI (XI (XO XH)))))))),
    EEps)))))), (EAlt ((EAlt (EEmpty, (EAlt ((ERange ((Zpos (XI (XO (XO (XO
    (XO XH)))))), (Zpos (XO (XI (XO (XO (XO XH)))))))), (EAlt ((ERange ((Zpos
    (XI (XO (XI (XO (XO XH)))))), (Zpos (XI (XI (XI (XO (XO XH)))))))), (EAlt
    ((ERange ((Zpos (XO (XI (XO (XI (XO XH)))))), (Zpos (XO (XO (XO (XO (XI
    XH)))))))), (EAlt ((ERange ((Zpos (XO (XI (XO (XI (XI XH)))))), (Zpos (XI
    (XO (XO (XO (XO (XO XH))))))))), (EAlt ((ERange ((Zpos (XO (XI (XI (XI
    (XI (XO XH))))))), (Zpos (XI (XI (XI (XI (XI (XO XH))))))))), (EAlt
    ((ERange ((Zpos (XO (XO (XO (XO (XO (XI XH))))))), (Zpos (XI (XO (XO (XO
    (XO (XI XH))))))))), (EAlt ((ERange ((Zpos (XO (XO (XI (XI (XI (XI
    XH))))))), (Zpos (XI (XO (XI (XI (XI (XI XH))))))))), (EAlt ((ERange
    ((Zpos (XO (XI (XI (XI (XI (XI XH))))))), (Zpos (XI (XI (XI (XI (XI (XI
    XH))))))))), EEmpty)))))))))))))))))), EEmpty)))))), (EAlt ((EAlt
    (EEmpty, (EAlt ((ESeq ((ERange ((Zpos (XI (XO (XI (XI (XI XH)))))), (Zpos
    (XO (XI (XI (XI (XI XH)))))))), (ESeq ((ERange ((Zpos (XI (XO (XI (XI (XI
    XH)))))), (Zpos (XO (XI (XI (XI (XI XH)))))))), EEps)))), (EAlt ((ESeq
    ((ERange ((Zpos (XO (XO (XI (XI (XI XH)))))), (Zpos (XI (XO (XI (XI (XI
    XH)))))))), (ESeq ((ERange ((Zpos (XO (XI (XI (XI (XI XH)))))), (Zpos (XI
    (XI (XI (XI (XI XH)))))))), EEps)))), (EAlt ((ESeq ((ERange ((Zpos (XI
    (XO (XO (XO (XO XH)))))), (Zpos (XO (XI (XO (XO (XO XH)))))))), (ESeq
    ((ERange ((Zpos (XI (XO (XI (XI (XI XH)))))), (Zpos (XO (XI (XI (XI (XI
    XH)))))))), EEps)))), (EAlt ((ESeq ((ERange ((Zpos (XO (XO (XI (XI (XI
    XH)))))), (Zpos (XI (XO (XI (XI (XI XH)))))))), (ESeq ((ERange ((Zpos (XI
    (XO (XI (XI (XI XH)))))), (Zpos (XO (XI (XI (XI (XI XH)))))))), EEps)))),
    (EAlt ((ESeq ((ERange ((Zpos (XO (XI (XI (XI (XI XH)))))), (Zpos (XI (XI
    (XI (XI (XI XH)))))))), (ESeq ((ERange ((Zpos (XI (XO (XI (XI (XI
    XH)))))), (Zpos (XO (XI (XI (XI (XI XH)))))))), EEps)))), (EAlt ((ESeq
    ((ERange ((Zpos (XO (XO (XI (XI (XI XH)))))), (Zpos (XI (XO (XI (XI (XI
    XH)))))))), (ESeq ((ERange ((Zpos (XO (XO (XI (XI (XI XH)))))), (Zpos (XI
    (XO (XI (XI (XI XH)))))))), EEps)))), (EAlt ((ESeq ((ERange ((Zpos (XO
    (XI (XI (XI (XI XH)))))), (Zpos (XI (XI (XI (XI (XI XH)))))))), (ESeq
    ((ERange ((Zpos (XO (XI (XI (XI (XI XH)))))), (Zpos (XI (XI (XI (XI (XI
    XH)))))))), EEps)))), (EAlt ((ESeq ((ERange ((Zpos (XO (XI (XO (XI (XO
    XH)))))), (Zpos (XI (XI (XO (XI (XO XH)))))))), (ESeq ((ERange ((Zpos (XO
    (XI (XO (XI (XO XH)))))), (Zpos (XI (XI (XO (XI (XO XH)))))))), EEps)))),
    (EAlt ((ESeq ((ERange ((Zpos (XI (XI (XI (XI (XO XH)))))), (Zpos (XO (XO
    (XO (XO (XI XH)))))))), (ESeq ((ERange ((Zpos (XI (XI (XI (XI (XO
    XH)))))), (Zpos (XO (XO (XO (XO (XI XH)))))))), EEps)))), (EAlt ((ESeq
    ((ERange ((Zpos (XI (XI (XO (XI (XO XH)))))), (Zpos (XO (XO (XI (XI (XO
    XH)))))))), (ESeq ((ERange ((Zpos (XI (XO (XI (XI (XI XH)))))), (Zpos (XO
    (XI (XI (XI (XI XH)))))))), EEps)))), (EAlt ((ESeq ((ERange ((Zpos (XI
    (XO (XI (XI (XO XH)))))), (Zpos (XO (XI (XI (XI (XO XH)))))))), (ESeq
    ((ERange ((Zpos (XI (XO (XI (XI (XI XH)))))), (Zpos (XO (XI (XI (XI (XI
    XH)))))))), EEps)))), (EAlt ((ESeq ((ERange ((Zpos (XO (XI (XO (XI (XO
    XH)))))), (Zpos (XI (XI (XO (XI (XO XH)))))))), (ESeq ((ERange ((Zpos (XI
    (XO (XI (XI (XI XH)))))), (Zpos (XO (XI (XI (XI (XI XH)))))))), EEps)))),
    (EAlt ((ESeq ((ERange ((Zpos (XI (XI (XI (XI (XO XH)))))), (Zpos (XO (XO
    (XO (XO (XI XH)))))))), (ESeq ((ERange ((Zpos (XI (XO (XI (XI (XI
    XH)))))), (Zpos (XO (XI (XI (XI (XI XH)))))))), EEps)))), (EAlt ((ESeq
    ((ERange ((Zpos (XI (XO (XI (XO (XO XH)))))), (Zpos (XO (XI (XI (XO (XO
    XH)))))))), (ESeq ((ERange ((Zpos (XI (XO (XI (XI (XI XH)))))), (Zpos (XO
    (XI (XI (XI (XI XH)))))))), EEps)))), (EAlt ((ESeq ((ERange ((Zpos (XO
    (XO (XI (XI (XI (XI XH))))))), (Zpos (XI (XO (XI (XI (XI (XI XH))))))))),
    (ESeq ((ERange ((Zpos (XI (XO (XI (XI (XI XH)))))), (Zpos (XO (XI (XI (XI
    (XI XH)))))))), EEps)))), (EAlt ((ESeq ((ERange ((Zpos (XO (XI (XI (XI
    (XI (XO XH))))))), (Zpos (XI (XI (XI (XI (XI (XO XH))))))))), (ESeq
    ((ERange ((Zpos (XI (XO (XI (XI (XI XH)))))), (Zpos (XO (XI (XI (XI (XI
    XH)))))))), EEps)))), (EAlt ((ESeq ((ERange ((Zpos (XO (XI (XI (XO (XO
    XH)))))), (Zpos (XI (XI (XI (XO (XO XH)))))))), (ESeq ((ERange ((Zpos (XI
    (XO (XI (XI (XI XH)))))), (Zpos (XO (XI (XI (XI (XI XH)))))))), EEps)))),
    (EAlt ((ESeq ((ERange ((Zpos (XO (XO (XI (XI (XI XH)))))), (Zpos (XI (XO
    (XI (XI (XI XH)))))))), (ESeq ((ERange ((Zpos (XO (XO (XI (XI (XI
    XH)))))), (Zpos (XI (XO (XI (XI (XI XH)))))))), (ESeq ((ERange ((Zpos (XI
    (XO (XI (XI (XI XH)))))), (Zpos (XO (XI (XI (XI (XI XH)))))))),
    EEps)))))), (EAlt ((ESeq ((ERange ((Zpos (XO (XI (XI (XI (XI XH)))))),
    (Zpos (XI (XI (XI (XI (XI XH)))))))), (ESeq ((ERange ((Zpos (XO (XI (XI
    (XI (XI XH)))))), (Zpos (XI (XI (XI (XI (XI XH)))))))), (ESeq ((ERange
    ((Zpos (XI (XO (XI (XI (XI XH)))))), (Zpos (XO (XI (XI (XI (XI
    XH)))))))), EEps)))))), (EAlt ((ESeq ((ERange ((Zpos (XO (XI (XO (XI (XO
    XH)))))), (Zpos (XI (XI (XO (XI (XO XH)))))))), (ESeq ((ERange ((Zpos (XO
    (XI (XO (XI (XO XH)))))), (Zpos (XI (XI (XO (XI (XO XH)))))))), (ESeq
    ((ERange ((Zpos (XI (XO (XI (XI (XI XH)))))), (Zpos (XO (XI (XI (XI (XI
    XH)))))))), EEps)))))), (EAlt ((ESeq ((ERange ((Zpos (XI (XI (XI (XI (XO
    XH)))))), (Zpos (XO (XO (XO (XO (XI XH)))))))), (ESeq ((ERange ((Zpos (XI
    (XI (XI (XI (XO XH)))))), (Zpos (XO (XO (XO (XO (XI XH)))))))), (ESeq
    ((ERange ((Zpos (XI (XO (XI (XI (XI XH)))))), (Zpos (XO (XI (XI (XI (XI
    XH)))))))), EEps)))))), (EAlt ((ESeq ((ERange ((Zpos (XI (XO (XI (XI (XO
    XH)))))), (Zpos (XO (XI (XI (XI (XO XH)))))))), (ESeq ((ERange ((Zpos (XO
    (XI (XI (XI (XI XH)))))), (Zpos (XI (XI (XI (XI (XI XH)))))))), EEps)))),
    (EAlt ((ESeq ((ERange ((Zpos (XO (XO (XO (XO (XO (XO XH))))))), (Zpos (XI
    (XO (XO (XO (XO (XO XH))))))))), (ESeq ((ERange ((Zpos (XI (XO (XI (XI
    (XI XH)))))), (Zpos (XO (XI (XI (XI (XI XH)))))))), EEps)))), (EAlt
    ((ESeq ((ERange ((Zpos (XO (XI (XI (XO (XO XH)))))), (Zpos (XI (XI (XI
    (XO (XO XH)))))))), (ESeq ((ERange ((Zpos (XO (XI (XI (XO (XO XH)))))),
    (Zpos (XI (XI (XI (XO (XO XH)))))))), EEps)))), (EAlt ((ESeq ((ERange
    ((Zpos (XO (XO (XI (XI (XI (XI XH))))))), (Zpos (XI (XO (XI (XI (XI (XI
    XH))))))))), (ESeq ((ERange ((Zpos (XO (XO (XI (XI (XI (XI XH))))))),
    (Zpos (XI (XO (XI (XI (XI (XI XH))))))))), EEps)))), (EAlt ((ESeq
    ((ERange ((Zpos (XO (XI (XO (XI (XI XH)))))), (Zpos (XI (XI (XO (XI (XI
    XH)))))))), (ESeq ((ERange ((Zpos (XI (XO (XI (XI (XI XH)))))), (Zpos (XO
    (XI (XI (XI (XI XH)))))))), EEps)))),
    EEmpty)))))))))))))))))))))))))))))))))))))))))))))))))))))),
    EEmpty)))))))

(** val x_lex_number : bool -> ere **)

let x_lex_number fixed =
  EAlt (x_lex_int, (EAlt (x_lex_float,
    (if fixed then x_lex_imag_new else x_lex_imag_old))))

(** val x_scan_dots : nat -> bool -> nat -> nat list **)

let rec x_scan_dots fuel fixed n0 =
  match fuel with
  | O -> []
  | S f ->
    (match n0 with
     | O -> []
     | S _ ->
       let k = longest x_lex_text (dots n0) in
       if Nat.ltb O (longest (x_lex_number fixed) (dots n0))
       then []
       else (match k with
             | O -> []
             | S _ -> k :: (x_scan_dots f fixed (sub n0 k))))
