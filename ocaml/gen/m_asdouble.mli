
val negb : bool -> bool

type nat =
| O
| S of nat

val fst : ('a1 * 'a2) -> 'a1

val snd : ('a1 * 'a2) -> 'a2

val length : 'a1 list -> nat

val app : 'a1 list -> 'a1 list -> 'a1 list

type comparison =
| Eq
| Lt
| Gt

val compOpp : comparison -> comparison

val add : nat -> nat -> nat

type positive =
| XI of positive
| XO of positive
| XH

type n =
| N0
| Npos of positive

type z =
| Z0
| Zpos of positive
| Zneg of positive

module Nat :
 sig
  val eqb : nat -> nat -> bool

  val leb : nat -> nat -> bool

  val ltb : nat -> nat -> bool
 end

module Pos :
 sig
  val succ : positive -> positive

  val add : positive -> positive -> positive

  val add_carry : positive -> positive -> positive

  val pred_double : positive -> positive

  val compare_cont : comparison -> positive -> positive -> comparison

  val compare : positive -> positive -> comparison

  val eqb : positive -> positive -> bool

  val of_succ_nat : nat -> positive
 end

module Z :
 sig
  val double : z -> z

  val succ_double : z -> z

  val pred_double : z -> z

  val pos_sub : positive -> positive -> z

  val add : z -> z -> z

  val opp : z -> z

  val sub : z -> z -> z

  val compare : z -> z -> comparison

  val leb : z -> z -> bool

  val ltb : z -> z -> bool

  val eqb : z -> z -> bool

  val of_nat : nat -> z
 end

val nth_error : 'a1 list -> nat -> 'a1 option

val removelast : 'a1 list -> 'a1 list

val rev : 'a1 list -> 'a1 list

val map : ('a1 -> 'a2) -> 'a1 list -> 'a2 list

val existsb : ('a1 -> bool) -> 'a1 list -> bool

val forallb : ('a1 -> bool) -> 'a1 list -> bool

val filter : ('a1 -> bool) -> 'a1 list -> 'a1 list

val combine : 'a1 list -> 'a2 list -> ('a1 * 'a2) list

val ex_keep : (((((nat * n) * z) * z list) * z option) * positive) * bool

val isspace_b : z -> bool

val isspace_u : z -> bool

val isspace_u_new : z -> bool

val is_digit : z -> bool

val is_us : z -> bool

val is2 : z -> z -> z -> bool

type scan_res =
| OOBRead
| OOBWrite
| Fallback
| Special of bool * bool
| Parse of z list

val lskip : (z -> bool) -> z list -> z list option

val dropwhile : (z -> bool) -> z list -> z list

val rstrip : (z -> bool) -> z list -> z list

type infnan_res =
| INFail
| INCont
| INVal of bool * bool
| INOOB

val rd : z list -> nat -> z option

val inf_nan : z list -> z -> infnan_res

val is_punct_b : z -> bool

val is_punct_u : z -> bool

type ust = { st_p : bool; st_d : bool; st_u : bool }

val ust0 : ust

val ustep : bool -> (z -> bool) -> ust -> z -> bool * ust

val ufinal : bool -> ust -> bool

val copy_b : bool -> z list -> nat -> z list -> ust -> bool -> scan_res

val copy_u : bool -> z list -> nat -> z list -> ust -> scan_res

val remove_us : z list -> z list

val scan_bytes : bool -> z list -> scan_res

val scan_uni : bool -> bool -> bool -> z list -> scan_res

val is_ascii : z list -> bool

val scan_str : bool -> bool -> bool -> z list -> scan_res

val us_ok_from : z -> z list -> bool

val us_ok : z list -> bool

type py_res =
| PyError
| PyParse of z list

val py_inner : z list -> py_res

val upto_nul : z list -> z list

val py_with_underscores : z list -> py_res

val py_scan_bytes : z list -> py_res

val transform : (z -> z option) -> z list -> z list

val py_scan_str : (z -> z option) -> z list -> py_res

val lower : z -> z

val list_eqb : z list -> z list -> bool

val infnan_spelling : z list -> (bool * bool) option
