
val negb : bool -> bool

type nat =
| O
| S of nat

val option_map : ('a1 -> 'a2) -> 'a1 option -> 'a2 option

val fst : ('a1 * 'a2) -> 'a1

val snd : ('a1 * 'a2) -> 'a2

val length : 'a1 list -> nat

val app : 'a1 list -> 'a1 list -> 'a1 list

type comparison =
| Eq
| Lt
| Gt

val compOpp : comparison -> comparison

val add : nat -> nat -> nat

val sub : nat -> nat -> nat

type positive =
| XI of positive
| XO of positive
| XH

type n =
| N0
| Npos of positive

type z =
| Z0
| Zpos of positive
| Zneg of positive

module Nat :
 sig
  val sub : nat -> nat -> nat

  val eqb : nat -> nat -> bool

  val leb : nat -> nat -> bool

  val ltb : nat -> nat -> bool

  val divmod : nat -> nat -> nat -> nat -> nat * nat

  val modulo : nat -> nat -> nat

  val iter : nat -> ('a1 -> 'a1) -> 'a1 -> 'a1
 end

module Pos :
 sig
  type mask =
  | IsNul
  | IsPos of positive
  | IsNeg
 end

module Coq_Pos :
 sig
  val succ : positive -> positive

  val add : positive -> positive -> positive

  val add_carry : positive -> positive -> positive

  val pred_double : positive -> positive

  val pred_N : positive -> n

  type mask = Pos.mask =
  | IsNul
  | IsPos of positive
  | IsNeg

  val succ_double_mask : mask -> mask

  val double_mask : mask -> mask

  val double_pred_mask : positive -> mask

  val sub_mask : positive -> positive -> mask

  val sub_mask_carry : positive -> positive -> mask

  val mul : positive -> positive -> positive

  val iter : ('a1 -> 'a1) -> 'a1 -> positive -> 'a1

  val pow : positive -> positive -> positive

  val div2 : positive -> positive

  val div2_up : positive -> positive

  val size : positive -> positive

  val compare_cont : comparison -> positive -> positive -> comparison

  val compare : positive -> positive -> comparison

  val eqb : positive -> positive -> bool

  val coq_Nsucc_double : n -> n

  val coq_Ndouble : n -> n

  val coq_lor : positive -> positive -> positive

  val coq_land : positive -> positive -> n

  val ldiff : positive -> positive -> n

  val iter_op : ('a1 -> 'a1 -> 'a1) -> positive -> 'a1 -> 'a1

  val to_nat : positive -> nat

  val of_succ_nat : nat -> positive
 end

module N :
 sig
  val succ_double : n -> n

  val double : n -> n

  val succ_pos : n -> positive

  val add : n -> n -> n

  val sub : n -> n -> n

  val mul : n -> n -> n

  val compare : n -> n -> comparison

  val eqb : n -> n -> bool

  val leb : n -> n -> bool

  val ltb : n -> n -> bool

  val max : n -> n -> n

  val pow : n -> n -> n

  val size : n -> n

  val pos_div_eucl : positive -> n -> n * n

  val div_eucl : n -> n -> n * n

  val div : n -> n -> n

  val modulo : n -> n -> n

  val coq_lor : n -> n -> n

  val coq_land : n -> n -> n

  val ldiff : n -> n -> n

  val to_nat : n -> nat

  val of_nat : nat -> n
 end

val tl : 'a1 list -> 'a1 list

val nth : nat -> 'a1 list -> 'a1 -> 'a1

val nth_error : 'a1 list -> nat -> 'a1 option

val rev : 'a1 list -> 'a1 list

val rev_append : 'a1 list -> 'a1 list -> 'a1 list

val rev' : 'a1 list -> 'a1 list

val concat : 'a1 list list -> 'a1 list

val map : ('a1 -> 'a2) -> 'a1 list -> 'a2 list

val flat_map : ('a1 -> 'a2 list) -> 'a1 list -> 'a2 list

val fold_left : ('a1 -> 'a2 -> 'a1) -> 'a2 list -> 'a1 -> 'a1

val fold_right : ('a2 -> 'a1 -> 'a1) -> 'a1 -> 'a2 list -> 'a1

val existsb : ('a1 -> bool) -> 'a1 list -> bool

val forallb : ('a1 -> bool) -> 'a1 list -> bool

val find : ('a1 -> bool) -> 'a1 list -> 'a1 option

val firstn : nat -> 'a1 list -> 'a1 list

val skipn : nat -> 'a1 list -> 'a1 list

module Z :
 sig
  val double : z -> z

  val succ_double : z -> z

  val pred_double : z -> z

  val pos_sub : positive -> positive -> z

  val add : z -> z -> z

  val opp : z -> z

  val sub : z -> z -> z

  val mul : z -> z -> z

  val compare : z -> z -> comparison

  val leb : z -> z -> bool

  val ltb : z -> z -> bool

  val geb : z -> z -> bool

  val gtb : z -> z -> bool

  val eqb : z -> z -> bool

  val max : z -> z -> z

  val min : z -> z -> z

  val to_nat : z -> nat

  val to_N : z -> n

  val of_nat : nat -> z

  val of_N : n -> z

  val to_pos : z -> positive

  val div2 : z -> z

  val shiftl : z -> z -> z

  val shiftr : z -> z -> z

  val coq_lor : z -> z -> z

  val coq_land : z -> z -> z
 end

val ex_keep : (((((nat * n) * z) * z list) * z option) * positive) * bool

val oct3 : n -> n list

val esc_special : n -> n list

val replace_specials : n list -> n list

val esc_high : n -> n list

val is_ascii : n list -> bool

val escape_byte_string : n list -> n list

type sres =
| Chunks of n list list
| OutOfFuel
| Unmodelled

val find_bs : n list -> nat option

val retreat : n list -> nat -> nat -> nat

val chunk_end : n list -> nat -> nat

val split_loop : nat -> n list -> nat -> sres

val split_chunks : n list -> nat -> sres

val join_chunks : n list list -> n list

val split_string_literal : n list -> nat -> n list option

val as_c_string_literal : n list -> nat -> n list option

val is_oct : n -> bool

val split_characters : n list -> n list list

val char_array_items : n list list -> n list

val char_array_form : n list -> n list

val trigraph_char : n -> n option

val phase1 : n list -> n list

val phase2 : n list -> n list

type rmode =
| MStr
| MChar
| MArr

type rstate =
| RStart
| ROut
| RSep
| RIn
| REsc
| ROct of n * nat
| RHex of n * nat

val delim : rmode -> n

val is_ws : n -> bool

val hexval : n -> n option

val emit_byte : n -> n list option

val in_step : rmode -> n -> (rstate * n list) option

val esc_step : n -> (rstate * n list) option

val flush_then : rmode -> n -> n -> (rstate * n list) option

val step : rmode -> rstate -> n -> (rstate * n list) option

val rd : rmode -> rstate -> n list -> n list option

val c_read : n list -> n list option

val c_read_chars : n list -> n list option

module PositiveMap :
 sig
  type key = positive

  type 'a tree =
  | Leaf
  | Node of 'a tree * 'a option * 'a tree

  type 'a t = 'a tree

  val empty : 'a1 t

  val find : key -> 'a1 t -> 'a1 option

  val add : key -> 'a1 -> 'a1 t -> 'a1 t
 end

val wINDOW_SIZE : z

type entry = z * z list

type table = entry list PositiveMap.t

val key3 : z list -> positive option

val tbl_find : positive -> table -> entry list option

val tbl_add : z -> z list -> table -> table

val extend : z list -> z list -> z -> z -> z option

val scan1_step :
  z -> z -> z -> z list -> (z * z) option -> entry -> (z * z) option

val scan2_step : z -> z -> z -> z -> z list -> z option -> entry -> z option

val find_longest_match : z -> z -> z list -> table -> (z * z) option

val encode_match : z -> z -> z list option

type token =
| TLit of z
| TRef of z * z * z list

val tok_loop :
  z -> table -> z list -> z -> z -> token list -> token list option

val tokenize : z list -> token list option

type pstate = { p_done : z list; p_cur : z list; p_flags : z }

val pack_init : pstate

val tok_flag : token -> z

val tok_bytes : token -> z list

val flags_upd : z -> z -> z

val pack_step : pstate -> token -> pstate

val pad_flags : z -> z

val pack_finish : pstate -> z list

val pack : token list -> z list

val compress : z list -> z list option

type dres =
| DOk of z list * z
| OOB_src_read
| OOB_dst_write
| OOB_dst_ref

val dec_next :
  z -> (z -> z -> z list -> z -> dres) -> z -> z -> z list -> z -> dres

val dec_copy :
  z -> (z -> z -> z list -> z -> dres) -> z -> z -> z -> z -> z list -> z ->
  dres

val dec : z -> z list -> z -> z -> z list -> z -> dres

val decompress : z list -> z -> dres

type sres0 =
| SOk of z list
| SRuntimeError
| SOob of dres

val decompress_string : z list -> z -> z -> sres0

val is_octd : n -> bool

val is_hexd : n -> bool

val hexv : n -> n

val is_namech : n -> bool

val is_esc2 : n -> bool

val is_abfnrtv : n -> bool

val ctrl_of : n -> n

val is_surrogate : n -> bool

val is_scalar : n -> bool

val span_upto : (n -> bool) -> nat -> n list -> n list * n list

val span_all : (n -> bool) -> n list -> n list * n list

val take_exact : (n -> bool) -> nat -> n list -> (n list * n list) option

val lex_named : n list -> (n list * n list) option

val lex_escape : n list -> n list * n list

type kind =
| KStr
| KUni
| KBytes
| KChar

val kind_is_text : kind -> bool

type action =
| AChars of n list
| ACharval of n
| AUescape of n * n list
| ANothing
| AError
| AFatal
| AUnmodelled

val of_base : n -> n list -> n

val append_escape_sequence : kind -> n list -> action

val enc_char : n -> n list

type bstate = { st_err : bool; st_nonascii : bool; st_b : n list;
                st_u : n list }

val st0 : bstate

type dres0 =
| DOk0 of n list option * n list option
| DError
| DInternal
| DUnmodelled
| DOutOfFuel

val b_append : n list -> n list -> n list

type sres1 =
| SNext of bstate
| SStop of dres0

val do_action : bool -> kind -> action -> bstate -> sres1

val finish : kind -> bstate -> dres0

val dec0 : nat -> bool -> kind -> bool -> n list -> bstate -> dres0

val decode : bool -> kind -> bool -> n list -> dres0

type pyres =
| PyValue of n list
| PyReject
| PyNotBody
| PyNamed

val pcons : n -> pyres -> pyres

val simple_escape : n -> n option

val hex2 : n -> n -> n

val hex4 : n -> n -> n -> n -> n

val has_rbrace : n list -> bool

val py_lit : bool -> n list -> pyres

val py_text : n list -> pyres

val py_bytes : n list -> pyres

val py_raw : bool -> n list -> pyres

val one_char : pyres -> pyres

val py_value : kind -> bool -> n list -> pyres

val visible : kind -> dres0 -> n list option

val big_octal : n list -> bool

val encode_utf8 : n list -> n list option

val is_cont : n -> bool

val ocons : n -> n list option -> n list option

val decode_utf8 : n list -> n list option

val hexdig : n -> n

val uesc_char : n -> n list

val uesc_encode : n list -> n list

val unicode_escape_decode : n list -> n list option

val contains_surrogates : n list -> bool

val max_list : n list -> n

val bit_length : n -> n

val index_width : bool -> n list -> n

type cindex =
| INone
| IDecl of n * n list
| ICompileError

val index_decl : bool -> n list -> cindex

type table0 = { t_str : cindex; t_bytes : cindex; t_data : n list }

val nlen : n list -> n

val encode_all : n list list -> n list list option

type genres =
| GOk of table0
| GEncodeError
| GCompileError

val gen_table : bool -> n list list -> n list list -> genres

val unpack_loop :
  (n list -> n list option) -> n list -> n list -> (n list list * n list)
  option

val stored_of : cindex -> n list

val unpack_table : table0 -> n list -> (n list list * n list list) option

type codec = { ext_compress : (n -> n list -> n list option);
               ext_decompress : (n -> n list -> n list option) }

val lzss_compress : n list -> n list option

val compress_with : codec -> n -> n list -> n list option

val select_loop : codec -> n list -> n list -> n option -> (n * n list) list

val compressions : codec -> n list -> (n * n list) list

val default_compression : (n * n list) list -> z

val guard : n -> z -> bool -> bool

val choose : (n * n list) list -> z -> bool -> (n * n list) option

val c_array_of : bool -> n list -> n list option

type image = { im_table : table0; im_comps : (n * n list) list; im_len : 
               n; im_data : n list }

val gen_image : bool -> codec -> n list list -> n list list -> image option

val init_data : codec -> bool -> bool -> z option -> image -> n list option

val init_table :
  codec -> bool -> bool -> z option -> image -> (n list list * n list list)
  option

type pyobj =
| PStr of n list
| PBytes of n list

type cref =
| RText of nat
| RBytes of nat
| RUstr of nat

type lit = { l_kind : kind; l_raw : bool; l_body : n list }

type consts = { c_texts : n list list; c_bstrs : n list list;
                c_ustrs : n list list; c_refs : cref list }

val collect : bool -> lit list -> consts -> consts option

val consts0 : consts

val init_ustr : n list -> n list option

val map_opt : ('a1 -> 'a2 option) -> 'a1 list -> 'a2 list option

val resolve :
  n list list -> n list list -> n list list -> cref -> pyobj option

val run_module :
  bool -> bool -> codec -> bool -> bool -> z option -> lit list -> pyobj list
  option

val py_object : lit -> pyobj option

val id_codec : codec

type rform =
| F7
| F9
| F14

val ref_fields : z list -> (((rform * z) * z) * z list) option

val form_of : z -> z -> rform option

val lzss_unpack : table0 -> n list -> (n list list * n list list) option

val refs_of : token list -> ((z * z) * z) list
