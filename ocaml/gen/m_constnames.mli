
val negb : bool -> bool

type nat =
| O
| S of nat

val fst : ('a1 * 'a2) -> 'a1

val snd : ('a1 * 'a2) -> 'a2

val length : 'a1 list -> nat

val app : 'a1 list -> 'a1 list -> 'a1 list

type comparison =
| Eq
| Lt
| Gt

val compOpp : comparison -> comparison

val add : nat -> nat -> nat

val sub : nat -> nat -> nat

type positive =
| XI of positive
| XO of positive
| XH

type n =
| N0
| Npos of positive

type z =
| Z0
| Zpos of positive
| Zneg of positive

module Pos :
 sig
  val succ : positive -> positive

  val add : positive -> positive -> positive

  val add_carry : positive -> positive -> positive

  val pred_double : positive -> positive

  val pred_N : positive -> n

  val mul : positive -> positive -> positive

  val iter : ('a1 -> 'a1) -> 'a1 -> positive -> 'a1

  val div2 : positive -> positive

  val div2_up : positive -> positive

  val size : positive -> positive

  val compare_cont : comparison -> positive -> positive -> comparison

  val compare : positive -> positive -> comparison

  val eqb : positive -> positive -> bool

  val coq_Nsucc_double : n -> n

  val coq_Ndouble : n -> n

  val coq_lor : positive -> positive -> positive

  val coq_land : positive -> positive -> n

  val ldiff : positive -> positive -> n

  val iter_op : ('a1 -> 'a1 -> 'a1) -> positive -> 'a1 -> 'a1

  val to_nat : positive -> nat

  val of_succ_nat : nat -> positive
 end

module N :
 sig
  val succ_pos : n -> positive

  val coq_lor : n -> n -> n

  val ldiff : n -> n -> n
 end

module Z :
 sig
  val double : z -> z

  val succ_double : z -> z

  val pred_double : z -> z

  val pos_sub : positive -> positive -> z

  val add : z -> z -> z

  val opp : z -> z

  val pred : z -> z

  val sub : z -> z -> z

  val mul : z -> z -> z

  val pow_pos : z -> positive -> z

  val pow : z -> z -> z

  val compare : z -> z -> comparison

  val leb : z -> z -> bool

  val ltb : z -> z -> bool

  val eqb : z -> z -> bool

  val max : z -> z -> z

  val abs : z -> z

  val to_nat : z -> nat

  val of_nat : nat -> z

  val of_N : n -> z

  val pos_div_eucl : positive -> z -> z * z

  val div_eucl : z -> z -> z * z

  val div : z -> z -> z

  val modulo : z -> z -> z

  val div2 : z -> z

  val log2 : z -> z

  val shiftl : z -> z -> z

  val shiftr : z -> z -> z

  val coq_land : z -> z -> z

  val ones : z -> z
 end

val nth_error : 'a1 list -> nat -> 'a1 option

val last : 'a1 list -> 'a1 -> 'a1

val removelast : 'a1 list -> 'a1 list

val rev : 'a1 list -> 'a1 list

val map : ('a1 -> 'a2) -> 'a1 list -> 'a2 list

val flat_map : ('a1 -> 'a2 list) -> 'a1 list -> 'a2 list

val fold_left : ('a1 -> 'a2 -> 'a1) -> 'a2 list -> 'a1 -> 'a1

val forallb : ('a1 -> bool) -> 'a1 list -> bool

val filter : ('a1 -> bool) -> 'a1 list -> 'a1 list

val firstn : nat -> 'a1 list -> 'a1 list

val skipn : nat -> 'a1 list -> 'a1 list

val ex_keep : (((((nat * n) * z) * z list) * z option) * positive) * bool

val wrap : z -> bool -> z -> z

val ch_us : z

val ch_minus : z

val ch_plus : z

val ch_0 : z

val is_x : z -> bool

val is_o : z -> bool

val is_b : z -> bool

val is_l : z -> bool

val is_space : z -> bool

val digit_val : z -> z

val drop_space : z list -> z list

val scan : z -> bool -> z -> z -> z list -> ((z * z) * z list) option

val max_str_digits : z

val is_pow2_base : z -> bool

val py_int : z -> z list -> z option

val strip_L : z list -> z list

val str_to_number : z list -> z option

val digit_char : z -> z

val digits_rev : nat -> z -> z -> z list

val digits_rev_pow2 : nat -> z -> z -> z list

val digit_fuel : z -> nat

val to_digits : z -> z -> z list

val to_digits_pow2 : z -> z -> z list

val to_base32 : z -> z list

val bit_length : z -> z

val next_size : z -> z -> z

val c_array_bytes : z -> z -> z

type emitted =
| EmitC of z * z
| EmitBase32 of z list

val emit_num : z -> z list -> emitted option

val decode_emitted : emitted -> z option

val zlist_eqb : z list -> z list -> bool

type str = z list

type ptype =
| PInt
| PLong
| PFloat

val ptype_eqb : ptype -> ptype -> bool

val s_neg : str

val s_large : str

val s_xxx : str

val pfx_int : str

val pfx_float : str

val name_limit : z

val keep : nat

val sanitize_ch : z -> str

val sanitize : str -> str

val eff_spelling : str -> ptype -> str

val prefix_of : ptype -> str

val lastn : nat -> 'a1 list -> 'a1 list

val dec : z -> str

type dict = (str * z) list

val dget : str -> dict -> z option

val dmem : str -> dict -> bool

val dset : str -> z -> dict -> dict

type fmt = { f_pre : str; f_sep : bool; f_post : str }

val fmt_base : fmt -> str

val fmt_at : fmt -> z -> str

type ures =
| UOk of str * dict
| UKeyError
| UFuel

val uniq_loop : nat -> fmt -> dict -> ures

val unique_const_cname : fmt -> dict -> ures

val large_fmt : ptype -> str -> fmt

val new_num_const_cname_gen : bool -> str -> ptype -> dict -> ures

type nkey = str * ptype

val nkey_eqb : nkey -> nkey -> bool

type pool = { p_index : (nkey * str) list; p_used : dict }

val index_find : nkey -> (nkey * str) list -> str option

val get_num_const_gen : bool -> nkey -> pool -> (str * pool) option

type event =
| EReq of nkey
| EUniq of fmt

val step_event_gen : bool -> event -> pool -> (str * pool) option

val run_events_gen : bool -> event list -> pool -> (str list * pool) option

val pool0 : pool

val okc : z -> bool

val is_e : z -> bool

val sep_ok : bool -> str -> bool

val spell_ok : str -> bool

val event_okb : event -> bool

type numconst = { nc_name : str; nc_text : str; nc_type : ptype; nc_code : str }

val ptype_rank : ptype -> z

val lstrip_minus : str -> str

val str_cmp : str -> str -> comparison

val lex : comparison -> comparison -> comparison

val nc_cmp : numconst -> numconst -> comparison

val nc_le : numconst -> numconst -> bool

val nc_insert : numconst -> numconst list -> numconst list

val nc_sort : numconst list -> numconst list

type slot_init =
| IFloat of str
| IInt of emitted
| IBad

val is_float : numconst -> bool

val is_small : numconst -> bool

val is_large : numconst -> bool

val small_slots : z -> numconst list -> (str * slot_init) list

val large_slot : numconst -> str * slot_init

val layout : numconst list -> (str * slot_init) list

val resolve_from : z -> str -> (str * slot_init) list -> z option -> z option

val resolve : str -> (str * slot_init) list -> z option

val slot_value : slot_init -> z option

val pool_consts : pool -> (nkey -> str) -> numconst list

val const_value : pool -> (nkey -> str) -> nkey -> z option
