
val xorb : bool -> bool -> bool

val negb : bool -> bool

type nat =
| O
| S of nat

val fst : ('a1 * 'a2) -> 'a1

type comparison =
| Eq
| Lt
| Gt

val compOpp : comparison -> comparison

type positive =
| XI of positive
| XO of positive
| XH

type n =
| N0
| Npos of positive

type z =
| Z0
| Zpos of positive
| Zneg of positive

val eqb : bool -> bool -> bool

module Pos :
 sig
  val succ : positive -> positive

  val add : positive -> positive -> positive

  val add_carry : positive -> positive -> positive

  val pred_double : positive -> positive

  val mul : positive -> positive -> positive

  val iter : ('a1 -> 'a1) -> 'a1 -> positive -> 'a1

  val div2 : positive -> positive

  val div2_up : positive -> positive

  val compare_cont : comparison -> positive -> positive -> comparison

  val compare : positive -> positive -> comparison
 end

module Z :
 sig
  val double : z -> z

  val succ_double : z -> z

  val pred_double : z -> z

  val pos_sub : positive -> positive -> z

  val add : z -> z -> z

  val opp : z -> z

  val sub : z -> z -> z

  val mul : z -> z -> z

  val pow_pos : z -> positive -> z

  val pow : z -> z -> z

  val compare : z -> z -> comparison

  val leb : z -> z -> bool

  val ltb : z -> z -> bool

  val max : z -> z -> z

  val min : z -> z -> z

  val pos_div_eucl : positive -> z -> z * z

  val div_eucl : z -> z -> z * z

  val div : z -> z -> z

  val modulo : z -> z -> z

  val even : z -> bool

  val div2 : z -> z

  val shiftl : z -> z -> z
 end

val zeq_bool : z -> z -> bool

val shift_pos : positive -> positive -> positive

type spec_float =
| S754_zero of bool
| S754_infinity of bool
| S754_nan
| S754_finite of bool * positive * z

val emin : z -> z -> z

val fexp : z -> z -> z -> z

val digits2_pos : positive -> positive

val zdigits2 : z -> z

val canonical_mantissa : z -> z -> positive -> z -> bool

val bounded : z -> z -> positive -> z -> bool

val valid_binary : z -> z -> spec_float -> bool

val iter_pos : ('a1 -> 'a1) -> positive -> 'a1 -> 'a1

type location =
| Loc_Exact
| Loc_Inexact of comparison

type shr_record = { shr_m : z; shr_r : bool; shr_s : bool }

val shr_1 : shr_record -> shr_record

val loc_of_shr_record : shr_record -> location

val shr_record_of_loc : z -> location -> shr_record

val shr : shr_record -> z -> z -> shr_record * z

val shr_fexp : z -> z -> z -> z -> location -> shr_record * z

val round_nearest_even : z -> location -> z

val binary_round_aux : z -> z -> bool -> z -> z -> location -> spec_float

val shl_align : positive -> z -> z -> positive * z

val binary_round : z -> z -> bool -> positive -> z -> spec_float

val binary_normalize : z -> z -> z -> z -> bool -> spec_float

val sFcompare : spec_float -> spec_float -> comparison option

val sFeqb : spec_float -> spec_float -> bool

val sFltb : spec_float -> spec_float -> bool

val sFleb : spec_float -> spec_float -> bool

val sFmul : z -> z -> spec_float -> spec_float -> spec_float

val cond_Zopp : bool -> z -> z

val sFadd : z -> z -> spec_float -> spec_float -> spec_float

val sFsub : z -> z -> spec_float -> spec_float -> spec_float

val new_location_even : z -> z -> location

val new_location_odd : z -> z -> location

val new_location : z -> z -> location

val sFdiv_core_binary : z -> z -> z -> z -> z -> z -> (z * z) * location

val sFdiv : z -> z -> spec_float -> spec_float -> spec_float

val ex_keep : (((((nat * n) * z) * z list) * z option) * positive) * bool

type f = spec_float

val dprec : z

val demax : z

val fadd : f -> f -> f

val fsub : f -> f -> f

val fmul : f -> f -> f

val fdiv : f -> f -> f

val feqb : f -> f -> bool

val fltb : f -> f -> bool

val fleb : f -> f -> bool

val fvalid : f -> bool

val fzero : f

val fone : f

val fhalf : f

val fnonzero : f -> bool

val fneg : f -> bool

val fgtb : f -> f -> bool

val f_of_bool : bool -> f

val fsign : f -> bool

val fcopysign : f -> f -> f

val fmod_exact : f -> f -> f

val floor_exact : f -> f

type fres =
| FVal of f
| FZeroDiv

val mod_float_old : (f -> f -> f) -> f -> f -> f

val mod_float_new : (f -> f -> f) -> f -> f -> f

val mod_float : (f -> f -> f) -> bool -> f -> f -> f

val mod_node : (f -> f -> f) -> bool -> f -> f -> fres

val py_float_rem : (f -> f -> f) -> f -> f -> fres

val floordiv_old : (f -> f) -> f -> f -> f

val py_floor_div_val : (f -> f -> f) -> (f -> f) -> f -> f -> f

val floordiv_new : (f -> f -> f) -> (f -> f) -> f -> f -> f

val floordiv : (f -> f -> f) -> (f -> f) -> bool -> f -> f -> f

val floordiv_node : (f -> f -> f) -> (f -> f) -> bool -> f -> f -> fres

val py_float_floor_div : (f -> f -> f) -> (f -> f) -> f -> f -> fres

val truediv_node : f -> f -> fres

val mod_node_x : bool -> f -> f -> fres

val py_float_rem_x : f -> f -> fres

val floordiv_node_x : bool -> f -> f -> fres

val py_float_floor_div_x : f -> f -> fres
