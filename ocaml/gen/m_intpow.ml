
(** val negb : bool -> bool **)

let negb = function
| true -> false
| false -> true

type nat =
| O
| S of nat

type comparison =
| Eq
| Lt
| Gt

(** val compOpp : comparison -> comparison **)

let compOpp = function
| Eq -> Eq
| Lt -> Gt
| Gt -> Lt

module Coq__1 = struct
 (** val add : nat -> nat -> nat **)
 let rec add n0 m =
   match n0 with
   | O -> m
   | S p -> S (add p m)
end
include Coq__1

type positive =
| XI of positive
| XO of positive
| XH

type n =
| N0
| Npos of positive

type z =
| Z0
| Zpos of positive
| Zneg of positive

module Pos =
 struct
  (** val succ : positive -> positive **)

  let rec succ = function
  | XI p -> XO (succ p)
  | XO p -> XI p
  | XH -> XO XH

  (** val add : positive -> positive -> positive **)

  let rec add x y =
    match x with
    | XI p ->
      (match y with
       | XI q -> XO (add_carry p q)
       | XO q -> XI (add p q)
       | XH -> XO (succ p))
    | XO p ->
      (match y with
       | XI q -> XI (add p q)
       | XO q -> XO (add p q)
       | XH -> XI p)
    | XH -> (match y with
             | XI q -> XO (succ q)
             | XO q -> XI q
             | XH -> XO XH)

  (** val add_carry : positive -> positive -> positive **)

  and add_carry x y =
    match x with
    | XI p ->
      (match y with
       | XI q -> XI (add_carry p q)
       | XO q -> XO (add_carry p q)
       | XH -> XI (succ p))
    | XO p ->
      (match y with
       | XI q -> XO (add_carry p q)
       | XO q -> XI (add p q)
       | XH -> XO (succ p))
    | XH ->
      (match y with
       | XI q -> XI (succ q)
       | XO q -> XO (succ q)
       | XH -> XI XH)

  (** val pred_double : positive -> positive **)

  let rec pred_double = function
  | XI p -> XI (XO p)
  | XO p -> XI (pred_double p)
  | XH -> XH

  (** val pred_N : positive -> n **)

  let pred_N = function
  | XI p -> Npos (XO p)
  | XO p -> Npos (pred_double p)
  | XH -> N0

  (** val mul : positive -> positive -> positive **)

  let rec mul x y =
    match x with
    | XI p -> add y (XO (mul p y))
    | XO p -> XO (mul p y)
    | XH -> y

  (** val iter : ('a1 -> 'a1) -> 'a1 -> positive -> 'a1 **)

  let rec iter f x = function
  | XI n' -> f (iter f (iter f x n') n')
  | XO n' -> iter f (iter f x n') n'
  | XH -> f x

  (** val div2 : positive -> positive **)

  let div2 = function
  | XI p0 -> p0
  | XO p0 -> p0
  | XH -> XH

  (** val div2_up : positive -> positive **)

  let div2_up = function
  | XI p0 -> succ p0
  | XO p0 -> p0
  | XH -> XH

  (** val compare_cont : comparison -> positive -> positive -> comparison **)

  let rec compare_cont r x y =
    match x with
    | XI p ->
      (match y with
       | XI q -> compare_cont r p q
       | XO q -> compare_cont Gt p q
       | XH -> Gt)
    | XO p ->
      (match y with
       | XI q -> compare_cont Lt p q
       | XO q -> compare_cont r p q
       | XH -> Gt)
    | XH -> (match y with
             | XH -> r
             | _ -> Lt)

  (** val compare : positive -> positive -> comparison **)

  let compare =
    compare_cont Eq

  (** val eqb : positive -> positive -> bool **)

  let rec eqb p q =
    match p with
    | XI p0 -> (match q with
                | XI q0 -> eqb p0 q0
                | _ -> false)
    | XO p0 -> (match q with
                | XO q0 -> eqb p0 q0
                | _ -> false)
    | XH -> (match q with
             | XH -> true
             | _ -> false)

  (** val coq_Nsucc_double : n -> n **)

  let coq_Nsucc_double = function
  | N0 -> Npos XH
  | Npos p -> Npos (XI p)

  (** val coq_Ndouble : n -> n **)

  let coq_Ndouble = function
  | N0 -> N0
  | Npos p -> Npos (XO p)

  (** val coq_lor : positive -> positive -> positive **)

  let rec coq_lor p q =
    match p with
    | XI p0 ->
      (match q with
       | XI q0 -> XI (coq_lor p0 q0)
       | XO q0 -> XI (coq_lor p0 q0)
       | XH -> p)
    | XO p0 ->
      (match q with
       | XI q0 -> XI (coq_lor p0 q0)
       | XO q0 -> XO (coq_lor p0 q0)
       | XH -> XI p0)
    | XH -> (match q with
             | XO q0 -> XI q0
             | _ -> q)

  (** val coq_land : positive -> positive -> n **)

  let rec coq_land p q =
    match p with
    | XI p0 ->
      (match q with
       | XI q0 -> coq_Nsucc_double (coq_land p0 q0)
       | XO q0 -> coq_Ndouble (coq_land p0 q0)
       | XH -> Npos XH)
    | XO p0 ->
      (match q with
       | XI q0 -> coq_Ndouble (coq_land p0 q0)
       | XO q0 -> coq_Ndouble (coq_land p0 q0)
       | XH -> N0)
    | XH -> (match q with
             | XO _ -> N0
             | _ -> Npos XH)

  (** val ldiff : positive -> positive -> n **)

  let rec ldiff p q =
    match p with
    | XI p0 ->
      (match q with
       | XI q0 -> coq_Ndouble (ldiff p0 q0)
       | XO q0 -> coq_Nsucc_double (ldiff p0 q0)
       | XH -> Npos (XO p0))
    | XO p0 ->
      (match q with
       | XI q0 -> coq_Ndouble (ldiff p0 q0)
       | XO q0 -> coq_Ndouble (ldiff p0 q0)
       | XH -> Npos p)
    | XH -> (match q with
             | XO _ -> Npos XH
             | _ -> N0)

  (** val iter_op : ('a1 -> 'a1 -> 'a1) -> positive -> 'a1 -> 'a1 **)

  let rec iter_op op p a =
    match p with
    | XI p0 -> op a (iter_op op p0 (op a a))
    | XO p0 -> iter_op op p0 (op a a)
    | XH -> a

  (** val to_nat : positive -> nat **)

  let to_nat x =
    iter_op Coq__1.add x (S O)
 end

module N =
 struct
  (** val succ_pos : n -> positive **)

  let succ_pos = function
  | N0 -> XH
  | Npos p -> Pos.succ p

  (** val coq_lor : n -> n -> n **)

  let coq_lor n0 m =
    match n0 with
    | N0 -> m
    | Npos p -> (match m with
                 | N0 -> n0
                 | Npos q -> Npos (Pos.coq_lor p q))

  (** val coq_land : n -> n -> n **)

  let coq_land n0 m =
    match n0 with
    | N0 -> N0
    | Npos p -> (match m with
                 | N0 -> N0
                 | Npos q -> Pos.coq_land p q)

  (** val ldiff : n -> n -> n **)

  let ldiff n0 m =
    match n0 with
    | N0 -> N0
    | Npos p -> (match m with
                 | N0 -> n0
                 | Npos q -> Pos.ldiff p q)
 end

module Z =
 struct
  (** val double : z -> z **)

  let double = function
  | Z0 -> Z0
  | Zpos p -> Zpos (XO p)
  | Zneg p -> Zneg (XO p)

  (** val succ_double : z -> z **)

  let succ_double = function
  | Z0 -> Zpos XH
  | Zpos p -> Zpos (XI p)
  | Zneg p -> Zneg (Pos.pred_double p)

  (** val pred_double : z -> z **)

  let pred_double = function
  | Z0 -> Zneg XH
  | Zpos p -> Zpos (Pos.pred_double p)
  | Zneg p -> Zneg (XI p)

  (** val pos_sub : positive -> positive -> z **)

  let rec pos_sub x y =
    match x with
    | XI p ->
      (match y with
       | XI q -> double (pos_sub p q)
       | XO q -> succ_double (pos_sub p q)
       | XH -> Zpos (XO p))
    | XO p ->
      (match y with
       | XI q -> pred_double (pos_sub p q)
       | XO q -> double (pos_sub p q)
       | XH -> Zpos (Pos.pred_double p))
    | XH ->
      (match y with
       | XI q -> Zneg (XO q)
       | XO q -> Zneg (Pos.pred_double q)
       | XH -> Z0)

  (** val add : z -> z -> z **)

  let add x y =
    match x with
    | Z0 -> y
    | Zpos x' ->
      (match y with
       | Z0 -> x
       | Zpos y' -> Zpos (Pos.add x' y')
       | Zneg y' -> pos_sub x' y')
    | Zneg x' ->
      (match y with
       | Z0 -> x
       | Zpos y' -> pos_sub y' x'
       | Zneg y' -> Zneg (Pos.add x' y'))

  (** val opp : z -> z **)

  let opp = function
  | Z0 -> Z0
  | Zpos x0 -> Zneg x0
  | Zneg x0 -> Zpos x0

  (** val pred : z -> z **)

  let pred x =
    add x (Zneg XH)

  (** val sub : z -> z -> z **)

  let sub m n0 =
    add m (opp n0)

  (** val mul : z -> z -> z **)

  let mul x y =
    match x with
    | Z0 -> Z0
    | Zpos x' ->
      (match y with
       | Z0 -> Z0
       | Zpos y' -> Zpos (Pos.mul x' y')
       | Zneg y' -> Zneg (Pos.mul x' y'))
    | Zneg x' ->
      (match y with
       | Z0 -> Z0
       | Zpos y' -> Zneg (Pos.mul x' y')
       | Zneg y' -> Zpos (Pos.mul x' y'))

  (** val pow_pos : z -> positive -> z **)

  let pow_pos z0 =
    Pos.iter (mul z0) (Zpos XH)

  (** val pow : z -> z -> z **)

  let pow x = function
  | Z0 -> Zpos XH
  | Zpos p -> pow_pos x p
  | Zneg _ -> Z0

  (** val compare : z -> z -> comparison **)

  let compare x y =
    match x with
    | Z0 -> (match y with
             | Z0 -> Eq
             | Zpos _ -> Lt
             | Zneg _ -> Gt)
    | Zpos x' -> (match y with
                  | Zpos y' -> Pos.compare x' y'
                  | _ -> Gt)
    | Zneg x' ->
      (match y with
       | Zneg y' -> compOpp (Pos.compare x' y')
       | _ -> Lt)

  (** val leb : z -> z -> bool **)

  let leb x y =
    match compare x y with
    | Gt -> false
    | _ -> true

  (** val ltb : z -> z -> bool **)

  let ltb x y =
    match compare x y with
    | Lt -> true
    | _ -> false

  (** val eqb : z -> z -> bool **)

  let eqb x y =
    match x with
    | Z0 -> (match y with
             | Z0 -> true
             | _ -> false)
    | Zpos p -> (match y with
                 | Zpos q -> Pos.eqb p q
                 | _ -> false)
    | Zneg p -> (match y with
                 | Zneg q -> Pos.eqb p q
                 | _ -> false)

  (** val to_nat : z -> nat **)

  let to_nat = function
  | Zpos p -> Pos.to_nat p
  | _ -> O

  (** val of_N : n -> z **)

  let of_N = function
  | N0 -> Z0
  | Npos p -> Zpos p

  (** val pos_div_eucl : positive -> z -> z * z **)

  let rec pos_div_eucl a b =
    match a with
    | XI a' ->
      let (q, r) = pos_div_eucl a' b in
      let r' = add (mul (Zpos (XO XH)) r) (Zpos XH) in
      if ltb r' b
      then ((mul (Zpos (XO XH)) q), r')
      else ((add (mul (Zpos (XO XH)) q) (Zpos XH)), (sub r' b))
    | XO a' ->
      let (q, r) = pos_div_eucl a' b in
      let r' = mul (Zpos (XO XH)) r in
      if ltb r' b
      then ((mul (Zpos (XO XH)) q), r')
      else ((add (mul (Zpos (XO XH)) q) (Zpos XH)), (sub r' b))
    | XH -> if leb (Zpos (XO XH)) b then (Z0, (Zpos XH)) else ((Zpos XH), Z0)

  (** val div_eucl : z -> z -> z * z **)

  let div_eucl a b =
    match a with
    | Z0 -> (Z0, Z0)
    | Zpos a' ->
      (match b with
       | Z0 -> (Z0, a)
       | Zpos _ -> pos_div_eucl a' b
       | Zneg b' ->
         let (q, r) = pos_div_eucl a' (Zpos b') in
         (match r with
          | Z0 -> ((opp q), Z0)
          | _ -> ((opp (add q (Zpos XH))), (add b r))))
    | Zneg a' ->
      (match b with
       | Z0 -> (Z0, a)
       | Zpos _ ->
         let (q, r) = pos_div_eucl a' b in
         (match r with
          | Z0 -> ((opp q), Z0)
          | _ -> ((opp (add q (Zpos XH))), (sub b r)))
       | Zneg b' -> let (q, r) = pos_div_eucl a' (Zpos b') in (q, (opp r)))

  (** val modulo : z -> z -> z **)

  let modulo a b =
    let (_, r) = div_eucl a b in r

  (** val odd : z -> bool **)

  let odd = function
  | Z0 -> false
  | Zpos p -> (match p with
               | XO _ -> false
               | _ -> true)
  | Zneg p -> (match p with
               | XO _ -> false
               | _ -> true)

  (** val div2 : z -> z **)

  let div2 = function
  | Z0 -> Z0
  | Zpos p -> (match p with
               | XH -> Z0
               | _ -> Zpos (Pos.div2 p))
  | Zneg p -> Zneg (Pos.div2_up p)

  (** val shiftl : z -> z -> z **)

  let shiftl a = function
  | Z0 -> a
  | Zpos p -> Pos.iter (mul (Zpos (XO XH))) a p
  | Zneg p -> Pos.iter div2 a p

  (** val shiftr : z -> z -> z **)

  let shiftr a n0 =
    shiftl a (opp n0)

  (** val coq_lor : z -> z -> z **)

  let coq_lor a b =
    match a with
    | Z0 -> b
    | Zpos a0 ->
      (match b with
       | Z0 -> a
       | Zpos b0 -> Zpos (Pos.coq_lor a0 b0)
       | Zneg b0 -> Zneg (N.succ_pos (N.ldiff (Pos.pred_N b0) (Npos a0))))
    | Zneg a0 ->
      (match b with
       | Z0 -> a
       | Zpos b0 -> Zneg (N.succ_pos (N.ldiff (Pos.pred_N a0) (Npos b0)))
       | Zneg b0 ->
         Zneg (N.succ_pos (N.coq_land (Pos.pred_N a0) (Pos.pred_N b0))))

  (** val coq_land : z -> z -> z **)

  let coq_land a b =
    match a with
    | Z0 -> Z0
    | Zpos a0 ->
      (match b with
       | Z0 -> Z0
       | Zpos b0 -> of_N (Pos.coq_land a0 b0)
       | Zneg b0 -> of_N (N.ldiff (Npos a0) (Pos.pred_N b0)))
    | Zneg a0 ->
      (match b with
       | Z0 -> Z0
       | Zpos b0 -> of_N (N.ldiff (Npos b0) (Pos.pred_N a0))
       | Zneg b0 ->
         Zneg (N.succ_pos (N.coq_lor (Pos.pred_N a0) (Pos.pred_N b0))))

  (** val lnot : z -> z **)

  let lnot a =
    pred (opp a)
 end

(** val ex_keep :
    (((((nat * n) * z) * z list) * z option) * positive) * bool **)

let ex_keep =
  ((((((O, N0), Z0), []), None), XH), true)

(** val min_int : z -> bool -> z **)

let min_int w = function
| true -> Z.opp (Z.pow (Zpos (XO XH)) (Z.sub w (Zpos XH)))
| false -> Z0

(** val max_int : z -> bool -> z **)

let max_int w = function
| true -> Z.sub (Z.pow (Zpos (XO XH)) (Z.sub w (Zpos XH))) (Zpos XH)
| false -> Z.sub (Z.pow (Zpos (XO XH)) w) (Zpos XH)

(** val in_rangeb : z -> bool -> z -> bool **)

let in_rangeb w s v =
  (&&) (Z.leb (min_int w s) v) (Z.leb v (max_int w s))

(** val wrap : z -> bool -> z -> z **)

let wrap w s v =
  if s
  then Z.sub
         (Z.modulo (Z.add v (Z.pow (Zpos (XO XH)) (Z.sub w (Zpos XH))))
           (Z.pow (Zpos (XO XH)) w))
         (Z.pow (Zpos (XO XH)) (Z.sub w (Zpos XH)))
  else Z.modulo v (Z.pow (Zpos (XO XH)) w)

(** val pow_factor : z -> bool -> z -> z -> z **)

let pow_factor w s b e =
  Z.coq_lor (wrap w s (Z.mul b (Z.coq_land e (Zpos XH))))
    (Z.coq_land (Z.lnot e) (Zpos XH))

(** val pow_loop : nat -> z -> bool -> z -> z -> z -> z option **)

let rec pow_loop fuel w s t b e =
  if Z.eqb e Z0
  then Some t
  else (match fuel with
        | O -> None
        | S f ->
          pow_loop f w s (wrap w s (Z.mul t (pow_factor w s b e)))
            (if Z.eqb (Z.shiftr e (Zpos XH)) Z0
             then b
             else wrap w s (Z.mul b b)) (Z.shiftr e (Zpos XH)))

(** val int_pow : z -> bool -> z -> z -> z option **)

let int_pow w s b e =
  if Z.eqb e (Zpos (XI XH))
  then Some (wrap w s (Z.mul (wrap w s (Z.mul b b)) b))
  else if Z.eqb e (Zpos (XO XH))
       then Some (wrap w s (Z.mul b b))
       else if Z.eqb e (Zpos XH)
            then Some b
            else if Z.eqb e Z0
                 then Some (Zpos XH)
                 else if (&&) s (Z.ltb e Z0)
                      then Some Z0
                      else pow_loop (Z.to_nat w) w s (Zpos XH) b e

type pow2_path =
| P2One
| P2Long of z
| P2ULL of z
| P2Lshift of z
| P2Fallback

(** val pow2 : z -> pow2_path **)

let pow2 n0 =
  if Z.eqb n0 Z0
  then P2One
  else if Z.ltb n0 Z0
       then P2Fallback
       else if Z.leb n0
                 (Z.sub
                   (Z.pow (Zpos (XO XH)) (Zpos (XI (XI (XI (XI (XI XH)))))))
                   (Zpos XH))
            then if Z.leb n0 (Zpos (XO (XI (XI (XI (XI XH))))))
                 then P2Long
                        (wrap (Zpos (XO (XO (XO (XO (XO (XO XH))))))) true
                          (Z.shiftl (Zpos XH) n0))
                 else if Z.leb n0 (Zpos (XI (XI (XI (XI (XI XH))))))
                      then P2ULL
                             (wrap (Zpos (XO (XO (XO (XO (XO (XO XH)))))))
                               false (Z.shiftl (Zpos XH) n0))
                      else P2Lshift n0
            else P2Fallback

(** val pow2_value : z -> z option **)

let pow2_value n0 =
  match pow2 n0 with
  | P2One -> Some (Zpos XH)
  | P2Long v -> Some v
  | P2ULL v -> Some v
  | P2Lshift k -> Some (Z.shiftl (Zpos XH) k)
  | P2Fallback -> if Z.ltb n0 Z0 then None else Some (Z.pow (Zpos (XO XH)) n0)

type pres =
| PVal of z
| PUB
| PFuel

(** val mulc : z -> bool -> z -> z -> z option **)

let mulc w s x y =
  if s
  then if in_rangeb w s (Z.mul x y) then Some (Z.mul x y) else None
  else Some (wrap w s (Z.mul x y))

(** val pow_loop_ck : bool -> nat -> z -> bool -> z -> z -> z -> pres **)

let rec pow_loop_ck fixsq fuel w s t b e =
  if Z.eqb e Z0
  then PVal t
  else (match fuel with
        | O -> PFuel
        | S f ->
          (match mulc w s t (if Z.odd e then b else Zpos XH) with
           | Some t' ->
             let e' = Z.shiftr e (Zpos XH) in
             if (&&) fixsq (Z.eqb e' Z0)
             then pow_loop_ck fixsq f w s t' b e'
             else (match mulc w s b b with
                   | Some b' -> pow_loop_ck fixsq f w s t' b' e'
                   | None -> PUB)
           | None -> PUB))

(** val int_pow_ck : bool -> z -> bool -> z -> z -> pres **)

let int_pow_ck fixsq w s b e =
  if Z.eqb e (Zpos (XI XH))
  then (match mulc w s b b with
        | Some t -> (match mulc w s t b with
                     | Some r -> PVal r
                     | None -> PUB)
        | None -> PUB)
  else if Z.eqb e (Zpos (XO XH))
       then (match mulc w s b b with
             | Some r -> PVal r
             | None -> PUB)
       else if Z.eqb e (Zpos XH)
            then PVal b
            else if Z.eqb e Z0
                 then PVal (Zpos XH)
                 else if (&&) s (Z.ltb e Z0)
                      then PVal Z0
                      else pow_loop_ck fixsq (Z.to_nat w) w s (Zpos XH) b e

type atype =
| AInt
| AUInt
| AFloat

type bkind =
| BNegIntConst
| BNonNegIntConst
| BRuntimeSignedInt
| BRuntimeUnsignedInt
| BIntegralFloatConst
| BFloatConst
| BRuntimeFloat

type rtype =
| RInt
| RFloat
| RSoftComplex
| ROther
| RComplex
| RObj

(** val a_is_int : atype -> bool **)

let a_is_int = function
| AFloat -> false
| _ -> true

(** val b_is_int : bkind -> bool **)

let b_is_int = function
| BIntegralFloatConst -> false
| BFloatConst -> false
| BRuntimeFloat -> false
| _ -> true

(** val doc_allows : bool -> atype -> bkind -> rtype -> bool **)

let doc_allows cpow a b r =
  if a_is_int a
  then (match b with
        | BNegIntConst -> (match r with
                           | RFloat -> true
                           | _ -> false)
        | BNonNegIntConst -> (match r with
                              | RInt -> true
                              | _ -> false)
        | BRuntimeSignedInt ->
          (match r with
           | RInt -> cpow
           | RFloat -> negb cpow
           | _ -> false)
        | BRuntimeUnsignedInt -> (match r with
                                  | RInt -> true
                                  | _ -> false)
        | _ ->
          (match r with
           | RFloat ->
             (||) ((||) cpow (match a with
                              | AUInt -> true
                              | _ -> false))
               (match b with
                | BIntegralFloatConst -> true
                | _ -> false)
           | RSoftComplex -> negb cpow
           | _ -> false))
  else (match b with
        | BIntegralFloatConst ->
          (match r with
           | RFloat ->
             (||) ((||) cpow (match a with
                              | AUInt -> true
                              | _ -> false))
               (match b with
                | BIntegralFloatConst -> true
                | _ -> false)
           | RSoftComplex -> negb cpow
           | _ -> false)
        | BFloatConst ->
          (match r with
           | RFloat ->
             (||) ((||) cpow (match a with
                              | AUInt -> true
                              | _ -> false))
               (match b with
                | BIntegralFloatConst -> true
                | _ -> false)
           | RSoftComplex -> negb cpow
           | _ -> false)
        | BRuntimeFloat ->
          (match r with
           | RFloat ->
             (||) ((||) cpow (match a with
                              | AUInt -> true
                              | _ -> false))
               (match b with
                | BIntegralFloatConst -> true
                | _ -> false)
           | RSoftComplex -> negb cpow
           | _ -> false)
        | _ -> (match r with
                | RFloat -> true
                | _ -> false))

type cpow3 =
| CUnset
| CTrue
| CFalse

type opnd =
| OC of atype
| OComplex
| OObj
| OPosFloat
| OPosIntConst

type ekind =
| EC of bkind
| EComplexConst
| ERuntimeComplex
| EObj

type dest =
| DNone
| DCInt
| DCFloat
| DCComplex
| DPyObj
| DCastInt
| DCastFloat
| DArithInt
| DArithFloat

(** val eff_cpow : cpow3 -> bool **)

let eff_cpow = function
| CTrue -> true
| _ -> false

(** val o_is_c_real : opnd -> bool **)

let o_is_c_real = function
| OComplex -> false
| OObj -> false
| _ -> true

(** val e_is_c_real : ekind -> bool **)

let e_is_c_real = function
| EC _ -> true
| _ -> false

(** val o_is_c_int : opnd -> bool **)

let o_is_c_int = function
| OC a0 -> (match a0 with
            | AFloat -> false
            | _ -> true)
| _ -> false

(** val e_is_c_int : ekind -> bool **)

let e_is_c_int = function
| EC k -> b_is_int k
| _ -> false

(** val base_type : opnd -> ekind -> rtype **)

let base_type a b =
  match a with
  | OC a' ->
    (match b with
     | EC b' -> if (&&) (a_is_int a') (b_is_int b') then RInt else RFloat
     | EObj -> RObj
     | _ -> RComplex)
  | OComplex -> (match b with
                 | EObj -> RObj
                 | _ -> RComplex)
  | OObj -> RObj
  | OPosFloat -> (match b with
                  | EC _ -> RFloat
                  | EObj -> RObj
                  | _ -> RComplex)
  | OPosIntConst ->
    (match b with
     | EC b' -> if b_is_int b' then RInt else RFloat
     | EObj -> RObj
     | _ -> RComplex)

(** val widen : rtype -> rtype **)

let widen r = match r with
| RInt -> RFloat
| _ -> r

(** val pow_type : bool -> opnd -> ekind -> rtype **)

let pow_type cpow a b =
  match base_type a b with
  | RSoftComplex ->
    let base = RSoftComplex in
    (match b with
     | EC b0 ->
       (match b0 with
        | BNegIntConst -> widen base
        | BRuntimeSignedInt -> if cpow then base else widen base
        | BFloatConst ->
          if cpow
          then base
          else (match a with
                | OC a0 -> (match a0 with
                            | AUInt -> base
                            | _ -> RSoftComplex)
                | OComplex -> RSoftComplex
                | OObj -> RSoftComplex
                | _ -> base)
        | BRuntimeFloat ->
          if cpow
          then base
          else (match a with
                | OC a0 -> (match a0 with
                            | AUInt -> base
                            | _ -> RSoftComplex)
                | OComplex -> RSoftComplex
                | OObj -> RSoftComplex
                | _ -> base)
        | _ -> base)
     | _ -> base)
  | RComplex -> RComplex
  | RObj -> RObj
  | x ->
    (match b with
     | EC b0 ->
       (match b0 with
        | BNegIntConst -> widen x
        | BRuntimeSignedInt -> if cpow then x else widen x
        | BFloatConst ->
          if cpow
          then x
          else (match a with
                | OC a0 -> (match a0 with
                            | AUInt -> x
                            | _ -> RSoftComplex)
                | OComplex -> RSoftComplex
                | OObj -> RSoftComplex
                | _ -> x)
        | BRuntimeFloat ->
          if cpow
          then x
          else (match a with
                | OC a0 -> (match a0 with
                            | AUInt -> x
                            | _ -> RSoftComplex)
                | OComplex -> RSoftComplex
                | OObj -> RSoftComplex
                | _ -> x)
        | _ -> x)
     | _ -> x)

(** val type_inferred : opnd -> ekind -> bool **)

let type_inferred a b =
  match base_type a b with
  | RObj -> false
  | _ ->
    (match b with
     | EC b0 ->
       (match b0 with
        | BRuntimeSignedInt -> true
        | BFloatConst ->
          (match a with
           | OC a0 -> (match a0 with
                       | AUInt -> false
                       | _ -> true)
           | _ -> false)
        | BRuntimeFloat ->
          (match a with
           | OC a0 -> (match a0 with
                       | AUInt -> false
                       | _ -> true)
           | _ -> false)
        | _ -> false)
     | _ -> false)

(** val is_direct_c_real : dest -> bool **)

let is_direct_c_real = function
| DCInt -> true
| DCFloat -> true
| _ -> false

(** val fallback_fires : cpow3 -> opnd -> ekind -> dest -> bool **)

let fallback_fires c a b d =
  match c with
  | CUnset ->
    (&&) ((&&) (type_inferred a b) (is_direct_c_real d))
      (match pow_type false a b with
       | RFloat ->
         (match d with
          | DCInt -> (&&) (o_is_c_int a) (e_is_c_int b)
          | _ -> false)
       | RSoftComplex -> (&&) (o_is_c_real a) (e_is_c_real b)
       | _ -> false)
  | _ -> false

(** val assignable : rtype -> dest -> bool **)

let assignable r = function
| DCInt -> (match r with
            | RInt -> true
            | RObj -> true
            | _ -> false)
| DCFloat -> (match r with
              | ROther -> false
              | RComplex -> false
              | _ -> true)
| _ -> (match r with
        | ROther -> false
        | _ -> true)

type outcome = { o_type : rtype; o_rejected : bool; o_warned : bool }

(** val pow_coerced : cpow3 -> opnd -> ekind -> dest -> outcome **)

let pow_coerced c a b d =
  let fb = fallback_fires c a b d in
  let r = pow_type ((||) (eff_cpow c) fb) a b in
  { o_type = r; o_rejected = (negb (assignable r d)); o_warned = fb }

(** val doc_coerced : cpow3 -> opnd -> ekind -> dest -> outcome **)

let doc_coerced c a b d =
  match c with
  | CUnset ->
    let r0 = pow_type false a b in
    let direct = match d with
                 | DCInt -> true
                 | DCFloat -> true
                 | _ -> false in
    let c_reals =
      match a with
      | OComplex -> false
      | OObj -> false
      | _ -> (match b with
              | EC _ -> true
              | _ -> false)
    in
    let c_ints =
      match a with
      | OC a0 ->
        (match a0 with
         | AFloat -> false
         | _ -> (match b with
                 | EC k -> b_is_int k
                 | _ -> false))
      | _ -> false
    in
    let differs =
      negb
        (match r0 with
         | RInt -> (match pow_type true a b with
                    | RInt -> true
                    | _ -> false)
         | RFloat ->
           (match pow_type true a b with
            | RFloat -> true
            | _ -> false)
         | RComplex ->
           (match pow_type true a b with
            | RComplex -> true
            | _ -> false)
         | RObj -> (match pow_type true a b with
                    | RObj -> true
                    | _ -> false)
         | _ -> false)
    in
    let fb =
      (&&) ((&&) ((&&) direct differs) c_reals)
        (match r0 with
         | RFloat -> (match d with
                      | DCInt -> c_ints
                      | _ -> false)
         | RSoftComplex -> true
         | _ -> false)
    in
    let r = if fb then pow_type true a b else r0 in
    { o_type = r; o_rejected = (negb (assignable r d)); o_warned = fb }
  | CTrue ->
    let r = pow_type true a b in
    { o_type = r; o_rejected = (negb (assignable r d)); o_warned = false }
  | CFalse ->
    let r = pow_type false a b in
    { o_type = r; o_rejected = (negb (assignable r d)); o_warned = false }

type delivery =
| VInt
| VFloat
| VPyReal
| VPyComplex
| VTypeError
| VNoValue

(** val deliver : rtype -> dest -> bool -> delivery **)

let deliver r d real =
  if negb (assignable r d)
  then VNoValue
  else (match r with
        | RInt -> VInt
        | RFloat -> VFloat
        | RSoftComplex ->
          (match d with
           | DCInt -> VNoValue
           | DCFloat -> if real then VPyReal else VTypeError
           | DCComplex -> VPyComplex
           | DCastInt -> VNoValue
           | DCastFloat -> VNoValue
           | _ -> if real then VPyReal else VPyComplex)
        | ROther -> VNoValue
        | RComplex ->
          (match d with
           | DCastInt -> VNoValue
           | DCastFloat -> VNoValue
           | _ -> VPyComplex)
        | RObj ->
          (match d with
           | DCInt -> if real then VPyReal else VTypeError
           | DCFloat -> if real then VPyReal else VTypeError
           | DCComplex -> VPyComplex
           | _ -> if real then VPyReal else VPyComplex))
