
type nat =
| O
| S of nat

val fst : ('a1 * 'a2) -> 'a1

val snd : ('a1 * 'a2) -> 'a2

val length : 'a1 list -> nat

val app : 'a1 list -> 'a1 list -> 'a1 list

type comparison =
| Eq
| Lt
| Gt

val compOpp : comparison -> comparison

val add : nat -> nat -> nat

type positive =
| XI of positive
| XO of positive
| XH

type n =
| N0
| Npos of positive

type z =
| Z0
| Zpos of positive
| Zneg of positive

module Pos :
 sig
  val succ : positive -> positive

  val add : positive -> positive -> positive

  val add_carry : positive -> positive -> positive

  val pred_double : positive -> positive

  val pred_N : positive -> n

  val mul : positive -> positive -> positive

  val iter : ('a1 -> 'a1) -> 'a1 -> positive -> 'a1

  val div2 : positive -> positive

  val div2_up : positive -> positive

  val size : positive -> positive

  val compare_cont : comparison -> positive -> positive -> comparison

  val compare : positive -> positive -> comparison

  val eqb : positive -> positive -> bool

  val coq_Nsucc_double : n -> n

  val coq_Ndouble : n -> n

  val coq_lor : positive -> positive -> positive

  val coq_land : positive -> positive -> n

  val ldiff : positive -> positive -> n

  val iter_op : ('a1 -> 'a1 -> 'a1) -> positive -> 'a1 -> 'a1

  val to_nat : positive -> nat
 end

module N :
 sig
  val succ_pos : n -> positive

  val coq_lor : n -> n -> n

  val coq_land : n -> n -> n

  val ldiff : n -> n -> n
 end

module Z :
 sig
  val double : z -> z

  val succ_double : z -> z

  val pred_double : z -> z

  val pos_sub : positive -> positive -> z

  val add : z -> z -> z

  val opp : z -> z

  val sub : z -> z -> z

  val mul : z -> z -> z

  val compare : z -> z -> comparison

  val leb : z -> z -> bool

  val ltb : z -> z -> bool

  val eqb : z -> z -> bool

  val to_nat : z -> nat

  val of_N : n -> z

  val div2 : z -> z

  val log2 : z -> z

  val shiftl : z -> z -> z

  val shiftr : z -> z -> z

  val coq_lor : z -> z -> z

  val coq_land : z -> z -> z
 end

val forallb : ('a1 -> bool) -> 'a1 list -> bool

val repeat : 'a1 -> nat -> 'a1 list

val ex_keep : (((((nat * n) * z) * z list) * z option) * positive) * bool

type pos = ((z * z) * z) * z

type 'a eres =
| EOk of 'a
| EAssertionError
| EEncodeError
| EOutOfFuel

val ebind : 'a1 eres -> ('a1 -> 'a2 eres) -> 'a2 eres

val byte_ok : z -> bool

val chars : z list -> z list eres

val varint_loop : nat -> z -> z list eres

val varint_fuel : z -> nat

val encode_varint : z -> z list eres

val short_bytes : z -> z -> z list

val oneline_bytes : z -> z -> z -> z list

val long_start : z

val encode_single : bool -> pos -> z -> (z list * z) eres

val build_loop : bool -> pos list -> z -> z list eres

val build_line_table : bool -> pos list -> z -> z list eres

val read_varint_loop : z list -> z -> z -> (z * z list) option

val read_varint : z list -> (z * z list) option

val signed_of_uval : z -> z

val read_signed_varint : z list -> (z * z list) option

val entry_code : z -> z

val entry_units : z -> z

val advance_with_locations : z list -> z -> (((pos * z) * z) * z list) option

type dres =
| DOk of pos list
| DTruncated
| DOutOfFuel

val decode_loop : nat -> z list -> z -> dres

val decode_positions : z -> z list -> dres

val scan_varint : z list -> z option

val scan_signed_varint : z list -> z option

val get_line_delta : z list -> z option

val skip_payload : z list -> z list

val advance : z list -> z -> (((z * z) * z) * z list) option

type lres =
| LOk of z list
| LTruncated
| LOutOfFuel

val lines_loop : nat -> z list -> z -> lres

val decode_lines : z -> z list -> lres
