
(** val xorb : bool -> bool -> bool **)

let xorb b1 b2 =
  if b1 then if b2 then false else true else b2

(** val negb : bool -> bool **)

let negb = function
| true -> false
| false -> true

type nat =
| O
| S of nat

(** val fst : ('a1 * 'a2) -> 'a1 **)

let fst = function
| (x, _) -> x

(** val snd : ('a1 * 'a2) -> 'a2 **)

let snd = function
| (_, y) -> y

type comparison =
| Eq
| Lt
| Gt

(** val compOpp : comparison -> comparison **)

let compOpp = function
| Eq -> Eq
| Lt -> Gt
| Gt -> Lt

type positive =
| XI of positive
| XO of positive
| XH

type n =
| N0
| Npos of positive

type z =
| Z0
| Zpos of positive
| Zneg of positive

module Pos =
 struct
  type mask =
  | IsNul
  | IsPos of positive
  | IsNeg
 end

module Coq_Pos =
 struct
  (** val succ : positive -> positive **)

  let rec succ = function
  | XI p -> XO (succ p)
  | XO p -> XI p
  | XH -> XO XH

  (** val add : positive -> positive -> positive **)

  let rec add x y =
    match x with
    | XI p ->
      (match y with
       | XI q -> XO (add_carry p q)
       | XO q -> XI (add p q)
       | XH -> XO (succ p))
    | XO p ->
      (match y with
       | XI q -> XI (add p q)
       | XO q -> XO (add p q)
       | XH -> XI p)
    | XH -> (match y with
             | XI q -> XO (succ q)
             | XO q -> XI q
             | XH -> XO XH)

  (** val add_carry : positive -> positive -> positive **)

  and add_carry x y =
    match x with
    | XI p ->
      (match y with
       | XI q -> XI (add_carry p q)
       | XO q -> XO (add_carry p q)
       | XH -> XI (succ p))
    | XO p ->
      (match y with
       | XI q -> XO (add_carry p q)
       | XO q -> XI (add p q)
       | XH -> XO (succ p))
    | XH ->
      (match y with
       | XI q -> XI (succ q)
       | XO q -> XO (succ q)
       | XH -> XI XH)

  (** val pred_double : positive -> positive **)

  let rec pred_double = function
  | XI p -> XI (XO p)
  | XO p -> XI (pred_double p)
  | XH -> XH

  (** val pred_N : positive -> n **)

  let pred_N = function
  | XI p -> Npos (XO p)
  | XO p -> Npos (pred_double p)
  | XH -> N0

  type mask = Pos.mask =
  | IsNul
  | IsPos of positive
  | IsNeg

  (** val succ_double_mask : mask -> mask **)

  let succ_double_mask = function
  | IsNul -> IsPos XH
  | IsPos p -> IsPos (XI p)
  | IsNeg -> IsNeg

  (** val double_mask : mask -> mask **)

  let double_mask = function
  | IsPos p -> IsPos (XO p)
  | x0 -> x0

  (** val double_pred_mask : positive -> mask **)

  let double_pred_mask = function
  | XI p -> IsPos (XO (XO p))
  | XO p -> IsPos (XO (pred_double p))
  | XH -> IsNul

  (** val sub_mask : positive -> positive -> mask **)

  let rec sub_mask x y =
    match x with
    | XI p ->
      (match y with
       | XI q -> double_mask (sub_mask p q)
       | XO q -> succ_double_mask (sub_mask p q)
       | XH -> IsPos (XO p))
    | XO p ->
      (match y with
       | XI q -> succ_double_mask (sub_mask_carry p q)
       | XO q -> double_mask (sub_mask p q)
       | XH -> IsPos (pred_double p))
    | XH -> (match y with
             | XH -> IsNul
             | _ -> IsNeg)

  (** val sub_mask_carry : positive -> positive -> mask **)

  and sub_mask_carry x y =
    match x with
    | XI p ->
      (match y with
       | XI q -> succ_double_mask (sub_mask_carry p q)
       | XO q -> double_mask (sub_mask p q)
       | XH -> IsPos (pred_double p))
    | XO p ->
      (match y with
       | XI q -> double_mask (sub_mask_carry p q)
       | XO q -> succ_double_mask (sub_mask_carry p q)
       | XH -> double_pred_mask p)
    | XH -> IsNeg

  (** val mul : positive -> positive -> positive **)

  let rec mul x y =
    match x with
    | XI p -> add y (XO (mul p y))
    | XO p -> XO (mul p y)
    | XH -> y

  (** val iter : ('a1 -> 'a1) -> 'a1 -> positive -> 'a1 **)

  let rec iter f x = function
  | XI n' -> f (iter f (iter f x n') n')
  | XO n' -> iter f (iter f x n') n'
  | XH -> f x

  (** val div2 : positive -> positive **)

  let div2 = function
  | XI p0 -> p0
  | XO p0 -> p0
  | XH -> XH

  (** val div2_up : positive -> positive **)

  let div2_up = function
  | XI p0 -> succ p0
  | XO p0 -> p0
  | XH -> XH

  (** val compare_cont : comparison -> positive -> positive -> comparison **)

  let rec compare_cont r x y =
    match x with
    | XI p ->
      (match y with
       | XI q -> compare_cont r p q
       | XO q -> compare_cont Gt p q
       | XH -> Gt)
    | XO p ->
      (match y with
       | XI q -> compare_cont Lt p q
       | XO q -> compare_cont r p q
       | XH -> Gt)
    | XH -> (match y with
             | XH -> r
             | _ -> Lt)

  (** val compare : positive -> positive -> comparison **)

  let compare =
    compare_cont Eq

  (** val eqb : positive -> positive -> bool **)

  let rec eqb p q =
    match p with
    | XI p0 -> (match q with
                | XI q0 -> eqb p0 q0
                | _ -> false)
    | XO p0 -> (match q with
                | XO q0 -> eqb p0 q0
                | _ -> false)
    | XH -> (match q with
             | XH -> true
             | _ -> false)

  (** val coq_Nsucc_double : n -> n **)

  let coq_Nsucc_double = function
  | N0 -> Npos XH
  | Npos p -> Npos (XI p)

  (** val coq_Ndouble : n -> n **)

  let coq_Ndouble = function
  | N0 -> N0
  | Npos p -> Npos (XO p)

  (** val coq_lor : positive -> positive -> positive **)

  let rec coq_lor p q =
    match p with
    | XI p0 ->
      (match q with
       | XI q0 -> XI (coq_lor p0 q0)
       | XO q0 -> XI (coq_lor p0 q0)
       | XH -> p)
    | XO p0 ->
      (match q with
       | XI q0 -> XI (coq_lor p0 q0)
       | XO q0 -> XO (coq_lor p0 q0)
       | XH -> XI p0)
    | XH -> (match q with
             | XO q0 -> XI q0
             | _ -> q)

  (** val coq_land : positive -> positive -> n **)

  let rec coq_land p q =
    match p with
    | XI p0 ->
      (match q with
       | XI q0 -> coq_Nsucc_double (coq_land p0 q0)
       | XO q0 -> coq_Ndouble (coq_land p0 q0)
       | XH -> Npos XH)
    | XO p0 ->
      (match q with
       | XI q0 -> coq_Ndouble (coq_land p0 q0)
       | XO q0 -> coq_Ndouble (coq_land p0 q0)
       | XH -> N0)
    | XH -> (match q with
             | XO _ -> N0
             | _ -> Npos XH)

  (** val ldiff : positive -> positive -> n **)

  let rec ldiff p q =
    match p with
    | XI p0 ->
      (match q with
       | XI q0 -> coq_Ndouble (ldiff p0 q0)
       | XO q0 -> coq_Nsucc_double (ldiff p0 q0)
       | XH -> Npos (XO p0))
    | XO p0 ->
      (match q with
       | XI q0 -> coq_Ndouble (ldiff p0 q0)
       | XO q0 -> coq_Ndouble (ldiff p0 q0)
       | XH -> Npos p)
    | XH -> (match q with
             | XO _ -> Npos XH
             | _ -> N0)

  (** val coq_lxor : positive -> positive -> n **)

  let rec coq_lxor p q =
    match p with
    | XI p0 ->
      (match q with
       | XI q0 -> coq_Ndouble (coq_lxor p0 q0)
       | XO q0 -> coq_Nsucc_double (coq_lxor p0 q0)
       | XH -> Npos (XO p0))
    | XO p0 ->
      (match q with
       | XI q0 -> coq_Nsucc_double (coq_lxor p0 q0)
       | XO q0 -> coq_Ndouble (coq_lxor p0 q0)
       | XH -> Npos (XI p0))
    | XH ->
      (match q with
       | XI q0 -> Npos (XO q0)
       | XO q0 -> Npos (XI q0)
       | XH -> N0)
 end

module N =
 struct
  (** val succ_double : n -> n **)

  let succ_double = function
  | N0 -> Npos XH
  | Npos p -> Npos (XI p)

  (** val double : n -> n **)

  let double = function
  | N0 -> N0
  | Npos p -> Npos (XO p)

  (** val succ_pos : n -> positive **)

  let succ_pos = function
  | N0 -> XH
  | Npos p -> Coq_Pos.succ p

  (** val sub : n -> n -> n **)

  let sub n0 m =
    match n0 with
    | N0 -> N0
    | Npos n' ->
      (match m with
       | N0 -> n0
       | Npos m' ->
         (match Coq_Pos.sub_mask n' m' with
          | Coq_Pos.IsPos p -> Npos p
          | _ -> N0))

  (** val compare : n -> n -> comparison **)

  let compare n0 m =
    match n0 with
    | N0 -> (match m with
             | N0 -> Eq
             | Npos _ -> Lt)
    | Npos n' -> (match m with
                  | N0 -> Gt
                  | Npos m' -> Coq_Pos.compare n' m')

  (** val leb : n -> n -> bool **)

  let leb x y =
    match compare x y with
    | Gt -> false
    | _ -> true

  (** val pos_div_eucl : positive -> n -> n * n **)

  let rec pos_div_eucl a b =
    match a with
    | XI a' ->
      let (q, r) = pos_div_eucl a' b in
      let r' = succ_double r in
      if leb b r' then ((succ_double q), (sub r' b)) else ((double q), r')
    | XO a' ->
      let (q, r) = pos_div_eucl a' b in
      let r' = double r in
      if leb b r' then ((succ_double q), (sub r' b)) else ((double q), r')
    | XH ->
      (match b with
       | N0 -> (N0, (Npos XH))
       | Npos p -> (match p with
                    | XH -> ((Npos XH), N0)
                    | _ -> (N0, (Npos XH))))

  (** val coq_lor : n -> n -> n **)

  let coq_lor n0 m =
    match n0 with
    | N0 -> m
    | Npos p -> (match m with
                 | N0 -> n0
                 | Npos q -> Npos (Coq_Pos.coq_lor p q))

  (** val ldiff : n -> n -> n **)

  let ldiff n0 m =
    match n0 with
    | N0 -> N0
    | Npos p -> (match m with
                 | N0 -> n0
                 | Npos q -> Coq_Pos.ldiff p q)

  (** val coq_lxor : n -> n -> n **)

  let coq_lxor n0 m =
    match n0 with
    | N0 -> m
    | Npos p -> (match m with
                 | N0 -> n0
                 | Npos q -> Coq_Pos.coq_lxor p q)
 end

module Z =
 struct
  (** val double : z -> z **)

  let double = function
  | Z0 -> Z0
  | Zpos p -> Zpos (XO p)
  | Zneg p -> Zneg (XO p)

  (** val succ_double : z -> z **)

  let succ_double = function
  | Z0 -> Zpos XH
  | Zpos p -> Zpos (XI p)
  | Zneg p -> Zneg (Coq_Pos.pred_double p)

  (** val pred_double : z -> z **)

  let pred_double = function
  | Z0 -> Zneg XH
  | Zpos p -> Zpos (Coq_Pos.pred_double p)
  | Zneg p -> Zneg (XI p)

  (** val pos_sub : positive -> positive -> z **)

  let rec pos_sub x y =
    match x with
    | XI p ->
      (match y with
       | XI q -> double (pos_sub p q)
       | XO q -> succ_double (pos_sub p q)
       | XH -> Zpos (XO p))
    | XO p ->
      (match y with
       | XI q -> pred_double (pos_sub p q)
       | XO q -> double (pos_sub p q)
       | XH -> Zpos (Coq_Pos.pred_double p))
    | XH ->
      (match y with
       | XI q -> Zneg (XO q)
       | XO q -> Zneg (Coq_Pos.pred_double q)
       | XH -> Z0)

  (** val add : z -> z -> z **)

  let add x y =
    match x with
    | Z0 -> y
    | Zpos x' ->
      (match y with
       | Z0 -> x
       | Zpos y' -> Zpos (Coq_Pos.add x' y')
       | Zneg y' -> pos_sub x' y')
    | Zneg x' ->
      (match y with
       | Z0 -> x
       | Zpos y' -> pos_sub y' x'
       | Zneg y' -> Zneg (Coq_Pos.add x' y'))

  (** val opp : z -> z **)

  let opp = function
  | Z0 -> Z0
  | Zpos x0 -> Zneg x0
  | Zneg x0 -> Zpos x0

  (** val pred : z -> z **)

  let pred x =
    add x (Zneg XH)

  (** val sub : z -> z -> z **)

  let sub m n0 =
    add m (opp n0)

  (** val mul : z -> z -> z **)

  let mul x y =
    match x with
    | Z0 -> Z0
    | Zpos x' ->
      (match y with
       | Z0 -> Z0
       | Zpos y' -> Zpos (Coq_Pos.mul x' y')
       | Zneg y' -> Zneg (Coq_Pos.mul x' y'))
    | Zneg x' ->
      (match y with
       | Z0 -> Z0
       | Zpos y' -> Zneg (Coq_Pos.mul x' y')
       | Zneg y' -> Zpos (Coq_Pos.mul x' y'))

  (** val pow_pos : z -> positive -> z **)

  let pow_pos z0 =
    Coq_Pos.iter (mul z0) (Zpos XH)

  (** val pow : z -> z -> z **)

  let pow x = function
  | Z0 -> Zpos XH
  | Zpos p -> pow_pos x p
  | Zneg _ -> Z0

  (** val compare : z -> z -> comparison **)

  let compare x y =
    match x with
    | Z0 -> (match y with
             | Z0 -> Eq
             | Zpos _ -> Lt
             | Zneg _ -> Gt)
    | Zpos x' -> (match y with
                  | Zpos y' -> Coq_Pos.compare x' y'
                  | _ -> Gt)
    | Zneg x' ->
      (match y with
       | Zneg y' -> compOpp (Coq_Pos.compare x' y')
       | _ -> Lt)

  (** val leb : z -> z -> bool **)

  let leb x y =
    match compare x y with
    | Gt -> false
    | _ -> true

  (** val ltb : z -> z -> bool **)

  let ltb x y =
    match compare x y with
    | Lt -> true
    | _ -> false

  (** val eqb : z -> z -> bool **)

  let eqb x y =
    match x with
    | Z0 -> (match y with
             | Z0 -> true
             | _ -> false)
    | Zpos p -> (match y with
                 | Zpos q -> Coq_Pos.eqb p q
                 | _ -> false)
    | Zneg p -> (match y with
                 | Zneg q -> Coq_Pos.eqb p q
                 | _ -> false)

  (** val abs : z -> z **)

  let abs = function
  | Zneg p -> Zpos p
  | x -> x

  (** val of_N : n -> z **)

  let of_N = function
  | N0 -> Z0
  | Npos p -> Zpos p

  (** val pos_div_eucl : positive -> z -> z * z **)

  let rec pos_div_eucl a b =
    match a with
    | XI a' ->
      let (q, r) = pos_div_eucl a' b in
      let r' = add (mul (Zpos (XO XH)) r) (Zpos XH) in
      if ltb r' b
      then ((mul (Zpos (XO XH)) q), r')
      else ((add (mul (Zpos (XO XH)) q) (Zpos XH)), (sub r' b))
    | XO a' ->
      let (q, r) = pos_div_eucl a' b in
      let r' = mul (Zpos (XO XH)) r in
      if ltb r' b
      then ((mul (Zpos (XO XH)) q), r')
      else ((add (mul (Zpos (XO XH)) q) (Zpos XH)), (sub r' b))
    | XH -> if leb (Zpos (XO XH)) b then (Z0, (Zpos XH)) else ((Zpos XH), Z0)

  (** val div_eucl : z -> z -> z * z **)

  let div_eucl a b =
    match a with
    | Z0 -> (Z0, Z0)
    | Zpos a' ->
      (match b with
       | Z0 -> (Z0, a)
       | Zpos _ -> pos_div_eucl a' b
       | Zneg b' ->
         let (q, r) = pos_div_eucl a' (Zpos b') in
         (match r with
          | Z0 -> ((opp q), Z0)
          | _ -> ((opp (add q (Zpos XH))), (add b r))))
    | Zneg a' ->
      (match b with
       | Z0 -> (Z0, a)
       | Zpos _ ->
         let (q, r) = pos_div_eucl a' b in
         (match r with
          | Z0 -> ((opp q), Z0)
          | _ -> ((opp (add q (Zpos XH))), (sub b r)))
       | Zneg b' -> let (q, r) = pos_div_eucl a' (Zpos b') in (q, (opp r)))

  (** val modulo : z -> z -> z **)

  let modulo a b =
    let (_, r) = div_eucl a b in r

  (** val quotrem : z -> z -> z * z **)

  let quotrem a b =
    match a with
    | Z0 -> (Z0, Z0)
    | Zpos a0 ->
      (match b with
       | Z0 -> (Z0, a)
       | Zpos b0 ->
         let (q, r) = N.pos_div_eucl a0 (Npos b0) in ((of_N q), (of_N r))
       | Zneg b0 ->
         let (q, r) = N.pos_div_eucl a0 (Npos b0) in
         ((opp (of_N q)), (of_N r)))
    | Zneg a0 ->
      (match b with
       | Z0 -> (Z0, a)
       | Zpos b0 ->
         let (q, r) = N.pos_div_eucl a0 (Npos b0) in
         ((opp (of_N q)), (opp (of_N r)))
       | Zneg b0 ->
         let (q, r) = N.pos_div_eucl a0 (Npos b0) in
         ((of_N q), (opp (of_N r))))

  (** val quot : z -> z -> z **)

  let quot a b =
    fst (quotrem a b)

  (** val div2 : z -> z **)

  let div2 = function
  | Z0 -> Z0
  | Zpos p -> (match p with
               | XH -> Z0
               | _ -> Zpos (Coq_Pos.div2 p))
  | Zneg p -> Zneg (Coq_Pos.div2_up p)

  (** val shiftl : z -> z -> z **)

  let shiftl a = function
  | Z0 -> a
  | Zpos p -> Coq_Pos.iter (mul (Zpos (XO XH))) a p
  | Zneg p -> Coq_Pos.iter div2 a p

  (** val shiftr : z -> z -> z **)

  let shiftr a n0 =
    shiftl a (opp n0)

  (** val coq_land : z -> z -> z **)

  let coq_land a b =
    match a with
    | Z0 -> Z0
    | Zpos a0 ->
      (match b with
       | Z0 -> Z0
       | Zpos b0 -> of_N (Coq_Pos.coq_land a0 b0)
       | Zneg b0 -> of_N (N.ldiff (Npos a0) (Coq_Pos.pred_N b0)))
    | Zneg a0 ->
      (match b with
       | Z0 -> Z0
       | Zpos b0 -> of_N (N.ldiff (Npos b0) (Coq_Pos.pred_N a0))
       | Zneg b0 ->
         Zneg (N.succ_pos (N.coq_lor (Coq_Pos.pred_N a0) (Coq_Pos.pred_N b0))))

  (** val coq_lxor : z -> z -> z **)

  let coq_lxor a b =
    match a with
    | Z0 -> b
    | Zpos a0 ->
      (match b with
       | Z0 -> a
       | Zpos b0 -> of_N (Coq_Pos.coq_lxor a0 b0)
       | Zneg b0 ->
         Zneg (N.succ_pos (N.coq_lxor (Npos a0) (Coq_Pos.pred_N b0))))
    | Zneg a0 ->
      (match b with
       | Z0 -> a
       | Zpos b0 ->
         Zneg (N.succ_pos (N.coq_lxor (Coq_Pos.pred_N a0) (Npos b0)))
       | Zneg b0 -> of_N (N.coq_lxor (Coq_Pos.pred_N a0) (Coq_Pos.pred_N b0)))

  (** val lnot : z -> z **)

  let lnot a =
    pred (opp a)
 end

(** val nth : nat -> 'a1 list -> 'a1 -> 'a1 **)

let rec nth n0 l default =
  match n0 with
  | O -> (match l with
          | [] -> default
          | x :: _ -> x)
  | S m -> (match l with
            | [] -> default
            | _ :: t -> nth m t default)

(** val ex_keep :
    (((((nat * n) * z) * z list) * z option) * positive) * bool **)

let ex_keep =
  ((((((O, N0), Z0), []), None), XH), true)

(** val min_int : z -> bool -> z **)

let min_int w = function
| true -> Z.opp (Z.pow (Zpos (XO XH)) (Z.sub w (Zpos XH)))
| false -> Z0

(** val max_int : z -> bool -> z **)

let max_int w = function
| true -> Z.sub (Z.pow (Zpos (XO XH)) (Z.sub w (Zpos XH))) (Zpos XH)
| false -> Z.sub (Z.pow (Zpos (XO XH)) w) (Zpos XH)

(** val in_rangeb : z -> bool -> z -> bool **)

let in_rangeb w s v =
  (&&) (Z.leb (min_int w s) v) (Z.leb v (max_int w s))

(** val wrap : z -> bool -> z -> z **)

let wrap w s v =
  if s
  then Z.sub
         (Z.modulo (Z.add v (Z.pow (Zpos (XO XH)) (Z.sub w (Zpos XH))))
           (Z.pow (Zpos (XO XH)) w))
         (Z.pow (Zpos (XO XH)) (Z.sub w (Zpos XH)))
  else Z.modulo v (Z.pow (Zpos (XO XH)) w)

(** val b2z : bool -> z **)

let b2z = function
| true -> Zpos XH
| false -> Z0

(** val adapt_python : bool -> z -> z -> z **)

let adapt_python bconst r b =
  if bconst
  then b2z ((&&) (negb (Z.eqb r Z0)) (xorb (Z.ltb r Z0) (Z.ltb b Z0)))
  else b2z ((&&) (negb (Z.eqb r Z0)) (Z.ltb (Z.coq_lxor r b) Z0))

(** val div_int : z -> bool -> bool -> z -> z -> z **)

let div_int w s bconst a b =
  let q = wrap w s (Z.quot a b) in
  let r = wrap w s (Z.sub a (wrap w s (Z.mul q b))) in
  wrap w s (Z.sub q (adapt_python bconst r b))

(** val div_ub : z -> bool -> z -> z -> bool **)

let div_ub w s a b =
  (||) (Z.eqb b Z0)
    ((&&) ((&&) s (Z.eqb a (min_int w s))) (Z.eqb b (Zneg XH)))

type outcome =
| Value of z
| ZeroDivisionError
| OverflowError
| UB

(** val div_node : bool -> z -> bool -> bool -> z -> z -> outcome **)

let div_node guard_all_widths w s bconst a b =
  if Z.eqb b Z0
  then ZeroDivisionError
  else if (&&)
            ((&&)
              ((&&) s
                ((||) guard_all_widths
                  (Z.eqb w (Zpos (XO (XO (XO (XO (XO (XO XH))))))))))
              (Z.eqb b (Zneg XH))) (Z.eqb a (min_int w s))
       then OverflowError
       else if div_ub w s a b then UB else Value (div_int w s bconst a b)

(** val pyx_half_max : z -> bool -> z **)

let pyx_half_max w s =
  wrap w s (Z.shiftl (Zpos XH) (Z.sub w (Zpos (XO XH))))

(** val pyx_min : z -> bool -> z **)

let pyx_min w s = match s with
| true ->
  wrap w s (Z.sub (wrap w s (Z.sub Z0 (pyx_half_max w s))) (pyx_half_max w s))
| false -> Z0

(** val pyx_max : z -> bool -> z **)

let pyx_max w s =
  wrap w s (Z.lnot (pyx_min w s))

(** val pyx_min_no_overflow : z -> bool -> bool **)

let pyx_min_no_overflow w s = match s with
| true ->
  (&&)
    ((&&) (in_rangeb w s (Z.shiftl (Zpos XH) (Z.sub w (Zpos (XO XH)))))
      (in_rangeb w s (Z.sub Z0 (pyx_half_max w s))))
    (in_rangeb w s (Z.sub (Z.sub Z0 (pyx_half_max w s)) (pyx_half_max w s)))
| false -> true

(** val builtin_res : z -> bool -> z -> z * bool **)

let builtin_res w s exact =
  ((wrap w s exact), (negb (in_rangeb w s exact)))

(** val uadd_portable : z -> z -> z -> z * bool **)

let uadd_portable w a b =
  let r = wrap w false (Z.add a b) in (r, (Z.ltb r a))

(** val usub_portable : z -> z -> z -> z * bool **)

let usub_portable w a b =
  let r = wrap w false (Z.sub a b) in (r, (Z.ltb a r))

(** val umul_const_portable : z -> bool -> z -> z -> z * bool **)

let umul_const_portable w swap a b =
  let a' = if swap then b else a in
  let b' = if swap then a else b in
  let prod0 = wrap w false (Z.mul a' b') in
  (prod0,
  (if Z.eqb b' Z0 then false else Z.ltb (Z.quot (pyx_max w false) b') a'))

(** val widen_res : z -> bool -> z -> z -> z * bool **)

let widen_res w s bw exact =
  let big_r = wrap bw s exact in
  let r = wrap w s big_r in (r, (negb (Z.eqb big_r r)))

(** val umul_portable :
    z -> z -> z -> bool -> bool -> bool -> z -> z -> z * bool **)

let umul_portable w lw llw cb ca swap a b =
  if cb
  then umul_const_portable w swap a b
  else if ca
       then umul_const_portable w swap b a
       else if Z.ltb w lw
            then widen_res w false lw (Z.mul a b)
            else if Z.ltb w llw
                 then widen_res w false llw (Z.mul a b)
                 else umul_const_portable w swap a b

(** val udiv_helper : z -> z -> z -> z * bool **)

let udiv_helper _ a b =
  if Z.eqb b Z0 then (Z0, true) else ((Z.quot a b), false)

(** val sadd_flagword : z -> z -> z -> z **)

let sadd_flagword w a b =
  let ua = wrap w false a in
  let ub = wrap w false b in
  let r = wrap w false (Z.add ua ub) in
  Z.shiftr (Z.coq_land (Z.coq_lxor ua r) (Z.coq_lxor ub r))
    (Z.sub w (Zpos XH))

(** val sadd_portable : z -> z -> z -> z -> z -> z * bool **)

let sadd_portable w lw llw a b =
  if Z.ltb w lw
  then widen_res w true lw (Z.add a b)
  else if Z.ltb w llw
       then widen_res w true llw (Z.add a b)
       else let r = wrap w false (Z.add (wrap w false a) (wrap w false b)) in
            ((wrap w true r), (negb (Z.eqb (sadd_flagword w a b) Z0)))

(** val ssub_flagword : z -> z -> z -> z **)

let ssub_flagword w a b =
  let ua = wrap w false a in
  let ub = wrap w false b in
  let r = wrap w false (Z.sub ua ub) in
  Z.shiftr (Z.coq_land (Z.coq_lxor ua ub) (Z.coq_lxor ua r))
    (Z.sub w (Zpos XH))

(** val ssub_portable : z -> z -> z -> z * bool **)

let ssub_portable w a b =
  let r = wrap w false (Z.sub (wrap w false a) (wrap w false b)) in
  ((wrap w true r), (negb (Z.eqb (ssub_flagword w a b) Z0)))

(** val smul_const_flag : z -> z -> z -> bool **)

let smul_const_flag w a b =
  if Z.ltb (Zpos XH) b
  then (||) (Z.ltb (Z.quot (pyx_max w true) b) a)
         (Z.ltb a (Z.quot (pyx_min w true) b))
  else if Z.eqb b (Zneg XH)
       then Z.eqb a (pyx_min w true)
       else if Z.ltb b (Zneg XH)
            then (||) (Z.ltb (Z.quot (pyx_min w true) b) a)
                   (Z.ltb a (Z.quot (pyx_max w true) b))
            else false

(** val smul_const_portable : z -> bool -> z -> z -> z * bool **)

let smul_const_portable w swap a b =
  let a' = if swap then b else a in
  let b' = if swap then a else b in
  ((wrap w true (wrap w false (Z.mul (wrap w false a') (wrap w false b')))),
  (smul_const_flag w a' b'))

(** val smul_portable :
    z -> z -> z -> bool -> bool -> bool -> z -> z -> z * bool **)

let smul_portable w lw llw cb ca swap a b =
  if cb
  then smul_const_portable w swap a b
  else if ca
       then smul_const_portable w swap b a
       else if Z.ltb w lw
            then widen_res w true lw (Z.mul a b)
            else if Z.ltb w llw
                 then widen_res w true llw (Z.mul a b)
                 else smul_const_portable w swap a b

(** val sdiv_helper : z -> z -> z -> z * bool **)

let sdiv_helper w a b =
  if Z.eqb b Z0
  then (Z0, true)
  else ((wrap w true (Z.quot (wrap w false a) (wrap w false b))),
         ((&&) (Z.eqb a (pyx_min w true)) (Z.eqb b (Zneg XH))))

(** val cdiv_defined : z -> bool -> z -> z -> bool **)

let cdiv_defined w s x y =
  (&&) (negb (Z.eqb y Z0))
    (negb ((&&) ((&&) s (Z.eqb x (min_int w s))) (Z.eqb y (Zneg XH))))

(** val widen_ub_free : z -> bool -> z -> z -> bool **)

let widen_ub_free _ s bw exact =
  if s then in_rangeb bw true exact else true

(** val sadd_ub_free : z -> z -> z -> z -> z -> bool **)

let sadd_ub_free w lw llw a b =
  if Z.ltb w lw
  then widen_ub_free w true lw (Z.add a b)
  else if Z.ltb w llw
       then widen_ub_free w true llw (Z.add a b)
       else (&&)
              ((&&)
                ((&&) (Z.leb Z0 (Z.sub w (Zpos XH)))
                  (Z.ltb (Z.sub w (Zpos XH)) w))
                (Z.leb (sadd_flagword w a b) (Zpos XH)))
              (Z.leb Z0 (sadd_flagword w a b))

(** val ssub_ub_free : z -> z -> z -> bool **)

let ssub_ub_free w a b =
  (&&)
    ((&&) ((&&) (Z.leb Z0 (Z.sub w (Zpos XH))) (Z.ltb (Z.sub w (Zpos XH)) w))
      (Z.leb (ssub_flagword w a b) (Zpos XH)))
    (Z.leb Z0 (ssub_flagword w a b))

(** val smul_const_ub_free : z -> z -> z -> bool **)

let smul_const_ub_free w _ b =
  (&&) (pyx_min_no_overflow w true)
    (if Z.ltb (Zpos XH) b
     then (&&) (cdiv_defined w true (pyx_max w true) b)
            (cdiv_defined w true (pyx_min w true) b)
     else if Z.eqb b (Zneg XH)
          then true
          else if Z.ltb b (Zneg XH)
               then (&&) (cdiv_defined w true (pyx_min w true) b)
                      (cdiv_defined w true (pyx_max w true) b)
               else true)

(** val smul_ub_free :
    z -> z -> z -> bool -> bool -> bool -> z -> z -> bool **)

let smul_ub_free w lw llw cb ca swap a b =
  let a' = if swap then b else a in
  let b' = if swap then a else b in
  if cb
  then smul_const_ub_free w a' b'
  else if ca
       then smul_const_ub_free w b' a'
       else if Z.ltb w lw
            then widen_ub_free w true lw (Z.mul a b)
            else if Z.ltb w llw
                 then widen_ub_free w true llw (Z.mul a b)
                 else smul_const_ub_free w a' b'

(** val lshift_check : z -> bool -> z -> z -> bool **)

let lshift_check w s a b =
  (||)
    ((||) ((&&) s ((||) (Z.ltb a Z0) (Z.ltb b Z0))) (Z.leb (wrap w s w) b))
    (Z.ltb (Z.shiftr (pyx_max w s) b) a)

(** val lshift_helper : z -> bool -> z -> z -> z * bool **)

let lshift_helper w s a b =
  if lshift_check w s a b
  then (Z0, true)
  else ((wrap w s (Z.shiftl a b)), false)

(** val lshift_ub_free : z -> bool -> z -> z -> bool **)

let lshift_ub_free w s a b =
  (&&) (pyx_min_no_overflow w s)
    (if (||) ((&&) s ((||) (Z.ltb a Z0) (Z.ltb b Z0))) (Z.leb (wrap w s w) b)
     then true
     else (&&) ((&&) (Z.leb Z0 b) (Z.ltb b w))
            (if Z.ltb (Z.shiftr (pyx_max w s) b) a
             then true
             else if s
                  then (&&) (Z.leb Z0 a)
                         (in_rangeb w s (Z.mul a (Z.pow (Zpos (XO XH)) b)))
                  else true))

type binop =
| Add
| Sub
| Mul

(** val exact_op : binop -> z -> z -> z **)

let exact_op op a b =
  match op with
  | Add -> Z.add a b
  | Sub -> Z.sub a b
  | Mul -> Z.mul a b

(** val base_helper :
    bool -> binop -> z -> bool -> z -> z -> bool -> bool -> bool -> z -> z ->
    z * bool **)

let base_helper builtin op w s lw llw cb ca swap a b =
  if builtin
  then builtin_res w s (exact_op op a b)
  else (match op with
        | Add -> if s then sadd_portable w lw llw a b else uadd_portable w a b
        | Sub -> if s then ssub_portable w a b else usub_portable w a b
        | Mul ->
          if s
          then smul_portable w lw llw cb ca swap a b
          else umul_portable w lw llw cb ca swap a b)

type hres =
| R of z * bool
| Fatal

(** val of_pair : (z * bool) -> hres **)

let of_pair p =
  R ((fst p), (snd p))

(** val binop_dispatch :
    bool -> binop -> z -> z -> z -> z -> bool -> bool -> bool -> bool -> z ->
    z -> hres **)

let binop_dispatch builtin op iw lw llw w s cb ca swap a b =
  if Z.ltb w iw
  then R ((wrap w s (wrap iw true (exact_op op a b))), false)
  else if Z.eqb w iw
       then of_pair (base_helper builtin op iw s lw llw cb ca swap a b)
       else if Z.eqb w lw
            then of_pair (base_helper builtin op lw s lw llw cb ca swap a b)
            else if Z.eqb w llw
                 then of_pair
                        (base_helper builtin op llw s lw llw cb ca swap a b)
                 else Fatal

type oc =
| Val of z
| Ovf
| Undef

(** val raise_if : (z * bool) -> oc **)

let raise_if p =
  if snd p then Ovf else Val (fst p)

type cop =
| OAdd
| OSub
| OMul
| OLshift

(** val exact_cop : cop -> z -> z -> z **)

let exact_cop op a b =
  match op with
  | OAdd -> Z.add a b
  | OSub -> Z.sub a b
  | OMul -> Z.mul a b
  | OLshift -> Z.mul a (Z.pow (Zpos (XO XH)) b)

(** val helper :
    bool -> cop -> z -> bool -> z -> z -> bool -> bool -> bool -> z -> z ->
    z * bool **)

let helper builtin op w s lw llw cb ca swap a b =
  match op with
  | OAdd -> base_helper builtin Add w s lw llw cb ca swap a b
  | OSub -> base_helper builtin Sub w s lw llw cb ca swap a b
  | OMul -> base_helper builtin Mul w s lw llw cb ca swap a b
  | OLshift -> lshift_helper w s a b

(** val binop_node :
    bool -> cop -> z -> bool -> z -> z -> bool -> bool -> bool -> z -> z -> oc **)

let binop_node builtin op w s lw llw cb ca swap a b =
  raise_if (helper builtin op w s lw llw cb ca swap a b)

(** val neg_node : bool -> z -> bool -> z -> oc **)

let neg_node checked w s a =
  if (&&) checked (negb (in_rangeb w s (Z.opp a)))
  then Ovf
  else if (&&) s (Z.eqb a (min_int w s))
       then Undef
       else Val (wrap w s (Z.opp a))

(** val abs_node : z -> z -> oc **)

let abs_node w a =
  if Z.eqb a (pyx_min w true)
  then Ovf
  else if Z.eqb a (min_int w true) then Undef else Val (wrap w true (Z.abs a))

(** val exact_defined : cop -> z -> bool **)

let exact_defined op b =
  match op with
  | OLshift -> Z.leb Z0 b
  | _ -> true

(** val spurious :
    bool -> cop -> z -> bool -> z -> z -> bool -> bool -> bool -> z -> z ->
    bool **)

let spurious builtin op w s lw llw cb ca swap a b =
  (&&)
    ((&&) (snd (helper builtin op w s lw llw cb ca swap a b))
      (in_rangeb w s (exact_cop op a b))) (exact_defined op b)

type expr =
| EVar of nat
| EConst of z
| EBin of cop * expr * expr

type aexpr =
| AVar of nat
| AConst of z
| ABin of bool * cop * aexpr * aexpr

(** val annotate : expr -> aexpr **)

let rec annotate = function
| EVar i -> AVar i
| EConst c -> AConst c
| EBin (op, e1, e2) -> ABin (true, op, (annotate e1), (annotate e2))

(** val consolidate : bool -> aexpr -> aexpr **)

let rec consolidate inside = function
| ABin (own, op, e1, e2) ->
  if own
  then ABin ((negb inside), op, (consolidate true e1), (consolidate true e2))
  else ABin (own, op, (consolidate inside e1), (consolidate inside e2))
| x -> x

(** val hlp : bool -> z -> z -> z -> bool -> cop -> z -> z -> z * bool **)

let hlp builtin w lw llw s op a b =
  helper builtin op w s lw llw false false false a b

(** val run :
    bool -> z -> z -> z -> bool -> (nat -> z) -> aexpr -> (z * bool) option **)

let rec run builtin w lw llw s env = function
| AVar i -> Some ((env i), false)
| AConst c -> Some (c, false)
| ABin (own, op, e1, e2) ->
  (match run builtin w lw llw s env e1 with
   | Some p ->
     let (v1, p1) = p in
     (match run builtin w lw llw s env e2 with
      | Some p0 ->
        let (v2, p2) = p0 in
        let r = hlp builtin w lw llw s op v1 v2 in
        let bit = (||) ((||) p1 p2) (snd r) in
        if own
        then if bit then None else Some ((fst r), false)
        else Some ((fst r), bit)
      | None -> None)
   | None -> None)

(** val ref_eval :
    bool -> z -> z -> z -> bool -> (nat -> z) -> expr -> z option **)

let rec ref_eval builtin w lw llw s env = function
| EVar i -> Some (env i)
| EConst c -> Some c
| EBin (op, e1, e2) ->
  (match ref_eval builtin w lw llw s env e1 with
   | Some v1 ->
     (match ref_eval builtin w lw llw s env e2 with
      | Some v2 ->
        let r = hlp builtin w lw llw s op v1 v2 in
        if snd r then None else Some (fst r)
      | None -> None)
   | None -> None)

(** val run_top :
    bool -> z -> z -> z -> bool -> (nat -> z) -> aexpr -> z option option **)

let run_top builtin w lw llw s env e =
  match run builtin w lw llw s env e with
  | Some p -> let (v, b) = p in if b then None else Some (Some v)
  | None -> Some None

(** val env_of_list : z list -> nat -> z **)

let env_of_list l i =
  nth i l Z0

type narrow_cmp =
| CmpLt
| CmpLe

(** val cmp_holds : narrow_cmp -> z -> z -> bool **)

let cmp_holds c w iw =
  match c with
  | CmpLt -> Z.ltb w iw
  | CmpLe -> Z.leb w iw

type choice =
| CNarrow
| CBase of z * bool
| CFatal

(** val dispatch_choice : narrow_cmp -> z -> z -> z -> z -> bool -> choice **)

let dispatch_choice c iw lw llw w s =
  if cmp_holds c w iw
  then CNarrow
  else if Z.eqb w iw
       then CBase (iw, s)
       else if Z.eqb w lw
            then CBase (lw, s)
            else if Z.eqb w llw then CBase (llw, s) else CFatal

(** val narrow_unchecked : binop -> z -> z -> bool -> z -> z -> hres **)

let narrow_unchecked op iw w s a b =
  R ((wrap w s (wrap iw true (exact_op op a b))), false)

(** val narrow_checked :
    bool -> binop -> z -> z -> z -> z -> bool -> bool -> bool -> bool -> z ->
    z -> hres **)

let narrow_checked builtin op iw lw llw w s cb ca swap a b =
  let p = base_helper builtin op iw true lw llw cb ca swap a b in
  R ((wrap w s (fst p)),
  ((||) (snd p) (negb (Z.eqb (wrap w s (fst p)) (fst p)))))

(** val binop_dispatch_v :
    bool -> narrow_cmp -> bool -> binop -> z -> z -> z -> z -> bool -> bool
    -> bool -> bool -> z -> z -> hres **)

let binop_dispatch_v fx c builtin op iw lw llw w s cb ca swap a b =
  match dispatch_choice c iw lw llw w s with
  | CNarrow ->
    if fx
    then narrow_checked builtin op iw lw llw w s cb ca swap a b
    else narrow_unchecked op iw w s a b
  | CBase (bw, bs) ->
    of_pair (base_helper builtin op bw bs lw llw cb ca swap a b)
  | CFatal -> Fatal

(** val lshift_td : z -> z -> bool -> z -> z -> z * bool **)

let lshift_td iw w s a b =
  if (&&) (Z.ltb w iw) (negb s) then (Z0, true) else lshift_helper w s a b

(** val oc_of_hres : hres -> oc **)

let oc_of_hres = function
| R (v, f) -> if f then Ovf else Val v
| Fatal -> Undef

(** val typedef_node :
    bool -> narrow_cmp -> bool -> cop -> z -> z -> z -> z -> bool -> bool ->
    bool -> bool -> z -> z -> oc **)

let typedef_node fx c builtin op iw lw llw w s cb ca swap a b =
  match op with
  | OAdd ->
    oc_of_hres
      (binop_dispatch_v fx c builtin Add iw lw llw w s cb ca swap a b)
  | OSub ->
    oc_of_hres
      (binop_dispatch_v fx c builtin Sub iw lw llw w s cb ca swap a b)
  | OMul ->
    oc_of_hres
      (binop_dispatch_v fx c builtin Mul iw lw llw w s cb ca swap a b)
  | OLshift -> raise_if (lshift_td iw w s a b)

(** val nogil_node : bool -> bool -> oc -> oc **)

let nogil_node gil_fixed in_nogil o = match o with
| Ovf -> if (&&) in_nogil (negb gil_fixed) then Undef else Ovf
| _ -> o
