
val implb : bool -> bool -> bool

val negb : bool -> bool

type nat =
| O
| S of nat

val fst : ('a1 * 'a2) -> 'a1

val snd : ('a1 * 'a2) -> 'a2

val length : 'a1 list -> nat

val app : 'a1 list -> 'a1 list -> 'a1 list

val sub : nat -> nat -> nat

type positive =
| XI of positive
| XO of positive
| XH

type n =
| N0
| Npos of positive

type z =
| Z0
| Zpos of positive
| Zneg of positive

val eqb : bool -> bool -> bool

module Nat :
 sig
  val eqb : nat -> nat -> bool

  val leb : nat -> nat -> bool

  val ltb : nat -> nat -> bool
 end

module Pos :
 sig
  val succ : positive -> positive

  val add : positive -> positive -> positive

  val add_carry : positive -> positive -> positive

  val pred_double : positive -> positive

  val eqb : positive -> positive -> bool

  val of_succ_nat : nat -> positive
 end

module Z :
 sig
  val double : z -> z

  val succ_double : z -> z

  val pred_double : z -> z

  val pos_sub : positive -> positive -> z

  val add : z -> z -> z

  val eqb : z -> z -> bool

  val of_nat : nat -> z
 end

val tl : 'a1 list -> 'a1 list

val nth : nat -> 'a1 list -> 'a1 -> 'a1

val nth_error : 'a1 list -> nat -> 'a1 option

val rev : 'a1 list -> 'a1 list

val map : ('a1 -> 'a2) -> 'a1 list -> 'a2 list

val fold_left : ('a1 -> 'a2 -> 'a1) -> 'a2 list -> 'a1 -> 'a1

val existsb : ('a1 -> bool) -> 'a1 list -> bool

val forallb : ('a1 -> bool) -> 'a1 list -> bool

val filter : ('a1 -> bool) -> 'a1 list -> 'a1 list

val find : ('a1 -> bool) -> 'a1 list -> 'a1 option

val seq : nat -> nat -> nat list

val ex_keep : (((((nat * n) * z) * z list) * z option) * positive) * bool

type kind =
| Ext
| Py

type dictkind =
| NoDict
| Eager
| Managed

type mdecl =
| MCpdef
| MDef of z
| MNone

type cls = { ckind : kind; cmro : nat list; cdecl : mdecl; cdecl_dict : 
             bool; cdictk : dictkind }

type hier = cls list

val dcls : cls

val getc : hier -> nat -> cls

val validc : hier -> nat -> bool

val is_py : cls -> bool

type value =
| Fn of z
| Wrap of nat

val init_entry : nat -> cls -> value option

type cstate = { cs_m : value option; cs_ver : z }

type ostate = { os_cls : nat; os_dict : (z option * z) option }

type world = { w_cls : cstate list; w_objs : ostate list;
               w_cache : (nat * (z * z)) list; w_next : z }

val init_cls : hier -> nat -> z -> cstate list

val w0 : hier -> world

val upd : 'a1 list -> nat -> 'a1 -> 'a1 list

val mro_find : (nat -> value option) -> nat list -> value option

val type_lookup : hier -> (nat -> value option) -> nat -> value option

val in_mro : hier -> nat -> nat -> bool

type target =
| TWrap of nat
| TFn of z
| TDescrErr
| TNoAttr

val bind : hier -> nat -> value -> target

val lookup : hier -> (nat -> value option) -> nat -> z option -> target

type result =
| RBody of nat
| RFn of z
| RTypeError
| RAttrError
| RInvalid

type pstate = { p_cls : value option list; p_objs : (nat * z option) list }

val p0 : hier -> pstate

val cd_p : pstate -> nat -> value option

val first_cpdef : hier -> nat list -> nat option

val vslot : hier -> nat -> nat option

val res_of_target : target -> result

val dispatch_py : hier -> pstate -> nat -> z option -> result

val call_via : hier -> (nat -> value option) -> nat -> nat -> result

type op =
| SetClass of nat * value
| DelClass of nat
| New of nat
| SetInst of nat * z
| DelInst of nat
| CallPy of nat
| CallC of nat
| CallVia of nat * nat

val has_dict : hier -> nat -> bool

val step_py : hier -> pstate -> op -> pstate * result option

val run_py : hier -> pstate -> op list -> result list

val cs_get : world -> nat -> cstate

val cd_w : world -> nat -> value option

val tp_ver : world -> nat -> z

val inst_m : ostate -> z option

val set_class : world -> nat -> value option -> world

val set_obj : world -> nat -> ostate -> world

val read_obj_ver : hier -> world -> nat -> world * z

val vINIT : z

val cache_find : (nat * (z * z)) list -> nat -> z * z

val set_cache : world -> nat -> (z * z) -> world

val prefilter : hier -> nat -> bool

val is_ext : cls -> bool

val static_bases : hier -> nat -> bool

val slow_path :
  bool -> bool -> hier -> world -> nat -> nat -> ostate -> world * result

val cbody :
  bool -> bool -> hier -> world -> nat -> bool -> nat -> ostate ->
  world * result

val dispatch_cy :
  bool -> bool -> hier -> world -> nat -> ostate -> world * result

val step_cy : bool -> bool -> hier -> world -> op -> world * result option

val run_cy : bool -> bool -> hier -> world -> op list -> result list

val wf_cls : hier -> nat -> cls -> bool

val wf_from : hier -> nat -> cls list -> bool

val wf_hier : hier -> bool

val no_ext_def : hier -> bool

val is_leaf : hier -> nat -> bool

val leaf_op : hier -> op -> bool

type vdecl =
| VNone
| VDecl of bool * nat * bool

type skarg =
| SkNone
| SkFwd
| SkConst of bool

type oparg =
| OpNone
| OpFwd
| OpNull

type entry =
| EImpl of nat
| EAdapt of nat * skarg * oparg

type slot = { s_cls : nat; s_ov : bool; s_nopt : nat; s_fin : bool;
              s_ent : entry }

type vtable = slot list

val mk_adapt : bool -> nat -> bool -> nat -> slot -> slot

val declare : bool -> nat -> vdecl -> vtable -> vtable

type chain = (nat * vdecl) list

val build : bool -> chain -> vtable -> vtable

type vres =
| VBody of nat
| VEntry of nat * bool

val run_entry : slot -> vres

val split_at : nat -> chain -> (chain * chain) option

val vt_call : bool -> chain -> nat -> vres option

type dstate = ((nat * bool) * bool) option

val upd_st : dstate -> (nat * vdecl) -> dstate

val last_decl : chain -> dstate -> dstate

val vt_ref : chain -> nat -> vres option

val wf_chain : chain -> dstate -> bool

val ext_base : hier -> nat -> nat option

val chain_of : hier -> vdecl list -> nat -> chain

type vop =
| VBase of op
| VCallT of nat * nat

val interp_cy :
  bool -> bool -> hier -> world -> nat -> ostate -> vres -> world * result

val vstep_cy :
  bool -> bool -> bool -> hier -> vdecl list -> world -> vop ->
  world * result option

val vstep_py : hier -> vdecl list -> pstate -> vop -> pstate * result option

val vrun_cy :
  bool -> bool -> bool -> hier -> vdecl list -> world -> vop list -> result
  list

val vrun_py : hier -> vdecl list -> pstate -> vop list -> result list

val agree_at : hier -> vdecl list -> nat -> bool

val list_eqb : nat list -> nat list -> bool

val shape_at : hier -> nat -> bool

val wf_vt : hier -> vdecl list -> bool
