
(** val negb : bool -> bool **)

let negb = function
| true -> false
| false -> true

type nat =
| O
| S of nat

(** val option_map : ('a1 -> 'a2) -> 'a1 option -> 'a2 option **)

let option_map f = function
| Some a -> Some (f a)
| None -> None

(** val fst : ('a1 * 'a2) -> 'a1 **)

let fst = function
| (x, _) -> x

(** val length : 'a1 list -> nat **)

let rec length = function
| [] -> O
| _ :: l' -> S (length l')

(** val app : 'a1 list -> 'a1 list -> 'a1 list **)

let rec app l m =
  match l with
  | [] -> m
  | a :: l1 -> a :: (app l1 m)

type comparison =
| Eq
| Lt
| Gt

(** val compOpp : comparison -> comparison **)

let compOpp = function
| Eq -> Eq
| Lt -> Gt
| Gt -> Lt

(** val add : nat -> nat -> nat **)

let rec add n0 m =
  match n0 with
  | O -> m
  | S p -> S (add p m)

(** val sub : nat -> nat -> nat **)

let rec sub n0 m =
  match n0 with
  | O -> n0
  | S k -> (match m with
            | O -> n0
            | S l -> sub k l)

type positive =
| XI of positive
| XO of positive
| XH

type n =
| N0
| Npos of positive

type z =
| Z0
| Zpos of positive
| Zneg of positive

(** val eqb : bool -> bool -> bool **)

let eqb b1 b2 =
  if b1 then b2 else if b2 then false else true

module Pos =
 struct
  type mask =
  | IsNul
  | IsPos of positive
  | IsNeg
 end

module Coq_Pos =
 struct
  (** val succ : positive -> positive **)

  let rec succ = function
  | XI p -> XO (succ p)
  | XO p -> XI p
  | XH -> XO XH

  (** val add : positive -> positive -> positive **)

  let rec add x y =
    match x with
    | XI p ->
      (match y with
       | XI q -> XO (add_carry p q)
       | XO q -> XI (add p q)
       | XH -> XO (succ p))
    | XO p ->
      (match y with
       | XI q -> XI (add p q)
       | XO q -> XO (add p q)
       | XH -> XI p)
    | XH -> (match y with
             | XI q -> XO (succ q)
             | XO q -> XI q
             | XH -> XO XH)

  (** val add_carry : positive -> positive -> positive **)

  and add_carry x y =
    match x with
    | XI p ->
      (match y with
       | XI q -> XI (add_carry p q)
       | XO q -> XO (add_carry p q)
       | XH -> XI (succ p))
    | XO p ->
      (match y with
       | XI q -> XO (add_carry p q)
       | XO q -> XI (add p q)
       | XH -> XO (succ p))
    | XH ->
      (match y with
       | XI q -> XI (succ q)
       | XO q -> XO (succ q)
       | XH -> XI XH)

  (** val pred_double : positive -> positive **)

  let rec pred_double = function
  | XI p -> XI (XO p)
  | XO p -> XI (pred_double p)
  | XH -> XH

  type mask = Pos.mask =
  | IsNul
  | IsPos of positive
  | IsNeg

  (** val succ_double_mask : mask -> mask **)

  let succ_double_mask = function
  | IsNul -> IsPos XH
  | IsPos p -> IsPos (XI p)
  | IsNeg -> IsNeg

  (** val double_mask : mask -> mask **)

  let double_mask = function
  | IsPos p -> IsPos (XO p)
  | x0 -> x0

  (** val double_pred_mask : positive -> mask **)

  let double_pred_mask = function
  | XI p -> IsPos (XO (XO p))
  | XO p -> IsPos (XO (pred_double p))
  | XH -> IsNul

  (** val sub_mask : positive -> positive -> mask **)

  let rec sub_mask x y =
    match x with
    | XI p ->
      (match y with
       | XI q -> double_mask (sub_mask p q)
       | XO q -> succ_double_mask (sub_mask p q)
       | XH -> IsPos (XO p))
    | XO p ->
      (match y with
       | XI q -> succ_double_mask (sub_mask_carry p q)
       | XO q -> double_mask (sub_mask p q)
       | XH -> IsPos (pred_double p))
    | XH -> (match y with
             | XH -> IsNul
             | _ -> IsNeg)

  (** val sub_mask_carry : positive -> positive -> mask **)

  and sub_mask_carry x y =
    match x with
    | XI p ->
      (match y with
       | XI q -> succ_double_mask (sub_mask_carry p q)
       | XO q -> double_mask (sub_mask p q)
       | XH -> IsPos (pred_double p))
    | XO p ->
      (match y with
       | XI q -> double_mask (sub_mask_carry p q)
       | XO q -> succ_double_mask (sub_mask_carry p q)
       | XH -> double_pred_mask p)
    | XH -> IsNeg

  (** val mul : positive -> positive -> positive **)

  let rec mul x y =
    match x with
    | XI p -> add y (XO (mul p y))
    | XO p -> XO (mul p y)
    | XH -> y

  (** val compare_cont : comparison -> positive -> positive -> comparison **)

  let rec compare_cont r x y =
    match x with
    | XI p ->
      (match y with
       | XI q -> compare_cont r p q
       | XO q -> compare_cont Gt p q
       | XH -> Gt)
    | XO p ->
      (match y with
       | XI q -> compare_cont Lt p q
       | XO q -> compare_cont r p q
       | XH -> Gt)
    | XH -> (match y with
             | XH -> r
             | _ -> Lt)

  (** val compare : positive -> positive -> comparison **)

  let compare =
    compare_cont Eq

  (** val eqb : positive -> positive -> bool **)

  let rec eqb p q =
    match p with
    | XI p0 -> (match q with
                | XI q0 -> eqb p0 q0
                | _ -> false)
    | XO p0 -> (match q with
                | XO q0 -> eqb p0 q0
                | _ -> false)
    | XH -> (match q with
             | XH -> true
             | _ -> false)
 end

module N =
 struct
  (** val succ_double : n -> n **)

  let succ_double = function
  | N0 -> Npos XH
  | Npos p -> Npos (XI p)

  (** val double : n -> n **)

  let double = function
  | N0 -> N0
  | Npos p -> Npos (XO p)

  (** val sub : n -> n -> n **)

  let sub n0 m =
    match n0 with
    | N0 -> N0
    | Npos n' ->
      (match m with
       | N0 -> n0
       | Npos m' ->
         (match Coq_Pos.sub_mask n' m' with
          | Coq_Pos.IsPos p -> Npos p
          | _ -> N0))

  (** val compare : n -> n -> comparison **)

  let compare n0 m =
    match n0 with
    | N0 -> (match m with
             | N0 -> Eq
             | Npos _ -> Lt)
    | Npos n' -> (match m with
                  | N0 -> Gt
                  | Npos m' -> Coq_Pos.compare n' m')

  (** val leb : n -> n -> bool **)

  let leb x y =
    match compare x y with
    | Gt -> false
    | _ -> true

  (** val pos_div_eucl : positive -> n -> n * n **)

  let rec pos_div_eucl a b =
    match a with
    | XI a' ->
      let (q, r) = pos_div_eucl a' b in
      let r' = succ_double r in
      if leb b r' then ((succ_double q), (sub r' b)) else ((double q), r')
    | XO a' ->
      let (q, r) = pos_div_eucl a' b in
      let r' = double r in
      if leb b r' then ((succ_double q), (sub r' b)) else ((double q), r')
    | XH ->
      (match b with
       | N0 -> (N0, (Npos XH))
       | Npos p -> (match p with
                    | XH -> ((Npos XH), N0)
                    | _ -> (N0, (Npos XH))))
 end

module Z =
 struct
  (** val double : z -> z **)

  let double = function
  | Z0 -> Z0
  | Zpos p -> Zpos (XO p)
  | Zneg p -> Zneg (XO p)

  (** val succ_double : z -> z **)

  let succ_double = function
  | Z0 -> Zpos XH
  | Zpos p -> Zpos (XI p)
  | Zneg p -> Zneg (Coq_Pos.pred_double p)

  (** val pred_double : z -> z **)

  let pred_double = function
  | Z0 -> Zneg XH
  | Zpos p -> Zpos (Coq_Pos.pred_double p)
  | Zneg p -> Zneg (XI p)

  (** val pos_sub : positive -> positive -> z **)

  let rec pos_sub x y =
    match x with
    | XI p ->
      (match y with
       | XI q -> double (pos_sub p q)
       | XO q -> succ_double (pos_sub p q)
       | XH -> Zpos (XO p))
    | XO p ->
      (match y with
       | XI q -> pred_double (pos_sub p q)
       | XO q -> double (pos_sub p q)
       | XH -> Zpos (Coq_Pos.pred_double p))
    | XH ->
      (match y with
       | XI q -> Zneg (XO q)
       | XO q -> Zneg (Coq_Pos.pred_double q)
       | XH -> Z0)

  (** val add : z -> z -> z **)

  let add x y =
    match x with
    | Z0 -> y
    | Zpos x' ->
      (match y with
       | Z0 -> x
       | Zpos y' -> Zpos (Coq_Pos.add x' y')
       | Zneg y' -> pos_sub x' y')
    | Zneg x' ->
      (match y with
       | Z0 -> x
       | Zpos y' -> pos_sub y' x'
       | Zneg y' -> Zneg (Coq_Pos.add x' y'))

  (** val opp : z -> z **)

  let opp = function
  | Z0 -> Z0
  | Zpos x0 -> Zneg x0
  | Zneg x0 -> Zpos x0

  (** val sub : z -> z -> z **)

  let sub m n0 =
    add m (opp n0)

  (** val mul : z -> z -> z **)

  let mul x y =
    match x with
    | Z0 -> Z0
    | Zpos x' ->
      (match y with
       | Z0 -> Z0
       | Zpos y' -> Zpos (Coq_Pos.mul x' y')
       | Zneg y' -> Zneg (Coq_Pos.mul x' y'))
    | Zneg x' ->
      (match y with
       | Z0 -> Z0
       | Zpos y' -> Zneg (Coq_Pos.mul x' y')
       | Zneg y' -> Zpos (Coq_Pos.mul x' y'))

  (** val compare : z -> z -> comparison **)

  let compare x y =
    match x with
    | Z0 -> (match y with
             | Z0 -> Eq
             | Zpos _ -> Lt
             | Zneg _ -> Gt)
    | Zpos x' -> (match y with
                  | Zpos y' -> Coq_Pos.compare x' y'
                  | _ -> Gt)
    | Zneg x' ->
      (match y with
       | Zneg y' -> compOpp (Coq_Pos.compare x' y')
       | _ -> Lt)

  (** val leb : z -> z -> bool **)

  let leb x y =
    match compare x y with
    | Gt -> false
    | _ -> true

  (** val ltb : z -> z -> bool **)

  let ltb x y =
    match compare x y with
    | Lt -> true
    | _ -> false

  (** val geb : z -> z -> bool **)

  let geb x y =
    match compare x y with
    | Lt -> false
    | _ -> true

  (** val gtb : z -> z -> bool **)

  let gtb x y =
    match compare x y with
    | Gt -> true
    | _ -> false

  (** val eqb : z -> z -> bool **)

  let eqb x y =
    match x with
    | Z0 -> (match y with
             | Z0 -> true
             | _ -> false)
    | Zpos p -> (match y with
                 | Zpos q -> Coq_Pos.eqb p q
                 | _ -> false)
    | Zneg p -> (match y with
                 | Zneg q -> Coq_Pos.eqb p q
                 | _ -> false)

  (** val of_N : n -> z **)

  let of_N = function
  | N0 -> Z0
  | Npos p -> Zpos p

  (** val pos_div_eucl : positive -> z -> z * z **)

  let rec pos_div_eucl a b =
    match a with
    | XI a' ->
      let (q, r) = pos_div_eucl a' b in
      let r' = add (mul (Zpos (XO XH)) r) (Zpos XH) in
      if ltb r' b
      then ((mul (Zpos (XO XH)) q), r')
      else ((add (mul (Zpos (XO XH)) q) (Zpos XH)), (sub r' b))
    | XO a' ->
      let (q, r) = pos_div_eucl a' b in
      let r' = mul (Zpos (XO XH)) r in
      if ltb r' b
      then ((mul (Zpos (XO XH)) q), r')
      else ((add (mul (Zpos (XO XH)) q) (Zpos XH)), (sub r' b))
    | XH -> if leb (Zpos (XO XH)) b then (Z0, (Zpos XH)) else ((Zpos XH), Z0)

  (** val div_eucl : z -> z -> z * z **)

  let div_eucl a b =
    match a with
    | Z0 -> (Z0, Z0)
    | Zpos a' ->
      (match b with
       | Z0 -> (Z0, a)
       | Zpos _ -> pos_div_eucl a' b
       | Zneg b' ->
         let (q, r) = pos_div_eucl a' (Zpos b') in
         (match r with
          | Z0 -> ((opp q), Z0)
          | _ -> ((opp (add q (Zpos XH))), (add b r))))
    | Zneg a' ->
      (match b with
       | Z0 -> (Z0, a)
       | Zpos _ ->
         let (q, r) = pos_div_eucl a' b in
         (match r with
          | Z0 -> ((opp q), Z0)
          | _ -> ((opp (add q (Zpos XH))), (sub b r)))
       | Zneg b' -> let (q, r) = pos_div_eucl a' (Zpos b') in (q, (opp r)))

  (** val div : z -> z -> z **)

  let div a b =
    let (q, _) = div_eucl a b in q

  (** val quotrem : z -> z -> z * z **)

  let quotrem a b =
    match a with
    | Z0 -> (Z0, Z0)
    | Zpos a0 ->
      (match b with
       | Z0 -> (Z0, a)
       | Zpos b0 ->
         let (q, r) = N.pos_div_eucl a0 (Npos b0) in ((of_N q), (of_N r))
       | Zneg b0 ->
         let (q, r) = N.pos_div_eucl a0 (Npos b0) in
         ((opp (of_N q)), (of_N r)))
    | Zneg a0 ->
      (match b with
       | Z0 -> (Z0, a)
       | Zpos b0 ->
         let (q, r) = N.pos_div_eucl a0 (Npos b0) in
         ((opp (of_N q)), (opp (of_N r)))
       | Zneg b0 ->
         let (q, r) = N.pos_div_eucl a0 (Npos b0) in
         ((of_N q), (opp (of_N r))))

  (** val quot : z -> z -> z **)

  let quot a b =
    fst (quotrem a b)
 end

(** val filter : ('a1 -> bool) -> 'a1 list -> 'a1 list **)

let rec filter f = function
| [] -> []
| x :: l0 -> if f x then x :: (filter f l0) else filter f l0

(** val repeat : 'a1 -> nat -> 'a1 list **)

let rec repeat x = function
| O -> []
| S k -> x :: (repeat x k)

(** val ex_keep :
    (((((nat * n) * z) * z list) * z option) * positive) * bool **)

let ex_keep =
  ((((((O, N0), Z0), []), None), XH), true)

type fixes = { fx_clamp : bool; fx_ceil : bool }

(** val fixes_none : fixes **)

let fixes_none =
  { fx_clamp = false; fx_ceil = false }

(** val fixes_all : fixes **)

let fixes_all =
  { fx_clamp = true; fx_ceil = true }

type err =
| IndexError
| ValueError

(** val clamp_low : fixes -> bool -> z **)

let clamp_low fx negative_step =
  if (&&) fx.fx_clamp negative_step then Zneg XH else Z0

(** val norm_start : fixes -> z -> bool -> bool -> z -> z **)

let norm_start fx shape negative_step have_start start =
  if have_start
  then if Z.ltb start Z0
       then let s = Z.add start shape in
            if Z.ltb s Z0 then clamp_low fx negative_step else s
       else if Z.geb start shape
            then if negative_step then Z.sub shape (Zpos XH) else shape
            else start
  else if negative_step then Z.sub shape (Zpos XH) else Z0

(** val norm_stop : fixes -> z -> bool -> bool -> z -> z **)

let norm_stop fx shape negative_step have_stop stop =
  if have_stop
  then if Z.ltb stop Z0
       then let s = Z.add stop shape in
            if Z.ltb s Z0 then clamp_low fx negative_step else s
       else if Z.gtb stop shape then shape else stop
  else if negative_step then Zneg XH else shape

(** val ceil_len : fixes -> z -> z -> z -> z **)

let ceil_len fx start stop step =
  let d = Z.sub stop start in
  let q = Z.quot d step in
  let r = Z.sub d (Z.mul step q) in
  let q1 =
    if fx.fx_ceil
    then if (&&) (negb (Z.eqb r Z0)) (eqb (Z.ltb r Z0) (Z.ltb step Z0))
         then Z.add q (Zpos XH)
         else q
    else if negb (Z.eqb r Z0) then Z.add q (Zpos XH) else q
  in
  if Z.ltb q1 Z0 then Z0 else q1

(** val slice_bounds :
    fixes -> z -> z -> z -> z -> bool -> bool -> bool -> (((z * z) * z) * z)
    option **)

let slice_bounds fx shape start stop step have_start have_stop have_step =
  if (&&) have_step (Z.eqb step Z0)
  then None
  else let negative_step = (&&) have_step (Z.ltb step Z0) in
       let step' = if have_step then step else Zpos XH in
       let start' = norm_start fx shape negative_step have_start start in
       let stop' = norm_stop fx shape negative_step have_stop stop in
       Some (((start', stop'), step'), (ceil_len fx start' stop' step'))

type dim_res =
| DIndex of z
| DSlice of z * z * z
| DErr of err

(** val index_dim : z -> z -> z -> dim_res **)

let index_dim shape stride idx0 =
  let i = if Z.ltb idx0 Z0 then Z.add idx0 shape else idx0 in
  if (&&) (Z.leb Z0 i) (Z.ltb i shape)
  then DIndex (Z.mul i stride)
  else DErr IndexError

(** val slice_dim :
    fixes -> z -> z -> z -> z -> z -> bool -> bool -> bool -> dim_res **)

let slice_dim fx shape stride start stop step have_start have_stop have_step =
  match slice_bounds fx shape start stop step have_start have_stop have_step with
  | Some p ->
    let (p0, new_shape) = p in
    let (p1, step') = p0 in
    let (start', _) = p1 in
    DSlice (new_shape, (Z.mul stride step'),
    (Z.mul (if Z.ltb start' Z0 then Z0 else start') stride))
  | None -> DErr ValueError

(** val slice_triple :
    fixes -> z -> z -> z -> z -> bool -> bool -> bool -> ((z * z) * z) option **)

let slice_triple fx shape start stop step have_start have_stop have_step =
  match slice_bounds fx shape start stop step have_start have_stop have_step with
  | Some p ->
    let (p0, new_shape) = p in
    let (p1, step') = p0 in
    let (start', _) = p1 in Some ((new_shape, start'), step')
  | None -> None

(** val simple_slice : z -> z -> dim_res **)

let simple_slice shape stride =
  DSlice (shape, stride, Z0)

(** val slice_intermediates :
    fixes -> z -> z -> z -> z -> bool -> bool -> bool -> z list **)

let slice_intermediates fx shape start stop step have_start have_stop have_step =
  let negative_step = (&&) have_step (Z.ltb step Z0) in
  let step' = if have_step then step else Zpos XH in
  let start' = norm_start fx shape negative_step have_start start in
  let stop' = norm_stop fx shape negative_step have_stop stop in
  let d = Z.sub stop' start' in
  let q = Z.quot d step' in
  (if (&&) have_start (Z.ltb start Z0) then Z.add start shape else Z0) :: ((
  if (&&) have_stop (Z.ltb stop Z0) then Z.add stop shape else Z0) :: (
  (Z.sub shape (Zpos XH)) :: (start' :: (stop' :: (d :: (q :: ((Z.mul step' q) :: (
  (Z.sub d (Z.mul step' q)) :: ((Z.add q (Zpos XH)) :: [])))))))))

(** val py_len : z -> z -> z -> z **)

let py_len start stop step =
  if Z.ltb step Z0
  then if Z.ltb stop start
       then Z.add (Z.div (Z.sub (Z.sub start stop) (Zpos XH)) (Z.opp step))
              (Zpos XH)
       else Z0
  else if Z.ltb start stop
       then Z.add (Z.div (Z.sub (Z.sub stop start) (Zpos XH)) step) (Zpos XH)
       else Z0

(** val py_adjust : z -> z -> z -> z -> (z * z) * z **)

let py_adjust length0 start stop step =
  let start' =
    if Z.ltb start Z0
    then let s = Z.add start length0 in
         if Z.ltb s Z0 then if Z.ltb step Z0 then Zneg XH else Z0 else s
    else if Z.geb start length0
         then if Z.ltb step Z0 then Z.sub length0 (Zpos XH) else length0
         else start
  in
  let stop' =
    if Z.ltb stop Z0
    then let s = Z.add stop length0 in
         if Z.ltb s Z0 then if Z.ltb step Z0 then Zneg XH else Z0 else s
    else if Z.geb stop length0
         then if Z.ltb step Z0 then Z.sub length0 (Zpos XH) else length0
         else stop
  in
  (((py_len start' stop' step), start'), stop')

(** val py_unpack :
    z -> z option -> z option -> z option -> ((z * z) * z) option **)

let py_unpack m start stop step =
  let step' =
    match step with
    | Some s -> if Z.ltb s (Z.opp m) then Z.opp m else s
    | None -> Zpos XH
  in
  if Z.eqb step' Z0
  then None
  else let start' =
         match start with
         | Some s -> s
         | None -> if Z.ltb step' Z0 then m else Z0
       in
       let stop' =
         match stop with
         | Some s -> s
         | None -> if Z.ltb step' Z0 then Z.sub (Z.opp m) (Zpos XH) else m
       in
       Some ((start', stop'), step')

(** val py_slice_ssize :
    z -> z -> z option -> z option -> z option -> ((z * z) * z) option **)

let py_slice_ssize m length0 start stop step =
  match py_unpack m start stop step with
  | Some p ->
    let (p0, st) = p in
    let (s, e) = p0 in let (p1, _) = py_adjust length0 s e st in Some (p1, st)
  | None -> None

(** val py_slice_indices :
    z -> z option -> z option -> z option -> ((z * z) * z) option **)

let py_slice_indices length0 start stop step =
  let step' = match step with
              | Some s -> s
              | None -> Zpos XH in
  if Z.eqb step' Z0
  then None
  else let neg = Z.ltb step' Z0 in
       let lower = if neg then Zneg XH else Z0 in
       let upper = if neg then Z.sub length0 (Zpos XH) else length0 in
       let clampv = fun v ->
         if Z.ltb v Z0
         then let s = Z.add v length0 in if Z.ltb s lower then lower else s
         else if Z.gtb v upper then upper else v
       in
       let start' =
         match start with
         | Some s -> clampv s
         | None -> if neg then upper else lower
       in
       let stop' =
         match stop with
         | Some s -> clampv s
         | None -> if neg then lower else upper
       in
       Some (((py_len start' stop' step'), start'), step')

(** val py_index : z -> z -> z option **)

let py_index length0 i =
  let j = if Z.ltb i Z0 then Z.add i length0 else i in
  if (&&) (Z.leb Z0 j) (Z.ltb j length0) then Some j else None

type idx =
| IInt of z
| ISlice of z option * z option * z option
| INewaxis
| IEllipsis

(** val full_slice : idx **)

let full_slice =
  ISlice (None, None, None)

(** val is_newaxis : idx -> bool **)

let is_newaxis = function
| INewaxis -> true
| _ -> false

(** val oz : z option -> z **)

let oz = function
| Some v -> v
| None -> Z0

(** val have : z option -> bool **)

let have = function
| Some _ -> true
| None -> false

(** val unell_go : nat -> bool -> idx list -> idx list **)

let rec unell_go nslices seen = function
| [] -> []
| x :: r ->
  (match x with
   | IEllipsis ->
     if seen
     then full_slice :: (unell_go nslices true r)
     else app (repeat full_slice nslices) (unell_go nslices true r)
   | _ -> x :: (unell_go nslices seen r))

(** val unellipsify : nat -> idx list -> idx list **)

let unellipsify ndim ixs =
  let newaxes = length (filter is_newaxis ixs) in
  let n_indices = sub (length ixs) newaxes in
  let result = unell_go (add (sub ndim n_indices) (S O)) false ixs in
  let result_length = sub (length result) newaxes in
  app result (repeat full_slice (sub ndim result_length))

type nd_res =
| NdOk of z * (z * z) list
| NdErr of err
| NdBad

(** val slice_of_idx :
    fixes -> z -> z -> z option -> z option -> z option -> dim_res **)

let slice_of_idx fx shape stride start stop step =
  match start with
  | Some _ ->
    slice_dim fx shape stride (oz start) (oz stop) (oz step) (have start)
      (have stop) (have step)
  | None ->
    (match stop with
     | Some _ ->
       slice_dim fx shape stride (oz start) (oz stop) (oz step) (have start)
         (have stop) (have step)
     | None ->
       (match step with
        | Some _ ->
          slice_dim fx shape stride (oz start) (oz stop) (oz step)
            (have start) (have stop) (have step)
        | None -> simple_slice shape stride))

(** val slice_nd : fixes -> (z * z) list -> idx list -> z -> nd_res **)

let rec slice_nd fx dims ixs off =
  match ixs with
  | [] -> (match dims with
           | [] -> NdOk (off, [])
           | _ :: _ -> NdBad)
  | i0 :: r ->
    (match i0 with
     | IInt i ->
       (match dims with
        | [] -> NdBad
        | p :: dr ->
          let (sh, st) = p in
          (match index_dim sh st i with
           | DIndex o -> slice_nd fx dr r (Z.add off o)
           | DSlice (_, _, _) -> NdBad
           | DErr e -> NdErr e))
     | ISlice (a, b, c) ->
       (match dims with
        | [] -> NdBad
        | p :: dr ->
          let (sh, st) = p in
          (match slice_of_idx fx sh st a b c with
           | DIndex _ -> NdBad
           | DSlice (n0, s, o) ->
             (match slice_nd fx dr r (Z.add off o) with
              | NdOk (o', ds) -> NdOk (o', ((n0, s) :: ds))
              | x -> x)
           | DErr e -> NdErr e))
     | INewaxis ->
       (match slice_nd fx dims r off with
        | NdOk (o, ds) -> NdOk (o, (((Zpos XH), Z0) :: ds))
        | x -> x)
     | IEllipsis -> NdBad)

(** val getitem_nd : fixes -> (z * z) list -> idx list -> nd_res **)

let getitem_nd fx dims ixs =
  slice_nd fx dims (unellipsify (length dims) ixs) Z0

(** val elem_offset : z -> (z * z) list -> z list -> z **)

let rec elem_offset off dims js =
  match dims with
  | [] -> off
  | p :: dr ->
    let (_, st) = p in
    (match js with
     | [] -> off
     | j :: jr -> elem_offset (Z.add off (Z.mul j st)) dr jr)

(** val base_index : z list -> idx list -> z list -> z list option **)

let rec base_index shapes ixs js =
  match ixs with
  | [] ->
    (match shapes with
     | [] -> (match js with
              | [] -> Some []
              | _ :: _ -> None)
     | _ :: _ -> None)
  | i0 :: r ->
    (match i0 with
     | IInt i ->
       (match shapes with
        | [] -> None
        | sh :: sr ->
          (match py_index sh i with
           | Some k -> option_map (fun x -> k :: x) (base_index sr r js)
           | None -> None))
     | ISlice (a, b, c) ->
       (match shapes with
        | [] -> None
        | sh :: sr ->
          (match js with
           | [] -> None
           | j :: jr ->
             (match py_slice_indices sh a b c with
              | Some p ->
                let (p0, step) = p in
                let (n0, first) = p0 in
                if (&&) (Z.leb Z0 j) (Z.ltb j n0)
                then option_map (fun x -> (Z.add first (Z.mul j step)) :: x)
                       (base_index sr r jr)
                else None
              | None -> None)))
     | INewaxis ->
       (match js with
        | [] -> None
        | j :: jr -> if Z.eqb j Z0 then base_index shapes r jr else None)
     | IEllipsis -> None)
