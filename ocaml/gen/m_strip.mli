
val negb : bool -> bool

type nat =
| O
| S of nat

val option_map : ('a1 -> 'a2) -> 'a1 option -> 'a2 option

val snd : ('a1 * 'a2) -> 'a2

val length : 'a1 list -> nat

val app : 'a1 list -> 'a1 list -> 'a1 list

val sub : nat -> nat -> nat

val eqb : nat -> nat -> bool

val leb : nat -> nat -> bool

val ltb : nat -> nat -> bool

val even : nat -> bool

val divmod : nat -> nat -> nat -> nat -> nat * nat

val modulo : nat -> nat -> nat

type positive =
| XI of positive
| XO of positive
| XH

type n =
| N0
| Npos of positive

type z =
| Z0
| Zpos of positive
| Zneg of positive

module Pos :
 sig
  val succ : positive -> positive

  val eqb : positive -> positive -> bool
 end

module N :
 sig
  val succ : n -> n

  val eqb : n -> n -> bool
 end

val removelast : 'a1 list -> 'a1 list

val rev : 'a1 list -> 'a1 list

val rev_append : 'a1 list -> 'a1 list -> 'a1 list

val map : ('a1 -> 'a2) -> 'a1 list -> 'a2 list

val firstn : nat -> 'a1 list -> 'a1 list

val skipn : nat -> 'a1 list -> 'a1 list

val ex_keep : (((((nat * n) * z) * z list) * z option) * positive) * bool

type ch = n

val c_sq : ch

val c_dq : ch

val c_bs : ch

val c_hash : ch

val c_f : ch

val c_F : ch

val c_r : ch

val c_R : ch

val c_lb : ch

val c_rb : ch

val c_nl : ch

val is_quote : ch -> bool

val is_brace : ch -> bool

val is_f : bool -> ch -> bool

val is_r : ch -> bool

val span_eq : ch -> ch list -> ch list * ch list

val span_nl : ch list -> ch list * ch list

type token =
| TComment
| TBrace of ch
| TBraces of ch * ch list
| TEscape of ch list * ch
| TQuote of ch list * ch * ch list

type rx =
| RxCode
| RxStr
| RxFStr

val match_quote : bool -> ch list -> (token * ch list) option

val match_escape : ch list -> (token * ch list) option

val try_at : rx -> bool -> ch list -> (token * ch list) option

val find : rx -> bool -> ch list -> ((ch list * token) * ch list) option

type item =
| Ch of ch
| Lab of n

type state = { s_out : item list; s_lits : ch list list; s_cnt : n }

val emit : ch list -> state -> state

val emit_label : ch list -> state -> state

val emit_label_ne : ch list -> state -> state

type cctx =
| CTop
| CFromStr of ch * bool * cctx
| CFromCode of cctx

type mode =
| MCode of cctx
| MStr of ch * bool * bool * cctx * ch list

type result =
| Done of item list * ch list list
| OutOfFuel
| Stuck

val finish : state -> result

val nonempty : ch list -> bool

val qlen : bool -> nat

val run : nat -> bool -> bool -> mode -> ch list -> state -> result

val init_state : state

val strip : bool -> bool -> ch list -> result

type rstate =
| RCode of nat
| RStr of ch * bool * bool
| RComment

val next_pf : nat -> ch -> nat

val kept : ch -> ch * bool

val body : ch -> ch * bool

val refc : rstate -> ch list -> (ch * bool) list option

val ref_classify : ch list -> (ch * bool) list option
