
(** val negb : bool -> bool **)

let negb = function
| true -> false
| false -> true

type nat =
| O
| S of nat

(** val length : 'a1 list -> nat **)

let rec length = function
| [] -> O
| _ :: l' -> S (length l')

(** val app : 'a1 list -> 'a1 list -> 'a1 list **)

let rec app l m =
  match l with
  | [] -> m
  | a :: l1 -> a :: (app l1 m)

type comparison =
| Eq
| Lt
| Gt

(** val add : nat -> nat -> nat **)

let rec add n0 m =
  match n0 with
  | O -> m
  | S p -> S (add p m)

type positive =
| XI of positive
| XO of positive
| XH

type n =
| N0
| Npos of positive

type z =
| Z0
| Zpos of positive
| Zneg of positive

module Nat =
 struct
  (** val eqb : nat -> nat -> bool **)

  let rec eqb n0 m =
    match n0 with
    | O -> (match m with
            | O -> true
            | S _ -> false)
    | S n' -> (match m with
               | O -> false
               | S m' -> eqb n' m')
 end

module Pos =
 struct
  (** val compare_cont : comparison -> positive -> positive -> comparison **)

  let rec compare_cont r x y =
    match x with
    | XI p ->
      (match y with
       | XI q -> compare_cont r p q
       | XO q -> compare_cont Gt p q
       | XH -> Gt)
    | XO p ->
      (match y with
       | XI q -> compare_cont Lt p q
       | XO q -> compare_cont r p q
       | XH -> Gt)
    | XH -> (match y with
             | XH -> r
             | _ -> Lt)

  (** val compare : positive -> positive -> comparison **)

  let compare =
    compare_cont Eq

  (** val eqb : positive -> positive -> bool **)

  let rec eqb p q =
    match p with
    | XI p0 -> (match q with
                | XI q0 -> eqb p0 q0
                | _ -> false)
    | XO p0 -> (match q with
                | XO q0 -> eqb p0 q0
                | _ -> false)
    | XH -> (match q with
             | XH -> true
             | _ -> false)
 end

module N =
 struct
  (** val compare : n -> n -> comparison **)

  let compare n0 m =
    match n0 with
    | N0 -> (match m with
             | N0 -> Eq
             | Npos _ -> Lt)
    | Npos n' -> (match m with
                  | N0 -> Gt
                  | Npos m' -> Pos.compare n' m')

  (** val eqb : n -> n -> bool **)

  let eqb n0 m =
    match n0 with
    | N0 -> (match m with
             | N0 -> true
             | Npos _ -> false)
    | Npos p -> (match m with
                 | N0 -> false
                 | Npos q -> Pos.eqb p q)

  (** val ltb : n -> n -> bool **)

  let ltb x y =
    match compare x y with
    | Lt -> true
    | _ -> false

  (** val max : n -> n -> n **)

  let max n0 n' =
    match compare n0 n' with
    | Gt -> n0
    | _ -> n'
 end

(** val rev : 'a1 list -> 'a1 list **)

let rec rev = function
| [] -> []
| x :: l' -> app (rev l') (x :: [])

(** val map : ('a1 -> 'a2) -> 'a1 list -> 'a2 list **)

let rec map f = function
| [] -> []
| a :: t -> (f a) :: (map f t)

(** val fold_right : ('a2 -> 'a1 -> 'a1) -> 'a1 -> 'a2 list -> 'a1 **)

let rec fold_right f a0 = function
| [] -> a0
| b :: t -> f b (fold_right f a0 t)

(** val ex_keep :
    (((((nat * n) * z) * z list) * z option) * positive) * bool **)

let ex_keep =
  ((((((O, N0), Z0), []), None), XH), true)

type text = n list

type conv =
| CvNone
| CvS
| CvR
| CvA
| CvD

type vclass =
| KCInt
| KCDbl
| KCBint
| KStr
| KStrOpt
| KBuiltin
| KObj

type operand =
| OVar of nat * vclass
| OInt of text
| OStr of text

type spec =
| SNone
| SLit of text * bool
| SDyn of nat

type part =
| PLit of text
| PPh of operand * conv * spec

type node =
| NLit of text
| NName of nat
| NUni of nat
| NFmt of operand * conv * text option * spec
| NClone of nat

type shape =
| ShEmpty
| ShOne of node
| ShAdd of node * node
| ShJoin of node list

(** val norm_spec : spec -> spec **)

let norm_spec s = match s with
| SLit (t, _) -> (match t with
                  | [] -> SNone
                  | _ :: _ -> s)
| _ -> s

(** val plain : conv -> bool **)

let plain = function
| CvNone -> true
| CvS -> true
| _ -> false

(** val fold_part : part -> part **)

let fold_part p = match p with
| PLit _ -> p
| PPh (o, c, s) ->
  let s' = norm_spec s in
  (match o with
   | OVar (_, _) -> PPh (o, c, s')
   | OInt t -> (match s' with
                | SNone -> PLit t
                | _ -> PPh (o, c, s'))
   | OStr t ->
     (match s' with
      | SNone -> if plain c then PLit t else PPh (o, c, s')
      | _ -> PPh (o, c, s')))

(** val merge : part list -> part list **)

let rec merge = function
| [] -> []
| p :: r ->
  (match p with
   | PLit t ->
     (match merge r with
      | [] ->
        let r' = [] in (match t with
                        | [] -> r'
                        | _ :: _ -> (PLit t) :: r')
      | p0 :: r' ->
        (match p0 with
         | PLit t' -> (PLit (app t t')) :: r'
         | PPh (o, c, s) ->
           let r'0 = (PPh (o, c, s)) :: r' in
           (match t with
            | [] -> r'0
            | _ :: _ -> (PLit t) :: r'0)))
   | PPh (_, _, _) -> p :: (merge r))

(** val fold : part list -> part list **)

let fold l =
  merge (map fold_part l)

(** val default_cfmt : vclass -> text option **)

let default_cfmt = function
| KCInt -> Some ((Npos (XO (XO (XI (XO (XO (XI XH))))))) :: [])
| KCDbl -> Some []
| KCBint -> Some []
| _ -> None

(** val cfmt_of : vclass -> spec -> text option **)

let cfmt_of k s =
  match default_cfmt k with
  | Some d ->
    (match s with
     | SNone -> Some d
     | SLit (t, acc) -> if acc then Some t else None
     | SDyn _ -> None)
  | None -> None

(** val analyse : part -> node **)

let analyse = function
| PLit t -> NLit t
| PPh (o, c, s) ->
  (match o with
   | OVar (v, k) ->
     (match k with
      | KStr ->
        (match s with
         | SNone ->
           if plain c
           then NName v
           else NFmt ((OVar (v, k)), c, (cfmt_of k s), s)
         | _ -> NFmt ((OVar (v, k)), c, (cfmt_of k s), s))
      | KStrOpt ->
        (match s with
         | SNone ->
           if plain c
           then NUni v
           else NFmt ((OVar (v, k)), c, (cfmt_of k s), s)
         | _ -> NFmt ((OVar (v, k)), c, (cfmt_of k s), s))
      | _ -> NFmt ((OVar (v, k)), c, (cfmt_of k s), s))
   | _ -> NFmt (o, c, None, s))

(** val conv_eqb : conv -> conv -> bool **)

let conv_eqb a b =
  match a with
  | CvNone -> (match b with
               | CvNone -> true
               | _ -> false)
  | CvS -> (match b with
            | CvS -> true
            | _ -> false)
  | CvR -> (match b with
            | CvR -> true
            | _ -> false)
  | CvA -> (match b with
            | CvA -> true
            | _ -> false)
  | CvD -> (match b with
            | CvD -> true
            | _ -> false)

(** val text_eqb : text -> text -> bool **)

let rec text_eqb a b =
  match a with
  | [] -> (match b with
           | [] -> true
           | _ :: _ -> false)
  | x :: a' ->
    (match b with
     | [] -> false
     | y :: b' -> (&&) (N.eqb x y) (text_eqb a' b'))

(** val otext_eqb : text option -> text option -> bool **)

let otext_eqb a b =
  match a with
  | Some x -> (match b with
               | Some y -> text_eqb x y
               | None -> false)
  | None -> (match b with
             | Some _ -> false
             | None -> true)

(** val onat_eqb : nat option -> nat option -> bool **)

let onat_eqb a b =
  match a with
  | Some x -> (match b with
               | Some y -> Nat.eqb x y
               | None -> false)
  | None -> (match b with
             | Some _ -> false
             | None -> true)

type dkey = { k_name : nat; k_cfmt : text option; k_spec : nat option;
              k_conv : conv }

(** val key_eqb : dkey -> dkey -> bool **)

let key_eqb a b =
  (&&)
    ((&&) ((&&) (Nat.eqb a.k_name b.k_name) (otext_eqb a.k_cfmt b.k_cfmt))
      (onat_eqb a.k_spec b.k_spec)) (conv_eqb a.k_conv b.k_conv)

type kflags = { kf_conv : bool; kf_obj : bool }

(** val kflags_real : kflags **)

let kflags_real =
  { kf_conv = true; kf_obj = true }

(** val conv_or_s : conv -> conv **)

let conv_or_s c = match c with
| CvNone -> CvS
| _ -> c

(** val is_obj : vclass -> bool **)

let is_obj = function
| KObj -> true
| _ -> false

(** val spec_id : nat -> spec -> nat option **)

let spec_id i = function
| SNone -> None
| _ -> Some i

(** val node_key : kflags -> nat -> node -> dkey option **)

let node_key fl i = function
| NUni v -> Some { k_name = v; k_cfmt = None; k_spec = None; k_conv = CvS }
| NFmt (o, c, cf, s) ->
  (match o with
   | OVar (v, k) ->
     if (&&) fl.kf_obj (is_obj k)
     then None
     else Some { k_name = v; k_cfmt = cf; k_spec = (spec_id i s); k_conv =
            (if fl.kf_conv then conv_or_s c else CvS) }
   | _ -> None)
| _ -> None

(** val lookup : dkey -> (dkey * nat) list -> nat option **)

let rec lookup k = function
| [] -> None
| p :: r -> let (k', j) = p in if key_eqb k k' then Some j else lookup k r

(** val dedup_from :
    kflags -> nat -> (dkey * nat) list -> node list -> node list **)

let rec dedup_from fl i seen = function
| [] -> []
| n0 :: r ->
  (match node_key fl i n0 with
   | Some k ->
     (match lookup k seen with
      | Some j -> (NClone j) :: (dedup_from fl (S i) seen r)
      | None -> n0 :: (dedup_from fl (S i) ((k, i) :: seen) r))
   | None -> n0 :: (dedup_from fl (S i) seen r))

(** val dedup : kflags -> node list -> node list **)

let dedup fl l =
  dedup_from fl O [] l

(** val shape_of : kflags -> node list -> shape **)

let shape_of fl l = match l with
| [] -> ShEmpty
| a :: l0 ->
  (match l0 with
   | [] -> ShOne a
   | b :: l1 ->
     (match l1 with
      | [] -> ShAdd (a, b)
      | _ :: _ -> ShJoin (dedup fl l)))

(** val optimise : kflags -> part list -> shape **)

let optimise fl ps =
  shape_of fl (map analyse (fold ps))

(** val optimise_inner : part list -> shape **)

let optimise_inner ps =
  match map analyse (fold ps) with
  | [] -> ShEmpty
  | a :: l0 ->
    (match l0 with
     | [] -> ShOne a
     | b :: l1 ->
       (match l1 with
        | [] -> ShAdd (a, b)
        | n0 :: l2 -> ShJoin (a :: (b :: (n0 :: l2)))))

(** val shape_nodes : shape -> node list **)

let shape_nodes = function
| ShEmpty -> []
| ShOne a -> a :: []
| ShAdd (a, b) -> a :: (b :: [])
| ShJoin l -> l

(** val is_unknown : node -> bool **)

let is_unknown = function
| NLit _ -> false
| NClone _ -> false
| _ -> true

(** val occ : nat -> node list -> nat **)

let rec occ j = function
| [] -> O
| n0 :: r ->
  (match n0 with
   | NClone j' -> add (if Nat.eqb j j' then S O else O) (occ j r)
   | _ -> occ j r)

(** val known_len : node list -> nat **)

let rec known_len = function
| [] -> O
| n0 :: r ->
  (match n0 with
   | NLit t -> add (length t) (known_len r)
   | _ -> known_len r)

(** val len_terms_from : node list -> nat -> node list -> (nat * nat) list **)

let rec len_terms_from all i = function
| [] -> []
| n0 :: r ->
  app (if is_unknown n0 then (i, (S (occ i all))) :: [] else [])
    (len_terms_from all (S i) r)

(** val len_terms : node list -> (nat * nat) list **)

let len_terms l =
  len_terms_from l O l

(** val char_kind : n -> n **)

let char_kind c =
  if N.ltb c (Npos (XO (XO (XO (XO (XO (XO (XO XH))))))))
  then N0
  else if N.ltb c (Npos (XO (XO (XO (XO (XO (XO (XO (XO XH)))))))))
       then Npos XH
       else if N.ltb c (Npos (XO (XO (XO (XO (XO (XO (XO (XO (XO (XO (XO (XO
                 (XO (XO (XO (XO XH)))))))))))))))))
            then Npos (XO XH)
            else Npos (XO (XO XH))

(** val text_kind : text -> n **)

let text_kind t =
  fold_right (fun c a -> N.max (char_kind c) a) N0 t

(** val lit_kind : node list -> n **)

let rec lit_kind = function
| [] -> N0
| n0 :: r ->
  (match n0 with
   | NLit t -> N.max (text_kind t) (lit_kind r)
   | _ -> lit_kind r)

(** val ends_with_c : text -> bool **)

let ends_with_c t =
  match rev t with
  | [] -> false
  | c :: _ -> N.eqb c (Npos (XI (XI (XO (XO (XO (XI XH)))))))

(** val is_c_spec : bool -> text -> bool **)

let is_c_spec fxk cf =
  if fxk
  then ends_with_c cf
  else text_eqb cf ((Npos (XI (XI (XO (XO (XO (XI XH))))))) :: [])

(** val c_number_ascii : bool -> node -> bool **)

let c_number_ascii fxk = function
| NFmt (o, _, cf0, _) ->
  (match o with
   | OVar (_, k) ->
     (match k with
      | KCInt ->
        (match cf0 with
         | Some cf -> negb (is_c_spec fxk cf)
         | None -> false)
      | KCDbl ->
        (match cf0 with
         | Some cf -> negb (is_c_spec fxk cf)
         | None -> false)
      | KCBint ->
        (match cf0 with
         | Some cf -> negb (is_c_spec fxk cf)
         | None -> false)
      | _ -> false)
   | _ -> false)
| _ -> false

(** val kind_terms_from : bool -> nat -> node list -> nat list **)

let rec kind_terms_from fxk i = function
| [] -> []
| n0 :: r ->
  app
    (if (&&) (is_unknown n0) (negb (c_number_ascii fxk n0))
     then i :: []
     else []) (kind_terms_from fxk (S i) r)

(** val kind_terms : bool -> node list -> nat list **)

let kind_terms fxk l =
  kind_terms_from fxk O l
