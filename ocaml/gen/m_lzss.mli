
val negb : bool -> bool

type nat =
| O
| S of nat

val length : 'a1 list -> nat

val app : 'a1 list -> 'a1 list -> 'a1 list

type comparison =
| Eq
| Lt
| Gt

val compOpp : comparison -> comparison

val add : nat -> nat -> nat

type positive =
| XI of positive
| XO of positive
| XH

type n =
| N0
| Npos of positive

type z =
| Z0
| Zpos of positive
| Zneg of positive

module Nat :
 sig
  val iter : nat -> ('a1 -> 'a1) -> 'a1 -> 'a1
 end

module Pos :
 sig
  val succ : positive -> positive

  val add : positive -> positive -> positive

  val add_carry : positive -> positive -> positive

  val pred_double : positive -> positive

  val pred_N : positive -> n

  val mul : positive -> positive -> positive

  val iter : ('a1 -> 'a1) -> 'a1 -> positive -> 'a1

  val div2 : positive -> positive

  val div2_up : positive -> positive

  val compare_cont : comparison -> positive -> positive -> comparison

  val compare : positive -> positive -> comparison

  val eqb : positive -> positive -> bool

  val coq_Nsucc_double : n -> n

  val coq_Ndouble : n -> n

  val coq_lor : positive -> positive -> positive

  val coq_land : positive -> positive -> n

  val ldiff : positive -> positive -> n

  val iter_op : ('a1 -> 'a1 -> 'a1) -> positive -> 'a1 -> 'a1

  val to_nat : positive -> nat

  val of_succ_nat : nat -> positive
 end

module N :
 sig
  val succ_pos : n -> positive

  val coq_lor : n -> n -> n

  val coq_land : n -> n -> n

  val ldiff : n -> n -> n
 end

module Z :
 sig
  val double : z -> z

  val succ_double : z -> z

  val pred_double : z -> z

  val pos_sub : positive -> positive -> z

  val add : z -> z -> z

  val opp : z -> z

  val sub : z -> z -> z

  val mul : z -> z -> z

  val compare : z -> z -> comparison

  val leb : z -> z -> bool

  val ltb : z -> z -> bool

  val geb : z -> z -> bool

  val gtb : z -> z -> bool

  val eqb : z -> z -> bool

  val max : z -> z -> z

  val min : z -> z -> z

  val to_nat : z -> nat

  val of_nat : nat -> z

  val of_N : n -> z

  val to_pos : z -> positive

  val div2 : z -> z

  val shiftl : z -> z -> z

  val shiftr : z -> z -> z

  val coq_lor : z -> z -> z

  val coq_land : z -> z -> z
 end

val tl : 'a1 list -> 'a1 list

val rev_append : 'a1 list -> 'a1 list -> 'a1 list

val rev' : 'a1 list -> 'a1 list

val fold_left : ('a1 -> 'a2 -> 'a1) -> 'a2 list -> 'a1 -> 'a1

val firstn : nat -> 'a1 list -> 'a1 list

val skipn : nat -> 'a1 list -> 'a1 list

val ex_keep : (((((nat * n) * z) * z list) * z option) * positive) * bool

module PositiveMap :
 sig
  type key = positive

  type 'a tree =
  | Leaf
  | Node of 'a tree * 'a option * 'a tree

  type 'a t = 'a tree

  val empty : 'a1 t

  val find : key -> 'a1 t -> 'a1 option

  val add : key -> 'a1 -> 'a1 t -> 'a1 t
 end

val wINDOW_SIZE : z

type entry = z * z list

type table = entry list PositiveMap.t

val key3 : z list -> positive option

val tbl_find : positive -> table -> entry list option

val tbl_add : z -> z list -> table -> table

val extend : z list -> z list -> z -> z -> z option

val scan1_step :
  z -> z -> z -> z list -> (z * z) option -> entry -> (z * z) option

val scan2_step : z -> z -> z -> z -> z list -> z option -> entry -> z option

val find_longest_match : z -> z -> z list -> table -> (z * z) option

val encode_match : z -> z -> z list option

type token =
| TLit of z
| TRef of z * z * z list

val tok_loop :
  z -> table -> z list -> z -> z -> token list -> token list option

val tokenize : z list -> token list option

type pstate = { p_done : z list; p_cur : z list; p_flags : z }

val pack_init : pstate

val tok_flag : token -> z

val tok_bytes : token -> z list

val flags_upd : z -> z -> z

val pack_step : pstate -> token -> pstate

val pad_flags : z -> z

val pack_finish : pstate -> z list

val pack : token list -> z list

val compress : z list -> z list option

type dres =
| DOk of z list * z
| OOB_src_read
| OOB_dst_write
| OOB_dst_ref

val dec_next :
  z -> (z -> z -> z list -> z -> dres) -> z -> z -> z list -> z -> dres

val dec_copy :
  z -> (z -> z -> z list -> z -> dres) -> z -> z -> z -> z -> z list -> z ->
  dres

val dec : z -> z list -> z -> z -> z list -> z -> dres

val decompress : z list -> z -> dres

type sres =
| SOk of z list
| SRuntimeError
| SOob of dres

val decompress_string : z list -> z -> z -> sres

val lzss_emitted : z list -> bool

val expand_r : token list -> z list -> z list

val expand : token list -> z list
