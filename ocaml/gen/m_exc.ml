
(** val negb : bool -> bool **)

let negb = function
| true -> false
| false -> true

type nat =
| O
| S of nat

(** val fst : ('a1 * 'a2) -> 'a1 **)

let fst = function
| (x, _) -> x

(** val length : 'a1 list -> nat **)

let rec length = function
| [] -> O
| _ :: l' -> S (length l')

(** val app : 'a1 list -> 'a1 list -> 'a1 list **)

let rec app l m =
  match l with
  | [] -> m
  | a :: l1 -> a :: (app l1 m)

type positive =
| XI of positive
| XO of positive
| XH

type n =
| N0
| Npos of positive

type z =
| Z0
| Zpos of positive
| Zneg of positive

module Nat =
 struct
  (** val eqb : nat -> nat -> bool **)

  let rec eqb n0 m =
    match n0 with
    | O -> (match m with
            | O -> true
            | S _ -> false)
    | S n' -> (match m with
               | O -> false
               | S m' -> eqb n' m')
 end

(** val nth : nat -> 'a1 list -> 'a1 -> 'a1 **)

let rec nth n0 l default =
  match n0 with
  | O -> (match l with
          | [] -> default
          | x :: _ -> x)
  | S m -> (match l with
            | [] -> default
            | _ :: t -> nth m t default)

(** val filter : ('a1 -> bool) -> 'a1 list -> 'a1 list **)

let rec filter f = function
| [] -> []
| x :: l0 -> if f x then x :: (filter f l0) else filter f l0

(** val ex_keep :
    (((((nat * n) * z) * z list) * z option) * positive) * bool **)

let ex_keep =
  ((((((O, N0), Z0), []), None), XH), true)

(** val c_runtime : nat **)

let c_runtime =
  S O

(** val c_unbound : nat **)

let c_unbound =
  S (S O)

type eobj = { e_cls : nat; e_user : bool; e_ctx : nat option;
              e_cause : nat option; e_supp : bool }

type event =
| EvLog of nat
| EvProbe of nat option * eobj list
| EvEnter of nat
| EvExit of nat * nat option * nat option * eobj list

type core = { heap : eobj list; env : (nat * nat) list; log : event list }

type state = { co : core; top : nat option; below : nat option;
               cur : nat option option; wx : bool }

(** val set_co : core -> state -> state **)

let set_co k st =
  { co = k; top = st.top; below = st.below; cur = st.cur; wx = st.wx }

(** val set_top : nat option -> state -> state **)

let set_top t st =
  { co = st.co; top = t; below = st.below; cur = st.cur; wx = st.wx }

(** val set_cur : nat option option -> state -> state **)

let set_cur c st =
  { co = st.co; top = st.top; below = st.below; cur = c; wx = st.wx }

(** val set_wx : bool -> state -> state **)

let set_wx w st =
  { co = st.co; top = st.top; below = st.below; cur = st.cur; wx = w }

(** val handled : state -> nat option **)

let handled st =
  match st.top with
  | Some e -> Some e
  | None -> st.below

type oc =
| ONorm
| ORaise of nat
| ORet
| OBrk
| OCont
| OCrash

(** val get : eobj list -> nat -> eobj **)

let get h e =
  nth e h { e_cls = O; e_user = false; e_ctx = None; e_cause = None; e_supp =
    false }

(** val upd : eobj list -> nat -> (eobj -> eobj) -> eobj list **)

let rec upd h e f =
  match h with
  | [] -> []
  | o :: t -> (match e with
               | O -> (f o) :: t
               | S e' -> o :: (upd t e' f))

(** val with_ctx : nat option -> eobj -> eobj **)

let with_ctx c o =
  { e_cls = o.e_cls; e_user = o.e_user; e_ctx = c; e_cause = o.e_cause;
    e_supp = o.e_supp }

(** val with_cause : nat option -> eobj -> eobj **)

let with_cause c o =
  { e_cls = o.e_cls; e_user = o.e_user; e_ctx = o.e_ctx; e_cause = c;
    e_supp = true }

(** val break_cycle : nat -> eobj list -> nat -> nat -> eobj list **)

let rec break_cycle fuel h o value =
  match fuel with
  | O -> h
  | S f ->
    (match (get h o).e_ctx with
     | Some c ->
       if Nat.eqb c value
       then upd h o (with_ctx None)
       else break_cycle f h c value
     | None -> h)

(** val set_ctx : eobj list -> nat -> nat option -> eobj list **)

let set_ctx h value = function
| Some x ->
  if Nat.eqb x value
  then h
  else upd (break_cycle (length h) h x value) value (with_ctx (Some x))
| None -> h

(** val add_log : event -> core -> core **)

let add_log ev k =
  { heap = k.heap; env = k.env; log = (app k.log (ev :: [])) }

(** val set_heap : eobj list -> core -> core **)

let set_heap h k =
  { heap = h; env = k.env; log = k.log }

(** val alloc : nat -> bool -> core -> nat * core **)

let alloc c user k =
  ((length k.heap),
    (set_heap
      (app k.heap ({ e_cls = c; e_user = user; e_ctx = None; e_cause = None;
        e_supp = false } :: [])) k))

(** val lookup : nat -> (nat * nat) list -> nat option **)

let rec lookup x = function
| [] -> None
| p :: t -> let (y, e) = p in if Nat.eqb y x then Some e else lookup x t

(** val unbind : nat -> core -> core **)

let unbind x k =
  { heap = k.heap; env = (filter (fun p -> negb (Nat.eqb (fst p) x)) k.env);
    log = k.log }

(** val bind : nat -> nat -> core -> core **)

let bind x e k =
  let k' = unbind x k in
  { heap = k'.heap; env = ((x, e) :: k'.env); log = k'.log }

(** val bind_opt : nat option -> nat -> core -> core **)

let bind_opt x e k =
  match x with
  | Some n0 -> bind n0 e k
  | None -> k

(** val unbind_opt : nat option -> core -> core **)

let unbind_opt x k =
  match x with
  | Some n0 -> unbind n0 k
  | None -> k

(** val raise_with : nat -> core -> nat option -> oc * core **)

let raise_with e k hd =
  ((ORaise e), (set_heap (set_ctx k.heap e hd) k))

(** val raise_internal : nat -> core -> nat option -> oc * core **)

let raise_internal c k hd =
  let (e, k1) = alloc c false k in raise_with e k1 hd

type what =
| RNew of nat
| RVar of nat

type cause =
| NoCause
| FromNone
| FromNew of nat
| FromVar of nat

(** val do_raise : what -> cause -> core -> nat option -> oc * core **)

let do_raise w cz k hd =
  let r1 =
    match w with
    | RNew c -> Some (alloc c true k)
    | RVar x ->
      (match lookup x k.env with
       | Some e -> Some (e, k)
       | None -> None)
  in
  (match r1 with
   | Some p ->
     let (e, k1) = p in
     (match cz with
      | NoCause -> raise_with e k1 hd
      | FromNone ->
        raise_with e (set_heap (upd k1.heap e (with_cause None)) k1) hd
      | FromNew c ->
        let (e2, k2) = alloc c true k1 in
        raise_with e (set_heap (upd k2.heap e (with_cause (Some e2))) k2) hd
      | FromVar x ->
        (match lookup x k1.env with
         | Some e2 ->
           raise_with e (set_heap (upd k1.heap e (with_cause (Some e2))) k1)
             hd
         | None -> raise_internal c_unbound k1 hd))
   | None -> raise_internal c_unbound k hd)

(** val lift : (core -> nat option -> oc * core) -> state -> oc * state **)

let lift g st =
  let (o, k) = g st.co (handled st) in (o, (set_co k st))

(** val logst : (core -> nat option -> event) -> state -> state **)

let logst ev st =
  set_co (add_log (ev st.co (handled st)) st.co) st

(** val ev_probe : core -> nat option -> event **)

let ev_probe k hd =
  EvProbe (hd, k.heap)

(** val ev_exit : nat -> nat option -> core -> nat option -> event **)

let ev_exit n0 arg k hd =
  EvExit (n0, arg, hd, k.heap)

(** val pat_matches : nat option -> nat -> bool **)

let pat_matches p c =
  match p with
  | Some q -> (||) (Nat.eqb q O) (Nat.eqb q c)
  | None -> true

(** val cls_of : state -> nat -> nat **)

let cls_of st e =
  (get st.co.heap e).e_cls

type exitk =
| XPass
| XSwallow
| XRaise of nat

type stmt =
| SSkip
| SLog of nat
| SProbe
| SRaise of what * cause
| SReraise
| SSeq of stmt * stmt
| STry of stmt * handlers * stmt
| SFinally of stmt * stmt
| SWith of nat * exitk * stmt
| SLoop of nat * stmt
| SReturn
| SBreak
| SContinue
and handlers =
| HNil
| HCons of nat option * nat option * stmt * handlers

(** val reraise_dynamic : state -> oc * state **)

let reraise_dynamic st =
  match handled st with
  | Some e -> ((ORaise e), st)
  | None -> lift (raise_internal c_runtime) st

(** val after : oc -> oc -> oc **)

let after pending o2 = match o2 with
| ONorm -> pending
| _ -> o2

(** val exec_ref : stmt -> state -> oc * state **)

let rec exec_ref s r =
  match s with
  | SSkip -> (ONorm, r)
  | SLog n0 -> (ONorm, (logst (fun _ _ -> EvLog n0) r))
  | SProbe -> (ONorm, (logst ev_probe r))
  | SRaise (w, cz) -> lift (do_raise w cz) r
  | SReraise -> reraise_dynamic r
  | SSeq (a, b) ->
    let (o, r1) = exec_ref a r in
    (match o with
     | ONorm -> exec_ref b r1
     | _ -> (o, r1))
  | STry (body, hs, orelse) ->
    let (o, r1) = exec_ref body r in
    (match o with
     | ONorm -> exec_ref orelse r1
     | ORaise e -> handle_ref hs e r1
     | _ -> (o, r1))
  | SFinally (body, fin) ->
    let (o, r1) = exec_ref body r in
    (match o with
     | ORaise e ->
       let saved = r1.top in
       let (o2, r2) = exec_ref fin (set_top (Some e) r1) in
       ((after (ORaise e) o2), (set_top saved r2))
     | _ -> let (o2, r2) = exec_ref fin r1 in ((after o o2), r2))
  | SWith (k, x, body) ->
    let (o, r1) = exec_ref body (logst (fun _ _ -> EvEnter k) r) in
    (match o with
     | ORaise e ->
       let saved = r1.top in
       let r2 = logst (ev_exit k (Some e)) (set_top (Some e) r1) in
       (match x with
        | XPass -> ((ORaise e), (set_top saved r2))
        | XSwallow -> (ONorm, (set_top saved r2))
        | XRaise c ->
          let (o', r3) = lift (raise_internal c) r2 in
          (o', (set_top saved r3)))
     | _ ->
       let r2 = logst (ev_exit k None) r1 in
       (match x with
        | XRaise c -> lift (raise_internal c) r2
        | _ -> (o, r2)))
  | SLoop (n0, body) ->
    let rec loop i r0 =
      match i with
      | O -> (ONorm, r0)
      | S i' ->
        let (o, r1) = exec_ref body r0 in
        (match o with
         | ONorm -> loop i' r1
         | OBrk -> (ONorm, r1)
         | OCont -> loop i' r1
         | _ -> (o, r1))
    in loop n0 r
  | SReturn -> (ORet, r)
  | SBreak -> (OBrk, r)
  | SContinue -> (OCont, r)

(** val handle_ref : handlers -> nat -> state -> oc * state **)

and handle_ref hs e r =
  match hs with
  | HNil -> ((ORaise e), r)
  | HCons (pat, name, body, tl) ->
    if pat_matches pat (cls_of r e)
    then let saved = r.top in
         let r1 = set_co (bind_opt name e r.co) (set_top (Some e) r) in
         let (o, r2) = exec_ref body r1 in
         (o, (set_top saved (set_co (unbind_opt name r2.co) r2)))
    else handle_ref tl e r

type cstmt =
| CSkip
| CLog of nat
| CProbe
| CRaise of what * cause
| CReraise
| CSeq of cstmt * cstmt
| CTry of cstmt * chandlers * cstmt
| CFinally of bool * cstmt * cstmt
| CLoop of nat * cstmt
| CReturn
| CBreak
| CContinue
| CDel of nat
| CWithScope of nat * cstmt
| CExitExc of nat * exitk
| CExitNone of nat * exitk
and chandlers =
| CHNil
| CHCons of nat option * nat option * cstmt * chandlers

(** val desugar : stmt -> cstmt **)

let rec desugar = function
| SSkip -> CSkip
| SLog n0 -> CLog n0
| SProbe -> CProbe
| SRaise (w, cz) -> CRaise (w, cz)
| SReraise -> CReraise
| SSeq (a, b) -> CSeq ((desugar a), (desugar b))
| STry (body, hs, orelse) ->
  CTry ((desugar body), (desugar_h hs), (desugar orelse))
| SFinally (body, fin) -> CFinally (true, (desugar body), (desugar fin))
| SWith (k, x, body) ->
  CWithScope (k, (CFinally (false, (CTry ((desugar body), (CHCons (None,
    None, (CExitExc (k, x)), CHNil)), CSkip)), (CExitNone (k, x)))))
| SLoop (n0, body) -> CLoop (n0, (desugar body))
| SReturn -> CReturn
| SBreak -> CBreak
| SContinue -> CContinue

(** val desugar_h : handlers -> chandlers **)

and desugar_h = function
| HNil -> CHNil
| HCons (pat, name, body, tl) ->
  (match name with
   | Some x ->
     CHCons (pat, (Some x), (CFinally (true, (desugar body), (CDel x))),
       (desugar_h tl))
   | None -> CHCons (pat, None, (desugar body), (desugar_h tl)))

(** val trivial : cstmt -> bool **)

let rec trivial = function
| CSkip -> true
| CSeq (a, b) -> (&&) (trivial a) (trivial b)
| CReturn -> true
| _ -> false

(** val reraise_sch : bool -> state -> oc * state **)

let reraise_sch fx c =
  match c.cur with
  | Some o ->
    (match o with
     | Some e -> ((ORaise e), (if fx then c else set_cur (Some None) c))
     | None -> (OCrash, c))
  | None -> reraise_dynamic c

(** val exec_sch : bool -> bool -> cstmt -> state -> oc * state **)

let rec exec_sch fx sx s c =
  match s with
  | CSkip -> (ONorm, c)
  | CLog n0 -> (ONorm, (logst (fun _ _ -> EvLog n0) c))
  | CProbe -> (ONorm, (logst ev_probe c))
  | CRaise (w, cz) -> lift (do_raise w cz) c
  | CReraise -> reraise_sch fx c
  | CSeq (a, b) ->
    let (o, c1) = exec_sch fx sx a c in
    (match o with
     | ONorm -> exec_sch fx sx b c1
     | _ -> (o, c1))
  | CTry (body, hs, orelse) ->
    let saved = if sx then c.top else handled c in
    let (o, c1) = exec_sch fx sx body c in
    (match o with
     | ONorm ->
       let (o2, c2) = exec_sch fx sx orelse c1 in
       (match o2 with
        | ONorm -> (o2, c2)
        | OCrash -> (o2, c2)
        | _ -> (o2, (set_top saved c2)))
     | ORaise e -> handle_sch fx sx hs e saved c1
     | OCrash -> (OCrash, c1)
     | _ -> (o, (set_top saved c1)))
  | CFinally (herr, body, fin) ->
    let (o, c1) = exec_sch fx sx body c in
    (match o with
     | ORaise e ->
       if herr
       then let saved = c1.top in
            let old = c1.cur in
            let (o2, c2) =
              exec_sch fx sx fin
                (set_cur (Some (Some e)) (set_top (Some e) c1))
            in
            let v = c2.cur in
            let c3 = set_cur old c2 in
            (match o2 with
             | ONorm ->
               (match v with
                | Some o0 ->
                  (match o0 with
                   | Some e' -> ((ORaise e'), (set_top saved c3))
                   | None -> (OCrash, c3))
                | None -> (OCrash, c3))
             | OCrash -> (OCrash, c3)
             | _ -> (o2, (set_top saved c3)))
       else ((ORaise e), c1)
     | OCrash -> (OCrash, c1)
     | _ -> let (o2, c2) = exec_sch fx sx fin c1 in ((after o o2), c2))
  | CLoop (n0, body) ->
    let rec loop i c0 =
      match i with
      | O -> (ONorm, c0)
      | S i' ->
        let (o, c1) = exec_sch fx sx body c0 in
        (match o with
         | ONorm -> loop i' c1
         | OBrk -> (ONorm, c1)
         | OCont -> loop i' c1
         | _ -> (o, c1))
    in loop n0 c
  | CReturn -> (ORet, c)
  | CBreak -> (OBrk, c)
  | CContinue -> (OCont, c)
  | CDel x -> (ONorm, (set_co (unbind x c.co) c))
  | CWithScope (k, body) ->
    let old = c.wx in
    let (o, c1) =
      exec_sch fx sx body (set_wx true (logst (fun _ _ -> EvEnter k) c))
    in
    (o, (set_wx old c1))
  | CExitExc (k, x) ->
    let arg = match c.cur with
              | Some o -> o
              | None -> None in
    let c1 = logst (ev_exit k arg) (set_wx false c) in
    (match x with
     | XPass -> reraise_sch fx c1
     | XSwallow -> (ONorm, c1)
     | XRaise n0 -> lift (raise_internal n0) c1)
  | CExitNone (k, x) ->
    if c.wx
    then let c1 = logst (ev_exit k None) (set_wx false c) in
         (match x with
          | XRaise n0 -> lift (raise_internal n0) c1
          | _ -> (ONorm, c1))
    else (ONorm, c)

(** val handle_sch :
    bool -> bool -> chandlers -> nat -> nat option -> state -> oc * state **)

and handle_sch fx sx hs e saved c =
  match hs with
  | CHNil -> ((ORaise e), (set_top saved c))
  | CHCons (pat, name, body, tl) ->
    if pat_matches pat (cls_of c e)
    then if (||) (match name with
                  | Some _ -> true
                  | None -> false) (negb (trivial body))
         then let old = c.cur in
              let c1 =
                set_cur (Some (Some e))
                  (set_co (bind_opt name e c.co) (set_top (Some e) c))
              in
              let (o, c2) = exec_sch fx sx body c1 in
              (match o with
               | OCrash -> (OCrash, c2)
               | _ -> (o, (set_top saved (set_cur old c2))))
         else let (o, c1) = exec_sch fx sx body c in
              (match o with
               | OCrash -> (OCrash, c1)
               | _ -> (o, (set_top saved c1)))
    else handle_sch fx sx tl e saved c

(** val init_state : eobj list -> nat option -> nat option -> state **)

let init_state h t b =
  { co = { heap = h; env = []; log = [] }; top = t; below = b; cur = None;
    wx = false }

(** val run_ref :
    stmt -> eobj list -> nat option -> nat option -> oc * state **)

let run_ref s h t b =
  exec_ref s (init_state h t b)

(** val run_sch :
    bool -> bool -> stmt -> eobj list -> nat option -> nat option ->
    oc * state **)

let run_sch fx sx s h t b =
  exec_sch fx sx (desugar s) (init_state h t b)
