
(** val negb : bool -> bool **)

let negb = function
| true -> false
| false -> true

type nat =
| O
| S of nat

(** val fst : ('a1 * 'a2) -> 'a1 **)

let fst = function
| (x, _) -> x

(** val snd : ('a1 * 'a2) -> 'a2 **)

let snd = function
| (_, y) -> y

(** val length : 'a1 list -> nat **)

let rec length = function
| [] -> O
| _ :: l' -> S (length l')

(** val app : 'a1 list -> 'a1 list -> 'a1 list **)

let rec app l m =
  match l with
  | [] -> m
  | a :: l1 -> a :: (app l1 m)

(** val add : nat -> nat -> nat **)

let rec add n0 m =
  match n0 with
  | O -> m
  | S p -> S (add p m)

type positive =
| XI of positive
| XO of positive
| XH

type n =
| N0
| Npos of positive

type z =
| Z0
| Zpos of positive
| Zneg of positive

module Nat =
 struct
  (** val eqb : nat -> nat -> bool **)

  let rec eqb n0 m =
    match n0 with
    | O -> (match m with
            | O -> true
            | S _ -> false)
    | S n' -> (match m with
               | O -> false
               | S m' -> eqb n' m')
 end

(** val nth : nat -> 'a1 list -> 'a1 -> 'a1 **)

let rec nth n0 l default =
  match n0 with
  | O -> (match l with
          | [] -> default
          | x :: _ -> x)
  | S m -> (match l with
            | [] -> default
            | _ :: t -> nth m t default)

(** val filter : ('a1 -> bool) -> 'a1 list -> 'a1 list **)

let rec filter f = function
| [] -> []
| x :: l0 -> if f x then x :: (filter f l0) else filter f l0

(** val ex_keep :
    (((((nat * n) * z) * z list) * z option) * positive) * bool **)

let ex_keep =
  ((((((O, N0), Z0), []), None), XH), true)

(** val c_runtime : nat **)

let c_runtime =
  S O

(** val c_unbound : nat **)

let c_unbound =
  S (S O)

type eobj = { e_cls : nat; e_user : bool; e_ctx : nat option;
              e_cause : nat option; e_supp : bool }

type event =
| EvLog of nat
| EvProbe of nat option * eobj list
| EvEnter of nat
| EvExit of nat * nat option * nat option * eobj list

type core = { heap : eobj list; env : (nat * nat) list; log : event list }

type state = { co : core; top : nat option; below : nat option;
               cur : nat option option; wx : bool }

(** val set_co : core -> state -> state **)

let set_co k st =
  { co = k; top = st.top; below = st.below; cur = st.cur; wx = st.wx }

(** val set_top : nat option -> state -> state **)

let set_top t st =
  { co = st.co; top = t; below = st.below; cur = st.cur; wx = st.wx }

(** val set_cur : nat option option -> state -> state **)

let set_cur c st =
  { co = st.co; top = st.top; below = st.below; cur = c; wx = st.wx }

(** val set_wx : bool -> state -> state **)

let set_wx w st =
  { co = st.co; top = st.top; below = st.below; cur = st.cur; wx = w }

(** val handled : state -> nat option **)

let handled st =
  match st.top with
  | Some e -> Some e
  | None -> st.below

type oc =
| ONorm
| ORaise of nat
| ORet
| OBrk
| OCont
| OCrash

(** val get : eobj list -> nat -> eobj **)

let get h e =
  nth e h { e_cls = O; e_user = false; e_ctx = None; e_cause = None; e_supp =
    false }

(** val upd : eobj list -> nat -> (eobj -> eobj) -> eobj list **)

let rec upd h e f =
  match h with
  | [] -> []
  | o :: t -> (match e with
               | O -> (f o) :: t
               | S e' -> o :: (upd t e' f))

(** val with_ctx : nat option -> eobj -> eobj **)

let with_ctx c o =
  { e_cls = o.e_cls; e_user = o.e_user; e_ctx = c; e_cause = o.e_cause;
    e_supp = o.e_supp }

(** val with_cause : nat option -> eobj -> eobj **)

let with_cause c o =
  { e_cls = o.e_cls; e_user = o.e_user; e_ctx = o.e_ctx; e_cause = c;
    e_supp = true }

(** val break_cycle : nat -> eobj list -> nat -> nat -> eobj list **)

let rec break_cycle fuel h o value =
  match fuel with
  | O -> h
  | S f ->
    (match (get h o).e_ctx with
     | Some c ->
       if Nat.eqb c value
       then upd h o (with_ctx None)
       else break_cycle f h c value
     | None -> h)

(** val set_ctx : eobj list -> nat -> nat option -> eobj list **)

let set_ctx h value = function
| Some x ->
  if Nat.eqb x value
  then h
  else upd (break_cycle (length h) h x value) value (with_ctx (Some x))
| None -> h

(** val add_log : event -> core -> core **)

let add_log ev k =
  { heap = k.heap; env = k.env; log = (app k.log (ev :: [])) }

(** val set_heap : eobj list -> core -> core **)

let set_heap h k =
  { heap = h; env = k.env; log = k.log }

(** val alloc : nat -> bool -> core -> nat * core **)

let alloc c user k =
  ((length k.heap),
    (set_heap
      (app k.heap ({ e_cls = c; e_user = user; e_ctx = None; e_cause = None;
        e_supp = false } :: [])) k))

(** val lookup : nat -> (nat * nat) list -> nat option **)

let rec lookup x = function
| [] -> None
| p :: t -> let (y, e) = p in if Nat.eqb y x then Some e else lookup x t

(** val unbind : nat -> core -> core **)

let unbind x k =
  { heap = k.heap; env = (filter (fun p -> negb (Nat.eqb (fst p) x)) k.env);
    log = k.log }

(** val bind : nat -> nat -> core -> core **)

let bind x e k =
  let k' = unbind x k in
  { heap = k'.heap; env = ((x, e) :: k'.env); log = k'.log }

(** val bind_opt : nat option -> nat -> core -> core **)

let bind_opt x e k =
  match x with
  | Some n0 -> bind n0 e k
  | None -> k

(** val unbind_opt : nat option -> core -> core **)

let unbind_opt x k =
  match x with
  | Some n0 -> unbind n0 k
  | None -> k

(** val raise_with : nat -> core -> nat option -> oc * core **)

let raise_with e k hd =
  ((ORaise e), (set_heap (set_ctx k.heap e hd) k))

(** val raise_internal : nat -> core -> nat option -> oc * core **)

let raise_internal c k hd =
  let (e, k1) = alloc c false k in raise_with e k1 hd

type what =
| RNew of nat
| RVar of nat

type cause =
| NoCause
| FromNone
| FromNew of nat
| FromVar of nat

(** val do_raise : what -> cause -> core -> nat option -> oc * core **)

let do_raise w cz k hd =
  let r1 =
    match w with
    | RNew c -> Some (alloc c true k)
    | RVar x ->
      (match lookup x k.env with
       | Some e -> Some (e, k)
       | None -> None)
  in
  (match r1 with
   | Some p ->
     let (e, k1) = p in
     (match cz with
      | NoCause -> raise_with e k1 hd
      | FromNone ->
        raise_with e (set_heap (upd k1.heap e (with_cause None)) k1) hd
      | FromNew c ->
        let (e2, k2) = alloc c true k1 in
        raise_with e (set_heap (upd k2.heap e (with_cause (Some e2))) k2) hd
      | FromVar x ->
        (match lookup x k1.env with
         | Some e2 ->
           raise_with e (set_heap (upd k1.heap e (with_cause (Some e2))) k1)
             hd
         | None -> raise_internal c_unbound k1 hd))
   | None -> raise_internal c_unbound k hd)

(** val lift : (core -> nat option -> oc * core) -> state -> oc * state **)

let lift g st =
  let (o, k) = g st.co (handled st) in (o, (set_co k st))

(** val logst : (core -> nat option -> event) -> state -> state **)

let logst ev st =
  set_co (add_log (ev st.co (handled st)) st.co) st

(** val ev_probe : core -> nat option -> event **)

let ev_probe k hd =
  EvProbe (hd, k.heap)

(** val ev_exit : nat -> nat option -> core -> nat option -> event **)

let ev_exit n0 arg k hd =
  EvExit (n0, arg, hd, k.heap)

(** val pat_matches : nat option -> nat -> bool **)

let pat_matches p c =
  match p with
  | Some q -> (||) (Nat.eqb q O) (Nat.eqb q c)
  | None -> true

(** val cls_of : state -> nat -> nat **)

let cls_of st e =
  (get st.co.heap e).e_cls

type exitk =
| XPass
| XSwallow
| XRaise of nat

type stmt =
| SSkip
| SLog of nat
| SProbe
| SRaise of what * cause
| SReraise
| SSeq of stmt * stmt
| STry of stmt * handlers * stmt
| SFinally of stmt * stmt
| SWith of nat * exitk * stmt
| SLoop of nat * stmt
| SReturn
| SBreak
| SContinue
and handlers =
| HNil
| HCons of nat option * nat option * stmt * handlers

(** val reraise_dynamic : state -> oc * state **)

let reraise_dynamic st =
  match handled st with
  | Some e -> ((ORaise e), st)
  | None -> lift (raise_internal c_runtime) st

(** val after : oc -> oc -> oc **)

let after pending o2 = match o2 with
| ONorm -> pending
| _ -> o2

(** val exec_ref : stmt -> state -> oc * state **)

let rec exec_ref s r =
  match s with
  | SSkip -> (ONorm, r)
  | SLog n0 -> (ONorm, (logst (fun _ _ -> EvLog n0) r))
  | SProbe -> (ONorm, (logst ev_probe r))
  | SRaise (w, cz) -> lift (do_raise w cz) r
  | SReraise -> reraise_dynamic r
  | SSeq (a, b) ->
    let (o, r1) = exec_ref a r in
    (match o with
     | ONorm -> exec_ref b r1
     | _ -> (o, r1))
  | STry (body, hs, orelse) ->
    let (o, r1) = exec_ref body r in
    (match o with
     | ONorm -> exec_ref orelse r1
     | ORaise e -> handle_ref hs e r1
     | _ -> (o, r1))
  | SFinally (body, fin) ->
    let (o, r1) = exec_ref body r in
    (match o with
     | ORaise e ->
       let saved = r1.top in
       let (o2, r2) = exec_ref fin (set_top (Some e) r1) in
       ((after (ORaise e) o2), (set_top saved r2))
     | _ -> let (o2, r2) = exec_ref fin r1 in ((after o o2), r2))
  | SWith (k, x, body) ->
    let (o, r1) = exec_ref body (logst (fun _ _ -> EvEnter k) r) in
    (match o with
     | ORaise e ->
       let saved = r1.top in
       let r2 = logst (ev_exit k (Some e)) (set_top (Some e) r1) in
       (match x with
        | XPass -> ((ORaise e), (set_top saved r2))
        | XSwallow -> (ONorm, (set_top saved r2))
        | XRaise c ->
          let (o', r3) = lift (raise_internal c) r2 in
          (o', (set_top saved r3)))
     | _ ->
       let r2 = logst (ev_exit k None) r1 in
       (match x with
        | XRaise c -> lift (raise_internal c) r2
        | _ -> (o, r2)))
  | SLoop (n0, body) ->
    let rec loop i r0 =
      match i with
      | O -> (ONorm, r0)
      | S i' ->
        let (o, r1) = exec_ref body r0 in
        (match o with
         | ONorm -> loop i' r1
         | OBrk -> (ONorm, r1)
         | OCont -> loop i' r1
         | _ -> (o, r1))
    in loop n0 r
  | SReturn -> (ORet, r)
  | SBreak -> (OBrk, r)
  | SContinue -> (OCont, r)

(** val handle_ref : handlers -> nat -> state -> oc * state **)

and handle_ref hs e r =
  match hs with
  | HNil -> ((ORaise e), r)
  | HCons (pat, name, body, tl) ->
    if pat_matches pat (cls_of r e)
    then let saved = r.top in
         let r1 = set_co (bind_opt name e r.co) (set_top (Some e) r) in
         let (o, r2) = exec_ref body r1 in
         (o, (set_top saved (set_co (unbind_opt name r2.co) r2)))
    else handle_ref tl e r

type cstmt =
| CSkip
| CLog of nat
| CProbe
| CRaise of what * cause
| CReraise
| CSeq of cstmt * cstmt
| CTry of cstmt * chandlers * cstmt
| CFinally of bool * cstmt * cstmt
| CLoop of nat * cstmt
| CReturn
| CBreak
| CContinue
| CDel of nat
| CWithScope of nat * cstmt
| CExitExc of nat * exitk
| CExitNone of nat * exitk
and chandlers =
| CHNil
| CHCons of nat option * nat option * cstmt * chandlers

(** val desugar : stmt -> cstmt **)

let rec desugar = function
| SSkip -> CSkip
| SLog n0 -> CLog n0
| SProbe -> CProbe
| SRaise (w, cz) -> CRaise (w, cz)
| SReraise -> CReraise
| SSeq (a, b) -> CSeq ((desugar a), (desugar b))
| STry (body, hs, orelse) ->
  CTry ((desugar body), (desugar_h hs), (desugar orelse))
| SFinally (body, fin) -> CFinally (true, (desugar body), (desugar fin))
| SWith (k, x, body) ->
  CWithScope (k, (CFinally (false, (CTry ((desugar body), (CHCons (None,
    None, (CExitExc (k, x)), CHNil)), CSkip)), (CExitNone (k, x)))))
| SLoop (n0, body) -> CLoop (n0, (desugar body))
| SReturn -> CReturn
| SBreak -> CBreak
| SContinue -> CContinue

(** val desugar_h : handlers -> chandlers **)

and desugar_h = function
| HNil -> CHNil
| HCons (pat, name, body, tl) ->
  (match name with
   | Some x ->
     CHCons (pat, (Some x), (CFinally (true, (desugar body), (CDel x))),
       (desugar_h tl))
   | None -> CHCons (pat, None, (desugar body), (desugar_h tl)))

(** val trivial : cstmt -> bool **)

let rec trivial = function
| CSkip -> true
| CSeq (a, b) -> (&&) (trivial a) (trivial b)
| CReturn -> true
| _ -> false

(** val reraise_sch : bool -> state -> oc * state **)

let reraise_sch fx c =
  match c.cur with
  | Some o ->
    (match o with
     | Some e -> ((ORaise e), (if fx then c else set_cur (Some None) c))
     | None -> (OCrash, c))
  | None -> reraise_dynamic c

(** val exec_sch : bool -> bool -> cstmt -> state -> oc * state **)

let rec exec_sch fx sx s c =
  match s with
  | CSkip -> (ONorm, c)
  | CLog n0 -> (ONorm, (logst (fun _ _ -> EvLog n0) c))
  | CProbe -> (ONorm, (logst ev_probe c))
  | CRaise (w, cz) -> lift (do_raise w cz) c
  | CReraise -> reraise_sch fx c
  | CSeq (a, b) ->
    let (o, c1) = exec_sch fx sx a c in
    (match o with
     | ONorm -> exec_sch fx sx b c1
     | _ -> (o, c1))
  | CTry (body, hs, orelse) ->
    let saved = if sx then c.top else handled c in
    let (o, c1) = exec_sch fx sx body c in
    (match o with
     | ONorm ->
       let (o2, c2) = exec_sch fx sx orelse c1 in
       (match o2 with
        | ONorm -> (o2, c2)
        | OCrash -> (o2, c2)
        | _ -> (o2, (set_top saved c2)))
     | ORaise e -> handle_sch fx sx hs e saved c1
     | OCrash -> (OCrash, c1)
     | _ -> (o, (set_top saved c1)))
  | CFinally (herr, body, fin) ->
    let (o, c1) = exec_sch fx sx body c in
    (match o with
     | ORaise e ->
       if herr
       then let saved = c1.top in
            let old = c1.cur in
            let (o2, c2) =
              exec_sch fx sx fin
                (set_cur (Some (Some e)) (set_top (Some e) c1))
            in
            let v = c2.cur in
            let c3 = set_cur old c2 in
            (match o2 with
             | ONorm ->
               (match v with
                | Some o0 ->
                  (match o0 with
                   | Some e' -> ((ORaise e'), (set_top saved c3))
                   | None -> (OCrash, c3))
                | None -> (OCrash, c3))
             | OCrash -> (OCrash, c3)
             | _ -> (o2, (set_top saved c3)))
       else ((ORaise e), c1)
     | OCrash -> (OCrash, c1)
     | _ -> let (o2, c2) = exec_sch fx sx fin c1 in ((after o o2), c2))
  | CLoop (n0, body) ->
    let rec loop i c0 =
      match i with
      | O -> (ONorm, c0)
      | S i' ->
        let (o, c1) = exec_sch fx sx body c0 in
        (match o with
         | ONorm -> loop i' c1
         | OBrk -> (ONorm, c1)
         | OCont -> loop i' c1
         | _ -> (o, c1))
    in loop n0 c
  | CReturn -> (ORet, c)
  | CBreak -> (OBrk, c)
  | CContinue -> (OCont, c)
  | CDel x -> (ONorm, (set_co (unbind x c.co) c))
  | CWithScope (k, body) ->
    let old = c.wx in
    let (o, c1) =
      exec_sch fx sx body (set_wx true (logst (fun _ _ -> EvEnter k) c))
    in
    (o, (set_wx old c1))
  | CExitExc (k, x) ->
    let arg = match c.cur with
              | Some o -> o
              | None -> None in
    let c1 = logst (ev_exit k arg) (set_wx false c) in
    (match x with
     | XPass -> reraise_sch fx c1
     | XSwallow -> (ONorm, c1)
     | XRaise n0 -> lift (raise_internal n0) c1)
  | CExitNone (k, x) ->
    if c.wx
    then let c1 = logst (ev_exit k None) (set_wx false c) in
         (match x with
          | XRaise n0 -> lift (raise_internal n0) c1
          | _ -> (ONorm, c1))
    else (ONorm, c)

(** val handle_sch :
    bool -> bool -> chandlers -> nat -> nat option -> state -> oc * state **)

and handle_sch fx sx hs e saved c =
  match hs with
  | CHNil -> ((ORaise e), (set_top saved c))
  | CHCons (pat, name, body, tl) ->
    if pat_matches pat (cls_of c e)
    then if (||) (match name with
                  | Some _ -> true
                  | None -> false) (negb (trivial body))
         then let old = c.cur in
              let c1 =
                set_cur (Some (Some e))
                  (set_co (bind_opt name e c.co) (set_top (Some e) c))
              in
              let (o, c2) = exec_sch fx sx body c1 in
              (match o with
               | OCrash -> (OCrash, c2)
               | _ -> (o, (set_top saved (set_cur old c2))))
         else let (o, c1) = exec_sch fx sx body c in
              (match o with
               | OCrash -> (OCrash, c1)
               | _ -> (o, (set_top saved c1)))
    else handle_sch fx sx tl e saved c

(** val init_state : eobj list -> nat option -> nat option -> state **)

let init_state h t b =
  { co = { heap = h; env = []; log = [] }; top = t; below = b; cur = None;
    wx = false }

(** val run_ref :
    stmt -> eobj list -> nat option -> nat option -> oc * state **)

let run_ref s h t b =
  exec_ref s (init_state h t b)

(** val run_sch :
    bool -> bool -> stmt -> eobj list -> nat option -> nat option ->
    oc * state **)

let run_sch fx sx s h t b =
  exec_sch fx sx (desugar s) (init_state h t b)

type label = nat

type cgs = { g_err : label; g_ret : label; g_brk : label; g_cont : label;
             g_next : label }

(** val set_err : label -> cgs -> cgs **)

let set_err l g =
  { g_err = l; g_ret = g.g_ret; g_brk = g.g_brk; g_cont = g.g_cont; g_next =
    g.g_next }

(** val set_ret : label -> cgs -> cgs **)

let set_ret l g =
  { g_err = g.g_err; g_ret = l; g_brk = g.g_brk; g_cont = g.g_cont; g_next =
    g.g_next }

(** val bump : nat -> cgs -> cgs **)

let bump k g =
  { g_err = g.g_err; g_ret = g.g_ret; g_brk = g.g_brk; g_cont = g.g_cont;
    g_next = (add k g.g_next) }

(** val restore : cgs -> cgs -> cgs **)

let restore old g =
  { g_err = old.g_err; g_ret = old.g_ret; g_brk = old.g_brk; g_cont =
    old.g_cont; g_next = g.g_next }

type trylabels = { t_our_err : label; t_exc_err : label; t_exc_ret : 
                   label; t_try_ret : label; t_try_brk : label;
                   t_try_cont : label; t_old_err : label; t_old_ret : 
                   label; t_old_brk : label; t_old_cont : label }

type finlabels = { f_new_cont : label; f_new_brk : label; f_new_ret : 
                   label; f_new_err : label; f_ex_cont : label;
                   f_ex_brk : label; f_ex_ret : label; f_ex_err : label;
                   f_old_cont : label; f_old_brk : label; f_old_ret : 
                   label; f_old_err : label }

type lcode =
| LSkip
| LLog of nat * label
| LProbe of label
| LRaise of what * cause * label
| LReraise of label
| LGoto of label
| LSeq of lcode * lcode
| LTry of trylabels * lcode * lhandlers * lcode
| LFinally of bool * finlabels * lcode * lcode * lcode * lcode * lcode * lcode
| LLoop of nat * label * label * lcode
| LDel of nat
| LWithScope of nat * label * lcode
| LExitExc of nat * exitk * label
| LExitNone of nat * exitk * label
and lhandlers =
| LHNil
| LHCons of nat option * nat option * bool * label * label * label * 
   label * lcode * lhandlers

(** val gen : bool -> cstmt -> cgs -> lcode * cgs **)

let rec gen late_switch s g =
  match s with
  | CSkip -> (LSkip, g)
  | CLog n0 -> ((LLog (n0, g.g_err)), g)
  | CProbe -> ((LProbe g.g_err), g)
  | CRaise (w, cz) -> ((LRaise (w, cz, g.g_err)), g)
  | CReraise -> ((LReraise g.g_err), g)
  | CSeq (a, b) ->
    let (ca, g1) = gen late_switch a g in
    let (cb, g2) = gen late_switch b g1 in ((LSeq (ca, cb)), g2)
  | CTry (body, hs, orelse) ->
    let n0 = g.g_next in
    let tl = { t_our_err = n0; t_exc_err = (add (S (S O)) n0); t_exc_ret =
      (add (S (S (S O))) n0); t_try_ret = (add (S (S (S (S O)))) n0);
      t_try_brk = (add (S (S (S (S (S O))))) n0); t_try_cont =
      (add (S (S (S (S (S (S O)))))) n0); t_old_err = g.g_err; t_old_ret =
      g.g_ret; t_old_brk = g.g_brk; t_old_cont = g.g_cont }
    in
    let g1 = { g_err = n0; g_ret = (add (S (S (S (S O)))) n0); g_brk =
      (add (S (S (S (S (S O))))) n0); g_cont =
      (add (S (S (S (S (S (S O)))))) n0); g_next =
      (add (S (S (S (S (S (S (S (S O)))))))) n0) }
    in
    let (cb, g2) = gen late_switch body g1 in
    let g3 =
      set_ret (add (S (S (S O))) n0)
        (if late_switch then g2 else set_err (add (S (S O)) n0) g2)
    in
    let (ce, g4) = gen late_switch orelse g3 in
    let g5 = set_err (add (S (S O)) n0) g4 in
    let (ch, g6) = gen_h late_switch hs g5 in
    ((LTry (tl, cb, ch, ce)), (restore g g6))
  | CFinally (herr, body, fin) ->
    let n0 = g.g_next in
    let g1 = { g_err = (if herr then add (S (S (S O))) n0 else g.g_err);
      g_ret = (add (S (S O)) n0); g_brk = (add (S O) n0); g_cont = n0;
      g_next = (add (S (S (S (S (S O))))) n0) }
    in
    let (cb, g2) = gen late_switch body g1 in
    let (cn, g3) = gen late_switch fin (restore g g2) in
    let m = g3.g_next in
    let (cx, g4) =
      gen late_switch fin { g_err = (add (S (S (S O))) m); g_ret =
        (add (S (S O)) m); g_brk = (add (S O) m); g_cont = m; g_next =
        (add (S (S (S (S O)))) m) }
    in
    let (cc, g5) = gen late_switch fin (restore g g4) in
    let (ck, g6) = gen late_switch fin g5 in
    let (cr, g7) = gen late_switch fin g6 in
    ((LFinally (herr, { f_new_cont = n0; f_new_brk = (add (S O) n0);
    f_new_ret = (add (S (S O)) n0); f_new_err = (add (S (S (S O))) n0);
    f_ex_cont = m; f_ex_brk = (add (S O) m); f_ex_ret = (add (S (S O)) m);
    f_ex_err = (add (S (S (S O))) m); f_old_cont = g.g_cont; f_old_brk =
    g.g_brk; f_old_ret = g.g_ret; f_old_err = g.g_err }, cb, cn, cx, cc, ck,
    cr)), g7)
  | CLoop (k, body) ->
    let n0 = g.g_next in
    let (cb, g2) =
      gen late_switch body { g_err = g.g_err; g_ret = g.g_ret; g_brk =
        (add (S O) n0); g_cont = n0; g_next = (add (S (S O)) n0) }
    in
    ((LLoop (k, (add (S O) n0), n0, cb)), (restore g g2))
  | CReturn -> ((LGoto g.g_ret), g)
  | CBreak -> ((LGoto g.g_brk), g)
  | CContinue -> ((LGoto g.g_cont), g)
  | CDel x -> ((LDel x), g)
  | CWithScope (k, body) ->
    let n0 = g.g_next in
    let (cb, g2) = gen late_switch body (bump (S O) g) in
    ((LWithScope (k, n0, cb)), (bump (S O) g2))
  | CExitExc (k, x) -> ((LExitExc (k, x, g.g_err)), g)
  | CExitNone (k, x) -> ((LExitNone (k, x, g.g_err)), g)

(** val gen_h : bool -> chandlers -> cgs -> lhandlers * cgs **)

and gen_h late_switch hs g =
  match hs with
  | CHNil -> (LHNil, g)
  | CHCons (pat, name, body, tl) ->
    let n0 = g.g_next in
    let (cb, g2) =
      gen late_switch body { g_err = g.g_err; g_ret = g.g_ret; g_brk =
        (add (S O) n0); g_cont = n0; g_next = (add (S (S O)) n0) }
    in
    let (ct, g3) = gen_h late_switch tl (restore g g2) in
    ((LHCons (pat, name,
    ((||) (match name with
           | Some _ -> true
           | None -> false) (negb (trivial body))), (add (S O) n0), n0,
    g.g_brk, g.g_cont, cb, ct)), g3)

type lx =
| XFall
| XJump of label * nat option
| XCrash

(** val err_to : label -> oc -> lx **)

let err_to l = function
| ONorm -> XFall
| ORaise e -> XJump (l, (Some e))
| _ -> XCrash

(** val try_exits : trylabels -> nat option -> lx -> state -> lx * state **)

let try_exits tl saved x c =
  match x with
  | XJump (l, p) ->
    if Nat.eqb l tl.t_exc_err
    then ((XJump (tl.t_old_err, p)), (set_top saved c))
    else if Nat.eqb l tl.t_try_brk
         then ((XJump (tl.t_old_brk, p)), (set_top saved c))
         else if Nat.eqb l tl.t_try_cont
              then ((XJump (tl.t_old_cont, p)), (set_top saved c))
              else if Nat.eqb l tl.t_try_ret
                   then ((XJump (tl.t_old_ret, p)), (set_top saved c))
                   else if Nat.eqb l tl.t_exc_ret
                        then ((XJump (tl.t_old_ret, p)), (set_top saved c))
                        else (x, c)
  | _ -> (x, c)

(** val fin_relabel : finlabels -> label -> label **)

let fin_relabel fl l =
  if Nat.eqb l fl.f_ex_cont
  then fl.f_old_cont
  else if Nat.eqb l fl.f_ex_brk
       then fl.f_old_brk
       else if Nat.eqb l fl.f_ex_ret
            then fl.f_old_ret
            else if Nat.eqb l fl.f_ex_err then fl.f_old_err else l

(** val fin_copy : (lx * state) -> label -> nat option -> lx * state **)

let fin_copy r old p =
  match fst r with
  | XFall -> ((XJump (old, p)), (snd r))
  | _ -> r

(** val exec_lab : bool -> bool -> lcode -> state -> lx * state **)

let rec exec_lab fx sx s c =
  match s with
  | LSkip -> (XFall, c)
  | LLog (n0, _) -> (XFall, (logst (fun _ _ -> EvLog n0) c))
  | LProbe _ -> (XFall, (logst ev_probe c))
  | LRaise (w, cz, l) ->
    let (o, c1) = lift (do_raise w cz) c in ((err_to l o), c1)
  | LReraise l -> let (o, c1) = reraise_sch fx c in ((err_to l o), c1)
  | LGoto l -> ((XJump (l, None)), c)
  | LSeq (a, b) ->
    let (x, c1) = exec_lab fx sx a c in
    (match x with
     | XFall -> exec_lab fx sx b c1
     | _ -> (x, c1))
  | LTry (tl, body, hs, orelse) ->
    let saved = if sx then c.top else handled c in
    let (x, c1) = exec_lab fx sx body c in
    let (x2, c2) =
      match x with
      | XFall -> exec_lab fx sx orelse c1
      | _ -> (x, c1)
    in
    (match x2 with
     | XJump (l, p) ->
       let (x3, c3) =
         if Nat.eqb l tl.t_our_err
         then (match p with
               | Some e -> handle_lab fx sx hs e tl saved c2
               | None -> (XCrash, c2))
         else (x2, c2)
       in
       try_exits tl saved x3 c3
     | x0 -> (x0, c2))
  | LFinally (herr, fl, body, fnorm, fexc, fcont, fbrk, fret) ->
    let (x, c1) = exec_lab fx sx body c in
    (match x with
     | XFall -> exec_lab fx sx fnorm c1
     | XJump (l, p) ->
       if (&&) herr (Nat.eqb l fl.f_new_err)
       then (match p with
             | Some e ->
               let saved = c1.top in
               let old = c1.cur in
               let (x2, c2) =
                 exec_lab fx sx fexc
                   (set_cur (Some (Some e)) (set_top (Some e) c1))
               in
               let v = c2.cur in
               let c3 = set_cur old c2 in
               (match x2 with
                | XFall ->
                  (match v with
                   | Some o ->
                     (match o with
                      | Some e' ->
                        ((XJump (fl.f_old_err, (Some e'))),
                          (set_top saved c3))
                      | None -> (XCrash, c3))
                   | None -> (XCrash, c3))
                | XJump (l2, p2) ->
                  ((XJump ((fin_relabel fl l2), p2)), (set_top saved c3))
                | XCrash -> (XCrash, c3))
             | None -> (XCrash, c1))
       else if Nat.eqb l fl.f_new_cont
            then fin_copy (exec_lab fx sx fcont c1) fl.f_old_cont p
            else if Nat.eqb l fl.f_new_brk
                 then fin_copy (exec_lab fx sx fbrk c1) fl.f_old_brk p
                 else if Nat.eqb l fl.f_new_ret
                      then fin_copy (exec_lab fx sx fret c1) fl.f_old_ret p
                      else (x, c1)
     | XCrash -> (XCrash, c1))
  | LLoop (n0, brk, cont, body) ->
    let rec loop i c0 =
      match i with
      | O -> (XFall, c0)
      | S i' ->
        let (x, c1) = exec_lab fx sx body c0 in
        (match x with
         | XFall -> loop i' c1
         | XJump (l, _) ->
           if Nat.eqb l cont
           then loop i' c1
           else if Nat.eqb l brk then (XFall, c1) else (x, c1)
         | XCrash -> (XCrash, c1))
    in loop n0 c
  | LDel x -> (XFall, (set_co (unbind x c.co) c))
  | LWithScope (k, _, body) ->
    let old = c.wx in
    let (x, c1) =
      exec_lab fx sx body (set_wx true (logst (fun _ _ -> EvEnter k) c))
    in
    (x, (set_wx old c1))
  | LExitExc (k, x, l) ->
    let arg = match c.cur with
              | Some o -> o
              | None -> None in
    let c1 = logst (ev_exit k arg) (set_wx false c) in
    (match x with
     | XPass -> let (o, c2) = reraise_sch fx c1 in ((err_to l o), c2)
     | XSwallow -> (XFall, c1)
     | XRaise n0 ->
       let (o, c2) = lift (raise_internal n0) c1 in ((err_to l o), c2))
  | LExitNone (k, x, l) ->
    if c.wx
    then let c1 = logst (ev_exit k None) (set_wx false c) in
         (match x with
          | XRaise n0 ->
            let (o, c2) = lift (raise_internal n0) c1 in ((err_to l o), c2)
          | _ -> (XFall, c1))
    else (XFall, c)

(** val handle_lab :
    bool -> bool -> lhandlers -> nat -> trylabels -> nat option -> state ->
    lx * state **)

and handle_lab fx sx hs e tl saved c =
  match hs with
  | LHNil -> ((XJump (tl.t_exc_err, (Some e))), c)
  | LHCons (pat, name, needs, hbrk, hcont, obrk, ocont, body, tl') ->
    if pat_matches pat (cls_of c e)
    then if needs
         then let old = c.cur in
              let c1 =
                set_cur (Some (Some e))
                  (set_co (bind_opt name e c.co) (set_top (Some e) c))
              in
              let (x, c2) = exec_lab fx sx body c1 in
              (match x with
               | XFall -> (XFall, (set_top saved (set_cur old c2)))
               | XJump (l, p) ->
                 ((XJump
                   ((if Nat.eqb l hbrk
                     then obrk
                     else if Nat.eqb l hcont then ocont else l), p)),
                   (set_cur old c2))
               | XCrash -> (XCrash, c2))
         else let (x, c1) = exec_lab fx sx body c in
              (match x with
               | XFall -> (XFall, (set_top saved c1))
               | _ -> (x, c1))
    else handle_lab fx sx tl' e tl saved c

(** val g_fun : cgs **)

let g_fun =
  { g_err = (S O); g_ret = O; g_brk = (S (S O)); g_cont = (S (S (S O)));
    g_next = (S (S (S (S O)))) }

(** val untr : cgs -> lx -> oc **)

let untr g = function
| XFall -> ONorm
| XJump (l, p) ->
  if Nat.eqb l g.g_err
  then (match p with
        | Some e -> ORaise e
        | None -> OCrash)
  else if Nat.eqb l g.g_ret
       then ORet
       else if Nat.eqb l g.g_brk
            then OBrk
            else if Nat.eqb l g.g_cont then OCont else OCrash
| XCrash -> OCrash

(** val run_lab :
    bool -> bool -> bool -> stmt -> eobj list -> nat option -> nat option ->
    oc * state **)

let run_lab late_switch fx sx s h t b =
  let (x, c) =
    exec_lab fx sx (fst (gen late_switch (desugar s) g_fun))
      (init_state h t b)
  in
  ((untr g_fun x), c)

type astmt =
| ASkip
| ALog of nat
| AProbe
| ARaise of what * cause
| AReraise of nat option
| ASeq of astmt * astmt
| ATry of astmt * ahandlers * astmt
| AFinally of bool * nat * astmt * astmt * astmt
| ALoop of nat * astmt
| AReturn
| ABreak
| AContinue
| ADel of nat
| AWithScope of nat * astmt
| AExitExc of nat * exitk * nat option
| AExitNone of nat * exitk
and ahandlers =
| AHNil
| AHCons of nat option * nat option * nat option * astmt * ahandlers

(** val needs_exception : nat option -> cstmt -> bool **)

let needs_exception name body =
  (||) (match name with
        | Some _ -> true
        | None -> false) (negb (trivial body))

(** val fin_exc_vars : bool -> nat option -> nat -> nat option **)

let fin_exc_vars keep old own =
  if keep then (match old with
                | Some _ -> old
                | None -> Some own) else Some own

(** val annot : bool -> cstmt -> nat option -> nat -> astmt * nat **)

let rec annot keep s ev n0 =
  match s with
  | CSkip -> (ASkip, n0)
  | CLog k -> ((ALog k), n0)
  | CProbe -> (AProbe, n0)
  | CRaise (w, cz) -> ((ARaise (w, cz)), n0)
  | CReraise -> ((AReraise ev), n0)
  | CSeq (a, b) ->
    let (a', n1) = annot keep a ev n0 in
    let (b', n2) = annot keep b ev n1 in ((ASeq (a', b')), n2)
  | CTry (body, hs, orelse) ->
    let (b', n1) = annot keep body ev n0 in
    let (o', n2) = annot keep orelse ev n1 in
    let (h', n3) = annot_h keep hs ev n2 in ((ATry (b', h', o')), n3)
  | CFinally (herr, body, fin) ->
    let (b', n1) = annot keep body ev (S n0) in
    let (fn, n2) = annot keep fin ev n1 in
    let (fe, _) = annot keep fin (fin_exc_vars keep ev n0) n1 in
    ((AFinally (herr, n0, b', fn, fe)), n2)
  | CLoop (k, body) ->
    let (b', n1) = annot keep body ev n0 in ((ALoop (k, b')), n1)
  | CReturn -> (AReturn, n0)
  | CBreak -> (ABreak, n0)
  | CContinue -> (AContinue, n0)
  | CDel x -> ((ADel x), n0)
  | CWithScope (k, body) ->
    let (b', n1) = annot keep body ev n0 in ((AWithScope (k, b')), n1)
  | CExitExc (k, x) -> ((AExitExc (k, x, ev)), n0)
  | CExitNone (k, x) -> ((AExitNone (k, x)), n0)

(** val annot_h :
    bool -> chandlers -> nat option -> nat -> ahandlers * nat **)

and annot_h keep hs ev n0 =
  match hs with
  | CHNil -> (AHNil, n0)
  | CHCons (pat, name, body, tl) ->
    let needs = needs_exception name body in
    let (b', n1) = annot keep body (if needs then Some n0 else ev) (S n0) in
    let (t', n2) = annot_h keep tl ev n1 in
    ((AHCons (pat, name, (if needs then Some n0 else None), b', t')), n2)

type temps = nat -> nat option

(** val tset : temps -> nat -> nat option -> temps **)

let tset tm t v i =
  if Nat.eqb i t then v else tm i

(** val no_temps : temps **)

let no_temps _ =
  None

(** val reraise_a :
    bool -> nat option -> state -> temps -> (oc * state) * temps **)

let reraise_a fx ev c tm =
  match ev with
  | Some t ->
    (match tm t with
     | Some e -> (((ORaise e), c), (if fx then tm else tset tm t None))
     | None -> ((OCrash, c), tm))
  | None -> ((reraise_dynamic c), tm)

(** val exec_a :
    bool -> bool -> astmt -> state -> temps -> (oc * state) * temps **)

let rec exec_a fx sx s c tm =
  match s with
  | ASkip -> ((ONorm, c), tm)
  | ALog n0 -> ((ONorm, (logst (fun _ _ -> EvLog n0) c)), tm)
  | AProbe -> ((ONorm, (logst ev_probe c)), tm)
  | ARaise (w, cz) -> ((lift (do_raise w cz) c), tm)
  | AReraise ev -> reraise_a fx ev c tm
  | ASeq (a, b) ->
    let (p, tm1) = exec_a fx sx a c tm in
    let (o, c1) = p in
    (match o with
     | ONorm -> exec_a fx sx b c1 tm1
     | _ -> ((o, c1), tm1))
  | ATry (body, hs, orelse) ->
    let saved = if sx then c.top else handled c in
    let (p, tm1) = exec_a fx sx body c tm in
    let (o, c1) = p in
    (match o with
     | ONorm ->
       let (p0, tm2) = exec_a fx sx orelse c1 tm1 in
       let (o2, c2) = p0 in
       (match o2 with
        | ONorm -> ((o2, c2), tm2)
        | OCrash -> ((o2, c2), tm2)
        | _ -> ((o2, (set_top saved c2)), tm2))
     | ORaise e -> handle_a fx sx hs e saved c1 tm1
     | OCrash -> ((OCrash, c1), tm1)
     | _ -> ((o, (set_top saved c1)), tm1))
  | AFinally (herr, own, body, fnorm, fexc) ->
    let (p, tm1) = exec_a fx sx body c tm in
    let (o, c1) = p in
    (match o with
     | ORaise e ->
       if herr
       then let saved = c1.top in
            let (p0, tm2) =
              exec_a fx sx fexc (set_top (Some e) c1) (tset tm1 own (Some e))
            in
            let (o2, c2) = p0 in
            (match o2 with
             | ONorm ->
               (match tm2 own with
                | Some e' -> (((ORaise e'), (set_top saved c2)), tm2)
                | None -> ((OCrash, c2), tm2))
             | OCrash -> ((OCrash, c2), tm2)
             | _ -> ((o2, (set_top saved c2)), tm2))
       else (((ORaise e), c1), tm1)
     | OCrash -> ((OCrash, c1), tm1)
     | _ ->
       let (p0, tm2) = exec_a fx sx fnorm c1 tm1 in
       let (o2, c2) = p0 in (((after o o2), c2), tm2))
  | ALoop (n0, body) ->
    let rec loop i c0 tm0 =
      match i with
      | O -> ((ONorm, c0), tm0)
      | S i' ->
        let (p, tm1) = exec_a fx sx body c0 tm0 in
        let (o, c1) = p in
        (match o with
         | ONorm -> loop i' c1 tm1
         | OBrk -> ((ONorm, c1), tm1)
         | OCont -> loop i' c1 tm1
         | _ -> ((o, c1), tm1))
    in loop n0 c tm
  | AReturn -> ((ORet, c), tm)
  | ABreak -> ((OBrk, c), tm)
  | AContinue -> ((OCont, c), tm)
  | ADel x -> ((ONorm, (set_co (unbind x c.co) c)), tm)
  | AWithScope (k, body) ->
    let old = c.wx in
    let (p, tm1) =
      exec_a fx sx body (set_wx true (logst (fun _ _ -> EvEnter k) c)) tm
    in
    let (o, c1) = p in ((o, (set_wx old c1)), tm1)
  | AExitExc (k, x, ev) ->
    let arg = match ev with
              | Some t -> tm t
              | None -> None in
    let c1 = logst (ev_exit k arg) (set_wx false c) in
    (match x with
     | XPass -> reraise_a fx ev c1 tm
     | XSwallow -> ((ONorm, c1), tm)
     | XRaise n0 -> ((lift (raise_internal n0) c1), tm))
  | AExitNone (k, x) ->
    if c.wx
    then let c1 = logst (ev_exit k None) (set_wx false c) in
         (match x with
          | XRaise n0 -> ((lift (raise_internal n0) c1), tm)
          | _ -> ((ONorm, c1), tm))
    else ((ONorm, c), tm)

(** val handle_a :
    bool -> bool -> ahandlers -> nat -> nat option -> state -> temps ->
    (oc * state) * temps **)

and handle_a fx sx hs e saved c tm =
  match hs with
  | AHNil -> (((ORaise e), (set_top saved c)), tm)
  | AHCons (pat, name, own, body, tl) ->
    if pat_matches pat (cls_of c e)
    then (match own with
          | Some t ->
            let c1 = set_co (bind_opt name e c.co) (set_top (Some e) c) in
            let (p, tm2) = exec_a fx sx body c1 (tset tm t (Some e)) in
            let (o, c2) = p in
            (match o with
             | OCrash -> ((OCrash, c2), tm2)
             | _ -> ((o, (set_top saved c2)), tm2))
          | None ->
            let (p, tm1) = exec_a fx sx body c tm in
            let (o, c1) = p in
            (match o with
             | OCrash -> ((OCrash, c1), tm1)
             | _ -> ((o, (set_top saved c1)), tm1)))
    else handle_a fx sx tl e saved c tm

(** val run_tmp :
    bool -> bool -> bool -> stmt -> eobj list -> nat option -> nat option ->
    oc * state **)

let run_tmp keep fx sx s h t b =
  fst
    (exec_a fx sx (fst (annot keep (desugar s) None O)) (init_state h t b)
      no_temps)

type reader =
| RBare of nat option
| RWith of nat option

(** val readers : astmt -> reader list **)

let rec readers = function
| AReraise ev -> (RBare ev) :: []
| ASeq (a0, b) -> app (readers a0) (readers b)
| ATry (body, hs, orelse) ->
  app (readers body) (app (readers orelse) (readers_h hs))
| AFinally (_, _, body, fnorm, fexc) ->
  app (readers body) (app (readers fnorm) (readers fexc))
| ALoop (_, body) -> readers body
| AWithScope (_, body) -> readers body
| AExitExc (_, _, ev) -> (RWith ev) :: []
| _ -> []

(** val readers_h : ahandlers -> reader list **)

and readers_h = function
| AHNil -> []
| AHCons (_, _, _, body, tl) -> app (readers body) (readers_h tl)

(** val resolve : bool -> stmt -> reader list **)

let resolve keep s =
  readers (fst (annot keep (desugar s) None O))
