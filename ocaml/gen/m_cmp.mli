
val xorb : bool -> bool -> bool

val negb : bool -> bool

type nat =
| O
| S of nat

type ('a, 'b) sum =
| Inl of 'a
| Inr of 'b

val fst : ('a1 * 'a2) -> 'a1

val snd : ('a1 * 'a2) -> 'a2

val length : 'a1 list -> nat

val app : 'a1 list -> 'a1 list -> 'a1 list

type comparison =
| Eq
| Lt
| Gt

val compOpp : comparison -> comparison

type positive =
| XI of positive
| XO of positive
| XH

type n =
| N0
| Npos of positive

type z =
| Z0
| Zpos of positive
| Zneg of positive

val eqb : bool -> bool -> bool

module Nat :
 sig
  val eqb : nat -> nat -> bool
 end

module Pos :
 sig
  val succ : positive -> positive

  val compare_cont : comparison -> positive -> positive -> comparison

  val compare : positive -> positive -> comparison

  val eqb : positive -> positive -> bool

  val of_succ_nat : nat -> positive
 end

module Z :
 sig
  val compare : z -> z -> comparison

  val ltb : z -> z -> bool

  val eqb : z -> z -> bool

  val of_nat : nat -> z
 end

val hd : 'a1 -> 'a1 list -> 'a1

val tl : 'a1 list -> 'a1 list

val map : ('a1 -> 'a2) -> 'a1 list -> 'a2 list

val flat_map : ('a1 -> 'a2 list) -> 'a1 list -> 'a2 list

val fold_left : ('a1 -> 'a2 -> 'a1) -> 'a2 list -> 'a1 -> 'a1

val fold_right : ('a2 -> 'a1 -> 'a1) -> 'a1 -> 'a2 list -> 'a1

val existsb : ('a1 -> bool) -> 'a1 list -> bool

val forallb : ('a1 -> bool) -> 'a1 list -> bool

val ex_keep : (((((nat * n) * z) * z list) * z option) * positive) * bool

type val0 = z

type exn = z

type event =
| EvOp of z
| EvCmp of z * val0 * val0
| EvTruth of val0

type 'a outcome =
| OVal of 'a
| ORaise of exn
| OUndef

type operand = { o_id : z; o_log : bool; o_res : (val0, exn) sum }

val ev_of : operand -> event list

type cascade = operand * (z * operand) list

type code =
| CEnd
| CEval of nat * operand * code
| CCmp of z * nat * nat * code
| CIfTrue of code

val gen_cascade : nat -> (z * operand) list -> code

val gen_primary : cascade -> code

val upd : (nat -> val0 option) -> nat -> val0 -> nat -> val0 option

val ref_links :
  (z -> val0 -> val0 -> (val0, exn) sum) -> (val0 -> (bool, exn) sum) -> val0
  -> (z * operand) list -> event list -> event list * val0 outcome

val ref_cascade :
  (z -> val0 -> val0 -> (val0, exn) sum) -> (val0 -> (bool, exn) sum) ->
  cascade -> event list * val0 outcome

val exec :
  (z -> val0 -> val0 -> (val0, exn) sum) -> (val0 -> (bool, exn) sum) -> bool
  -> code -> (nat -> val0 option) -> val0 option -> event list -> event
  list * val0 outcome

val run_cascade :
  (z -> val0 -> val0 -> (val0, exn) sum) -> (val0 -> (bool, exn) sum) -> bool
  -> cascade -> event list * val0 outcome

type ckind =
| KTuple
| KList
| KSet

type member = { m_simple : bool; m_starred : bool; m_unhash : bool;
                m_op : operand }

type intest = { i_not : bool; i_lhs : operand; i_lhs_simple : bool;
                i_kind : ckind; i_members : member list }

type atom =
| ARef of nat
| AInl of operand

type texpr =
| TBool of bool
| TCmp of bool * atom * atom
| TOr of texpr * texpr
| TAnd of texpr * texpr
| TLet of nat * operand * texpr
| TGeneric of intest

val conds_from : bool -> nat -> member list -> texpr list

val lets_from : nat -> member list -> texpr -> texpr

val is_set : ckind -> bool

val flatten : bool -> intest -> texpr

val eval_members :
  member list -> event list -> event list * (val0 list, exn) sum

val contains :
  (val0 -> val0 -> bool) -> (val0 -> val0 -> bool) -> val0 -> val0 list ->
  bool

val ref_in :
  (val0 -> val0 -> bool) -> (val0 -> val0 -> bool) -> (val0 -> bool) -> exn
  -> intest -> event list * bool outcome

val eval_atom :
  (nat -> val0 option) -> atom -> event list -> event list * val0 outcome

val eval_t :
  (val0 -> val0 -> bool) -> (val0 -> val0 -> bool) -> (val0 -> bool) -> exn
  -> texpr -> (nat -> val0 option) -> event list -> event list * bool outcome

val run_flatten :
  (val0 -> val0 -> bool) -> (val0 -> val0 -> bool) -> (val0 -> bool) -> exn
  -> bool -> intest -> event list * bool outcome

type ty =
| TyInt
| TyEnum
| TyCOther
| TyObj

type key =
| KInt of z
| KChr of z
| KName of z
| KNone

type label = { l_key : key; l_val : z; l_ty : ty }

type sop =
| SVar of z list * bool * ty
| SLit of label
| SConst of z * label
| SOther of z * ty

type cop =
| CopEq
| CopNe
| CopOther

type cond =
| CCmpC of cop * sop * sop * bool
| CInStr of bool * sop * bool * z list
| COr of cond * cond
| CAnd of cond * cond
| CWrap of cond
| COther of z
| CSw of bool * sop * label list

val sop_ty : sop -> ty

val is_intlike : ty -> bool

val is_int : ty -> bool

val is_obj : ty -> bool

val zlist_eqb : z list -> z list -> bool

val sop_path : sop -> z list option

val is_common : sop -> sop -> bool

val as_label : sop -> label option

val ins_sorted : z -> z list -> z list

val sort_dedup : z list -> z list

val string_labels : bool -> z list -> label list

val extract : bool -> cond -> bool -> ((bool * sop) * label list) option

val extract_common :
  bool -> sop option -> cond -> bool -> ((bool * sop) * label list) option

val key_eqb : key -> key -> bool

val has_dup : key list -> label list -> bool

val try_expr : bool -> cond -> cond option

val xform : bool -> cond -> cond

type clause = { c_cond : cond; c_body : z }

type stmt =
| SIf of clause list * z option
| SSwitch of sop * (label list * z) list * z option

val collect :
  bool -> sop option -> clause list -> (sop option * (label list * z) list)
  option

val all_labels : (label list * z) list -> label list

val to_switch : bool -> clause list -> z option -> stmt option

val visit_if : bool -> clause list -> z option -> stmt

val eval_sop : (z list -> z) -> (z -> z) -> sop -> event list * z

val memv : z -> label list -> bool

val eval_cond :
  (z list -> z) -> (z -> z) -> (z -> bool) -> cond -> event list * bool

val exec_clauses :
  (z list -> z) -> (z -> z) -> (z -> bool) -> clause list -> z option ->
  event list * z option

val find_case : z -> (label list * z) list -> z option

val exec_stmt :
  (z list -> z) -> (z -> z) -> (z -> bool) -> stmt -> event list * z option

val nodupz : z list -> bool

val cond_valid : cond -> bool

val stmt_valid : stmt -> bool
