
type nat =
| O
| S of nat

(** val fst : ('a1 * 'a2) -> 'a1 **)

let fst = function
| (x, _) -> x

(** val snd : ('a1 * 'a2) -> 'a2 **)

let snd = function
| (_, y) -> y



type positive =
| XI of positive
| XO of positive
| XH

type n =
| N0
| Npos of positive

type z =
| Z0
| Zpos of positive
| Zneg of positive

module Pos =
 struct
  (** val succ : positive -> positive **)

  let rec succ = function
  | XI p -> XO (succ p)
  | XO p -> XI p
  | XH -> XO XH

  (** val add : positive -> positive -> positive **)

  let rec add x y =
    match x with
    | XI p ->
      (match y with
       | XI q -> XO (add_carry p q)
       | XO q -> XI (add p q)
       | XH -> XO (succ p))
    | XO p ->
      (match y with
       | XI q -> XI (add p q)
       | XO q -> XO (add p q)
       | XH -> XI p)
    | XH -> (match y with
             | XI q -> XO (succ q)
             | XO q -> XI q
             | XH -> XO XH)

  (** val add_carry : positive -> positive -> positive **)

  and add_carry x y =
    match x with
    | XI p ->
      (match y with
       | XI q -> XI (add_carry p q)
       | XO q -> XO (add_carry p q)
       | XH -> XI (succ p))
    | XO p ->
      (match y with
       | XI q -> XO (add_carry p q)
       | XO q -> XI (add p q)
       | XH -> XO (succ p))
    | XH ->
      (match y with
       | XI q -> XI (succ q)
       | XO q -> XO (succ q)
       | XH -> XI XH)

  (** val pred_double : positive -> positive **)

  let rec pred_double = function
  | XI p -> XI (XO p)
  | XO p -> XI (pred_double p)
  | XH -> XH

  (** val eqb : positive -> positive -> bool **)

  let rec eqb p q =
    match p with
    | XI p0 -> (match q with
                | XI q0 -> eqb p0 q0
                | _ -> false)
    | XO p0 -> (match q with
                | XO q0 -> eqb p0 q0
                | _ -> false)
    | XH -> (match q with
             | XH -> true
             | _ -> false)
 end

module Z =
 struct
  (** val double : z -> z **)

  let double = function
  | Z0 -> Z0
  | Zpos p -> Zpos (XO p)
  | Zneg p -> Zneg (XO p)

  (** val succ_double : z -> z **)

  let succ_double = function
  | Z0 -> Zpos XH
  | Zpos p -> Zpos (XI p)
  | Zneg p -> Zneg (Pos.pred_double p)

  (** val pred_double : z -> z **)

  let pred_double = function
  | Z0 -> Zneg XH
  | Zpos p -> Zpos (Pos.pred_double p)
  | Zneg p -> Zneg (XI p)

  (** val pos_sub : positive -> positive -> z **)

  let rec pos_sub x y =
    match x with
    | XI p ->
      (match y with
       | XI q -> double (pos_sub p q)
       | XO q -> succ_double (pos_sub p q)
       | XH -> Zpos (XO p))
    | XO p ->
      (match y with
       | XI q -> pred_double (pos_sub p q)
       | XO q -> double (pos_sub p q)
       | XH -> Zpos (Pos.pred_double p))
    | XH ->
      (match y with
       | XI q -> Zneg (XO q)
       | XO q -> Zneg (Pos.pred_double q)
       | XH -> Z0)

  (** val add : z -> z -> z **)

  let add x y =
    match x with
    | Z0 -> y
    | Zpos x' ->
      (match y with
       | Z0 -> x
       | Zpos y' -> Zpos (Pos.add x' y')
       | Zneg y' -> pos_sub x' y')
    | Zneg x' ->
      (match y with
       | Z0 -> x
       | Zpos y' -> pos_sub y' x'
       | Zneg y' -> Zneg (Pos.add x' y'))

  (** val eqb : z -> z -> bool **)

  let eqb x y =
    match x with
    | Z0 -> (match y with
             | Z0 -> true
             | _ -> false)
    | Zpos p -> (match y with
                 | Zpos q -> Pos.eqb p q
                 | _ -> false)
    | Zneg p -> (match y with
                 | Zneg q -> Pos.eqb p q
                 | _ -> false)
 end

(** val ex_keep :
    (((((nat * n) * z) * z list) * z option) * positive) * bool **)

let ex_keep =
  ((((((O, N0), Z0), []), None), XH), true)

type name = z

type value = z

(** val dget : (z * 'a1) list -> z -> 'a1 option **)

let rec dget d k =
  match d with
  | [] -> None
  | p :: r -> let (k', v) = p in if Z.eqb k' k then Some v else dget r k

(** val dset : (z * 'a1) list -> z -> 'a1 -> (z * 'a1) list **)

let dset d k v =
  (k, v) :: d

(** val ddel : (z * 'a1) list -> z -> (z * 'a1) list **)

let rec ddel d k =
  match d with
  | [] -> []
  | p :: r ->
    let (k', v) = p in if Z.eqb k' k then ddel r k else (k', v) :: (ddel r k)

type world = { moddict : (name * value) list; builtins : (name * value) list;
               mod_version : z; next_version : z;
               sites : (z * (z * value option)) list }

(** val w0 : world **)

let w0 =
  { moddict = []; builtins = []; mod_version = (Zpos XH); next_version =
    (Zpos (XO XH)); sites = [] }

type op =
| SetMod of name * value
| DelMod of name
| SetBuiltin of name * value
| DelBuiltin of name
| Lookup of z

type result =
| Found of value
| NameError

(** val site_get : world -> z -> z * value option **)

let site_get w i =
  match dget w.sites i with
  | Some c -> c
  | None -> (Z0, None)

(** val builtin_lookup : world -> name -> result **)

let builtin_lookup w k =
  match dget w.builtins k with
  | Some v -> Found v
  | None -> NameError

(** val bump : world -> (name * value) list -> world **)

let bump w d =
  { moddict = d; builtins = w.builtins; mod_version = w.next_version;
    next_version = (Z.add w.next_version (Zpos XH)); sites = w.sites }

(** val bump_b : world -> (name * value) list -> world **)

let bump_b w b =
  { moddict = w.moddict; builtins = b; mod_version = w.mod_version;
    next_version = (Z.add w.next_version (Zpos XH)); sites = w.sites }

(** val with_sites : world -> (z * (z * value option)) list -> world **)

let with_sites w s =
  { moddict = w.moddict; builtins = w.builtins; mod_version = w.mod_version;
    next_version = w.next_version; sites = s }

(** val cache_hit : world -> z -> bool **)

let cache_hit w i =
  Z.eqb (fst (site_get w i)) w.mod_version

(** val lookup_cached_result : world -> z -> name -> result **)

let lookup_cached_result w i k =
  if cache_hit w i
  then (match snd (site_get w i) with
        | Some v -> Found v
        | None -> builtin_lookup w k)
  else (match dget w.moddict k with
        | Some v -> Found v
        | None -> builtin_lookup w k)

(** val lookup_cached_world : world -> z -> name -> world **)

let lookup_cached_world w i k =
  if cache_hit w i
  then w
  else with_sites w (dset w.sites i (w.mod_version, (dget w.moddict k)))

(** val lookup_uncached : world -> name -> result **)

let lookup_uncached w k =
  match dget w.moddict k with
  | Some v -> Found v
  | None -> builtin_lookup w k

(** val step : bool -> (z -> name) -> world -> op -> world * result option **)

let step cached nm w = function
| SetMod (k, v) -> ((bump w (dset w.moddict k v)), None)
| DelMod k ->
  ((match dget w.moddict k with
    | Some _ -> bump w (ddel w.moddict k)
    | None -> w), None)
| SetBuiltin (k, v) -> ((bump_b w (dset w.builtins k v)), None)
| DelBuiltin k ->
  ((match dget w.builtins k with
    | Some _ -> bump_b w (ddel w.builtins k)
    | None -> w), None)
| Lookup i ->
  if cached
  then ((lookup_cached_world w i (nm i)), (Some
         (lookup_cached_result w i (nm i))))
  else (w, (Some (lookup_uncached w (nm i))))

(** val run : bool -> (z -> name) -> world -> op list -> result list **)

let rec run cached nm w = function
| [] -> []
| o :: r ->
  (match snd (step cached nm w o) with
   | Some x -> x :: (run cached nm (fst (step cached nm w o)) r)
   | None -> run cached nm (fst (step cached nm w o)) r)

(** val nm_of : (z * name) list -> z -> name **)

let nm_of l i =
  match dget l i with
  | Some k -> k
  | None -> Z0
