
(** val negb : bool -> bool **)

let negb = function
| true -> false
| false -> true

type nat =
| O
| S of nat

(** val length : 'a1 list -> nat **)

let rec length = function
| [] -> O
| _ :: l' -> S (length l')

(** val app : 'a1 list -> 'a1 list -> 'a1 list **)

let rec app l m =
  match l with
  | [] -> m
  | a :: l1 -> a :: (app l1 m)

type comparison =
| Eq
| Lt
| Gt

(** val compOpp : comparison -> comparison **)

let compOpp = function
| Eq -> Eq
| Lt -> Gt
| Gt -> Lt

module Coq__1 = struct
 (** val add : nat -> nat -> nat **)
 let rec add n0 m =
   match n0 with
   | O -> m
   | S p -> S (add p m)
end
include Coq__1

type positive =
| XI of positive
| XO of positive
| XH

type n =
| N0
| Npos of positive

type z =
| Z0
| Zpos of positive
| Zneg of positive

module Pos =
 struct
  (** val succ : positive -> positive **)

  let rec succ = function
  | XI p -> XO (succ p)
  | XO p -> XI p
  | XH -> XO XH

  (** val add : positive -> positive -> positive **)

  let rec add x y =
    match x with
    | XI p ->
      (match y with
       | XI q -> XO (add_carry p q)
       | XO q -> XI (add p q)
       | XH -> XO (succ p))
    | XO p ->
      (match y with
       | XI q -> XI (add p q)
       | XO q -> XO (add p q)
       | XH -> XI p)
    | XH -> (match y with
             | XI q -> XO (succ q)
             | XO q -> XI q
             | XH -> XO XH)

  (** val add_carry : positive -> positive -> positive **)

  and add_carry x y =
    match x with
    | XI p ->
      (match y with
       | XI q -> XI (add_carry p q)
       | XO q -> XO (add_carry p q)
       | XH -> XI (succ p))
    | XO p ->
      (match y with
       | XI q -> XO (add_carry p q)
       | XO q -> XI (add p q)
       | XH -> XO (succ p))
    | XH ->
      (match y with
       | XI q -> XI (succ q)
       | XO q -> XO (succ q)
       | XH -> XI XH)

  (** val pred_double : positive -> positive **)

  let rec pred_double = function
  | XI p -> XI (XO p)
  | XO p -> XI (pred_double p)
  | XH -> XH

  (** val pred_N : positive -> n **)

  let pred_N = function
  | XI p -> Npos (XO p)
  | XO p -> Npos (pred_double p)
  | XH -> N0

  (** val mul : positive -> positive -> positive **)

  let rec mul x y =
    match x with
    | XI p -> add y (XO (mul p y))
    | XO p -> XO (mul p y)
    | XH -> y

  (** val iter : ('a1 -> 'a1) -> 'a1 -> positive -> 'a1 **)

  let rec iter f x = function
  | XI n' -> f (iter f (iter f x n') n')
  | XO n' -> iter f (iter f x n') n'
  | XH -> f x

  (** val div2 : positive -> positive **)

  let div2 = function
  | XI p0 -> p0
  | XO p0 -> p0
  | XH -> XH

  (** val div2_up : positive -> positive **)

  let div2_up = function
  | XI p0 -> succ p0
  | XO p0 -> p0
  | XH -> XH

  (** val size : positive -> positive **)

  let rec size = function
  | XI p0 -> succ (size p0)
  | XO p0 -> succ (size p0)
  | XH -> XH

  (** val compare_cont : comparison -> positive -> positive -> comparison **)

  let rec compare_cont r x y =
    match x with
    | XI p ->
      (match y with
       | XI q -> compare_cont r p q
       | XO q -> compare_cont Gt p q
       | XH -> Gt)
    | XO p ->
      (match y with
       | XI q -> compare_cont Lt p q
       | XO q -> compare_cont r p q
       | XH -> Gt)
    | XH -> (match y with
             | XH -> r
             | _ -> Lt)

  (** val compare : positive -> positive -> comparison **)

  let compare =
    compare_cont Eq

  (** val eqb : positive -> positive -> bool **)

  let rec eqb p q =
    match p with
    | XI p0 -> (match q with
                | XI q0 -> eqb p0 q0
                | _ -> false)
    | XO p0 -> (match q with
                | XO q0 -> eqb p0 q0
                | _ -> false)
    | XH -> (match q with
             | XH -> true
             | _ -> false)

  (** val coq_Nsucc_double : n -> n **)

  let coq_Nsucc_double = function
  | N0 -> Npos XH
  | Npos p -> Npos (XI p)

  (** val coq_Ndouble : n -> n **)

  let coq_Ndouble = function
  | N0 -> N0
  | Npos p -> Npos (XO p)

  (** val coq_lor : positive -> positive -> positive **)

  let rec coq_lor p q =
    match p with
    | XI p0 ->
      (match q with
       | XI q0 -> XI (coq_lor p0 q0)
       | XO q0 -> XI (coq_lor p0 q0)
       | XH -> p)
    | XO p0 ->
      (match q with
       | XI q0 -> XI (coq_lor p0 q0)
       | XO q0 -> XO (coq_lor p0 q0)
       | XH -> XI p0)
    | XH -> (match q with
             | XO q0 -> XI q0
             | _ -> q)

  (** val coq_land : positive -> positive -> n **)

  let rec coq_land p q =
    match p with
    | XI p0 ->
      (match q with
       | XI q0 -> coq_Nsucc_double (coq_land p0 q0)
       | XO q0 -> coq_Ndouble (coq_land p0 q0)
       | XH -> Npos XH)
    | XO p0 ->
      (match q with
       | XI q0 -> coq_Ndouble (coq_land p0 q0)
       | XO q0 -> coq_Ndouble (coq_land p0 q0)
       | XH -> N0)
    | XH -> (match q with
             | XO _ -> N0
             | _ -> Npos XH)

  (** val ldiff : positive -> positive -> n **)

  let rec ldiff p q =
    match p with
    | XI p0 ->
      (match q with
       | XI q0 -> coq_Ndouble (ldiff p0 q0)
       | XO q0 -> coq_Nsucc_double (ldiff p0 q0)
       | XH -> Npos (XO p0))
    | XO p0 ->
      (match q with
       | XI q0 -> coq_Ndouble (ldiff p0 q0)
       | XO q0 -> coq_Ndouble (ldiff p0 q0)
       | XH -> Npos p)
    | XH -> (match q with
             | XO _ -> Npos XH
             | _ -> N0)

  (** val coq_lxor : positive -> positive -> n **)

  let rec coq_lxor p q =
    match p with
    | XI p0 ->
      (match q with
       | XI q0 -> coq_Ndouble (coq_lxor p0 q0)
       | XO q0 -> coq_Nsucc_double (coq_lxor p0 q0)
       | XH -> Npos (XO p0))
    | XO p0 ->
      (match q with
       | XI q0 -> coq_Nsucc_double (coq_lxor p0 q0)
       | XO q0 -> coq_Ndouble (coq_lxor p0 q0)
       | XH -> Npos (XI p0))
    | XH ->
      (match q with
       | XI q0 -> Npos (XO q0)
       | XO q0 -> Npos (XI q0)
       | XH -> N0)

  (** val iter_op : ('a1 -> 'a1 -> 'a1) -> positive -> 'a1 -> 'a1 **)

  let rec iter_op op p a =
    match p with
    | XI p0 -> op a (iter_op op p0 (op a a))
    | XO p0 -> iter_op op p0 (op a a)
    | XH -> a

  (** val to_nat : positive -> nat **)

  let to_nat x =
    iter_op Coq__1.add x (S O)

  (** val of_succ_nat : nat -> positive **)

  let rec of_succ_nat = function
  | O -> XH
  | S x -> succ (of_succ_nat x)
 end

module N =
 struct
  (** val succ_pos : n -> positive **)

  let succ_pos = function
  | N0 -> XH
  | Npos p -> Pos.succ p

  (** val coq_lor : n -> n -> n **)

  let coq_lor n0 m =
    match n0 with
    | N0 -> m
    | Npos p -> (match m with
                 | N0 -> n0
                 | Npos q -> Npos (Pos.coq_lor p q))

  (** val coq_land : n -> n -> n **)

  let coq_land n0 m =
    match n0 with
    | N0 -> N0
    | Npos p -> (match m with
                 | N0 -> N0
                 | Npos q -> Pos.coq_land p q)

  (** val ldiff : n -> n -> n **)

  let ldiff n0 m =
    match n0 with
    | N0 -> N0
    | Npos p -> (match m with
                 | N0 -> n0
                 | Npos q -> Pos.ldiff p q)

  (** val coq_lxor : n -> n -> n **)

  let coq_lxor n0 m =
    match n0 with
    | N0 -> m
    | Npos p -> (match m with
                 | N0 -> n0
                 | Npos q -> Pos.coq_lxor p q)
 end

module Z =
 struct
  (** val double : z -> z **)

  let double = function
  | Z0 -> Z0
  | Zpos p -> Zpos (XO p)
  | Zneg p -> Zneg (XO p)

  (** val succ_double : z -> z **)

  let succ_double = function
  | Z0 -> Zpos XH
  | Zpos p -> Zpos (XI p)
  | Zneg p -> Zneg (Pos.pred_double p)

  (** val pred_double : z -> z **)

  let pred_double = function
  | Z0 -> Zneg XH
  | Zpos p -> Zpos (Pos.pred_double p)
  | Zneg p -> Zneg (XI p)

  (** val pos_sub : positive -> positive -> z **)

  let rec pos_sub x y =
    match x with
    | XI p ->
      (match y with
       | XI q -> double (pos_sub p q)
       | XO q -> succ_double (pos_sub p q)
       | XH -> Zpos (XO p))
    | XO p ->
      (match y with
       | XI q -> pred_double (pos_sub p q)
       | XO q -> double (pos_sub p q)
       | XH -> Zpos (Pos.pred_double p))
    | XH ->
      (match y with
       | XI q -> Zneg (XO q)
       | XO q -> Zneg (Pos.pred_double q)
       | XH -> Z0)

  (** val add : z -> z -> z **)

  let add x y =
    match x with
    | Z0 -> y
    | Zpos x' ->
      (match y with
       | Z0 -> x
       | Zpos y' -> Zpos (Pos.add x' y')
       | Zneg y' -> pos_sub x' y')
    | Zneg x' ->
      (match y with
       | Z0 -> x
       | Zpos y' -> pos_sub y' x'
       | Zneg y' -> Zneg (Pos.add x' y'))

  (** val opp : z -> z **)

  let opp = function
  | Z0 -> Z0
  | Zpos x0 -> Zneg x0
  | Zneg x0 -> Zpos x0

  (** val pred : z -> z **)

  let pred x =
    add x (Zneg XH)

  (** val sub : z -> z -> z **)

  let sub m n0 =
    add m (opp n0)

  (** val mul : z -> z -> z **)

  let mul x y =
    match x with
    | Z0 -> Z0
    | Zpos x' ->
      (match y with
       | Z0 -> Z0
       | Zpos y' -> Zpos (Pos.mul x' y')
       | Zneg y' -> Zneg (Pos.mul x' y'))
    | Zneg x' ->
      (match y with
       | Z0 -> Z0
       | Zpos y' -> Zneg (Pos.mul x' y')
       | Zneg y' -> Zpos (Pos.mul x' y'))

  (** val pow_pos : z -> positive -> z **)

  let pow_pos z0 =
    Pos.iter (mul z0) (Zpos XH)

  (** val pow : z -> z -> z **)

  let pow x = function
  | Z0 -> Zpos XH
  | Zpos p -> pow_pos x p
  | Zneg _ -> Z0

  (** val compare : z -> z -> comparison **)

  let compare x y =
    match x with
    | Z0 -> (match y with
             | Z0 -> Eq
             | Zpos _ -> Lt
             | Zneg _ -> Gt)
    | Zpos x' -> (match y with
                  | Zpos y' -> Pos.compare x' y'
                  | _ -> Gt)
    | Zneg x' ->
      (match y with
       | Zneg y' -> compOpp (Pos.compare x' y')
       | _ -> Lt)

  (** val leb : z -> z -> bool **)

  let leb x y =
    match compare x y with
    | Gt -> false
    | _ -> true

  (** val ltb : z -> z -> bool **)

  let ltb x y =
    match compare x y with
    | Lt -> true
    | _ -> false

  (** val gtb : z -> z -> bool **)

  let gtb x y =
    match compare x y with
    | Gt -> true
    | _ -> false

  (** val eqb : z -> z -> bool **)

  let eqb x y =
    match x with
    | Z0 -> (match y with
             | Z0 -> true
             | _ -> false)
    | Zpos p -> (match y with
                 | Zpos q -> Pos.eqb p q
                 | _ -> false)
    | Zneg p -> (match y with
                 | Zneg q -> Pos.eqb p q
                 | _ -> false)

  (** val max : z -> z -> z **)

  let max n0 m =
    match compare n0 m with
    | Lt -> m
    | _ -> n0

  (** val abs : z -> z **)

  let abs = function
  | Zneg p -> Zpos p
  | x -> x

  (** val to_nat : z -> nat **)

  let to_nat = function
  | Zpos p -> Pos.to_nat p
  | _ -> O

  (** val of_nat : nat -> z **)

  let of_nat = function
  | O -> Z0
  | S n1 -> Zpos (Pos.of_succ_nat n1)

  (** val of_N : n -> z **)

  let of_N = function
  | N0 -> Z0
  | Npos p -> Zpos p

  (** val pos_div_eucl : positive -> z -> z * z **)

  let rec pos_div_eucl a b =
    match a with
    | XI a' ->
      let (q, r) = pos_div_eucl a' b in
      let r' = add (mul (Zpos (XO XH)) r) (Zpos XH) in
      if ltb r' b
      then ((mul (Zpos (XO XH)) q), r')
      else ((add (mul (Zpos (XO XH)) q) (Zpos XH)), (sub r' b))
    | XO a' ->
      let (q, r) = pos_div_eucl a' b in
      let r' = mul (Zpos (XO XH)) r in
      if ltb r' b
      then ((mul (Zpos (XO XH)) q), r')
      else ((add (mul (Zpos (XO XH)) q) (Zpos XH)), (sub r' b))
    | XH -> if leb (Zpos (XO XH)) b then (Z0, (Zpos XH)) else ((Zpos XH), Z0)

  (** val div_eucl : z -> z -> z * z **)

  let div_eucl a b =
    match a with
    | Z0 -> (Z0, Z0)
    | Zpos a' ->
      (match b with
       | Z0 -> (Z0, a)
       | Zpos _ -> pos_div_eucl a' b
       | Zneg b' ->
         let (q, r) = pos_div_eucl a' (Zpos b') in
         (match r with
          | Z0 -> ((opp q), Z0)
          | _ -> ((opp (add q (Zpos XH))), (add b r))))
    | Zneg a' ->
      (match b with
       | Z0 -> (Z0, a)
       | Zpos _ ->
         let (q, r) = pos_div_eucl a' b in
         (match r with
          | Z0 -> ((opp q), Z0)
          | _ -> ((opp (add q (Zpos XH))), (sub b r)))
       | Zneg b' -> let (q, r) = pos_div_eucl a' (Zpos b') in (q, (opp r)))

  (** val div : z -> z -> z **)

  let div a b =
    let (q, _) = div_eucl a b in q

  (** val modulo : z -> z -> z **)

  let modulo a b =
    let (_, r) = div_eucl a b in r

  (** val div2 : z -> z **)

  let div2 = function
  | Z0 -> Z0
  | Zpos p -> (match p with
               | XH -> Z0
               | _ -> Zpos (Pos.div2 p))
  | Zneg p -> Zneg (Pos.div2_up p)

  (** val log2 : z -> z **)

  let log2 = function
  | Zpos p0 ->
    (match p0 with
     | XI p -> Zpos (Pos.size p)
     | XO p -> Zpos (Pos.size p)
     | XH -> Z0)
  | _ -> Z0

  (** val shiftl : z -> z -> z **)

  let shiftl a = function
  | Z0 -> a
  | Zpos p -> Pos.iter (mul (Zpos (XO XH))) a p
  | Zneg p -> Pos.iter div2 a p

  (** val shiftr : z -> z -> z **)

  let shiftr a n0 =
    shiftl a (opp n0)

  (** val coq_lor : z -> z -> z **)

  let coq_lor a b =
    match a with
    | Z0 -> b
    | Zpos a0 ->
      (match b with
       | Z0 -> a
       | Zpos b0 -> Zpos (Pos.coq_lor a0 b0)
       | Zneg b0 -> Zneg (N.succ_pos (N.ldiff (Pos.pred_N b0) (Npos a0))))
    | Zneg a0 ->
      (match b with
       | Z0 -> a
       | Zpos b0 -> Zneg (N.succ_pos (N.ldiff (Pos.pred_N a0) (Npos b0)))
       | Zneg b0 ->
         Zneg (N.succ_pos (N.coq_land (Pos.pred_N a0) (Pos.pred_N b0))))

  (** val coq_land : z -> z -> z **)

  let coq_land a b =
    match a with
    | Z0 -> Z0
    | Zpos a0 ->
      (match b with
       | Z0 -> Z0
       | Zpos b0 -> of_N (Pos.coq_land a0 b0)
       | Zneg b0 -> of_N (N.ldiff (Npos a0) (Pos.pred_N b0)))
    | Zneg a0 ->
      (match b with
       | Z0 -> Z0
       | Zpos b0 -> of_N (N.ldiff (Npos b0) (Pos.pred_N a0))
       | Zneg b0 ->
         Zneg (N.succ_pos (N.coq_lor (Pos.pred_N a0) (Pos.pred_N b0))))

  (** val coq_lxor : z -> z -> z **)

  let coq_lxor a b =
    match a with
    | Z0 -> b
    | Zpos a0 ->
      (match b with
       | Z0 -> a
       | Zpos b0 -> of_N (Pos.coq_lxor a0 b0)
       | Zneg b0 -> Zneg (N.succ_pos (N.coq_lxor (Npos a0) (Pos.pred_N b0))))
    | Zneg a0 ->
      (match b with
       | Z0 -> a
       | Zpos b0 -> Zneg (N.succ_pos (N.coq_lxor (Pos.pred_N a0) (Npos b0)))
       | Zneg b0 -> of_N (N.coq_lxor (Pos.pred_N a0) (Pos.pred_N b0)))

  (** val ones : z -> z **)

  let ones n0 =
    pred (shiftl (Zpos XH) n0)
 end

(** val last : 'a1 list -> 'a1 -> 'a1 **)

let rec last l d =
  match l with
  | [] -> d
  | a :: l0 -> (match l0 with
                | [] -> a
                | _ :: _ -> last l0 d)

(** val removelast : 'a1 list -> 'a1 list **)

let rec removelast = function
| [] -> []
| a :: l0 -> (match l0 with
              | [] -> []
              | _ :: _ -> a :: (removelast l0))

(** val rev : 'a1 list -> 'a1 list **)

let rec rev = function
| [] -> []
| x :: l' -> app (rev l') (x :: [])

(** val map : ('a1 -> 'a2) -> 'a1 list -> 'a2 list **)

let rec map f = function
| [] -> []
| a :: t -> (f a) :: (map f t)

(** val fold_left : ('a1 -> 'a2 -> 'a1) -> 'a2 list -> 'a1 -> 'a1 **)

let rec fold_left f l a0 =
  match l with
  | [] -> a0
  | b :: t -> fold_left f t (f a0 b)

(** val existsb : ('a1 -> bool) -> 'a1 list -> bool **)

let rec existsb f = function
| [] -> false
| a :: l0 -> (||) (f a) (existsb f l0)

(** val forallb : ('a1 -> bool) -> 'a1 list -> bool **)

let rec forallb f = function
| [] -> true
| a :: l0 -> (&&) (f a) (forallb f l0)

(** val filter : ('a1 -> bool) -> 'a1 list -> 'a1 list **)

let rec filter f = function
| [] -> []
| x :: l0 -> if f x then x :: (filter f l0) else filter f l0

(** val skipn : nat -> 'a1 list -> 'a1 list **)

let rec skipn n0 l =
  match n0 with
  | O -> l
  | S n1 -> (match l with
             | [] -> []
             | _ :: l0 -> skipn n1 l0)

(** val ex_keep :
    (((((nat * n) * z) * z list) * z option) * positive) * bool **)

let ex_keep =
  ((((((O, N0), Z0), []), None), XH), true)

(** val wrap : z -> bool -> z -> z **)

let wrap w s v =
  if s
  then Z.sub
         (Z.modulo (Z.add v (Z.pow (Zpos (XO XH)) (Z.sub w (Zpos XH))))
           (Z.pow (Zpos (XO XH)) w))
         (Z.pow (Zpos (XO XH)) (Z.sub w (Zpos XH)))
  else Z.modulo v (Z.pow (Zpos (XO XH)) w)

(** val b2z : bool -> z **)

let b2z = function
| true -> Zpos XH
| false -> Z0

(** val ch_us : z **)

let ch_us =
  Zpos (XI (XI (XI (XI (XI (XO XH))))))

(** val ch_minus : z **)

let ch_minus =
  Zpos (XI (XO (XI (XI (XO XH)))))

(** val ch_plus : z **)

let ch_plus =
  Zpos (XI (XI (XO (XI (XO XH)))))

(** val ch_0 : z **)

let ch_0 =
  Zpos (XO (XO (XO (XO (XI XH)))))

(** val is_x : z -> bool **)

let is_x c =
  (||) (Z.eqb c (Zpos (XO (XO (XO (XI (XI (XI XH))))))))
    (Z.eqb c (Zpos (XO (XO (XO (XI (XI (XO XH))))))))

(** val is_o : z -> bool **)

let is_o c =
  (||) (Z.eqb c (Zpos (XI (XI (XI (XI (XO (XI XH))))))))
    (Z.eqb c (Zpos (XI (XI (XI (XI (XO (XO XH))))))))

(** val is_b : z -> bool **)

let is_b c =
  (||) (Z.eqb c (Zpos (XO (XI (XO (XO (XO (XI XH))))))))
    (Z.eqb c (Zpos (XO (XI (XO (XO (XO (XO XH))))))))

(** val is_l : z -> bool **)

let is_l c =
  (||) (Z.eqb c (Zpos (XO (XO (XI (XI (XO (XI XH))))))))
    (Z.eqb c (Zpos (XO (XO (XI (XI (XO (XO XH))))))))

(** val is_space : z -> bool **)

let is_space c =
  (||) (Z.eqb c (Zpos (XO (XO (XO (XO (XO XH)))))))
    ((&&) (Z.leb (Zpos (XI (XO (XO XH)))) c)
      (Z.leb c (Zpos (XI (XO (XI XH))))))

(** val digit_val : z -> z **)

let digit_val c =
  if (&&) (Z.leb (Zpos (XO (XO (XO (XO (XI XH)))))) c)
       (Z.leb c (Zpos (XI (XO (XO (XI (XI XH)))))))
  then Z.sub c (Zpos (XO (XO (XO (XO (XI XH))))))
  else if (&&) (Z.leb (Zpos (XI (XO (XO (XO (XO (XI XH))))))) c)
            (Z.leb c (Zpos (XO (XI (XO (XI (XI (XI XH))))))))
       then Z.sub c (Zpos (XI (XI (XI (XO (XI (XO XH)))))))
       else if (&&) (Z.leb (Zpos (XI (XO (XO (XO (XO (XO XH))))))) c)
                 (Z.leb c (Zpos (XO (XI (XO (XI (XI (XO XH))))))))
            then Z.sub c (Zpos (XI (XI (XI (XO (XI XH))))))
            else Zpos (XI (XO (XI (XO (XO XH)))))

(** val drop_space : z list -> z list **)

let rec drop_space s = match s with
| [] -> []
| c :: t -> if is_space c then drop_space t else s

(** val scan : z -> bool -> z -> z -> z list -> ((z * z) * z list) option **)

let rec scan base prev_us acc nd s = match s with
| [] -> if prev_us then None else Some ((acc, nd), [])
| c :: t ->
  if Z.eqb c ch_us
  then if prev_us then None else scan base true acc nd t
  else if Z.ltb (digit_val c) base
       then scan base false (Z.add (Z.mul acc base) (digit_val c))
              (Z.add nd (Zpos XH)) t
       else if prev_us then None else Some ((acc, nd), s)

(** val max_str_digits : z **)

let max_str_digits =
  Zpos (XO (XO (XI (XI (XO (XO (XI (XI (XO (XO (XO (XO XH))))))))))))

(** val is_pow2_base : z -> bool **)

let is_pow2_base b =
  (||)
    ((||)
      ((||) ((||) (Z.eqb b (Zpos (XO XH))) (Z.eqb b (Zpos (XO (XO XH)))))
        (Z.eqb b (Zpos (XO (XO (XO XH))))))
      (Z.eqb b (Zpos (XO (XO (XO (XO XH)))))))
    (Z.eqb b (Zpos (XO (XO (XO (XO (XO XH)))))))

(** val py_int : z -> z list -> z option **)

let py_int base s0 =
  let s1 = drop_space s0 in
  let neg = match s1 with
            | [] -> false
            | c :: _ -> Z.eqb c ch_minus in
  let s2 =
    match s1 with
    | [] -> s1
    | c :: t -> if (||) (Z.eqb c ch_minus) (Z.eqb c ch_plus) then t else s1
  in
  let b =
    if Z.eqb base Z0
    then (match s2 with
          | [] -> Zpos (XO (XI (XO XH)))
          | c0 :: l ->
            (match l with
             | [] -> Zpos (XO (XI (XO XH)))
             | c1 :: _ ->
               if Z.eqb c0 ch_0
               then if is_x c1
                    then Zpos (XO (XO (XO (XO XH))))
                    else if is_o c1
                         then Zpos (XO (XO (XO XH)))
                         else if is_b c1
                              then Zpos (XO XH)
                              else Zpos (XO (XI (XO XH)))
               else Zpos (XO (XI (XO XH)))))
    else base
  in
  let old_octal =
    (&&) (Z.eqb base Z0)
      (match s2 with
       | [] -> false
       | c0 :: l ->
         (match l with
          | [] -> Z.eqb c0 ch_0
          | c1 :: _ ->
            (&&) (Z.eqb c0 ch_0)
              (negb ((||) ((||) (is_x c1) (is_o c1)) (is_b c1)))))
  in
  let s3 =
    match s2 with
    | [] -> s2
    | c0 :: l ->
      (match l with
       | [] -> s2
       | c1 :: t ->
         if (&&) (Z.eqb c0 ch_0)
              ((||)
                ((||)
                  ((&&) (Z.eqb b (Zpos (XO (XO (XO (XO XH)))))) (is_x c1))
                  ((&&) (Z.eqb b (Zpos (XO (XO (XO XH))))) (is_o c1)))
                ((&&) (Z.eqb b (Zpos (XO XH))) (is_b c1)))
         then (match t with
               | [] -> t
               | u :: t' -> if Z.eqb u ch_us then t' else t)
         else s2)
  in
  (match s3 with
   | [] -> None
   | c :: _ ->
     if Z.eqb c ch_us
     then None
     else (match scan b false Z0 Z0 s3 with
           | Some p ->
             let (p0, rest) = p in
             let (v, nd) = p0 in
             if Z.eqb nd Z0
             then None
             else if negb (forallb is_space rest)
                  then None
                  else if (&&) (negb (is_pow2_base b))
                            (Z.ltb max_str_digits nd)
                       then None
                       else if (&&) old_octal (negb (Z.eqb v Z0))
                            then None
                            else Some (if neg then Z.opp v else v)
           | None -> None))

(** val strip_L : z list -> z list **)

let strip_L s =
  if is_l (last s Z0) then removelast s else s

(** val str_to_number : z list -> z option **)

let str_to_number s =
  let neg = match s with
            | [] -> false
            | c :: _ -> Z.eqb c ch_minus in
  let v = match s with
          | [] -> s
          | c :: t -> if Z.eqb c ch_minus then t else s
  in
  let r =
    match v with
    | [] -> py_int Z0 v
    | c0 :: l ->
      (match l with
       | [] -> py_int Z0 v
       | c1 :: rest ->
         if Z.eqb c0 ch_0
         then if is_x c1
              then py_int (Zpos (XO (XO (XO (XO XH)))))
                     (skipn (S (S O)) (strip_L v))
              else if is_o c1
                   then py_int (Zpos (XO (XO (XO XH)))) rest
                   else if is_b c1
                        then py_int (Zpos (XO XH)) rest
                        else py_int (Zpos (XO (XO (XO XH)))) v
         else py_int Z0 v)
  in
  (match r with
   | Some x -> Some (if neg then Z.opp x else x)
   | None -> None)

(** val strip_us : z list -> z list **)

let strip_us s =
  filter (fun c -> negb (Z.eqb c ch_us)) s

(** val is_dec : z -> bool **)

let is_dec c =
  (&&) (Z.leb (Zpos (XO (XO (XO (XO (XI XH)))))) c)
    (Z.leb c (Zpos (XI (XO (XO (XI (XI XH)))))))

(** val is_nonzero_dec : z -> bool **)

let is_nonzero_dec c =
  (&&) (Z.leb (Zpos (XI (XO (XO (XO (XI XH)))))) c)
    (Z.leb c (Zpos (XI (XO (XO (XI (XI XH)))))))

(** val is_hexd : z -> bool **)

let is_hexd c =
  (||)
    ((||) (is_dec c)
      ((&&) (Z.leb (Zpos (XI (XO (XO (XO (XO (XI XH))))))) c)
        (Z.leb c (Zpos (XO (XI (XI (XO (XO (XI XH))))))))))
    ((&&) (Z.leb (Zpos (XI (XO (XO (XO (XO (XO XH))))))) c)
      (Z.leb c (Zpos (XO (XI (XI (XO (XO (XO XH)))))))))

(** val is_octd : z -> bool **)

let is_octd c =
  (&&) (Z.leb (Zpos (XO (XO (XO (XO (XI XH)))))) c)
    (Z.leb c (Zpos (XI (XI (XI (XO (XI XH)))))))

(** val is_bind : z -> bool **)

let is_bind c =
  (||) (Z.eqb c (Zpos (XO (XO (XO (XO (XI XH)))))))
    (Z.eqb c (Zpos (XI (XO (XO (XO (XI XH)))))))

(** val is_zero_ch : z -> bool **)

let is_zero_ch c =
  Z.eqb c (Zpos (XO (XO (XO (XO (XI XH))))))

(** val us_digits : (z -> bool) -> z list -> bool **)

let rec us_digits isd = function
| [] -> true
| c :: t ->
  if Z.eqb c ch_us
  then (match t with
        | [] -> false
        | d :: t' -> (&&) (isd d) (us_digits isd t'))
  else (&&) (isd c) (us_digits isd t)

(** val nonempty : z list -> bool **)

let nonempty = function
| [] -> false
| _ :: _ -> true

(** val lit_split : z list -> (z * z list) option **)

let lit_split s = match s with
| [] -> None
| c0 :: t ->
  if Z.eqb c0 ch_0
  then (match t with
        | [] -> Some ((Zpos (XO (XI (XO XH)))), s)
        | c1 :: u ->
          if is_x c1
          then if (&&) (nonempty u) (us_digits is_hexd u)
               then Some ((Zpos (XO (XO (XO (XO XH))))), u)
               else None
          else if is_o c1
               then if (&&) (nonempty u) (us_digits is_octd u)
                    then Some ((Zpos (XO (XO (XO XH)))), u)
                    else None
               else if is_b c1
                    then if (&&) (nonempty u) (us_digits is_bind u)
                         then Some ((Zpos (XO XH)), u)
                         else None
                    else if us_digits is_zero_ch t
                         then Some ((Zpos (XO (XI (XO XH)))), s)
                         else None)
  else if (&&) (is_nonzero_dec c0) (us_digits is_dec t)
       then Some ((Zpos (XO (XI (XO XH)))), s)
       else None

(** val eval_digits : z -> z list -> z **)

let eval_digits base s =
  fold_left (fun a c -> Z.add (Z.mul a base) (digit_val c)) s Z0

(** val python_int_literal : z list -> z option **)

let python_int_literal s =
  match lit_split s with
  | Some p -> let (b, d) = p in Some (eval_digits b (strip_us d))
  | None -> None

(** val literal_within_limit : z list -> bool **)

let literal_within_limit s =
  match lit_split s with
  | Some p ->
    let (b, d) = p in
    (||)
      ((||) (negb (Z.eqb b (Zpos (XO (XI (XO XH))))))
        (match d with
         | [] -> true
         | c :: _ -> Z.eqb c ch_0))
      (Z.leb (Z.of_nat (length (strip_us d))) max_str_digits)
  | None -> true

(** val signed_literal : z list -> z option **)

let signed_literal s = match s with
| [] -> None
| c :: t ->
  if Z.eqb c ch_minus
  then (match python_int_literal t with
        | Some v -> Some (Z.opp v)
        | None -> None)
  else python_int_literal s

(** val signed_within_limit : z list -> bool **)

let signed_within_limit s = match s with
| [] -> true
| c :: t ->
  if Z.eqb c ch_minus then literal_within_limit t else literal_within_limit s

(** val legacy_octal : z list -> bool **)

let legacy_octal = function
| [] -> false
| c0 :: l ->
  (match l with
   | [] -> false
   | c1 :: t -> (&&) (Z.eqb c0 ch_0) (forallb is_octd (c1 :: t)))

(** val digit_char : z -> z **)

let digit_char d =
  if Z.ltb d (Zpos (XO (XI (XO XH))))
  then Z.add (Zpos (XO (XO (XO (XO (XI XH)))))) d
  else Z.add (Zpos (XI (XI (XI (XO (XI (XO XH))))))) d

(** val digits_rev : nat -> z -> z -> z list **)

let rec digits_rev fuel b n0 =
  match fuel with
  | O -> []
  | S f ->
    if Z.leb n0 Z0
    then []
    else let (q, r) = Z.div_eucl n0 b in (digit_char r) :: (digits_rev f b q)

(** val digits_rev_pow2 : nat -> z -> z -> z list **)

let rec digits_rev_pow2 fuel k n0 =
  match fuel with
  | O -> []
  | S f ->
    if Z.leb n0 Z0
    then []
    else (digit_char (Z.coq_land n0 (Z.ones k))) :: (digits_rev_pow2 f k
                                                      (Z.shiftr n0 k))

(** val digit_fuel : z -> nat **)

let digit_fuel n0 =
  S (Z.to_nat (Z.log2 n0))

(** val to_digits : z -> z -> z list **)

let to_digits b n0 =
  rev (digits_rev (digit_fuel n0) b n0)

(** val to_digits_pow2 : z -> z -> z list **)

let to_digits_pow2 k n0 =
  rev (digits_rev_pow2 (digit_fuel n0) k n0)

(** val pow10_limit : z **)

let pow10_limit =
  Z.pow (Zpos (XO (XI (XO XH)))) max_str_digits

(** val py_str : z -> z list option **)

let py_str v =
  if Z.eqb v Z0
  then Some (ch_0 :: [])
  else if Z.leb pow10_limit (Z.abs v)
       then None
       else let d = to_digits (Zpos (XO (XI (XO XH)))) (Z.abs v) in
            Some (if Z.ltb v Z0 then ch_minus :: d else d)

(** val py_hex : z -> z list **)

let py_hex v =
  let d =
    if Z.eqb v Z0
    then ch_0 :: []
    else to_digits_pow2 (Zpos (XO (XO XH))) (Z.abs v)
  in
  app (if Z.ltb v Z0 then ch_minus :: [] else [])
    (app (ch_0 :: ((Zpos (XO (XO (XO (XI (XI (XI XH))))))) :: [])) d)

(** val int_const_text : bool -> z -> z list option **)

let int_const_text abs_threshold v =
  if Z.gtb (if abs_threshold then Z.abs v else v)
       (Z.pow (Zpos (XO (XI (XO XH)))) (Zpos (XI (XO (XI XH)))))
  then Some (strip_L (py_hex v))
  else (match py_str v with
        | Some s -> Some (strip_L s)
        | None -> None)

(** val negated_literal_text : bool -> z list -> z list option **)

let negated_literal_text repaired s =
  match str_to_number s with
  | Some v ->
    if (&&) repaired
         (Z.gtb (Z.abs (Z.opp v))
           (Z.pow (Zpos (XO XH)) (Zpos (XO (XO (XO (XO (XO (XO XH)))))))))
    then Some (py_hex (Z.opp v))
    else py_str (Z.opp v)
  | None -> None

(** val to_base32 : z -> z list **)

let to_base32 n0 =
  if Z.eqb n0 Z0
  then ch_0 :: []
  else app (if Z.ltb n0 Z0 then ch_minus :: [] else [])
         (to_digits_pow2 (Zpos (XI (XO XH))) (Z.abs n0))

(** val bit_length : z -> z **)

let bit_length n0 =
  if Z.eqb n0 Z0 then Z0 else Z.add (Z.log2 (Z.abs n0)) (Zpos XH)

(** val next_size : z -> z -> z **)

let next_size cur need =
  if Z.leb need cur
  then cur
  else if Z.leb need (Zpos (XO XH))
       then Z.max cur (Zpos (XO XH))
       else if Z.leb need (Zpos (XO (XO XH)))
            then Z.max cur (Zpos (XO (XO XH)))
            else Z.max cur (Zpos (XO (XO (XO XH))))

(** val c_array_bytes : z -> z -> z **)

let c_array_bytes cur n0 =
  next_size cur
    (Z.div (Z.add (bit_length n0) (Zpos (XO (XO (XO XH))))) (Zpos (XO (XO (XO
      XH)))))

type emitted =
| EmitC of z * z
| EmitBase32 of z list

(** val emit_num : z -> z list -> emitted option **)

let emit_num cur text =
  match str_to_number text with
  | Some n0 ->
    if Z.leb (bit_length n0) (Zpos (XI (XI (XI (XI (XI XH))))))
    then Some (EmitC ((c_array_bytes cur n0), n0))
    else Some (EmitBase32 (to_base32 n0))
  | None -> None

(** val decode_emitted : emitted -> z option **)

let decode_emitted = function
| EmitC (bytes, v) ->
  Some (wrap (Z.mul (Zpos (XO (XO (XO XH)))) bytes) true v)
| EmitBase32 t -> py_int (Zpos (XO (XO (XO (XO (XO XH)))))) t

(** val int_emission : bool -> z -> z -> z option **)

let int_emission abs_threshold cur v =
  match int_const_text abs_threshold v with
  | Some text ->
    (match emit_num cur text with
     | Some e -> decode_emitted e
     | None -> None)
  | None -> None

(** val int_const_key : bool -> z -> bool -> (z list * bool) option **)

let int_const_key abs_threshold v longness =
  match int_const_text abs_threshold v with
  | Some t -> Some (t, longness)
  | None -> None

type scalar =
| SNone
| SEllipsis
| SInt of z
| SBool of bool
| SFloat of z
| SStr of z list
| SBytes of z list

type pyclass =
| PcNone
| PcEllipsis
| PcInt
| PcBool
| PcFloat
| PcStr
| PcBytes

(** val class_of : scalar -> pyclass **)

let class_of = function
| SNone -> PcNone
| SEllipsis -> PcEllipsis
| SInt _ -> PcInt
| SBool _ -> PcBool
| SFloat _ -> PcFloat
| SStr _ -> PcStr
| SBytes _ -> PcBytes

(** val pyclass_eqb : pyclass -> pyclass -> bool **)

let pyclass_eqb a b =
  match a with
  | PcNone -> (match b with
               | PcNone -> true
               | _ -> false)
  | PcEllipsis -> (match b with
                   | PcEllipsis -> true
                   | _ -> false)
  | PcInt -> (match b with
              | PcInt -> true
              | _ -> false)
  | PcBool -> (match b with
               | PcBool -> true
               | _ -> false)
  | PcFloat -> (match b with
                | PcFloat -> true
                | _ -> false)
  | PcStr -> (match b with
              | PcStr -> true
              | _ -> false)
  | PcBytes -> (match b with
                | PcBytes -> true
                | _ -> false)

type ntype =
| TPyObject
| TPyInt
| TPyFloat
| TPyBool
| TPyStr
| TPyBytes
| TPyTuple
| TPyList
| TPySlice
| TPyFrozenset
| TC of z

(** val ntype_eqb : ntype -> ntype -> bool **)

let ntype_eqb a b =
  match a with
  | TPyObject -> (match b with
                  | TPyObject -> true
                  | _ -> false)
  | TPyInt -> (match b with
               | TPyInt -> true
               | _ -> false)
  | TPyFloat -> (match b with
                 | TPyFloat -> true
                 | _ -> false)
  | TPyBool -> (match b with
                | TPyBool -> true
                | _ -> false)
  | TPyStr -> (match b with
               | TPyStr -> true
               | _ -> false)
  | TPyBytes -> (match b with
                 | TPyBytes -> true
                 | _ -> false)
  | TPyTuple -> (match b with
                 | TPyTuple -> true
                 | _ -> false)
  | TPyList -> (match b with
                | TPyList -> true
                | _ -> false)
  | TPySlice -> (match b with
                 | TPySlice -> true
                 | _ -> false)
  | TPyFrozenset -> (match b with
                     | TPyFrozenset -> true
                     | _ -> false)
  | TC x -> (match b with
             | TC y -> Z.eqb x y
             | _ -> false)

(** val f_sign : z -> z **)

let f_sign bits =
  Z.div bits (Z.pow (Zpos (XO XH)) (Zpos (XI (XI (XI (XI (XI XH)))))))

(** val f_exp : z -> z **)

let f_exp bits =
  Z.modulo
    (Z.div bits (Z.pow (Zpos (XO XH)) (Zpos (XO (XO (XI (XO (XI XH))))))))
    (Z.pow (Zpos (XO XH)) (Zpos (XI (XI (XO XH)))))

(** val f_man : z -> z **)

let f_man bits =
  Z.modulo bits (Z.pow (Zpos (XO XH)) (Zpos (XO (XO (XI (XO (XI XH)))))))

(** val f_is_nan : z -> bool **)

let f_is_nan bits =
  (&&)
    (Z.eqb (f_exp bits) (Zpos (XI (XI (XI (XI (XI (XI (XI (XI (XI (XI
      XH)))))))))))) (negb (Z.eqb (f_man bits) Z0))

(** val f_is_zero : z -> bool **)

let f_is_zero bits =
  Z.eqb
    (Z.modulo bits (Z.pow (Zpos (XO XH)) (Zpos (XI (XI (XI (XI (XI XH))))))))
    Z0

(** val float_eq : z -> z -> bool **)

let float_eq x y =
  (&&) ((&&) (negb (f_is_nan x)) (negb (f_is_nan y)))
    ((||) (Z.eqb x y) ((&&) (f_is_zero x) (f_is_zero y)))

(** val float_as_int : z -> z option **)

let float_as_int bits =
  let e = f_exp bits in
  let m = f_man bits in
  let sg = if Z.eqb (f_sign bits) Z0 then Zpos XH else Zneg XH in
  if Z.eqb e (Zpos (XI (XI (XI (XI (XI (XI (XI (XI (XI (XI XH)))))))))))
  then None
  else if Z.eqb e Z0
       then if Z.eqb m Z0 then Some Z0 else None
       else let mm =
              Z.add m
                (Z.pow (Zpos (XO XH)) (Zpos (XO (XO (XI (XO (XI XH)))))))
            in
            let sh =
              Z.sub e (Zpos (XI (XI (XO (XO (XI (XI (XO (XO (XO (XO
                XH)))))))))))
            in
            if Z.leb Z0 sh
            then Some (Z.mul sg (Z.mul mm (Z.pow (Zpos (XO XH)) sh)))
            else if Z.eqb (Z.modulo mm (Z.pow (Zpos (XO XH)) (Z.opp sh))) Z0
                 then Some
                        (Z.mul sg
                          (Z.div mm (Z.pow (Zpos (XO XH)) (Z.opp sh))))
                 else None

(** val zlist_eqb : z list -> z list -> bool **)

let rec zlist_eqb a b =
  match a with
  | [] -> (match b with
           | [] -> true
           | _ :: _ -> false)
  | x :: a' ->
    (match b with
     | [] -> false
     | y :: b' -> (&&) (Z.eqb x y) (zlist_eqb a' b'))

(** val as_int : scalar -> z option **)

let as_int = function
| SInt z0 -> Some z0
| SBool b -> Some (b2z b)
| _ -> None

(** val scalar_eq : scalar -> scalar -> bool **)

let scalar_eq a b =
  match a with
  | SNone ->
    (match b with
     | SNone -> true
     | SFloat y ->
       (match as_int a with
        | Some z0 ->
          (match float_as_int y with
           | Some w -> Z.eqb z0 w
           | None -> false)
        | None -> false)
     | _ ->
       (match as_int a with
        | Some z0 ->
          (match as_int b with
           | Some w -> Z.eqb z0 w
           | None -> false)
        | None -> false))
  | SEllipsis ->
    (match b with
     | SEllipsis -> true
     | SFloat y ->
       (match as_int a with
        | Some z0 ->
          (match float_as_int y with
           | Some w -> Z.eqb z0 w
           | None -> false)
        | None -> false)
     | _ ->
       (match as_int a with
        | Some z0 ->
          (match as_int b with
           | Some w -> Z.eqb z0 w
           | None -> false)
        | None -> false))
  | SFloat x ->
    (match b with
     | SFloat y -> float_eq x y
     | _ ->
       (match as_int b with
        | Some z0 ->
          (match float_as_int x with
           | Some w -> Z.eqb z0 w
           | None -> false)
        | None -> false))
  | SStr x ->
    (match b with
     | SFloat y ->
       (match as_int a with
        | Some z0 ->
          (match float_as_int y with
           | Some w -> Z.eqb z0 w
           | None -> false)
        | None -> false)
     | SStr y -> zlist_eqb x y
     | _ ->
       (match as_int a with
        | Some z0 ->
          (match as_int b with
           | Some w -> Z.eqb z0 w
           | None -> false)
        | None -> false))
  | SBytes x ->
    (match b with
     | SFloat y ->
       (match as_int a with
        | Some z0 ->
          (match float_as_int y with
           | Some w -> Z.eqb z0 w
           | None -> false)
        | None -> false)
     | SBytes y -> zlist_eqb x y
     | _ ->
       (match as_int a with
        | Some z0 ->
          (match as_int b with
           | Some w -> Z.eqb z0 w
           | None -> false)
        | None -> false))
  | _ ->
    (match b with
     | SFloat y ->
       (match as_int a with
        | Some z0 ->
          (match float_as_int y with
           | Some w -> Z.eqb z0 w
           | None -> false)
        | None -> false)
     | _ ->
       (match as_int a with
        | Some z0 ->
          (match as_int b with
           | Some w -> Z.eqb z0 w
           | None -> false)
        | None -> false))

(** val float_sign_tag : scalar -> z option **)

let float_sign_tag = function
| SFloat bits -> Some (f_sign bits)
| _ -> None

type cnode =
| NLeaf of ntype * scalar
| NSeq of ntype * bool * cnode option * cnode list
| NSlice of ntype * cnode * cnode * cnode
| NOpaque

type key =
| KLeaf of ntype * scalar * pyclass option * z option option
| KCont of ntype * bool * key list

(** val none_entry : bool -> key **)

let none_entry fx =
  KLeaf (TPyObject, SNone, (Some PcNone), (if fx then Some None else None))

(** val leaf_key : bool -> ntype -> scalar -> key **)

let leaf_key fx ty v =
  KLeaf (ty, v, (if ntype_eqb ty TPyObject then Some (class_of v) else None),
    (if fx then Some (float_sign_tag v) else None))

(** val all_some : key option list -> key list option **)

let rec all_some = function
| [] -> Some []
| o :: t ->
  (match o with
   | Some k -> (match all_some t with
                | Some r -> Some (k :: r)
                | None -> None)
   | None -> None)

(** val cont_key : bool -> ntype -> key option list -> key option **)

let cont_key os outer items =
  match all_some items with
  | Some ks ->
    Some (KCont (outer, ((&&) (ntype_eqb outer TPyFrozenset) (negb os)), ks))
  | None -> None

(** val item_key : bool -> bool -> cnode -> key option **)

let rec item_key fx os = function
| NLeaf (ty, v) -> Some (leaf_key fx ty v)
| NSeq (ty, literal, mult, args) ->
  cont_key os ty
    ((match mult with
      | Some m -> if literal then item_key fx os m else Some (none_entry fx)
      | None -> Some (none_entry fx)) :: (map (item_key fx os) args))
| NSlice (ty, a, b, c) ->
  cont_key os ty
    ((item_key fx os a) :: ((item_key fx os b) :: ((item_key fx os c) :: [])))
| NOpaque -> None

(** val make_dedup_key :
    bool -> bool -> ntype -> cnode option list -> key option **)

let make_dedup_key fx os outer items =
  cont_key os outer
    (map (fun o ->
      match o with
      | Some n0 -> item_key fx os n0
      | None -> Some (none_entry fx)) items)

(** val optclass_eqb : pyclass option -> pyclass option -> bool **)

let optclass_eqb a b =
  match a with
  | Some x -> (match b with
               | Some y -> pyclass_eqb x y
               | None -> false)
  | None -> (match b with
             | Some _ -> false
             | None -> true)

(** val optz_eqb : z option -> z option -> bool **)

let optz_eqb a b =
  match a with
  | Some x -> (match b with
               | Some y -> Z.eqb x y
               | None -> false)
  | None -> (match b with
             | Some _ -> false
             | None -> true)

(** val sgn_eqb : z option option -> z option option -> bool **)

let sgn_eqb a b =
  match a with
  | Some x -> (match b with
               | Some y -> optz_eqb x y
               | None -> false)
  | None -> (match b with
             | Some _ -> false
             | None -> true)

(** val key_eq : key -> key -> bool **)

let rec key_eq a b =
  match a with
  | KLeaf (t1, v1, c1, s1) ->
    (match b with
     | KLeaf (t2, v2, c2, s2) ->
       (&&)
         ((&&) ((&&) (ntype_eqb t1 t2) (scalar_eq v1 v2))
           (optclass_eqb c1 c2)) (sgn_eqb s1 s2)
     | KCont (_, _, _) -> false)
  | KCont (t1, f1, l1) ->
    (match b with
     | KLeaf (_, _, _, _) -> false
     | KCont (t2, f2, l2) ->
       (&&) (ntype_eqb t1 t2)
         (if f1
          then (&&)
                 ((&&) f2
                   (forallb (fun x -> existsb (fun y -> key_eq x y) l2) l1))
                 (forallb (fun y -> existsb (fun x -> key_eq x y) l1) l2)
          else (&&) (negb f2)
                 (let rec leq l3 l4 =
                    match l3 with
                    | [] -> (match l4 with
                             | [] -> true
                             | _ :: _ -> false)
                    | x :: t3 ->
                      (match l4 with
                       | [] -> false
                       | y :: t4 -> (&&) (key_eq x y) (leq t3 t4))
                  in leq l1 l2)))

type pyconst =
| CScalar of scalar
| CSeq of ntype * pyconst list
| CSlice of pyconst * pyconst * pyconst

(** val leaf_okb : ntype -> scalar -> bool **)

let leaf_okb ty v =
  match ty with
  | TPyObject -> true
  | TPyInt -> (match v with
               | SInt _ -> true
               | _ -> false)
  | TPyFloat -> (match v with
                 | SFloat _ -> true
                 | _ -> false)
  | TPyBool -> (match v with
                | SBool _ -> true
                | _ -> false)
  | TPyStr -> (match v with
               | SStr _ -> true
               | _ -> false)
  | TPyBytes -> (match v with
                 | SBytes _ -> true
                 | _ -> false)
  | _ -> false

(** val mult_okb : cnode option -> bool **)

let mult_okb = function
| Some c ->
  (match c with
   | NLeaf (ty, v) ->
     (match ty with
      | TPyObject ->
        (match v with
         | SInt _ -> true
         | SBool _ -> true
         | _ -> false)
      | TPyInt -> (match v with
                   | SInt _ -> true
                   | _ -> false)
      | TPyBool -> (match v with
                    | SBool _ -> true
                    | _ -> false)
      | TC _ -> (match v with
                 | SInt _ -> true
                 | SBool _ -> true
                 | _ -> false)
      | _ -> false)
   | _ -> false)
| None -> true

(** val float_okb : scalar -> bool **)

let float_okb = function
| SFloat bits ->
  (&&) (Z.leb Z0 bits)
    (Z.ltb bits
      (Z.pow (Zpos (XO XH)) (Zpos (XO (XO (XO (XO (XO (XO XH)))))))))
| _ -> true

(** val wf_node : cnode -> bool **)

let rec wf_node = function
| NLeaf (ty, v) -> (&&) (leaf_okb ty v) (float_okb v)
| NSeq (ty, _, mult, args) ->
  (&&)
    ((&&) ((||) (ntype_eqb ty TPyTuple) (ntype_eqb ty TPyList))
      (mult_okb mult)) (forallb wf_node args)
| NSlice (ty, a, b, c) ->
  (&&) ((&&) ((&&) (ntype_eqb ty TPySlice) (wf_node a)) (wf_node b))
    (wf_node c)
| NOpaque -> false

type topnode =
| TopSeq of cnode
| TopSlice of cnode
| TopFrozen of cnode list

(** val top_key : bool -> bool -> topnode -> key option **)

let top_key fx os = function
| TopSeq n0 ->
  (match n0 with
   | NSeq (ty, literal, mult, args) ->
     make_dedup_key fx os ty
       ((if literal then mult else None) :: (map (fun x -> Some x) args))
   | _ -> None)
| TopSlice n0 ->
  (match n0 with
   | NSlice (ty, a, b, c) ->
     make_dedup_key fx os ty ((Some (NSlice (ty, a, b, c))) :: [])
   | _ -> None)
| TopFrozen args ->
  make_dedup_key fx os TPyFrozenset (map (fun x -> Some x) args)

(** val wf_top : topnode -> bool **)

let wf_top = function
| TopSeq n0 ->
  (match n0 with
   | NSeq (ty, l, m, a) -> wf_node (NSeq (ty, l, m, a))
   | _ -> false)
| TopSlice n0 ->
  (match n0 with
   | NSlice (ty, a, b, c) -> wf_node (NSlice (ty, a, b, c))
   | _ -> false)
| TopFrozen args -> forallb wf_node args

(** val py_eq : pyconst -> pyconst -> bool **)

let rec py_eq a b =
  match a with
  | CScalar x -> (match b with
                  | CScalar y -> scalar_eq x y
                  | _ -> false)
  | CSeq (t1, l1) ->
    (match b with
     | CSeq (t2, l2) ->
       (&&) (ntype_eqb t1 t2)
         (let rec leq l3 l4 =
            match l3 with
            | [] -> (match l4 with
                     | [] -> true
                     | _ :: _ -> false)
            | x :: r1 ->
              (match l4 with
               | [] -> false
               | y :: r2 -> (&&) (py_eq x y) (leq r1 r2))
          in leq l1 l2)
     | _ -> false)
  | CSlice (a1, b1, c1) ->
    (match b with
     | CSlice (a2, b2, c2) ->
       (&&) ((&&) (py_eq a1 a2) (py_eq b1 b2)) (py_eq c1 c2)
     | _ -> false)

(** val key_value : key -> pyconst **)

let rec key_value = function
| KLeaf (_, v, _, _) -> CScalar v
| KCont (_, _, l) -> CSeq (TPyTuple, (map key_value l))

(** val first_by :
    ('a1 -> pyconst) -> pyconst list -> 'a1 list -> 'a1 list **)

let rec first_by val0 seen = function
| [] -> []
| x :: r ->
  if existsb (fun s -> py_eq s (val0 x)) seen
  then first_by val0 seen r
  else x :: (first_by val0 (app seen ((val0 x) :: [])) r)

(** val has_mult : cnode -> bool **)

let rec has_mult = function
| NSeq (_, literal, mult, args) ->
  (||)
    (match if literal then mult else None with
     | Some _ -> true
     | None -> false) (existsb has_mult args)
| NSlice (_, a, b, c) -> (||) ((||) (has_mult a) (has_mult b)) (has_mult c)
| _ -> false

(** val frozen_key : bool -> bool -> cnode list -> key option **)

let frozen_key fx guard args =
  if (&&) guard (existsb has_mult args)
  then None
  else (match all_some (map (item_key fx true) args) with
        | Some ks ->
          Some (KCont (TPyFrozenset, true, (first_by key_value [] ks)))
        | None -> None)

(** val top_key2 : bool -> bool -> topnode -> key option **)

let top_key2 fx guard t = match t with
| TopFrozen args -> frozen_key fx guard args
| _ -> top_key fx true t

(** val hashable : cnode -> bool **)

let rec hashable = function
| NLeaf (_, _) -> true
| NSeq (ty, _, _, args) ->
  (&&) (ntype_eqb ty TPyTuple) (forallb hashable args)
| _ -> false

(** val wf_top2 : topnode -> bool **)

let wf_top2 t =
  (&&) (wf_top t)
    (match t with
     | TopFrozen args -> forallb hashable args
     | _ -> true)

(** val top_has_mult : topnode -> bool **)

let top_has_mult = function
| TopFrozen args -> existsb has_mult args
| _ -> false

type binop =
| OAdd
| OSub
| OMul
| OFloorDiv
| OMod
| OPow
| OLshift
| ORshift
| OAnd
| OOr
| OXor

type unop =
| UPlus
| UMinus
| UInvert
| UNot

type lit =
| LBool of bool
| LInt of z

(** val lit_int : lit -> z **)

let lit_int = function
| LBool b -> b2z b
| LInt z0 -> z0

(** val py_binop : binop -> lit -> lit -> lit option **)

let py_binop op a b =
  let x = lit_int a in
  let y = lit_int b in
  let both_bool =
    match a with
    | LBool _ -> (match b with
                  | LBool _ -> true
                  | LInt _ -> false)
    | LInt _ -> false
  in
  (match op with
   | OAdd -> Some (LInt (Z.add x y))
   | OSub -> Some (LInt (Z.sub x y))
   | OMul -> Some (LInt (Z.mul x y))
   | OFloorDiv -> if Z.eqb y Z0 then None else Some (LInt (Z.div x y))
   | OMod -> if Z.eqb y Z0 then None else Some (LInt (Z.modulo x y))
   | OPow -> if Z.ltb y Z0 then None else Some (LInt (Z.pow x y))
   | OLshift -> if Z.ltb y Z0 then None else Some (LInt (Z.shiftl x y))
   | ORshift -> if Z.ltb y Z0 then None else Some (LInt (Z.shiftr x y))
   | OAnd ->
     if both_bool
     then Some (LBool (negb (Z.eqb (Z.coq_land x y) Z0)))
     else Some (LInt (Z.coq_land x y))
   | OOr ->
     if both_bool
     then Some (LBool (negb (Z.eqb (Z.coq_lor x y) Z0)))
     else Some (LInt (Z.coq_lor x y))
   | OXor ->
     if both_bool
     then Some (LBool (negb (Z.eqb (Z.coq_lxor x y) Z0)))
     else Some (LInt (Z.coq_lxor x y)))

(** val py_unop : unop -> lit -> lit **)

let py_unop op a =
  match op with
  | UPlus -> LInt (lit_int a)
  | UMinus -> LInt (Z.opp (lit_int a))
  | UInvert -> LInt (Z.sub (Z.opp (lit_int a)) (Zpos XH))
  | UNot -> LBool (Z.eqb (lit_int a) Z0)

(** val op_in_arith_string : binop -> bool **)

let op_in_arith_string = function
| OAnd -> false
| OOr -> false
| OXor -> false
| _ -> true

type folded =
| FBool of bool
| FInt of z list
| FOperand

(** val int_of_lit : lit -> z **)

let int_of_lit =
  lit_int

(** val bool_of_lit : lit -> bool **)

let bool_of_lit l =
  negb (Z.eqb (lit_int l) Z0)

(** val fold_binop : binop -> lit -> lit -> folded option **)

let fold_binop op a b =
  match py_binop op a b with
  | Some r ->
    let widest_is_bool =
      match a with
      | LBool _ -> (match b with
                    | LBool _ -> true
                    | LInt _ -> false)
      | LInt _ -> false
    in
    let target_is_int = (||) (negb widest_is_bool) (op_in_arith_string op) in
    if target_is_int
    then Some (FInt (strip_L (py_hex (int_of_lit r))))
    else (match r with
          | LBool v -> Some (FBool v)
          | LInt _ -> None)
  | None -> None

(** val fold_unop : unop -> lit -> folded option **)

let fold_unop op a =
  let r = py_unop op a in
  (match op with
   | UPlus ->
     (match a with
      | LBool _ ->
        (match py_str (int_of_lit r) with
         | Some t -> Some (FInt t)
         | None -> None)
      | LInt _ -> Some FOperand)
   | UNot -> Some (FBool (bool_of_lit r))
   | _ ->
     (match a with
      | LBool _ ->
        (match py_str (int_of_lit r) with
         | Some t -> Some (FInt t)
         | None -> None)
      | LInt _ -> None))

(** val folded_value : lit -> folded -> lit option **)

let folded_value operand = function
| FBool b -> Some (LBool b)
| FInt t ->
  (match str_to_number t with
   | Some z0 -> Some (LInt z0)
   | None -> None)
| FOperand -> Some operand
