
val negb : bool -> bool

type nat =
| O
| S of nat

type ('a, 'b) sum =
| Inl of 'a
| Inr of 'b

val length : 'a1 list -> nat

type comparison =
| Eq
| Lt
| Gt

val compOpp : comparison -> comparison

val add : nat -> nat -> nat

type positive =
| XI of positive
| XO of positive
| XH

type n =
| N0
| Npos of positive

type z =
| Z0
| Zpos of positive
| Zneg of positive

module Pos :
 sig
  val succ : positive -> positive

  val add : positive -> positive -> positive

  val add_carry : positive -> positive -> positive

  val pred_double : positive -> positive

  val pred_N : positive -> n

  val mul : positive -> positive -> positive

  val iter : ('a1 -> 'a1) -> 'a1 -> positive -> 'a1

  val div2 : positive -> positive

  val div2_up : positive -> positive

  val size : positive -> positive

  val compare_cont : comparison -> positive -> positive -> comparison

  val compare : positive -> positive -> comparison

  val eqb : positive -> positive -> bool

  val coq_Nsucc_double : n -> n

  val coq_Ndouble : n -> n

  val coq_lor : positive -> positive -> positive

  val coq_land : positive -> positive -> n

  val ldiff : positive -> positive -> n

  val iter_op : ('a1 -> 'a1 -> 'a1) -> positive -> 'a1 -> 'a1

  val to_nat : positive -> nat

  val of_succ_nat : nat -> positive
 end

module N :
 sig
  val succ_pos : n -> positive

  val coq_lor : n -> n -> n

  val coq_land : n -> n -> n

  val ldiff : n -> n -> n
 end

module Z :
 sig
  val double : z -> z

  val succ_double : z -> z

  val pred_double : z -> z

  val pos_sub : positive -> positive -> z

  val add : z -> z -> z

  val opp : z -> z

  val pred : z -> z

  val sub : z -> z -> z

  val mul : z -> z -> z

  val pow_pos : z -> positive -> z

  val pow : z -> z -> z

  val compare : z -> z -> comparison

  val leb : z -> z -> bool

  val ltb : z -> z -> bool

  val eqb : z -> z -> bool

  val abs : z -> z

  val to_nat : z -> nat

  val of_nat : nat -> z

  val of_N : n -> z

  val pos_div_eucl : positive -> z -> z * z

  val div_eucl : z -> z -> z * z

  val div : z -> z -> z

  val modulo : z -> z -> z

  val div2 : z -> z

  val log2 : z -> z

  val shiftl : z -> z -> z

  val shiftr : z -> z -> z

  val coq_lor : z -> z -> z

  val coq_land : z -> z -> z

  val lnot : z -> z
 end

val nth : nat -> 'a1 list -> 'a1 -> 'a1

val last : 'a1 list -> 'a1 -> 'a1

val forallb : ('a1 -> bool) -> 'a1 list -> bool

val firstn : nat -> 'a1 list -> 'a1 list

val ex_keep : (((((nat * n) * z) * z list) * z option) * positive) * bool

val min_int : z -> bool -> z

val max_int : z -> bool -> z

val in_rangeb : z -> bool -> z -> bool

val wrap : z -> bool -> z -> z

val b2z : bool -> z

type pylong = { pl_neg : bool; pl_digits : z list }

val mag : z -> z list -> z

val value : z -> pylong -> z

val ndigits : pylong -> z

val digit : pylong -> nat -> z

val digit_okb : z -> z -> bool

val wfb : z -> pylong -> bool

val is_compact : pylong -> bool

val compact_uvalue : pylong -> z

val compact_value : pylong -> z

val joinl_c : z -> bool -> z -> z list -> z option

val join_c : z -> bool -> z -> nat -> pylong -> z option

val digits_of : z -> nat -> z -> z list

val of_Z : z -> z -> pylong

type cfg = { c_sh : z; c_int : z; c_long : z; c_llong : z; c_ssize : 
             z; c_compact : z; c_internals : bool; c_asint : bool;
             c_chunks : bool; c_slots : bool }

val lp64_internals : cfg

val lp64_nointernals : cfg

val lp64_limited : cfg

type err =
| Overflow
| NegOverflow
| CPyOverflow
| CPyNegOverflow
| CPyBytesOverflow
| TypeErr
| OtherErr

type cres =
| Ret of z * err option
| UB
| OutOfFuel

type outcome =
| Ok of z
| Err of err
| Lost of z * err
| Undefined
| Stuck

val observe : z -> bool -> cres -> outcome

val is_some : 'a1 option -> bool

val api_as_signed : z -> z -> z * err option

val api_as_unsigned : z -> z -> z * err option

val raise_overflow : z -> bool -> cres

val raise_neg_overflow : z -> bool -> cres

val verify : z -> bool -> z -> bool -> bool -> (z * err option) -> cres

val chain : (bool * cres option) list -> cres option

val of_join : z option -> (z -> cres) -> cres

val large_bytearray : z -> bool -> z -> cres

val or_shifted : z -> bool -> z -> z -> z -> z option

val chunk_loop :
  nat -> z -> z -> bool -> z -> z -> z -> z -> (cres, (z * z) * z) sum option

val large_chunks : cfg -> z -> bool -> z -> cres

val large : cfg -> z -> bool -> z -> cres

val ulong_branch : cfg -> z -> pylong -> nat -> bool * cres option

val pyulong : cfg -> z -> pylong -> cres

val slong_neg_branch : cfg -> z -> pylong -> nat -> bool * cres option

val slong_pos_branch : cfg -> z -> pylong -> nat -> bool * cres option

val pyslong : cfg -> z -> pylong -> cres

val from_py : cfg -> z -> bool -> pylong -> cres

val to_py : cfg -> z -> bool -> z -> z

val roundtrip : cfg -> z -> bool -> pylong -> outcome

type slot_result =
| SR_int of pylong
| SR_raise
| SR_nonint

type objkind = { nb_int : slot_result option; nb_index : slot_result option }

type pyobj =
| PInt of pylong
| PObj of objkind

val run_slot : slot_result -> (pylong, err) sum

val pynumber_long : cfg -> objkind -> (pylong, err) sum

val pynumber_index : objkind -> (pylong, err) sum

val from_py_obj : cfg -> z -> bool -> pyobj -> cres

val ssize_branch : cfg -> pylong -> nat -> bool * cres option

val pylong_as_ssize_t : cfg -> pylong -> cres

val pyindex_as_ssize_t : cfg -> pyobj -> cres

val bint_from_py : cfg -> pylong -> z
