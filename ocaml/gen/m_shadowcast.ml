
type nat =
| O
| S of nat

(** val fst : ('a1 * 'a2) -> 'a1 **)

let fst = function
| (x, _) -> x

(** val length : 'a1 list -> nat **)

let rec length = function
| [] -> O
| _ :: l' -> S (length l')

type comparison =
| Eq
| Lt
| Gt

(** val compOpp : comparison -> comparison **)

let compOpp = function
| Eq -> Eq
| Lt -> Gt
| Gt -> Lt

type positive =
| XI of positive
| XO of positive
| XH

type n =
| N0
| Npos of positive

type z =
| Z0
| Zpos of positive
| Zneg of positive

module Pos =
 struct
  type mask =
  | IsNul
  | IsPos of positive
  | IsNeg
 end

module Coq_Pos =
 struct
  (** val succ : positive -> positive **)

  let rec succ = function
  | XI p -> XO (succ p)
  | XO p -> XI p
  | XH -> XO XH

  (** val add : positive -> positive -> positive **)

  let rec add x y =
    match x with
    | XI p ->
      (match y with
       | XI q -> XO (add_carry p q)
       | XO q -> XI (add p q)
       | XH -> XO (succ p))
    | XO p ->
      (match y with
       | XI q -> XI (add p q)
       | XO q -> XO (add p q)
       | XH -> XI p)
    | XH -> (match y with
             | XI q -> XO (succ q)
             | XO q -> XI q
             | XH -> XO XH)

  (** val add_carry : positive -> positive -> positive **)

  and add_carry x y =
    match x with
    | XI p ->
      (match y with
       | XI q -> XI (add_carry p q)
       | XO q -> XO (add_carry p q)
       | XH -> XI (succ p))
    | XO p ->
      (match y with
       | XI q -> XO (add_carry p q)
       | XO q -> XI (add p q)
       | XH -> XO (succ p))
    | XH ->
      (match y with
       | XI q -> XI (succ q)
       | XO q -> XO (succ q)
       | XH -> XI XH)

  (** val pred_double : positive -> positive **)

  let rec pred_double = function
  | XI p -> XI (XO p)
  | XO p -> XI (pred_double p)
  | XH -> XH

  type mask = Pos.mask =
  | IsNul
  | IsPos of positive
  | IsNeg

  (** val succ_double_mask : mask -> mask **)

  let succ_double_mask = function
  | IsNul -> IsPos XH
  | IsPos p -> IsPos (XI p)
  | IsNeg -> IsNeg

  (** val double_mask : mask -> mask **)

  let double_mask = function
  | IsPos p -> IsPos (XO p)
  | x0 -> x0

  (** val double_pred_mask : positive -> mask **)

  let double_pred_mask = function
  | XI p -> IsPos (XO (XO p))
  | XO p -> IsPos (XO (pred_double p))
  | XH -> IsNul

  (** val sub_mask : positive -> positive -> mask **)

  let rec sub_mask x y =
    match x with
    | XI p ->
      (match y with
       | XI q -> double_mask (sub_mask p q)
       | XO q -> succ_double_mask (sub_mask p q)
       | XH -> IsPos (XO p))
    | XO p ->
      (match y with
       | XI q -> succ_double_mask (sub_mask_carry p q)
       | XO q -> double_mask (sub_mask p q)
       | XH -> IsPos (pred_double p))
    | XH -> (match y with
             | XH -> IsNul
             | _ -> IsNeg)

  (** val sub_mask_carry : positive -> positive -> mask **)

  and sub_mask_carry x y =
    match x with
    | XI p ->
      (match y with
       | XI q -> succ_double_mask (sub_mask_carry p q)
       | XO q -> double_mask (sub_mask p q)
       | XH -> IsPos (pred_double p))
    | XO p ->
      (match y with
       | XI q -> double_mask (sub_mask_carry p q)
       | XO q -> succ_double_mask (sub_mask_carry p q)
       | XH -> double_pred_mask p)
    | XH -> IsNeg

  (** val mul : positive -> positive -> positive **)

  let rec mul x y =
    match x with
    | XI p -> add y (XO (mul p y))
    | XO p -> XO (mul p y)
    | XH -> y

  (** val iter : ('a1 -> 'a1) -> 'a1 -> positive -> 'a1 **)

  let rec iter f x = function
  | XI n' -> f (iter f (iter f x n') n')
  | XO n' -> iter f (iter f x n') n'
  | XH -> f x

  (** val size : positive -> positive **)

  let rec size = function
  | XI p0 -> succ (size p0)
  | XO p0 -> succ (size p0)
  | XH -> XH

  (** val compare_cont : comparison -> positive -> positive -> comparison **)

  let rec compare_cont r x y =
    match x with
    | XI p ->
      (match y with
       | XI q -> compare_cont r p q
       | XO q -> compare_cont Gt p q
       | XH -> Gt)
    | XO p ->
      (match y with
       | XI q -> compare_cont Lt p q
       | XO q -> compare_cont r p q
       | XH -> Gt)
    | XH -> (match y with
             | XH -> r
             | _ -> Lt)

  (** val compare : positive -> positive -> comparison **)

  let compare =
    compare_cont Eq

  (** val eqb : positive -> positive -> bool **)

  let rec eqb p q =
    match p with
    | XI p0 -> (match q with
                | XI q0 -> eqb p0 q0
                | _ -> false)
    | XO p0 -> (match q with
                | XO q0 -> eqb p0 q0
                | _ -> false)
    | XH -> (match q with
             | XH -> true
             | _ -> false)

  (** val of_succ_nat : nat -> positive **)

  let rec of_succ_nat = function
  | O -> XH
  | S x -> succ (of_succ_nat x)
 end

module N =
 struct
  (** val succ_double : n -> n **)

  let succ_double = function
  | N0 -> Npos XH
  | Npos p -> Npos (XI p)

  (** val double : n -> n **)

  let double = function
  | N0 -> N0
  | Npos p -> Npos (XO p)

  (** val sub : n -> n -> n **)

  let sub n0 m =
    match n0 with
    | N0 -> N0
    | Npos n' ->
      (match m with
       | N0 -> n0
       | Npos m' ->
         (match Coq_Pos.sub_mask n' m' with
          | Coq_Pos.IsPos p -> Npos p
          | _ -> N0))

  (** val compare : n -> n -> comparison **)

  let compare n0 m =
    match n0 with
    | N0 -> (match m with
             | N0 -> Eq
             | Npos _ -> Lt)
    | Npos n' -> (match m with
                  | N0 -> Gt
                  | Npos m' -> Coq_Pos.compare n' m')

  (** val leb : n -> n -> bool **)

  let leb x y =
    match compare x y with
    | Gt -> false
    | _ -> true

  (** val pos_div_eucl : positive -> n -> n * n **)

  let rec pos_div_eucl a b =
    match a with
    | XI a' ->
      let (q, r) = pos_div_eucl a' b in
      let r' = succ_double r in
      if leb b r' then ((succ_double q), (sub r' b)) else ((double q), r')
    | XO a' ->
      let (q, r) = pos_div_eucl a' b in
      let r' = double r in
      if leb b r' then ((succ_double q), (sub r' b)) else ((double q), r')
    | XH ->
      (match b with
       | N0 -> (N0, (Npos XH))
       | Npos p -> (match p with
                    | XH -> ((Npos XH), N0)
                    | _ -> (N0, (Npos XH))))
 end

module Z =
 struct
  (** val double : z -> z **)

  let double = function
  | Z0 -> Z0
  | Zpos p -> Zpos (XO p)
  | Zneg p -> Zneg (XO p)

  (** val succ_double : z -> z **)

  let succ_double = function
  | Z0 -> Zpos XH
  | Zpos p -> Zpos (XI p)
  | Zneg p -> Zneg (Coq_Pos.pred_double p)

  (** val pred_double : z -> z **)

  let pred_double = function
  | Z0 -> Zneg XH
  | Zpos p -> Zpos (Coq_Pos.pred_double p)
  | Zneg p -> Zneg (XI p)

  (** val pos_sub : positive -> positive -> z **)

  let rec pos_sub x y =
    match x with
    | XI p ->
      (match y with
       | XI q -> double (pos_sub p q)
       | XO q -> succ_double (pos_sub p q)
       | XH -> Zpos (XO p))
    | XO p ->
      (match y with
       | XI q -> pred_double (pos_sub p q)
       | XO q -> double (pos_sub p q)
       | XH -> Zpos (Coq_Pos.pred_double p))
    | XH ->
      (match y with
       | XI q -> Zneg (XO q)
       | XO q -> Zneg (Coq_Pos.pred_double q)
       | XH -> Z0)

  (** val add : z -> z -> z **)

  let add x y =
    match x with
    | Z0 -> y
    | Zpos x' ->
      (match y with
       | Z0 -> x
       | Zpos y' -> Zpos (Coq_Pos.add x' y')
       | Zneg y' -> pos_sub x' y')
    | Zneg x' ->
      (match y with
       | Z0 -> x
       | Zpos y' -> pos_sub y' x'
       | Zneg y' -> Zneg (Coq_Pos.add x' y'))

  (** val opp : z -> z **)

  let opp = function
  | Z0 -> Z0
  | Zpos x0 -> Zneg x0
  | Zneg x0 -> Zpos x0

  (** val sub : z -> z -> z **)

  let sub m n0 =
    add m (opp n0)

  (** val mul : z -> z -> z **)

  let mul x y =
    match x with
    | Z0 -> Z0
    | Zpos x' ->
      (match y with
       | Z0 -> Z0
       | Zpos y' -> Zpos (Coq_Pos.mul x' y')
       | Zneg y' -> Zneg (Coq_Pos.mul x' y'))
    | Zneg x' ->
      (match y with
       | Z0 -> Z0
       | Zpos y' -> Zneg (Coq_Pos.mul x' y')
       | Zneg y' -> Zpos (Coq_Pos.mul x' y'))

  (** val pow_pos : z -> positive -> z **)

  let pow_pos z0 =
    Coq_Pos.iter (mul z0) (Zpos XH)

  (** val pow : z -> z -> z **)

  let pow x = function
  | Z0 -> Zpos XH
  | Zpos p -> pow_pos x p
  | Zneg _ -> Z0

  (** val compare : z -> z -> comparison **)

  let compare x y =
    match x with
    | Z0 -> (match y with
             | Z0 -> Eq
             | Zpos _ -> Lt
             | Zneg _ -> Gt)
    | Zpos x' -> (match y with
                  | Zpos y' -> Coq_Pos.compare x' y'
                  | _ -> Gt)
    | Zneg x' ->
      (match y with
       | Zneg y' -> compOpp (Coq_Pos.compare x' y')
       | _ -> Lt)

  (** val leb : z -> z -> bool **)

  let leb x y =
    match compare x y with
    | Gt -> false
    | _ -> true

  (** val ltb : z -> z -> bool **)

  let ltb x y =
    match compare x y with
    | Lt -> true
    | _ -> false

  (** val eqb : z -> z -> bool **)

  let eqb x y =
    match x with
    | Z0 -> (match y with
             | Z0 -> true
             | _ -> false)
    | Zpos p -> (match y with
                 | Zpos q -> Coq_Pos.eqb p q
                 | _ -> false)
    | Zneg p -> (match y with
                 | Zneg q -> Coq_Pos.eqb p q
                 | _ -> false)

  (** val abs : z -> z **)

  let abs = function
  | Zneg p -> Zpos p
  | x -> x

  (** val of_nat : nat -> z **)

  let of_nat = function
  | O -> Z0
  | S n1 -> Zpos (Coq_Pos.of_succ_nat n1)

  (** val of_N : n -> z **)

  let of_N = function
  | N0 -> Z0
  | Npos p -> Zpos p

  (** val pos_div_eucl : positive -> z -> z * z **)

  let rec pos_div_eucl a b =
    match a with
    | XI a' ->
      let (q, r) = pos_div_eucl a' b in
      let r' = add (mul (Zpos (XO XH)) r) (Zpos XH) in
      if ltb r' b
      then ((mul (Zpos (XO XH)) q), r')
      else ((add (mul (Zpos (XO XH)) q) (Zpos XH)), (sub r' b))
    | XO a' ->
      let (q, r) = pos_div_eucl a' b in
      let r' = mul (Zpos (XO XH)) r in
      if ltb r' b
      then ((mul (Zpos (XO XH)) q), r')
      else ((add (mul (Zpos (XO XH)) q) (Zpos XH)), (sub r' b))
    | XH -> if leb (Zpos (XO XH)) b then (Z0, (Zpos XH)) else ((Zpos XH), Z0)

  (** val div_eucl : z -> z -> z * z **)

  let div_eucl a b =
    match a with
    | Z0 -> (Z0, Z0)
    | Zpos a' ->
      (match b with
       | Z0 -> (Z0, a)
       | Zpos _ -> pos_div_eucl a' b
       | Zneg b' ->
         let (q, r) = pos_div_eucl a' (Zpos b') in
         (match r with
          | Z0 -> ((opp q), Z0)
          | _ -> ((opp (add q (Zpos XH))), (add b r))))
    | Zneg a' ->
      (match b with
       | Z0 -> (Z0, a)
       | Zpos _ ->
         let (q, r) = pos_div_eucl a' b in
         (match r with
          | Z0 -> ((opp q), Z0)
          | _ -> ((opp (add q (Zpos XH))), (sub b r)))
       | Zneg b' -> let (q, r) = pos_div_eucl a' (Zpos b') in (q, (opp r)))

  (** val div : z -> z -> z **)

  let div a b =
    let (q, _) = div_eucl a b in q

  (** val modulo : z -> z -> z **)

  let modulo a b =
    let (_, r) = div_eucl a b in r

  (** val quotrem : z -> z -> z * z **)

  let quotrem a b =
    match a with
    | Z0 -> (Z0, Z0)
    | Zpos a0 ->
      (match b with
       | Z0 -> (Z0, a)
       | Zpos b0 ->
         let (q, r) = N.pos_div_eucl a0 (Npos b0) in ((of_N q), (of_N r))
       | Zneg b0 ->
         let (q, r) = N.pos_div_eucl a0 (Npos b0) in
         ((opp (of_N q)), (of_N r)))
    | Zneg a0 ->
      (match b with
       | Z0 -> (Z0, a)
       | Zpos b0 ->
         let (q, r) = N.pos_div_eucl a0 (Npos b0) in
         ((opp (of_N q)), (opp (of_N r)))
       | Zneg b0 ->
         let (q, r) = N.pos_div_eucl a0 (Npos b0) in
         ((of_N q), (opp (of_N r))))

  (** val quot : z -> z -> z **)

  let quot a b =
    fst (quotrem a b)

  (** val odd : z -> bool **)

  let odd = function
  | Z0 -> false
  | Zpos p -> (match p with
               | XO _ -> false
               | _ -> true)
  | Zneg p -> (match p with
               | XO _ -> false
               | _ -> true)

  (** val log2 : z -> z **)

  let log2 = function
  | Zpos p0 ->
    (match p0 with
     | XI p -> Zpos (Coq_Pos.size p)
     | XO p -> Zpos (Coq_Pos.size p)
     | XH -> Z0)
  | _ -> Z0
 end

(** val ex_keep :
    (((((nat * n) * z) * z list) * z option) * positive) * bool **)

let ex_keep =
  ((((((O, N0), Z0), []), None), XH), true)

type val0 =
| VNone
| VInt of z
| VFloat of bool * z * z
| VInf of bool
| VNan
| VOther of z * z
| VNew of z * z

type cls =
| KInt
| KFloat
| KOther of z

type ty =
| TClass of cls
| TDef of ty
| TNon

type err =
| TypeError
| ValueError
| OverflowError
| IndexError

type res =
| RVal of val0
| RErr of err

(** val is_none : val0 -> bool **)

let is_none = function
| VNone -> true
| _ -> false

(** val isinstance : val0 -> cls -> bool **)

let isinstance v = function
| KInt -> (match v with
           | VInt _ -> true
           | _ -> false)
| KFloat ->
  (match v with
   | VFloat (_, _, _) -> true
   | VInf _ -> true
   | VNan -> true
   | _ -> false)
| KOther c0 ->
  (match v with
   | VOther (c', _) -> Z.eqb c0 c'
   | VNew (c', _) -> Z.eqb c0 c'
   | _ -> false)

(** val py_trunc : bool -> z -> z -> z **)

let py_trunc s m e =
  let a =
    if Z.leb Z0 e
    then Z.mul m (Z.pow (Zpos (XO XH)) e)
    else Z.div m (Z.pow (Zpos (XO XH)) (Z.opp e))
  in
  if s then Z.opp a else a

(** val c_trunc : bool -> z -> z -> z **)

let c_trunc s m e =
  let sm = if s then Z.opp m else m in
  if Z.leb Z0 e
  then Z.mul sm (Z.pow (Zpos (XO XH)) e)
  else Z.quot sm (Z.pow (Zpos (XO XH)) (Z.opp e))

(** val nbits : z -> z **)

let nbits a =
  if Z.eqb a Z0 then Z0 else Z.add (Z.log2 a) (Zpos XH)

(** val round_to_double : z -> res **)

let round_to_double z0 =
  let a = Z.abs z0 in
  let n0 = nbits a in
  if Z.leb n0 (Zpos (XI (XO (XI (XO (XI XH))))))
  then RVal (VFloat ((Z.ltb z0 Z0), a, Z0))
  else let sh = Z.sub n0 (Zpos (XI (XO (XI (XO (XI XH)))))) in
       let q = Z.div a (Z.pow (Zpos (XO XH)) sh) in
       let r = Z.modulo a (Z.pow (Zpos (XO XH)) sh) in
       let half = Z.pow (Zpos (XO XH)) (Z.sub sh (Zpos XH)) in
       let q' =
         if (||) (Z.ltb half r) ((&&) (Z.eqb r half) (Z.odd q))
         then Z.add q (Zpos XH)
         else q
       in
       if Z.leb
            (Z.pow (Zpos (XO XH)) (Zpos (XO (XO (XO (XO (XO (XO (XO (XO (XO
              (XO XH)))))))))))) (Z.mul q' (Z.pow (Zpos (XO XH)) sh))
       then RErr OverflowError
       else RVal (VFloat ((Z.ltb z0 Z0), q', sh))

(** val construct : cls -> val0 list -> res **)

let construct c args =
  match c with
  | KInt ->
    (match args with
     | [] -> RVal (VInt Z0)
     | v :: l ->
       (match v with
        | VInt z0 ->
          (match l with
           | [] -> RVal (VInt z0)
           | v0 :: l0 ->
             (match v0 with
              | VInt b ->
                (match l0 with
                 | [] ->
                   if (||) (Z.eqb b Z0)
                        ((&&) (Z.leb (Zpos (XO XH)) b)
                          (Z.leb b (Zpos (XO (XO (XI (XO (XO XH))))))))
                   then RErr TypeError
                   else RErr ValueError
                 | _ :: _ -> RErr TypeError)
              | _ -> RErr TypeError))
        | VFloat (s, m, e) ->
          (match l with
           | [] -> RVal (VInt (py_trunc s m e))
           | v0 :: l0 ->
             (match v0 with
              | VInt b ->
                (match l0 with
                 | [] ->
                   if (||) (Z.eqb b Z0)
                        ((&&) (Z.leb (Zpos (XO XH)) b)
                          (Z.leb b (Zpos (XO (XO (XI (XO (XO XH))))))))
                   then RErr TypeError
                   else RErr ValueError
                 | _ :: _ -> RErr TypeError)
              | _ -> RErr TypeError))
        | VInf _ ->
          (match l with
           | [] -> RErr OverflowError
           | v0 :: l0 ->
             (match v0 with
              | VInt b ->
                (match l0 with
                 | [] ->
                   if (||) (Z.eqb b Z0)
                        ((&&) (Z.leb (Zpos (XO XH)) b)
                          (Z.leb b (Zpos (XO (XO (XI (XO (XO XH))))))))
                   then RErr TypeError
                   else RErr ValueError
                 | _ :: _ -> RErr TypeError)
              | _ -> RErr TypeError))
        | VNan ->
          (match l with
           | [] -> RErr ValueError
           | v0 :: l0 ->
             (match v0 with
              | VInt b ->
                (match l0 with
                 | [] ->
                   if (||) (Z.eqb b Z0)
                        ((&&) (Z.leb (Zpos (XO XH)) b)
                          (Z.leb b (Zpos (XO (XO (XI (XO (XO XH))))))))
                   then RErr TypeError
                   else RErr ValueError
                 | _ :: _ -> RErr TypeError)
              | _ -> RErr TypeError))
        | _ ->
          (match l with
           | [] -> RErr TypeError
           | v0 :: l0 ->
             (match v0 with
              | VInt b ->
                (match l0 with
                 | [] ->
                   if (||) (Z.eqb b Z0)
                        ((&&) (Z.leb (Zpos (XO XH)) b)
                          (Z.leb b (Zpos (XO (XO (XI (XO (XO XH))))))))
                   then RErr TypeError
                   else RErr ValueError
                 | _ :: _ -> RErr TypeError)
              | _ -> RErr TypeError))))
  | KFloat ->
    (match args with
     | [] -> RVal (VFloat (false, Z0, Z0))
     | v :: l ->
       (match v with
        | VNone -> RErr TypeError
        | VInt z0 ->
          (match l with
           | [] -> round_to_double z0
           | _ :: _ -> RErr TypeError)
        | VOther (_, _) -> RErr TypeError
        | VNew (_, _) -> RErr TypeError
        | x -> (match l with
                | [] -> RVal x
                | _ :: _ -> RErr TypeError)))
  | KOther k -> RVal (VNew (k, (Z.of_nat (length args))))

(** val cast : ty -> val0 list -> res **)

let rec cast t args =
  match t with
  | TClass c ->
    (match args with
     | [] -> construct c args
     | a :: l ->
       (match l with
        | [] ->
          if (||) (is_none a) (isinstance a c)
          then RVal a
          else construct c args
        | _ :: _ -> construct c args))
  | TDef b -> cast b args
  | TNon -> (match args with
             | [] -> RErr IndexError
             | a :: _ -> RVal a)

(** val declare : ty -> val0 option -> res **)

let declare t = function
| Some v -> cast t (v :: [])
| None -> RVal VNone

(** val base : ty -> cls option **)

let rec base = function
| TClass c -> Some c
| TDef b -> base b
| TNon -> None

(** val wrapn : nat -> ty -> ty **)

let rec wrapn n0 t =
  match n0 with
  | O -> t
  | S k -> TDef (wrapn k t)
