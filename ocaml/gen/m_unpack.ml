
(** val negb : bool -> bool **)

let negb = function
| true -> false
| false -> true

type nat =
| O
| S of nat

(** val option_map : ('a1 -> 'a2) -> 'a1 option -> 'a2 option **)

let option_map f = function
| Some a -> Some (f a)
| None -> None

(** val length : 'a1 list -> nat **)

let rec length = function
| [] -> O
| _ :: l' -> S (length l')

(** val app : 'a1 list -> 'a1 list -> 'a1 list **)

let rec app l m =
  match l with
  | [] -> m
  | a :: l1 -> a :: (app l1 m)

(** val add : nat -> nat -> nat **)

let rec add n0 m =
  match n0 with
  | O -> m
  | S p -> S (add p m)

(** val sub : nat -> nat -> nat **)

let rec sub n0 m =
  match n0 with
  | O -> n0
  | S k -> (match m with
            | O -> n0
            | S l -> sub k l)

type positive =
| XI of positive
| XO of positive
| XH

type n =
| N0
| Npos of positive

type z =
| Z0
| Zpos of positive
| Zneg of positive

module Nat =
 struct
  (** val eqb : nat -> nat -> bool **)

  let rec eqb n0 m =
    match n0 with
    | O -> (match m with
            | O -> true
            | S _ -> false)
    | S n' -> (match m with
               | O -> false
               | S m' -> eqb n' m')

  (** val leb : nat -> nat -> bool **)

  let rec leb n0 m =
    match n0 with
    | O -> true
    | S n' -> (match m with
               | O -> false
               | S m' -> leb n' m')

  (** val ltb : nat -> nat -> bool **)

  let ltb n0 m =
    leb (S n0) m
 end

(** val nth_error : 'a1 list -> nat -> 'a1 option **)

let rec nth_error l = function
| O -> (match l with
        | [] -> None
        | x :: _ -> Some x)
| S n1 -> (match l with
           | [] -> None
           | _ :: l0 -> nth_error l0 n1)

(** val rev : 'a1 list -> 'a1 list **)

let rec rev = function
| [] -> []
| x :: l' -> app (rev l') (x :: [])

(** val map : ('a1 -> 'a2) -> 'a1 list -> 'a2 list **)

let rec map f = function
| [] -> []
| a :: t -> (f a) :: (map f t)

(** val firstn : nat -> 'a1 list -> 'a1 list **)

let rec firstn n0 l =
  match n0 with
  | O -> []
  | S n1 -> (match l with
             | [] -> []
             | a :: l0 -> a :: (firstn n1 l0))

(** val skipn : nat -> 'a1 list -> 'a1 list **)

let rec skipn n0 l =
  match n0 with
  | O -> l
  | S n1 -> (match l with
             | [] -> []
             | _ :: l0 -> skipn n1 l0)

(** val seq : nat -> nat -> nat list **)

let rec seq start = function
| O -> []
| S len0 -> start :: (seq (S start) len0)

(** val repeat : 'a1 -> nat -> 'a1 list **)

let rec repeat x = function
| O -> []
| S k -> x :: (repeat x k)

(** val ex_keep :
    (((((nat * n) * z) * z list) * z option) * positive) * bool **)

let ex_keep =
  ((((((O, N0), Z0), []), None), XH), true)

type kind =
| KTuple
| KList
| KTupleSub
| KOther

type ending =
| EndStop
| EndRaise

type stype =
| SObj
| SList
| STuple
| SBuiltin

type hdr = { h_kind : kind; h_id : nat; h_logs : bool; h_end : ending }

type val0 =
| VAtom of z
| VSeq of hdr * val0 list * val0 list

(** val exactb : kind -> bool **)

let exactb = function
| KTuple -> true
| KList -> true
| _ -> false

(** val list_hdr : hdr **)

let list_hdr =
  { h_kind = KList; h_id = O; h_logs = false; h_end = EndStop }

(** val new_list : val0 list -> val0 **)

let new_list l =
  VSeq (list_hdr, l, l)

type event =
| EvNext of nat
| EvBind of nat * val0

type cexn =
| CTypeError
| CNeedMore of nat
| CTooMany of nat
| CIterExc of nat
| COutOfBounds

type rexn =
| RTypeError
| RNotEnough of nat * bool * nat
| RTooMany of nat
| RIterExc of nat

type 'e res =
| Err of 'e
| Vals of val0 list

(** val collect : val0 option list -> val0 list option **)

let rec collect = function
| [] -> Some []
| o :: r ->
  (match o with
   | Some x -> (match collect r with
                | Some r' -> Some (x :: r')
                | None -> None)
   | None -> None)

type loopres =
| LoopOk of val0 list * val0 list
| LoopShort of nat

(** val gen_loop : nat -> nat -> val0 list -> val0 list -> loopres **)

let rec gen_loop k index its acc =
  match k with
  | O -> LoopOk ((rev acc), its)
  | S k' ->
    (match its with
     | [] -> LoopShort index
     | x :: r -> gen_loop k' (S index) r (x :: acc))

(** val iter_end : hdr -> nat -> cexn **)

let iter_end h index =
  match h.h_end with
  | EndStop -> CNeedMore index
  | EndRaise -> CIterExc h.h_id

(** val cy_generic : hdr -> nat -> val0 list -> nat * cexn res **)

let cy_generic h n0 its =
  match gen_loop n0 O its [] with
  | LoopOk (vals, rest) ->
    (match rest with
     | [] ->
       ((S n0),
         (match h.h_end with
          | EndStop -> Vals vals
          | EndRaise -> Err (CIterExc h.h_id)))
     | _ :: _ -> ((S n0), (Err (CTooMany n0))))
  | LoopShort index -> ((S index), (Err (iter_end h index)))

(** val copy_items : val0 list -> nat -> cexn res **)

let copy_items store n0 =
  match collect (map (nth_error store) (seq O n0)) with
  | Some l -> Vals l
  | None -> Err COutOfBounds

(** val cy_fast : nat -> val0 list -> nat * cexn res **)

let cy_fast n0 store =
  let size = length store in
  if negb (Nat.eqb size n0)
  then if Nat.ltb n0 size
       then (O, (Err (CTooMany n0)))
       else (O, (Err (CNeedMore size)))
  else (O, (copy_items store n0))

(** val cy_par : stype -> nat -> val0 -> nat * cexn res **)

let cy_par st n0 = function
| VAtom _ -> (O, (Err CTypeError))
| VSeq (h, store, items) ->
  let fast =
    match st with
    | SObj -> exactb h.h_kind
    | SBuiltin -> false
    | _ -> true
  in
  if fast then cy_fast n0 store else cy_generic h n0 items

(** val cy_star_g : bool -> nat -> nat -> val0 -> nat * cexn res **)

let cy_star_g guard_le nl nr = function
| VAtom _ -> (O, (Err CTypeError))
| VSeq (h, store, items) ->
  let src = if (&&) (Nat.eqb nl O) (exactb h.h_kind) then store else items in
  (match gen_loop nl O src [] with
   | LoopOk (lvals, rest) ->
     let calls = add nl (S (length rest)) in
     (match h.h_end with
      | EndStop ->
        let len = length rest in
        if if guard_le then Nat.leb len nr else Nat.ltb len nr
        then (calls, (Err (CNeedMore (add nl len))))
        else (match collect
                      (map (fun i -> nth_error rest (sub len (add i (S O))))
                        (seq O nr)) with
              | Some rrev ->
                (calls, (Vals
                  (app lvals
                    ((new_list (firstn (sub len nr) rest)) :: (rev rrev)))))
              | None -> (calls, (Err COutOfBounds)))
      | EndRaise -> (calls, (Err (CIterExc h.h_id))))
   | LoopShort index -> ((S index), (Err (iter_end h index))))

(** val cy_star : nat -> nat -> val0 -> nat * cexn res **)

let cy_star =
  cy_star_g false

(** val cy_unpack : stype -> nat -> nat option -> val0 -> nat * cexn res **)

let cy_unpack st nl star v =
  match star with
  | Some nr -> cy_star nl nr v
  | None -> cy_par st nl v

(** val cy_tuple2 : bool -> val0 -> nat * cexn res **)

let cy_tuple2 exact_check = function
| VAtom _ -> (O, (Err CTypeError))
| VSeq (h, store, items) ->
  let is_tuple =
    match h.h_kind with
    | KTuple -> true
    | KTupleSub -> negb exact_check
    | _ -> false
  in
  if is_tuple
  then let size = length store in
       if Nat.eqb size (S (S O))
       then (O, (copy_items store (S (S O))))
       else if Nat.ltb size (S (S O))
            then (O, (Err (CNeedMore size)))
            else (O, (Err (CTooMany (S (S O)))))
  else cy_generic h (S (S O)) items

(** val ref_unpack : nat -> nat option -> val0 -> nat * rexn res **)

let ref_unpack nl star = function
| VAtom _ -> (O, (Err RTypeError))
| VSeq (h, _, items) ->
  let n0 = length items in
  let stop = fun r ->
    match h.h_end with
    | EndStop -> r
    | EndRaise -> Err (RIterExc h.h_id)
  in
  (match star with
   | Some nr ->
     if Nat.ltb n0 nl
     then ((S n0), (stop (Err (RNotEnough ((add nl nr), true, n0)))))
     else ((S n0),
            (stop
              (if Nat.ltb n0 (add nl nr)
               then Err (RNotEnough ((add nl nr), true, n0))
               else Vals
                      (app (firstn nl items)
                        ((new_list
                           (firstn (sub (sub n0 nl) nr) (skipn nl items))) :: 
                        (skipn (sub n0 nr) items))))))
   | None ->
     if Nat.ltb n0 nl
     then ((S n0), (stop (Err (RNotEnough (nl, false, n0)))))
     else if Nat.eqb n0 nl
          then ((S n0), (stop (Vals items)))
          else ((S nl), (Err (RTooMany nl))))

type target =
| TName of nat
| TSeq of target list * nat option * target list

type 'e ares =
| ADone
| AExc of 'e
| AStuck

(** val emit : val0 -> nat -> event list **)

let emit v calls =
  match v with
  | VAtom _ -> []
  | VSeq (h, _, _) -> if h.h_logs then repeat (EvNext h.h_id) calls else []

(** val seq_assign :
    (target -> val0 -> event list * 'a1 ares) -> target list -> val0 list ->
    event list * 'a1 ares **)

let rec seq_assign rec0 ts vs =
  match ts with
  | [] -> (match vs with
           | [] -> ([], ADone)
           | _ :: _ -> ([], AStuck))
  | t1 :: ts' ->
    (match vs with
     | [] -> ([], AStuck)
     | v1 :: vs' ->
       let (ev, a) = rec0 t1 v1 in
       (match a with
        | ADone ->
          let (ev2, a2) = seq_assign rec0 ts' vs' in ((app ev ev2), a2)
        | _ -> (ev, a)))

(** val assign_level :
    (target -> val0 -> event list * 'a1 ares) -> (nat -> nat option -> val0
    -> nat * 'a1 res) -> target list -> nat option -> target list -> val0 ->
    event list * 'a1 ares **)

let assign_level rec0 unp ls star rs v =
  let nl =
    match star with
    | Some _ -> length ls
    | None -> add (length ls) (length rs)
  in
  let (calls, r) = unp nl (option_map (fun _ -> length rs) star) v in
  let ev0 = emit v calls in
  (match r with
   | Err e -> (ev0, (AExc e))
   | Vals vals ->
     let (ev1, a1) = seq_assign rec0 ls (firstn (length ls) vals) in
     (match a1 with
      | ADone ->
        (match star with
         | Some x ->
           (match skipn (length ls) vals with
            | [] -> ((app ev0 ev1), AStuck)
            | sv :: rv ->
              let (ev2, a2) = seq_assign rec0 rs rv in
              ((app ev0 (app ev1 ((EvBind (x, sv)) :: ev2))), a2))
         | None ->
           let (ev2, a2) = seq_assign rec0 rs (skipn (length ls) vals) in
           ((app ev0 (app ev1 ev2)), a2))
      | _ -> ((app ev0 ev1), a1)))

(** val assign :
    (stype -> nat -> nat option -> val0 -> nat * 'a1 res) -> stype -> target
    -> val0 -> event list * 'a1 ares **)

let rec assign unpack st t v =
  match t with
  | TName x -> (((EvBind (x, v)) :: []), ADone)
  | TSeq (ls, star, rs) ->
    assign_level (assign unpack SObj) (unpack st) ls star rs v

(** val assign_top :
    (stype -> nat -> nat option -> val0 -> nat * 'a1 res) -> (nat -> nat
    option -> val0 -> nat * 'a1 res) -> target -> val0 -> event list * 'a1
    ares **)

let assign_top unpack utop t v =
  match t with
  | TName x -> (((EvBind (x, v)) :: []), ADone)
  | TSeq (ls, star, rs) -> assign_level (assign unpack SObj) utop ls star rs v

(** val cy_assign : stype -> target -> val0 -> event list * cexn ares **)

let cy_assign st t v =
  assign cy_unpack st t v

(** val ref_assign : target -> val0 -> event list * rexn ares **)

let ref_assign t v =
  assign (fun _ -> ref_unpack) SObj t v

(** val cy_items_assign : bool -> target -> val0 -> event list * cexn ares **)

let cy_items_assign exact_check t v =
  assign_top cy_unpack (fun _ _ -> cy_tuple2 exact_check) t v
