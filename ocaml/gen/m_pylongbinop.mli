
val xorb : bool -> bool -> bool

val negb : bool -> bool

type nat =
| O
| S of nat

val fst : ('a1 * 'a2) -> 'a1

val snd : ('a1 * 'a2) -> 'a2

val length : 'a1 list -> nat

type comparison =
| Eq
| Lt
| Gt

val compOpp : comparison -> comparison

val add : nat -> nat -> nat

type positive =
| XI of positive
| XO of positive
| XH

type n =
| N0
| Npos of positive

type z =
| Z0
| Zpos of positive
| Zneg of positive

module Pos :
 sig
  type mask =
  | IsNul
  | IsPos of positive
  | IsNeg
 end

module Coq_Pos :
 sig
  val succ : positive -> positive

  val add : positive -> positive -> positive

  val add_carry : positive -> positive -> positive

  val pred_double : positive -> positive

  val pred_N : positive -> n

  type mask = Pos.mask =
  | IsNul
  | IsPos of positive
  | IsNeg

  val succ_double_mask : mask -> mask

  val double_mask : mask -> mask

  val double_pred_mask : positive -> mask

  val sub_mask : positive -> positive -> mask

  val sub_mask_carry : positive -> positive -> mask

  val mul : positive -> positive -> positive

  val iter : ('a1 -> 'a1) -> 'a1 -> positive -> 'a1

  val div2 : positive -> positive

  val div2_up : positive -> positive

  val size : positive -> positive

  val compare_cont : comparison -> positive -> positive -> comparison

  val compare : positive -> positive -> comparison

  val eqb : positive -> positive -> bool

  val coq_Nsucc_double : n -> n

  val coq_Ndouble : n -> n

  val coq_lor : positive -> positive -> positive

  val coq_land : positive -> positive -> n

  val ldiff : positive -> positive -> n

  val coq_lxor : positive -> positive -> n

  val iter_op : ('a1 -> 'a1 -> 'a1) -> positive -> 'a1 -> 'a1

  val to_nat : positive -> nat

  val of_succ_nat : nat -> positive
 end

module N :
 sig
  val succ_double : n -> n

  val double : n -> n

  val succ_pos : n -> positive

  val sub : n -> n -> n

  val compare : n -> n -> comparison

  val leb : n -> n -> bool

  val pos_div_eucl : positive -> n -> n * n

  val coq_lor : n -> n -> n

  val coq_land : n -> n -> n

  val ldiff : n -> n -> n

  val coq_lxor : n -> n -> n
 end

module Z :
 sig
  val double : z -> z

  val succ_double : z -> z

  val pred_double : z -> z

  val pos_sub : positive -> positive -> z

  val add : z -> z -> z

  val opp : z -> z

  val sub : z -> z -> z

  val mul : z -> z -> z

  val pow_pos : z -> positive -> z

  val pow : z -> z -> z

  val compare : z -> z -> comparison

  val leb : z -> z -> bool

  val ltb : z -> z -> bool

  val geb : z -> z -> bool

  val eqb : z -> z -> bool

  val max : z -> z -> z

  val abs : z -> z

  val to_nat : z -> nat

  val of_nat : nat -> z

  val of_N : n -> z

  val pos_div_eucl : positive -> z -> z * z

  val div_eucl : z -> z -> z * z

  val div : z -> z -> z

  val modulo : z -> z -> z

  val quotrem : z -> z -> z * z

  val quot : z -> z -> z

  val rem : z -> z -> z

  val div2 : z -> z

  val log2 : z -> z

  val shiftl : z -> z -> z

  val shiftr : z -> z -> z

  val coq_lor : z -> z -> z

  val coq_land : z -> z -> z

  val coq_lxor : z -> z -> z
 end

val nth : nat -> 'a1 list -> 'a1 -> 'a1

val last : 'a1 list -> 'a1 -> 'a1

val forallb : ('a1 -> bool) -> 'a1 list -> bool

val firstn : nat -> 'a1 list -> 'a1 list

val ex_keep : (((((nat * n) * z) * z list) * z option) * positive) * bool

val min_int : z -> bool -> z

val max_int : z -> bool -> z

val in_rangeb : z -> bool -> z -> bool

val wrap : z -> bool -> z -> z

val b2z : bool -> z

type pylong = { pl_neg : bool; pl_digits : z list }

val mag : z -> z list -> z

val value : z -> pylong -> z

val ndigits : pylong -> z

val digit : pylong -> nat -> z

val digit_okb : z -> z -> bool

val wfb : z -> pylong -> bool

val joinl_c : z -> bool -> z -> z list -> z option

val join_c : z -> bool -> z -> nat -> pylong -> z option

val digits_of : z -> nat -> z -> z list

val of_Z : z -> z -> pylong

val adapt_python : bool -> z -> z -> z

type op =
| OpAdd
| OpSubtract
| OpMultiply
| OpRemainder
| OpFloorDivide
| OpTrueDivide
| OpAnd
| OpOr
| OpXor
| OpLshift
| OpRshift
| OpEq
| OpNe

type order =
| ObjC
| CObj

type result =
| RInt of z
| RBool of bool
| RFloatDiv of z * z
| RFallback
| RZeroDiv
| RUB

val sHIFT : z

val mASK : z

val lONG_BITS : z

val lLONG_BITS : z

val ckl : z -> (z -> result) -> result

val c_shl : z -> z -> (z -> result) -> result

val c_shr : z -> z -> (z -> result) -> result

val c_mod_py : z -> z -> result

val c_div_py : z -> z -> result

val is_zero : pylong -> bool

val is_neg : pylong -> bool

val is_pos : pylong -> bool

val rd : pylong -> nat -> (z -> result) -> result

val operands : order -> z -> z -> z * z

val is_mul : op -> bool

val is_truediv : op -> bool

val calc_llong : op -> z -> z -> result

val calc_long : op -> pylong -> z -> z -> z -> result

val guard_long : op -> z -> bool

val guard_llong : op -> z -> bool

val unpack_join : nat -> pylong -> (z -> result) -> result

val unpack :
  op -> pylong -> (z -> result) -> (z -> result) -> result -> result

val fast_general : op -> order -> z -> pylong -> result

val after_zero : op -> order -> z -> pylong -> result

val unpacked : op -> order -> bool -> z -> pylong -> result

val cmp_ret : bool -> bool -> result

val dne : pylong -> z -> nat -> (bool -> result) -> result

val cmp_digitwise : bool -> pylong -> z -> result

val compare0 : bool -> z -> pylong -> result

val binop : op -> order -> bool -> z -> pylong -> result

val c_small : z -> bool

val accepts : op -> order -> z -> bool

val template_ok : op -> order -> z -> bool

val py_binop : op -> order -> z -> z -> result

val binop_z : op -> order -> bool -> z -> z -> result
