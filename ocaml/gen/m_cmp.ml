
(** val xorb : bool -> bool -> bool **)

let xorb b1 b2 =
  if b1 then if b2 then false else true else b2

(** val negb : bool -> bool **)

let negb = function
| true -> false
| false -> true

type nat =
| O
| S of nat

type ('a, 'b) sum =
| Inl of 'a
| Inr of 'b

(** val fst : ('a1 * 'a2) -> 'a1 **)

let fst = function
| (x, _) -> x

(** val snd : ('a1 * 'a2) -> 'a2 **)

let snd = function
| (_, y) -> y

(** val length : 'a1 list -> nat **)

let rec length = function
| [] -> O
| _ :: l' -> S (length l')

(** val app : 'a1 list -> 'a1 list -> 'a1 list **)

let rec app l m =
  match l with
  | [] -> m
  | a :: l1 -> a :: (app l1 m)

type comparison =
| Eq
| Lt
| Gt

(** val compOpp : comparison -> comparison **)

let compOpp = function
| Eq -> Eq
| Lt -> Gt
| Gt -> Lt

type positive =
| XI of positive
| XO of positive
| XH

type n =
| N0
| Npos of positive

type z =
| Z0
| Zpos of positive
| Zneg of positive

(** val eqb : bool -> bool -> bool **)

let eqb b1 b2 =
  if b1 then b2 else if b2 then false else true

module Nat =
 struct
  (** val eqb : nat -> nat -> bool **)

  let rec eqb n0 m =
    match n0 with
    | O -> (match m with
            | O -> true
            | S _ -> false)
    | S n' -> (match m with
               | O -> false
               | S m' -> eqb n' m')
 end

module Pos =
 struct
  (** val succ : positive -> positive **)

  let rec succ = function
  | XI p -> XO (succ p)
  | XO p -> XI p
  | XH -> XO XH

  (** val compare_cont : comparison -> positive -> positive -> comparison **)

  let rec compare_cont r x y =
    match x with
    | XI p ->
      (match y with
       | XI q -> compare_cont r p q
       | XO q -> compare_cont Gt p q
       | XH -> Gt)
    | XO p ->
      (match y with
       | XI q -> compare_cont Lt p q
       | XO q -> compare_cont r p q
       | XH -> Gt)
    | XH -> (match y with
             | XH -> r
             | _ -> Lt)

  (** val compare : positive -> positive -> comparison **)

  let compare =
    compare_cont Eq

  (** val eqb : positive -> positive -> bool **)

  let rec eqb p q =
    match p with
    | XI p0 -> (match q with
                | XI q0 -> eqb p0 q0
                | _ -> false)
    | XO p0 -> (match q with
                | XO q0 -> eqb p0 q0
                | _ -> false)
    | XH -> (match q with
             | XH -> true
             | _ -> false)

  (** val of_succ_nat : nat -> positive **)

  let rec of_succ_nat = function
  | O -> XH
  | S x -> succ (of_succ_nat x)
 end

module Z =
 struct
  (** val compare : z -> z -> comparison **)

  let compare x y =
    match x with
    | Z0 -> (match y with
             | Z0 -> Eq
             | Zpos _ -> Lt
             | Zneg _ -> Gt)
    | Zpos x' -> (match y with
                  | Zpos y' -> Pos.compare x' y'
                  | _ -> Gt)
    | Zneg x' ->
      (match y with
       | Zneg y' -> compOpp (Pos.compare x' y')
       | _ -> Lt)

  (** val ltb : z -> z -> bool **)

  let ltb x y =
    match compare x y with
    | Lt -> true
    | _ -> false

  (** val eqb : z -> z -> bool **)

  let eqb x y =
    match x with
    | Z0 -> (match y with
             | Z0 -> true
             | _ -> false)
    | Zpos p -> (match y with
                 | Zpos q -> Pos.eqb p q
                 | _ -> false)
    | Zneg p -> (match y with
                 | Zneg q -> Pos.eqb p q
                 | _ -> false)

  (** val of_nat : nat -> z **)

  let of_nat = function
  | O -> Z0
  | S n1 -> Zpos (Pos.of_succ_nat n1)
 end

(** val hd : 'a1 -> 'a1 list -> 'a1 **)

let hd default = function
| [] -> default
| x :: _ -> x

(** val tl : 'a1 list -> 'a1 list **)

let tl = function
| [] -> []
| _ :: m -> m

(** val map : ('a1 -> 'a2) -> 'a1 list -> 'a2 list **)

let rec map f = function
| [] -> []
| a :: t -> (f a) :: (map f t)

(** val flat_map : ('a1 -> 'a2 list) -> 'a1 list -> 'a2 list **)

let rec flat_map f = function
| [] -> []
| x :: t -> app (f x) (flat_map f t)

(** val fold_left : ('a1 -> 'a2 -> 'a1) -> 'a2 list -> 'a1 -> 'a1 **)

let rec fold_left f l a0 =
  match l with
  | [] -> a0
  | b :: t -> fold_left f t (f a0 b)

(** val fold_right : ('a2 -> 'a1 -> 'a1) -> 'a1 -> 'a2 list -> 'a1 **)

let rec fold_right f a0 = function
| [] -> a0
| b :: t -> f b (fold_right f a0 t)

(** val existsb : ('a1 -> bool) -> 'a1 list -> bool **)

let rec existsb f = function
| [] -> false
| a :: l0 -> (||) (f a) (existsb f l0)

(** val forallb : ('a1 -> bool) -> 'a1 list -> bool **)

let rec forallb f = function
| [] -> true
| a :: l0 -> (&&) (f a) (forallb f l0)

(** val ex_keep :
    (((((nat * n) * z) * z list) * z option) * positive) * bool **)

let ex_keep =
  ((((((O, N0), Z0), []), None), XH), true)

type val0 = z

type exn = z

type event =
| EvOp of z
| EvCmp of z * val0 * val0
| EvTruth of val0

type 'a outcome =
| OVal of 'a
| ORaise of exn
| OUndef

type operand = { o_id : z; o_log : bool; o_res : (val0, exn) sum }

(** val ev_of : operand -> event list **)

let ev_of o =
  if o.o_log then (EvOp o.o_id) :: [] else []

type cascade = operand * (z * operand) list

type code =
| CEnd
| CEval of nat * operand * code
| CCmp of z * nat * nat * code
| CIfTrue of code

(** val gen_cascade : nat -> (z * operand) list -> code **)

let rec gen_cascade i = function
| [] -> CEnd
| p :: rest ->
  let (op, e) = p in
  CIfTrue (CEval ((S i), e, (CCmp (op, i, (S i), (gen_cascade (S i) rest)))))

(** val gen_primary : cascade -> code **)

let gen_primary c =
  match snd c with
  | [] -> CEval (O, (fst c), CEnd)
  | p :: rest ->
    let (op, e1) = p in
    CEval (O, (fst c), (CEval ((S O), e1, (CCmp (op, O, (S O),
    (gen_cascade (S O) rest))))))

(** val upd : (nat -> val0 option) -> nat -> val0 -> nat -> val0 option **)

let upd temps t v j =
  if Nat.eqb j t then Some v else temps j

(** val ref_links :
    (z -> val0 -> val0 -> (val0, exn) sum) -> (val0 -> (bool, exn) sum) ->
    val0 -> (z * operand) list -> event list -> event list * val0 outcome **)

let rec ref_links cmp truth vl links tr =
  match links with
  | [] -> (tr, (OVal vl))
  | p :: rest ->
    let (op, e) = p in
    let tr1 = app tr (ev_of e) in
    (match e.o_res with
     | Inl vr ->
       let tr2 = app tr1 ((EvCmp (op, vl, vr)) :: []) in
       (match cmp op vl vr with
        | Inl r ->
          (match rest with
           | [] -> (tr2, (OVal r))
           | _ :: _ ->
             let tr3 = app tr2 ((EvTruth r) :: []) in
             (match truth r with
              | Inl b ->
                if b then ref_links cmp truth vr rest tr3 else (tr3, (OVal r))
              | Inr x -> (tr3, (ORaise x))))
        | Inr x -> (tr2, (ORaise x)))
     | Inr x -> (tr1, (ORaise x)))

(** val ref_cascade :
    (z -> val0 -> val0 -> (val0, exn) sum) -> (val0 -> (bool, exn) sum) ->
    cascade -> event list * val0 outcome **)

let ref_cascade cmp truth c =
  let tr0 = ev_of (fst c) in
  (match (fst c).o_res with
   | Inl v0 -> ref_links cmp truth v0 (snd c) tr0
   | Inr x -> (tr0, (ORaise x)))

(** val exec :
    (z -> val0 -> val0 -> (val0, exn) sum) -> (val0 -> (bool, exn) sum) ->
    bool -> code -> (nat -> val0 option) -> val0 option -> event list ->
    event list * val0 outcome **)

let rec exec cmp truth chk c temps res tr =
  match c with
  | CEnd -> (tr, (match res with
                  | Some r -> OVal r
                  | None -> OUndef))
  | CEval (t, e, k) ->
    let tr1 = app tr (ev_of e) in
    (match e.o_res with
     | Inl v -> exec cmp truth chk k (upd temps t v) res tr1
     | Inr x -> (tr1, (ORaise x)))
  | CCmp (op, t1, t2, k) ->
    (match temps t1 with
     | Some a ->
       (match temps t2 with
        | Some b ->
          let tr1 = app tr ((EvCmp (op, a, b)) :: []) in
          (match cmp op a b with
           | Inl r -> exec cmp truth chk k temps (Some r) tr1
           | Inr x -> (tr1, (ORaise x)))
        | None -> (tr, OUndef))
     | None -> (tr, OUndef))
  | CIfTrue k ->
    (match res with
     | Some r ->
       let tr1 = app tr ((EvTruth r) :: []) in
       (match truth r with
        | Inl b ->
          if b then exec cmp truth chk k temps res tr1 else (tr1, (OVal r))
        | Inr x -> (tr1, (if chk then ORaise x else OUndef)))
     | None -> (tr, OUndef))

(** val run_cascade :
    (z -> val0 -> val0 -> (val0, exn) sum) -> (val0 -> (bool, exn) sum) ->
    bool -> cascade -> event list * val0 outcome **)

let run_cascade cmp truth chk c =
  exec cmp truth chk (gen_primary c) (fun _ -> None) None []

type ckind =
| KTuple
| KList
| KSet

type member = { m_simple : bool; m_starred : bool; m_unhash : bool;
                m_op : operand }

type intest = { i_not : bool; i_lhs : operand; i_lhs_simple : bool;
                i_kind : ckind; i_members : member list }

type atom =
| ARef of nat
| AInl of operand

type texpr =
| TBool of bool
| TCmp of bool * atom * atom
| TOr of texpr * texpr
| TAnd of texpr * texpr
| TLet of nat * operand * texpr
| TGeneric of intest

(** val conds_from : bool -> nat -> member list -> texpr list **)

let rec conds_from neg i = function
| [] -> []
| m :: rest ->
  (TCmp (neg, (ARef O),
    (if m.m_simple then AInl m.m_op else ARef i))) :: (conds_from neg (S i)
                                                        rest)

(** val lets_from : nat -> member list -> texpr -> texpr **)

let rec lets_from i ms body =
  match ms with
  | [] -> body
  | m :: rest ->
    if m.m_simple
    then lets_from (S i) rest body
    else TLet (i, m.m_op, (lets_from (S i) rest body))

(** val is_set : ckind -> bool **)

let is_set = function
| KSet -> true
| _ -> false

(** val flatten : bool -> intest -> texpr **)

let flatten lhs_outer e =
  match e.i_members with
  | [] -> if e.i_lhs_simple then TBool e.i_not else TGeneric e
  | _ :: _ ->
    if existsb (fun m -> m.m_starred) e.i_members
    then TGeneric e
    else if (&&) (is_set e.i_kind) (existsb (fun m -> m.m_unhash) e.i_members)
         then TGeneric e
         else let conds = conds_from e.i_not (S O) e.i_members in
              let condition =
                fold_left (fun x x0 ->
                  if e.i_not then TAnd (x, x0) else TOr (x, x0)) (tl conds)
                  (hd (TBool false) conds)
              in
              if lhs_outer
              then TLet (O, e.i_lhs, (lets_from (S O) e.i_members condition))
              else lets_from (S O) e.i_members (TLet (O, e.i_lhs, condition))

(** val eval_members :
    member list -> event list -> event list * (val0 list, exn) sum **)

let rec eval_members ms tr =
  match ms with
  | [] -> (tr, (Inl []))
  | m :: rest ->
    let tr1 = app tr (ev_of m.m_op) in
    (match m.m_op.o_res with
     | Inl v ->
       let (tr2, s) = eval_members rest tr1 in
       (match s with
        | Inl vs -> (tr2, (Inl (v :: vs)))
        | Inr x -> (tr2, (Inr x)))
     | Inr x -> (tr1, (Inr x)))

(** val contains :
    (val0 -> val0 -> bool) -> (val0 -> val0 -> bool) -> val0 -> val0 list ->
    bool **)

let contains same eqb0 x vs =
  existsb (fun it -> (||) (same it x) (eqb0 it x)) vs

(** val ref_in :
    (val0 -> val0 -> bool) -> (val0 -> val0 -> bool) -> (val0 -> bool) -> exn
    -> intest -> event list * bool outcome **)

let ref_in same eqb0 hashable type_error e =
  let tr0 = ev_of e.i_lhs in
  (match e.i_lhs.o_res with
   | Inl x ->
     let (tr1, s) = eval_members e.i_members tr0 in
     (match s with
      | Inl vs ->
        if (&&) (is_set e.i_kind)
             (negb ((&&) (forallb hashable vs) (hashable x)))
        then (tr1, (ORaise type_error))
        else (tr1, (OVal (xorb e.i_not (contains same eqb0 x vs))))
      | Inr ex -> (tr1, (ORaise ex)))
   | Inr x -> (tr0, (ORaise x)))

(** val eval_atom :
    (nat -> val0 option) -> atom -> event list -> event list * val0 outcome **)

let eval_atom env a tr =
  match a with
  | ARef t -> (tr, (match env t with
                    | Some v -> OVal v
                    | None -> OUndef))
  | AInl o ->
    ((app tr (ev_of o)),
      (match o.o_res with
       | Inl v -> OVal v
       | Inr x -> ORaise x))

(** val eval_t :
    (val0 -> val0 -> bool) -> (val0 -> val0 -> bool) -> (val0 -> bool) -> exn
    -> texpr -> (nat -> val0 option) -> event list -> event list * bool
    outcome **)

let rec eval_t same eqb0 hashable type_error e env tr =
  match e with
  | TBool b -> (tr, (OVal b))
  | TCmp (neg, a, b) ->
    let (tr1, o) = eval_atom env a tr in
    (match o with
     | OVal va ->
       let (tr2, o0) = eval_atom env b tr1 in
       (match o0 with
        | OVal vb -> (tr2, (OVal (xorb neg (eqb0 va vb))))
        | ORaise x -> (tr2, (ORaise x))
        | OUndef -> (tr2, OUndef))
     | ORaise x -> (tr1, (ORaise x))
     | OUndef -> (tr1, OUndef))
  | TOr (a, b) ->
    let (tr1, o) = eval_t same eqb0 hashable type_error a env tr in
    (match o with
     | OVal a0 ->
       if a0
       then (tr1, (OVal true))
       else eval_t same eqb0 hashable type_error b env tr1
     | x -> (tr1, x))
  | TAnd (a, b) ->
    let (tr1, o) = eval_t same eqb0 hashable type_error a env tr in
    (match o with
     | OVal a0 ->
       if a0
       then eval_t same eqb0 hashable type_error b env tr1
       else (tr1, (OVal false))
     | x -> (tr1, x))
  | TLet (t, o, body) ->
    let tr1 = app tr (ev_of o) in
    (match o.o_res with
     | Inl v -> eval_t same eqb0 hashable type_error body (upd env t v) tr1
     | Inr x -> (tr1, (ORaise x)))
  | TGeneric g ->
    let (tr1, r) = ref_in same eqb0 hashable type_error g in ((app tr tr1), r)

(** val run_flatten :
    (val0 -> val0 -> bool) -> (val0 -> val0 -> bool) -> (val0 -> bool) -> exn
    -> bool -> intest -> event list * bool outcome **)

let run_flatten same eqb0 hashable type_error lhs_outer e =
  eval_t same eqb0 hashable type_error (flatten lhs_outer e) (fun _ -> None)
    []

type ty =
| TyInt
| TyEnum
| TyCOther
| TyObj

type key =
| KInt of z
| KChr of z
| KName of z
| KNone

type label = { l_key : key; l_val : z; l_ty : ty }

type sop =
| SVar of z list * bool * ty
| SLit of label
| SConst of z * label
| SOther of z * ty

type cop =
| CopEq
| CopNe
| CopOther

type cond =
| CCmpC of cop * sop * sop * bool
| CInStr of bool * sop * bool * z list
| COr of cond * cond
| CAnd of cond * cond
| CWrap of cond
| COther of z
| CSw of bool * sop * label list

(** val sop_ty : sop -> ty **)

let sop_ty = function
| SVar (_, _, t) -> t
| SLit l -> l.l_ty
| SConst (_, l) -> l.l_ty
| SOther (_, t) -> t

(** val is_intlike : ty -> bool **)

let is_intlike = function
| TyInt -> true
| TyEnum -> true
| _ -> false

(** val is_int : ty -> bool **)

let is_int = function
| TyInt -> true
| _ -> false

(** val is_obj : ty -> bool **)

let is_obj = function
| TyObj -> true
| _ -> false

(** val zlist_eqb : z list -> z list -> bool **)

let rec zlist_eqb a b =
  match a with
  | [] -> (match b with
           | [] -> true
           | _ :: _ -> false)
  | x :: a' ->
    (match b with
     | [] -> false
     | y :: b' -> (&&) (Z.eqb x y) (zlist_eqb a' b'))

(** val sop_path : sop -> z list option **)

let sop_path = function
| SVar (p, py, _) ->
  if (&&) py (Z.ltb (Zpos XH) (Z.of_nat (length p))) then None else Some p
| SConst (n0, _) -> Some (n0 :: [])
| _ -> None

(** val is_common : sop -> sop -> bool **)

let is_common a b =
  match sop_path a with
  | Some p -> (match sop_path b with
               | Some q -> zlist_eqb p q
               | None -> false)
  | None -> false

(** val as_label : sop -> label option **)

let as_label = function
| SLit l -> Some l
| SConst (_, l) -> Some l
| _ -> None

(** val ins_sorted : z -> z list -> z list **)

let rec ins_sorted x l = match l with
| [] -> x :: []
| y :: r ->
  if Z.ltb x y then x :: l else if Z.eqb x y then l else y :: (ins_sorted x r)

(** val sort_dedup : z list -> z list **)

let sort_dedup l =
  fold_right ins_sorted [] l

(** val string_labels : bool -> z list -> label list **)

let string_labels isbytes chars =
  map (fun c -> { l_key = (if isbytes then KChr c else KInt c); l_val = c;
    l_ty = TyInt }) (sort_dedup chars)

(** val extract :
    bool -> cond -> bool -> ((bool * sop) * label list) option **)

let rec extract fix_and c allow =
  match c with
  | CCmpC (op, a, b, casc) ->
    if casc
    then None
    else if (||) (is_obj (sop_ty a)) (is_obj (sop_ty b))
         then None
         else (match op with
               | CopEq ->
                 let ni = false in
                 (match if is_common a a then as_label b else None with
                  | Some l -> Some ((ni, a), (l :: []))
                  | None ->
                    (match if is_common b b then as_label a else None with
                     | Some l -> Some ((ni, b), (l :: []))
                     | None -> None))
               | CopNe ->
                 if allow
                 then let ni = true in
                      (match if is_common a a then as_label b else None with
                       | Some l -> Some ((ni, a), (l :: []))
                       | None ->
                         (match if is_common b b then as_label a else None with
                          | Some l -> Some ((ni, b), (l :: []))
                          | None -> None))
                 else None
               | CopOther -> None)
  | CInStr (neg, a, isbytes, chars) ->
    if is_int (sop_ty a)
    then if (&&) neg (negb allow)
         then None
         else Some ((neg, a), (string_labels isbytes chars))
    else None
  | COr (a, b) ->
    (match extract fix_and a false with
     | Some p ->
       let (p0, c1) = p in
       let (n1, t1) = p0 in
       (match extract fix_and b false with
        | Some p1 ->
          let (p2, c2) = p1 in
          let (n2, t2) = p2 in
          if (&&) (eqb n1 n2) (is_common t1 t2)
          then if negb n1 then Some ((n1, t1), (app c1 c2)) else None
          else None
        | None -> None)
     | None -> None)
  | CAnd (a, b) ->
    if allow
    then (match extract fix_and a true with
          | Some p ->
            let (p0, c1) = p in
            let (n1, t1) = p0 in
            (match extract fix_and b true with
             | Some p1 ->
               let (p2, c2) = p1 in
               let (n2, t2) = p2 in
               if (&&) (eqb n1 n2) (is_common t1 t2)
               then if if fix_and then n1 else true
                    then Some ((n1, t1), (app c1 c2))
                    else None
               else None
             | None -> None)
          | None -> None)
    else None
  | CWrap c' -> extract fix_and c' allow
  | _ -> None

(** val extract_common :
    bool -> sop option -> cond -> bool -> ((bool * sop) * label list) option **)

let extract_common fix_and common c allow =
  match extract fix_and c allow with
  | Some p ->
    let (p0, ls) = p in
    let (ni, v) = p0 in
    if match common with
       | Some cv -> negb (is_common v cv)
       | None -> false
    then None
    else if (||) (negb (is_intlike (sop_ty v)))
              (negb (forallb (fun l -> is_intlike l.l_ty) ls))
         then None
         else Some ((ni, v), ls)
  | None -> None

(** val key_eqb : key -> key -> bool **)

let key_eqb a b =
  match a with
  | KInt x -> (match b with
               | KInt y -> Z.eqb x y
               | _ -> false)
  | KChr x -> (match b with
               | KChr y -> Z.eqb x y
               | _ -> false)
  | KName x -> (match b with
                | KName y -> Z.eqb x y
                | _ -> false)
  | KNone -> false

(** val has_dup : key list -> label list -> bool **)

let rec has_dup seen = function
| [] -> false
| l :: rest ->
  (match l.l_key with
   | KNone -> true
   | x -> if existsb (key_eqb x) seen then true else has_dup (x :: seen) rest)

(** val try_expr : bool -> cond -> cond option **)

let try_expr fix_and c =
  match extract_common fix_and None c true with
  | Some p ->
    let (p0, ls) = p in
    let (ni, v) = p0 in
    if (||) (Z.ltb (Z.of_nat (length ls)) (Zpos (XO XH))) (has_dup [] ls)
    then None
    else Some (CSw (ni, v, ls))
  | None -> None

(** val xform : bool -> cond -> cond **)

let rec xform fix_and c =
  match try_expr fix_and c with
  | Some c' -> c'
  | None ->
    (match c with
     | COr (a, b) -> COr ((xform fix_and a), (xform fix_and b))
     | CAnd (a, b) -> CAnd ((xform fix_and a), (xform fix_and b))
     | CWrap c' -> CWrap (xform fix_and c')
     | _ -> c)

type clause = { c_cond : cond; c_body : z }

type stmt =
| SIf of clause list * z option
| SSwitch of sop * (label list * z) list * z option

(** val collect :
    bool -> sop option -> clause list -> (sop option * (label list * z) list)
    option **)

let rec collect fix_and common = function
| [] -> Some (common, [])
| cl :: rest ->
  (match extract_common fix_and common cl.c_cond false with
   | Some p ->
     let (p0, ls) = p in
     let (_, v) = p0 in
     (match collect fix_and (Some v) rest with
      | Some p1 ->
        let (cv, cases) = p1 in Some (cv, ((ls, cl.c_body) :: cases))
      | None -> None)
   | None -> None)

(** val all_labels : (label list * z) list -> label list **)

let all_labels cases =
  flat_map fst cases

(** val to_switch : bool -> clause list -> z option -> stmt option **)

let to_switch fix_and cls els =
  match collect fix_and None cls with
  | Some p ->
    let (o, cases) = p in
    (match o with
     | Some cv ->
       if (||) (Z.ltb (Z.of_nat (length (all_labels cases))) (Zpos (XO XH)))
            (has_dup [] (all_labels cases))
       then None
       else Some (SSwitch (cv, cases, els))
     | None -> None)
  | None -> None

(** val visit_if : bool -> clause list -> z option -> stmt **)

let visit_if fix_and cls els =
  match to_switch fix_and cls els with
  | Some s -> s
  | None ->
    SIf
      ((map (fun cl -> { c_cond = (xform fix_and cl.c_cond); c_body =
         cl.c_body }) cls), els)

(** val eval_sop : (z list -> z) -> (z -> z) -> sop -> event list * z **)

let eval_sop envv envo = function
| SVar (p, _, _) -> ([], (envv p))
| SLit l -> ([], l.l_val)
| SConst (_, l) -> ([], l.l_val)
| SOther (id, _) -> (((EvOp id) :: []), (envo id))

(** val memv : z -> label list -> bool **)

let memv v ls =
  existsb (fun l -> Z.eqb l.l_val v) ls

(** val eval_cond :
    (z list -> z) -> (z -> z) -> (z -> bool) -> cond -> event list * bool **)

let rec eval_cond envv envo envb = function
| CCmpC (op, a, b, _) ->
  let (ta, va) = eval_sop envv envo a in
  let (tb, vb) = eval_sop envv envo b in
  ((app ta tb),
  (match op with
   | CopEq -> Z.eqb va vb
   | CopNe -> negb (Z.eqb va vb)
   | CopOther -> Z.ltb va vb))
| CInStr (neg, a, _, chars) ->
  let (ta, va) = eval_sop envv envo a in
  (ta, (xorb neg (existsb (Z.eqb va) chars)))
| COr (a, b) ->
  let (ta, ra) = eval_cond envv envo envb a in
  if ra
  then (ta, true)
  else let (tb, rb) = eval_cond envv envo envb b in ((app ta tb), rb)
| CAnd (a, b) ->
  let (ta, ra) = eval_cond envv envo envb a in
  if ra
  then let (tb, rb) = eval_cond envv envo envb b in ((app ta tb), rb)
  else (ta, false)
| CWrap c' -> eval_cond envv envo envb c'
| COther id -> (((EvOp id) :: []), (envb id))
| CSw (ni, s, ls) ->
  let (ts, v) = eval_sop envv envo s in (ts, (xorb ni (memv v ls)))

(** val exec_clauses :
    (z list -> z) -> (z -> z) -> (z -> bool) -> clause list -> z option ->
    event list * z option **)

let rec exec_clauses envv envo envb cls els =
  match cls with
  | [] -> ([], els)
  | cl :: rest ->
    let (t, r) = eval_cond envv envo envb cl.c_cond in
    if r
    then (t, (Some cl.c_body))
    else let (t2, b) = exec_clauses envv envo envb rest els in ((app t t2), b)

(** val find_case : z -> (label list * z) list -> z option **)

let rec find_case v = function
| [] -> None
| p :: rest ->
  let (ls, b) = p in if memv v ls then Some b else find_case v rest

(** val exec_stmt :
    (z list -> z) -> (z -> z) -> (z -> bool) -> stmt -> event list * z option **)

let exec_stmt envv envo envb = function
| SIf (cls, els) -> exec_clauses envv envo envb cls els
| SSwitch (subj, cases, els) ->
  let (t, v) = eval_sop envv envo subj in
  (t, (match find_case v cases with
       | Some b -> Some b
       | None -> els))

(** val nodupz : z list -> bool **)

let rec nodupz = function
| [] -> true
| x :: r -> (&&) (negb (existsb (Z.eqb x) r)) (nodupz r)

(** val cond_valid : cond -> bool **)

let rec cond_valid = function
| COr (a, b) -> (&&) (cond_valid a) (cond_valid b)
| CAnd (a, b) -> (&&) (cond_valid a) (cond_valid b)
| CWrap c' -> cond_valid c'
| CSw (_, _, ls) -> nodupz (map (fun l -> l.l_val) ls)
| _ -> true

(** val stmt_valid : stmt -> bool **)

let stmt_valid = function
| SIf (cls, _) -> forallb (fun cl -> cond_valid cl.c_cond) cls
| SSwitch (_, cases, _) -> nodupz (map (fun l -> l.l_val) (all_labels cases))
