
(** val negb : bool -> bool **)

let negb = function
| true -> false
| false -> true

type nat =
| O
| S of nat

(** val fst : ('a1 * 'a2) -> 'a1 **)

let fst = function
| (x, _) -> x

(** val snd : ('a1 * 'a2) -> 'a2 **)

let snd = function
| (_, y) -> y

(** val app : 'a1 list -> 'a1 list -> 'a1 list **)

let rec app l m =
  match l with
  | [] -> m
  | a :: l1 -> a :: (app l1 m)

type comparison =
| Eq
| Lt
| Gt

(** val compOpp : comparison -> comparison **)

let compOpp = function
| Eq -> Eq
| Lt -> Gt
| Gt -> Lt

type positive =
| XI of positive
| XO of positive
| XH

type n =
| N0
| Npos of positive

type z =
| Z0
| Zpos of positive
| Zneg of positive

module Pos =
 struct
  (** val compare_cont : comparison -> positive -> positive -> comparison **)

  let rec compare_cont r x y =
    match x with
    | XI p ->
      (match y with
       | XI q -> compare_cont r p q
       | XO q -> compare_cont Gt p q
       | XH -> Gt)
    | XO p ->
      (match y with
       | XI q -> compare_cont Lt p q
       | XO q -> compare_cont r p q
       | XH -> Gt)
    | XH -> (match y with
             | XH -> r
             | _ -> Lt)

  (** val compare : positive -> positive -> comparison **)

  let compare =
    compare_cont Eq

  (** val eqb : positive -> positive -> bool **)

  let rec eqb p q =
    match p with
    | XI p0 -> (match q with
                | XI q0 -> eqb p0 q0
                | _ -> false)
    | XO p0 -> (match q with
                | XO q0 -> eqb p0 q0
                | _ -> false)
    | XH -> (match q with
             | XH -> true
             | _ -> false)
 end

(** val map : ('a1 -> 'a2) -> 'a1 list -> 'a2 list **)

let rec map f = function
| [] -> []
| a :: t -> (f a) :: (map f t)

(** val existsb : ('a1 -> bool) -> 'a1 list -> bool **)

let rec existsb f = function
| [] -> false
| a :: l0 -> (||) (f a) (existsb f l0)

(** val filter : ('a1 -> bool) -> 'a1 list -> 'a1 list **)

let rec filter f = function
| [] -> []
| x :: l0 -> if f x then x :: (filter f l0) else filter f l0

module Z =
 struct
  (** val compare : z -> z -> comparison **)

  let compare x y =
    match x with
    | Z0 -> (match y with
             | Z0 -> Eq
             | Zpos _ -> Lt
             | Zneg _ -> Gt)
    | Zpos x' -> (match y with
                  | Zpos y' -> Pos.compare x' y'
                  | _ -> Gt)
    | Zneg x' ->
      (match y with
       | Zneg y' -> compOpp (Pos.compare x' y')
       | _ -> Lt)

  (** val leb : z -> z -> bool **)

  let leb x y =
    match compare x y with
    | Gt -> false
    | _ -> true

  (** val ltb : z -> z -> bool **)

  let ltb x y =
    match compare x y with
    | Lt -> true
    | _ -> false

  (** val geb : z -> z -> bool **)

  let geb x y =
    match compare x y with
    | Lt -> false
    | _ -> true

  (** val gtb : z -> z -> bool **)

  let gtb x y =
    match compare x y with
    | Gt -> true
    | _ -> false

  (** val eqb : z -> z -> bool **)

  let eqb x y =
    match x with
    | Z0 -> (match y with
             | Z0 -> true
             | _ -> false)
    | Zpos p -> (match y with
                 | Zpos q -> Pos.eqb p q
                 | _ -> false)
    | Zneg p -> (match y with
                 | Zneg q -> Pos.eqb p q
                 | _ -> false)
 end

(** val ex_keep :
    (((((nat * n) * z) * z list) * z option) * positive) * bool **)

let ex_keep =
  ((((((O, N0), Z0), []), None), XH), true)

type name = n

type dkind =
| DNone
| DValue
| DFactory

type field = { f_name : name; f_default : dkind; f_init : bool;
               f_repr : bool; f_cmp : bool; f_hash : bool option;
               f_kw : bool option; f_initvar : bool }

type opts = { o_init : bool; o_repr : bool; o_eq : bool; o_order : bool;
              o_unsafe_hash : bool; o_frozen : bool; o_match_args : bool;
              o_kw_only : bool }

type class_hash =
| HMissing
| HNone
| HDef

type user = { u_init : bool; u_repr : bool; u_eq : bool; u_hash : class_hash;
              u_match_args : bool; u_post_init : bool }

type pkind =
| PPos
| PKw

type param = (name * pkind) * bool

type sigres =
| SigNone
| SigErr of name
| SigOk of param list

(** val has_default : field -> bool **)

let has_default f =
  match f.f_default with
  | DNone -> false
  | _ -> true

(** val sig_cons : param option -> sigres -> sigres **)

let sig_cons p r =
  match p with
  | Some q -> (match r with
               | SigOk ps -> SigOk (q :: ps)
               | _ -> r)
  | None -> r

(** val cy_init_loop : bool -> bool -> field list -> sigres **)

let rec cy_init_loop kw seen = function
| [] -> SigOk []
| f :: r ->
  let k = if kw then PKw else PPos in
  if has_default f
  then sig_cons (if f.f_init then Some ((f.f_name, k), true) else None)
         (cy_init_loop kw (if f.f_init then true else seen) r)
  else if (&&) ((&&) seen (negb kw)) f.f_init
       then SigErr f.f_name
       else sig_cons (if f.f_init then Some ((f.f_name, k), false) else None)
              (cy_init_loop kw seen r)

(** val cy_init_sig : opts -> user -> field list -> sigres **)

let cy_init_sig o u fs =
  if (||) (negb o.o_init) u.u_init
  then SigNone
  else cy_init_loop o.o_kw_only false fs

(** val names : field list -> name list **)

let names fs =
  map (fun f -> f.f_name) fs

(** val cy_repr_fields : opts -> user -> field list -> name list option **)

let cy_repr_fields o u fs =
  if (||) (negb o.o_repr) u.u_repr
  then None
  else Some (names (filter (fun f -> (&&) f.f_repr (negb f.f_initvar)) fs))

(** val cy_cmp_names : field list -> name list **)

let cy_cmp_names fs =
  names (filter (fun f -> (&&) f.f_cmp (negb f.f_initvar)) fs)

(** val cy_eq_fields : opts -> user -> field list -> name list option **)

let cy_eq_fields o u fs =
  if (||) (negb o.o_eq) u.u_eq then None else Some (cy_cmp_names fs)

(** val cy_order_fields : opts -> field list -> name list option **)

let cy_order_fields o fs =
  if o.o_order then Some (cy_cmp_names fs) else None

(** val hash_flag : field -> bool **)

let hash_flag f =
  match f.f_hash with
  | Some b -> b
  | None -> f.f_cmp

(** val cy_hash_flag : bool -> field -> bool **)

let cy_hash_flag hx f =
  if hx then hash_flag f else (match f.f_hash with
                               | Some b -> b
                               | None -> true)

(** val cy_hash_names : bool -> field list -> name list **)

let cy_hash_names hx fs =
  names (filter (fun f -> (&&) (negb f.f_initvar) (cy_hash_flag hx f)) fs)

type action =
| ANothing
| ASetNone
| AAdd
| ARaise

(** val cy_hash_action : bool -> bool -> bool -> bool -> action **)

let cy_hash_action unsafe eq frozen = function
| true -> if unsafe then ARaise else ANothing
| false ->
  if negb unsafe
  then if negb eq then ANothing else if negb frozen then ASetNone else AAdd
  else AAdd

(** val cy_explicit_hash : user -> bool **)

let cy_explicit_hash u =
  match u.u_hash with
  | HMissing -> false
  | _ -> true

type hashres =
| HKeep
| HSetNone
| HAdd of name list
| HErr

(** val hash_of_action : action -> name list -> hashres **)

let hash_of_action a ns =
  match a with
  | ANothing -> HKeep
  | ASetNone -> HSetNone
  | AAdd -> HAdd ns
  | ARaise -> HErr

(** val cy_hash : bool -> opts -> user -> field list -> hashres **)

let cy_hash hx o u fs =
  hash_of_action
    (cy_hash_action o.o_unsafe_hash o.o_eq o.o_frozen (cy_explicit_hash u))
    (cy_hash_names hx fs)

(** val cy_match_args :
    bool -> opts -> user -> field list -> name list option **)

let cy_match_args mx o u fs =
  if (||) (negb o.o_match_args) u.u_match_args
  then None
  else Some
         (if o.o_kw_only
          then []
          else names (if mx then filter (fun f -> f.f_init) fs else fs))

type src =
| SParam
| SParamOrFactory
| SDefault
| SFactory
| SUnset
| SZero

(** val cy_src : field -> src **)

let cy_src f =
  match f.f_default with
  | DNone -> if f.f_init then SParam else SZero
  | DValue -> if f.f_init then SParam else SDefault
  | DFactory -> if f.f_init then SParamOrFactory else SFactory

(** val real_fields : field list -> field list **)

let real_fields fs =
  filter (fun f -> negb f.f_initvar) fs

(** val cy_body : field list -> (name * src) list **)

let cy_body fs =
  map (fun f -> (f.f_name, (cy_src f))) (real_fields fs)

(** val post_init_args : user -> field list -> name list option **)

let post_init_args u fs =
  if u.u_post_init
  then Some (names (filter (fun f -> f.f_initvar) fs))
  else None

(** val is_some : 'a1 option -> bool **)

let is_some = function
| Some _ -> true
| None -> false

(** val is_sigerr : sigres -> bool **)

let is_sigerr = function
| SigErr _ -> true
| _ -> false

(** val is_herr : hashres -> bool **)

let is_herr = function
| HErr -> true
| _ -> false

(** val cy_rejected : opts -> user -> field list -> bool **)

let cy_rejected o u fs =
  (||)
    ((||) (existsb (fun f -> is_some f.f_kw) fs)
      (is_sigerr (cy_init_sig o u fs))) (is_herr (cy_hash true o u fs))

(** val eff_kw : opts -> field -> bool **)

let eff_kw o f =
  match f.f_kw with
  | Some b -> b
  | None -> o.o_kw_only

(** val py_std : opts -> field list -> field list **)

let py_std o fs =
  filter (fun f -> (&&) f.f_init (negb (eff_kw o f))) fs

(** val py_kwf : opts -> field list -> field list **)

let py_kwf o fs =
  filter (fun f -> (&&) f.f_init (eff_kw o f)) fs

(** val py_check : bool -> field list -> name option **)

let rec py_check seen = function
| [] -> None
| f :: r ->
  if f.f_init
  then if has_default f
       then py_check true r
       else if seen then Some f.f_name else py_check seen r
  else py_check seen r

(** val py_param : pkind -> field -> param **)

let py_param k f =
  ((f.f_name, k), (has_default f))

(** val py_init_sig : opts -> user -> field list -> sigres **)

let py_init_sig o u fs =
  if negb o.o_init
  then SigNone
  else (match py_check false (py_std o fs) with
        | Some n0 -> SigErr n0
        | None ->
          if u.u_init
          then SigNone
          else SigOk
                 (app (map (py_param PPos) (py_std o fs))
                   (map (py_param PKw) (py_kwf o fs))))

(** val py_repr_fields : opts -> user -> field list -> name list option **)

let py_repr_fields o u fs =
  if o.o_repr
  then if u.u_repr
       then None
       else Some (names (filter (fun f -> f.f_repr) (real_fields fs)))
  else None

(** val py_cmp_names : field list -> name list **)

let py_cmp_names fs =
  names (filter (fun f -> f.f_cmp) (real_fields fs))

(** val py_eq_fields : opts -> user -> field list -> name list option **)

let py_eq_fields o u fs =
  if o.o_eq then if u.u_eq then None else Some (py_cmp_names fs) else None

(** val py_order_fields : opts -> field list -> name list option **)

let py_order_fields o fs =
  if o.o_order then Some (py_cmp_names fs) else None

(** val py_hash_names : field list -> name list **)

let py_hash_names fs =
  names (filter hash_flag (real_fields fs))

(** val py_hash_action : bool -> bool -> bool -> bool -> action **)

let py_hash_action unsafe eq frozen expl =
  if unsafe
  then if expl then ARaise else AAdd
  else if eq
       then if frozen
            then if expl then ANothing else AAdd
            else if expl then ANothing else ASetNone
       else ANothing

(** val py_explicit_hash : user -> bool **)

let py_explicit_hash u =
  match u.u_hash with
  | HMissing -> false
  | HNone -> negb u.u_eq
  | HDef -> true

(** val py_hash : opts -> user -> field list -> hashres **)

let py_hash o u fs =
  hash_of_action
    (py_hash_action o.o_unsafe_hash o.o_eq o.o_frozen (py_explicit_hash u))
    (py_hash_names fs)

(** val py_match_args : opts -> user -> field list -> name list option **)

let py_match_args o u fs =
  if o.o_match_args
  then if u.u_match_args then None else Some (names (py_std o fs))
  else None

(** val py_src : field -> src **)

let py_src f =
  match f.f_default with
  | DNone -> if f.f_init then SParam else SUnset
  | DValue -> if f.f_init then SParam else SDefault
  | DFactory -> if f.f_init then SParamOrFactory else SFactory

(** val py_body : field list -> (name * src) list **)

let py_body fs =
  map (fun f -> (f.f_name, (py_src f))) (real_fields fs)

(** val is_factory : field -> bool **)

let is_factory f =
  match f.f_default with
  | DFactory -> true
  | _ -> false

(** val py_rejected : opts -> user -> field list -> bool **)

let py_rejected o u fs =
  (||)
    ((||)
      ((||) (existsb (fun f -> (&&) f.f_initvar (is_factory f)) fs)
        ((&&) o.o_order (negb o.o_eq))) (is_sigerr (py_init_sig o u fs)))
    (is_herr (py_hash o u fs))

type decisions = { d_rejected : bool; d_sig : sigres;
                   d_repr : name list option; d_eq : name list option;
                   d_order : name list option; d_hash : hashres;
                   d_match : name list option; d_body : (name * src) list;
                   d_post : name list option }

(** val cy_decide :
    bool -> bool -> opts -> user -> field list -> decisions **)

let cy_decide hx mx o u fs =
  { d_rejected = (cy_rejected o u fs); d_sig = (cy_init_sig o u fs); d_repr =
    (cy_repr_fields o u fs); d_eq = (cy_eq_fields o u fs); d_order =
    (cy_order_fields o fs); d_hash = (cy_hash hx o u fs); d_match =
    (cy_match_args mx o u fs); d_body = (cy_body fs); d_post =
    (post_init_args u fs) }

(** val py_decide : opts -> user -> field list -> decisions **)

let py_decide o u fs =
  { d_rejected = (py_rejected o u fs); d_sig = (py_init_sig o u fs); d_repr =
    (py_repr_fields o u fs); d_eq = (py_eq_fields o u fs); d_order =
    (py_order_fields o fs); d_hash = (py_hash o u fs); d_match =
    (py_match_args o u fs); d_body = (py_body fs); d_post =
    (post_init_args u fs) }

type cop =
| OLt
| OLe
| OGt
| OGe

(** val strict : cop -> cop **)

let strict = function
| OLt -> OLt
| OLe -> OLt
| _ -> OGt

(** val has_eq : cop -> bool **)

let has_eq = function
| OLt -> false
| OGt -> false
| _ -> true

(** val cy_order :
    ('a1 -> 'a1 -> bool) -> (cop -> 'a1 -> 'a1 -> bool option) -> cop ->
    ('a1 * 'a1) list -> bool option **)

let rec cy_order eqv rel c = function
| [] -> Some (has_eq c)
| p :: r ->
  let (x, y) = p in
  (match rel (strict c) x y with
   | Some b ->
     if b
     then Some true
     else if negb (eqv x y) then Some false else cy_order eqv rel c r
   | None -> None)

(** val py_order :
    ('a1 -> 'a1 -> bool) -> ('a1 -> 'a1 -> bool) -> (cop -> 'a1 -> 'a1 ->
    bool option) -> cop -> ('a1 * 'a1) list -> bool option **)

let rec py_order ident eqv rel c = function
| [] -> Some (has_eq c)
| p :: r ->
  let (x, y) = p in
  if (||) (ident x y) (eqv x y) then py_order ident eqv rel c r else rel c x y

(** val cy_equal : ('a1 -> 'a1 -> bool) -> ('a1 * 'a1) list -> bool **)

let rec cy_equal eqv = function
| [] -> true
| p :: r -> let (x, y) = p in if negb (eqv x y) then false else cy_equal eqv r

(** val py_equal :
    ('a1 -> 'a1 -> bool) -> ('a1 -> 'a1 -> bool) -> ('a1 * 'a1) list -> bool **)

let rec py_equal ident eqv = function
| [] -> true
| p :: r ->
  let (x, y) = p in
  if (||) (ident x y) (eqv x y) then py_equal ident eqv r else false

(** val oz_ident : z option -> z option -> bool **)

let oz_ident x y =
  match x with
  | Some a -> (match y with
               | Some b -> Z.eqb a b
               | None -> false)
  | None -> (match y with
             | Some _ -> false
             | None -> true)

(** val oz_rel : cop -> z option -> z option -> bool option **)

let oz_rel c x y =
  match x with
  | Some a ->
    (match y with
     | Some b ->
       Some
         (match c with
          | OLt -> Z.ltb a b
          | OLe -> Z.leb a b
          | OGt -> Z.gtb a b
          | OGe -> Z.geb a b)
     | None -> None)
  | None -> None

(** val nv_ident : (bool * z) -> (bool * z) -> bool **)

let nv_ident x y =
  Z.eqb (snd x) (snd y)

(** val nv_eqv : (bool * z) -> (bool * z) -> bool **)

let nv_eqv x y =
  (&&) ((&&) (negb (fst x)) (negb (fst y))) (Z.eqb (snd x) (snd y))
