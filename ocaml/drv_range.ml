(* driver for m_range (property C14).  Results:
     D <log>|<target or N>|<else 0/1>   loop finished      U  undefined behaviour in the C text
     F  out of fuel                                                                              *)
let string_of_lout = function
  | Done ((log, tgt), e) ->
      "D " ^ string_of_zlist log ^ "|" ^ (match tgt with Some v -> string_of_z v | None -> "N") ^ "|" ^ string_of_bool e
  | OutOfFuel -> "F"
  | UB -> "U"
let string_of_pairs l =
  if l = [] then "-" else String.concat "," (List.map (fun (k, v) -> string_of_z k ^ ":" ^ string_of_z v) l)
let string_of_opt = function Some v -> string_of_z v | None -> "U"
let z = z_of_string
let b = bool_of_string

let handle = function
  | ["fwd"; w; sg; a; b_; s; brk; fuel] ->
      string_of_lout (range_loop (log_body (z brk)) (z w) (b sg) (z a) (z b_) (z s) (nat_of_int (int_of_string fuel)) l0)
      ^ " " ^ string_of_bool (fwd_safe (z w) (b sg) (z a) (z b_) (z s))
  | ["revc"; w; sg; a; b_; s; brk; fuel] ->
      let b1 = rev_bound1_const (z a) (z b_) (z s) in
      string_of_lout (reversed_loop_const (log_body (z brk)) (z w) (b sg) (z a) (z b_) (z s) (nat_of_int (int_of_string fuel)) l0)
      ^ " " ^ string_of_bool (rev_safe (z w) (b sg) b1 (z a) (z s))
  | ["revr"; fl; w; sg; cw; csg; a; b_; s; brk; fuel] ->
      let b1 = rev_bound1_rt (b fl) (z cw) (b csg) (z a) (z b_) (z s) in
      string_of_lout (reversed_loop_rt (log_body (z brk)) (b fl) (z w) (b sg) (z cw) (b csg) (z a) (z b_) (z s) (nat_of_int (int_of_string fuel)) l0)
      ^ " " ^ (match b1 with None -> "0" | Some b1 ->
                 (* hypothesis of the theorem: the C evaluation of the start bound is exact and nothing leaves the type *)
                 string_of_bool (b1 = rev_bound1_const (z a) (z b_) (z s) && rev_safe (z w) (b sg) b1 (z a) (z s)))
  | ["revb"; fl; cw; csg; a; b_; s] ->
      string_of_opt (rev_bound1_rt (b fl) (z cw) (b csg) (z a) (z b_) (z s)) ^ " " ^ string_of_z (rev_bound1_const (z a) (z b_) (z s))
  | ["enum"; w; sg; kw; ksg; typed; start; a; b_; s; brk; fuel] ->
      (match range_loop (enum_body (z kw) (b ksg) (b typed) (plog_body (z brk))) (z w) (b sg) (z a) (z b_) (z s)
               (nat_of_int (int_of_string fuel)) (z start, []) with
       | Done ((_, l), e) -> "D " ^ string_of_pairs l ^ "|" ^ string_of_bool e
       | OutOfFuel -> "F" | UB -> "U")
  | ["pyrange"; a; b_; s] -> string_of_zlist (py_range (z a) (z b_) (z s))
  | ["pyrev"; a; b_; s] -> string_of_zlist (py_reversed_range (z a) (z b_) (z s))
  | ["pyfor"; rev; a; b_; s; brk] ->
      let vals = if b rev then py_reversed_range (z a) (z b_) (z s) else py_range (z a) (z b_) (z s) in
      let ((log, tgt), e) = py_for (log_body (z brk)) vals l0 in
      string_of_lout (Done ((log, tgt), e))
  | ["pyenum"; start; a; b_; s; brk] ->
      let (l, e) = py_for_pairs (plog_body (z brk)) (py_enumerate (py_range (z a) (z b_) (z s)) (z start)) [] in
      "D " ^ string_of_pairs l ^ "|" ^ string_of_bool e
  | _ -> "!ERR badcmd"

let () = main_loop handle
