(* driver for m_cintconv.
   from_py   <cfg> <w> <s> <v>         outcome of observe (from_py cfg w s (of_Z v))
   from_dig  <cfg> <w> <s> <neg> <d0,d1,..>   the same on an explicit digit string (little-endian)
   roundtrip <cfg> <w> <s> <v>         def f(T x): return x
   to_py     <cfg> <w> <s> <v>         value of the int built from the C value v
   ssize     <cfg> <v>                 __Pyx_PyLong_AsSsize_t
   obj       <cfg> <w> <s> <nb_int> <nb_index>    slot = none | raise | nonint | <integer>
   objssize  <cfg> <nb_int> <nb_index>
   bint      <cfg> <v>
   digits    <v>                       sign and digits of of_Z 30 v, and wfb *)
let cfg_of = function
  | "int" -> lp64_internals | "noint" -> lp64_nointernals | "lim" -> lp64_limited
  | _ -> failwith "cfg"

let string_of_err = function
  | Overflow -> "Overflow" | NegOverflow -> "NegOverflow" | CPyOverflow -> "CPyOverflow"
  | CPyNegOverflow -> "CPyNegOverflow" | CPyBytesOverflow -> "CPyBytesOverflow"
  | TypeErr -> "TypeErr" | OtherErr -> "OtherErr"

let string_of_outcome = function
  | Ok v -> "Ok " ^ string_of_z v
  | Err e -> "Err " ^ string_of_err e
  | Lost (v, e) -> "Lost " ^ string_of_z v ^ " " ^ string_of_err e
  | Undefined -> "Undefined"
  | Stuck -> "Stuck"

let sh30 = z_of_int 30

let slot_of s = match s with
  | "none" -> None | "raise" -> Some SR_raise | "nonint" -> Some SR_nonint
  | v -> Some (SR_int (of_Z sh30 (z_of_string v)))

let handle = function
  | ["from_py"; c; w; s; v] ->
      let w = z_of_string w and s = bool_of_string s in
      string_of_outcome (observe w s (from_py (cfg_of c) w s (of_Z sh30 (z_of_string v))))
  | ["from_dig"; c; w; s; ng; ds] ->
      let w = z_of_string w and s = bool_of_string s in
      let x = { pl_neg = bool_of_string ng; pl_digits = zlist_of_string ds } in
      string_of_outcome (observe w s (from_py (cfg_of c) w s x)) ^ " wf=" ^ string_of_bool (wfb sh30 x)
        ^ " value=" ^ string_of_z (value sh30 x)
  | ["roundtrip"; c; w; s; v] ->
      let w = z_of_string w and s = bool_of_string s in
      string_of_outcome (roundtrip (cfg_of c) w s (of_Z sh30 (z_of_string v)))
  | ["to_py"; c; w; s; v] ->
      string_of_z (to_py (cfg_of c) (z_of_string w) (bool_of_string s) (z_of_string v))
  | ["ssize"; c; v] ->
      string_of_outcome (observe (z_of_int 64) true (pylong_as_ssize_t (cfg_of c) (of_Z sh30 (z_of_string v))))
  | ["obj"; c; w; s; ni; nx] ->
      let w = z_of_string w and s = bool_of_string s in
      let o = PObj { nb_int = slot_of ni; nb_index = slot_of nx } in
      string_of_outcome (observe w s (from_py_obj (cfg_of c) w s o))
  | ["objssize"; c; ni; nx] ->
      let o = PObj { nb_int = slot_of ni; nb_index = slot_of nx } in
      string_of_outcome (observe (z_of_int 64) true (pyindex_as_ssize_t (cfg_of c) o))
  | ["bint"; c; v] -> string_of_z (bint_from_py (cfg_of c) (of_Z sh30 (z_of_string v)))
  | ["digits"; v] ->
      let x = of_Z sh30 (z_of_string v) in
      string_of_bool x.pl_neg ^ " " ^ string_of_zlist x.pl_digits ^ " " ^ string_of_bool (wfb sh30 x)
  | _ -> "!ERR badcmd"

let () = main_loop handle
