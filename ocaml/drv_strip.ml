(* driver for m_strip:
     strip <fixp> <fixe> <code points, comma separated | ->   ->  D <items> <literals> | FUEL | STUCK
        items: code point or L<k>, comma separated; literals: ';' separated lists ('-' = empty), '~' = none
     ref <code points>   ->  R <0/1 per character: 1 = literal/comment body> | NONE (f-string prefix present) *)
let string_of_item = function Ch c -> string_of_n c | Lab k -> "L" ^ string_of_n k

let handle = function
  | ["strip"; fixp; fixe; code] ->
      (match strip (bool_of_string fixp) (bool_of_string fixe) (nlist_of_string code) with
       | Done (items, lits) ->
           let si = if items = [] then "-" else String.concat "," (List.map string_of_item items) in
           let sl = if lits = [] then "~" else String.concat ";" (List.map string_of_nlist lits) in
           "D " ^ si ^ " " ^ sl
       | OutOfFuel -> "FUEL"
       | Stuck -> "STUCK")
  | ["ref"; code] ->
      (match ref_classify (nlist_of_string code) with
       | Some cl -> "R " ^ (if cl = [] then "-" else String.concat "" (List.map (fun (_, b) -> if b then "1" else "0") cl))
       | None -> "NONE")
  | _ -> "!ERR badcmd"

let () = main_loop handle
