(* driver for m_asyncgen:
   arun <cy|py> <fx5> <av4> <depth> <k0> <rows> <subs> <history>
     av4: t313, pad, closed_first, nullexc as 0/1
     history: ','-separated tokens; H (first) = asyncgen hooks installed; A<slot><kind> with kind n | s<v> |
       t<cls>[:<v>] | c; S<slot><v>; I<slot>; X<slot><cls>[:<v>]; C<slot>; D<slot>; d
   per operation: <result>|r<ag_running>|<body resumptions>|<suspension values>|<hook events> *)
let sval = function VNone -> "N" | VInt z -> string_of_z z
let sexc e =
  let c = string_of_z (exc_cls e) in
  match e with
  | EStopIter v -> c ^ ":" ^ sval v
  | ERuntime m | EType m | EValue m -> c ^ ":" ^ string_of_z m
  | _ -> c ^ ":"
let sinput = function ISend v -> "s" ^ sval v | IThrow e -> "x" ^ sexc e
let sres = function
  | RYield v -> "Y" ^ sval v
  | RRaise e -> "E" ^ sexc e
  | RNone -> "N"
  | RUnraisable e -> "U" ^ sexc e
  | RWarn -> "W"
let sares = function AR r -> sres r | ANewOk -> "A" | ASkip -> "-" | AMore -> "M"
let slog l = String.concat "+" (List.map (fun (k, i) -> string_of_z k ^ "/" ^ sinput i) l)
let val_of_tok s = if s = "N" then VNone else VInt (z_of_string s)
let exc_of_cls c v =
  match c with
  | 2 -> EGenExit | 3 -> EStopIter v | 4 -> ERuntime (z_of_int 50) | 5 -> EType (z_of_int 50)
  | 6 -> EValue (z_of_int 50) | 7 -> EAttr | n -> EUser (z_of_int (n - 10))
let exc_of_body body =
  match String.split_on_char ':' body with
  | [c] -> exc_of_cls (int_of_string c) VNone
  | [c; v] -> exc_of_cls (int_of_string c) (val_of_tok v)
  | _ -> failwith "badthrow"
let rest t i = String.sub t i (String.length t - i)
let slot t = nat_of_int (Char.code t.[1] - 48)
let aop_of_tok t =
  match t.[0] with
  | 'A' ->
      let k = rest t 2 in
      ANew (slot t, (match k.[0] with
                     | 'n' -> KSend VNone
                     | 's' -> KSend (val_of_tok (rest k 1))
                     | 't' -> KThrow (exc_of_body (rest k 1))
                     | 'c' -> KClose
                     | _ -> failwith "badkind"))
  | 'S' -> AStep (slot t, StSend (val_of_tok (rest t 2)))
  | 'I' -> AStep (slot t, StSend VNone)
  | 'X' -> AStep (slot t, StThrow (exc_of_body (rest t 2)))
  | 'C' -> AStep (slot t, StClose)
  | 'D' -> ADrive (slot t)
  | 'd' -> ADel
  | _ -> failwith "badop"
let fx_of_string s =
  let b i = s.[i] = '1' in
  { fx_first_send = b 0; fx_throw_si_fresh = b 1; fx_close_ret = b 2; fx_si_at_yf = b 3;
    fx_ag_fresh_del = (String.length s > 4 && b 4) }
let av_of_string s =
  let b i = s.[i] = '1' in
  { av_t313 = b 0; av_pad = b 1; av_closed_first = b 2; av_nullexc = b 3 }
let rec rows_of = function
  | l :: c :: t :: a :: b :: rest -> { r_label = l; r_cls = c; r_tag = t; r_a = a; r_b = b } :: rows_of rest
  | [] -> []
  | _ -> failwith "badrows"
let sub_of s =
  match zlist_of_string s with
  | k :: k0 :: caps :: vals -> { sp_kind = k; sp_k0 = k0; sp_caps = caps; sp_vals = vals }
  | _ -> failwith "badsub"
let has_fuel s =
  let m = "999999" in
  let n = String.length s and k = String.length m in
  let rec go i = i + k <= n && (String.sub s i k = m || go (i + 1)) in go 0

let handle = function
  | ["arun"; impl; fx; av; d; k0; rows; subs; hist] ->
      let tbl = { t_rows = rows_of (zlist_of_string rows);
                  t_subs = (if subs = "-" then [] else List.map sub_of (String.split_on_char '/' subs)) } in
      let toks = if hist = "-" then [] else String.split_on_char ',' hist in
      let hooks, toks = (match toks with "H" :: r -> true, r | r -> false, r) in
      let h = List.map aop_of_tok toks in
      let dn = nat_of_int (int_of_string d) in
      let tr =
        if impl = "cy" then run_atable_cy tbl (fx_of_string fx) (av_of_string av) hooks dn (z_of_string k0) h
        else run_atable_py tbl (av_of_string av) hooks dn (z_of_string k0) h in
      let one o =
        sares o.o_res ^ "|r" ^ (if o.o_running then "1" else "0") ^ "|" ^ slog o.o_log ^ "|"
        ^ String.concat "+" (List.map sval o.o_susp) ^ "|" ^ String.concat "+" (List.map string_of_z o.o_ev) in
      let out = String.concat ";" (List.map one tr) in
      if has_fuel out then "!FUEL " ^ out else out
  | _ -> "!ERR badcmd"

let () = main_loop handle
