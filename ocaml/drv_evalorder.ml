(* driver for m_evalorder:
     run <fx_minmax> <fx_mcall> <fx_inplace> <fx_cascade> <fx_ccsimple> <fx_cckeep> <fx_ccrecv> <cc_sorted>
         <stmt tokens...>                                                     -> model of the generated code
     ref <stmt tokens...>                                                     -> reference semantics
     ccmap <cc_sort> <cc_keep> <npos> <ndecl> <names,..|-> <simple bits|->    -> OK t,t,.. | a,a,..  /  ERR  /  GAP
     bsimple <expr tokens...>                                                 -> <is_simple() before analysis> <really simple>
   answer:  <events separated by blanks> | <tuple(r,x,y,z)> | <leaf tags> [| stuck]
            REJECT | REJECT |          when the model of the compiler rejects a C call of the statement
   Statement tokens are the prefix serialisation written by props/C20.py (t_stmt). *)

(* interning of operation names *)
let tbl : (string, int) Hashtbl.t = Hashtbl.create 64
let rev_tbl : (int, string) Hashtbl.t = Hashtbl.create 64
let intern s =
  match Hashtbl.find_opt tbl s with
  | Some i -> i
  | None -> let i = Hashtbl.length tbl in Hashtbl.add tbl s i; Hashtbl.add rev_tbl i s; i
let name_of i = try Hashtbl.find rev_tbl i with Not_found -> "?op" ^ string_of_int i
let olog s = OLog (nat_of_int (intern s))
(* silent constructions: even identifier = the node class answers is_simple() before type analysis
   (displays, a single formatted value), odd = it does not (several f-string parts, slice objects) *)
let oseq s = OSeq (nat_of_int (2 * intern s))
let oseq_ns s = OSeq (nat_of_int (2 * intern s + 1))

(* ---- token parser ---- *)
let toks = ref ([] : string list)
let next () = match !toks with [] -> failwith "eof" | t :: r -> toks := r; t
let var_index = function "x" -> 0 | "y" -> 1 | "z" -> 2 | "r" -> 3 | "kobj" -> 4 | s -> failwith ("var " ^ s)
let kind_code = function "T" -> 0 | "F" -> 1 | "U" -> 2 | "D" -> 3 | "K" -> 7 | "I" -> 9 | s -> failwith ("kind " ^ s)
let cmp_op = function
  | "in" -> OIn false | "notin" -> OIn true
  | s -> olog s

let rec p_expr () : expr =
  match next () with
  | "L" -> let k = kind_code (next ()) in let n = int_of_string (next ()) in ELeaf (nat_of_int k, nat_of_int n)
  | "N" -> EName (nat_of_int (var_index (next ())))
  | "NONE" -> ENone
  | "B" -> let o = next () in let a = p_expr () in let b = p_expr () in EOp (olog o, [a; b])
  | "U" -> let o = next () in let a = p_expr () in
           if o = "not" then ENot a else EOp (olog o, [a])
  | "C" -> let n = int_of_string (next ()) in
           let a = p_expr () in
           let rec go i = if i = 0 then [] else
               let o = cmp_op (next ()) in let e = p_expr () in (o, e) :: go (i - 1) in
           let l = go n in
           if n = 1 then (match l with [(o, b)] -> EOp (o, [a; b]) | _ -> failwith "cmp")
           else ECmp (a, List.map fst l, List.map snd l)
  | "A" -> let a = p_expr () in let b = p_expr () in EAnd (a, b)
  | "O" -> let a = p_expr () in let b = p_expr () in EOr (a, b)
  | "I" -> let c = p_expr () in let a = p_expr () in let b = p_expr () in ECond (c, a, b)
  | ("K" | "Kp") as ktok -> let n = int_of_string (next ()) in
           let f = p_expr () in
           let rec go i = if i = 0 then [] else let a = p_arg () in a :: go (i - 1) in
           let args = go n in
           (* CPython evaluates positional and * arguments first, then keyword and ** arguments *)
           let first = List.filter (fun (k, _) -> k = "p" || k = "s") args in
           let second = List.filter (fun (k, _) -> not (k = "p" || k = "s")) args in
           let ordered = first @ second in
           let shape = "call/" ^ String.concat "," (List.map fst ordered) in
           let plain = List.for_all (fun (k, _) -> k = "p" || (String.length k > 1 && k.[0] = 'k')) ordered in
           (match f with
            | EOp (OGetAttr m, [obj]) when plain && ktok = "K" -> EMCall (m, olog shape, obj, List.map snd ordered)
            | _ -> EOp (olog shape, f :: List.map snd ordered))
  | "D" -> let kind = next () in let n = int_of_string (next ()) in
           let rec go i = if i = 0 then [] else let a = p_arg () in a :: go (i - 1) in
           let items = go n in
           EOp (oseq (kind ^ "/" ^ String.concat "," (List.map fst items)), List.map snd items)
  | "M" -> let n = int_of_string (next ()) in
           let rec go i = if i = 0 then [] else let k = p_expr () in let v = p_expr () in k :: v :: go (i - 1) in
           EOp (oseq "dict", go n)
  | "S" -> let a = p_expr () in let i = p_expr () in EOp (OGetItem, [a; i])
  | "Z" -> let a = p_expr () in
           let part () = match next () with "-" -> ENone | _ -> p_expr () in
           let lo = part () in let hi = part () in let st = part () in
           (* a[lo:hi] is a SliceIndexNode, a[lo:hi:step] an IndexNode with a SliceNode index *)
           if st = ENone then EOp (OGetSlice, [a; lo; hi])
           else EOp (OGetItem, [a; EOp (oseq_ns "slice", [lo; hi; st])])
  | "T" -> let nm = next () in let a = p_expr () in EOp (OGetAttr (nat_of_int (intern nm)), [a])
  | "X" -> let which = next () in let n = int_of_string (next ()) in
           let rec go i = if i = 0 then [] else let e = p_expr () in e :: go (i - 1) in
           EMinMax (olog (if which = "min" then "lt" else "gt"), go n)
  | "F" -> let n = int_of_string (next ()) in
           let rec go i = if i = 0 then [] else let e = p_expr () in EOp (olog "format", [e]) :: go (i - 1) in
           (* ConstantFolding: one part -> the FormattedValueNode, two parts -> AddNode (not "simple" before
              type analysis), three or more -> JoinedStrNode (class-level is_temp: "simple") *)
           EOp ((if n = 2 then oseq_ns "join" else oseq "join"), go n)
  | "Q" -> (* call of a C function: Q <name> <nreq> <ndecl> <default,..> <-|+ recv> <npos> <nkw> pos.. (idx expr).. *)
           let fname = next () in
           let nreq = int_of_string (next ()) in let ndecl = int_of_string (next ()) in
           let dfl = next () in
           let recv = (match next () with "-" -> ENone | _ -> p_expr ()) in
           let npos = int_of_string (next ()) in let nkw = int_of_string (next ()) in
           let rec go i = if i = 0 then [] else let e = p_expr () in e :: go (i - 1) in
           let pos = go npos in
           let rec gok i = if i = 0 then [] else
               let d = int_of_string (next ()) in let e = p_expr () in (d, e) :: gok (i - 1) in
           let kws = gok nkw in
           ECCall (olog ("ccall/" ^ fname ^ "," ^ dfl), nat_of_int nreq, nat_of_int ndecl, recv, nat_of_int npos,
                   List.map (fun (d, _) -> nat_of_int d) kws, pos @ List.map snd kws)
  | t -> failwith ("expr token " ^ t)

and p_arg () : string * expr =
  match next () with
  | "p" -> let e = p_expr () in ("p", e)
  | "k" -> let nm = next () in let e = p_expr () in ("k:" ^ nm, e)
  | "s" -> let e = p_expr () in ("s", e)
  | "d" -> let e = p_expr () in ("d", e)
  | t -> failwith ("arg token " ^ t)

let p_slice_parts () =
  let part () = match next () with "-" -> ENone | _ -> p_expr () in
  let lo = part () in let hi = part () in
  EOp (oseq_ns "slice", [lo; hi; ENone])

let rec p_starget () : starget =
  match next () with
  | "tn" -> TName (nat_of_int (var_index (next ())))
  | "ts" -> let a = p_expr () in let i = p_expr () in TStore (OSetItem, [a; i])
  | "tz" -> let a = p_expr () in let s = p_slice_parts () in TStore (OSetItem, [a; s])
  | "ta" -> let nm = next () in let a = p_expr () in TStore (OSetAttr (nat_of_int (intern nm)), [a])
  | t -> failwith ("target token " ^ t)

let p_target () : target =
  match !toks with
  | "tt" :: _ -> ignore (next ());
      let n = int_of_string (next ()) in
      let rec go i = if i = 0 then [] else let t = p_starget () in t :: go (i - 1) in
      TTup (go n)
  | _ -> TS (p_starget ())

let p_stmt () : stmt =
  match next () with
  | "sa" -> let n = int_of_string (next ()) in
            let rec go i = if i = 0 then [] else let t = p_target () in t :: go (i - 1) in
            let ts = go n in let rhs = p_expr () in SAssign (ts, rhs)
  | "su" -> let o = next () in
            let lhs = (match next () with
              | "tn" -> EName (nat_of_int (var_index (next ())))
              | "ts" -> let a = p_expr () in let i = p_expr () in EOp (OGetItem, [a; i])
              | "tz" -> let a = p_expr () in let s = p_slice_parts () in EOp (OGetItem, [a; s])
              | "ta" -> let nm = next () in let a = p_expr () in EOp (OGetAttr (nat_of_int (intern nm)), [a])
              | t -> failwith ("aug target " ^ t)) in
            let rhs = p_expr () in SAug (lhs, olog ("i" ^ o), rhs)
  | "sd" -> (match next () with
              | "ts" -> let a = p_expr () in let i = p_expr () in SDel (ODelItem, [a; i])
              | "tz" -> let a = p_expr () in let s = p_slice_parts () in SDel (ODelItem, [a; s])
              | "ta" -> let nm = next () in let a = p_expr () in SDel (ODelAttr (nat_of_int (intern nm)), [a])
              | t -> failwith ("del target " ^ t))
  | t -> failwith ("stmt token " ^ t)

(* ---- printing (the names produced by the logging runtime c20rt.nm) ---- *)
let split_shape s =
  match String.index_opt s '/' with
  | None -> (s, [])
  | Some i -> (String.sub s 0 i,
               let r = String.sub s (i + 1) (String.length s - i - 1) in
               if r = "" then [] else String.split_on_char ',' r)

let rec pv (v : val0) : string =
  match v with
  | VNone -> "None"
  | VBool b -> if b then "True" else "False"
  | VLeaf (kind, k) ->
      let k = int_of_nat k in
      (match int_of_nat kind with
       | 0 -> "T" ^ string_of_int k | 1 -> "F" ^ string_of_int k
       | 2 -> Printf.sprintf "tuple(U%da,U%db)" k k
       | 3 -> Printf.sprintf "dict(d%d:D%d)" k k
       | 4 -> "x" | 5 -> "y" | 6 -> "z" | 7 -> "K" ^ string_of_int k | 8 -> "K0"
       | 9 -> "?" ^ string_of_int k | n -> "?leaf" ^ string_of_int n)
  | VItem (i, VLeaf (kind, k)) when int_of_nat kind = 2 ->
      Printf.sprintf "U%d%s" (int_of_nat k) (if int_of_nat i = 0 then "a" else "b")
  | VItem (i, v) -> Printf.sprintf "item%d(%s)" (int_of_nat i) (pv v)
  | VOp (o, args) -> pop o args

and star_items v =
  match v with
  | VLeaf (kind, k) when int_of_nat kind = 2 ->
      [Printf.sprintf "U%da" (int_of_nat k); Printf.sprintf "U%db" (int_of_nat k)]
  | VOp (OSeq _, args) -> List.map pv args
  | _ -> ["*" ^ pv v]

and pop (o : op) (args : val0 list) : string =
  let plain nm = nm ^ "(" ^ String.concat "," (List.map pv args) ^ ")" in
  match o with
  | OGetItem -> plain "getitem" | OSetItem -> plain "setitem" | ODelItem -> plain "delitem"
  | OGetSlice -> (match args with
                  | [a; lo; hi] -> "getitem(" ^ pv a ^ ",slice(" ^ pv lo ^ "," ^ pv hi ^ ",None))"
                  | _ -> plain "getslice")
  | OGetAttr a -> plain ("getattr_" ^ name_of (int_of_nat a))
  | OSetAttr a -> plain ("setattr_" ^ name_of (int_of_nat a))
  | ODelAttr a -> plain ("delattr_" ^ name_of (int_of_nat a))
  | OIn _ -> plain "contains"
  | OLog id ->
      let (nm, shape) = split_shape (name_of (int_of_nat id)) in
      if nm = "ccall" then begin
        (* the callee logs its name and its parameters in declaration order (the receiver first),
           omitted optional parameters show their defaults *)
        match shape, args with
        | fname :: dfl, recv :: vals ->
            let given = List.map pv vals in
            let rec pad i l d = match l, d with
              | x :: r, _ :: d' -> x :: pad (i + 1) r d'
              | x :: r, [] -> x :: pad (i + 1) r []
              | [], x :: d' -> x :: pad (i + 1) [] d'
              | [], [] -> [] in
            let all = pad 0 given dfl in
            let all = (match recv with VNone -> all | _ -> pv recv :: all) in
            fname ^ "(" ^ String.concat "," all ^ ")"
        | _ -> plain "ccall"
      end else
      if nm = "call" then begin
        match args with
        | [] -> "call()"
        | f :: rest ->
            let parts = List.concat (List.map2 (fun k v ->
                if k = "p" then [pv v]
                else if k = "s" then star_items v
                else if k = "d" then
                  (match v with
                   | VLeaf (kind, n) when int_of_nat kind = 3 ->
                       [Printf.sprintf "d%d=D%d" (int_of_nat n) (int_of_nat n)]
                   | _ -> ["**" ^ pv v])
                else [String.sub k 2 (String.length k - 2) ^ "=" ^ pv v]) shape rest) in
            "call(" ^ String.concat "," (pv f :: parts) ^ ")"
      end else plain nm
  | OSeq id ->
      let (nm, shape) = split_shape (name_of (int_of_nat id / 2)) in
      (match nm with
       | "tuple" | "list" | "set" ->
           let parts = List.concat (List.map2 (fun k v -> if k = "s" then star_items v else [pv v]) shape args) in
           let parts = if nm = "set" then List.sort_uniq compare parts else parts in
           nm ^ "(" ^ String.concat "," parts ^ ")"
       | "dict" ->
           let rec go = function
             | k :: v :: r -> (pv k ^ ":" ^ pv v) :: go r
             | _ -> [] in
           "dict(" ^ String.concat "," (go args) ^ ")"
       | "slice" -> plain "slice"
       | "join" -> "str<" ^ String.concat "" (List.map pv args) ^ ">"
       | _ -> plain nm)

let pe (e : event) : string =
  match e with
  | EvLeaf k -> "L" ^ string_of_int (int_of_nat k)
  | EvOp (o, args) -> pop o args
  | EvBool v -> "bool(" ^ pv v ^ ")"
  | EvIter v -> "iter(" ^ pv v ^ ")"

let result_string vars =
  "tuple(" ^ String.concat "," (List.map (fun i -> pv (vars (nat_of_int i))) [3; 0; 1; 2]) ^ ")"


let b s = (s = "1")
let nats_of s = if s = "-" || s = "" then [] else List.map (fun x -> nat_of_int (int_of_string x)) (String.split_on_char ',' s)
let snats l = String.concat "," (List.map (fun k -> string_of_int (int_of_nat k)) l)

let handle words =
  match words with
  | ["ccmap"; so; ke; npos; ndecl; names; bits] ->
      let bits = if bits = "-" then "" else bits in
      let simple p = let i = int_of_nat p in i < String.length bits && bits.[i] = '1' in
      (match ccmap (b so) (b ke) (nat_of_int (int_of_string npos)) (nat_of_int (int_of_string ndecl)) (nats_of names) simple with
       | CMErr -> "ERR" | CMGap -> "GAP"
       | CMOk (t, a) -> "OK " ^ snats t ^ " | " ^ snats a)
  | "bsimple" :: rest ->
      toks := rest;
      let e = p_expr () in
      if !toks <> [] then failwith "trailing tokens";
      (if bsimple e then "1" else "0") ^ " " ^ (if tsimple e then "1" else "0")
  | "run" :: a :: bb :: c :: d :: e5 :: f6 :: g7 :: h8 :: rest ->
      toks := rest;
      let s = p_stmt () in
      if !toks <> [] then failwith "trailing tokens";
      let fl = mk_flags8 (b a) (b bb) (b c) (b d) (b e5) (b f6) (b g7) (b h8) in
      if stmt_rejected fl s then "REJECT | REJECT | " else
      let (st, m) = run_stmt fl s in
      String.concat " " (List.map pe st.trace) ^ " | " ^ result_string st.mvars ^ " | "
      ^ String.concat "," (List.map (fun k -> string_of_int (int_of_nat k)) st.leaflog)
      ^ (match m with Normal -> "" | Skip l -> " | stuck " ^ string_of_int (int_of_nat l))
  | "ref" :: rest ->
      toks := rest;
      let s = p_stmt () in
      if !toks <> [] then failwith "trailing tokens";
      let r = ref_run s in
      String.concat " " (List.map pe r.sev) ^ " | " ^ result_string r.svars ^ " | "
      ^ String.concat "," (List.map (fun k -> string_of_int (int_of_nat k)) r.slf)
  | _ -> "!ERR badcmd"

let () = main_loop handle
