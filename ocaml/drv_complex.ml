(* driver for m_complex.  A double is one token (as in drv_floatops):
     z0 z1 (zeros, sign)  i0 i1 (infinities)  n (NaN)  f<s>:<m>:<e> (finite)
   a complex value is two tokens (real imag); results are "real imag" or an outcome name.
   commands: sum|diff|prod|eq ar ai br bi | neg|conj|absn ar ai | div <fixed> <cdiv> ar ai br bi
             pow ar ai br bi | frompy <native> <fixed> r i | topy r i
             pysum|pydiff|pyprod|pyeq|pydiv|pypow ar ai br bi | pyneg|pyconj ar ai *)
let pos_of_z = function Zpos p -> p | _ -> failwith "mantissa"
let f_of_tok t =
  match t with
  | "z0" -> S754_zero false | "z1" -> S754_zero true
  | "i0" -> S754_infinity false | "i1" -> S754_infinity true
  | "n" -> S754_nan
  | _ ->
    (match String.split_on_char ':' (String.sub t 1 (String.length t - 1)) with
     | [s; m; e] ->
       let f = S754_finite (s = "1", pos_of_z (z_of_string m), z_of_string e) in
       if fvalid f then f else failwith "not a canonical double"
     | _ -> failwith "float token")
let tok_of_f = function
  | S754_zero s -> if s then "z1" else "z0"
  | S754_infinity s -> if s then "i1" else "i0"
  | S754_nan -> "n"
  | S754_finite (s, m, e) -> "f" ^ (if s then "1" else "0") ^ ":" ^ string_of_z (Zpos m) ^ ":" ^ string_of_z e
let cx r i = { re = f_of_tok r; im = f_of_tok i }
let tok_of_c z = tok_of_f z.re ^ " " ^ tok_of_f z.im
let tok_of_py = function
  | PyVal z -> tok_of_c z | PyZeroDiv -> "ZeroDivisionError" | PyOverflow -> "OverflowError"
  | PyLibm -> "LIBM"

let handle = function
  | ["sum"; ar; ai; br; bi] -> tok_of_c (c_sum (cx ar ai) (cx br bi))
  | ["diff"; ar; ai; br; bi] -> tok_of_c (c_diff (cx ar ai) (cx br bi))
  | ["prod"; ar; ai; br; bi] -> tok_of_c (c_prod (cx ar ai) (cx br bi))
  | ["eq"; ar; ai; br; bi] -> string_of_bool (c_eq (cx ar ai) (cx br bi))
  | ["neg"; ar; ai] -> tok_of_c (c_neg (cx ar ai))
  | ["conj"; ar; ai] -> tok_of_c (c_conj (cx ar ai))
  | ["iszero"; ar; ai] -> string_of_bool (c_is_zero (cx ar ai))
  | ["absn"; ar; ai] -> tok_of_f (c_abs_naive (cx ar ai))
  | ["div"; fx; cd; ar; ai; br; bi] ->
    (match div_node (bool_of_string fx) (bool_of_string cd) (cx ar ai) (cx br bi) with
     | DivVal z -> tok_of_c z | DivZeroDiv -> "ZeroDivisionError")
  | ["pow"; ar; ai; br; bi] ->
    (match c_pow (cx ar ai) (cx br bi) with PowVal z -> tok_of_c z | PowLibm -> "LIBM")
  | ["frompy"; nat; fx; r; i] -> tok_of_c (from_py (bool_of_string nat) (bool_of_string fx) (cx r i))
  | ["topy"; r; i] -> tok_of_c (to_py (cx r i))
  | ["pysum"; ar; ai; br; bi] -> tok_of_c (py_c_sum (cx ar ai) (cx br bi))
  | ["pydiff"; ar; ai; br; bi] -> tok_of_c (py_c_diff (cx ar ai) (cx br bi))
  | ["pyprod"; ar; ai; br; bi] -> tok_of_c (py_c_prod (cx ar ai) (cx br bi))
  | ["pyeq"; ar; ai; br; bi] -> string_of_bool (py_eq (cx ar ai) (cx br bi))
  | ["pyneg"; ar; ai] -> tok_of_c (py_c_neg (cx ar ai))
  | ["pyconj"; ar; ai] -> tok_of_c (py_conj (cx ar ai))
  | ["pydiv"; ar; ai; br; bi] -> tok_of_py (py_complex_div (cx ar ai) (cx br bi))
  | ["pypow"; ar; ai; br; bi] -> tok_of_py (py_complex_pow (cx ar ai) (cx br bi))
  | _ -> "!ERR badcmd"

let () = main_loop handle
