(* driver for m_pylongbinop:
     binop <op> <order> <zc> <c> <x>     the helper on the exact int x
     accepts <op> <order> <c>            compile-time guard
     py <op> <order> <c> <x>             Python semantics on Z (the Gallina spec)
     digits <x>                          sign and base-2^30 digits of of_Z x *)
let op_of_string = function
  | "Add" -> OpAdd | "Subtract" -> OpSubtract | "Multiply" -> OpMultiply
  | "Remainder" -> OpRemainder | "FloorDivide" -> OpFloorDivide | "TrueDivide" -> OpTrueDivide
  | "And" -> OpAnd | "Or" -> OpOr | "Xor" -> OpXor | "Lshift" -> OpLshift | "Rshift" -> OpRshift
  | "Eq" -> OpEq | "Ne" -> OpNe | _ -> failwith "op"
let order_of_string = function "ObjC" -> ObjC | "CObj" -> CObj | _ -> failwith "order"

let string_of_result = function
  | RInt v -> "I " ^ string_of_z v
  | RBool b -> "B " ^ string_of_bool b
  | RFloatDiv (a, b) -> "FD " ^ string_of_z a ^ " " ^ string_of_z b
  | RFallback -> "FALLBACK"
  | RZeroDiv -> "ZERODIV"
  | RUB -> "UB"

let handle = function
  | ["binop"; o; ord; zc; c; x] ->
      string_of_result (binop_z (op_of_string o) (order_of_string ord) (bool_of_string zc)
                          (z_of_string c) (z_of_string x))
  | ["accepts"; o; ord; c] ->
      string_of_bool (accepts (op_of_string o) (order_of_string ord) (z_of_string c))
  | ["py"; o; ord; c; x] ->
      string_of_result (py_binop (op_of_string o) (order_of_string ord) (z_of_string c) (z_of_string x))
  | ["digits"; x] ->
      let p = of_Z (z_of_string "30") (z_of_string x) in
      (if p.pl_neg then "-" else "+") ^ " " ^ string_of_zlist p.pl_digits
      ^ " wf=" ^ string_of_bool (wfb (z_of_string "30") p)
  | _ -> "!ERR badcmd"

let () = main_loop handle
