#!/bin/sh
# build one model runner:  build.sh <name>   (gen/m_<name>.ml + zconv.ml + drv_<name>.ml -> _build/<name>)
set -e
cd "$(dirname "$0")"
mkdir -p _build
for n in "$@"; do
  d=_build/$n.d; rm -rf $d; mkdir -p $d
  (echo "module ZA = Z"; cat gen/m_$n.ml zconv.ml drv_$n.ml) > $d/all_$n.ml
  (cd $d && ocamlfind ocamlopt -w -a -package zarith -linkpkg all_$n.ml -o ../$n) 
done
