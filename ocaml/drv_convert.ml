(* driver for m_convert.  Token codec (space separated, prefix form):
   pyval : N | O | B0 | B1 | I<z> | F<bits> | Y<hex> | A<hex> | S<cp,cp,..> | L<n> v.. | T<n> v.. |
           E<n> v.. | D<n> k v .. | G<n> v..
   ctype : i<w>s | i<w>u | d | s | p (char pointer) | V t | C t | X t | U t | M k v | H k v | P a b | R<n> t |
           St<n> (S<name> t).. | Un<n> (S<name> t).. | Ct<n> t..
   scfg  : b|a|u  n|a|8|l
   commands: rt <scfg> <ctype> <pyval> ; charp <scfg> <pyval> ; str <scfg> <pyval>;
             fp <scfg> <ctype> <pyval> (from_py only: ok / error);
             charpl|strl|cplen|ssize <api 0|1|2> <scfg> <pyval> (0 = full C-API, 1 = Limited API as it is,
               2 = Limited API with the NULL check; strlen / size());
             asas <api> <enc> S<cps> -> ok <hexbytes|-> <length> | !Exc  (the (buffer, length) pair);
             kind S<cps> -> <1|2|4> <ascii 0|1> (PEP 393 storage class) *)
let tl_s s = String.sub s 1 (String.length s - 1)
let nl_of s = nlist_of_string s
let rec take_n f n toks = if n = 0 then ([], toks) else
  let (x, r) = f toks in let (xs, r') = take_n f (n - 1) r in (x :: xs, r')

let rec p_py toks = match toks with
  | [] -> failwith "eof"
  | t :: r ->
    let a = tl_s t in
    (match t.[0] with
     | 'N' -> (PNone, r) | 'O' -> (PObj, r)
     | 'B' -> (PBool (a = "1"), r)
     | 'I' -> (PInt (z_of_string a), r)
     | 'F' -> (PFloat (z_of_string a), r)
     | 'Y' -> (PBytes (nbytes_of_hex a), r)
     | 'A' -> (PByteArray (nbytes_of_hex a), r)
     | 'S' -> (PStr (nl_of a), r)
     | 'L' -> let (l, r') = take_n p_py (int_of_string a) r in (PList l, r')
     | 'T' -> let (l, r') = take_n p_py (int_of_string a) r in (PTuple l, r')
     | 'E' -> let (l, r') = take_n p_py (int_of_string a) r in (PSet l, r')
     | 'G' -> let (l, r') = take_n p_py (int_of_string a) r in (PIter l, r')
     | 'D' -> let (l, r') = take_n (fun tk -> let (k, r1) = p_py tk in let (v, r2) = p_py r1 in ((k, v), r2))
                              (int_of_string a) r in (PDict l, r')
     | _ -> failwith ("pyval " ^ t))

let rec p_ty toks = match toks with
  | [] -> failwith "eof"
  | t :: r ->
    let a = tl_s t in
    let fields n r named =
      let (fs, r') = take_n (fun tk ->
        if named then (match tk with
          | nm :: tk' -> let (ft, r2) = p_ty tk' in ((nl_of (tl_s nm), ft), r2)
          | [] -> failwith "eof")
        else let (ft, r2) = p_ty tk in (([], ft), r2)) n r in
      (List.fold_right (fun (nm, ft) acc -> FCons (nm, ft, acc)) fs FNil, r') in
    (match t.[0] with
     | 'i' -> let n = String.length a in
              (TLeaf (LInt (z_of_string (String.sub a 0 (n - 1)), a.[n - 1] = 's')), r)
     | 'd' -> (TLeaf LDouble, r) | 's' -> (TLeaf LString, r) | 'p' -> (TLeaf LCharp, r)
     | 'V' -> let (e, r') = p_ty r in (TVector e, r')
     | 'C' when a = "" -> let (e, r') = p_ty r in (TCppList e, r')
     | 'X' -> let (e, r') = p_ty r in (TSet e, r')
     | 'U' when a = "" -> let (e, r') = p_ty r in (TUSet e, r')
     | 'M' -> let (k, r1) = p_ty r in let (e, r2) = p_ty r1 in (TMap (k, e), r2)
     | 'H' -> let (k, r1) = p_ty r in let (e, r2) = p_ty r1 in (TUMap (k, e), r2)
     | 'P' -> let (k, r1) = p_ty r in let (e, r2) = p_ty r1 in (TPair (k, e), r2)
     | 'R' -> let (e, r') = p_ty r in (TArray (nat_of_int (int_of_string a), e), r')
     | 'S' -> let (fs, r') = fields (int_of_string (tl_s a)) r true in (TStruct fs, r')
     | 'U' -> let (fs, r') = fields (int_of_string (tl_s a)) r true in (TUnion fs, r')
     | 'C' -> let (fs, r') = fields (int_of_string (tl_s a)) r false in (TCTuple fs, r')
     | _ -> failwith ("ctype " ^ t))

let p_sc st en =
  { sc_type = (match st with "b" -> SBytes | "a" -> SByteArray | "u" -> SUnicode | _ -> failwith "stype");
    sc_enc = (match en with "n" -> ENone | "a" -> EAscii | "8" -> EUtf8 | "l" -> ELatin1 | _ -> failwith "senc") }

let p_api = function "0" -> Full | "1" -> Limited false | "2" -> Limited true | _ -> failwith "api"

let rec s_py v = match v with
  | PNone -> "N" | PObj -> "O"
  | PBool b -> if b then "B1" else "B0"
  | PInt z -> "I" ^ string_of_z z
  | PFloat d -> "F" ^ string_of_z d
  | PBytes b -> "Y" ^ hex_of_nbytes b
  | PByteArray b -> "A" ^ hex_of_nbytes b
  | PStr s -> "S" ^ string_of_nlist s
  | PList l -> s_seq "L" l | PTuple l -> s_seq "T" l | PSet l -> s_seq "E" l | PIter l -> s_seq "G" l
  | PDict kv -> String.concat " " (("D" ^ string_of_int (List.length kv)) ::
                  List.concat_map (fun (k, v) -> [s_py k; s_py v]) kv)
and s_seq tag l = String.concat " " ((tag ^ string_of_int (List.length l)) :: List.map s_py l)

let s_exc = function
  | TypeError -> "TypeError" | ValueError -> "ValueError" | OverflowError -> "OverflowError"
  | AttributeError -> "AttributeError" | UnicodeEncodeError -> "UnicodeEncodeError"
  | UnicodeDecodeError -> "UnicodeDecodeError" | SystemError -> "SystemError"
  | IndexTooMany -> "IndexTooMany" | IndexNotEnough -> "IndexNotEnough" | Unmodelled -> "Unmodelled"

let s_res = function Ok v -> s_py v | Err e -> "!" ^ s_exc e

let handle = function
  | "rt" :: st :: en :: rest ->
      let (t, r1) = p_ty rest in let (v, r2) = p_py r1 in
      if r2 <> [] then "!ERR trailing" else s_res (roundtrip (p_sc st en) t v)
  | "fp" :: st :: en :: rest ->
      let (t, r1) = p_ty rest in let (v, r2) = p_py r1 in
      if r2 <> [] then "!ERR trailing" else
      (match from_py (p_sc st en) t v with Ok _ -> "ok" | Err e -> "!" ^ s_exc e)
  | "charp" :: st :: en :: rest -> let (v, _) = p_py rest in s_res (charp_roundtrip (p_sc st en) v)
  | "str" :: st :: en :: rest -> let (v, _) = p_py rest in s_res (string_roundtrip (p_sc st en) v)
  | "charpl" :: lim :: st :: en :: rest -> let (v, _) = p_py rest in s_res (charp_roundtrip_l (p_api lim) (p_sc st en) v)
  | "strl" :: lim :: st :: en :: rest -> let (v, _) = p_py rest in s_res (string_roundtrip_l (p_api lim) (p_sc st en) v)
  | "cplen" :: lim :: st :: en :: rest -> let (v, _) = p_py rest in s_res (charp_strlen_l (p_api lim) (p_sc st en) v)
  | "ssize" :: lim :: st :: en :: rest -> let (v, _) = p_py rest in s_res (string_size_l (p_api lim) (p_sc st en) v)
  | ["asas"; lim; en; v] ->
      (match p_py [v] with
       | (PStr s, _) ->
           (match unicode_asas (p_api lim) (p_sc "b" en).sc_enc s with
            | Ok (b, n) -> "ok " ^ (let h = hex_of_nbytes b in if h = "" then "-" else h) ^ " " ^ string_of_int (int_of_nat n)
            | Err e -> "!" ^ s_exc e)
       | _ -> "!ERR notstr")
  | ["kind"; v] ->
      (match p_py [v] with
       | (PStr s, _) ->
           (match kind_of s with K1BYTE -> "1" | K2BYTE -> "2" | K4BYTE -> "4") ^ " " ^ (if is_ascii s then "1" else "0")
       | _ -> "!ERR notstr")
  | _ -> "!ERR badcmd"

let () = main_loop handle
