(* driver for m_asdouble.
   sb <fix_us> <cps>                       scan_bytes
   ss <fix_le> <fix_us> <fix_sp> <cps>     scan_str
   pb <cps>                                py_scan_bytes
   ps <cps> <decs>                         py_scan_str; decs: Py_UNICODE_TODECIMAL per character (-1 = none)
   cps: comma separated code points, "-" = empty *)
let string_of_scan = function
  | OOBRead -> "OOBR"
  | OOBWrite -> "OOBW"
  | Fallback -> "FB"
  | Special (n, k) -> "SP " ^ string_of_bool n ^ " " ^ string_of_bool k
  | Parse s -> "P " ^ string_of_zlist s

let string_of_py = function
  | PyError -> "ERR"
  | PyParse s -> "P " ^ string_of_zlist s

let handle = function
  | ["sb"; fu; s] -> string_of_scan (scan_bytes (bool_of_string fu) (zlist_of_string s))
  | ["ss"; fl; fu; fs; s] ->
      string_of_scan (scan_str (bool_of_string fl) (bool_of_string fu) (bool_of_string fs) (zlist_of_string s))
  | ["pb"; s] -> string_of_py (py_scan_bytes (zlist_of_string s))
  | ["ps"; s; d] ->
      let cps = List.map int_of_z (zlist_of_string s) and decs = List.map int_of_z (zlist_of_string d) in
      let tbl = List.combine cps decs in
      let todec c = (match List.assoc_opt (int_of_z c) tbl with
                     | Some d when d >= 0 -> Some (z_of_int d) | _ -> None) in
      string_of_py (py_scan_str todec (zlist_of_string s))
  | ["spell"; s] -> (match infnan_spelling (zlist_of_string s) with
                     | None -> "none" | Some (n, k) -> string_of_bool n ^ " " ^ string_of_bool k)
  | _ -> "!ERR badcmd"

let () = main_loop handle
