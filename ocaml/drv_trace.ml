(* driver for m_trace.
   tree tokens (prefix):  N <f> <s> <e> item* .     item = C <node> | R | L <line>
     s in c g r t u  (SCall SGenStart SResume SThrow SCloseUnstarted)
     e in r x y p    (EReturn ERaise EYield EPending)
   commands:
     cy  <tool l|m> <fx 0|1> <lt 0|1> <tree...>   -> events of the generated code
     py  <tool l|m> <lt 0|1> <tree...>            -> events of CPython
     chk <tool> <fx> <lt> <tree...>               -> "<well_nested> <nests_as> <size> <starts> <ends> <clean> <started>"
   code-generation level (M_TraceGen):
     program  :  P func* ;        func = F <kind f0|f1|f2|g00|g10|g11> (f2 = cpdef entered through its Python wrapper) <tflag 0|1> block
                 block = stmt* .   stmt = e | x | r | y | i block block | l block block | t block block | n block block
     oracles  :  O inst* ;        inst = I choice* .     choice = <kids>:<go 0|1>:<exc - | c | u>
     tree     :  N <f> <inst> <k> node* .
     gw  <tool> <fx> <lt> <guard a|s|w> <program> <oracles> <tree>
            -> "<prog_ok> <complete> <to_node ok> <well_nested> | events"
     gfun <guard a|s|w> F <kind> <tflag> block   -> "<is_term> <clean> <func_ok fx=0> | epilogue tokens"
     gseg <fx> <guard> F ... I choice* . -> tokens of the whole run, segments separated by /
   events are printed as  <kind><f>  (line events  L<f>:<line>) separated by commas *)
let skind_of = function
  | "c" -> SCall | "g" -> SGenStart | "r" -> SResume | "t" -> SThrow | "u" -> SCloseUnstarted
  | _ -> failwith "skind"
let ekind_of = function
  | "r" -> EReturn | "x" -> ERaise | "y" -> EYield | "p" -> EPending | _ -> failwith "ekind"
let tool_of = function "l" -> Legacy | "m" -> Monitoring | _ -> failwith "tool"

let rec p_node toks = match toks with
  | "N" :: f :: s :: e :: rest ->
      let (b, rest') = p_items rest in
      (Node (nat_of_int (int_of_string f), skind_of s, b, ekind_of e), rest')
  | _ -> failwith "node"
and p_items toks = match toks with
  | "." :: rest -> (INil, rest)
  | "C" :: rest -> let (n, r1) = p_node rest in let (b, r2) = p_items r1 in (ICall (n, b), r2)
  | "R" :: rest -> let (b, r2) = p_items rest in (IRet b, r2)
  | "L" :: l :: rest -> let (b, r2) = p_items rest in (ILine (nat_of_int (int_of_string l), b), r2)
  | _ -> failwith "items"

let tree toks = match p_node toks with (n, []) -> n | _ -> failwith "trailing"

let kname = function
  | KCall -> "c" | KRet -> "r" | KStart -> "S" | KResume -> "M" | KThrow -> "T"
  | KReturn -> "R" | KYield -> "Y" | KUnwind -> "U" | KRaise -> "X" | KLine _ -> "L"
let show_ev (k, f) = match k with
  | KLine l -> Printf.sprintf "L%d:%d" (int_of_nat f) (int_of_nat l)
  | _ -> kname k ^ string_of_int (int_of_nat f)
let show evs = if evs = [] then "-" else String.concat "," (List.map show_ev evs)


(* ---------- code-generation level ---------- *)
let fuel = nat_of_int 200000
let kind_of = function
  | "f0" -> KFunc (false, false) | "f1" -> KFunc (true, false) | "f2" -> KFunc (true, true)
  | "g00" -> KGen (false, false) | "g10" -> KGen (true, false) | "g11" -> KGen (true, true)
  | "g01" -> KGen (false, true) | _ -> failwith "kind"
let guard_of = function "a" -> as_is | "s" -> g_not_inlined | "w" -> wrap_fixed | _ -> failwith "guard"

let rec p_block toks = match toks with
  | "." :: rest -> (BNil, rest)
  | _ -> let (s, r1) = p_stmt toks in let (b, r2) = p_block r1 in (BCons (s, b), r2)
and p_stmt toks = match toks with
  | "e" :: rest -> (SExpr, rest)
  | "x" :: rest -> (SRaise, rest)
  | "r" :: rest -> (SReturn, rest)
  | "y" :: rest -> (SYield, rest)
  | "i" :: rest -> let (a, r1) = p_block rest in let (b, r2) = p_block r1 in (SIf (a, b), r2)
  | "l" :: rest -> let (a, r1) = p_block rest in let (b, r2) = p_block r1 in (SLoop (a, b), r2)
  | "t" :: rest -> let (a, r1) = p_block rest in let (b, r2) = p_block r1 in (STry (a, b), r2)
  | "n" :: rest -> let (a, r1) = p_block rest in let (b, r2) = p_block r1 in (SFin (a, b), r2)
  | _ -> failwith "stmt"

let p_func toks = match toks with
  | "F" :: k :: tf :: rest ->
      let (b, r) = p_block rest in ({ f_kind = kind_of k; f_body = b; f_tflag = bool_of_string tf }, r)
  | _ -> failwith "func"

let p_prog toks = match toks with
  | "P" :: rest ->
      let rec go acc t = match t with
        | ";" :: r -> (List.rev acc, r)
        | _ -> let (f, r) = p_func t in go (f :: acc) r in
      go [] rest
  | _ -> failwith "prog"

let p_choice w = match String.split_on_char ':' w with
  | [k; g; e] ->
      { c_kids = nat_of_int (int_of_string k); c_go = bool_of_string g;
        c_exc = (match e with "-" -> None | "c" -> Some true | "u" -> Some false | _ -> failwith "exc") }
  | _ -> failwith "choice"

let p_inst toks = match toks with
  | "I" :: rest ->
      let rec go acc t = match t with
        | "." :: r -> (List.rev acc, r)
        | w :: r -> go (p_choice w :: acc) r
        | [] -> failwith "inst" in
      go [] rest
  | _ -> failwith "inst"

let p_oracles toks = match toks with
  | "O" :: rest ->
      let rec go acc t = match t with
        | ";" :: r -> (Array.of_list (List.rev acc), r)
        | _ -> let (i, r) = p_inst t in go (i :: acc) r in
      go [] rest
  | _ -> failwith "oracles"

let rec p_xt orc toks = match toks with
  | "N" :: f :: inst :: k :: rest ->
      let (kids, r) = p_xts orc rest in
      (XT (nat_of_int (int_of_string f), orc.(int_of_string inst), fuel, nat_of_int (int_of_string k), kids), r)
  | _ -> failwith "xt"
and p_xts orc toks = match toks with
  | "." :: rest -> (XNil, rest)
  | _ -> let (x, r1) = p_xt orc toks in let (xs, r2) = p_xts orc r1 in (XCons (x, xs), r2)

let tname = function
  | TStart SCall -> "Sc" | TStart SGenStart -> "Sg" | TStart SResume -> "Sr" | TStart SThrow -> "St"
  | TStart SCloseUnstarted -> "Su" | TKid -> "K" | TLine -> "L" | TRet -> "R" | TYield -> "Y" | TUnwind -> "U"
let ename = function
  | EMark -> "|" | EFall -> "R" | EGotoRet -> "goto_ret" | EErrLabel -> "ERR:" | EIfExc -> "ifexc"
  | EExc -> "X" | EUnw -> "U"

let handle_gen = function
  | "gw" :: t :: fx :: lt :: g :: toks ->
      let (prog, r1) = p_prog toks in
      let (orc, r2) = p_oracles r1 in
      let (x, r3) = p_xt orc r2 in
      if r3 <> [] then failwith "trailing" else
      let fx = bool_of_string fx and g = guard_of g in
      let w = word g fx (tool_of t) (bool_of_string lt) prog x in
      Some (Printf.sprintf "%s %s %s %s | %s"
        (string_of_bool (prog_ok g fx prog)) (string_of_bool (complete g fx prog x))
        (string_of_bool (match to_node g fx prog x with Some _ -> true | None -> false))
        (string_of_bool (well_nested w)) (show w))
  | "gfun" :: g :: toks ->
      let (f, r) = p_func toks in
      if r <> [] then failwith "trailing" else
      Some (Printf.sprintf "%s %s %s | %s"
        (string_of_bool (is_term f.f_body)) (string_of_bool (clean_b O f.f_body))
        (string_of_bool (func_ok (guard_of g) false f))
        (String.concat " " (List.map ename (epilogue (guard_of g) f.f_kind f.f_tflag))))
  | "gseg" :: fx :: g :: toks ->
      let (f, r1) = p_func toks in
      let (o, r2) = p_inst r1 in
      if r2 <> [] then failwith "trailing" else
      let (tk, out) = run (guard_of g) (bool_of_string fx) f fuel o in
      Some (String.concat " " (List.map (fun t -> match t with TYield -> "Y /" | _ -> tname t) tk)
            ^ (match out with ONormal -> " =n" | OReturn _ -> " =r" | ORaise _ -> " =x" | OAbandon -> " =a" | OStuck -> " =s"))
  | _ -> None

let handle_old = function
  | "cy" :: t :: fx :: lt :: toks ->
      show (ev_cy (tool_of t) (bool_of_string fx) (bool_of_string lt) (tree toks))
  | "py" :: t :: lt :: toks -> show (ev_py (tool_of t) (bool_of_string lt) (tree toks))
  | "chk" :: t :: fx :: lt :: toks ->
      let n = tree toks in
      let evs = ev_cy (tool_of t) (bool_of_string fx) (bool_of_string lt) n in
      Printf.sprintf "%s %s %d %d %d %s %s"
        (string_of_bool (well_nested evs)) (string_of_bool (nests_as evs n))
        (int_of_nat (size n)) (int_of_nat (count_class CStart evs)) (int_of_nat (count_class CEnd evs))
        (string_of_bool (clean n)) (string_of_bool (started n))
  | _ -> "!ERR badcmd"

let handle ws = match handle_gen ws with Some r -> r | None -> handle_old ws

let () = main_loop handle
