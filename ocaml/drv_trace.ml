(* driver for m_trace.
   tree tokens (prefix):  N <f> <s> <e> item* .     item = C <node> | R | L <line>
     s in c g r t u  (SCall SGenStart SResume SThrow SCloseUnstarted)
     e in r x y p    (EReturn ERaise EYield EPending)
   commands:
     cy  <tool l|m> <fx 0|1> <lt 0|1> <tree...>   -> events of the generated code
     py  <tool l|m> <lt 0|1> <tree...>            -> events of CPython
     chk <tool> <fx> <lt> <tree...>               -> "<well_nested> <nests_as> <size> <starts> <ends> <clean> <started>"
   events are printed as  <kind><f>  (line events  L<f>:<line>) separated by commas *)
let skind_of = function
  | "c" -> SCall | "g" -> SGenStart | "r" -> SResume | "t" -> SThrow | "u" -> SCloseUnstarted
  | _ -> failwith "skind"
let ekind_of = function
  | "r" -> EReturn | "x" -> ERaise | "y" -> EYield | "p" -> EPending | _ -> failwith "ekind"
let tool_of = function "l" -> Legacy | "m" -> Monitoring | _ -> failwith "tool"

let rec p_node toks = match toks with
  | "N" :: f :: s :: e :: rest ->
      let (b, rest') = p_items rest in
      (Node (nat_of_int (int_of_string f), skind_of s, b, ekind_of e), rest')
  | _ -> failwith "node"
and p_items toks = match toks with
  | "." :: rest -> (INil, rest)
  | "C" :: rest -> let (n, r1) = p_node rest in let (b, r2) = p_items r1 in (ICall (n, b), r2)
  | "R" :: rest -> let (b, r2) = p_items rest in (IRet b, r2)
  | "L" :: l :: rest -> let (b, r2) = p_items rest in (ILine (nat_of_int (int_of_string l), b), r2)
  | _ -> failwith "items"

let tree toks = match p_node toks with (n, []) -> n | _ -> failwith "trailing"

let kname = function
  | KCall -> "c" | KRet -> "r" | KStart -> "S" | KResume -> "M" | KThrow -> "T"
  | KReturn -> "R" | KYield -> "Y" | KUnwind -> "U" | KRaise -> "X" | KLine _ -> "L"
let show_ev (k, f) = match k with
  | KLine l -> Printf.sprintf "L%d:%d" (int_of_nat f) (int_of_nat l)
  | _ -> kname k ^ string_of_int (int_of_nat f)
let show evs = if evs = [] then "-" else String.concat "," (List.map show_ev evs)

let handle = function
  | "cy" :: t :: fx :: lt :: toks ->
      show (ev_cy (tool_of t) (bool_of_string fx) (bool_of_string lt) (tree toks))
  | "py" :: t :: lt :: toks -> show (ev_py (tool_of t) (bool_of_string lt) (tree toks))
  | "chk" :: t :: fx :: lt :: toks ->
      let n = tree toks in
      let evs = ev_cy (tool_of t) (bool_of_string fx) (bool_of_string lt) n in
      Printf.sprintf "%s %s %d %d %d %s %s"
        (string_of_bool (well_nested evs)) (string_of_bool (nests_as evs n))
        (int_of_nat (size n)) (int_of_nat (count_class CStart evs)) (int_of_nat (count_class CEnd evs))
        (string_of_bool (clean n)) (string_of_bool (started n))
  | _ -> "!ERR badcmd"

let () = main_loop handle
