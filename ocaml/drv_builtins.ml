(* driver for m_builtins (C13) *)
let exc_name = function
  | IndexError -> "IndexError" | KeyError -> "KeyError" | TypeError -> "TypeError"
  | ValueError -> "ValueError" | OverflowError -> "OverflowError" | CmpError -> "ZeroDivisionError"

let show f = function Ok v -> "V " ^ f v | Raise e -> exc_name e | UB -> "UB"
let show_pop = show (fun (v, l) -> string_of_z v ^ " " ^ string_of_zlist l)
let show_bool = show (fun b -> if b then "1" else "0")
let show_range = function None -> "E" | Some (o, n) -> string_of_z o ^ " " ^ string_of_z n
let show_trace t = if t = [] then "-" else String.concat ";" (List.map (fun (a, b) -> string_of_z a ^ ":" ^ string_of_z b) t)
let opt_of_string s = if s = "N" then None else Some (z_of_string s)
let key_of_string s = if s = "U" then KUnhashable else KInt (z_of_string s)
(* dict as k:v,k:v *)
let dict_of_string s =
  List.map (fun kv -> match String.split_on_char ':' kv with
    | [k; v] -> (z_of_string k, z_of_string v) | _ -> failwith "dict") (split_on ',' s)
let string_of_dict d = if d = [] then "-" else String.concat "," (List.map (fun (k, v) -> string_of_z k ^ ":" ^ string_of_z v) d)
let show_vd = show (fun (v, d) -> string_of_z v ^ " " ^ string_of_dict d)
(* element of a tuple of prefixes: hex bytes or T (not bytes-like: TypeError) *)
let single_of fixed s start stop dir sub =
  if sub = "T" then Raise TypeError else pyx_bytes_single fixed s (zbytes_of_hex sub) start stop dir
let pysingle_of s start stop dir sub =
  if sub = "T" then Raise TypeError else Ok (py_tailmatch s (zbytes_of_hex sub) start stop dir)
let digit c = Char.code c - 48
(* comparison table: n x n digits, 0/1 = result, 2 = raises *)
let cmp_of n tab = fun a b ->
  let d = digit tab.[(int_of_z a) * n + (int_of_z b)] in
  if d = 2 then None else Some (d = 1)
let fn_of tab = fun x -> let d = digit tab.[int_of_z x] in if d = 2 then None else Some (d = 1)

let handle = function
  | ["popindex"; alloc; ix; l] -> show_pop (pyx_list_popindex_macro (zlist_of_string l) (z_of_string alloc) (z_of_string ix))
  | ["pypop"; ix; l] -> show_pop (py_list_pop (zlist_of_string l) (z_of_string ix))
  | ["pop"; alloc; l] -> show_pop (pyx_list_pop (zlist_of_string l) (z_of_string alloc))
  | ["tail"; fixed; dir; start; stop; s; sub] ->
      show_bool (pyx_bytes_single (bool_of_string fixed) (zbytes_of_hex s) (zbytes_of_hex sub) (z_of_string start) (z_of_string stop) (z_of_string dir))
  | ["pytail"; dir; start; stop; s; sub] ->
      show_bool (Ok (py_tailmatch (zbytes_of_hex s) (zbytes_of_hex sub) (z_of_string start) (z_of_string stop) (z_of_string dir)))
  | ["tailtuple"; fixed; dir; start; stop; s; subs] ->
      show_bool (pyx_tuple_loop (single_of (bool_of_string fixed) (zbytes_of_hex s) (z_of_string start) (z_of_string stop) (z_of_string dir))
                   (split_on ',' subs))
  | ["pytailtuple"; dir; start; stop; s; subs] ->
      show_bool (py_tuple_match (pysingle_of (zbytes_of_hex s) (z_of_string start) (z_of_string stop) (z_of_string dir)) (split_on ',' subs))
  | ["decrange"; len; a; b] -> show_range (pyx_decode_c_bytes_range (z_of_string len) (z_of_string a) (z_of_string b))
  | ["subrange"; len; a; b] -> show_range (pyx_substring_range (z_of_string len) (z_of_string a) (z_of_string b))
  | ["cstrrange"; len; a; b] -> show_range (pyx_decode_c_string_range (z_of_string len) (z_of_string a) (z_of_string b))
  | ["pyrange"; len; a; b] -> show_range (py_slice_range (z_of_string len) (z_of_string a) (z_of_string b))
  | ["abs"; w; ovf; x] -> show string_of_z (pyx_abs_c (z_of_string w) (bool_of_string ovf) (z_of_string x))
  | ["pyabs"; w; x] -> show string_of_z (py_abs_c (z_of_string w) (z_of_string x))
  | ["ord"; fixed; kind; l] ->
      let l = zlist_of_string l in
      let o = (match kind with "s" -> OStr l | "b" -> OBytes l | "a" -> OByteArray l | _ -> OOther) in
      show string_of_z (pyx_ord (bool_of_string fixed) o)
  | ["pyord"; kind; l] ->
      let l = zlist_of_string l in
      let o = (match kind with "s" -> OStr l | "b" -> OBytes l | "a" -> OByteArray l | _ -> OOther) in
      show string_of_z (py_ord o)
  | ["chr"; v] -> show string_of_z (pyx_chr (z_of_string v))
  | ["pychr"; v] -> show string_of_z (py_chr (z_of_string v))
  | ["dget"; d; k; dflt] -> show string_of_z (pyx_dict_get (dict_of_string d) (key_of_string k) (z_of_string dflt))
  | ["pydget"; d; k; dflt] -> show string_of_z (py_dict_get (dict_of_string d) (key_of_string k) (z_of_string dflt))
  | ["dpop313"; d; k; dflt] -> show_vd (pyx_dict_pop_313 (dict_of_string d) (key_of_string k) (opt_of_string dflt))
  | ["pydpop"; d; k; dflt] -> show_vd (py_dict_pop (dict_of_string d) (key_of_string k) (opt_of_string dflt))
  | ["dpopign"; d; k] -> show string_of_dict (pyx_dict_pop_ignore (dict_of_string d) (key_of_string k))
  | ["dsetdefault"; d; k; dflt] -> show_vd (pyx_dict_setdefault (dict_of_string d) (key_of_string k) (z_of_string dflt))
  | ["pydsetdefault"; d; k; dflt] -> show_vd (py_dict_setdefault (dict_of_string d) (key_of_string k) (z_of_string dflt))
  | ["minmax"; n; tab; xs] ->
      let (o, t) = pyx_minmax (cmp_of (int_of_string n) tab) (zlist_of_string xs) in
      show string_of_z o ^ " | " ^ show_trace t
  | ["pyminmax"; n; tab; xs] ->
      let (o, t) = py_minmax (cmp_of (int_of_string n) tab) (zlist_of_string xs) in
      show string_of_z o ^ " | " ^ show_trace t
  | ["anyall"; is_any; ftab; ptab; xs] ->
      let (o, t) = pyx_anyall (fn_of ftab) (fn_of ptab) (bool_of_string is_any) (zlist_of_string xs) in
      show_bool o ^ " | " ^ string_of_zlist t
  | ["pyanyall"; is_any; ftab; ptab; xs] ->
      let (o, t) = py_anyall (fn_of ftab) (fn_of ptab) (bool_of_string is_any) (zlist_of_string xs) in
      show_bool o ^ " | " ^ string_of_zlist t
  | _ -> "!ERR badcmd"

let () = main_loop handle
