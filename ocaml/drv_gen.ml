(* driver for m_gen:
   run <cy|py> <coro> <fx4> <depth> <k0> <rows> <subs> <history>
     rows: flat comma list of (label,cls,tag,a,b)*, "-" if empty
     subs: '/'-separated "kind,k0,caps,v1,..", "-" if none
     history: ','-separated tokens n | sN | s<int> | t<cls>[:<v>] | c | d
   probe <coro> <fx4> <token> *)
let sval = function VNone -> "N" | VInt z -> string_of_z z
let sexc e =
  let c = string_of_z (exc_cls e) in
  match e with
  | EStopIter v -> c ^ ":" ^ sval v
  | ERuntime m | EType m | EValue m -> c ^ ":" ^ string_of_z m
  | _ -> c ^ ":"
let sinput = function ISend v -> "s" ^ sval v | IThrow e -> "x" ^ sexc e
let sres = function
  | RYield v -> "Y" ^ sval v
  | RRaise e -> "E" ^ sexc e
  | RNone -> "N"
  | RUnraisable e -> "U" ^ sexc e
  | RWarn -> "W"
let slog l = String.concat "+" (List.map (fun (k, i) -> string_of_z k ^ "/" ^ sinput i) l)
let val_of_tok s = if s = "N" then VNone else VInt (z_of_string s)
let exc_of_cls c v =
  match c with
  | 2 -> EGenExit | 3 -> EStopIter v | 4 -> ERuntime (z_of_int 50) | 5 -> EType (z_of_int 50)
  | 6 -> EValue (z_of_int 50) | 7 -> EAttr | n -> EUser (z_of_int (n - 10))
let op_of_tok t =
  let n = String.length t in
  match t.[0] with
  | 'n' -> Next
  | 's' -> Send (val_of_tok (String.sub t 1 (n - 1)))
  | 't' ->
      let body = String.sub t 1 (n - 1) in
      (match String.split_on_char ':' body with
       | [c] -> Throw (exc_of_cls (int_of_string c) VNone)
       | [c; v] -> Throw (exc_of_cls (int_of_string c) (val_of_tok v))
       | _ -> failwith "badthrow")
  | 'c' -> Close
  | 'd' -> Del
  | _ -> failwith "badop"
let fx_of_string s =
  let b i = s.[i] = '1' in
  { fx_first_send = b 0; fx_throw_si_fresh = b 1; fx_close_ret = b 2; fx_si_at_yf = b 3;
    fx_ag_fresh_del = (String.length s > 4 && b 4) }
let rec rows_of = function
  | l :: c :: t :: a :: b :: rest -> { r_label = l; r_cls = c; r_tag = t; r_a = a; r_b = b } :: rows_of rest
  | [] -> []
  | _ -> failwith "badrows"
let sub_of s =
  match zlist_of_string s with
  | k :: k0 :: caps :: vals -> { sp_kind = k; sp_k0 = k0; sp_caps = caps; sp_vals = vals }
  | _ -> failwith "badsub"
let has_fuel s =
  let m = "999999" in
  let n = String.length s and k = String.length m in
  let rec go i = i + k <= n && (String.sub s i k = m || go (i + 1)) in go 0

let handle = function
  | ["run"; impl; coro; fx; d; k0; rows; subs; hist] ->
      let tbl = { t_rows = rows_of (zlist_of_string rows);
                  t_subs = (if subs = "-" then [] else List.map sub_of (String.split_on_char '/' subs)) } in
      let h = if hist = "-" then [] else List.map op_of_tok (String.split_on_char ',' hist) in
      let co = bool_of_string coro in
      let tr =
        if impl = "cy" then run_table_cy tbl co (fx_of_string fx) (nat_of_int (int_of_string d)) (z_of_string k0) h
        else run_table_py tbl co (nat_of_int (int_of_string d)) (z_of_string k0) h in
      let out = String.concat ";" (List.map (fun (r, l) -> sres r ^ "|" ^ slog l) tr) in
      if has_fuel out then "!FUEL " ^ out else out
  | ["probe"; coro; fx; tok] ->
      sres (running_probe_cy (bool_of_string coro) (fx_of_string fx) (op_of_tok tok))
  | _ -> "!ERR badcmd"

let () = main_loop handle
