(* driver for m_floatops.  A double is one token:
     z0 z1 (zeros, sign)  i0 i1 (infinities)  n (NaN)  f<s>:<m>:<e> (finite, canonical mantissa/exponent)
   commands: mod <fixed> a b | pymod a b | fdiv <fixed> a b | pyfdiv a b | tdiv a b
             add|sub|mul a b | eq|lt|le a b | valid a *)
let pos_of_z = function Zpos p -> p | _ -> failwith "mantissa"
let f_of_tok t =
  match t with
  | "z0" -> S754_zero false | "z1" -> S754_zero true
  | "i0" -> S754_infinity false | "i1" -> S754_infinity true
  | "n" -> S754_nan
  | _ ->
    (match String.split_on_char ':' (String.sub t 1 (String.length t - 1)) with
     | [s; m; e] -> S754_finite (s = "1", pos_of_z (z_of_string m), z_of_string e)
     | _ -> failwith "float token")
let tok_of_f = function
  | S754_zero s -> if s then "z1" else "z0"
  | S754_infinity s -> if s then "i1" else "i0"
  | S754_nan -> "n"
  | S754_finite (s, m, e) -> "f" ^ (if s then "1" else "0") ^ ":" ^ string_of_z (Zpos m) ^ ":" ^ string_of_z e
let tok_of_res = function FVal v -> tok_of_f v | FZeroDiv -> "ZeroDivisionError"

let handle = function
  | ["mod"; fx; a; b] -> tok_of_res (mod_node_x (bool_of_string fx) (f_of_tok a) (f_of_tok b))
  | ["pymod"; a; b] -> tok_of_res (py_float_rem_x (f_of_tok a) (f_of_tok b))
  | ["fdiv"; fx; a; b] -> tok_of_res (floordiv_node_x (bool_of_string fx) (f_of_tok a) (f_of_tok b))
  | ["pyfdiv"; a; b] -> tok_of_res (py_float_floor_div_x (f_of_tok a) (f_of_tok b))
  | ["tdiv"; a; b] -> tok_of_res (truediv_node (f_of_tok a) (f_of_tok b))
  | ["add"; a; b] -> tok_of_f (fadd (f_of_tok a) (f_of_tok b))
  | ["sub"; a; b] -> tok_of_f (fsub (f_of_tok a) (f_of_tok b))
  | ["mul"; a; b] -> tok_of_f (fmul (f_of_tok a) (f_of_tok b))
  | ["eq"; a; b] -> string_of_bool (feqb (f_of_tok a) (f_of_tok b))
  | ["lt"; a; b] -> string_of_bool (fltb (f_of_tok a) (f_of_tok b))
  | ["le"; a; b] -> string_of_bool (fleb (f_of_tok a) (f_of_tok b))
  | ["valid"; a] -> string_of_bool (fvalid (f_of_tok a))
  | ["fmod"; a; b] -> tok_of_f (fmod_exact (f_of_tok a) (f_of_tok b))
  | ["floor"; a] -> tok_of_f (floor_exact (f_of_tok a))
  | _ -> "!ERR badcmd"

let () = main_loop handle
