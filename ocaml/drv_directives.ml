(* driver for m_directives.
   strings: comma separated code points, "-" = empty.
   value: B1 B0 I<z> S<str> N L<str>|<str>...   dict: "-" or <name>=<value>;...  codec: "-" or <str>=<cls>;...
   pv <relaxed> <name> <text> <codec>
   pl <strict> <relaxed> <ignore_unknown> <cur dict> <text> <codec>
   int <text>
   sc <directive> <scope>
   docsc <directive> <scope>      legal according to the documented placement table
   docscn                         names of the documented placement table
   docimm / docbeh / imm          documented immediate decorators / behaviour directives / dumped immediate set
   vm <options dict> <header dict> <queried names ;-separated> <forest tokens ...>
      forest := [ tree* ]   tree := ( <kind F|C|X|W|P> <sets dict (ordered, may repeat names)> forest )
*)
let str_of s = nlist_of_string s
let enc_str (s : str) = string_of_nlist s

let split_nonempty c s = if s = "" || s = "-" then [] else String.split_on_char c s

let dec_value (s : string) : value =
  let rest = String.sub s 1 (String.length s - 1) in
  match s.[0] with
  | 'B' -> VBool (rest = "1")
  | 'I' -> VInt (z_of_string rest)
  | 'S' -> VStr (str_of rest)
  | 'N' -> VNone
  | 'L' -> VList (if rest = "" then [] else List.map str_of (String.split_on_char '|' rest))
  | _ -> failwith "value"

let enc_value = function
  | VBool b -> if b then "B1" else "B0"
  | VInt z -> "I" ^ string_of_z z
  | VStr s -> "S" ^ enc_str s
  | VNone -> "N"
  | VList l -> "L" ^ String.concat "|" (List.map enc_str l)

let dec_pair f s =
  match String.index_opt s '=' with
  | None -> failwith "pair"
  | Some i -> (str_of (String.sub s 0 i), f (String.sub s (i + 1) (String.length s - i - 1)))

let dec_dict s : dict = List.map (dec_pair dec_value) (split_nonempty ';' s)
let enc_dict (d : dict) =
  if d = [] then "-" else String.concat ";" (List.map (fun (k, v) -> enc_str k ^ "=" ^ enc_value v) d)
let dec_codec s = List.map (dec_pair n_of_string) (split_nonempty ';' s)

let enc_err = function
  | EBadBool -> "EBadBool" | EBadInt -> "EBadInt" | EBadEnum -> "EBadEnum" | ETypeError -> "ETypeError"
  | EAssertion -> "EAssertion" | EAttribute -> "EAttribute" | EExpectedEq -> "EExpectedEq" | EUnknown -> "EUnknown" | ECodec -> "ECodec" | ENotSettable -> "ENotSettable"

let kind_of = function
  | "F" -> KFunc | "C" -> KClass | "X" -> KCClass | "W" -> KWith | "P" -> KProbe | _ -> failwith "kind"

(* recursive-descent over the token list *)
let rec p_forest toks =
  match toks with
  | "[" :: r -> p_trees r []
  | _ -> failwith "forest"
and p_trees toks acc =
  match toks with
  | "]" :: r -> (List.rev acc, r)
  | "(" :: k :: sets :: r ->
      let (ch, r2) = p_forest r in
      (match r2 with
       | ")" :: r3 -> p_trees r3 (Node (kind_of k, dec_dict sets, ch) :: acc)
       | _ -> failwith "tree")
  | _ -> failwith "trees"

let optv = function Some v -> enc_value v | None -> "?"

let rec dump q (a : atree) (buf : Buffer.t) =
  (match a with
   | ANode (_, nd, body, _) ->
       Buffer.add_string buf (" N:" ^ String.concat "~" (List.map (fun k -> optv (get k nd)) q)
                              ^ "/" ^ String.concat "~" (List.map (fun k -> optv (get k body)) q))
   | AProbe d ->
       Buffer.add_string buf (" P:" ^ String.concat "~" (List.map (fun k -> optv (get k d)) q)));
  (match a with
   | ANode (_, _, _, ch) -> List.iter (fun c -> dump q c buf) ch
   | AProbe _ -> ())

let handle = function
  | ["pv"; relaxed; name; text; codec] ->
      (match g_parse_value (dec_codec codec) (bool_of_string relaxed) (str_of name) (str_of text) with
       | Ok v -> "OK " ^ enc_value v
       | Err (e, w) -> "ERR " ^ enc_err e ^ " " ^ enc_str w)
  | ["pl"; strict; relaxed; ignore; cur; text; codec] ->
      (match g_parse_list (bool_of_string strict) (dec_codec codec) (bool_of_string relaxed) (bool_of_string ignore) (dec_dict cur) (str_of text) with
       | Ok d -> "OK " ^ enc_dict d
       | Err (e, w) -> "ERR " ^ enc_err e ^ " " ^ enc_str w)
  | ["int"; text] ->
      (match g_py_int (str_of text) with Some z -> "OK " ^ string_of_z z | None -> "ERR")
  | ["lower"; t] -> enc_str (lower (str_of t))
  | ["strip"; t] -> enc_str (strip (str_of t))
  | ["space"; c] -> string_of_bool (py_isspace (n_of_string c))
  | ["docimm"] -> String.concat ";" (List.map enc_str doc_immediate)
  | ["docbeh"] -> String.concat ";" (List.map enc_str doc_behaviour)
  | ["docscn"] -> String.concat ";" (List.map (fun (k, _) -> enc_str k) doc_scopes)
  | ["imm"] -> String.concat ";" (List.map enc_str g_immediate)
  | ["docsc"; d; scope] -> string_of_bool (doc_scope_ok (str_of d) (str_of scope))
  | ["sc"; d; scope] -> string_of_bool (g_scope_ok (str_of d) (str_of scope))
  | "vm" :: options :: header :: q :: toks ->
      let (forest, rest) = p_forest toks in
      if rest <> [] then failwith "trailing tokens" else begin
        let q = List.map str_of (split_nonempty ';' q) in
        let (((md, l), st), rej) = g_visit_module (dec_dict options) (dec_dict header) forest in
        let buf = Buffer.create 256 in
        Buffer.add_string buf ("M:" ^ String.concat "~" (List.map (fun k -> optv (get k md)) q));
        List.iter (fun a -> dump q a buf) l;
        Buffer.add_string buf (" R:" ^ String.concat ";" (List.map (fun (n, s) -> enc_str n ^ "@" ^ enc_str s) rej));
        Buffer.add_string buf (" S:" ^ (if st = md then "1" else "0"));
        Buffer.contents buf
      end
  | _ -> "!ERR badcmd"

let () = main_loop handle
